import CohdlVerif.Model.Sexp
import CohdlVerif.Model.Fifo

open CohdlVerif

/-- dispatch table: first token of a request line selects the model entry point.
    Every handler maps the remaining tokens to exactly one answer line. -/
def dispatch (cmd : String) (args : List String) (line : String) : String :=
  match cmd with
  | "ping" => "pong " ++ " ".intercalate args
  | "sexp" => match Sexp.parse (" ".intercalate args) with
      | some s => toString s
      | none => "bad-sexp"
  | "c14" => CohdlVerif.C14.handle args
  | _ => "bad-op"

partial def loop (h : IO.FS.Stream) (out : IO.FS.Stream) : IO Unit := do
  let line ← h.getLine
  if line.isEmpty then return ()
  let toks := (line.trimAscii.toString.splitOn " ").filter (· ≠ "")
  match toks with
  | [] => out.putStrLn ""
  | cmd :: args => out.putStrLn (dispatch cmd args line)
  loop h out

def main : IO Unit := do
  let stdin ← IO.getStdin
  let stdout ← IO.getStdout
  loop stdin stdout
