import CohdlVerif.Model.DriverLoop
import CohdlVerif.Model.C12Driver
-- model driver of property C12:  `flat <design> | <clocks>` | `hier <design> | <clocks>` | `emit <design>`
def main : IO Unit := CohdlVerif.driverLoop CohdlVerif.C12.handle
