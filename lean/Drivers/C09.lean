import CohdlVerif.Model.DriverLoop
import CohdlVerif.Model.C09
-- model driver of property C09:  `bin <op> <a> <b>` | `un <op> <a>` | `par <op> <a> <p1> <p2>` | `binold <op> <a> <b>`
def main : IO Unit := CohdlVerif.driverLoop CohdlVerif.C09.handle
