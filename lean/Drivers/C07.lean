import CohdlVerif.Model.DriverLoop
import CohdlVerif.Model.C07
-- model driver of property C07:  `check kinds <chars> {ctx ..} {inst ..}` -> `<fixed ok|rej> <unfixed ok|rej> <drivers> <users>`
def main : IO Unit := CohdlVerif.driverLoop CohdlVerif.C07.handle
