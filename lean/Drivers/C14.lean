import CohdlVerif.Model.DriverLoop
import CohdlVerif.Model.Fifo
import CohdlVerif.Model.C14ExtFifo
-- model driver of property C14:  `fifo N op*` | `stack MODE N op*` | `dfifo N TXD RXD tok*` | `dstep ...` (delayed Fifo)
def main : IO Unit := CohdlVerif.driverLoop CohdlVerif.C14.handleExt
