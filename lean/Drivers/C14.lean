import CohdlVerif.Model.DriverLoop
import CohdlVerif.Model.Fifo
-- model driver of property C14:  `fifo N op*` | `stack MODE N op*`
def main : IO Unit := CohdlVerif.driverLoop CohdlVerif.C14.handle
