import CohdlVerif.Model.DriverLoop
import CohdlVerif.Model.C05
-- model driver of property C05: `ok|ok0 FORM T SRC`, `spec T SRC`, `merge T SRC SRC`, `join SRC SRC`,
-- `conv T S x`, `convlit T SRC`, `cast FORM T S x`  (see Model/C05.lean, "line protocol")
def main : IO Unit := CohdlVerif.driverLoop CohdlVerif.C05.handle
