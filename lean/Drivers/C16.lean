import CohdlVerif.Model.DriverLoop
import CohdlVerif.Model.C16Timing
-- model driver of property C16: `wait` | `delay` | `cc` | `div` | `tog` | `deb` | `cp` (see Model/C16Timing.lean)
def main : IO Unit := CohdlVerif.driverLoop CohdlVerif.C16.handle
