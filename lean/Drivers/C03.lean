import CohdlVerif.Model.DriverLoop
import CohdlVerif.Model.C03Driver
-- model driver of property C03: `Seq.activate` / `procStep ∘ lowerSeq` on generated context bodies
def main : IO Unit := CohdlVerif.driverLoop CohdlVerif.C03.handle
