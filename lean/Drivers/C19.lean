import CohdlVerif.Model.DriverLoop
import CohdlVerif.Model.C19
-- model driver of property C19:  resize | arith | ctor | eq  (protocol: end of Model/C19.lean)
def main : IO Unit := CohdlVerif.driverLoop CohdlVerif.C19.handle
