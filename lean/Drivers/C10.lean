import CohdlVerif.Model.DriverLoop
import CohdlVerif.Model.C10
-- model driver of property C10: bind / cpybind / split / bool / pybool / not / chain / pychain / binop* / cmp*
def main : IO Unit := CohdlVerif.driverLoop CohdlVerif.C10.handle
