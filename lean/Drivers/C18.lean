import CohdlVerif.Model.DriverLoop
import CohdlVerif.Model.C18Driver
-- model driver of property C18: `<op> <decimal args>` -> `<spec> <mirror>` (see Model/C18Driver.lean)
def main : IO Unit := CohdlVerif.driverLoop CohdlVerif.C18.handle
