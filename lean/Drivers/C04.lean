import CohdlVerif.Model.DriverLoop
import CohdlVerif.Model.C04
-- model driver of property C04:  `info ...` | `step ...`  (protocol: Model/C04.lean)
def main : IO Unit := CohdlVerif.driverLoop CohdlVerif.C04.handle
