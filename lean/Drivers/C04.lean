import CohdlVerif.Model.DriverLoop
-- model driver of property C04 (stub: no model entry points yet)
def main : IO Unit := CohdlVerif.driverLoop (fun _ => "bad-op")
