import CohdlVerif.Model.DriverLoop
import CohdlVerif.Model.C06Driver
-- model driver of property C06: pick / san / valid / lower / raw / assign  (see Model/C06Driver.lean)
def main : IO Unit := CohdlVerif.driverLoop CohdlVerif.C06.handle
