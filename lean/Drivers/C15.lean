import CohdlVerif.Model.DriverLoop
import CohdlVerif.Model.C15
-- model driver of property C15:  `run G TXD RXD tok*` | `step G TXC RXC DATA RXDATA tok` | `accepts SAME TXD RXD`
def main : IO Unit := CohdlVerif.driverLoop CohdlVerif.C15.handle
