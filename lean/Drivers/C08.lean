import CohdlVerif.Model.DriverLoop
import CohdlVerif.Model.C08
-- model driver of property C08:  `check <tcode-sexp>` -> `<acc|rej> <ok|bad> <faulting path|->`
def main : IO Unit := CohdlVerif.driverLoop CohdlVerif.C08.handle
