import CohdlVerif.Model.DriverLoop
import CohdlVerif.Model.C20
-- model driver of property C20:  `sim ...` | `decode ...` | `flat ...`  (see Model/C20.lean, "line protocol")
def main : IO Unit := CohdlVerif.driverLoop CohdlVerif.C20.handle
