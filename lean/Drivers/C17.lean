import CohdlVerif.Model.DriverLoop
import CohdlVerif.Model.C17
-- model driver of property C17: `count T` | `tobits T V` | `frombits T BITS` | `spec-*` | `offsets T` | `bfread ..` | `bfwrite ..`
def main : IO Unit := CohdlVerif.driverLoop CohdlVerif.C17.handle
