import CohdlVerif.Model.DriverLoop
import CohdlVerif.Model.C11
-- model driver of property C11:  `run <cfg bits> <perm> <script> (; <script>)*`
def main : IO Unit := CohdlVerif.driverLoop CohdlVerif.C11.handle
