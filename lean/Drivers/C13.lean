import CohdlVerif.Model.DriverLoop
import CohdlVerif.Model.C13Driver
-- model driver of property C13:  `hist REQ ; ...` | `view W VT OP*` | `wr W BITS (OP* = BITS /)*`
def main : IO Unit := CohdlVerif.driverLoop CohdlVerif.C13.handle
