import CohdlVerif.Model.DriverLoop
import CohdlVerif.Model.CoroDriver
-- model driver of property C01: validate | reftrace | smtrace  (see Model/CoroDriver.lean)
def main : IO Unit := CohdlVerif.driverLoop CohdlVerif.C01.handle
