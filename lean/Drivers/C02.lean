import CohdlVerif.Model.DriverLoop
import CohdlVerif.Model.C02Driver
-- model driver of property C02:  `type EXPR` | `eval EXPR (v..) (v..)..` | `lower EXPR`
def main : IO Unit := CohdlVerif.driverLoop CohdlVerif.C02.handle
