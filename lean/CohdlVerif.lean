-- root of the library: importing every Props module makes `lake build CohdlVerif` re-check every theorem
import CohdlVerif.Model.Sexp
import CohdlVerif.Props.C14
