import CohdlVerif.Model.Sexp
import CohdlVerif.Model.C02
/-
  C02 - line protocol of the model driver.
    type  EXPR                       -> `bit` `bool` `bv4` `u4` `s4` `int` | `err-width` `err-kind` `err-int` `err-index` `err-sub`
    eval  EXPR (v0 v1 ..) (v0 ..) .. -> one value per valuation (`undef` = outside the documented domain,
                                        `MODEL-MISMATCH` if evalV (lower e) differs from inj (evalSpec e))
    lower EXPR                       -> the VHDL expression the model expects (temporaries inlined), ports p<i>
  EXPR ::= (p i T) | (lit T v) | (i k) | (ar OP a b) | (bo OP a b) | (inv a) | (neg a) | (abs a) | (cmp OP a b)
         | (shl a n) | (shr a n) | (cat a b) | (idx a i) | (slc a hi lo) | (idxrt a n) | (sgn a) | (uns a) | (bv a)
         | (rsz a w) | (conv a T) | (truth a) | (not a) | (and a b) | (or a b) | (ite c a b) | (sel arg key e rest)
-/
namespace CohdlVerif.C02

def parseTy (s : String) : Option Ty :=
  if s == "bit" then some .bit
  else if s == "bool" then some .bool
  else if s == "int" then some .int
  else match s.toList with
    | 'b' :: 'v' :: r => (String.ofList r).toNat?.map .bv
    | 'u' :: r => (String.ofList r).toNat?.map .uns
    | 's' :: r => (String.ofList r).toNat?.map .sgn
    | _ => none

def showTy : Ty → String
  | .bit => "bit" | .bool => "bool" | .int => "int"
  | .bv w => s!"bv{w}" | .uns w => s!"u{w}" | .sgn w => s!"s{w}"

def parseA (s : String) : Option AOp :=
  match s with
  | "add" => some .add | "sub" => some .sub | "mul" => some .mul
  | "div" => some .div | "mod" => some .mod | "rem" => some .rem
  | _ => none

def parseL (s : String) : Option LOp :=
  match s with
  | "and" => some .and | "or" => some .or | "xor" => some .xor
  | _ => none

def parseC (s : String) : Option COp :=
  match s with
  | "eq" => some .eq | "ne" => some .ne | "lt" => some .lt
  | "gt" => some .gt | "le" => some .le | "ge" => some .ge
  | _ => none

partial def parseExpr : Sexp → Option Expr
  | .list [.atom "p", .atom i, .atom t] => do pure (.port (← i.toNat?) (← parseTy t))
  | .list [.atom "lit", .atom t, .atom v] => do pure (.lit (← parseTy t) (← v.toInt?))
  | .list [.atom "i", .atom k] => do pure (.intc (← k.toInt?))
  | .list [.atom "ar", .atom op, a, b] => do pure (.arith (← parseA op) (← parseExpr a) (← parseExpr b))
  | .list [.atom "bo", .atom op, a, b] => do pure (.bitop (← parseL op) (← parseExpr a) (← parseExpr b))
  | .list [.atom "inv", a] => do pure (.inv (← parseExpr a))
  | .list [.atom "neg", a] => do pure (.neg (← parseExpr a))
  | .list [.atom "abs", a] => do pure (.abs (← parseExpr a))
  | .list [.atom "cmp", .atom op, a, b] => do pure (.cmp (← parseC op) (← parseExpr a) (← parseExpr b))
  | .list [.atom "shl", a, n] => do pure (.shl (← parseExpr a) (← parseExpr n))
  | .list [.atom "shr", a, n] => do pure (.shr (← parseExpr a) (← parseExpr n))
  | .list [.atom "cat", a, b] => do pure (.concat (← parseExpr a) (← parseExpr b))
  | .list [.atom "idx", a, .atom i] => do pure (.index (← parseExpr a) (← i.toNat?))
  | .list [.atom "slc", a, .atom hi, .atom lo] => do pure (.slice (← parseExpr a) (← hi.toNat?) (← lo.toNat?))
  | .list [.atom "idxrt", a, n] => do pure (.indexRt (← parseExpr a) (← parseExpr n))
  | .list [.atom "sgn", a] => do pure (.asSgn (← parseExpr a))
  | .list [.atom "uns", a] => do pure (.asUns (← parseExpr a))
  | .list [.atom "bv", a] => do pure (.asBv (← parseExpr a))
  | .list [.atom "rsz", a, .atom w] => do pure (.resize (← parseExpr a) (← w.toNat?))
  | .list [.atom "truth", a] => do pure (.truth (← parseExpr a))
  | .list [.atom "not", a] => do pure (.lnot (← parseExpr a))
  | .list [.atom "and", a, b] => do pure (.land (← parseExpr a) (← parseExpr b))
  | .list [.atom "or", a, b] => do pure (.lor (← parseExpr a) (← parseExpr b))
  | .list [.atom "ite", c, a, b] => do pure (.ite (← parseExpr c) (← parseExpr a) (← parseExpr b))
  | .list [.atom "sel", arg, .atom k, e, r] => do
      pure (.sel (← parseExpr arg) (← k.toInt?) (← parseExpr e) (← parseExpr r))
  | .list [.atom "conv", a, .atom t] => do pure (.conv (← parseExpr a) (← parseTy t))
  | _ => none

def showErr : Err → String
  | .width => "err-width" | .kind => "err-kind" | .intRange => "err-int" | .index => "err-index" | .sub => "err-sub"

def showVal : Val → String
  | .b x => if x then "1" else "0"
  | .n x => toString x

def bitsStr (w p : Nat) : String :=
  String.ofList ((List.range w).reverse.map fun i => if (p / 2 ^ i) % 2 == 1 then '1' else '0')

def showCOp : COp → String
  | .eq => "=" | .ne => "/=" | .lt => "<" | .gt => ">" | .le => "<=" | .ge => ">="

def showVBin : VBin → String
  | .add => "+" | .sub => "-" | .mul => "*" | .div => "/" | .mod => "mod" | .rem => "rem"
  | .and => "and" | .or => "or" | .xor => "xor" | .cat => "&"

partial def showV : VExpr → String
  | .port i _ => s!"p{i}"
  | .int k => toString k
  | .vlit .slv w p => "\"" ++ bitsStr w p ++ "\""
  | .vlit .uns w p => "unsigned'(\"" ++ bitsStr w p ++ "\")"
  | .vlit .sgn w p => "signed'(\"" ++ bitsStr w p ++ "\")"
  | .slit b => if b then "'1'" else "'0'"
  | .bin op a b => s!"({showV a}) {showVBin op} ({showV b})"
  | .rel op a b => s!"({showV a} {showCOp op} {showV b})"
  | .vnot a => s!"not ({showV a})"
  | .vneg a => s!"-({showV a})"
  | .vabs a => s!"abs({showV a})"
  | .conv .slv a => s!"std_logic_vector({showV a})"
  | .conv .uns a => s!"unsigned({showV a})"
  | .conv .sgn a => s!"signed({showV a})"
  | .toInteger a => s!"to_integer({showV a})"
  | .resize a w => s!"resize({showV a}, {w})"
  | .shiftL a n => s!"shift_left({showV a}, {showV n})"
  | .shiftR a n => s!"shift_right({showV a}, {showV n})"
  | .index a i => s!"{showV a}({showV i})"
  | .slice a hi lo => s!"{showV a}({hi} downto {lo})"
  | .ite c a b => s!"select({showV c}; {showV a} when true; {showV b} when others)"
  | .sel arg k e r => s!"select({showV arg}; {showV e} when {showV k}; {showV r} when others)"

def evalOne (e : Expr) (t : Ty) (env : Env) : String :=
  if !defined e env then "undef" else
  let s := evalSpec e env
  if evalV (lower e) env == inj t s then showVal s else "MODEL-MISMATCH"

def parseEnv : Sexp → Option Env
  | .list xs => xs.mapM Sexp.asInt?
  | _ => none

def handle (args : List String) : String :=
  match Sexp.parse ("(" ++ " ".intercalate args ++ ")") with
  | some (.list (.atom cmd :: ex :: rest)) =>
      match parseExpr ex with
      | none => "bad-op"
      | some e =>
        match cmd with
        | "type" => (match typeOf e with | .ok t => showTy t | .error er => showErr er)
        | "lower" => (match typeOf e with | .ok _ => showV (lower e) | .error er => showErr er)
        | "eval" =>
            (match typeOf e, rest.mapM parseEnv with
             | .ok t, some envs => " ".intercalate (envs.map (evalOne e t))
             | .error er, _ => showErr er
             | _, none => "bad-op")
        | _ => "bad-op"
  | _ => "bad-op"

end CohdlVerif.C02
