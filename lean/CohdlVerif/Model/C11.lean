/-
  C11 - compilation is a pure function of the design, independent of history.

  Executable model of the module/class-level mutable state of cohdl and of what every bracketed
  region of a compilation does to it on its NORMAL exit and on its EXCEPTION exit.
  One constructor of `Kind` per audited piece of scratch state:

    conv     `_prepare_ast._active_converter_instance`, `_context._entity_instantiation_handler`,
             `_context._on_register_inline_entity_handler`     (`with ConvertPythonInstance()`: context manager)
    arch     `_context._block_stack` REBOUND to `[template_instance]` in `Entity.__init__` (try/finally) and
             `EntityInfo.instantiated` set BEFORE the architecture runs, registered with the converter only
             AFTER it returned (`_entity_instantiation_handler(info)`), discarded by `ConvertPythonInstance.__exit__`
    archReuse  second instantiation of an entity whose `instantiated` is set: architecture is not run
    blk      the dummy block appended to the import-time list `_block_stack` in `ConvertPythonInstance.apply`
             (`append` ... `pop`, no try/finally on the pinned tree)
    ctx      `std._context._current_context/_current_context_data`  (`_enter_context` / `_exit_context` are two
             traced calls around the body, nothing on the exception path)
    pfx      `std._prefix._Prefix._prefix_scope`  (traced `with std.prefix(..)`: `PrepareAst` calls `__enter__`, traces
             the body, then calls `__exit__` - not when tracing the body raises)
    hdl      `std._exception.StdExceptionHandler._handler_list`  (same traced-`with` mechanism)
    apply    `_prepare_ast._parent_frame`                 (try/finally)
    ret      `_prepare_ast._return_stack`                 (Python `with`)
    always   `PrepareAst._context` flipped to CONCURRENT while `cohdl.always(expr)` is traced: INSTANCE state of the
             PrepareAst object, which is dropped when tracing fails - modelled as restored on both paths
    ircall   `IrGenerator.returned_blocks`                (saved/restored around `out.Call`, no try/finally; never
             read before it is overwritten -> "masked")
    irapply  `ir.Statement._current_frame`                (saved/restored in `IrGenerator.apply`, no try/finally; only
             copied into error locations -> "masked")
    sm       `ir.StatemachineContext._singleton`          (`enter` asserts it is None, `finish` clears it; nothing on the
             exception path on the pinned tree)
    loop     `IrGenerator._break_result/_continue_result` (try/finally)
    scope    the `ModuleScope` of the back end: `_used_names` is a FRESH union of the class-level sets
             `ModuleScope._vhdl_reserved | ModuleScope._additional_reserved` and of the option
             `additional_reserved_names` of this compilation (object local to the compilation; the class-level sets
             `G.reserved` are only read)

  plus the keyed state of `_Prefix` (`_current_entity`, `_existing_prefix`), the caches that only grow
  (`FunctionDefinition._known_definitions`, the `_SubTypes` type caches), the counter
  `_prepare_ast_out.count` and `_inline_declared_entities` (appended only while `_block_stack` is empty inside a
  conversion, which no audited path does).

  `Cfg` says which of the proposed repairs (fixes/C11-*.patch) are applied; `Cfg.orig` is the pinned tree,
  `Cfg.fixed` the tree with all six patches.  Object identity (`current_entity() is _Prefix._current_entity`)
  is modelled by generation-stamped ids `(gen, n)`: objects of the running compilation have gen 0 and n = the
  position of the allocating event; when a compilation ends every id still reachable from the globals is aged
  (gen + 1), so ids of different compilations never compare equal and an object leaked on a stack keeps its
  identity.  Import-free: compiled into the driver.
-/
namespace CohdlVerif.C11

inductive Kind where
  | conv | arch | archReuse | blk | ctx | pfx | hdl | apply | ret | always | ircall | irapply | sm | loop | scope
  deriving DecidableEq, Repr

def Kind.all : List Kind :=
  [.conv, .arch, .archReuse, .blk, .ctx, .pfx, .hdl, .apply, .ret, .always, .ircall, .irapply, .sm, .loop, .scope]

/-- which repairs are applied (one flag per patch file) -/
structure Cfg where
  fixSM : Bool      -- fixes/C11-statemachine-singleton.patch
  fixBlk : Bool     -- fixes/C11-block-stack.patch
  fixWith : Bool    -- fixes/C11-with-exit.patch         (pfx and hdl)
  fixCtx : Bool     -- fixes/C11-current-context.patch   (needs fixWith: the repair is a traced `with`)
  fixInst : Bool    -- fixes/C11-entity-instantiated.patch
  fixLib : Bool     -- fixes/C11-library-order.patch
  deriving DecidableEq, Repr

def Cfg.orig : Cfg := ⟨false, false, false, false, false, false⟩
def Cfg.fixed : Cfg := ⟨true, true, true, true, true, true⟩

abbrev Tok := List Nat
abbrev Id := Nat × Nat   -- (generation, serial)

/-- the audited global state -/
structure G where
  s : Kind → List (List Nat)          -- one stack per scratch piece (head = innermost)
  inst : List Nat                     -- entity classes whose `EntityInfo.instantiated` is set
  reg : List Nat                      -- `ConvertPythonInstance._entity_infos` of the active converter
  owner : Option Id                   -- `_Prefix._current_entity`
  existing : List (List Nat × Nat)    -- `_Prefix._existing_prefix`
  fnCache : List (Nat × Nat)          -- `FunctionDefinition._known_definitions`
  tyCache : List (Nat × Nat)          -- `_SubTypes` caches of the parametrised types
  ifCount : Nat                       -- `_prepare_ast_out.count`
  inl : List Nat                      -- `_inline_declared_entities`
  reserved : List Nat                 -- class-level `ModuleScope._vhdl_reserved | _additional_reserved` (content)
  dyn : List (Nat × Nat)              -- per entity class: ports in `EntityInfo.ports` that were added while an
                                      -- architecture ran (`std.add_entity_port` / `add_port`); the class keeps them
                                      -- until `_discard_dynamic_ports()` at the start of its NEXT elaboration, which
                                      -- removes every port not in the snapshot `non_dynamic_ports`

/-- content of the class-level reserved-name sets at import time (names are numbers in the model) -/
def reserved0 : List Nat := [900, 901, 902]

def G.init : G := ⟨fun _ => [], [], [], none, [], [], [], 0, [], reserved0, []⟩

def upd (s : Kind → List (List Nat)) (k : Kind) (v : List (List Nat)) : Kind → List (List Nat) :=
  fun j => if j = k then v else s j

def push (k : Kind) (p : List Nat) (g : G) : G := { g with s := upd g.s k (p :: g.s k) }
def pop (k : Kind) (g : G) : G := { g with s := upd g.s k (g.s k).tail }

/-- scratch pieces that are overwritten before every read (their leak cannot be observed) -/
def masked : Kind → Bool
  | .ircall | .irapply => true
  | _ => false

inductive Act where
  | name (n : Nat)                 -- `std.name(n)`: name under the innermost active prefix
  | useCtx                         -- `std.SequentialContext.current()` (e.g. `std.wait_for(Duration)`)
  | fn (f : Nat)                   -- `FunctionDefinition.from_callable(f)`
  | ty (t : Nat)                   -- `BitVector[t]` style type lookup
  | ifExpr                         -- `out.IfExpr.__init__`: `count += 2`
  | libs (xs : List Nat)           -- `_library_declaration`: iterates a Python `set` of strings
  | mem (x : Nat) (xs : List Nat)  -- membership test in a Python `set` (`_used_names`, `written_temporaries`, ..)
  | emit (t : Nat)
  | declare (n : Nat)              -- `VhdlScope.declare(obj named n)`: renamed when n is a used name of the module scope
  | addPort (p : Nat)              -- `std.add_entity_port(self, Port..(name=p))` inside the running architecture
  deriving Repr

inductive Ev where
  | enter (k : Kind) (a : List Nat)
  | exit
  | fail
  | act (a : Act)
  deriving Repr

inductive Err where
  | crash | nestedSM | convActive | noCtx | noEntity | noConv | portExists
  deriving DecidableEq, Repr

inductive Res where
  | ok (out : List Tok)
  | reject (e : Err)
  deriving DecidableEq, Repr

def idOf : List Nat → Option Id
  | g :: n :: _ => some (g, n)
  | _ => none

/-- `cohdl.current_entity()` = `_context._block_stack[0]`: the template instance while an architecture runs
    (the module variable is rebound to a one-element list), else the OLDEST entry of the import-time list -/
def cur (g : G) : Option Id :=
  match g.s .arch with
  | p :: _ => idOf p
  | [] => (g.s .blk).getLast?.bind idOf

def lookupD (m : List (List Nat × Nat)) (k : List Nat) : Nat :=
  match m.find? (fun e => e.1 == k) with
  | some e => e.2
  | none => 0

def setCnt (m : List (List Nat × Nat)) (k : List Nat) (c : Nat) : List (List Nat × Nat) :=
  (k, c) :: m.filter (fun e => e.1 != k)

/-- `_Prefix.__init__(prefix)`: counters are cleared when the compiled entity changed; the prefix is nested
    under the innermost active scope; the n-th use of a prefix gets the suffix `_n` -/
def mkPrefix (p : Nat) (g : G) : Option (G × List Nat) :=
  match cur g with
  | none => none
  | some c =>
    let g1 := if g.owner = some c then g else { g with owner := some c, existing := [] }
    let pre := match g1.s .pfx with
      | top :: _ => top ++ [p]
      | [] => [p]
    let cnt := lookupD g1.existing pre
    let str := if cnt = 0 then pre else pre ++ [1000 + cnt]
    some ({ g1 with existing := setCnt g1.existing pre (cnt + 1) }, str)

/-- value a cache entry must have: the cached object is a function of the key alone -/
def defOf (k : Nat) : Nat := 2 * k + 1

def cacheGet (c : List (Nat × Nat)) (k : Nat) : Nat × List (Nat × Nat) :=
  match c.find? (fun e => e.1 == k) with
  | some e => (e.2, c)
  | none => (defOf k, (k, defOf k) :: c)

/-- entering a region: new state, emitted tokens, kind of the opened frame -/
def enter (k : Kind) (a : List Nat) (n : Nat) (g : G) : Except Err (G × List Tok × Kind) :=
  match k with
  | .conv =>
    if g.s .conv ≠ [] then .error .convActive
    else .ok ({ push .conv [0, n] g with reg := [] }, [], .conv)
  | .arch | .archReuse =>
    let e := a.headD 0
    if g.s .conv = [] then .error .noConv
    else if g.inst.contains e then .ok (push .archReuse [e] g, [[3, e]], .archReuse)
    else .ok ({ push .arch [0, n, e] g with inst := e :: g.inst, dyn := g.dyn.filter (fun q => q.1 != e) }, [], .arch)
  | .blk => .ok (push .blk [0, n] g, [], .blk)
  | .ctx => .ok ({ g with s := upd g.s .ctx [a] }, [], .ctx)
  | .pfx =>
    match mkPrefix (a.headD 0) g with
    | none => .error .noEntity
    | some (g1, str) => .ok (push .pfx str g1, [], .pfx)
  | .sm => if g.s .sm ≠ [] then .error .nestedSM else .ok (push .sm a g, [], .sm)
  | .scope => .ok (push .scope (g.reserved ++ a) g, [], .scope)
  | k => .ok (push k a g, [], k)

/-- normal exit of a region -/
def exitOk (k : Kind) (g : G) : G :=
  match k with
  | .conv =>
    let g1 := pop .conv g
    { g1 with inst := g1.inst.filter (fun e => !g1.reg.contains e), reg := [] }
  | .arch =>
    match g.s .arch with
    | p :: _ => { pop .arch g with reg := p.getD 2 0 :: g.reg }
    | [] => g
  | .ctx => { g with s := upd g.s .ctx [] }
  | k => pop k g

/-- is the region's state restored when an exception passes through it? -/
def restoresOnExc (cfg : Cfg) : Kind → Bool
  | .blk => cfg.fixBlk
  | .ctx => cfg.fixCtx
  | .pfx => cfg.fixWith
  | .hdl => cfg.fixWith
  | .sm => cfg.fixSM
  | .ircall => false
  | .irapply => false
  | _ => true

/-- exception exit of a region -/
def exitExc (cfg : Cfg) (k : Kind) (g : G) : G :=
  match k with
  | .arch =>
    match g.s .arch with
    | p :: _ =>
      let g1 := pop .arch g
      if cfg.fixInst then { g1 with inst := g1.inst.filter (fun e => e != p.getD 2 0) } else g1
    | [] => g
  | k => if restoresOnExc cfg k then exitOk k g else g

def unwind (cfg : Cfg) (F : List Kind) (g : G) : G := F.foldl (fun g k => exitExc cfg k g) g
def closeAll (F : List Kind) (g : G) : G := F.foldl (fun g k => exitOk k g) g

/-- insertion sort (the repaired `_library_declaration` emits `sorted(extern_libraries)`) -/
def insertSorted (x : Nat) : List Nat → List Nat
  | [] => [x]
  | y :: ys => if x ≤ y then x :: y :: ys else y :: insertSorted x ys
def isort : List Nat → List Nat
  | [] => []
  | x :: xs => insertSorted x (isort xs)

/-- an action; `perm` is the iteration order of Python `set`s (hash seed / address dependent) -/
def act (cfg : Cfg) (perm : List Nat → List Nat) (a : Act) (g : G) : Except Err (G × List Tok) :=
  match a with
  | .name n =>
    match g.s .pfx with
    | top :: _ => .ok (g, [1 :: (top ++ [n])])
    | [] => .ok (g, [[1, n]])
  | .useCtx =>
    match g.s .ctx with
    | v :: _ => .ok (g, [2 :: v])
    | [] => .error .noCtx
  | .fn f => let r := cacheGet g.fnCache f; .ok ({ g with fnCache := r.2 }, [[4, f, r.1]])
  | .ty t => let r := cacheGet g.tyCache t; .ok ({ g with tyCache := r.2 }, [[5, t, r.1]])
  | .ifExpr => .ok ({ g with ifCount := g.ifCount + 2 }, [])
  | .libs xs => .ok (g, [6 :: (if cfg.fixLib then isort (perm xs) else perm xs)])
  | .mem x xs => .ok (g, [[7, if (perm xs).contains x then 1 else 0]])
  | .emit t => .ok (g, [[8, t]])
  | .declare n =>
    match g.s .scope with
    | used :: _ => .ok (g, [[10, n, if used.contains n then 1 else 0]])
    | [] => .error .noEntity
  | .addPort p =>
    match g.s .arch with
    | fr :: _ =>
      let e := fr.getD 2 0
      if g.dyn.contains (e, p) then .error .portExists
      else .ok ({ g with dyn := (e, p) :: g.dyn }, [[9, e, p]])
    | [] => .error .noEntity

def ageP : List Nat → List Nat
  | g :: rest => (g + 1) :: rest
  | [] => []

/-- end of a compilation: every object still reachable from the globals belongs to the past -/
def age (g : G) : G :=
  { g with
    s := fun k => if k = .blk ∨ k = .arch ∨ k = .conv then (g.s k).map ageP else g.s k
    owner := g.owner.map (fun p => (p.1 + 1, p.2)) }

/-- one compilation = one event list, run with the open frames `F` (the Python call stack) -/
def run (cfg : Cfg) (perm : List Nat → List Nat) : List Ev → List Kind → Nat → G → List Tok → Res × G
  | [], F, _, g, out => (.ok out.reverse, age (closeAll F g))
  | .fail :: _, F, _, g, _ => (.reject .crash, age (unwind cfg F g))
  | .enter k a :: evs, F, n, g, out =>
    match enter k a n g with
    | .error e => (.reject e, age (unwind cfg F g))
    | .ok (g1, toks, k1) => run cfg perm evs (k1 :: F) (n + 1) g1 (toks.reverse ++ out)
  | .exit :: evs, k :: F, n, g, out => run cfg perm evs F (n + 1) (exitOk k g) out
  | .exit :: evs, [], n, g, out => run cfg perm evs [] (n + 1) g out
  | .act a :: evs, F, n, g, out =>
    match act cfg perm a g with
    | .error e => (.reject e, age (unwind cfg F g))
    | .ok (g1, toks) => run cfg perm evs F (n + 1) g1 (toks.reverse ++ out)

/-- a design is the event list its compilation goes through (crash point included) -/
abbrev Design := List Ev

def compile (cfg : Cfg) (perm : List Nat → List Nat) (d : Design) (g : G) : Res × G :=
  run cfg perm d [] 0 g []

/-! ## line protocol: `run <6 cfg bits> <script> (; <script>)*` -> per design `<verdict> <snapshot>` joined by ` | ` -/

def parseKind : String → Option Kind
  | "conv" => some .conv | "arch" => some .arch | "blk" => some .blk | "ctx" => some .ctx
  | "pfx" => some .pfx | "hdl" => some .hdl | "apply" => some .apply | "ret" => some .ret
  | "always" => some .always | "ircall" => some .ircall | "irapply" => some .irapply
  | "sm" => some .sm | "loop" => some .loop | "scope" => some .scope
  | _ => none

def parseNats (s : String) : Option (List Nat) :=
  if s.isEmpty then some [] else (s.splitOn ",").mapM String.toNat?

def parseEv (t : String) : Option Ev :=
  if t == ">" then some .exit
  else if t == "!" then some .fail
  else if t.startsWith "<" then
    match (t.drop 1).toString.splitOn ":" with
    | [k] => (parseKind k).map (fun k => .enter k [])
    | [k, a] => do let k ← parseKind k; let a ← parseNats a; pure (.enter k a)
    | _ => none
  else
    match t.splitOn ":" with
    | ["U"] => some (.act .useCtx)
    | ["I"] => some (.act .ifExpr)
    | ["N", n] => n.toNat?.map (fun n => .act (.name n))
    | ["F", n] => n.toNat?.map (fun n => .act (.fn n))
    | ["T", n] => n.toNat?.map (fun n => .act (.ty n))
    | ["O", n] => n.toNat?.map (fun n => .act (.emit n))
    | ["A", n] => n.toNat?.map (fun n => .act (.addPort n))
    | ["D", n] => n.toNat?.map (fun n => .act (.declare n))
    | ["L", a] => (parseNats a).map (fun a => .act (.libs a))
    | ["M", x, a] => do let x ← x.toNat?; let a ← parseNats a; pure (.act (.mem x a))
    | _ => none

def showNats (l : List Nat) : String := ".".intercalate (l.map toString)

def showErr : Err → String
  | .crash => "crash" | .nestedSM => "nestedSM" | .convActive => "convActive"
  | .noCtx => "noCtx" | .noEntity => "noEntity" | .noConv => "noConv" | .portExists => "portExists"

def showRes : Res → String
  | .ok out => "ok:" ++ "/".intercalate (out.map showNats)
  | .reject e => "rej:" ++ showErr e

def kindName : Kind → String
  | .conv => "conv" | .arch => "arch" | .archReuse => "archReuse" | .blk => "blk" | .ctx => "ctx"
  | .pfx => "pfx" | .hdl => "hdl" | .apply => "apply" | .ret => "ret" | .always => "always"
  | .ircall => "ircall" | .irapply => "irapply" | .sm => "sm" | .loop => "loop" | .scope => "scope"

/-- canonical snapshot: stack depth per piece (1/0 for the masked ones and ctx), prefix scope content,
    stale instantiations, prefix counters -/
def snapshot (g : G) : String :=
  let depth := Kind.all.map (fun k =>
    let n := (g.s k).length
    kindName k ++ "=" ++ toString (if masked k || k == .ctx then (if n = 0 then 0 else 1) else n))
  " ".intercalate depth ++ " pfxs=" ++ ",".intercalate ((g.s .pfx).reverse.map showNats)
    ++ " inst=" ++ showNats g.inst ++ " reg=" ++ showNats g.reg ++ " inl=" ++ showNats g.inl
    ++ " cont=" ++ (if g.reserved == reserved0 then "" else "reserved")
    ++ " dyn=" ++ ",".intercalate (g.dyn.reverse.map (fun q => toString q.1 ++ ":" ++ toString q.2))

def parseCfg (s : String) : Option Cfg :=
  match s.toList with
  | [a, b, c, d, e, f] =>
    if [a, b, c, d, e, f].all (fun x => x == '0' || x == '1') then
      some ⟨a == '1', b == '1', c == '1', d == '1', e == '1', f == '1'⟩
    else none
  | _ => none

def splitScripts (toks : List String) : List (List String) :=
  toks.foldr (fun t acc => if t == ";" then [] :: acc else
    match acc with
    | cur :: rest => (t :: cur) :: rest
    | [] => [[t]]) [[]]

/-- permutation used by the driver for set iteration: 0 = as listed, 1 = reversed, 2 = rotated -/
def permOf : Nat → List Nat → List Nat
  | 0 => id
  | 1 => List.reverse
  | _ => fun xs => xs.drop 1 ++ xs.take 1

def runHistory (cfg : Cfg) (perm : List Nat → List Nat) (ds : List Design) : List String :=
  (ds.foldl (fun (acc : G × List String) d =>
    let r := compile cfg perm d acc.1
    (r.2, (showRes r.1 ++ " " ++ snapshot r.2) :: acc.2)) (G.init, [])).2.reverse

def handle : List String → String
  | "run" :: c :: p :: rest =>
    match parseCfg c, p.toNat?, (splitScripts rest).mapM (fun sc => sc.mapM parseEv) with
    | some cfg, some pi, some ds => " | ".intercalate (runHistory cfg (permOf pi) ds)
    | _, _, _ => "bad-op"
  | _ => "bad-op"

end CohdlVerif.C11

/-! ## `id()`-keyed caches: the liveness of the key object is part of the state

  `FunctionDefinition._known_definitions` is keyed by the ADDRESS of a callable (`id(callable)`).  An address
  identifies an object only while that object is alive, so the cache stores the key object next to the definition
  (`[result, callable]`): a cached callable is never freed and its address is never handed out again.
  `Heap` models addresses explicitly: `live` = which object (identity) lives at which address, `cache` = address ↦
  (identity of the object that was cached there, definition).  `free keep` mirrors the reference the cache entry holds:
  with `keep = true` (the code as it is) an object that is a cache key cannot be freed.  The abstract `Act.fn` of the
  event model (cache keyed by identity) is the view of this structure that `Heap.lookup_live` justifies. -/

namespace CohdlVerif.C11

structure Heap where
  live : List (Nat × Nat)          -- (address, identity) of the callable objects that are alive
  cache : List (Nat × Nat × Nat)   -- (address, identity of the cached key object, cached definition)

def Heap.empty : Heap := ⟨[], []⟩

/-- the allocator hands out an address only if no live object occupies it -/
def Heap.alloc (h : Heap) (a f : Nat) : Option Heap :=
  if h.live.any (fun e => e.1 == a) then none else some { h with live := (a, f) :: h.live }

/-- dropping the last outside reference to the object at address `a`: it dies unless a cache entry keeps it alive -/
def Heap.free (keep : Bool) (h : Heap) (a : Nat) : Heap :=
  if keep && h.cache.any (fun e => e.1 == a) then h else { h with live := h.live.filter (fun e => e.1 != a) }

/-- `from_callable(obj at address a)`: hit on the address, else parse the object's source and cache it -/
def Heap.lookup (h : Heap) (a : Nat) : Option (Nat × Heap) :=
  match h.live.find? (fun e => e.1 == a) with
  | none => none
  | some obj =>
    match h.cache.find? (fun e => e.1 == a) with
    | some e => some (e.2.2, h)
    | none => some (defOf obj.2, { h with cache := (a, obj.2, defOf obj.2) :: h.cache })

end CohdlVerif.C11
