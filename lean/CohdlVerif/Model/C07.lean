/-
  C07 - one driver per signal.

  Abstract designs: object roots (numbered), contexts (sequential / concurrent) with their accesses in visiting
  order, entity instances with their input / output actuals.

  `checkUsage fixed` is the MIRROR of the usage check in cohdl/_core/_ir/_repr.py `EntityTemplate.__init__`
  (`check_usage` run over `ctx.visit_objects` for every context, then the loop over instance output ports):
  one pass with the two maps `written_in` / `used_in`, `AssertionError` = `none`.
    * `fixed = true`  : the tree with fixes/C07-*.patch applied: accesses made inside the always block of a
                        sequential context are attributed to the always block (a writer / user of its own), and an
                        input port used as actual of an instance output is rejected;
    * `fixed = false` : the tree before these patches (always block and body are the same `current_ctx`,
                        the instance loop never looks at `is_input()`).
  `frontend` mirrors the checks made before (ConvertInstance.apply: variables in concurrent contexts, temporaries
  read before written in their context; always blocks: no variables [fixed], no inherited temporaries; variables
  are not valid port actuals).
  `emit` = which driver units the back end prints for an accepted design (VhdlAssembler: one process per
  sequential context, one concurrent block per concurrent context, the always block hoisted out of a sequential
  context as a separate concurrent block, one port map per instance); `drivers` counts the units driving a root.
-/
namespace CohdlVerif.C07

inductive Kind | signal | portIn | portOut | portInout | variable | temporary
  deriving DecidableEq, Repr

def Kind.isVarLike : Kind → Bool
  | .variable | .temporary => true
  | _ => false

/-- AccessFlags of one visited object: READ, WRITE (`<<=`, `.next`, `@=`, `.value`, reset of a pushed signal, an object
    formatted WITHOUT `!r` inside inline VHDL - statement `f"{vhdl:..}"` or expression `f"{vhdl[T]:..}"` alike:
    `InlineCode.visit_objects` reports `READ if node.read else WRITE`) or PUSH (`^=`, `.push`).
    Read-formatted inline objects (`{x!r}`) are READ. -/
inductive AccKind | read | write | push
  deriving DecidableEq, Repr

structure Access where
  root : Nat
  acc : AccKind
  /-- the access is made by a statement of the always block (`with cohdl.always:` / `cohdl.always(expr)`) -/
  viaAlways : Bool
  deriving DecidableEq, Repr

/-- `access is AccessFlags.WRITE or access is AccessFlags.PUSH` - the test of `check_usage`: a push assignment is a
    write of its signal (it registers the context in `written_in` and is subject to the input-port rule) -/
def Access.write (a : Access) : Bool := a.acc == .write || a.acc == .push

def Access.push (a : Access) : Bool := a.acc == .push

inductive CtxKind | seq | conc
  deriving DecidableEq, Repr

structure Ctx where
  kind : CtxKind
  accs : List Access
  deriving Repr

structure Inst where
  ins : List Nat
  outs : List Nat
  deriving Repr

structure Design where
  kinds : List Kind
  ctxs : List Ctx
  insts : List Inst
  deriving Repr

def kindOf (kinds : List Kind) (r : Nat) : Kind := kinds.getD r .signal

/-- who writes / uses an object: a context, the always block of a sequential context, an instance -/
inductive Owner
  | ctx (i : Nat)
  | always (i : Nat)
  | inst (j : Nat)
  deriving DecidableEq, Repr

def Owner.isInst : Owner → Bool
  | .inst _ => true
  | _ => false

/-- accesses of the always block of a context (only sequential contexts have one) -/
def Ctx.alwaysAccs (c : Ctx) : List Access :=
  match c.kind with
  | .seq => c.accs.filter (fun a => a.viaAlways)
  | .conc => []

def Ctx.bodyAccs (c : Ctx) : List Access :=
  match c.kind with
  | .seq => c.accs.filter (fun a => !a.viaAlways)
  | .conc => c.accs

/-! ### mirror of `check_usage` -/

abbrev OMap := List (Nat × Owner)

structure St where
  written : OMap
  used : OMap
  deriving Repr

/-- `if root in m: assert m[root] is cur  else: m[root] = cur` -/
def own (m : OMap) (r : Nat) (cur : Owner) : Option OMap :=
  match m.lookup r with
  | some o => if o = cur then some m else none
  | none => some ((r, cur) :: m)

/-- one call `check_usage(obj, access)` with `current_ctx = cur` -/
def checkAccess (kinds : List Kind) (cur : Owner) (st : St) (a : Access) : Option St :=
  if a.write && kindOf kinds a.root == .portIn then none
  else
    match (if a.write then own st.written a.root cur else some st.written) with
    | none => none
    | some w =>
      match (if (kindOf kinds a.root).isVarLike then own st.used a.root cur else some st.used) with
      | none => none
      | some u => some ⟨w, u⟩

/-- the calls made by `ctx.visit_objects(check_usage)` for context number `i`, in order:
    `Sequential.visit_objects` visits the always block first, then the body -/
def ctxEvents (fixed : Bool) (i : Nat) (c : Ctx) : List (Owner × Access) :=
  c.alwaysAccs.map (fun a => ((if fixed then Owner.always i else Owner.ctx i), a))
    ++ c.bodyAccs.map (fun a => (Owner.ctx i, a))

def ctxsEvents (fixed : Bool) : Nat → List Ctx → List (Owner × Access)
  | _, [] => []
  | i, c :: cs => ctxEvents fixed i c ++ ctxsEvents fixed (i + 1) cs

def checkEvents (kinds : List Kind) : St → List (Owner × Access) → Option St
  | st, [] => some st
  | st, (o, a) :: rest =>
    match checkAccess kinds o st a with
    | none => none
    | some st' => checkEvents kinds st' rest

/-- output actuals of the instances, in the order of the instance loop -/
def instOuts : Nat → List Inst → List (Owner × Nat)
  | _, [] => []
  | j, b :: bs => b.outs.map (fun r => (Owner.inst j, r)) ++ instOuts (j + 1) bs

/-- the instance loop: `if sig_root in written_in: raise  else: written_in[sig_root] = block` -/
def checkInstOuts (fixed : Bool) (kinds : List Kind) : OMap → List (Owner × Nat) → Option OMap
  | w, [] => some w
  | w, (o, r) :: rest =>
    if fixed && kindOf kinds r == .portIn then none
    else
      match w.lookup r with
      | some _ => none
      | none => checkInstOuts fixed kinds ((r, o) :: w) rest

def checkUsage (fixed : Bool) (d : Design) : Bool :=
  match checkEvents d.kinds ⟨[], []⟩ (ctxsEvents fixed 0 d.ctxs) with
  | none => false
  | some st => (checkInstOuts fixed d.kinds st.written (instOuts 0 d.insts)).isSome

/-! ### front-end rules (before the usage check) -/

/-- temporaries must be written before they are read, within the same statement list -/
def tempsOk (kinds : List Kind) : List Nat → List Access → Bool
  | _, [] => true
  | written, a :: rest =>
    if kindOf kinds a.root == .temporary then
      if a.write then tempsOk kinds (a.root :: written) rest
      else written.contains a.root && tempsOk kinds written rest
    else tempsOk kinds written rest

def ctxFrontend (fixed : Bool) (kinds : List Kind) (c : Ctx) : Bool :=
  -- "variables cannot be used in concurrent contexts"
  (c.kind == .seq || c.accs.all (fun a => kindOf kinds a.root != .variable))
  -- "variable assignment only possible in sequential contexts" (always block); reads: fixes/C07-variable-in-always-block
  && c.alwaysAccs.all (fun a => kindOf kinds a.root != .variable || (!fixed && !a.write))
  -- "temporary read before it was written" / "always expression cannot inherit temporaries"
  && tempsOk kinds [] c.alwaysAccs && tempsOk kinds [] c.bodyAccs
  -- push assignments (`^=` / `.push`) exist only in the body of a sequential context
  && (c.kind == .seq || c.accs.all (fun a => !a.push)) && c.alwaysAccs.all (fun a => !a.push)
  -- [fixed] "temporaries cannot be used in inline code of an always block": a Temporary that is still referenced by the
  -- always block after the promotion of its own temporaries to signals (only possible through inline code) is rejected
  && c.alwaysAccs.all (fun a => !fixed || kindOf kinds a.root != .temporary)

def frontend (fixed : Bool) (d : Design) : Bool :=
  d.ctxs.all (ctxFrontend fixed d.kinds)
  && d.insts.all (fun b => (b.ins ++ b.outs).all (fun r => kindOf d.kinds r != .variable))
  -- VhdlScope.declare "variables and temporaries cannot be shared between scopes": a temporary that is a port actual
  -- (architecture scope) cannot be used in the body of a sequential context (process scope)
  && d.insts.all (fun b => (b.ins ++ b.outs).all (fun r => kindOf d.kinds r != .temporary
        || !(d.ctxs.any (fun c => c.kind == .seq && c.bodyAccs.any (fun a => a.root == r)))))

def accept (fixed : Bool) (d : Design) : Bool := frontend fixed d && checkUsage fixed d

/-! ### what the back end emits: driver units -/

structure DUnit where
  owner : Owner
  /-- roots that are targets of assignments / output actuals of this unit -/
  targets : List Nat
  /-- every root referenced by the unit -/
  refs : List Nat
  deriving Repr

def writesOf (l : List Access) : List Nat := (l.filter (fun a => a.write)).map (fun a => a.root)

def emitCtx (i : Nat) (c : Ctx) : List DUnit :=
  (if c.alwaysAccs.isEmpty then []
   else [{ owner := .always i, targets := writesOf c.alwaysAccs, refs := c.alwaysAccs.map (fun a => a.root) }])
  ++ [{ owner := .ctx i, targets := writesOf c.bodyAccs, refs := c.bodyAccs.map (fun a => a.root) }]

def emitCtxs : Nat → List Ctx → List DUnit
  | _, [] => []
  | i, c :: cs => emitCtx i c ++ emitCtxs (i + 1) cs

def emitInsts : Nat → List Inst → List DUnit
  | _, [] => []
  | j, b :: bs => { owner := .inst j, targets := b.outs, refs := b.ins ++ b.outs } :: emitInsts (j + 1) bs

def emit (d : Design) : List DUnit := emitCtxs 0 d.ctxs ++ emitInsts 0 d.insts

/-- number of driver units of root `r` in an emitted architecture -/
def drivers (e : List DUnit) (r : Nat) : Nat := e.countP (fun u => u.targets.contains r)

/-- number of units that reference root `r` at all -/
def users (e : List DUnit) (r : Nat) : Nat := e.countP (fun u => u.refs.contains r)

/-! ### line protocol
    `check kinds <chars> {ctx <s|c> <acc>*} {inst <i<root>|o<root>>*}`
       chars: s signal, i input port, o output port, b inout port, v variable, t temporary (root k = k-th char)
       acc  : `w<root>` | `r<root>` | `p<root>` (push) with suffix `a` when made in the always block
    answer: `<fixed: ok|rej> <unfixed: ok|rej> <drivers per root, comma separated> <users per root>` -/

def kindOfChar : Char → Option Kind
  | 's' => some .signal | 'i' => some .portIn | 'o' => some .portOut | 'b' => some .portInout
  | 'v' => some .variable | 't' => some .temporary | _ => none

def accOfTok (t : String) : Option Access :=
  match t.toList with
  | c :: rest =>
    let (digits, alw) := match rest.reverse with
      | 'a' :: ds => (ds.reverse, true)
      | _ => (rest, false)
    if digits.isEmpty then none else
    match (String.ofList digits).toNat? with
    | none => none
    | some r =>
      if c = 'w' then some ⟨r, .write, alw⟩ else if c = 'r' then some ⟨r, .read, alw⟩
      else if c = 'p' then some ⟨r, .push, alw⟩ else none
  | [] => none

partial def parseItems (toks : List String) (ctxs : List Ctx) (insts : List Inst) : Option (List Ctx × List Inst) :=
  match toks with
  | [] => some (ctxs.reverse, insts.reverse)
  | "ctx" :: k :: rest =>
    let body := rest.takeWhile (fun t => t != "ctx" && t != "inst")
    let tail := rest.dropWhile (fun t => t != "ctx" && t != "inst")
    match (if k = "s" then some CtxKind.seq else if k = "c" then some CtxKind.conc else none), body.mapM accOfTok with
    | some kind, some accs => parseItems tail (⟨kind, accs⟩ :: ctxs) insts
    | _, _ => none
  | "inst" :: rest =>
    let body := rest.takeWhile (fun t => t != "ctx" && t != "inst")
    let tail := rest.dropWhile (fun t => t != "ctx" && t != "inst")
    let conv (t : String) : Option (Bool × Nat) :=
      match t.toList with
      | 'i' :: ds => (String.ofList ds).toNat?.map (fun n => (false, n))
      | 'o' :: ds => (String.ofList ds).toNat?.map (fun n => (true, n))
      | _ => none
    match body.mapM conv with
    | some ps =>
      parseItems tail ctxs (⟨(ps.filter (fun p => !p.1)).map (·.2), (ps.filter (fun p => p.1)).map (·.2)⟩ :: insts)
    | none => none
  | _ => none

def commaNats (l : List Nat) : String := if l.isEmpty then "-" else ",".intercalate (l.map toString)

def handle (args : List String) : String :=
  match args with
  | "check" :: "kinds" :: ks :: rest =>
    match ks.toList.mapM kindOfChar, parseItems rest [] [] with
    | some kinds, some (ctxs, insts) =>
      let d : Design := ⟨kinds, ctxs, insts⟩
      let inRange := ctxs.all (fun c => c.accs.all (fun a => a.root < kinds.length))
        && insts.all (fun b => (b.ins ++ b.outs).all (fun r => r < kinds.length))
      if !inRange then "bad-op" else
      let v (b : Bool) := if b then "ok" else "rej"
      let e := emit d
      let roots := List.range kinds.length
      s!"{v (accept true d)} {v (accept false d)} {commaNats (roots.map (drivers e))} {commaNats (roots.map (users e))}"
    | _, _ => "bad-op"
  | _ => "bad-op"

end CohdlVerif.C07
