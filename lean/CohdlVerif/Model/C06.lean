/-
  C06 - the NAMING mechanism of the VHDL back end
  (cohdl/_compiler/backend/vhdl/_vhdl_repr.py  `VhdlScope.complete_setup`, `ModuleScope`,
   cohdl/_compiler/backend/vhdl/_vhdl_assembler.py  scope layout of one entity template).

  Names are `List Char` (ASCII semantics of `str.lower()`; `sanitize` maps every other character to `_` first,
  so every name that reaches the collision search is ASCII).

  * `chooseRaw`   override -> name hint -> fallback, as in `complete_setup` (all three missing = the real code asserts)
  * `sanitize`    the repair `fixes/C06-sanitize-names.patch`:  re.sub("[^A-Za-z0-9]+", "_", name).strip("_"),
                  empty -> cfg.empty, non-letter first -> cfg.pre + name  (spellings are inputs: SanCfg; currently "unnamed" / "n")
  * `pick`        the suffix search: `1, 2, 4, ..` until a free candidate, then the bisection
                  `step = cnt // 2; while step: if free(cnt - step): cnt -= step; step //= 2`
  * `assignScope` one scope: names in declaration order, every assigned name enters the used set lower-cased
  * `assignDesign` the fixed scope layout of one entity template:
                  ModuleScope (reserved words + additional names; the entity) > EntityScope (ports, generics,
                  architecture) > ArchScope (reserved_names attribute; buffers, signals, types, labels,
                  instances) > one ProcessScope per process (variables, temporaries, local types);
                  a sub-scope starts from the FINAL used set of its parent, siblings do not see each other
  * `hoist`       `VhdlScope.declare`: which scope finally owns a declaration that several scopes asked for
-/
namespace CohdlVerif.C06

abbrev Name := List Char

/-! ### characters -/

def isUpper (c : Char) : Bool := 65 ≤ c.toNat && c.toNat ≤ 90
def isLower (c : Char) : Bool := 97 ≤ c.toNat && c.toNat ≤ 122
def isDigit (c : Char) : Bool := 48 ≤ c.toNat && c.toNat ≤ 57
def isLetter (c : Char) : Bool := isUpper c || isLower c
def isAlnum (c : Char) : Bool := isLetter c || isDigit c

/-- ASCII `str.lower()` on one character -/
def lowerChar (c : Char) : Char := if isUpper c then Char.ofNat (c.toNat + 32) else c

def lower (s : Name) : Name := s.map lowerChar

/-! ### decimal numerals (`str(cnt)`) -/

def digitChar (d : Nat) : Char := Char.ofNat (48 + d % 10)

/-- `str(n)` for a natural number, most significant digit first (fuel = n + 1 is always enough) -/
def digitsF : Nat → Nat → List Char
  | 0, n => [digitChar n]
  | f + 1, n => if n < 10 then [digitChar n] else digitsF f (n / 10) ++ [digitChar n]

def digits (n : Nat) : List Char := digitsF n n

/-- value of a numeral (inverse of `digits`, used for injectivity) -/
def ofDigits (cs : List Char) : Nat := cs.foldl (fun acc c => acc * 10 + (c.toNat - 48)) 0

/-! ### VHDL basic identifier:  letter { [ underline ] letter_or_digit } -/

/-- rest of an identifier; `p` = the previous character was an underline -/
def scan : Bool → List Char → Bool
  | p, [] => !p
  | p, c :: cs =>
      if isAlnum c then scan false cs
      else if c == '_' && !p then scan true cs
      else false

def basicId : Name → Bool
  | [] => false
  | c :: cs => isLetter c && scan false cs

/-! ### name selection and sanitising -/

structure Decl where
  override : Option Name
  hint : Option Name
  fallback : Option Name
  deriving Repr

/-- `complete_setup`: override, else name hint, else fallback (none of them = `AssertionError`) -/
def chooseRaw (d : Decl) : Option Name :=
  match d.override, d.hint, d.fallback with
  | some n, _, _ => some n
  | none, some n, _ => some n
  | none, none, some n => some n
  | none, none, none => none

/-- runs of non-alphanumeric characters become ONE underline, none at the start or the end.
    `pend` = an underline is owed, `started` = something has been emitted -/
def squeeze : Bool → Bool → List Char → List Char
  | _, _, [] => []
  | pend, started, c :: cs =>
      if isAlnum c then
        (if pend && started then '_' :: c :: squeeze false true cs else c :: squeeze false true cs)
      else squeeze true started cs

def unnamed : Name := "unnamed".toList

/-- what the compiler substitutes: `empty` for a name without any usable character, `pre` in front of a name
    that does not start with a letter.  Both spellings are the compiler's choice (INPUTS of the model, read from
    the real `complete_setup` on every run); the property only needs them to be identifiers themselves (`GoodCfg`). -/
structure SanCfg where
  empty : Name
  pre : Name
  deriving Repr

def fixStartWith (cfg : SanCfg) : Name → Name
  | [] => cfg.empty
  | c :: cs => if isLetter c then c :: cs else cfg.pre ++ c :: cs

def sanitizeWith (cfg : SanCfg) (raw : Name) : Name := fixStartWith cfg (squeeze false false raw)

/-- the spellings of the current repair (`unnamed`, `n`) -/
def defaultCfg : SanCfg := ⟨unnamed, ['n']⟩

def sanitize (raw : Name) : Name := sanitizeWith defaultCfg raw

/-- requirement on the substituted spellings: `empty` is a basic identifier, `pre` is a letter followed by
    identifier characters not ending in an underline -/
def goodCfg (cfg : SanCfg) : Bool :=
  basicId cfg.empty && (match cfg.pre with | [] => false | p :: ps => isLetter p && scan false ps)

/-! ### the collision search -/

def cand (base : Name) (n : Nat) : Name := base ++ digits n

/-- `name.lower() not in used_names` for the candidate with suffix n -/
def free (used : List Name) (base : Name) (n : Nat) : Bool := !(used.contains (lower (cand base n)))

/-- `while name.lower() in used_names: cnt *= 2` (the Python loop terminates because `used` is finite;
    `fuel = used.length` iterations always suffice - `double_free`) -/
def double (used : List Name) (base : Name) : Nat → Nat → Nat
  | 0, cnt => cnt
  | f + 1, cnt => if free used base cnt then cnt else double used base f (2 * cnt)

/-- `while step: if free(cnt - step): cnt -= step; step //= 2` -/
def bisect (used : List Name) (base : Name) : Nat → Nat → Nat → Nat
  | 0, cnt, _ => cnt
  | f + 1, cnt, step =>
      if step = 0 then cnt
      else bisect used base f (if free used base (cnt - step) then cnt - step else cnt) (step / 2)

/-- the numeric suffix chosen for a base name that collides -/
def suffix (used : List Name) (base : Name) : Nat :=
  let cnt := double used base used.length 1
  bisect used base (cnt / 2 + 1) cnt (cnt / 2)

/-- name given to a declaration whose (sanitised) name is `base`, `used` = lower-cased names taken -/
def pick (used : List Name) (base : Name) : Name :=
  if used.contains (lower base) then cand base (suffix used base) else base

/-! ### scopes -/

/-- one scope: returns the assigned names (declaration order) and the final used set -/
def assignScope (cfg : SanCfg) : List Name → List Name → List Name × List Name
  | used, [] => ([], used)
  | used, r :: rs =>
      let n := pick used (sanitizeWith cfg r)
      let rest := assignScope cfg (lower n :: used) rs
      (n :: rest.1, rest.2)

structure Design where
  cfg : SanCfg
  reserved : List Name          -- ModuleScope._vhdl_reserved ∪ _additional_reserved (lower case in the source)
  additional : List Name        -- `additional_reserved_names` of the compiler call (lower-cased on entry, see fix)
  moduleDecls : List Name       -- raw names
  entityDecls : List Name
  archReserved : List Name      -- `reserved_names` attribute of the entity (lower-cased on entry, see fix)
  archDecls : List Name
  procs : List (List Name)
  deriving Repr

structure Assigned where
  moduleNames : List Name
  entityNames : List Name
  archNames : List Name
  procNames : List (List Name)
  deriving Repr, DecidableEq

def assignDesign (d : Design) : Assigned :=
  let m := assignScope d.cfg (d.reserved ++ d.additional.map lower) d.moduleDecls
  let e := assignScope d.cfg m.2 d.entityDecls
  let a := assignScope d.cfg (e.2 ++ d.archReserved.map lower) d.archDecls
  { moduleNames := m.1, entityNames := e.1, archNames := a.1,
    procNames := d.procs.map (fun p => (assignScope d.cfg a.2 p).1) }

/-- used set seen by the processes (final used set of the architecture scope) -/
def archUsed (d : Design) : List Name :=
  let m := assignScope d.cfg (d.reserved ++ d.additional.map lower) d.moduleDecls
  let e := assignScope d.cfg m.2 d.entityDecls
  (assignScope d.cfg (e.2 ++ d.archReserved.map lower) d.archDecls).2

/-! ### hoisting (`VhdlScope.declare` / the first loop of `complete_setup`)

  A chain of nested scopes, innermost first, is asked to declare an object.  Every scope of the chain that
  does not know the object yet records it (active only in the scope that was asked first); a scope that
  already knows it marks its record active and stops the propagation.  In `complete_setup` (outermost scope
  first) an active record wins and removes the records of all scopes below it.  Result: the object is owned
  by the OUTERMOST scope of the chain that holds an active record.

  Model: scopes are numbered by depth (0 = outermost); a request names the depth of the asking scope and the
  path is implicit (fixed layout).  `Rec` = for one object, per depth: none | some active. -/

abbrev Rec := List (Option Bool)   -- index = depth

/-- one `declare` call issued at depth `d` (propagating towards depth 0) -/
def declareAt : Nat → Rec → Bool → Rec
  | 0, r, first =>
      match r with
      | [] => [some first]
      | none :: rest => some first :: rest
      | some _ :: rest => some true :: rest
  | d + 1, r, first =>
      -- the record of depth d+1, then the parent unless this scope already knew the object
      let cur := r.getD (d + 1) none
      match cur with
      | some _ => r.set (d + 1) (some true)
      | none =>
          let r' := (if r.length ≤ d + 1 then r ++ List.replicate (d + 2 - r.length) none else r).set (d + 1) (some first)
          declareAt d r' false

/-- owner = the outermost depth with an active record -/
def owner (r : Rec) : Option Nat := r.findIdx? (· == some true)

end CohdlVerif.C06
