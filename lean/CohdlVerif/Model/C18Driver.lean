import CohdlVerif.Model.C18
/-
  Line protocol of the C18 model driver.  One request = `<op> <decimal arguments...>`; the answer is
  `<spec> <mirror>`: the value demanded by the mathematical definition and the value computed by the
  mirror of the Python code (both canonical: `w:v` = width and unsigned value, lists joined by `,`,
  `reject` when the helper refuses the arguments, `bad-op` for anything unparsable).
-/
namespace CohdlVerif.C18

def showB (b : Bits) : String := s!"{b.length}:{toNat b}"
def showU (u : U) : String := s!"{u.w}:{u.v}"
def showOB : Option Bits → String
  | none => "reject"
  | some b => showB b
def showOU : Option U → String
  | none => "reject"
  | some u => showU u
def showL (l : List Bits) : String := ",".intercalate (l.map showB)
def showOL : Option (List Bits) → String
  | none => "reject"
  | some l => showL l

/-- two's complement encoding of an Int at width w -/
def encInt (w : Nat) (i : Int) : Nat := (i % (2 ^ w : Int)).toNat
def showOI (w : Nat) : Option Int → String
  | none => "reject"
  | some i => s!"{w}:{encInt w i}"

def ans (spec mirror : String) : String := spec ++ " " ++ mirror

def nats (l : List String) : Option (List Nat) := l.mapM String.toNat?
def ints (l : List String) : Option (List Int) := l.mapM String.toInt?

/-- pairs `w v w v ...` -> list of bit vectors -/
def pairsToBits : List Nat → Option (List Bits)
  | [] => some []
  | w :: v :: r => (pairsToBits r).map (ofNat w v :: ·)
  | _ => none

def pairsToFirst : List Nat → Option (List (Bool × Nat))
  | [] => some []
  | c :: v :: r => (pairsToFirst r).map ((c != 0, v) :: ·)
  | _ => none

def guardSpec (ok : Bool) (s : String) : String := if ok then s else "reject"

def handleN (op : String) (a : List Nat) : String :=
  match op, a with
  | "popcnt", [w, bs, v] =>
      let b := ofNat w v
      ans (guardSpec (bs ≠ 0 ∧ w ≠ 0) (showU ⟨bitLen w, popcount b⟩)) (showOU (countSetBits bs b))
  | "clrcnt", [w, bs, v] =>
      let b := ofNat w v
      ans (guardSpec (bs ≠ 0 ∧ w ≠ 0) (showU ⟨bitLen w, w - popcount b⟩)) (showOU (countClearBits bs b))
  | "ctz", [w, v] => let b := ofNat w v; ans (showU ⟨uptoW w, trailingRun false b⟩) (showU (ctz b))
  | "cto", [w, v] => let b := ofNat w v; ans (showU ⟨uptoW w, trailingRun true b⟩) (showU (cto b))
  | "clz", [w, v] => let b := ofNat w v; ans (showU ⟨uptoW w, leadingRun false b⟩) (showOU (clz b))
  | "clo", [w, v] => let b := ofNat w v; ans (showU ⟨uptoW w, leadingRun true b⟩) (showOU (clo b))
  | "onehot", [w, p] => ans (guardSpec (p < w) (showB (oneHotSpec w p))) (showOB (oneHot w p))
  | "isonehot", [w, v] =>
      let b := ofNat w v
      ans (if isOneHotSpec b then "1:1" else "1:0") (if isOneHot b then "1:1" else "1:0")
  | "rev", [w, v] => let b := ofNat w v; ans (showB b.reverse) (showOB (reverseBits b))
  | "rol", [w, n, v] => let b := ofNat w v; ans (guardSpec (n ≤ w) (showB (rolSpec b n))) (showOB (rolM b n))
  | "ror", [w, n, v] => let b := ofNat w v; ans (guardSpec (n ≤ w) (showB (rorSpec b n))) (showOB (rorM b n))
  | "lsf", [wv, wf, v, f] =>
      ans (guardSpec (wf ≤ wv) s!"{wv}:{lshiftFillSpec wv wf v f}") (showOB (lshiftFill (ofNat wv v) (ofNat wf f)))
  | "rsf", [wv, wf, v, f] =>
      ans (guardSpec (wf ≤ wv) s!"{wv}:{rshiftFillSpec wv wf v f}") (showOB (rshiftFill (ofNat wv v) (ofNat wf f)))
  | "repeat", [w, t, v] =>
      let b := ofNat w v; ans (guardSpec (t ≠ 0) (showB (repeatSpec b t))) (showOB (repeatM b t))
  | "stretch", [w, f, v] =>
      let b := ofNat w v; ans (guardSpec (f ≠ 0) (showB (stretchSpec b f))) (showOB (stretchM b f))
  | "leftpad", [w, rw, fill, v] =>
      let b := ofNat w v
      ans (guardSpec (w ≤ rw) (showB (padSpec b (rw - w) 0 (fill != 0)))) (showOB (leftpadM b rw (fill != 0)))
  | "rightpad", [w, rw, fill, v] =>
      let b := ofNat w v
      ans (guardSpec (w ≤ rw) (showB (padSpec b 0 (rw - w) (fill != 0)))) (showOB (rightpadM b rw (fill != 0)))
  | "pad", [w, l, r, fill, v] =>
      let b := ofNat w v
      ans (showB (padSpec b l r (fill != 0))) (showOB (padM b l r (fill != 0)))
  | "mask", [w, o, n, m] =>
      ans (showB (applyMaskSpec (ofNat w o) (ofNat w n) (ofNat w m))) (showOB (applyMask (ofNat w o) (ofNat w n) (ofNat w m)))
  | "batched", [w, n, allow, v] =>
      let b := ofNat w v
      ans (guardSpec (n ≠ 0 ∧ (w % n = 0 ∨ allow ≠ 0)) (showL (chunks n b))) (showOL (batched b n (allow != 0)))
  | "selbatch", [k, bs, inp, sel] =>
      let i := ofNat (k * bs) inp; let s := ofNat k sel
      ans (guardSpec (bs ≠ 0) (showB (selectBatchSpec i s bs))) (showOB (selectBatch i s bs))
  | "crc", [w, poly, init, k, data] =>
      let p := ofNat w poly; let r := ofNat w init; let d := ofNat k data
      ans (guardSpec (k ≠ 0) (showB (crcSpec p r d))) (showOB (calcSteps p r d))
  | "crciter", [w, poly, init, k, data] =>
      let p := ofNat w poly; let r := ofNat w init; let d := ofNat k data
      ans (guardSpec (k ≠ 0) (showB (crcIter p r d))) (showOB (calcSteps p r d))
  | _, _ => "bad-op"

def handleList (op : String) (a : List Nat) : String :=
  match op, a with
  | "concat", ws =>
      match pairsToBits ws with
      | some parts => ans (guardSpec (parts ≠ []) (showB (concatSpec parts))) (showOB (concatM parts))
      | none => "bad-op"
  | "bfold", bs :: ws =>      -- batched_fold(lambda a, b: a @ b, parts, batch_size=bs)
      match pairsToBits ws with
      | some parts =>
          ans (guardSpec (parts ≠ [] ∧ bs ≠ 0) (showOB (foldl1 cat parts))) (showOB (batchedFold cat bs parts))
      | none => "bad-op"
  | "fold", ws =>             -- binary_fold(lambda a, b: a @ b, parts)
      match pairsToBits ws with
      | some parts => ans (guardSpec (parts ≠ []) (showOB (foldl1 cat parts))) (showOB (binaryFold cat parts))
      | none => "bad-op"
  | "foldr", ws =>            -- binary_fold(..., right_fold=True)
      match pairsToBits ws with
      | some parts => ans (guardSpec (parts ≠ []) (showOB (foldl1 cat parts))) (showOB (binaryFoldR cat parts))
      | none => "bad-op"
  | "count", value :: l => ans (showU (countSpec l value)) (showOU (countM l value))
  | "cwhile", value :: l => ans (showU ⟨uptoW l.length, countWhileSpec l value⟩) (showU (countWhile l value))
  | "cuntil", value :: l => ans (showU ⟨uptoW l.length, countUntilSpec l value⟩) (showU (countUntil l value))
  | "first", d :: cv =>
      match pairsToFirst cv with
      | some l => ans (toString (chooseFirstSpec l d)) (toString (firstImpl l d))
      | none => "bad-op"
  | "select", arg :: d :: kv =>
      match pairsToBits kv with   -- only used for parsing pairs: (k v)*
      | some _ =>
          let rec pairs : List Nat → List (Nat × Nat)
            | k :: v :: r => (k, v) :: pairs r
            | _ => []
          let br := pairs kv
          ans (toString (((br.find? (·.1 == arg)).map (·.2)).getD d)) (toString (selectM arg br d))
      | none => "bad-op"
  | "cond", [c, x, y] => ans (toString (if c != 0 then x else y)) (toString (condM (c != 0) x y))
  | _, _ => "bad-op"

/-- ops over signed keys: `min W k1 k2 ...` etc. (W = width used for the two's complement answer) -/
def handleI (op : String) (w : Nat) (keys : List Int) : String :=
  let iw := uptoW keys.length
  match op with
  | "min" => ans (showOI w (minSpec keys)) (showOI w (minimumM keys))
  | "max" => ans (showOI w (maxSpec keys)) (showOI w (maximumM keys))
  | "minidx" =>
      ans (match minSpec keys with | none => "reject" | some m => showU ⟨iw, firstIdxOf m keys⟩) (showOU (minIndexM keys))
  | "maxidx" =>
      ans (match maxSpec keys with | none => "reject" | some m => showU ⟨iw, firstIdxOf m keys⟩) (showOU (maxIndexM keys))
  | "clamp" =>
      match keys with
      | [v, lo, hi] => ans (guardSpec (lo ≤ hi) (showOI w (some (clampSpec v lo hi)))) (showOI w (some (clampM v lo hi)))
      | _ => "bad-op"
  | _ => "bad-op"

def handle (args : List String) : String :=
  match args with
  | [] => "bad-op"
  | op :: rest =>
    if op ∈ ["min", "max", "minidx", "maxidx", "clamp"] then
      match rest with
      | w :: ks =>
          match w.toNat?, ints ks with
          | some w, some ks => handleI op w ks
          | _, _ => "bad-op"
      | [] => "bad-op"
    else if op ∈ ["concat", "bfold", "fold", "foldr", "count", "cwhile", "cuntil", "first", "select", "cond"] then
      match nats rest with
      | some a => handleList op a
      | none => "bad-op"
    else
      match nats rest with
      | some a => handleN op a
      | none => "bad-op"

end CohdlVerif.C18
