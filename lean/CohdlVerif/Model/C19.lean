/-
  C19 - fixed-point numbers of `cohdl/std/_fixed.py` (SFixed / UFixed).

  MIRROR (`BV`, `resizeS`, `resizeU`, `arithS`, `arithU`, `ctor*`, `eqNum*`): the Python code branch by
  branch, with the patches fixes/C19-*.patch applied (the model must match the tree after the fixes):
    * `SFixed(Signed)` uses `_qualifier_[raw_type](..)` (C19-ctor-from-signed; the unpatched call always raises),
    * `resize_fn` first extends a source whose format has no bit position in common with the target
      (C19-resize-disjoint-formats), * the ROUND branches add the rounding increment on the unsigned view
      and saturate when the increment carries out of the target (C19-resize-round-carry),
    * the constructor from another format pads `val.right() - self.right()` zeros (C19-ctor-zeros-sign),
    * `__eq__` with a python number that the format cannot represent is `False` (C19-eq-unrepresentable-number).
  Bit vectors are (width, unsigned bit pattern); every BitVector / Signed / Unsigned method used by
  `_fixed.py` is a small function with the Python assertion kept as an `Except` error.

  SPEC (`specResize`, `specArith*`): exact integer arithmetic on `raw * 2^right`, scaled by a common exponent.

  Everything is `Int`; `p2 k = 2 ^ k.toNat`.
-/
namespace CohdlVerif.C19

/-- Python exceptions, by the assertion that raises them (messages are never compared) -/
inductive Err where
  | subvec      -- BitVector.left/right: `invalid subvector width`
  | index       -- `index exceeds vector width` / slice outside the vector
  | range       -- Signed[w](int) / Unsigned[w](int): value outside representable range
  | wider       -- `cannot initialize Signed[..] with wider type`
  | resizeWidth -- Signed/Unsigned.resize: `width of zero extended value exceeds target width`
  | rawType     -- SFixed(raw=..): `raw type must match underlying type`
  | fmtAssert   -- constructor from another format: `assert self.left() >= val.left()` / right
  | staticAssert-- static_assert (value outside valid range, zeros >= 0)
  | width       -- a vector type of width < 1
  deriving Repr, DecidableEq

inductive Round where | round | truncate deriving Repr, DecidableEq
inductive Ovf where | saturate | wrap deriving Repr, DecidableEq

def p2 (k : Int) : Int := 2 ^ k.toNat

/-- a bit vector: width and unsigned bit pattern (`0 ≤ u < 2^w`) -/
structure BV where
  w : Int
  u : Int
  deriving Repr, DecidableEq

/-- `BitVector.right(width)` = `lsb(width)` (order DOWNTO) -/
def BV.right (b : BV) (width : Int) : Except Err BV :=
  if 1 ≤ width ∧ width ≤ b.w then .ok ⟨width, b.u % p2 width⟩ else .error .subvec

/-- `BitVector.left(width)` = `msb(width)` -/
def BV.left (b : BV) (width : Int) : Except Err BV :=
  if 1 ≤ width ∧ width ≤ b.w then .ok ⟨width, b.u / p2 (b.w - width)⟩ else .error .subvec

def BV.lsbRest (b : BV) (rest : Int) : Except Err BV := b.right (b.w - rest)
def BV.msbRest (b : BV) (rest : Int) : Except Err BV := b.left (b.w - rest)

/-- `v[i]` -/
def BV.bit (b : BV) (i : Int) : Except Err Bool :=
  if 0 ≤ i ∧ i < b.w then .ok (b.u / p2 i % 2 == 1) else .error .index

/-- `v[hi:0]` -/
def BV.slice0 (b : BV) (hi : Int) : Except Err BV :=
  if 0 ≤ hi ∧ hi + 1 ≤ b.w then .ok ⟨hi + 1, b.u % p2 (hi + 1)⟩ else .error .index

/-- `v.msb()` (no width): the most significant bit -/
def BV.msbBit (b : BV) : Bool := b.u / p2 (b.w - 1) % 2 == 1

/-- `~v` -/
def BV.inv (b : BV) : BV := ⟨b.w, p2 b.w - 1 - b.u⟩

/-- `bool(v)` -/
def BV.any (b : BV) : Bool := b.u != 0

/-- `Signed.to_int` -/
def BV.sInt (b : BV) : Int := if b.u < p2 (b.w - 1) then b.u else b.u - p2 b.w

/-- `Signed[w](int)` -/
def mkS (w v : Int) : Except Err BV :=
  if w < 1 then .error .width
  else if -(p2 (w - 1)) ≤ v ∧ v < p2 (w - 1) then .ok ⟨w, v % p2 w⟩ else .error .range

/-- `Unsigned[w](int)` -/
def mkU (w v : Int) : Except Err BV :=
  if w < 1 then .error .width
  else if 0 ≤ v ∧ v < p2 w then .ok ⟨w, v⟩ else .error .range

/-- `Signed[tw](x)` for a Signed `x` -/
def sFromS (tw : Int) (b : BV) : Except Err BV :=
  if b.w ≤ tw then mkS tw b.sInt else .error .wider

/-- `Unsigned[tw](x)` for an Unsigned `x` -/
def uFromU (tw : Int) (b : BV) : Except Err BV :=
  if b.w ≤ tw then mkU tw b.u else .error .wider

/-- `Signed[tw](x)` for an Unsigned `x` -/
def sFromU (tw : Int) (b : BV) : Except Err BV :=
  if b.w < tw then mkS tw b.u else .error .wider

/-- `Signed.resize(target_width, zeros=zeros)`; a negative `zeros` makes `2**zeros` a float, rejected by
    the Signed constructor -/
def sResize (b : BV) (tw zeros : Int) : Except Err BV :=
  if ¬ (b.w + zeros ≤ tw) then .error .resizeWidth
  else if zeros < 0 then .error .range
  else mkS tw (b.sInt * p2 zeros)

def uResize (b : BV) (tw zeros : Int) : Except Err BV :=
  if ¬ (b.w + zeros ≤ tw) then .error .resizeWidth
  else if zeros < 0 then .error .range
  else mkU tw (b.u * p2 zeros)

/-- ripple-carry `add` of Signed / Unsigned vectors on the bit patterns: the operands are sign (zero)
    extended to the wider width, the carry out is dropped -/
def sAdd (a b : BV) : BV :=
  let w := max a.w b.w
  ⟨w, (a.sInt + b.sInt) % p2 w⟩

def uAdd (a b : BV) : BV :=
  let w := max a.w b.w
  ⟨w, (a.u + b.u) % p2 w⟩

/-- `Signed.__neg__`: `self.copy()` for width 1, else `~self + 1` (the int 1 is `Signed[2]`) -/
def sNeg (a : BV) : Except Err BV :=
  if a.w = 1 then .ok a
  else if ¬ (2 ≤ a.w) then .error .range
  else .ok (sAdd a.inv ⟨2, 1⟩ |> fun s => ⟨a.w, s.u % p2 a.w⟩)

/-- `Unsigned.__neg__`: `~self + 1` (the int 1 is `Unsigned[1]`) -/
def uNeg (a : BV) : BV := ⟨a.w, (a.inv.u + 1) % p2 a.w⟩

/-- `SFixed[..](raw=x)`: `instance_check(raw, Signed[width])` -/
def resultRaw (tw : Int) (b : BV) : Except Err BV :=
  if b.w = tw then .ok b else .error .rawType

/-- the rounding increment of every ROUND branch (python `and` / `or` short-circuit) -/
def doRound (b : BV) (cutoff : Int) : Except Err Int := do
  if cutoff = 1 then
    let b0 ← b.bit (cutoff - 1)
    if b0 then
      let b1 ← b.bit cutoff
      pure (if b1 then 1 else 0)
    else pure 0
  else
    let b0 ← b.bit (cutoff - 1)
    if b0 then
      let b1 ← b.bit cutoff
      if b1 then pure 1
      else
        let low ← b.slice0 (cutoff - 2)
        pure (if low.any then 1 else 0)
    else pure 0

/-- `choose_first((c1, v1), (c2, v2), default=d)` -/
def choose2 (c1 : Bool) (v1 : BV) (c2 : Bool) (v2 : BV) (d : BV) : BV :=
  if c1 then v1 else if c2 then v2 else d

/-! ## SFixed -/

/-- `SFixed[tl:tr](val)` for an SFixed `val` of format `[sl:sr]` with raw value `v` -/
def ctorFixedS (tl tr sl sr v : Int) : Except Err Int := do
  let tw := tl - tr + 1
  let b ← mkS (sl - sr + 1) v
  if tl = sl ∧ tr = sr then
    let x ← sFromS tw b
    pure x.sInt
  else if ¬ (tl ≥ sl) then .error .fmtAssert
  else if ¬ (tr ≤ sr) then .error .fmtAssert
  else
    let zeros := sr - tr
    let x ← sResize b tw zeros
    let y ← sFromS tw x
    pure y.sInt

/-- `SFixed.resize_fn` below the two early returns: the case analysis on the relation of the bounds -/
def resizeSCore (l r v l' r' : Int) (rs : Round) (os : Ovf) : Except Err Int := do
  let w := l - r + 1
  let tw := l' - r' + 1
  let b ← mkS w v
  let tmin ← mkS tw (-(p2 (tw - 1)))
  let tmax ← mkS tw (p2 (tw - 1) - 1)
  if l > l' then
    let overflow := l - l'
    match os with
    | .wrap =>
      if r ≥ r' then
        let zeros := r - r'
        if overflow ≥ b.w then
          let z ← mkS tw 0
          let x ← resultRaw tw z
          pure x.sInt
        else
          let a ← b.lsbRest overflow
          let x ← sResize a (a.w + zeros) zeros
          let x ← resultRaw tw x
          pure x.sInt
      else
        let cutoff := r' - r
        match rs with
        | .truncate =>
          let a ← b.lsbRest overflow
          let k ← a.msbRest cutoff
          let x ← sFromS tw k
          let x ← resultRaw tw x
          pure x.sInt
        | .round =>
          let dr ← doRound b cutoff
          let a ← b.lsbRest overflow
          let k ← a.msbRest cutoff
          let s := uAdd k ⟨1, dr⟩
          let x ← sFromS tw s
          let x ← resultRaw tw x
          pure x.sInt
    | .saturate =>
      let sign := b.msbBit
      let cnt := min (l - l') (w - 1)
      let t ← b.lsbRest 1
      let ob ← t.left cnt
      let doesOverflow := !sign && ob.any
      let doesUnderflow := sign && ob.inv.any
      if r ≥ r' then
        let zeros := r - r'
        let dflt ← (if b.w ≤ overflow then mkS tw 0
                    else do
                      let a ← b.lsbRest overflow
                      sResize a tw zeros)
        let x ← sFromS tw (choose2 doesUnderflow tmin doesOverflow tmax dflt)
        let x ← resultRaw tw x
        pure x.sInt
      else
        let cutoff := r' - r
        match rs with
        | .truncate =>
          let a ← b.lsbRest overflow
          let k ← a.msbRest cutoff
          let x ← sFromS tw (choose2 doesUnderflow tmin doesOverflow tmax k)
          let x ← resultRaw tw x
          pure x.sInt
        | .round =>
          let dr ← doRound b cutoff
          let a ← b.lsbRest overflow
          let sel ← a.msbRest cutoff
          let roundOverflows := dr != 0 && sel.sInt == tmax.sInt
          let x ← sFromS tw (choose2 doesUnderflow tmin (doesOverflow || roundOverflows) tmax (uAdd sel ⟨1, dr⟩))
          let x ← resultRaw tw x
          pure x.sInt
  else
    if r ≥ r' then
      let x ← sResize b tw (r - r')
      let x ← resultRaw tw x
      pure x.sInt
    else
      let cutoff := r' - r
      match rs with
      | .truncate =>
        let k ← b.msbRest cutoff
        let x ← sResize k tw 0
        let x ← sFromS tw x
        let x ← resultRaw tw x
        pure x.sInt
      | .round =>
        let dr ← doRound b cutoff
        let sel ← b.msbRest cutoff
        let x ← sResize sel tw 0
        let rounded := uAdd x ⟨1, dr⟩
        if os = .saturate ∧ l = l' then
          let roundOverflows := dr != 0 && sel.sInt == tmax.sInt
          let x ← sFromS tw (choose2 roundOverflows tmax false tmax rounded)
          let x ← resultRaw tw x
          pure x.sInt
        else
          let x ← sFromS tw rounded
          let x ← resultRaw tw x
          pure x.sInt

/-- `SFixed._resize_overlapping` -/
def resizeS1 (l r v l' r' : Int) (rs : Round) (os : Ovf) : Except Err Int :=
  if l = l' ∧ r = r' then (mkS (l - r + 1) v).map BV.sInt
  else resizeSCore l r v l' r' rs os

/-- `SFixed[l:r](raw=v).resize_fn(l', r', rs, os)` : raw value of the result (its format is `[l':r']`) -/
def resizeS (l r v l' r' : Int) (rs : Round) (os : Ovf) : Except Err Int :=
  if l < r' ∨ l' < r then do
    let el := max l r'
    let er := min r l'
    let ev ← ctorFixedS el er l r v
    resizeS1 el er ev l' r' rs os
  else resizeS1 l r v l' r' rs os

/-! ## UFixed -/

def ctorFixedU (tl tr sl sr v : Int) : Except Err Int := do
  let tw := tl - tr + 1
  let b ← mkU (sl - sr + 1) v
  if tl = sl ∧ tr = sr then
    let x ← uFromU tw b
    pure x.u
  else if ¬ (tl ≥ sl) then .error .fmtAssert
  else if ¬ (tr ≤ sr) then .error .fmtAssert
  else
    let zeros := sr - tr
    let x ← uResize b tw zeros
    let y ← uFromU tw x
    pure y.u

def resizeUCore (l r v l' r' : Int) (rs : Round) (os : Ovf) : Except Err Int := do
  let w := l - r + 1
  let tw := l' - r' + 1
  let b ← mkU w v
  let tmax ← mkU tw (p2 tw - 1)
  if l > l' then
    let overflow := l - l'
    match os with
    | .wrap =>
      if r ≥ r' then
        let zeros := r - r'
        if overflow ≥ b.w then
          let z ← mkU tw 0
          let x ← resultRaw tw z
          pure x.u
        else
          let a ← b.lsbRest overflow
          let x ← uResize a (a.w + zeros) zeros
          let x ← resultRaw tw x
          pure x.u
      else
        let cutoff := r' - r
        match rs with
        | .truncate =>
          let a ← b.lsbRest overflow
          let k ← a.msbRest cutoff
          let x ← uFromU tw k
          let x ← resultRaw tw x
          pure x.u
        | .round =>
          let dr ← doRound b cutoff
          let a ← b.lsbRest overflow
          let k ← a.msbRest cutoff
          let x ← uFromU tw (uAdd k ⟨1, dr⟩)
          let x ← resultRaw tw x
          pure x.u
    | .saturate =>
      let ob ← b.left (l - l')
      let doesOverflow := ob.any
      if r ≥ r' then
        let zeros := r - r'
        let dflt ← (if b.w ≤ overflow then mkU tw 0
                    else do
                      let a ← b.lsbRest overflow
                      uResize a tw zeros)
        let x ← uFromU tw (choose2 doesOverflow tmax false tmax dflt)
        let x ← resultRaw tw x
        pure x.u
      else
        let cutoff := r' - r
        match rs with
        | .truncate =>
          let a ← b.lsbRest overflow
          let k ← a.msbRest cutoff
          let x ← uFromU tw (choose2 doesOverflow tmax false tmax k)
          let x ← resultRaw tw x
          pure x.u
        | .round =>
          let dr ← doRound b cutoff
          let a ← b.lsbRest overflow
          let sel ← a.msbRest cutoff
          let overflowOrFull := doesOverflow || !sel.inv.any
          let x ← uFromU tw (choose2 overflowOrFull tmax false tmax (uAdd sel ⟨1, dr⟩))
          let x ← resultRaw tw x
          pure x.u
  else
    if r ≥ r' then
      let x ← uResize b tw (r - r')
      let x ← resultRaw tw x
      pure x.u
    else
      let cutoff := r' - r
      match rs with
      | .truncate =>
        let k ← b.msbRest cutoff
        let x ← uResize k tw 0
        let x ← uFromU tw x
        let x ← resultRaw tw x
        pure x.u
      | .round =>
        let dr ← doRound b cutoff
        let sel ← b.msbRest cutoff
        let x ← uResize sel tw 0
        let rounded := uAdd x ⟨1, dr⟩
        if os = .saturate ∧ l = l' then
          let roundOverflows := dr != 0 && !sel.inv.any
          let x ← uFromU tw (choose2 roundOverflows tmax false tmax rounded)
          let x ← resultRaw tw x
          pure x.u
        else
          let x ← uFromU tw rounded
          let x ← resultRaw tw x
          pure x.u

def resizeU1 (l r v l' r' : Int) (rs : Round) (os : Ovf) : Except Err Int :=
  if l = l' ∧ r = r' then (mkU (l - r + 1) v).map BV.u
  else resizeUCore l r v l' r' rs os

def resizeU (l r v l' r' : Int) (rs : Round) (os : Ovf) : Except Err Int :=
  if l < r' ∨ l' < r then do
    let el := max l r'
    let er := min r l'
    let ev ← ctorFixedU el er l r v
    resizeU1 el er ev l' r' rs os
  else resizeU1 l r v l' r' rs os

/-! ## `+ - *` : result format and raw value -/

inductive Op where | add | sub | mul deriving Repr, DecidableEq

structure Fx where
  l : Int
  r : Int
  raw : Int
  deriving Repr, DecidableEq

def arithS (op : Op) (l1 r1 v1 l2 r2 v2 : Int) : Except Err Fx := do
  let a ← mkS (l1 - r1 + 1) v1
  let b ← mkS (l2 - r2 + 1) v2
  match op with
  | .mul =>
    let tl := l1 + l2 + 1
    let tr := r1 + r2
    let p ← mkS (a.w + b.w) (a.sInt * b.sInt)
    let x ← resultRaw (tl - tr + 1) p
    pure ⟨tl, tr, x.sInt⟩
  | _ =>
    let tr := min r1 r2
    let tl := max l1 l2 + 1
    let tw := tl - tr + 1
    let x ← sResize a tw (r1 - tr)
    let y ← sResize b tw (r2 - tr)
    let s ← (if op = .add then pure (sAdd x y) else do
               let n ← sNeg y
               pure (sAdd x n))
    let s ← resultRaw tw s
    pure ⟨tl, tr, s.sInt⟩

def arithU (op : Op) (l1 r1 v1 l2 r2 v2 : Int) : Except Err Fx := do
  let a ← mkU (l1 - r1 + 1) v1
  let b ← mkU (l2 - r2 + 1) v2
  match op with
  | .mul =>
    let tl := l1 + l2 + 1
    let tr := r1 + r2
    let p ← mkU (a.w + b.w) (a.u * b.u)
    let x ← resultRaw (tl - tr + 1) p
    pure ⟨tl, tr, x.u⟩
  | _ =>
    let tr := min r1 r2
    let tl := max l1 l2 + 1
    let tw := tl - tr + 1
    let x ← uResize a tw (r1 - tr)
    let y ← uResize b tw (r2 - tr)
    let s := if op = .add then uAdd x y else uAdd x (uNeg y)
    let s ← resultRaw tw s
    pure ⟨tl, tr, s.u⟩

/-! ## constructors from python numbers and from Signed / Unsigned; `__eq__`

  A python `int` or `float` is the dyadic number `m * 2^e` (every finite float is one).  Excluded: the
  rounding of the float division `val / 2**exp` itself (exact while the quotient has at most 53 bits),
  NaN / infinities. -/

/-- `m * 2^e` scaled by `2^(-s)`, truncated toward zero: `int(val / 2**s)` -/
def truncScaled (m e s : Int) : Int :=
  if e ≥ s then m * p2 (e - s) else Int.tdiv m (p2 (s - e))

/-- `a * 2^ea ≤ b * 2^eb` -/
def dyLe (a ea b eb : Int) : Bool :=
  let c := min ea eb
  a * p2 (ea - c) ≤ b * p2 (eb - c)

/-- `SFixed[l:r](val)` for a python number `val = m * 2^e` -/
def ctorNumS (l r m e : Int) : Except Err Int := do
  let w := l - r + 1
  let lo := -(p2 (w - 1))
  let hi := p2 (w - 1) - 1
  if ¬ (dyLe lo r m e ∧ dyLe m e hi r) then .error .staticAssert
  else
    let x ← mkS w (truncScaled m e r)
    pure x.sInt

def ctorNumU (l r m e : Int) : Except Err Int := do
  let w := l - r + 1
  if ¬ (dyLe 0 0 m e ∧ dyLe m e (p2 w - 1) r) then .error .staticAssert
  else
    let x ← mkU w (truncScaled m e r)
    pure x.u

/-- `SFixed[l:r](val)` for `val : Signed[sw]` with value `v` -/
def ctorSignedS (l r sw v : Int) : Except Err Int := do
  let w := l - r + 1
  let b ← mkS sw v
  let zeros := -r
  if ¬ (zeros ≥ 0) then .error .staticAssert
  else
    let x ← sResize b w zeros
    pure x.sInt

/-- `SFixed[l:r](val)` for `val : Unsigned[sw]` -/
def ctorUnsignedS (l r sw v : Int) : Except Err Int := do
  let w := l - r + 1
  let b ← mkU sw v
  let zeros := -r
  if ¬ (zeros ≥ 0) then .error .staticAssert
  else
    let x ← uResize b (w - 1) zeros
    let y ← sFromU w x
    pure y.sInt

/-- `UFixed[l:r](val)` for `val : Unsigned[sw]` -/
def ctorUnsignedU (l r sw v : Int) : Except Err Int := do
  let w := l - r + 1
  let b ← mkU sw v
  let zeros := -r
  if ¬ (zeros ≥ 0) then .error .staticAssert
  else
    let x ← uResize b w zeros
    let y ← uFromU w x
    pure y.u

/-- `SFixed[l:r](raw=v) == val` for a python number `val = m * 2^e` -/
def eqNumS (l r v m e : Int) : Except Err Bool := do
  let t := truncScaled m e r
  if ¬ (dyLe t r m e ∧ dyLe m e t r) then pure false    -- `_adjust_val(other) * 2**exp != other`
  else
    let c ← ctorNumS l r m e
    pure (c == v)

def eqNumU (l r v m e : Int) : Except Err Bool := do
  let t := truncScaled m e r
  if ¬ (dyLe t r m e ∧ dyLe m e t r) then pure false
  else
    let c ← ctorNumU l r m e
    pure (c == v)

/-! ## specification: exact arithmetic on `raw * 2^right` -/

/-- `v / 2^c` rounded to nearest, ties to even (`c ≥ 1`) -/
def roundEven (v c : Int) : Int :=
  let q := v / p2 c
  let rem := v % p2 c
  let half := p2 (c - 1)
  if rem > half ∨ (rem = half ∧ q % 2 = 1) then q + 1 else q

/-- the represented number `v * 2^r` in units of `2^r'`, truncated toward minus infinity or rounded -/
def quantize (r v r' : Int) (rs : Round) : Int :=
  if r ≥ r' then v * p2 (r - r')
  else match rs with
    | .truncate => v / p2 (r' - r)
    | .round => roundEven v (r' - r)

def loS (tw : Int) : Int := -(p2 (tw - 1))
def hiS (tw : Int) : Int := p2 (tw - 1) - 1
def hiU (tw : Int) : Int := p2 tw - 1

def clamp (lo hi q : Int) : Int := if q < lo then lo else if q > hi then hi else q

def overflowS (tw q : Int) : Ovf → Int
  | .wrap => (q - loS tw) % p2 tw + loS tw
  | .saturate => clamp (loS tw) (hiS tw) q

def overflowU (tw q : Int) : Ovf → Int
  | .wrap => q % p2 tw
  | .saturate => clamp 0 (hiU tw) q

/-- SPEC of `resize`: raw value of the result of format `[l':r']` -/
def specResizeS (r v l' r' : Int) (rs : Round) (os : Ovf) : Int :=
  overflowS (l' - r' + 1) (quantize r v r' rs) os

def specResizeU (r v l' r' : Int) (rs : Round) (os : Ovf) : Int :=
  overflowU (l' - r' + 1) (quantize r v r' rs) os

def inRangeS (w v : Int) : Prop := -(p2 (w - 1)) ≤ v ∧ v < p2 (w - 1)
def inRangeU (w v : Int) : Prop := 0 ≤ v ∧ v < p2 w

instance (w v : Int) : Decidable (inRangeS w v) := by unfold inRangeS; infer_instance
instance (w v : Int) : Decidable (inRangeU w v) := by unfold inRangeU; infer_instance

/-- exact result of `+ - *` in units of `2^e`: (numerator, e) -/
def specArith (op : Op) (r1 v1 r2 v2 : Int) : Int × Int :=
  match op with
  | .mul => (v1 * v2, r1 + r2)
  | .add => let e := min r1 r2; (v1 * p2 (r1 - e) + v2 * p2 (r2 - e), e)
  | .sub => let e := min r1 r2; (v1 * p2 (r1 - e) - v2 * p2 (r2 - e), e)

/-! ## line protocol
  `resize S|U l r l' r' R|T S|W`  -> for every raw value of the source format, ascending: `<mirror>/<spec>`,
                                     mirror = int | `E`
  `arith S|U add|sub|mul l1 r1 v1 l2 r2 v2` -> `<l> <r> <raw> | E` then ` / <numerator> <exponent>` of the spec
  `ctor S|U num l r m e` | `ctor S|U signed|unsigned l r sw v` | `ctor S|U fixed l r sl sr v` -> int | `E`
  `eq S|U l r v m e` -> `1` | `0` | `E`
-/

def showE : Except Err Int → String
  | .ok v => toString v
  | .error _ => "E"

def parseRound : String → Option Round
  | "R" => some .round | "T" => some .truncate | _ => none
def parseOvf : String → Option Ovf
  | "S" => some .saturate | "W" => some .wrap | _ => none
def parseOp : String → Option Op
  | "add" => some .add | "sub" => some .sub | "mul" => some .mul | _ => none
def parseSigned : String → Option Bool
  | "S" => some true | "U" => some false | _ => none

def rawValues (signed : Bool) (w : Int) : List Int :=
  let n := (p2 w).toNat
  (List.range n).map (fun (i : Nat) => if signed then (i : Int) - p2 (w - 1) else (i : Int))

def handle (args : List String) : String :=
  match args with
  | ["resize", sg, l, r, l', r', rs, os] =>
    match parseSigned sg, l.toInt?, r.toInt?, l'.toInt?, r'.toInt?, parseRound rs, parseOvf os with
    | some sg, some l, some r, some l', some r', some rs, some os =>
      if r > l ∨ r' > l' ∨ l - r > 16 then "bad-op" else
      " ".intercalate ((rawValues sg (l - r + 1)).map fun v =>
        if sg then s!"{showE (resizeS l r v l' r' rs os)}/{specResizeS r v l' r' rs os}"
        else s!"{showE (resizeU l r v l' r' rs os)}/{specResizeU r v l' r' rs os}")
    | _, _, _, _, _, _, _ => "bad-op"
  | ["arith", sg, op, l1, r1, v1, l2, r2, v2] =>
    match parseSigned sg, parseOp op, l1.toInt?, r1.toInt?, v1.toInt?, l2.toInt?, r2.toInt?, v2.toInt? with
    | some sg, some op, some l1, some r1, some v1, some l2, some r2, some v2 =>
      let m := if sg then arithS op l1 r1 v1 l2 r2 v2 else arithU op l1 r1 v1 l2 r2 v2
      let sp := specArith op r1 v1 r2 v2
      let ms := match m with
        | .ok f => s!"{f.l} {f.r} {f.raw}"
        | .error _ => "E"
      s!"{ms} / {sp.1} {sp.2}"
    | _, _, _, _, _, _, _, _ => "bad-op"
  | ["ctor", sg, kind, a, b, c, d] =>
    match parseSigned sg, a.toInt?, b.toInt?, c.toInt?, d.toInt? with
    | some sg, some a, some b, some c, some d =>
      match kind, sg with
      | "num", true => showE (ctorNumS a b c d)
      | "num", false => showE (ctorNumU a b c d)
      | "signed", true => showE (ctorSignedS a b c d)
      | "signed", false => "E"                       -- UFixed(Signed): `invalid arg`
      | "unsigned", true => showE (ctorUnsignedS a b c d)
      | "unsigned", false => showE (ctorUnsignedU a b c d)
      | _, _ => "bad-op"
    | _, _, _, _, _ => "bad-op"
  | ["ctor", sg, "fixed", l, r, sl, sr, v] =>
    match parseSigned sg, l.toInt?, r.toInt?, sl.toInt?, sr.toInt?, v.toInt? with
    | some sg, some l, some r, some sl, some sr, some v =>
      showE (if sg then ctorFixedS l r sl sr v else ctorFixedU l r sl sr v)
    | _, _, _, _, _, _ => "bad-op"
  | ["eq", sg, l, r, v, m, e] =>
    match parseSigned sg, l.toInt?, r.toInt?, v.toInt?, m.toInt?, e.toInt? with
    | some sg, some l, some r, some v, some m, some e =>
      match (if sg then eqNumS l r v m e else eqNumU l r v m e) with
      | .ok true => "1"
      | .ok false => "0"
      | .error _ => "E"
    | _, _, _, _, _, _ => "bad-op"
  | _ => "bad-op"

end CohdlVerif.C19
