import CohdlVerif.Model.Sexp
import CohdlVerif.Model.C03

/-
  C03 driver side: s-expression decoding of generated context bodies and clock-by-clock evaluation of
  `Seq.activate` (plus the concurrent assignments) on concrete input sequences.

  request:
    run    <prog> | <clock> ; <clock> ; ...      one clock = `obj:value` tokens for the input objects
    runlow <prog> | ...                          same, but the body is first lowered (`lowerSeq`) and executed
                                                 with the target-level semantics `procStep`
  <prog> = (prog (objs (o id s|v nelem w d0 d1 ..) ..) (pushed id ..) (body <stmt>) (conc (ca <tg> <expr>) ..) (obs id ..) (pre id ..))
  (pre id ..) is a further element of <prog>: objects sampled before the clock edge (concurrent outputs)
  the (conc ..) assignments may be listed in any order: `settle` evaluates them in a topological order of their
  dependencies; answer `cyclic` when there is none (combinational loop) or an object has two concurrent drivers
  answer: per clock the `pre` objects, then the observed objects `v,v,..` (array elements joined by `/`), clocks joined by `;`
-/
namespace CohdlVerif.C03

open CohdlVerif

partial def exprOf : Sexp → Option Expr
  | .list [.atom "c", n] => do pure (.const (← n.asNat?))
  | .list [.atom "rd", .atom sp, o, i, lo, w] => do
      let sp ← (if sp == "s" then some Space.sig else if sp == "v" then some Space.var else none)
      pure (.rd sp (← o.asNat?) (← exprOf i) (← lo.asNat?) (← w.asNat?))
  | .list [.atom "t", k] => do pure (.tmp (← k.asNat?))
  | .list [.atom "sl", e, lo, w] => do pure (.slice (← exprOf e) (← lo.asNat?) (← w.asNat?))
  | .list [.atom "add", w, a, b] => do pure (.add (← w.asNat?) (← exprOf a) (← exprOf b))
  | .list [.atom "eq", a, b] => do pure (.eq (← exprOf a) (← exprOf b))
  | .list [.atom "not", a] => do pure (.not (← exprOf a))
  | .list [.atom "and", a, b] => do pure (.and (← exprOf a) (← exprOf b))
  | .list [.atom "or", a, b] => do pure (.or (← exprOf a) (← exprOf b))
  | .list [.atom "sel", c, a, b] => do pure (.sel (← exprOf c) (← exprOf a) (← exprOf b))
  | .list [.atom "cat", a, w, b] => do pure (.cat (← exprOf a) (← w.asNat?) (← exprOf b))
  | _ => none

def targetOf : Sexp → Option Target
  | .list [.atom "tg", o, i, lo, w] => do pure ⟨← o.asNat?, ← exprOf i, ← lo.asNat?, ← w.asNat?⟩
  | _ => none

def modeOf : Sexp → Option Mode
  | .atom "n" => some .next
  | .atom "p" => some .push
  | .atom "v" => some .value
  | _ => none

partial def stmtOf : Sexp → Option Stmt
  | .atom "skip" => some .skip
  | .list [.atom "seq", a, b] => do pure (.seq (← stmtOf a) (← stmtOf b))
  | .list [.atom "as", m, t, e] => do pure (.assign (← modeOf m) (← targetOf t) (← exprOf e))
  | .list [.atom "ite", c, t, e] => do pure (.ite (← exprOf c) (← stmtOf t) (← stmtOf e))
  | .list [.atom "mc", s, p, b, r] => do pure (.mcase (← exprOf s) (← p.asNat?) (← stmtOf b) (← stmtOf r))
  | .list [.atom "ret", k, e] => do pure (.ret (← k.asNat?) (← exprOf e))
  | .list [.atom "call", b] => do pure (.call (← stmtOf b))
  | .list [.atom "cap", k, e] => do pure (.capture (← k.asNat?) (← exprOf e))
  | .list [.atom "decl", o, k, w, e] => do pure (.declSig (← o.asNat?) (← k.asNat?) (← w.asNat?) (← exprOf e))
  | _ => none

structure ObjDecl where
  id : Nat
  sp : Space
  nelem : Nat
  w : Nat
  dflt : List Nat

structure Prog where
  objs : List ObjDecl
  pushed : List Nat
  body : Stmt
  conc : List CA       -- in ANY order (the model settles them in a topological order)
  obs : List Nat
  pre : List Nat    -- objects sampled after the inputs changed and the concurrent logic settled, BEFORE the clock edge

def objOf : Sexp → Option ObjDecl
  | .list (.atom "o" :: id :: .atom sp :: n :: w :: ds) => do
      let sp ← (if sp == "s" then some Space.sig else if sp == "v" then some Space.var else none)
      pure ⟨← id.asNat?, sp, ← n.asNat?, ← w.asNat?, ← ds.mapM Sexp.asNat?⟩
  | _ => none

/-- concurrent assignment: the target element is a constant -/
def concOf : Sexp → Option CA
  | .list [.atom "ca", .list [.atom "tg", o, .list [.atom "c", k], lo, w], e] => do
      pure ⟨← o.asNat?, ← k.asNat?, ← lo.asNat?, ← w.asNat?, ← exprOf e⟩
  | _ => none

def progOf : Sexp → Option Prog
  | .list [.atom "prog", .list (.atom "objs" :: os), .list (.atom "pushed" :: ps), .list [.atom "body", b],
           .list (.atom "conc" :: cs), .list (.atom "obs" :: obs), .list (.atom "pre" :: pre)] => do
      pure ⟨← os.mapM objOf, ← ps.mapM Sexp.asNat?, ← stmtOf b, ← cs.mapM concOf, ← obs.mapM Sexp.asNat?,
            ← pre.mapM Sexp.asNat?⟩
  | _ => none

/-! table-backed stores: after every clock the function-valued state is re-tabulated so that closures do not pile up -/

def tabulate (objs : List ObjDecl) (sp : Space) (f : Loc → Bool) : Array (Array Nat) := Id.run do
  let n := objs.foldl (fun m o => max m (o.id + 1)) 0
  let mut t : Array (Array Nat) := Array.replicate n #[]
  for o in objs do
    if o.sp == sp then
      t := t.set! o.id ((List.range o.nelem).map (fun e => bitsToNat (fun b => f (o.id, e, b)) o.w)).toArray
  return t

def ofTable (t : Array (Array Nat)) : Loc → Bool :=
  fun l => ((t.getD l.1 #[]).getD l.2.1 0).testBit l.2.2

def initTable (objs : List ObjDecl) (sp : Space) : Array (Array Nat) := Id.run do
  let n := objs.foldl (fun m o => max m (o.id + 1)) 0
  let mut t : Array (Array Nat) := Array.replicate n #[]
  for o in objs do
    if o.sp == sp then
      t := t.set! o.id ((List.range o.nelem).map (fun e => o.dflt.getD e 0)).toArray
  return t

def freeze (objs : List ObjDecl) (s : St) : St :=
  { sig := ofTable (tabulate objs .sig s.sig), var := ofTable (tabulate objs .var s.var),
    pend := fun _ => none, tmp := fun _ => 0 }

def pushDecls (p : Prog) : List PushDecl :=
  p.pushed.filterMap (fun id => (p.objs.find? (fun o => o.id == id)).map
    (fun o => ⟨o.id, o.nelem, o.w, o.dflt.getD 0 0⟩))

/-- one clock of the whole design: inputs change, concurrent logic settles, the sequential context is
    activated, concurrent logic settles again -/
def clockStep (low : Bool) (p : Prog) (s : St) (ins : List (Nat × Nat)) : Option (St × St) := do
  let i : Loc → Option Bool := fun l =>
    match ins.find? (fun x => x.1 == l.1) with
    | some x => if l.2.1 == 0 then some (x.2.testBit l.2.2) else none
    | none => none
  let s1 ← settle p.conc (setInputs i s)
  let noIn : Loc → Option Bool := fun _ => none
  let s2 := if low then procStep (pushDecls p) (lowerSeq p.body) s1 noIn
            else Seq.activate (pushDflt (pushDecls p)) p.body s1 noIn
  let s3 ← settle p.conc s2
  pure (s1, freeze p.objs s3)

def showObj (p : Prog) (s : St) (id : Nat) : String :=
  match p.objs.find? (fun o => o.id == id) with
  | none => "?"
  | some o => "/".intercalate ((List.range o.nelem).map
      (fun e => toString (bitsToNat (fun b => store s o.sp (o.id, e, b)) o.w)))

def parseClock (toks : List String) : Option (List (Nat × Nat)) :=
  toks.mapM (fun t => match t.splitOn ":" with
    | [a, b] => do pure (← a.toNat?, ← b.toNat?)
    | _ => none)

def splitOnTok (sep : String) (toks : List String) : List (List String) :=
  let r := toks.foldl (fun (acc : List (List String) × List String) t =>
    if t == sep then (acc.2.reverse :: acc.1, []) else (acc.1, t :: acc.2)) ([], [])
  (r.2.reverse :: r.1).reverse

def runProg (low : Bool) (p : Prog) (clocks : List (List (Nat × Nat))) : String := Id.run do
  let mut s : St := { sig := ofTable (initTable p.objs .sig), var := ofTable (initTable p.objs .var),
                      pend := fun _ => none, tmp := fun _ => 0 }
  let mut out : Array String := #[]
  for c in clocks do
    let some r := clockStep low p s c | return "cyclic"
    s := r.2
    out := out.push (",".intercalate (p.pre.map (showObj p r.1) ++ p.obs.map (showObj p s)))
  return ";".intercalate out.toList

def splitBar (toks : List String) : List String × List String :=
  (toks.takeWhile (· ≠ "|"), (toks.dropWhile (· ≠ "|")).drop 1)

def handle (args : List String) : String :=
  match args with
  | op :: rest =>
      if op != "run" && op != "runlow" then "bad-op" else
      let (a, b) := splitBar rest
      match (Sexp.parse (" ".intercalate a)).bind progOf, (splitOnTok ";" b).mapM parseClock with
      | some p, some clocks => runProg (op == "runlow") p clocks
      | _, _ => "bad-op"
  | _ => "bad-op"

end CohdlVerif.C03
