/-
  C13 part B - views of a qualified vector object.

  Mirrors cohdl/_core/_type_qualifier.py `TypeQualifier.__getitem__ / __iter__ / unsigned / signed /
  bitvector`, cohdl/_core/_bit_vector.py `BitVector.__getitem__ / unsigned / signed / bitvector`
  (a slice is `BitVector[width](self._value[stop : start + 1])`: a new `Span` over the SAME `Bit` objects)
  and `Offset.simplify / Slice.simplify` (what the VHDL back end prints).

  The storage of a root object is a list of cells (its `Bit` objects, least significant first); a view is
  the list of absolute positions of the cells it shares with the root + root id + qualifier + ref-spec.

  `Op.iter n` (n-th element produced by `__iter__`) models the REPAIRED code (fixes/C13-iter-nested-slice.patch):
  the current tree drops the base offset of a nested slice (`iterCurrent`, see `C13.iter_refspec_fails_at`).

  Import-free: compiled into the driver.
-/
namespace CohdlVerif.C13

inductive Qual where
  | signal | variable | temporary | port (d : Nat)     -- port direction 0/1/2 = input/output/inout
  deriving DecidableEq, Repr

/-- wrapped type kind of a view -/
inductive VT where | bv | uns | sgn | bit
  deriving DecidableEq, Repr

/-- `Offset(offset, base_offset)` / `Slice(start, stop, base_offset)` with constant entries -/
inductive Ref where
  | offset (off : Nat) (base : List Nat)
  | slice (start stop : Nat) (base : List Nat)
  deriving DecidableEq, Repr

structure View where
  root : Nat
  qual : Qual
  vt : VT
  cells : List Nat          -- absolute cell positions in the root, least significant first
  ref : List Ref            -- `_ref_spec`
  deriving DecidableEq, Repr

/-- a freshly constructed object of width `w` -/
def rootView (id : Nat) (q : Qual) (vt : VT) (w : Nat) : View := ⟨id, q, vt, List.range' 0 w, []⟩

inductive Op where
  | slice (h l : Nat)      -- `x[h:l]`
  | index (i : Nat)        -- `x[i]`
  | unsigned | signed | bitvector
  | iter (n : Nat)         -- n-th element of `for e in x`
  deriving DecidableEq, Repr

/-- `prev` and `base_offset` of `TypeQualifier.__getitem__` (l.444-451) -/
def splitRef (ref : List Ref) : List Ref × List Nat :=
  match ref.getLast? with
  | some (.slice _ stop base) => (ref.dropLast, base ++ [stop])
  | _ => (ref, [])

def applyOp (v : View) : Op → Option View
  | .slice h l =>
    -- Bit has no __getitem__; `stop <= start` else RuntimeError; `assert self._width == len(val)`
    if v.vt = .bit ∨ h < l ∨ v.cells.length ≤ h then none
    else
      let (prev, base) := splitRef v.ref
      some { v with vt := .bv, cells := (v.cells.drop l).take (h + 1 - l), ref := prev ++ [.slice h l base] }
  | .index i =>
    if v.vt = .bit ∨ v.cells.length ≤ i then none
    else
      let (prev, base) := splitRef v.ref
      some { v with vt := .bit, cells := (v.cells.drop i).take 1, ref := prev ++ [.offset i base] }
  | .unsigned => if v.vt = .bit then none else some { v with vt := .uns }
  | .signed => if v.vt = .bit then none else some { v with vt := .sgn }
  | .bitvector => if v.vt = .bit then none else some { v with vt := .bv }
  | .iter n =>
    if v.vt = .bit ∨ v.cells.length ≤ n then none
    else
      let (prev, base) := splitRef v.ref
      some { v with vt := .bit, cells := (v.cells.drop n).take 1, ref := prev ++ [.offset n base] }

/-- `__iter__` as it is in the current tree (l.412-424): `offset = self._ref_spec[-1].stop`, the
    `base_offset` of the slice is dropped -/
def iterCurrent (v : View) (n : Nat) : Option View :=
  if v.vt = .bit ∨ v.cells.length ≤ n then none
  else
    let (prev, off) := match v.ref.getLast? with
      | some (.slice _ stop _) => (v.ref.dropLast, stop)
      | _ => (v.ref, 0)
    some { v with vt := .bit, cells := (v.cells.drop n).take 1, ref := prev ++ [.offset (off + n) []] }

def applyOps (v : View) : List Op → Option View
  | [] => some v
  | op :: ops => match applyOp v op with | none => none | some v' => applyOps v' ops

/-- `Offset.simplify` / `Slice.simplify`: fold the constant base offsets -/
def Ref.simplify : Ref → Ref
  | .offset o b => .offset (o + b.sum) []
  | .slice s t b => .slice (s + b.sum) (t + b.sum) []

/-- the cells denoted by the name the back end prints for a view of a root of width `w`
    (`name`, `name(i)`, `name(h downto l)`) -/
def resolve (w : Nat) (v : View) : List Nat :=
  match v.ref.getLast? with
  | none => List.range' 0 w
  | some r => match r.simplify with
    | .offset o _ => [o]
    | .slice s t _ => List.range' t (s + 1 - t)

/-- assignment through a view: `self._value.apply_zip(lambda bit, o: bit._assign(o), other._value)` -/
def write {α : Type} (s : List α) : List Nat → List α → List α
  | c :: cs, x :: xs => write (s.set c x) cs xs
  | _, _ => s

/-- reading a view -/
def read {α : Type} (s : List α) (cells : List Nat) : List (Option α) := cells.map (s[·]?)

end CohdlVerif.C13
