/-
  C14 - executable models of `std.Fifo[T,N]` (no delays) and `std.Stack[T,N]` (both modes),
  mirroring cohdl/std/utility.py (class Fifo / class Stack), plus the abstract specifications.

  Memory cells are `Option Nat`: `none` is an element that was never written ('U' in the emitted VHDL).
  Import-free: compiled into the driver.
-/
namespace CohdlVerif.C14

/-- Python `int.bit_length` -/
def bitLength (n : Nat) : Nat := if n = 0 then 0 else Nat.log2 n + 1

/-- width of `Unsigned.upto(m)` (cohdl/_core/_unsigned.py: max_value 0 is treated as 1) -/
def uptoWidth (m : Nat) : Nat := if m = 0 then 1 else bitLength m

/-- `std.is_pow_two` (`inp.bit_count() == 1`) -/
def isPowTwo (n : Nat) : Bool := n != 0 && 2 ^ Nat.log2 n == n

/-! ## Fifo -/

/-- mirror of `Fifo._next_index`: the index type is `Unsigned.upto(N-1)`; for powers of two the
    wrap-around is left to the modular `+ 1`, otherwise the last index is compared explicitly. -/
def fifoNext (N i : Nat) : Nat :=
  let w := uptoWidth (N - 1)
  if isPowTwo N then (i + 1) % 2 ^ w
  else if i ≠ N - 1 then (i + 1) % 2 ^ w else 0

structure Fifo where
  wr : Nat
  rd : Nat
  mem : List (Option Nat)
  dout : Option Nat          -- register written by `data_out <<= fifo.pop()`
  deriving Repr, DecidableEq

inductive FOp where
  | idle | push (v : Nat) | pop | both (v : Nat)
  deriving Repr, DecidableEq

def Fifo.init (N : Nat) : Fifo := ⟨0, 0, List.replicate N none, none⟩
def Fifo.empty (s : Fifo) : Bool := s.wr == s.rd
def Fifo.full (N : Nat) (s : Fifo) : Bool := fifoNext N s.wr == s.rd
def Fifo.front (s : Fifo) : Option Nat := (s.mem.getD s.rd none)

/-- one clock.  push: `mem[wr] <<= v; wr <<= next wr`; pop: `rd <<= next rd; dout <<= mem[rd]`;
    all right-hand sides read the state before the clock (signal semantics). -/
def Fifo.step (N : Nat) (s : Fifo) : FOp → Fifo
  | .idle => s
  | .push v => { s with mem := s.mem.set s.wr (some v), wr := fifoNext N s.wr }
  | .pop => { s with rd := fifoNext N s.rd, dout := s.mem.getD s.rd none }
  | .both v => { wr := fifoNext N s.wr, rd := fifoNext N s.rd,
                 mem := s.mem.set s.wr (some v), dout := s.mem.getD s.rd none }

/-- abstract specification: a queue with at most N-1 elements and the last popped element -/
structure Queue where
  q : List Nat
  out : Option Nat
  deriving Repr, DecidableEq

def Queue.step (s : Queue) : FOp → Queue
  | .idle => s
  | .push v => { s with q := s.q ++ [v] }
  | .pop => { q := s.q.tail, out := s.q.head? }
  | .both v => { q := s.q.tail ++ [v], out := s.q.head? }

/-- the documented preconditions -/
def Queue.legal (N : Nat) (s : Queue) : FOp → Bool
  | .idle => true
  | .push _ => s.q.length + 1 < N
  | .pop => s.q ≠ []
  | .both _ => s.q ≠ [] && s.q.length + 1 < N

/-! ## Stack -/

inductive Mode where | noOverflow | dropOld
  deriving Repr, DecidableEq

structure Stack where
  idx : Nat
  cnt : Nat                  -- separate register only in dropOld mode (else mirrors idx)
  mem : List (Option Nat)
  dout : Option Nat
  deriving Repr, DecidableEq

inductive SOp where
  | idle | push (v : Nat) | pop | reset
  deriving Repr, DecidableEq

def Stack.init (N : Nat) : Stack := ⟨0, 0, List.replicate N none, none⟩

/-- the counter type is `Unsigned.upto(N)` -/
def stackW (N : Nat) : Nat := uptoWidth N

def stackPrev (m : Mode) (N i : Nat) : Nat :=
  match m with
  | .noOverflow => (i + 2 ^ stackW N - 1) % 2 ^ stackW N     -- `index - 1` on Unsigned wraps
  | .dropOld => if i = 0 then N - 1 else (i + 2 ^ stackW N - 1) % 2 ^ stackW N

def stackNext (m : Mode) (N i : Nat) : Nat :=
  match m with
  | .noOverflow => (i + 1) % 2 ^ stackW N
  | .dropOld => if i ≠ N - 1 then (i + 1) % 2 ^ stackW N else 0

def Stack.count (m : Mode) (s : Stack) : Nat := match m with | .noOverflow => s.idx | .dropOld => s.cnt
def Stack.empty (m : Mode) (s : Stack) : Bool := s.count m == 0
def Stack.full (m : Mode) (N : Nat) (s : Stack) : Bool := s.count m == N
def Stack.front (m : Mode) (N : Nat) (s : Stack) : Option Nat := s.mem.getD (stackPrev m N s.idx) none

def Stack.step (m : Mode) (N : Nat) (s : Stack) : SOp → Stack
  | .idle => s
  | .push v =>
      { s with mem := s.mem.set s.idx (some v),
               idx := stackNext m N s.idx,
               cnt := match m with
                 | .noOverflow => s.cnt
                 | .dropOld => if s.cnt = N then N else (s.cnt + 1) % 2 ^ stackW N }
  | .pop =>
      { s with idx := stackPrev m N s.idx,
               dout := s.mem.getD (stackPrev m N s.idx) none,
               cnt := match m with
                 | .noOverflow => s.cnt
                 | .dropOld => (s.cnt + 2 ^ stackW N - 1) % 2 ^ stackW N }
  | .reset => { s with idx := 0, cnt := 0 }

/-- abstract LIFO: newest element first -/
structure Lifo where
  st : List Nat
  out : Option Nat
  deriving Repr, DecidableEq

def Lifo.step (m : Mode) (N : Nat) (s : Lifo) : SOp → Lifo
  | .idle => s
  | .push v => match m with
      | .noOverflow => { s with st := v :: s.st }
      | .dropOld => { s with st := (v :: s.st).take N }     -- a push to a full stack drops the oldest
  | .pop => { st := s.st.tail, out := s.st.head? }
  | .reset => { s with st := [] }

def Lifo.legal (m : Mode) (N : Nat) (s : Lifo) : SOp → Bool
  | .idle => true
  | .push _ => match m with | .noOverflow => s.st.length < N | .dropOld => true
  | .pop => s.st ≠ []
  | .reset => true

/-! ## line protocol
  `c14 fifo N op*`  with op = i | p<v> | o | b<v>   -> per clock `empty full front dout` (`-` = undefined)
  `c14 stack MODE N op*` with op = i | p<v> | o | r -> per clock `empty full size front dout`
-/

def showO : Option Nat → String
  | none => "-"
  | some v => toString v

def b01 (b : Bool) : String := if b then "1" else "0"

def parseFOp (s : String) : Option FOp :=
  match s.toList with
  | ['i'] => some .idle
  | ['o'] => some .pop
  | 'p' :: r => (String.ofList r).toNat?.map .push
  | 'b' :: r => (String.ofList r).toNat?.map .both
  | _ => none

def parseSOp (s : String) : Option SOp :=
  match s.toList with
  | ['i'] => some .idle
  | ['o'] => some .pop
  | ['r'] => some .reset
  | 'p' :: r => (String.ofList r).toNat?.map .push
  | _ => none

def runFifo (N : Nat) (ops : List FOp) : String := Id.run do
  let mut s := Fifo.init N
  let mut out : Array String := #[]
  for op in ops do
    s := s.step N op
    out := out.push s!"{b01 s.empty} {b01 (s.full N)} {showO s.front} {showO s.dout}"
  return ";".intercalate out.toList

def runStack (m : Mode) (N : Nat) (ops : List SOp) : String := Id.run do
  let mut s := Stack.init N
  let mut out : Array String := #[]
  for op in ops do
    s := s.step m N op
    out := out.push s!"{b01 (s.empty m)} {b01 (s.full m N)} {s.count m} {showO (s.front m N)} {showO s.dout}"
  return ";".intercalate out.toList

def handle (args : List String) : String :=
  match args with
  | "fifo" :: n :: ops =>
      match n.toNat?, ops.mapM parseFOp with
      | some N, some ops => runFifo N ops
      | _, _ => "bad-op"
  | "stack" :: m :: n :: ops =>
      let mode := if m == "drop" then Mode.dropOld else Mode.noOverflow
      match n.toNat?, ops.mapM parseSOp with
      | some N, some ops => runStack mode N ops
      | _, _ => "bad-op"
  | _ => "bad-op"

end CohdlVerif.C14
