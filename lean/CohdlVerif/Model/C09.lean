/-
  C09 - compile-time evaluation of primitives (`pyFold`) and the documented semantics (`specOp`).

  `pyBin / pyUn / pyPar` mirror the Python methods of cohdl/_core/_unsigned.py, _signed.py, _bit_vector.py,
  _bit.py, _integer.py and _op.py (the code the tracer executes when every operand is a compile-time
  constant), including CPython's binary-operator dispatch (`__op__`, then reflected `__rop__`, `NotImplemented`,
  identity fall-back of `==`).  Vectors are a kind, a width and the raw bit pattern as a `Nat`; only the
  ripple-carry loop of `Unsigned.add / Signed.add` works on explicit bit lists.  Python exceptions are an enum.

  The model mirrors the tree WITH the patches fixes/C09-*.patch applied (see notes/C09.md); the behaviour
  of the unpatched code is kept in the `...Old` definitions, used only for the negated witness lemmas.

  `specBin / specUn / specPar` is the documented semantics (properties C02/C09), which is also what
  ieee.numeric_std computes for the expression the VHDL back end prints for the same operation.
  Import-free: compiled into the driver.
-/
namespace CohdlVerif.C09

inductive Kind where | bv | uns | sgn
  deriving DecidableEq, Repr

/-- compile-time values.  `vec k w n`: width `w ≥ 1`, raw pattern `n < 2^w` (bit i of n = `_value[i]`).
    `undef`: a vector constructed without value (`Unsigned[w]()`, all bits 'U') - result of a division by zero. -/
inductive Val where
  | bit (b : Bool)
  | bool (b : Bool)
  | int (i : Int)          -- Python int
  | integer (i : Int)      -- cohdl.Integer
  | vec (k : Kind) (w : Nat) (n : Nat)
  | undef (k : Kind) (w : Nat)
  | null
  | full
  deriving DecidableEq, Repr

inductive Err where | typeErr | assertErr | valueErr
  deriving DecidableEq, Repr

/-- result of one special method: a value, `NotImplemented`, or a raised exception -/
inductive Res where
  | ok (v : Val) | notImpl | err (e : Err)
  deriving DecidableEq, Repr

inductive BinOp where
  | add | sub | mul | tdiv | fdiv | mod | rem | shl | shr | and | or | xor | cat | eq | ne | lt | gt | le | ge
  deriving DecidableEq, Repr

inductive UnOp where
  | neg | abs | inv | toBool | signed | unsigned | bitvector | msb | lsb
  deriving DecidableEq, Repr

/-- operations with integer parameters: `resize(p1, zeros=p2)`, `[p1]`, `[p1:p2]`, `msb(p1)`, `lsb(p1)` -/
inductive ParOp where
  | resize | index | slice | msbn | lsbn
  deriving DecidableEq, Repr

/-! ## bit level (only what the Python code does bit by bit) -/

/-- the `len` least significant bits of `n`, least significant first (`BitVector._value`) -/
def natToBits : Nat → Nat → List Bool
  | 0, _ => []
  | len + 1, n => (n % 2 == 1) :: natToBits len (n / 2)

/-- `to_int` of Unsigned: `result |= 1 << shift` for every set bit -/
def bitsToNat : List Bool → Nat
  | [] => 0
  | b :: bs => b.toNat + 2 * bitsToNat bs

/-- the loop of `Unsigned.add` / `Signed.add`:  `t = (a + b + carry) & 1; carry = (a + b + carry) > 1` -/
def rippleAdd : List Bool → List Bool → Bool → List Bool
  | a :: as, b :: bs, c =>
      (((a.toNat + b.toNat + c.toNat) % 2) == 1) :: rippleAdd as bs (decide (a.toNat + b.toNat + c.toNat > 1))
  | _, _, _ => []

/-- ripple-carry addition of two patterns at target width `t` -/
def ripple (t a b : Nat) : Nat := bitsToNat (rippleAdd (natToBits t a) (natToBits t b) false)

/-! ## integer helpers -/

/-- `Signed.to_int`: pattern -> value -/
def toInt (w n : Nat) : Int := if n < 2 ^ (w - 1) then (n : Int) else (n : Int) - (2 ^ w : Nat)

/-- two's-complement pattern of `i` at width `w` (`_int_to_binary`: `number & 2**k` for k < w; also Python's
    `i % 2**w`) -/
def pat (w : Nat) (i : Int) : Nat := (i % ((2 ^ w : Nat) : Int)).toNat

/-- `int.bit_length` for a natural number -/
def bitLength (n : Nat) : Nat := if n = 0 then 0 else Nat.log2 n + 1

/-- `int.bit_count() == 1` -/
def isPow2 (n : Nat) : Bool := n != 0 && 2 ^ Nat.log2 n == n

/-- width of `Unsigned.from_int(v)` = `Unsigned.upto(v)`: value 0 is treated as 1 -/
def uFromIntWidth (v : Nat) : Nat := bitLength (if v = 0 then 1 else v)

/-- width of `Signed.from_int(v)` -/
def sFromIntWidth (v : Int) : Nat :=
  if v ≥ 0 || !(isPow2 v.natAbs) then bitLength v.natAbs + 1 else bitLength v.natAbs

/-- `Unsigned[w](i)`: range assertion of the constructor -/
def mkU (w : Nat) (i : Int) : Res :=
  if 0 ≤ i ∧ i < ((2 ^ w : Nat) : Int) then .ok (.vec .uns w i.toNat) else .err .assertErr

/-- `Signed[w](i)`: range assertion of the constructor -/
def mkS (w : Nat) (i : Int) : Res :=
  if -((2 ^ (w - 1) : Nat) : Int) ≤ i ∧ i < ((2 ^ (w - 1) : Nat) : Int) then .ok (.vec .sgn w (pat w i))
  else .err .assertErr

/-- truncating division / remainder written with `abs` and `//`, as the patched code does -/
def truncDiv (a b : Int) : Int :=
  let q : Int := (a.natAbs / b.natAbs : Nat)
  if (decide (a < 0)) != (decide (b < 0)) then -q else q

def truncRem (a b : Int) : Int :=
  let r : Int := (a.natAbs % b.natAbs : Nat)
  if a < 0 then -r else r

/-- `int(x)` as used for shift amounts: Unsigned (`__index__`), int, Integer -/
def shiftAmount : Val → Option Int
  | .vec .uns _ n => some n
  | .int i => some i
  | .integer i => some i
  | _ => none

def isIntLike : Val → Option Int
  | .int i => some i
  | .integer i => some i
  | _ => none

def allOnes (w : Nat) : Nat := 2 ^ w - 1

/-! ## Unsigned (cohdl/_core/_unsigned.py) -/

def uAdd (w n : Nat) : Val → Res
  | .int r | .integer r =>
      let r' := pat w r                                   -- rhs % 2**self.width
      if uFromIntWidth r' ≤ w then .ok (.vec .uns w (ripple w n r')) else .err .assertErr
  | .vec .uns w2 n2 => .ok (.vec .uns (max w w2) (ripple (max w w2) n n2))
  | _ => .notImpl

/-- `~self + 1` -/
def uNeg (w n : Nat) : Res := uAdd w (allOnes w - n) (.int 1)

def uSub (w n : Nat) : Val → Res
  | .int r | .integer r => uAdd w n (.int (-(pat w r : Nat)))
  | .vec .uns w2 n2 =>
      -- patched: the operand is resized to the result width before it is negated
      match uNeg (max w w2) n2 with
      | .ok v => uAdd w n v
      | r => r
  | .vec .sgn _ _ => .notImpl                              -- -rhs is Signed, `add` returns NotImplemented
  | _ => .err .typeErr                                     -- unary minus of BitVector / Bit / Null

/-- unpatched `Unsigned.sub`: rhs negated at its own width -/
def uSubOld (w n : Nat) : Val → Res
  | .vec .uns w2 n2 =>
      match uNeg w2 n2 with
      | .ok v => uAdd w n v
      | r => r
  | v => uSub w n v

def uMul (w n : Nat) : Val → Res
  | .vec .uns w2 n2 => mkU (w + w2) ((n : Int) * n2)
  | .int r | .integer r => mkU (2 * w) ((n : Int) * r)
  | _ => .notImpl

def uRmul (w n : Nat) : Val → Res
  | .vec .uns w2 n2 => mkU (w + w2) ((n2 : Int) * n)
  | .int l | .integer l => mkU (2 * w) (l * (n : Int))    -- patched: `lhs = int(lhs)`
  | _ => .notImpl

/-- unpatched `__rmul__`: `lhs = int(rhs)` squares the vector -/
def uRmulOld (w n : Nat) : Val → Res
  | .int _ | .integer _ => mkU (2 * w) ((n : Int) * (n : Int))
  | v => uRmul w n v

def uTruncdiv (w n : Nat) : Val → Res
  | .vec .uns _ n2 => if n2 = 0 then .ok (.undef .uns w) else mkU w ((n : Int).fdiv n2)
  | .int r | .integer r => if r = 0 then .ok (.undef .uns w) else mkU w ((n : Int).fdiv r)
  | _ => .notImpl

def uRtruncdiv (w n : Nat) : Val → Res
  | .vec .uns w2 n2 => if n = 0 then .ok (.undef .uns w2) else mkU w2 ((n2 : Int).fdiv n)
  | .int l | .integer l => if n = 0 then .ok (.undef .uns w) else mkU w (l.fdiv n)
  | _ => .notImpl

def uFloordiv (w n : Nat) : Val → Res
  | .int _ | .integer _ | .vec .sgn _ _ => .err .assertErr
  | v => uTruncdiv w n v

def uRfloordiv (w n : Nat) : Val → Res
  | .int _ | .integer _ | .vec .sgn _ _ => .err .assertErr
  | v => uRtruncdiv w n v

def uMod (w n : Nat) : Val → Res
  | .vec .uns w2 n2 => if n2 = 0 then .ok (.undef .uns w2) else mkU w2 ((n : Int).fmod n2)
  | .int r | .integer r => if r = 0 then .ok (.undef .uns w) else mkU w ((n : Int).fmod r)
  | _ => .notImpl

def uRmod (w n : Nat) : Val → Res
  | .vec .uns _ n2 => if n = 0 then .ok (.undef .uns w) else mkU w ((n2 : Int).fmod n)
  | .int l | .integer l => if n = 0 then .ok (.undef .uns w) else mkU w (l.fmod n)
  | _ => .notImpl

def uRem (w n : Nat) : Val → Res
  | .vec .uns w2 n2 => if n2 = 0 then .ok (.undef .uns w2) else mkU w2 (truncRem n n2)
  | .int r | .integer r => if r = 0 then .ok (.undef .uns w) else mkU w (truncRem n r)
  | _ => .notImpl

def uRrem (w n : Nat) : Val → Res
  | .int l | .integer l => if n = 0 then .ok (.undef .uns w) else mkU w (truncRem l n)
  | _ => .notImpl

def uShl (w n : Nat) (rhs : Val) : Res :=
  match shiftAmount rhs with
  | none => .notImpl
  | some r => if r < 0 then .err .valueErr else mkU w (((n * 2 ^ r.toNat) % 2 ^ w : Nat) : Int)

def uShr (w n : Nat) (rhs : Val) : Res :=
  match shiftAmount rhs with
  | none => .notImpl
  | some r => if r < 0 then .err .valueErr else mkU w ((n / 2 ^ r.toNat : Nat) : Int)

/-- operand of a comparison as an integer; Null / Full are first converted to `type(self)` -/
def uCmpOperand (w : Nat) : Val → Option Int
  | .null => some 0
  | .full => some (allOnes w : Nat)
  | .vec .uns _ n2 => some n2
  | .int i | .integer i => some i
  | _ => none

def cmpInt (op : BinOp) (a b : Int) : Bool :=
  match op with
  | .eq => a == b | .ne => a != b | .lt => decide (a < b) | .gt => decide (a > b)
  | .le => decide (a ≤ b) | .ge => decide (a ≥ b)
  | _ => false

def uCmp (op : BinOp) (w n : Nat) (rhs : Val) : Res :=
  match uCmpOperand w rhs with
  | none => .notImpl
  | some b => .ok (.bool (cmpInt op n b))

def uResize (w n : Nat) (target zeros : Int) : Res :=
  if zeros < 0 then .err .assertErr                        -- 2**zeros is a float: rejected by the constructor
  else if (w : Int) + zeros ≤ target then mkU target.toNat ((n : Int) * (2 ^ zeros.toNat : Nat)) else .err .assertErr

/-! ## Signed (cohdl/_core/_signed.py) -/

/-- `Signed.add`; `target` is only given by `sub` with an integer operand (no range assertion then) -/
def sAdd (w n : Nat) (rhs : Val) (target : Option Nat := none) : Res :=
  match rhs with
  | .int r | .integer r =>
      match target with
      | none => if sFromIntWidth r ≤ w then .ok (.vec .sgn w (ripple w (pat w (toInt w n)) (pat w r))) else .err .assertErr
      | some t => .ok (.vec .sgn t (ripple t (pat t (toInt w n)) (pat t r)))
  | .vec .sgn w2 n2 =>
      let t := match target with | none => max w w2 | some t => t
      .ok (.vec .sgn t (ripple t (pat t (toInt w n)) (pat t (toInt w2 n2))))
  | _ => .notImpl

/-- `__neg__`: width 1 is copied, otherwise `~self + 1` -/
def sNeg (w n : Nat) : Res :=
  if w = 1 then .ok (.vec .sgn w n) else sAdd w (allOnes w - n) (.int 1)

def sSub (w n : Nat) : Val → Res
  | .int r | .integer r => sAdd w n (.int (-r)) (some w)
  | .vec .sgn w2 n2 =>
      -- patched: the operand is sign-extended to the result width before it is negated
      let t := max w w2
      match sNeg t (pat t (toInt w2 n2)) with
      | .ok v => sAdd w n v
      | r => r
  | .vec .uns w2 n2 => (match uNeg w2 n2 with | .ok _ => .notImpl | r => r)
  | _ => .err .typeErr

/-- unpatched `Signed.sub`: rhs negated at its own width -/
def sSubOld (w n : Nat) : Val → Res
  | .vec .sgn w2 n2 =>
      match sNeg w2 n2 with
      | .ok v => sAdd w n v
      | r => r
  | v => sSub w n v

def sMul (w n : Nat) : Val → Res
  | .vec .sgn w2 n2 => mkS (w + w2) (toInt w n * toInt w2 n2)
  | .int r | .integer r => mkS (2 * w) (toInt w n * r)
  | _ => .notImpl

def sRmul (w n : Nat) : Val → Res
  | .vec .sgn w2 n2 => mkS (w + w2) (toInt w2 n2 * toInt w n)
  | .int l | .integer l => mkS (2 * w) (l * toInt w n)
  | _ => .notImpl

/-- patched: exact integer quotient, wrapped to the result width like numeric_std (`min / -1`) -/
def sTruncdiv (w n : Nat) : Val → Res
  | .vec .sgn w2 n2 => if n2 = 0 then .ok (.undef .sgn w) else .ok (.vec .sgn w (pat w (truncDiv (toInt w n) (toInt w2 n2))))
  | .int r | .integer r => if r = 0 then .ok (.undef .sgn w) else .ok (.vec .sgn w (pat w (truncDiv (toInt w n) r)))
  | _ => .notImpl

/-- unpatched: `Signed[w](int(lhs / rhs))` asserts the range (float rounding not modelled) -/
def sTruncdivOld (w n : Nat) : Val → Res
  | .vec .sgn w2 n2 => if n2 = 0 then .ok (.undef .sgn w) else mkS w (truncDiv (toInt w n) (toInt w2 n2))
  | v => sTruncdiv w n v

def sRtruncdiv (w n : Nat) : Val → Res
  | .vec .sgn w2 n2 => if n = 0 then .ok (.undef .sgn w2) else .ok (.vec .sgn w2 (pat w2 (truncDiv (toInt w2 n2) (toInt w n))))
  | .int l | .integer l => if n = 0 then .ok (.undef .sgn w) else .ok (.vec .sgn w (pat w (truncDiv l (toInt w n))))
  | _ => .notImpl

def sMod (w n : Nat) : Val → Res
  | .vec .sgn w2 n2 => if n2 = 0 then .ok (.undef .sgn w2) else mkS w2 ((toInt w n).fmod (toInt w2 n2))
  | .int r | .integer r => if r = 0 then .ok (.undef .sgn w) else mkS w ((toInt w n).fmod r)
  | _ => .notImpl

def sRmod (w n : Nat) : Val → Res
  | .vec .sgn w2 n2 => if n = 0 then .ok (.undef .sgn w) else mkS w ((toInt w2 n2).fmod (toInt w n))
  | .int l | .integer l => if n = 0 then .ok (.undef .sgn w) else mkS w (l.fmod (toInt w n))
  | _ => .notImpl

def sRem (w n : Nat) : Val → Res
  | .vec .sgn w2 n2 => if n2 = 0 then .ok (.undef .sgn w2) else mkS w2 (truncRem (toInt w n) (toInt w2 n2))
  | .int r | .integer r => if r = 0 then .ok (.undef .sgn w) else mkS w (truncRem (toInt w n) r)
  | _ => .notImpl

def sRrem (w n : Nat) : Val → Res
  | .vec .sgn w2 n2 => if n = 0 then .ok (.undef .sgn w) else mkS w (truncRem (toInt w2 n2) (toInt w n))
  | .int l | .integer l => if n = 0 then .ok (.undef .sgn w) else mkS w (truncRem l (toInt w n))
  | _ => .notImpl

def sShl (w n : Nat) (rhs : Val) : Res :=
  match shiftAmount rhs with
  | none => .notImpl
  | some r => if r < 0 then .err .valueErr else .ok (.vec .sgn w (pat w (toInt w n * (2 ^ r.toNat : Nat))))

def sShr (w n : Nat) (rhs : Val) : Res :=
  match shiftAmount rhs with
  | none => .notImpl
  | some r => if r < 0 then .err .valueErr else mkS w ((toInt w n).fdiv (2 ^ r.toNat : Nat))

def sCmpOperand (w : Nat) : Val → Option Int
  | .null => some 0
  | .full => some (toInt w (allOnes w))
  | .vec .sgn w2 n2 => some (toInt w2 n2)
  | .int i | .integer i => some i
  | _ => none

def sCmp (op : BinOp) (w n : Nat) (rhs : Val) : Res :=
  match sCmpOperand w rhs with
  | none => .notImpl
  | some b => .ok (.bool (cmpInt op (toInt w n) b))

def sAbs (w n : Nat) : Res :=
  if toInt w n ≥ 0 then mkS w (toInt w n) else sNeg w n

def sResize (w n : Nat) (target zeros : Int) : Res :=
  if zeros < 0 then .err .assertErr
  else if (w : Int) + zeros ≤ target then mkS target.toNat (toInt w n * (2 ^ zeros.toNat : Nat)) else .err .assertErr

/-! ## BitVector / Bit (cohdl/_core/_bit_vector.py, _bit.py) -/

def bitwise (op : BinOp) (a b : Nat) : Nat :=
  match op with
  | .and => a &&& b | .or => a ||| b | _ => a ^^^ b

/-- `BitVector.__and__/__or__/__xor__`: both operands of the identical type -/
def vBitwise (op : BinOp) (k : Kind) (w n : Nat) : Val → Res
  | .vec k2 w2 n2 => if k = k2 ∧ w = w2 then .ok (.vec k w (bitwise op n n2)) else .err .assertErr
  | _ => .notImpl

/-- `BitVector.__eq__` (plain BitVector only; Unsigned / Signed override it) -/
def vEq (w n : Nat) : Val → Res
  | .null => .ok (.bool (n == 0))
  | .full => .ok (.bool (n == allOnes w))
  | .vec .bv w2 n2 => if w = w2 then .ok (.bool (n == n2)) else .err .assertErr
  | _ => .err .assertErr

def notRes : Res → Res
  | .ok (.bool b) => .ok (.bool (!b))
  | r => r

def vMatmul (w n : Nat) : Val → Res
  | .bit b => .ok (.vec .bv (w + 1) (2 * n + b.toNat))
  | .vec _ w2 n2 => .ok (.vec .bv (w + w2) (n * 2 ^ w2 + n2))
  | _ => .notImpl

/-- `BitVector.__rmatmul__(self, lhs)`: asserts a Bit -/
def vRmatmul (w n : Nat) : Val → Res
  | .bit b => .ok (.vec .bv (w + 1) (b.toNat * 2 ^ w + n))
  | _ => .err .assertErr

def bitBitwise (op : BinOp) (a : Bool) : Val → Res
  | .bit b => .ok (.bit (match op with | .and => a && b | .or => a || b | _ => a != b))
  | _ => .err .typeErr                                      -- `other._val` does not exist

def bitEq (a : Bool) (neg : Bool) : Val → Res
  | .bit b => .ok (.bool ((a == b) != neg))
  | .bool _ | .int _ => .err .assertErr
  | _ => .notImpl

def bitMatmul (a : Bool) : Val → Res
  | .bit b => .ok (.vec .bv 2 (2 * a.toNat + b.toNat))
  | .vec _ w n => vRmatmul w n (.bit a)
  | _ => .notImpl

/-! ## Integer (cohdl/_core/_integer.py) -/

def iArith (op : BinOp) (a : Int) (rhs : Val) : Res :=
  match isIntLike rhs with
  | none => .notImpl
  | some b =>
    match op with
    | .add => .ok (.integer (a + b))
    | .sub => .ok (.integer (a - b))
    | .mul => .ok (.integer (a * b))
    | .mod => .ok (.integer (if b = 0 then 0 else a.fmod b))
    | .fdiv => .err .assertErr
    | .eq | .ne | .lt | .gt | .le | .ge => .ok (.bool (cmpInt op a b))
    | _ => .notImpl

/-- reflected Integer methods: `__radd__`, `__rsub__` exist; `__rmul__`, `__rmod__` do not -/
def iRarith (op : BinOp) (a : Int) (lhs : Val) : Res :=
  match isIntLike lhs with
  | none => .notImpl
  | some l =>
    match op with
    | .add => .ok (.integer (l + a))
    | .sub => .ok (.integer (l - a))
    | .fdiv => .err .assertErr
    | _ => .notImpl

/-! ## operator dispatch -/

def swapCmp : BinOp → BinOp
  | .lt => .gt | .gt => .lt | .le => .ge | .ge => .le | o => o

/-- `type(a).__op__(a, b)`; `notImpl` also stands for "the type has no such method" -/
def lhsMethod (op : BinOp) (a b : Val) : Res :=
  match a with
  | .vec .uns w n =>
    (match op with
     | .add => uAdd w n b | .sub => uSub w n b | .mul => uMul w n b | .fdiv => uFloordiv w n b
     | .mod => uMod w n b | .shl => uShl w n b | .shr => uShr w n b
     | .and | .or | .xor => vBitwise op .uns w n b
     | .cat => vMatmul w n b
     | .eq | .ne | .lt | .gt | .le | .ge => uCmp op w n b
     | _ => .notImpl)
  | .vec .sgn w n =>
    (match op with
     | .add => (match b with | .vec .sgn _ _ | .int _ | .integer _ => sAdd w n b | _ => .notImpl)
     | .sub => (match b with | .vec .sgn _ _ | .int _ | .integer _ => sSub w n b | _ => .notImpl)
     | .mul => sMul w n b | .fdiv => .err .assertErr
     | .mod => sMod w n b | .shl => sShl w n b | .shr => sShr w n b
     | .and | .or | .xor => vBitwise op .sgn w n b
     | .cat => vMatmul w n b
     | .eq | .ne | .lt | .gt | .le | .ge => sCmp op w n b
     | _ => .notImpl)
  | .vec .bv w n =>
    (match op with
     | .and | .or | .xor => vBitwise op .bv w n b
     | .cat => vMatmul w n b
     | .eq => vEq w n b
     | .ne => notRes (vEq w n b)
     | _ => .notImpl)
  | .bit x =>
    (match op with
     | .and | .or | .xor => bitBitwise op x b
     | .cat => bitMatmul x b
     | .eq => bitEq x false b
     | .ne => bitEq x true b
     | _ => .notImpl)
  | .integer i =>
    (match op with
     | .add | .sub | .mul | .mod | .fdiv | .eq | .ne | .lt | .gt | .le | .ge => iArith op i b
     | _ => .notImpl)
  | _ => .notImpl

/-- `type(b).__rop__(b, a)` (for comparisons: the mirrored comparison method of `b`) -/
def rhsMethod (op : BinOp) (b a : Val) : Res :=
  match b with
  | .vec .uns w n =>
    (match op with
     | .add => uAdd w n a
     | .sub => (match uNeg w n with | .ok (.vec .uns w' n') => uAdd w' n' a | r => r)   -- `lhs + -self`
     | .mul => uRmul w n a | .fdiv => uRfloordiv w n a | .mod => uRmod w n a
     | .cat => vRmatmul w n a
     | .eq | .ne | .lt | .gt | .le | .ge => uCmp (swapCmp op) w n a
     | _ => .notImpl)
  | .vec .sgn w n =>
    (match op with
     | .add => sAdd w n a
     | .sub => (match sNeg w n with | .ok (.vec .sgn w' n') => sAdd w' n' a | r => r)
     | .mul => sRmul w n a | .fdiv => .err .assertErr | .mod => sRmod w n a
     | .cat => vRmatmul w n a
     | .eq | .ne | .lt | .gt | .le | .ge => sCmp (swapCmp op) w n a
     | _ => .notImpl)
  | .vec .bv w n =>
    (match op with
     | .cat => vRmatmul w n a
     | .eq => vEq w n a
     | .ne => notRes (vEq w n a)
     | _ => .notImpl)
  | .bit x =>
    (match op with
     | .eq => bitEq x false a
     | .ne => bitEq x true a
     | _ => .notImpl)
  | .integer i =>
    (match op with
     | .add | .sub | .fdiv => iRarith op i a
     | .eq | .ne | .lt | .gt | .le | .ge => iArith (swapCmp op) i a
     | _ => .notImpl)
  | _ => .notImpl

def resToExcept : Res → Except Err Val
  | .ok v => .ok v
  | .notImpl => .error .typeErr          -- a `NotImplemented` that reaches the caller is not a value
  | .err e => .error e

/-- `cohdl.op.truncdiv(a, b)` -/
def opTruncdiv (a b : Val) : Except Err Val :=
  match a, b with
  | .int x, .int y => if y = 0 then .error .valueErr else .ok (.int (truncDiv x y))   -- patched (was `int(a / b)`)
  | _, _ =>
    let first : Option Res := match a with
      | .vec .uns w n => some (uTruncdiv w n b)
      | .vec .sgn w n => some (sTruncdiv w n b)
      | .integer i => some (match isIntLike b with
          | some y => .ok (.integer (if y = 0 then 0 else truncDiv i y)) | none => .notImpl)
      | _ => none
    let second : Res := match b with
      | .vec .uns w n => uRtruncdiv w n a
      | .vec .sgn w n => sRtruncdiv w n a
      | _ => .err .typeErr               -- AttributeError: no `_cohdl_rtruncdiv_`
    match first with
    | some .notImpl | none => resToExcept second
    | some r => resToExcept r

/-- `cohdl.op.rem(a, b)` -/
def opRem (a b : Val) : Except Err Val :=
  match a, b with
  | .int x, .int y => if y = 0 then .error .valueErr else .ok (.int (truncRem x y))
  | _, _ =>
    let first : Option Res := match a with
      | .vec .uns w n => some (uRem w n b)
      | .vec .sgn w n => some (sRem w n b)
      | .integer i => some (match isIntLike b with
          | some y => .ok (.integer (if y = 0 then 0 else truncRem i y)) | none => .notImpl)
      | _ => none
    let second : Res := match b with
      | .vec .uns w n => uRrem w n a
      | .vec .sgn w n => sRrem w n a
      | _ => .err .typeErr
    match first with
    | some .notImpl | none => resToExcept second
    | some r => resToExcept r

/-- `a <op> b` as CPython evaluates it on the cohdl objects -/
def pyBin (op : BinOp) (a b : Val) : Except Err Val :=
  match op with
  | .tdiv => opTruncdiv a b
  | .rem => opRem a b
  | _ =>
    match lhsMethod op a b with
    | .ok v => .ok v
    | .err e => .error e
    | .notImpl =>
      match rhsMethod op b a with
      | .ok v => .ok v
      | .err e => .error e
      | .notImpl =>
        match op with
        | .eq => .ok (.bool (a == b && (a == .null || a == .full)))     -- identity (`Null is Null`)
        | .ne => .ok (.bool !(a == b && (a == .null || a == .full)))
        | _ => .error .typeErr

def pyUn (op : UnOp) (a : Val) : Except Err Val :=
  match op, a with
  | .neg, .vec .uns w n => resToExcept (uNeg w n)
  | .neg, .vec .sgn w n => resToExcept (sNeg w n)
  | .neg, .integer i => .ok (.integer (-i))
  | .abs, .vec .sgn w n => resToExcept (sAbs w n)
  | .inv, .vec k w n => .ok (.vec k w (allOnes w - n))
  | .inv, .bit b => .ok (.bit !b)
  | .toBool, .vec _ _ n => .ok (.bool (n != 0))
  | .toBool, .bit b => .ok (.bool b)
  | .toBool, .integer i => .ok (.bool (i != 0))
  | .signed, .vec _ w n => .ok (.vec .sgn w n)
  | .unsigned, .vec _ w n => .ok (.vec .uns w n)
  | .bitvector, .vec _ w n => .ok (.vec .bv w n)
  | .msb, .vec _ w n => .ok (.bit (n / 2 ^ (w - 1) % 2 == 1))
  | .lsb, .vec _ _ n => .ok (.bit (n % 2 == 1))
  | _, _ => .error .typeErr

def pyPar (op : ParOp) (a : Val) (p1 p2 : Int) : Except Err Val :=
  match op, a with
  | .resize, .vec .uns w n => resToExcept (uResize w n p1 p2)
  | .resize, .vec .sgn w n => resToExcept (sResize w n p1 p2)
  | .index, .vec _ w n => if 0 ≤ p1 ∧ p1 < w then .ok (.bit (n / 2 ^ p1.toNat % 2 == 1)) else .error .assertErr
  | .slice, .vec _ w n =>
      -- `[p1:p2]` (downto): BitVector[p1-p2+1](self._value[p2 : p1+1])
      if 0 ≤ p2 ∧ p2 ≤ p1 ∧ p1 < w then .ok (.vec .bv (p1 - p2 + 1).toNat (n / 2 ^ p2.toNat % 2 ^ (p1 - p2 + 1).toNat))
      else .error .assertErr
  | .msbn, .vec _ w n =>
      if 1 ≤ p1 ∧ p1 ≤ w then .ok (.vec .bv p1.toNat (n / 2 ^ (w - p1.toNat))) else .error .assertErr
  | .lsbn, .vec _ w n =>
      if 1 ≤ p1 ∧ p1 ≤ w then .ok (.vec .bv p1.toNat (n % 2 ^ p1.toNat)) else .error .assertErr
  | _, _ => .error .typeErr

/-! ## unpatched dispatch (only for the negated witness lemmas) -/

def pyBinOld (op : BinOp) (a b : Val) : Except Err Val :=
  match op, a, b with
  | .sub, .vec .uns w n, .vec .uns _ _ => resToExcept (uSubOld w n b)
  | .sub, .vec .sgn w n, .vec .sgn _ _ => resToExcept (sSubOld w n b)
  | .mul, .int _, .vec .uns w n => resToExcept (uRmulOld w n a)
  | .mul, .integer _, .vec .uns w n => resToExcept (uRmulOld w n a)
  | .tdiv, .vec .sgn w n, .vec .sgn _ _ => resToExcept (sTruncdivOld w n b)
  | _, _, _ => pyBin op a b

/-! ## specification: the documented semantics (= numeric_std on the emitted expression) -/

/-- value `i` stored in a vector of kind `k` and width `w` (wraps modulo 2^w) -/
def wrap (k : Kind) (w : Nat) (i : Int) : Val := .vec k w (pat w i)

/-- numeric value of a pattern -/
def valOf (k : Kind) (w n : Nat) : Int :=
  match k with
  | .sgn => toInt w n
  | _ => n

/-- integers representable in kind `k`, width `w` (the documented domain of int operands) -/
def inRange (k : Kind) (w : Nat) (i : Int) : Bool :=
  match k with
  | .sgn => decide (-((2 ^ (w - 1) : Nat) : Int) ≤ i) && decide (i < ((2 ^ (w - 1) : Nat) : Int))
  | _ => decide (0 ≤ i) && decide (i < ((2 ^ w : Nat) : Int))

/-- arithmetic / comparison on two numeric vectors of the same kind `k` (Unsigned or Signed) with values
    `a`, `b`: `+`/`-` wrap modulo the larger width, `*` has the sum of the widths, truncdiv the dividend's
    width (truncation toward zero), mod the divisor's width and sign, rem the divisor's width and the
    dividend's sign.  Division by zero is outside the specification. -/
def specArith (k : Kind) (op : BinOp) (wa : Nat) (a : Int) (wb : Nat) (b : Int) : Option Val :=
  match op with
  | .add => some (wrap k (max wa wb) (a + b))
  | .sub => some (wrap k (max wa wb) (a - b))
  | .mul => some (wrap k (wa + wb) (a * b))
  | .tdiv => if b = 0 then none else some (wrap k wa (a.tdiv b))
  | .mod => if b = 0 then none else some (wrap k wb (a.fmod b))
  | .rem => if b = 0 then none else some (wrap k wb (a.tmod b))
  | .eq | .ne | .lt | .gt | .le | .ge => some (.bool (cmpInt op a b))
  | _ => none

def isNumeric : Kind → Bool
  | .bv => false
  | _ => true

def isCmp : BinOp → Bool
  | .eq | .ne | .lt | .gt | .le | .ge => true
  | _ => false

def specBin (op : BinOp) (a b : Val) : Option Val :=
  match op with
  | .shl | .shr =>
    -- value shifted by an Unsigned or a non-negative integer; `>>` is logical for Unsigned and arithmetic for
    -- Signed (both are the floor of value / 2^r)
    (match a, shiftAmount b with
     | .vec k w n, some r =>
        if isNumeric k && decide (0 ≤ r) then
          some (wrap k w (if op = .shl then valOf k w n * (2 ^ r.toNat : Nat) else (valOf k w n).fdiv (2 ^ r.toNat : Nat)))
        else none
     | _, _ => none)
  | .and | .or | .xor =>
    (match a, b with
     | .vec k w n, .vec k2 w2 n2 => if k = k2 ∧ w = w2 then some (.vec k w (bitwise op n n2)) else none
     | .bit x, .bit y => some (.bit (match op with | .and => x && y | .or => x || y | _ => x != y))
     | _, _ => none)
  | .cat =>
    -- the left operand forms the most significant bits; the result is a plain BitVector
    (match a, b with
     | .vec _ w n, .vec _ w2 n2 => some (.vec .bv (w + w2) (n * 2 ^ w2 + n2))
     | .vec _ w n, .bit y => some (.vec .bv (w + 1) (n * 2 + y.toNat))
     | .bit x, .vec _ w2 n2 => some (.vec .bv (1 + w2) (x.toNat * 2 ^ w2 + n2))
     | .bit x, .bit y => some (.vec .bv 2 (x.toNat * 2 + y.toNat))
     | _, _ => none)
  | .fdiv =>
    (match a, b with
     | .vec .uns wa na, .vec .uns _ nb => if nb = 0 then none else some (wrap .uns wa ((na : Int).tdiv nb))
     | _, _ => none)
  | _ =>
    (match a, b with
     | .vec k wa na, .vec k2 wb nb =>
        if k = k2 then
          if isNumeric k then specArith k op wa (valOf k wa na) wb (valOf k wb nb)
          else if wa = wb ∧ (op = .eq ∨ op = .ne) then some (.bool (cmpInt op na nb)) else none
        else none
     -- an int operand is converted to the vector operand's type and width
     | .vec k w n, .int i | .vec k w n, .integer i =>
        if isNumeric k && inRange k w i then specArith k op w (valOf k w n) w i else none
     | .int i, .vec k w n | .integer i, .vec k w n =>
        if isNumeric k && inRange k w i then specArith k op w i w (valOf k w n) else none
     -- Null / Full stand for the all-zeros / all-ones vector of the other operand's type
     | .vec k w n, .null =>
        if isCmp op && (isNumeric k || op = .eq || op = .ne) then some (.bool (cmpInt op (valOf k w n) 0)) else none
     | .vec k w n, .full =>
        if isCmp op && (isNumeric k || op = .eq || op = .ne) then
          some (.bool (cmpInt op (valOf k w n) (valOf k w (allOnes w)))) else none
     -- on the left only `==` / `!=` (the tracer does not reflect ordering comparisons of Null / Full)
     | .null, .vec k w n => if op = .eq || op = .ne then some (.bool (cmpInt op 0 (valOf k w n))) else none
     | .full, .vec k w n =>
        if op = .eq || op = .ne then some (.bool (cmpInt op (valOf k w (allOnes w)) (valOf k w n))) else none
     | .bit x, .bit y => if op = .eq ∨ op = .ne then some (.bool (cmpInt op x.toNat y.toNat)) else none
     | .integer x, .integer y | .integer x, .int y | .int x, .integer y =>
        (match op with
         | .add => some (.integer (x + y)) | .sub => some (.integer (x - y))
         | .mul => (match a with | .int _ => none | _ => some (.integer (x * y)))     -- Integer has no __rmul__
         | .tdiv => (match a with | .int _ => none | _ => if y = 0 then none else some (.integer (x.tdiv y)))
         | .mod => (match a with | .int _ => none | _ => if y = 0 then none else some (.integer (x.fmod y)))
         | .rem => (match a with | .int _ => none | _ => if y = 0 then none else some (.integer (x.tmod y)))
         | .eq | .ne | .lt | .gt | .le | .ge => some (.bool (cmpInt op x y))
         | _ => none)
     | .int x, .int y =>
        (match op with
         | .tdiv => if y = 0 then none else some (.int (x.tdiv y))
         | .rem => if y = 0 then none else some (.int (x.tmod y))
         | _ => none)
     | _, _ => none)

def specUn (op : UnOp) (a : Val) : Option Val :=
  match op, a with
  | .neg, .vec .uns w n => some (wrap .uns w (-(n : Int)))
  | .neg, .vec .sgn w n => some (wrap .sgn w (-(toInt w n)))
  | .neg, .integer i => some (.integer (-i))
  | .abs, .vec .sgn w n => some (wrap .sgn w ((toInt w n).natAbs))
  | .inv, .vec k w n => some (.vec k w (allOnes w - n))
  | .inv, .bit b => some (.bit !b)
  | .toBool, .vec _ _ n => some (.bool (n != 0))
  | .toBool, .bit b => some (.bool b)
  | .toBool, .integer i => some (.bool (i != 0))
  | .signed, .vec _ w n => some (.vec .sgn w n)
  | .unsigned, .vec _ w n => some (.vec .uns w n)
  | .bitvector, .vec _ w n => some (.vec .bv w n)
  | .msb, .vec _ w n => some (.bit (decide (2 ^ (w - 1) ≤ n)))
  | .lsb, .vec _ _ n => some (.bit (n % 2 == 1))
  | _, _ => none

def specPar (op : ParOp) (a : Val) (p1 p2 : Int) : Option Val :=
  match op, a with
  | .resize, .vec k w n =>
      -- value * 2^zeros, zero / sign extended to the target width (which must hold all bits)
      if isNumeric k && decide (0 ≤ p2) && decide ((w : Int) + p2 ≤ p1) then
        some (wrap k p1.toNat (valOf k w n * (2 ^ p2.toNat : Nat))) else none
  | .index, .vec _ w n => if 0 ≤ p1 ∧ p1 < w then some (.bit (n / 2 ^ p1.toNat % 2 == 1)) else none
  | .slice, .vec _ w n =>
      if 0 ≤ p2 ∧ p2 ≤ p1 ∧ p1 < w then some (.vec .bv (p1 - p2 + 1).toNat (n / 2 ^ p2.toNat % 2 ^ (p1 - p2 + 1).toNat))
      else none
  | .msbn, .vec _ w n => if 1 ≤ p1 ∧ p1 ≤ w then some (.vec .bv p1.toNat (n / 2 ^ (w - p1.toNat))) else none
  | .lsbn, .vec _ w n => if 1 ≤ p1 ∧ p1 ≤ w then some (.vec .bv p1.toNat (n % 2 ^ p1.toNat)) else none
  | _, _ => none

/-! ## line protocol
  `bin <op> <a> <b>` | `un <op> <a>` | `par <op> <a> <p1> <p2>` | `binold <op> <a> <b>`
  operand tokens: `u<w>:<n>` `s<w>:<signed value>` `v<w>:<n>` `b:<0|1>` `i:<int>` `I:<int>` `n` `f`
  answer: `<pyFold result> <spec result>`; results are operand tokens, `B:<0|1>` (bool), `u<w>:U` (uninitialised),
  `err-type|err-assert|err-value`, spec undefined = `none`.
-/

def parseInt (s : String) : Option Int := s.toInt?

def parseVal (s : String) : Option Val :=
  if s = "n" then some .null
  else if s = "f" then some .full
  else
    match s.splitOn ":" with
    | [h, v] =>
      (match parseInt v with
       | none => none
       | some i =>
         if h = "b" then (if i = 0 then some (.bit false) else if i = 1 then some (.bit true) else none)
         else if h = "i" then some (.int i)
         else if h = "I" then some (.integer i)
         else
           match (h.drop 1).toNat? with
           | none => none
           | some w =>
             if w = 0 then none
             else if h.startsWith "u" then (if 0 ≤ i ∧ i < (2 ^ w : Nat) then some (.vec .uns w i.toNat) else none)
             else if h.startsWith "v" then (if 0 ≤ i ∧ i < (2 ^ w : Nat) then some (.vec .bv w i.toNat) else none)
             else if h.startsWith "s" then (if inRange .sgn w i then some (.vec .sgn w (pat w i)) else none)
             else none)
    | _ => none

def showVal : Val → String
  | .bit b => s!"b:{b.toNat}"
  | .bool b => s!"B:{b.toNat}"
  | .int i => s!"i:{i}"
  | .integer i => s!"I:{i}"
  | .vec .uns w n => s!"u{w}:{n}"
  | .vec .bv w n => s!"v{w}:{n}"
  | .vec .sgn w n => s!"s{w}:{toInt w n}"
  | .undef .uns w => s!"u{w}:U"
  | .undef .sgn w => s!"s{w}:U"
  | .undef .bv w => s!"v{w}:U"
  | .null => "n"
  | .full => "f"

def showExcept : Except Err Val → String
  | .ok v => showVal v
  | .error .typeErr => "err-type"
  | .error .assertErr => "err-assert"
  | .error .valueErr => "err-value"

def showOpt : Option Val → String
  | some v => showVal v
  | none => "none"

def parseBinOp : String → Option BinOp
  | "add" => some .add | "sub" => some .sub | "mul" => some .mul | "tdiv" => some .tdiv | "fdiv" => some .fdiv
  | "mod" => some .mod | "rem" => some .rem | "shl" => some .shl | "shr" => some .shr
  | "and" => some .and | "or" => some .or | "xor" => some .xor | "cat" => some .cat
  | "eq" => some .eq | "ne" => some .ne | "lt" => some .lt | "gt" => some .gt | "le" => some .le | "ge" => some .ge
  | _ => none

def parseUnOp : String → Option UnOp
  | "neg" => some .neg | "abs" => some .abs | "inv" => some .inv | "bool" => some .toBool
  | "signed" => some .signed | "unsigned" => some .unsigned | "bitvector" => some .bitvector
  | "msb" => some .msb | "lsb" => some .lsb
  | _ => none

def parseParOp : String → Option ParOp
  | "resize" => some .resize | "index" => some .index | "slice" => some .slice
  | "msbn" => some .msbn | "lsbn" => some .lsbn
  | _ => none

def handle : List String → String
  | ["bin", o, a, b] =>
    (match parseBinOp o, parseVal a, parseVal b with
     | some o, some a, some b => showExcept (pyBin o a b) ++ " " ++ showOpt (specBin o a b)
     | _, _, _ => "bad-op")
  | ["binold", o, a, b] =>
    (match parseBinOp o, parseVal a, parseVal b with
     | some o, some a, some b => showExcept (pyBinOld o a b) ++ " " ++ showOpt (specBin o a b)
     | _, _, _ => "bad-op")
  | ["un", o, a] =>
    (match parseUnOp o, parseVal a with
     | some o, some a => showExcept (pyUn o a) ++ " " ++ showOpt (specUn o a)
     | _, _ => "bad-op")
  | ["par", o, a, p1, p2] =>
    (match parseParOp o, parseVal a, parseInt p1, parseInt p2 with
     | some o, some a, some p1, some p2 => showExcept (pyPar o a p1 p2) ++ " " ++ showOpt (specPar o a p1 p2)
     | _, _, _, _ => "bad-op")
  | _ => "bad-op"

end CohdlVerif.C09
