/-
  Line-protocol loop shared by the per-property model drivers (Drivers/Cxx.lean):
  one request per line on stdin, exactly one answer line per request on stdout.
-/
namespace CohdlVerif

partial def driverLoop (handle : List String → String) : IO Unit := do
  let stdin ← IO.getStdin
  let stdout ← IO.getStdout
  let rec go : IO Unit := do
    let line ← stdin.getLine
    if line.isEmpty then return ()
    let toks := (line.trimAscii.toString.splitOn " ").filter (· ≠ "")
    stdout.putStrLn (handle toks)
    go
  go

end CohdlVerif
