/-
  S-expressions for the line protocol between the Python harness and the Lean models.
  Import-free (core Lean only) so that the driver links without Mathlib.
-/
namespace CohdlVerif

inductive Sexp where
  | atom (s : String)
  | list (xs : List Sexp)
  deriving Repr, Inhabited, BEq

namespace Sexp

partial def toStr : Sexp → String
  | .atom s => s
  | .list xs => "(" ++ " ".intercalate (xs.map toStr) ++ ")"

instance : ToString Sexp := ⟨toStr⟩

/-- tokenizer: parentheses and whitespace-separated atoms -/
def tokenize (s : String) : List String := Id.run do
  let mut out : Array String := #[]
  let mut cur : String := ""
  for c in s.toList do
    if c == '(' || c == ')' then
      if cur != "" then out := out.push cur; cur := ""
      out := out.push (String.singleton c)
    else if c == ' ' || c == '\t' || c == '\n' || c == '\r' then
      if cur != "" then out := out.push cur; cur := ""
    else
      cur := cur.push c
  if cur != "" then out := out.push cur
  return out.toList

/-- parse a token list with an explicit stack (total, no fuel needed) -/
def parseToks (toks : List String) : Option Sexp := Id.run do
  let mut stack : List (List Sexp) := [[]]
  for t in toks do
    if t == "(" then
      stack := [] :: stack
    else if t == ")" then
      match stack with
      | top :: next :: rest => stack := (Sexp.list top.reverse :: next) :: rest
      | _ => return none
    else
      match stack with
      | top :: rest => stack := (Sexp.atom t :: top) :: rest
      | [] => return none
  match stack with
  | [[x]] => return some x
  | [xs] => return some (Sexp.list xs.reverse)
  | _ => return none

def parse (s : String) : Option Sexp := parseToks (tokenize s)

def asNat? : Sexp → Option Nat
  | .atom s => s.toNat?
  | _ => none

def asInt? : Sexp → Option Int
  | .atom s => s.toInt?
  | _ => none

def asAtom? : Sexp → Option String
  | .atom s => some s
  | _ => none

def asList? : Sexp → Option (List Sexp)
  | .list xs => some xs
  | _ => none

end Sexp
end CohdlVerif
