/-
  C18 - std combinational helpers (cohdl/std/_core_utility.py, cohdl/std/_crc.py).

  Every helper is MIRRORED with the recursion structure of the Python code (tree folds, batching,
  per-batch lookup + widening adds + truncation, binary decomposition of `times`, priority chain of
  `_first_impl`, recursion of `_calc_steps`) and, beside it, has an independent SPEC (its mathematical
  definition).  Bit vectors are `List Bool`, least significant bit first (index i of the list = bit i of
  the cohdl vector; iterating a cohdl BitVector yields the bits in exactly this order).
  `a @ b` of cohdl (a = high part) is `b ++ a` here.

  Import-free (core Lean only): compiled into the model driver `model_c18`.
-/
namespace CohdlVerif.C18

abbrev Bits := List Bool

def ofNat : Nat → Nat → Bits
  | 0, _ => []
  | w + 1, n => (n % 2 == 1) :: ofNat w (n / 2)

def toNat : Bits → Nat
  | [] => 0
  | b :: r => (if b then 1 else 0) + 2 * toNat r

/-- Python `int.bit_length()` -/
def bitLen (n : Nat) : Nat := if n = 0 then 0 else Nat.log2 n + 1

/-- width of `Unsigned.upto(n)` -/
def uptoW (n : Nat) : Nat := bitLen (if n = 0 then 1 else n)

/-- an Unsigned value together with its width -/
structure U where
  w : Nat
  v : Nat
  deriving DecidableEq, Repr

/-! ## binary_fold / batched_fold  (l.622-654) -/

/-- `binary_fold(fn, args)`: `[a] -> a`, `[a, b, *rest] -> binary_fold(fn, [fn(a, b), *rest])`;
    the empty list makes the Python code raise (`none`) -/
def binaryFold (f : α → α → α) : List α → Option α
  | [] => none
  | [a] => some a
  | a :: b :: rest => binaryFold f (f a b :: rest)
termination_by l => l.length

/-- `binary_fold(fn, args, right_fold=True)` -/
def binaryFoldR (f : α → α → α) : List α → Option α
  | [] => none
  | [a] => some a
  | a :: b :: rest => (binaryFoldR f (b :: rest)).map (f a)

/-- `_batch_args(args, batch_size)`: `args[nr : nr + batch_size] for nr in range(0, len(args), batch_size)`
    (fuel = number of remaining elements; `batch_size = 0` is rejected by the caller) -/
def batchArgsF (bs : Nat) : Nat → List α → List (List α)
  | 0, _ => []
  | fuel + 1, l =>
    match l with
    | [] => []
    | _ :: _ => l.take bs :: batchArgsF bs fuel (l.drop bs)

def batchArgs (bs : Nat) (l : List α) : List (List α) := batchArgsF bs l.length l

/-- `batched_fold(fn, args, batch_size=bs)`.  NOTE the outer recursive call of the Python code does not
    pass `batch_size` on: after the first level the reduction continues with the default 2. -/
def batchedFoldF (f : α → α → α) : Nat → Nat → List α → Option α
  | 0, _, _ => none
  | fuel + 1, bs, l =>
    if bs = 0 then none            -- range(0, n, 0) raises
    else if l.length ≤ bs then binaryFold f l
    else
      match (batchArgs bs l).mapM (batchedFoldF f fuel bs) with
      | none => none
      | some parts => batchedFoldF f fuel 2 parts

def batchedFold (f : α → α → α) (bs : Nat) (l : List α) : Option α :=
  batchedFoldF f (l.length + 2) bs l

/-- SPEC of both folds: sequential left fold of a non-empty list -/
def foldl1 (f : α → α → α) : List α → Option α
  | [] => none
  | a :: rest => some (rest.foldl f a)

/-! ## concat / reverse_bits / repeat / stretch / pad  (l.657-791) -/

/-- `_concat_impl(a, b) = a @ b` (a is the high part) -/
def cat (a b : Bits) : Bits := b ++ a

/-- `concat(first, *args)` = `batched_fold(_concat_impl, [first, *args])` (default batch size 2) -/
def concatM (parts : List Bits) : Option Bits := batchedFold cat 2 parts

/-- SPEC: the first argument is the most significant part -/
def concatSpec (parts : List Bits) : Bits := parts.reverse.flatten

/-- `reverse_bits(inp) = concat(*inp)` (bit 0 becomes the first = most significant argument) -/
def reverseBits (bits : Bits) : Option Bits := concatM (bits.map fun b => [b])

/-- `pow2_list`: `[val, val@val, ...]`, n entries -/
def pow2List (val : Bits) : Nat → List Bits
  | 0 => []
  | n + 1 => val :: pow2List (cat val val) n

/-- `_repeat_filter_by_factor`: keep entry nr iff bit nr of `factor` is set -/
def filterByFactor (factor : Nat) : Nat → List Bits → List Bits
  | _, [] => []
  | nr, s :: rest => if (factor / 2 ^ nr) % 2 = 1 then s :: filterByFactor factor (nr + 1) rest
                     else filterByFactor factor (nr + 1) rest

/-- `repeat(val, times)`: binary decomposition of `times`; `times = 0` makes `concat()` raise -/
def repeatM (val : Bits) (times : Nat) : Option Bits :=
  concatM (filterByFactor times 0 (pow2List val (max 1 (bitLen times))))

def repeatSpec (val : Bits) (times : Nat) : Bits := (List.replicate times val).flatten

/-- `stretch(val, factor)` on a Bit = `repeat(bit, factor)` -/
def stretchBit (b : Bool) (factor : Nat) : Option Bits :=
  if factor = 0 then none else repeatM [b] factor

/-- `stretch(val, factor)` on a BitVector -/
def stretchM (bits : Bits) (factor : Nat) : Option Bits :=
  if factor = 0 then none
  else if factor = 1 then some bits
  else match (bits.map fun b => stretchBit b factor).mapM id with
    | none => none
    | some parts => concatM parts.reverse

def stretchSpec (bits : Bits) (factor : Nat) : Bits := bits.flatMap (List.replicate factor)

/-- `leftpad(inp, result_width, fill)` -/
def leftpadM (inp : Bits) (rw : Nat) (fill : Bool) : Option Bits :=
  if rw < inp.length then none
  else if inp.length = rw then some inp
  else (stretchBit fill (rw - inp.length)).map fun s => cat s inp

def rightpadM (inp : Bits) (rw : Nat) (fill : Bool) : Option Bits :=
  if rw < inp.length then none
  else if inp.length = rw then some inp
  else (stretchBit fill (rw - inp.length)).map fun s => cat inp s

/-- `pad(inp, left, right, fill)` -/
def padM (inp : Bits) (left right : Nat) (fill : Bool) : Option Bits :=
  if left = 0 ∧ right = 0 then some inp
  else
    let lp : Option Bits := if left ≠ 0 then (stretchBit fill left).map fun s => cat s inp else some inp
    match lp with
    | none => none
    | some lpv => if right ≠ 0 then (stretchBit fill right).map fun s => cat lpv s else some lpv

def padSpec (inp : Bits) (left right : Nat) (fill : Bool) : Bits :=
  List.replicate right fill ++ inp ++ List.replicate left fill

/-! ## apply_mask / Mask  (l.794-812) -/

def bnot (a : Bits) : Bits := a.map not
def band (a b : Bits) : Option Bits := if a.length = b.length then some (List.zipWith and a b) else none
def bor (a b : Bits) : Option Bits := if a.length = b.length then some (List.zipWith or a b) else none

/-- `(old & ~mask) | (new & mask)`; `assert old.width == new.width`, `&` asserts equal widths -/
def applyMask (old new mask : Bits) : Option Bits :=
  if old.length ≠ new.length then none
  else do
    let a ← band old (bnot mask)
    let b ← band new mask
    bor a b

def applyMaskSpec : Bits → Bits → Bits → Bits
  | o :: os, n :: ns, m :: ms => (if m then n else o) :: applyMaskSpec os ns ms
  | _, _, _ => []

/-! ## rol / ror / lshift_fill / rshift_fill  (l.825-862) -/

/-- `inp.lsb(rest=n) @ inp.msb(n)` -/
def rolM (bits : Bits) (n : Nat) : Option Bits :=
  if bits.length < n then none
  else if n = 0 ∨ n = bits.length then some bits
  else some (cat (bits.take (bits.length - n)) (bits.drop (bits.length - n)))

/-- `inp.lsb(n) @ inp.msb(rest=n)` -/
def rorM (bits : Bits) (n : Nat) : Option Bits :=
  if bits.length < n then none
  else if n = 0 ∨ n = bits.length then some bits
  else some (cat (bits.take n) (bits.drop n))

/-- SPEC: rotate towards the most significant end: result bit i = input bit (i - n) mod w -/
def rolSpec (bits : Bits) (n : Nat) : Bits :=
  (List.range bits.length).map fun i => bits.getD ((i + bits.length - n) % bits.length) false

def rorSpec (bits : Bits) (n : Nat) : Bits :=
  (List.range bits.length).map fun i => bits.getD ((i + n) % bits.length) false

/-- `val.lsb(width_val - width_fill) @ fill` -/
def lshiftFill (val fill : Bits) : Option Bits :=
  if fill.length = val.length then some fill
  else if val.length < fill.length then none
  else some (cat (val.take (val.length - fill.length)) fill)

/-- `fill @ val.msb(width_val - width_fill)` -/
def rshiftFill (val fill : Bits) : Option Bits :=
  if fill.length = val.length then some fill
  else if val.length < fill.length then none
  else some (cat fill (val.drop fill.length))

/-- SPEC on values: shift in from the right / from the left -/
def lshiftFillSpec (wv wf v f : Nat) : Nat := (v * 2 ^ wf + f) % 2 ^ wv
def rshiftFillSpec (wv wf v f : Nat) : Nat := v / 2 ^ wf + f * 2 ^ (wv - wf)

/-! ## one_hot / is_one_hot (l.375-386) -/

/-- `(Unsigned[width](1) << bit_pos).bitvector`, `assert 0 <= bit_pos < width` -/
def oneHot (width pos : Nat) : Option Bits :=
  if pos < width then some (ofNat width ((1 * 2 ^ pos) % 2 ^ width)) else none

def oneHotSpec (width pos : Nat) : Bits := (List.range width).map fun i => i == pos

/-- `select(inp, {one_hot(l, bit): True for bit in range(l)}, False)` -/
def isOneHot (bits : Bits) : Bool :=
  (List.range bits.length).any fun p => oneHot bits.length p == some bits

def isOneHotSpec (bits : Bits) : Bool := bits.count true == 1

/-! ## batched / select_batch (l.865-885) -/

def slice (bits : Bits) (lo hi : Nat) : Bits := (bits.drop lo).take (hi + 1 - lo)

/-- `_batched_indices(l, n)`: `[(min(off + n - 1, last), off) for off in range(0, l, n)]` (fuel = l) -/
def batchedIdx (l n : Nat) : Nat → Nat → List (Nat × Nat)
  | 0, _ => []
  | fuel + 1, off => if off < l then (min (off + n - 1) (l - 1), off) :: batchedIdx l n fuel (off + n) else []

/-- `batched(input, n, allow_partial)`: `[input[upper:lower] for upper, lower in _batched_indices(len(input), n)]` -/
def batched (bits : Bits) (n : Nat) (allowPartial : Bool) : Option (List Bits) :=
  if n = 0 then none
  else if bits.length % n ≠ 0 ∧ ¬ allowPartial then none
  else some ((batchedIdx bits.length n bits.length 0).map fun p => slice bits p.2 p.1)

/-- SPEC: consecutive groups of n bits starting at bit 0, the last one possibly shorter -/
def chunks (n : Nat) (bits : Bits) : List Bits := batchArgs n bits

def borT (a b : Bits) : Bits := List.zipWith or a b

/-- `select_batch(input, onehot_selector, batch_size)` -/
def selectBatch (input sel : Bits) (bs : Nat) : Option Bits :=
  if input.length ≠ sel.length * bs then none
  else do
    let st ← stretchM sel bs
    let masked ← band input st
    let parts ← batched masked bs false
    batchedFold borT 2 parts

/-- SPEC: bit i of the result = OR over the selected batches j of input bit j*bs+i -/
def selectBatchSpec (input sel : Bits) (bs : Nat) : Bits :=
  (List.range bs).map fun i => (List.range sel.length).any fun j =>
    sel.getD j false && input.getD (j * bs + i) false

/-! ## minimum / maximum / min_element / ... (l.892-927) -/

def enumFrom : Nat → List α → List (Nat × α)
  | _, [] => []
  | n, a :: r => (n, a) :: enumFrom (n + 1) r

/-- `lambda a, b: a if cmp(key(a), key(b)) else b` -/
def pick (cmp : Int → Int → Bool) (a b : Nat × Int) : Nat × Int := if cmp a.2 b.2 then a else b

/-- `min_element` / `max_element` (cmp = `<` / `>`): fold over the REVERSED indexed container -/
def extElement (cmp : Int → Int → Bool) (keys : List Int) : Option (Nat × Int) :=
  batchedFold (pick cmp) 2 (enumFrom 0 keys).reverse

def ltI (a b : Int) : Bool := decide (a < b)
def gtI (a b : Int) : Bool := decide (a > b)

def minimumM (keys : List Int) : Option Int := (extElement ltI keys).map (·.2)
def maximumM (keys : List Int) : Option Int := (extElement gtI keys).map (·.2)
def minIndexM (keys : List Int) : Option U := (extElement ltI keys).map fun r => ⟨uptoW keys.length, r.1⟩
def maxIndexM (keys : List Int) : Option U := (extElement gtI keys).map fun r => ⟨uptoW keys.length, r.1⟩

/-- SPEC: the extremum and the FIRST position where it occurs -/
def minSpec : List Int → Option Int
  | [] => none
  | a :: r => some (r.foldl min a)
def maxSpec : List Int → Option Int
  | [] => none
  | a :: r => some (r.foldl max a)
def firstIdxOf (v : Int) (l : List Int) : Nat := (l.takeWhile (· != v)).length

/-! ## count / population counts (l.930-1019) -/

/-- `_safe_add_unsigned(a, b)`: `Unsigned[max(a.width, b.width) + 1](a) + b` -/
def safeAdd (a b : U) : U := ⟨max a.w b.w + 1, (a.v + b.v) % 2 ^ (max a.w b.w + 1)⟩

/-- `result.lsb(result_width).unsigned` (raises when the vector is narrower) -/
def lsbU (k : Nat) (r : U) : Option U := if r.w < k then none else some ⟨k, r.v % 2 ^ k⟩

def truncTo (rw : Nat) (r : U) : Option U := if r.w ≠ rw then lsbU rw r else some r

/-- `_count_impl` -/
def countM [DecidableEq α] (l : List α) (value : α) : Option U :=
  match l with
  | [] => some ⟨1, 0⟩
  | _ => do
    let r ← batchedFold safeAdd 2 (l.map fun e => (⟨1, if e = value then 1 else 0⟩ : U))
    truncTo (bitLen l.length) r

def countSpec [DecidableEq α] (l : List α) (value : α) : U :=
  ⟨if l.length = 0 then 1 else bitLen l.length, l.count value⟩

/-- Python `int.bit_count()` of a value below 2^fuel -/
def bitCountF : Nat → Nat → Nat
  | 0, _ => 0
  | fuel + 1, n => n % 2 + bitCountF fuel (n / 2)

/-- `select(vec.unsigned, _set_bit_map(w), default=0)` with `_set_bit_map(w) = {nr: Unsigned.upto(w)(nr.bit_count())}` -/
def setCnt (chunk : Bits) : U :=
  if toNat chunk < 2 ^ chunk.length then ⟨uptoW chunk.length, bitCountF chunk.length (toNat chunk)⟩
  else ⟨0, 0⟩
def clearCnt (chunk : Bits) : U :=
  if toNat chunk < 2 ^ chunk.length then ⟨uptoW chunk.length, chunk.length - bitCountF chunk.length (toNat chunk)⟩
  else ⟨0, 0⟩

/-- `count_set_bits(vector, batch_size=bs)`: per-batch lookup, widening adds, final truncation -/
def countBitsWith (tbl : Bits → U) (bs : Nat) (bits : Bits) : Option U := do
  let parts ← batched bits bs true
  let r ← batchedFold safeAdd 2 (parts.map tbl)
  truncTo (bitLen bits.length) r

def countSetBits := countBitsWith setCnt
def countClearBits := countBitsWith clearCnt

def popcount (bits : Bits) : Nat := bits.count true

/-! ## clamp (l.1022) -/

def clampM (v lo hi : Int) : Int := if v < lo then lo else if hi < v then hi else v
def clampSpec (v lo hi : Int) : Int := max lo (min hi v)

/-! ## choose_first / select / cond, count_elements_while/until, leading/trailing counts -/

/-- `_first_impl(*args, default)` -/
def firstImpl : List (Bool × α) → α → α
  | [], d => d
  | (c, v) :: rest, d => if c then v else firstImpl rest d

def chooseFirstSpec (l : List (Bool × α)) (d : α) : α := ((l.find? (·.1)).map (·.2)).getD d

/-- `select(arg, branches, default)`: Python dict lookup (keys are unique) -/
def selectM [BEq κ] (arg : κ) (branches : List (κ × α)) (d : α) : α :=
  match branches.lookup arg with
  | some v => v
  | none => d

def condM (c : Bool) (a b : α) : α := if c then a else b

/-- `count_elements_while(seq, val)`: `choose_first(*[(elem != val, R(nr))], default=R(length))` -/
def countWhile [DecidableEq α] (seq : List α) (val : α) : U :=
  ⟨uptoW seq.length, firstImpl ((enumFrom 0 seq).map fun p => (decide (p.2 ≠ val), p.1)) seq.length⟩

/-- `count_elements_until(seq, val)` -/
def countUntil [DecidableEq α] (seq : List α) (val : α) : U :=
  ⟨uptoW seq.length, firstImpl ((enumFrom 0 seq).map fun p => (decide (p.2 = val), p.1)) seq.length⟩

def countWhileSpec [DecidableEq α] (seq : List α) (val : α) : Nat := (seq.takeWhile (fun e => decide (e = val))).length
def countUntilSpec [DecidableEq α] (seq : List α) (val : α) : Nat := (seq.takeWhile (fun e => decide (e ≠ val))).length

def ctz (bits : Bits) : U := countWhile bits false
def cto (bits : Bits) : U := countWhile bits true
def clz (bits : Bits) : Option U := (reverseBits bits).map fun r => countWhile r false
def clo (bits : Bits) : Option U := (reverseBits bits).map fun r => countWhile r true

/-- SPEC: length of the run of `b` at the least / most significant end -/
def trailingRun (b : Bool) (bits : Bits) : Nat := (bits.takeWhile (· == b)).length
def leadingRun (b : Bool) (bits : Bits) : Nat := (bits.reverse.takeWhile (· == b)).length

/-! ## BitwiseCrc (std/_crc.py) -/

def bxor (a b : Bits) : Bits := List.zipWith xor a b

/-- one `update(data)` / one step of `_calc_steps`:
    `cond = prev.msb() ^ d; shifted = prev.lsb(rest=1) @ Bit(0); (shifted ^ poly) if cond else shifted` -/
def crcStep (poly reg : Bits) (d : Bool) : Bits :=
  let cond := xor (reg.getLastD false) d
  let shifted := false :: reg.dropLast
  if cond then bxor shifted poly else shifted

/-- `_calc_steps(prev, *data)`: recursion over the data bits, the first one is consumed first -/
def calcSteps (poly : Bits) : Bits → List Bool → Option Bits
  | _, [] => none
  | prev, [d] => some (crcStep poly prev d)
  | prev, d :: e :: rest => calcSteps poly (crcStep poly prev d) (e :: rest)

/-- SPEC 1: several bits per step = the single-bit update iterated -/
def crcIter (poly reg : Bits) (data : List Bool) : Bits := data.foldl (crcStep poly) reg

/-- xor `p` into the first `p.length` entries of `d` -/
def xorPre : List Bool → List Bool → List Bool
  | [], d => d
  | _, [] => []
  | a :: p, b :: d => xor a b :: xorPre p d

/-- SPEC 2: bitwise polynomial long division over GF(2), most significant coefficient first.
    `p` = the coefficients of the generator below its (implicit) leading 1; n division steps. -/
def polyRem (p : List Bool) : Nat → List Bool → List Bool
  | 0, d => d
  | _ + 1, [] => []
  | n + 1, b :: rest => polyRem p n (if b then xorPre p rest else rest)

/-- remainder of `(init·x^n + msg)·x^w` divided by `x^w + poly`, as a register value (LSB first) -/
def crcSpec (poly init : Bits) (msg : List Bool) : Bits :=
  (polyRem poly.reverse msg.length (xorPre init.reverse (msg ++ List.replicate poly.length false))).reverse

end CohdlVerif.C18
