import CohdlVerif.Model.Sexp
import CohdlVerif.Model.Coro
import CohdlVerif.Model.CoroCompile

/-
  C01 driver side: s-expression decoding of coroutine bodies (`Stmt`) and emitted state machines (`SM`),
  the untrusted BFS `explore` that proposes the simulation relation, and a concrete interpretation
  (actions = "output j := k", conditions = input bits) for end-to-end traces.

  requests:
    validate <stmt-sexp> | <sm-sexp>            -> ok <pairs> | fail <reason>
    reftrace <stmt-sexp> | <nouts> <in0> <in1> ..  -> per clock `o0,o1,..` joined by `;` (or `stuck`)
    smtrace  <sm-sexp>   | <nouts> <in0> <in1> ..  -> same for the state machine
    compile  <stmt-sexp>                       -> the mirror's machine `(sm code0 code1 ..)` in the form of export_sm | reject
-/
namespace CohdlVerif.C01

open CohdlVerif

def optC? : Sexp → Option (Option Nat)
  | .atom "t" => some none
  | .atom s => s.toNat?.map some
  | _ => none

/-- Stmt sexp: skip | brk | cont | ret | awaitF | (act a K) | (await c K) | (ite c T E K) | (while c B K) | (call B K) -/
partial def stmtOf : Sexp → Option Stmt
  | .atom "skip" => some .skip
  | .atom "brk" => some .brk
  | .atom "cont" => some .cont
  | .atom "ret" => some .ret
  | .atom "awaitF" => some .awaitF
  | .list [.atom "act", a, k] => do pure (.act (← a.asNat?) (← stmtOf k))
  | .list [.atom "await", c, k] => do pure (.await (← optC? c) (← stmtOf k))
  | .list [.atom "ite", c, t, e, k] => do pure (.ite (← c.asNat?) (← stmtOf t) (← stmtOf e) (← stmtOf k))
  | .list [.atom "while", c, b, k] => do pure (.while_ (← optC? c) (← stmtOf b) (← stmtOf k))
  | .list [.atom "call", b, k] => do pure (.call (← stmtOf b) (← stmtOf k))
  | _ => none

/-- Code sexp: nil | (act a K) | (trans s K) | (ite c T E K) -/
partial def codeOf : Sexp → Option Code
  | .atom "nil" => some .nil
  | .list [.atom "act", a, k] => do pure (.act (← a.asNat?) (← codeOf k))
  | .list [.atom "trans", s, k] => do pure (.trans (← s.asNat?) (← codeOf k))
  | .list [.atom "ite", c, t, e, k] => do pure (.ite (← c.asNat?) (← codeOf t) (← codeOf e) (← codeOf k))
  | _ => none

def smOf : Sexp → Option SM
  | .list (.atom "sm" :: cs) => do pure ⟨← cs.mapM codeOf⟩
  | _ => none

/-- untrusted BFS proposing the relation; its result is CHECKED by `closed` (Props: C01.validate_sound) -/
partial def explore (f : Nat) (prog : Stmt) (sm : SM) (todo : List (Susp × Nat)) (R : List (Susp × Nat)) :
    List (Susp × Nat) :=
  match todo with
  | [] => R
  | p :: rest =>
    if R.contains p then explore f prog sm rest R else
    match unfSusp f prog p.1 with
    | none => explore f prog sm rest (p :: R)
    | some st =>
      match matchT st (norm (sm.codes.getD p.2 .nil) none .leaf) p.2 with
      | none => explore f prog sm rest (p :: R)
      | some ps => explore f prog sm (ps ++ rest) (p :: R)

/-- first pair of the relation at which the certificate fails, for diagnostics -/
def firstBad (f : Nat) (prog : Stmt) (sm : SM) (R : List (Susp × Nat)) : Option (Susp × Nat) :=
  R.find? (fun p => !closedAt f prog sm R p)

def suspTag : Susp → String
  | .start => "start"
  | .atAwait _ _ _ => "await"
  | .atHead _ _ _ _ => "loophead"
  | .stopped => "stopped"

def fuel : Nat := 400

def validate (prog : Stmt) (sm : SM) : String :=
  let R := explore fuel prog sm [(.start, 0)] []
  if closed fuel prog sm R then s!"ok {R.length}"
  else match firstBad fuel prog sm R with
    | some p => s!"fail state={p.2} susp={suspTag p.1}"
    | none => "fail start-not-related"

/-! concrete interpretation: σ = (inputs as a bit mask, outputs) ; action a = j*1000+k sets output j to k -/
structure Conc where
  inp : Nat
  outs : List Nat
  deriving Repr

def cAct (a : Nat) (s : Conc) : Conc := { s with outs := s.outs.set (a / 1000) (a % 1000) }
def cCond (c : Nat) (s : Conc) : Bool := s.inp.testBit c

def showOuts (s : Conc) : String := ",".intercalate (s.outs.map toString)

def refTraceStr (prog : Stmt) (nouts : Nat) (ins : List Nat) : String := Id.run do
  let mut st : Susp × Conc := (.start, ⟨0, List.replicate nouts 0⟩)
  let mut out : Array String := #[]
  for i in ins do
    match refStep cAct cCond fuel prog st.1 { st.2 with inp := i } with
    | none => return ";".intercalate (out.push "stuck").toList
    | some r => st := r; out := out.push (showOuts r.2)
  return ";".intercalate out.toList

def smTraceStr (sm : SM) (nouts : Nat) (ins : List Nat) : String := Id.run do
  let mut st : Nat × Conc := (0, ⟨0, List.replicate nouts 0⟩)
  let mut out : Array String := #[]
  for i in ins do
    st := smStep cAct cCond sm st.1 { st.2 with inp := i }
    out := out.push (showOuts st.2)
  return ";".intercalate out.toList

/-- canonical text of `Code` / `SM`: exactly the form `export_sm` (harness/c01.py) prints for the real IR -/
def codeStr : Code → String
  | .nil => "nil"
  | .act a k => s!"(act {a} {codeStr k})"
  | .trans t k => s!"(trans {t} {codeStr k})"
  | .ite c t e k => s!"(ite {c} {codeStr t} {codeStr e} {codeStr k})"

def smStr (sm : SM) : String := "(sm " ++ " ".intercalate (sm.codes.map codeStr) ++ ")"

def compileStr (p : Stmt) : String := match compileSM p with | some sm => smStr sm | none => "reject"

def splitBar (toks : List String) : List String × List String :=
  (toks.takeWhile (· ≠ "|"), (toks.dropWhile (· ≠ "|")).drop 1)

def handle (args : List String) : String :=
  match args with
  | "validate" :: rest =>
      let (a, b) := splitBar rest
      match (Sexp.parse (" ".intercalate a)).bind stmtOf, (Sexp.parse (" ".intercalate b)).bind smOf with
      | some p, some sm => validate p sm
      | _, _ => "bad-op"
  | "compile" :: rest =>
      match (Sexp.parse (" ".intercalate rest)).bind stmtOf with
      | some p => compileStr p
      | none => "bad-op"
  | "reftrace" :: rest =>
      let (a, b) := splitBar rest
      match (Sexp.parse (" ".intercalate a)).bind stmtOf, b.mapM String.toNat? with
      | some p, some (n :: ins) => refTraceStr p n ins
      | _, _ => "bad-op"
  | "smtrace" :: rest =>
      let (a, b) := splitBar rest
      match (Sexp.parse (" ".intercalate a)).bind smOf, b.mapM String.toNat? with
      | some sm, some (n :: ins) => smTraceStr sm n ins
      | _, _ => "bad-op"
  | _ => "bad-op"

end CohdlVerif.C01
