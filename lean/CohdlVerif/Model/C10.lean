/-
  C10 - the hand-re-implemented pieces of Python semantics inside cohdl's tracer, and the Python rules
  they have to agree with.  Only these mechanisms are modelled (no model of CPython as a whole):

  * `bindModel`       MIRROR of `FunctionDefinition.bind_args`   (cohdl/_core/_collect_ast_and_scope.py)
    `cpyBind`         SPEC: argument binding as described in the language reference (6.3.4 Calls)
  * `splitTarget`     MIRROR of `PrepareAst._split_target`       (cohdl/_compiler/frontend/_prepare_ast.py)
    (spec stated in C10.splitTarget_spec: starred assignment, 7.2 Assignment statements)
  * `foldBoolOp`      MIRROR of the `ast.BoolOp` / `ast.Not` constant folding
    `pyBoolOp`        SPEC: `and` / `or` return one of their operands (6.11), short-circuit
  * `foldCompareChain` MIRROR of the `ast.Compare` loop;  `pyChain` SPEC: `a<b<c` = `(a<b) and (b<c)`, single evaluation
  * `dispatchBinOp`   MIRROR of `overloaded_operator` in the `ast.BinOp` case (current tree),
    `dispatchBinOpFixed` the same with the subclass-priority test added (fixes/C10-reflected-priority.patch)
    `cpyBinOp`        SPEC: data model 3.3.8 (`__op__`, NotImplemented, reflected `__rop__` only for different types,
                      a proper subclass overriding the reflected method goes first)
  * `dispatchCmp` / `dispatchCmpFixed` / `cpyCmp`   the same for rich comparisons (3.3.1; `do_richcompare`)

  Names and values are natural numbers (abstract identities).  Import-free: compiled into the driver.
-/
namespace CohdlVerif.C10

abbrev Name := Nat
abbrev Val := Nat
/-- a Python `dict` with string keys: association list, keys unique, insertion ordered -/
abbrev Kw := List (Name × Val)

/-! ## 1. argument binding -/

/-- the fields of `FunctionDefinition` that `bind_args` reads -/
structure Sig where
  posonly : List Name
  args : List Name
  vararg : Option Name
  kwonly : List Name
  kwarg : Option Name
  defaults : Kw          -- `_defaults`   (name -> value)
  kwdefaults : Kw        -- `_kwdefaults`
  deriving Repr, DecidableEq

structure Call where
  pos : List Val         -- `args` (after `*` expansion and after the bound `self` was inserted)
  kw : Kw                -- `kwargs` (after `**` expansion)
  deriving Repr, DecidableEq

/-- what a local name is bound to -/
inductive BVal where
  | val (v : Val)
  | tup (vs : List Val)        -- `*args`
  | dict (kvs : Kw)            -- `**kwargs`
  deriving Repr, DecidableEq

abbrev Env := List (Name × BVal)

/-- `name in d` / `d[name]` -/
def lookup (n : Name) : Kw → Option Val
  | [] => none
  | (k, v) :: r => if k = n then some v else lookup n r

/-- `del d[name]` (keys are unique) -/
def erase (n : Name) (d : Kw) : Kw := d.filter (fun kv => kv.1 ≠ n)

/-- loop `for posonly in self._posonly` : returns the bindings and the positional arguments left over.
    `None` = AssertionError / KeyError. -/
def posonlyLoop (s : Sig) (kw : Kw) : List Name → List Val → Option (Env × List Val)
  | [], pos => some ([], pos)
  | p :: ps, pos =>
    -- assert posonly not in kwargs or self._kwarg is not None
    if (lookup p kw).isSome && s.kwarg.isNone then none
    else match pos with
      | a :: rest => (posonlyLoop s kw ps rest).map fun (e, r) => ((p, .val a) :: e, r)
      | [] => match lookup p s.defaults with            -- self._defaults[posonly]  (KeyError)
        | some d => (posonlyLoop s kw ps []).map fun (e, r) => ((p, .val d) :: e, r)
        | none => none

/-- loop `for arg in self._args` : bindings, positional arguments left over, keyword arguments left over -/
def argsLoop (s : Sig) : List Name → List Val → Kw → Option (Env × List Val × Kw)
  | [], pos, kw => some ([], pos, kw)
  | a :: as, v :: rest, kw =>
    -- assert arg not in kwargs
    if (lookup a kw).isSome then none
    else (argsLoop s as rest kw).map fun (e, r, k) => ((a, .val v) :: e, r, k)
  | a :: as, [], kw =>
    match lookup a kw with
    | some v => (argsLoop s as [] (erase a kw)).map fun (e, r, k) => ((a, .val v) :: e, r, k)
    | none => match lookup a s.defaults with
      | some d => (argsLoop s as [] kw).map fun (e, r, k) => ((a, .val d) :: e, r, k)
      | none => none                                      -- missing parameter

/-- loop `for kwonly in self._kwonly` -/
def kwonlyLoop (s : Sig) : List Name → Kw → Option (Env × Kw)
  | [], kw => some ([], kw)
  | k :: ks, kw =>
    match lookup k kw with
    | some v => (kwonlyLoop s ks (erase k kw)).map fun (e, r) => ((k, .val v) :: e, r)
    | none => match lookup k s.kwdefaults with           -- self._kwdefaults[kwonly]  (KeyError)
      | some d => (kwonlyLoop s ks kw).map fun (e, r) => ((k, .val d) :: e, r)
      | none => none

/-- MIRROR of `FunctionDefinition.bind_args` (the bound `self` is already part of `c.pos`).
    The result lists the bindings in the order in which `add_arg` is called. -/
def bindModel (s : Sig) (c : Call) : Option Env :=
  match posonlyLoop s c.kw s.posonly c.pos with
  | none => none
  | some (e1, pos1) =>
    match argsLoop s s.args pos1 c.kw with
    | none => none
    | some (e2, pos2, kw2) =>
      let var : Option Env :=
        match s.vararg with
        | none => if pos2.isEmpty then some [] else none       -- to many arguments
        | some n => some [(n, .tup pos2)]
      match var with
      | none => none
      | some e3 =>
        match kwonlyLoop s s.kwonly kw2 with
        | none => none
        | some (e4, kw4) =>
          match s.kwarg with
          | none => if kw4.isEmpty then some (e1 ++ e2 ++ e3 ++ e4) else none   -- to many keyword arguments
          | some n => some (e1 ++ e2 ++ e3 ++ e4 ++ [(n, .dict kw4)])

/-- `super_arg` of the instantiated function: the value of the first `add_arg` call (`add_arg` is never
    called with `variadic=True`, so this may be the `*args` tuple or the `**kwargs` dict) -/
def superArg (e : Env) : Option BVal :=
  match e with
  | (_, v) :: _ => some v
  | [] => none

/-! ### specification (language reference 6.3.4) -/

/-- the parameters `ps` receive the positional values in order; a parameter for which no positional value
    is left takes `alt p`; no value at all = TypeError -/
def fill (alt : Name → Option Val) : List Name → List Val → Option Env
  | [], _ => some []
  | p :: ps, v :: vs => (fill alt ps vs).map fun e => (p, .val v) :: e
  | p :: ps, [] => match alt p with
    | some v => (fill alt ps []).map fun e => (p, .val v) :: e
    | none => none

/-- `x` if present, else `y` -/
def firstOf (x y : Option Val) : Option Val :=
  match x with
  | some v => some v
  | none => y

/-- CPython's binding, stated as conditions on the whole call:
    * more positional arguments than positional parameters need `*args`;
    * a positional-or-keyword parameter filled positionally must not also be given by keyword;
    * a keyword that names no positional-or-keyword / keyword-only parameter (this includes the names of
      positional-only parameters) needs `**kwargs`, which receives exactly these, in call order;
    * every parameter takes its positional value, else its keyword value (not for positional-only),
      else its default, else the call is rejected;
    * `*args` receives the excess positional arguments. -/
def cpyBind (s : Sig) (c : Call) : Option Env :=
  let nPosonly := s.posonly.length
  let addressable := s.args ++ s.kwonly
  let extra : Kw := c.kw.filter fun kv => !addressable.contains kv.1
  if s.vararg.isNone && decide ((s.posonly ++ s.args).length < c.pos.length) then none
  else if (s.args.take (c.pos.length - nPosonly)).any fun a => (lookup a c.kw).isSome then none
  else if s.kwarg.isNone && !extra.isEmpty then none
  else
    match fill (fun p => lookup p s.defaults) s.posonly c.pos,
          fill (fun a => firstOf (lookup a c.kw) (lookup a s.defaults)) s.args (c.pos.drop nPosonly),
          fill (fun k => firstOf (lookup k c.kw) (lookup k s.kwdefaults)) s.kwonly [] with
    | some e1, some e2, some e4 =>
      let e3 : Env := match s.vararg with
        | none => []
        | some n => [(n, .tup (c.pos.drop (s.posonly ++ s.args).length))]
      let e5 : Env := match s.kwarg with
        | none => []
        | some n => [(n, .dict extra)]
      some (e1 ++ e2 ++ e3 ++ e4 ++ e5)
    | _, _, _ => none

/-- what Python's grammar and `dict` guarantee: parameter names are pairwise distinct -/
def Sig.wf (s : Sig) : Prop := (s.posonly ++ s.args ++ s.kwonly).Nodup

/-! ## 2. starred assignment targets -/

inductive Item (α : Type) where
  | one (x : α)
  | many (xs : List α)       -- the value of the starred target (always a `list` in Python)
  deriving Repr, DecidableEq

/-- MIRROR of `_split_target(targets, source)`: `n` = number of targets, `star` = index of the starred one.
    (with fixes/C10-starred-list.patch the starred part is converted with `list(...)`; the container
    kind is compared by the harness, the model has only one kind of sequence) -/
def splitTarget {α : Type} (n : Nat) (star : Option Nat) (src : List α) : Option (List (Item α)) :=
  match star with
  | none => if src.length = n then some (src.map .one) else none
  | some i =>
    if src.length < n - 1 then none                      -- assert len(source) >= len(targets) - 1
    else
      let after := n - i - 1
      if after = 0 then
        some ((src.take i).map .one ++ [.many (src.drop i)])                          -- source[i:]
      else
        some ((src.take i).map .one
              ++ [.many ((src.drop i).take (src.length - after - i))]                   -- source[i:-after]
              ++ (src.drop (src.length - after)).map .one)                               -- source[-after:]

def Item.flatten {α : Type} : Item α → List α
  | .one x => [x]
  | .many xs => xs

/-! ## 3. and / or / not on constants -/

inductive BOp where | and | or
  deriving Repr, DecidableEq

/-- MIRROR: all operands are evaluated and converted with `__bool__` first (`bs`), then
    `and`: `False` if `not all(const_vars)` else `True`;  `or`: `True` if `any(const_vars)` else `False` -/
def foldBoolOp (op : BOp) (bs : List Bool) : Bool :=
  match op with
  | .and => bs.all id
  | .or => bs.any id

/-- number of operands the tracer evaluates: all of them -/
def foldBoolOpEvaluated (_op : BOp) (bs : List Bool) : Nat := bs.length

/-- SPEC: Python's `x1 and x2 and ... xn` returns the first falsy operand, else the last one;
    `or` the first truthy one, else the last (n ≥ 1).  Result: (value, number of operands evaluated) -/
def pyBoolOp {α : Type} (truthy : α → Bool) (op : BOp) : α → List α → α × Nat
  | x, [] => (x, 1)
  | x, y :: r =>
    let stop := match op with | .and => !truthy x | .or => truthy x
    if stop then (x, 1) else
      let (v, k) := pyBoolOp truthy op y r
      (v, k + 1)

/-! ## 4. comparison chains -/

inductive Ev where
  | operand (i : Nat)        -- operand number i is evaluated
  | cmp (i : Nat)            -- link number i (operand i `op_i` operand i+1) is evaluated
  deriving Repr, DecidableEq

/-- the comparison loop of the tracer over constant links: stops at the first false link -/
def cmpLoop (link : Nat → Bool) : Nat → Nat → Bool × List Ev
  | _, 0 => (true, [])
  | i, k + 1 =>
    if link i then
      let (r, t) := cmpLoop link (i + 1) k
      (r, .cmp i :: t)
    else (false, [.cmp i])

/-- MIRROR of the `ast.Compare` case for `n` links (n+1 operands) whose constant results are `link i`:
    every operand is evaluated once, up front and in order; then the links in order. -/
def foldCompareChain (link : Nat → Bool) (n : Nat) : Bool × List Ev :=
  let (r, t) := cmpLoop link 0 n
  (r, (List.range (n + 1)).map .operand ++ t)

/-- SPEC: `x0 op0 x1 op1 x2 ...` is `(x0 op0 x1) and (x1 op1 x2) and ...` except that every operand is
    evaluated at most once; evaluation stops at the first false link (so later operands are not
    evaluated at all).  `pyChainFrom i k`: operand i is already evaluated, k links remain. -/
def pyChainFrom (link : Nat → Bool) : Nat → Nat → Bool × List Ev
  | _, 0 => (true, [])
  | i, k + 1 =>
    if link i then
      let (r, t) := pyChainFrom link (i + 1) k
      (r, .operand (i + 1) :: .cmp i :: t)
    else (false, [.operand (i + 1), .cmp i])

def pyChain (link : Nat → Bool) (n : Nat) : Bool × List Ev :=
  let (r, t) := pyChainFrom link 0 n
  (r, .operand 0 :: t)

/-- the plain conjunction of all links (no evaluation order) -/
def allLinks (link : Nat → Bool) (n : Nat) : Bool := (List.range n).all link

def Ev.isCmp : Ev → Bool
  | .cmp _ => true
  | _ => false

/-! ## 5. operator dispatch -/

/-- result of calling a special method -/
inductive Res where
  | notImpl
  | val (v : Val)
  deriving Repr, DecidableEq

inductive MCall where
  | l        -- type(lhs).__op__(lhs, rhs)
  | r        -- type(rhs).__rop__(rhs, lhs)
  deriving Repr, DecidableEq

/-- one binary operation `lhs op rhs` seen from the dispatcher -/
structure BinCfg where
  same : Bool            -- type(lhs) is type(rhs)
  rsub : Bool            -- type(rhs) is a proper subclass of type(lhs)
  rdiff : Bool           -- type(rhs).__rop__ is not type(lhs).__rop__   (the subclass overrides it)
  lop : Option Res       -- none: type(lhs) has no attribute `__op__`
  rrop : Option Res      -- none: type(rhs) has no attribute `__rop__`
  deriving Repr, DecidableEq

/-- outcome: the special methods called, in order, and the value (`none` = error) -/
abbrev Out := List MCall × Option Val

def tryReflected (calls : List MCall) (c : BinCfg) : Out :=
  match c.rrop with
  | some (.val v) => (calls ++ [.r], some v)
  | some .notImpl => (calls ++ [.r], none)      -- assert ... is not NotImplemented
  | none => (calls, none)                        -- AttributeError in ObjTraits.getattr

/-- MIRROR of `overloaded_operator(default_op, reverse_op)` (current tree) -/
def dispatchBinOp (c : BinCfg) : Out :=
  match c.lop with
  | some (.val v) => ([.l], some v)
  | some .notImpl => tryReflected [.l] c
  | none => tryReflected [] c

/-- CPython tries the reflected method of the right operand first when ... -/
def BinCfg.priority (c : BinCfg) : Bool := !c.same && c.rsub && c.rdiff && c.rrop.isSome

/-- SPEC (data model 3.3.8 / `binary_op1` + `SLOT1BINFULL`) -/
def cpyBinOp (c : BinCfg) : Out :=
  let afterL (calls : List MCall) (rDone : Bool) : Out :=
    -- the reflected method is only tried for operands of different types, and only once
    if !c.same && !rDone then
      match c.rrop with
      | some (.val v) => (calls ++ [.r], some v)
      | some .notImpl => (calls ++ [.r], none)
      | none => (calls, none)
    else (calls, none)
  let tryL (calls : List MCall) (rDone : Bool) : Out :=
    match c.lop with
    | some (.val v) => (calls ++ [.l], some v)
    | some .notImpl => afterL (calls ++ [.l]) rDone
    | none => afterL calls rDone
  if c.priority then
    match c.rrop with
    | some (.val v) => ([.r], some v)
    | _ => tryL [.r] true
  else tryL [] false

/-- MIRROR of the dispatch with the priority test of fixes/C10-reflected-priority.patch -/
def dispatchBinOpFixed (c : BinCfg) : Out :=
  if c.priority then
    match c.rrop with
    | some (.val v) => ([.r], some v)
    | _ =>
      match c.lop with
      | some (.val v) => ([.r, .l], some v)
      | some .notImpl => ([.r, .l], none)
      | none => ([.r], none)
  else dispatchBinOp c

/-- what can actually occur: equal types are not proper subclasses and share their methods -/
def BinCfg.wf (c : BinCfg) : Bool := !(c.same && (c.rsub || c.rdiff))


/-! ### class hierarchies: where the special methods come from

  `type(x).__op__` is the first definition found along the MRO of `type(x)` (never the metaclass).  A method
  definition is identified by a number (the identity of the function object: an alias `__rsub__ = A.__rsub__`
  in a subclass body has the SAME identity).  "provides a different reflected method" compares the two
  looked-up function objects - wherever in the MRO they were found. -/

abbrev MethId := Nat

/-- one class: the special methods written in its own body -/
structure Cls where
  own : List (Name × MethId)
  deriving Repr, DecidableEq

/-- the MRO of a type, the type itself first -/
abbrev Mro := List Cls

def lookupMro (name : Name) : Mro → Option MethId
  | [] => none
  | c :: rest => match lookup name c.own with
    | some m => some m
    | none => lookupMro name rest

structure HierCfg where
  same : Bool                -- type(lhs) is type(rhs)
  rsub : Bool                -- type(rhs) is a proper subclass of type(lhs)
  op : Name                  -- `__op__`
  rop : Name                 -- `__rop__`
  mroL : Mro
  mroR : Mro
  result : List (MethId × Res)   -- what each method definition returns for these operands
  deriving Repr, DecidableEq

def resOf (h : HierCfg) (m : MethId) : Res :=
  match h.result.find? (fun p => p.1 == m) with
  | some p => p.2
  | none => .notImpl

/-- the dispatcher's view of a hierarchy: `rdiff` = the reflected method looked up in the MRO of the right
    type is not the one looked up in the MRO of the left type -/
def HierCfg.toBin (h : HierCfg) : BinCfg :=
  { same := h.same, rsub := h.rsub,
    rdiff := decide (lookupMro h.rop h.mroR ≠ lookupMro h.rop h.mroL),
    lop := (lookupMro h.op h.mroL).map (resOf h),
    rrop := (lookupMro h.rop h.mroR).map (resOf h) }

/-- MIRROR of the dispatch of the current tree (`lookup_in_mro` + identity comparison) on a hierarchy -/
def dispatchHier (h : HierCfg) : Out := dispatchBinOpFixed h.toBin
/-- SPEC on a hierarchy -/
def cpyHier (h : HierCfg) : Out := cpyBinOp h.toBin

/-- the WRONG predicate "the reflected method is written in the body of the right operand's own class"
    (kept to state that it is not CPython's rule) -/
def HierCfg.toBinOwnDict (h : HierCfg) : BinCfg :=
  { h.toBin with rdiff := match h.mroR with
      | c :: _ => (lookup h.rop c.own).isSome
      | [] => false }

/-! ### rich comparisons (`<`, `<=`, `==`, ...): every type has the methods (object's return NotImplemented) -/

inductive CmpKind where | eq | ne | ord
  deriving Repr, DecidableEq

/-- constant results are bools in the tracer (`assert isinstance(result, bool)`) -/
inductive CRes where
  | notImpl
  | val (b : Bool)
  deriving Repr, DecidableEq

structure CmpCfg where
  kind : CmpKind
  same : Bool            -- type(lhs) is type(rhs)
  rsub : Bool            -- type(rhs) is a proper subclass of type(lhs)
  ident : Bool           -- lhs is rhs
  lop : CRes             -- type(lhs).__op__(lhs, rhs)
  rrop : CRes            -- type(rhs).__swapped_op__(rhs, lhs)
  deriving Repr, DecidableEq

abbrev COut := List MCall × Option Bool

/-- MIRROR of `single_compare.evaluate(normal_name, reverse_name)` (current tree) -/
def dispatchCmp (c : CmpCfg) : COut :=
  match c.lop with
  | .val b => ([.l], some b)
  | .notImpl =>
    match c.rrop with
    | .val b => ([.l, .r], some b)
    | .notImpl => ([.l, .r], none)

def CmpCfg.priority (c : CmpCfg) : Bool := !c.same && c.rsub

/-- SPEC (`do_richcompare`): a proper subclass on the right goes first; then the left operand; then the
    right one unless already tried; `==` / `!=` fall back to identity, ordering raises TypeError -/
def cpyCmp (c : CmpCfg) : COut :=
  let fallback (calls : List MCall) : COut :=
    match c.kind with
    | .eq => (calls, some c.ident)
    | .ne => (calls, some (!c.ident))
    | .ord => (calls, none)
  if c.priority then
    match c.rrop with
    | .val b => ([.r], some b)
    | .notImpl =>
      match c.lop with
      | .val b => ([.r, .l], some b)
      | .notImpl => fallback [.r, .l]
  else
    match c.lop with
    | .val b => ([.l], some b)
    | .notImpl =>
      match c.rrop with
      | .val b => ([.l, .r], some b)
      | .notImpl => fallback [.l, .r]

/-- MIRROR with the priority test of the patch (no identity fallback: still rejected) -/
def dispatchCmpFixed (c : CmpCfg) : COut :=
  if c.priority then
    match c.rrop with
    | .val b => ([.r], some b)
    | .notImpl =>
      match c.lop with
      | .val b => ([.r, .l], some b)
      | .notImpl => ([.r, .l], none)
  else dispatchCmp c

def CmpCfg.wf (c : CmpCfg) : Bool := !(c.same && c.rsub) && (!c.ident || c.same)

/-! ## line protocol (see `handle` at the end)

  bind     POSONLY ARGS VARARG KWONLY KWARG DEFAULTS KWDEFAULTS POS KW     (mirror)
  cpybind  ... same ...                                                     (spec)
     lists are comma separated naturals, `-` = empty list / absent; dicts `k:v,k:v`
     answer: `reject` | `n=v n=(v,v) n={k:v,k:v} ... | super=v|-`
  split N STAR|- v,v,v        -> `reject` | items `v` / `[v,v]` separated by spaces
  bool and|or b,b,b           -> `0|1 evaluated`
  pybool and|or t,t,t         -> `value evaluated`      (operands are naturals, truthy = non-zero)
  chain b,b,b                 -> `0|1 trace`            (links; trace `o0 o1 c0 ...`)
  pychain b,b,b               -> same for the spec
  binop|binopfixed|cpybinop SAME RSUB RDIFF LOP RROP    (LOP/RROP: `-` absent, `n` NotImplemented, `v<k>`)
                              -> `calls result`  calls in {-,l,r,lr,rl}; result `v<k>` | `err`
  cmp|cmpfixed|cpycmp KIND SAME RSUB IDENT LOP RROP     (LOP/RROP: `n` | `t` | `f`)
  hier|cpyhier SAME RSUB OP ROP MROL MROR RESULTS       (MRO `own/own/..`, own = `name:id,..` | `-`; RESULTS `id:n|id:v<k>`)
                              -> `calls result [priority]`
-/

def parseList (s : String) : Option (List Nat) :=
  if s == "-" then some [] else (s.splitOn ",").mapM String.toNat?

def parseOpt (s : String) : Option (Option Nat) :=
  if s == "-" then some none else s.toNat?.map some

def parseKw (s : String) : Option Kw :=
  if s == "-" then some [] else
    (s.splitOn ",").mapM fun kv =>
      match kv.splitOn ":" with
      | [k, v] => do let k ← k.toNat?; let v ← v.toNat?; pure (k, v)
      | _ => none

def showVals (vs : List Nat) : String := ",".intercalate (vs.map toString)

def showBVal : BVal → String
  | .val v => toString v
  | .tup vs => "(" ++ showVals vs ++ ")"
  | .dict kvs => "{" ++ ",".intercalate (kvs.map fun (k, v) => s!"{k}:{v}") ++ "}"

def showEnv (r : Option Env) : String :=
  match r with
  | none => "reject"
  | some e =>
    let body := " ".intercalate (e.map fun (n, v) => s!"{n}={showBVal v}")
    let sup := match superArg e with | some v => showBVal v | none => "-"
    (if body == "" then "" else body ++ " ") ++ "| super=" ++ sup

def parseSigCall (a : List String) : Option (Sig × Call) :=
  match a with
  | [po, ar, va, ko, kw, d, kd, pos, ckw] => do
    let po ← parseList po; let ar ← parseList ar; let va ← parseOpt va; let ko ← parseList ko
    let kw ← parseOpt kw; let d ← parseKw d; let kd ← parseKw kd; let pos ← parseList pos; let ckw ← parseKw ckw
    pure (⟨po, ar, va, ko, kw, d, kd⟩, ⟨pos, ckw⟩)
  | _ => none

def parseBools (s : String) : Option (List Bool) :=
  if s == "-" then some [] else
    (s.splitOn ",").mapM fun t => if t == "1" then some true else if t == "0" then some false else none

def showItem : Item Nat → String
  | .one x => toString x
  | .many xs => "[" ++ showVals xs ++ "]"

def showEv : Ev → String
  | .operand i => s!"o{i}"
  | .cmp i => s!"c{i}"

def b01 (b : Bool) : String := if b then "1" else "0"

def parseRes (s : String) : Option (Option Res) :=
  if s == "-" then some none
  else if s == "n" then some (some .notImpl)
  else match s.toList with
    | 'v' :: r => (String.ofList r).toNat?.map fun v => some (.val v)
    | _ => none

def parseCRes (s : String) : Option CRes :=
  if s == "n" then some .notImpl else if s == "t" then some (.val true) else if s == "f" then some (.val false) else none

def parseBool (s : String) : Option Bool :=
  if s == "1" then some true else if s == "0" then some false else none

def showCalls (cs : List MCall) : String :=
  if cs.isEmpty then "-" else String.join (cs.map fun | .l => "l" | .r => "r")

def showOut (o : Out) : String :=
  showCalls o.1 ++ " " ++ (match o.2 with | some v => s!"v{v}" | none => "err")

def showCOut (o : COut) : String :=
  showCalls o.1 ++ " " ++ (match o.2 with | some true => "t" | some false => "f" | none => "err")

def parseBinCfg (a : List String) : Option BinCfg :=
  match a with
  | [s, rs, rd, l, r] => do
    pure ⟨← parseBool s, ← parseBool rs, ← parseBool rd, ← parseRes l, ← parseRes r⟩
  | _ => none

def parseCmpCfg (a : List String) : Option CmpCfg :=
  match a with
  | [k, s, rs, i, l, r] => do
    let k ← (if k == "eq" then some CmpKind.eq else if k == "ne" then some .ne else if k == "ord" then some .ord else none)
    pure ⟨k, ← parseBool s, ← parseBool rs, ← parseBool i, ← parseCRes l, ← parseCRes r⟩
  | _ => none


/-- `A/B/C` with each class `name:id,name:id` or `-` -/
def parseMro (s : String) : Option Mro :=
  (s.splitOn "/").mapM fun c => (parseKw c).map fun own => (⟨own⟩ : Cls)

def parseResults (s : String) : Option (List (MethId × Res)) :=
  if s == "-" then some [] else
    (s.splitOn ",").mapM fun kv =>
      match kv.splitOn ":" with
      | [k, v] => do
        let k ← k.toNat?
        let r ← (if v == "n" then some Res.notImpl else match v.toList with
          | 'v' :: r => (String.ofList r).toNat?.map Res.val
          | _ => none)
        pure (k, r)
      | _ => none

def parseHier (a : List String) : Option HierCfg :=
  match a with
  | [s, rs, op, rop, ml, mr, res] => do
    pure ⟨← parseBool s, ← parseBool rs, ← op.toNat?, ← rop.toNat?, ← parseMro ml, ← parseMro mr, ← parseResults res⟩
  | _ => none

def handle (args : List String) : String :=
  match args with
  | "bind" :: rest =>
    match parseSigCall rest with
    | some (s, c) => showEnv (bindModel s c)
    | none => "bad-op"
  | "cpybind" :: rest =>
    match parseSigCall rest with
    | some (s, c) => showEnv (cpyBind s c)
    | none => "bad-op"
  | ["split", n, star, src] =>
    match n.toNat?, parseOpt star, parseList src with
    | some n, some star, some src =>
      -- the real function is only called with a starred index inside the target list
      if (match star with | some i => decide (i < n) | none => true) then
        match splitTarget n star src with
        | some items => if items.isEmpty then "empty" else " ".intercalate (items.map showItem)
        | none => "reject"
      else "bad-op"
    | _, _, _ => "bad-op"
  | ["bool", op, bs] =>
    match (if op == "and" then some BOp.and else if op == "or" then some .or else none), parseBools bs with
    | some op, some bs => if bs.isEmpty then "bad-op" else s!"{b01 (foldBoolOp op bs)} {foldBoolOpEvaluated op bs}"
    | _, _ => "bad-op"
  | ["pybool", op, vs] =>
    match (if op == "and" then some BOp.and else if op == "or" then some .or else none), parseList vs with
    | some op, some (x :: r) => let (v, k) := pyBoolOp (fun n : Nat => n != 0) op x r; s!"{v} {k}"
    | _, _ => "bad-op"
  | ["not", b] =>
    match parseBool b with
    | some b => b01 (!b)
    | none => "bad-op"
  | ["chain", bs] =>
    match parseBools bs with
    | some bs =>
      if bs.isEmpty then "bad-op" else
      let (r, t) := foldCompareChain (fun i => bs.getD i false) bs.length
      s!"{b01 r} " ++ " ".intercalate (t.map showEv)
    | none => "bad-op"
  | ["pychain", bs] =>
    match parseBools bs with
    | some bs =>
      if bs.isEmpty then "bad-op" else
      let (r, t) := pyChain (fun i => bs.getD i false) bs.length
      s!"{b01 r} " ++ " ".intercalate (t.map showEv)
    | none => "bad-op"
  | "binop" :: rest => match parseBinCfg rest with | some c => showOut (dispatchBinOp c) | none => "bad-op"
  | "binopfixed" :: rest => match parseBinCfg rest with | some c => showOut (dispatchBinOpFixed c) | none => "bad-op"
  | "cpybinop" :: rest => match parseBinCfg rest with | some c => showOut (cpyBinOp c) | none => "bad-op"
  | "hier" :: rest => match parseHier rest with
    | some h => showOut (dispatchHier h) ++ " " ++ b01 h.toBin.priority
    | none => "bad-op"
  | "cpyhier" :: rest => match parseHier rest with | some h => showOut (cpyHier h) | none => "bad-op"
  | "cmp" :: rest => match parseCmpCfg rest with | some c => showCOut (dispatchCmp c) | none => "bad-op"
  | "cmpfixed" :: rest => match parseCmpCfg rest with | some c => showCOut (dispatchCmpFixed c) | none => "bad-op"
  | "cpycmp" :: rest => match parseCmpCfg rest with | some c => showCOut (cpyCmp c) | none => "bad-op"
  | _ => "bad-op"

end CohdlVerif.C10
