import CohdlVerif.Model.Coro

/-
  C01 - MIRROR of the real coroutine -> state machine construction
  (`/repo/cohdl/_compiler/frontend/_generate_ir.py` `IrGenerator._apply_impl`, branches `Assign`, `If`, `Call`,
  `Return`, `Await`, `While`, `Continue`, `Break`, `Statemachine`, list of statements;
  `/repo/cohdl/_core/_ir/_repr.py` `CodeBlock.append/addfront`, `_State`, `StatemachineContext.at_start/finish`).

  The real algorithm mutates `ir.CodeBlock` objects that are shared by reference (the body block of a loop is
  referenced from the loop head and from every `continue` site).  The mirror therefore works on a heap of blocks
  (`heap : block id -> list of items`, functional updates) and threads the same data the Python code keeps:
  the list of open blocks (argument / result), the class level lists `_break_result`, `_continue_result`,
  `returned_blocks` (saved / restored around loops and calls exactly as the Python code does), the list of states
  in creation order and the root block of every block (`CodeBlock._root`, used by the `common_block` assertion).
  Import-free; compiled into the driver.  Theorems about it: Lemmas/C01*.lean, Props/C01.lean.
-/
namespace CohdlVerif.C01

/-- content of an `ir.CodeBlock`: assignments, `If` (branches are blocks), nested `CodeBlock`, `Nop` -/
inductive Item where
  | act (a : Nat)
  | ite (c : Nat) (t e : Nat)
  | sub (b : Nat)
  | nop
  deriving Repr, DecidableEq

/-- an `ir.CodeBlock`: `_content = (front transitions) ++ items`.  `addfront` is only ever used with `_Transition`s;
    they are kept in their own list (most recent first = position 0) so that `append` positions are stable. -/
structure Blk where
  front : List Nat := []
  items : List Item := []
  deriving Repr, DecidableEq

/-- compiler state -/
structure CSt where
  heap : Nat → Blk            -- `CodeBlock._content`
  root : Nat → Nat            -- `CodeBlock._root`
  next : Nat                  -- next unused block id
  states : List Nat           -- `StatemachineContext._states`: root blocks of the states, in creation order
  brk : List Nat              -- `IrGenerator._break_result`
  cont : List Nat             -- `IrGenerator._continue_result`
  ret : List Nat              -- `IrGenerator.returned_blocks`
  bad : Bool                  -- an assertion of the real compiler failed (design rejected)

namespace CSt

/-- `StatemachineContext.__init__`: one state whose code is the empty block 0 -/
def init : CSt :=
  { heap := fun _ => {}, root := fun b => b, next := 1, states := [0], brk := [], cont := [], ret := [], bad := false }

/-- `ir.CodeBlock([], parent=p)`: `none` = a new root block -/
def newBlock (s : CSt) (parent : Option Nat) : Nat × CSt :=
  (s.next, { s with next := s.next + 1,
                    heap := fun b => if b = s.next then {} else s.heap b,
                    root := fun b => if b = s.next then (match parent with | none => s.next | some p => s.root p)
                                     else s.root b })

/-- `CodeBlock.append` -/
def append (s : CSt) (b : Nat) (it : Item) : CSt :=
  { s with heap := fun x => if x = b then { s.heap b with items := (s.heap b).items ++ [it] } else s.heap x }

/-- `CodeBlock.addfront(_Transition(t))` -/
def addfront (s : CSt) (b : Nat) (t : Nat) : CSt :=
  { s with heap := fun x => if x = b then { s.heap b with front := t :: (s.heap b).front } else s.heap x }

/-- `for block in open_blocks: block.append(..)` -/
def appendAll (s : CSt) (bs : List Nat) (it : Item) : CSt := bs.foldl (fun s b => s.append b it) s

/-- `for block in open_blocks: block.addfront(..)` -/
def addfrontAll (s : CSt) (bs : List Nat) (t : Nat) : CSt := bs.foldl (fun s b => s.addfront b t) s

/-- `StatemachineContext.at_start`: the code of the first state is still empty -/
def atStart (s : CSt) : Bool := (s.heap 0).front.isEmpty && (s.heap 0).items.isEmpty

end CSt

/-- `IdMap` insertion (`ret_blocks[x] = x`): keeps the first occurrence -/
def insId (acc : List Nat) (x : Nat) : List Nat := if acc.contains x then acc else acc ++ [x]

def insIds (acc xs : List Nat) : List Nat := xs.foldl insId acc

/-- `any_transition(root, blocks)` of the `If` branch -/
def anyTrans (r : Nat) (bs : List Nat) : Bool := bs.isEmpty || bs.any (· != r)
/-- `all_transition(root, blocks)` -/
def allTrans (r : Nat) (bs : List Nat) : Bool := bs.all (· != r)

/-- the per-open-block loop of the `If` branch; `ft` / `fe` translate body / orelse -/
def iteLoop (c : Nat) (ft fe : List Nat → CSt → List Nat × CSt) :
    List Nat → CSt → List Nat → List Nat × CSt
  | [], s, acc => (acc, s)
  | b :: bs, s, acc =>
    let (tb, s) := s.newBlock (some b)
    let (eb, s) := s.newBlock (some b)
    -- the If is appended before the branches are translated (at_start must see it)
    let s := s.append b (.ite c tb eb)
    let (ot, s) := ft [tb] s
    let (oe, s) := fe [eb] s
    let anyB := anyTrans tb ot
    let allB := allTrans tb ot
    let anyE := anyTrans eb oe
    let allE := allTrans eb oe
    let acc :=
      if !anyB && !anyE then insId acc b
      else if allB && allE then insIds acc (ot ++ oe)
      else if !anyB then insIds (insId acc tb) oe
      else if !anyE then insIds (insId acc eb) ot
      else insIds acc (ot ++ oe)
    iteLoop c ft fe bs s acc

/-- `Statement.returns_always()` of `_prepare_ast_out.py` on the cons representation -/
def retAlways : Stmt → Bool
  | .skip => false
  | .act _ k => retAlways k
  | .await _ k => retAlways k
  | .awaitF => false
  | .ite _ t e k => (retAlways t && retAlways e) || retAlways k
  | .while_ _ _ k => retAlways k
  | .brk => false
  | .cont => false
  | .ret => true
  | .call _ k => retAlways k

/-- the new state of `Await` / `While`: the empty first state at the start, else a fresh state that every open
    block enters by a transition inserted at its FRONT.  Returns (state index, its root block). -/
def enterState (O : List Nat) (s : CSt) : Nat × Nat × CSt :=
  if s.atStart then (0, 0, s)
  else
    let (nb, s) := s.newBlock none
    let idx := s.states.length
    let s := { s with states := s.states ++ [nb] }
    (idx, nb, s.addfrontAll O idx)

/-- the `for continue_block in continue_result` loop of the `While` branch -/
def contLoop (c : Option Nat) (body : Nat) : List Nat → CSt → List Nat → List Nat × CSt
  | [], s, acc => (acc, s)
  | cb :: cbs, s, acc =>
    if s.root cb = s.root body then
      -- assert continue_block.common_block([continue_block, body]) is None
      contLoop c body cbs { s with bad := true } acc
    else match c with
      | none => contLoop c body cbs (s.append cb (.sub body)) acc
      | some c' =>
        let (bb, s) := s.newBlock (some cb)
        contLoop c body cbs (s.append cb (.ite c' body bb)) (acc ++ [bb])

/-- `IrGenerator._apply_impl` on a statement with its continuation; argument and result = open blocks -/
def compile : Stmt → List Nat → CSt → List Nat × CSt
  | .skip, O, s => (O, s)
  | .act a k, O, s => compile k O (s.appendAll O (.act a))
  | .awaitF, O, s =>
      if O.isEmpty then ([], s) else
      let (_, _, s) := enterState O s
      ([], s)
  | .await c k, O, s =>
      if O.isEmpty then compile k [] s else
      let (_, nb, s) := enterState O s
      match c with
      | none => compile k [nb] s
      | some c' =>
        let (ib, s) := s.newBlock (some nb)
        let (eb, s) := s.newBlock (some nb)
        compile k [ib] (s.append nb (.ite c' ib eb))
  | .ite c t e k, O, s =>
      let (O', s) := iteLoop c (compile t) (compile e) O s []
      if retAlways t && retAlways e then (O', s) else compile k O' s
  | .while_ c b k, O, s =>
      let atS := s.atStart
      let (idx, hb, s) := enterState O s
      -- at the start a Nop marks the first state as used
      let s := if atS then s.append hb .nop else s
      let (body, s) := s.newBlock (some hb)
      let prevC := s.cont
      let prevB := s.brk
      let (ob, s) := compile b [body] { s with cont := [], brk := [] }
      let s := s.addfrontAll ob idx
      let contR := s.cont
      let brkR := s.brk
      let s := { s with cont := prevC, brk := prevB }
      let (rb, s) := contLoop c body contR s []
      let rb := rb ++ brkR
      match c with
      | none => compile k rb (s.append hb (.sub body))
      | some c' =>
        let (ob', s) := s.newBlock (some hb)
        compile k (ob' :: rb) (s.append hb (.ite c' body ob'))
  | .brk, O, s => ([], { s with brk := s.brk ++ O })
  | .cont, O, s => ([], { s with cont := s.cont ++ O })
  | .ret, O, s => ([], { s with ret := s.ret ++ O })
  | .call b k, O, s =>
      if O.isEmpty then compile k [] s else
      let prevR := s.ret
      let (ob, s) := compile b O { s with ret := [] }
      let res := ob ++ s.ret
      compile k res { s with ret := prevR }


/-- export of block items as cons-style `Code` in front of `k`: nested blocks are spliced, `Nop` dropped;
    `deref b k` = code of block `b` followed by `k` (`none` = out of fuel) -/
def flatItems (deref : Nat → Code → Option Code) : List Item → Code → Option Code
  | [], k => some k
  | .act a :: r, k => (flatItems deref r k).map (.act a)
  | .ite c t e :: r, k =>
      match deref t .nil, deref e .nil, flatItems deref r k with
      | some ct, some ce, some cr => some (.ite c ct ce cr)
      | _, _, _ => none
  | .sub b :: r, k => (flatItems deref r k).bind (deref b)
  | .nop :: r, k => flatItems deref r k

def frontCode (keepT : Bool) : List Nat → Code → Code
  | [], k => k
  | t :: r, k => if keepT then .trans t (frontCode keepT r k) else frontCode keepT r k

/-- fuel = nesting depth of blocks; with `keepT = false` transitions are dropped
    (`remove_transitions` of a single-state machine) -/
def flatB (keepT : Bool) (heap : Nat → Blk) : Nat → Nat → Code → Option Code
  | 0, _, _ => none
  | f+1, b, k => (flatItems (flatB keepT heap f) (heap b).items k).map (frontCode keepT (heap b).front)

/-- `StatemachineContext.finish` + `Statemachine.as_case_when`; `none` = the fuel of the export did not suffice
    for some block (never observed; the theorems are stated for the `some` case) -/
def finish (O : List Nat) (s : CSt) : Option SM :=
  let keepT := s.states.length != 1
  let s := if keepT then s.addfrontAll O 0 else s
  if (List.range s.next).all (fun b => (flatB keepT s.heap s.next b .nil).isSome) then
    (s.states.mapM (fun b => flatB keepT s.heap s.next b .nil)).map SM.mk
  else none

/-- well-formedness of a coroutine body: `break` / `continue` only inside a loop of the same coroutine (`l`),
    `return` only inside an awaited sub-coroutine (`c`), `await false` not inside an awaited sub-coroutine -/
def wf : Stmt → Bool → Bool → Bool
  | .skip, _, _ => true
  | .act _ k, l, c => wf k l c
  | .await _ k, l, c => wf k l c
  | .awaitF, _, c => !c
  | .ite _ t e k, l, c => wf t l c && wf e l c && wf k l c
  | .while_ _ b k, l, c => wf b true c && wf k l c
  | .brk, l, _ => l
  | .cont, l, _ => l
  | .ret, _, c => c
  | .call b k, l, c => wf b false true && wf k l c

def compileSt (p : Stmt) : List Nat × CSt := compile p [0] CSt.init

/-- the real compiler rejects the design (`continue` in the first state of its loop), or `break` / `continue` /
    `return` occur outside a loop / call (their blocks would be lost) -/
def rejected (p : Stmt) : Bool :=
  let s := (compileSt p).2
  s.bad || !s.brk.isEmpty || !s.cont.isEmpty || !s.ret.isEmpty

/-- the mirror: coroutine body -> state machine (`none`: rejected) -/
def compileSM (p : Stmt) : Option SM :=
  if rejected p then none else let r := compileSt p; finish r.1 r.2

end CohdlVerif.C01
