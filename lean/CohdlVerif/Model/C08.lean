import CohdlVerif.Model.Sexp

/-
  C08 - intermediates are written before they are read within every activation.

  `TCode` is the control-flow skeleton of one process body as far as temporaries are concerned:
  writes and reads of temporaries (numbered), and two-way alternatives (an `if` is `read test; alt body else`,
  a `case` with branches b1..bn and default d is `alt b1 (alt b2 (.. (alt bn d)))`, a missing default is `nil`).
  Cons style: every constructor carries its continuation.

  * `run`    : execution of one activation along a choice oracle; `none` = a temporary is read before it
               was written in THIS activation (every activation starts with nothing written).
  * `safe`   : an independent definite-assignment analysis; proved sound (Props/C08.lean, C08.safe_sound) and
               evaluated as a certificate on the real IR of every accepted design.
  * `detect` : line-by-line mirror of `ConvertInstance.detect_uninitialized_temporaries`
               (cohdl/_compiler/frontend/_generate_ir.py) with its two global sets, as FIXED by commit fcb69e1.
-/
namespace CohdlVerif.C08

inductive TCode where
  | nil
  | write (t : Nat) (k : TCode)
  | read (t : Nat) (k : TCode)
  | alt (a b : TCode) (k : TCode)
  deriving Repr, DecidableEq, Inhabited

/-- one activation; `cs` = which way each alternative goes (missing choices = second branch) -/
def run : TCode → List Bool → List Nat → Option (List Nat × List Bool)
  | .nil, cs, W => some (W, cs)
  | .write t k, cs, W => run k cs (t :: W)
  | .read t k, cs, W => if t ∈ W then run k cs W else none
  | .alt a b k, c :: cs, W =>
      if c then (run a cs W).bind (fun r => run k r.2 r.1)
      else (run b cs W).bind (fun r => run k r.2 r.1)
  | .alt _ b k, [], W => (run b [] W).bind (fun r => run k r.2 r.1)

/-- the property for one process body: no execution path reads a temporary before writing it -/
def PathSafe (c : TCode) : Prop := ∀ cs, (run c cs []).isSome = true

def inter (a b : List Nat) : List Nat := a.filter (· ∈ b)

/-- definite assignment: D = temporaries written on every path so far -/
def safe : TCode → List Nat → Option (List Nat)
  | .nil, D => some D
  | .write t k, D => safe k (t :: D)
  | .read t k, D => if t ∈ D then safe k D else none
  | .alt a b k, D =>
      match safe a D, safe b D with
      | some Da, some Db => safe k (inter Da Db)
      | _, _ => none

/-- exhaustive search for a faulting path (used by the failing-input search; fuel bounds the work) -/
def findBad : Nat → TCode → List Nat → List Bool → List (TCode) → Option (List Bool)
  | 0, _, _, _, _ => none
  | _+1, .nil, _, _, [] => none
  | f+1, .nil, W, acc, k :: ks => findBad f k W acc ks
  | f+1, .write t k, W, acc, ks => findBad f k (t :: W) acc ks
  | f+1, .read t k, W, acc, ks => if t ∈ W then findBad f k W acc ks else some acc.reverse
  | f+1, .alt a b k, W, acc, ks =>
      match findBad f a W (true :: acc) (k :: ks) with
      | some p => some p
      | none => findBad f b W (false :: acc) (k :: ks)

/-! ### mirror of `detect_uninitialized_temporaries` (fixed code) -/

structure DSt where
  invalid : List Nat
  written : List Nat
  deriving Repr

/-- returns the "local temporaries" of the block (defined on every path through it) and the new global sets;
    `none` = AssertionError ("temporary might not be initialized" / "read before it was written") -/
def detect : TCode → DSt → Option (List Nat × DSt)
  | .nil, st => some ([], st)
  | .write t k, st =>
      -- WRITE access: written.add ; local.add ; invalid.discard
      match detect k { invalid := st.invalid.filter (· ≠ t), written := t :: st.written } with
      | none => none
      | some (l, st') => some (t :: l, st')
  | .read t k, st =>
      if t ∈ st.invalid then none
      else if t ∈ st.written then detect k st else none
  | .alt a b k, st =>
      match detect a st with
      | none => none
      | some (la, st1) =>
        let st1' : DSt := { st1 with invalid := la ++ st1.invalid }
        match detect b st1' with
        | none => none
        | some (lb, st2) =>
          let always := inter la lb
          let st2' : DSt := { st2 with invalid := (lb ++ st2.invalid).filter (· ∉ always) }
          match detect k st2' with
          | none => none
          | some (l, st3) => some (always ++ l, st3)

def accepts (c : TCode) : Bool := (detect c ⟨[], []⟩).isSome

/-! ### line protocol:  `check <tcode-sexp>`  ->  `<detect: acc|rej> <safe: ok|bad> <path of a faulting run or ->`
    TCode sexp: nil | (w t K) | (r t K) | (alt A B K) -/

open CohdlVerif in
partial def tcodeOf : Sexp → Option TCode
  | .atom "nil" => some .nil
  | .list [.atom "w", t, k] => do pure (.write (← t.asNat?) (← tcodeOf k))
  | .list [.atom "r", t, k] => do pure (.read (← t.asNat?) (← tcodeOf k))
  | .list [.atom "alt", a, b, k] => do pure (.alt (← tcodeOf a) (← tcodeOf b) (← tcodeOf k))
  | _ => none

def handle (args : List String) : String :=
  match args with
  | "check" :: rest =>
      match (CohdlVerif.Sexp.parse (" ".intercalate rest)).bind tcodeOf with
      | none => "bad-op"
      | some c =>
        let d := if accepts c then "acc" else "rej"
        let s := if (safe c []).isSome then "ok" else "bad"
        let p := if (safe c []).isSome then "-" else match findBad 200000 c [] [] [] with
          | some p => if p.isEmpty then "e" else String.ofList (p.map (fun (b : Bool) => if b = true then '1' else '0'))
          | none => "-"
        s!"{d} {s} {p}"
  | _ => "bad-op"

end CohdlVerif.C08
