import CohdlVerif.Model.C13Types
import CohdlVerif.Model.C13Views
import CohdlVerif.Model.C13Session
/-
  C13 - line protocol of the model driver.

  `hist REQ ; REQ ; ...`   REQ = key in prefix notation:
        object primType bit boolean integer BV U S ARR tqBase tq Signal Port Variable Temporary
        v (bv|uns|sgn) (d|u) W            BitVector/Unsigned/Signed[...]
        a N KEY                           Array[KEY, N]
        q (signal|port|variable|temporary) (-|in|out|inout) KEY
     answer: `r,r,..|nbv,nu,ns,narr,nsig,nport,nvar,ntmp|cls;cls;..`  r = id | reject,
             cls = `bases/mro/issubrow`  (ids joined by `.`, mro `fail` when C3 fails, row of 0/1 over all ids)
  `view W VT OP*`          VT = bv|uns|sgn, OP = s<h>:<l> | i<n> | u | g | b | it<n>
     answer: `VT cells resolved` (positions joined by `.`) or `reject@<index of failing op>`
  `wr W BITS ( OP* = BITS / )*`   writes through views of one root (bits least significant first)
     answer: `status,status,..|BITS`
  `sess VT BITS STEP / STEP / ...`   STEP = v P OP | w T BITS | cs T S | cn T S (z|s) | x
     answer per step `status:ROOTBITS:shown,shown,..` joined by `;`  (`-` = rejected view slot)
-/
namespace CohdlVerif.C13

def parseRoot : String → Option Root
  | "object" => some .object | "primType" => some .primType | "bit" => some .bit
  | "boolean" => some .boolean | "integer" => some .integer | "BV" => some .bitvector
  | "U" => some .unsigned | "S" => some .signed | "ARR" => some .array
  | "tqBase" => some .tqBase | "tq" => some .tq | "Signal" => some .signal | "Port" => some .port
  | "Variable" => some .variable | "Temporary" => some .temporary
  | _ => none

def parseQK : String → Option QKind
  | "signal" => some .signal | "port" => some .port | "variable" => some .variable
  | "temporary" => some .temporary | _ => none

def parseDir : String → Option (Option Dir)
  | "-" => some none | "in" => some (some .input) | "out" => some (some .output)
  | "inout" => some (some .inout) | _ => none

def parseVK : String → Option VKind
  | "bv" => some .bv | "uns" => some .uns | "sgn" => some .sgn | _ => none

/-- one key in prefix notation; returns the rest of the tokens -/
def parseKey : Nat → List String → Option (Key × List String)
  | 0, _ => none
  | _ + 1, [] => none
  | f + 1, t :: ts =>
    match t, ts with
    | "v", k :: o :: w :: rest =>
      match parseVK k, (if o = "d" then some Order.downto else if o = "u" then some Order.upto else none), w.toNat? with
      | some k, some o, some w => some (.vec k o w, rest)
      | _, _, _ => none
    | "a", n :: rest =>
      match n.toNat?, parseKey f rest with
      | some n, some (e, rest') => some (.arr e n, rest')
      | _, _ => none
    | "q", qk :: d :: rest =>
      match parseQK qk, parseDir d, parseKey f rest with
      | some qk, some d, some (e, rest') => some (.q qk d e, rest')
      | _, _, _ => none
    | t, rest => (parseRoot t).map (fun r => (.root r, rest))

def splitOn (sep : String) : List String → List (List String)
  | [] => [[]]
  | t :: ts =>
    let r := splitOn sep ts
    if t = sep then [] :: r else match r with | [] => [[t]] | x :: xs => (t :: x) :: xs

def parseReqs (toks : List String) : Option (List Key) :=
  (splitOn ";" toks).filter (· ≠ []) |>.mapM (fun ts =>
    match parseKey (ts.length + 1) ts with
    | some (k, []) => some k
    | _ => none)

def joinWith (sep : String) (l : List String) : String := sep.intercalate l

def showIds (l : List Nat) : String := joinWith "." (l.map toString)

def famCount (st : St) (p : Key → Bool) : Nat := (st.filter (fun c => p c.key)).length

def handleHist (toks : List String) : String :=
  match parseReqs toks with
  | none => "bad-op"
  | some reqs =>
    let (st, res) := runHist initSt reqs
    let mros := mroTable st
    let ids := List.range st.length
    let cls := ids.map (fun i =>
      showIds (basesOf st i) ++ "/" ++
      (match mros[i]? with | some (some m) => showIds m | _ => "fail") ++ "/" ++
      String.ofList (ids.map (fun j => if issub st i j then '1' else '0')))
    let cnt := [famCount st (fun k => match k with | .vec .bv _ _ => true | _ => false),
                famCount st (fun k => match k with | .vec .uns _ _ => true | _ => false),
                famCount st (fun k => match k with | .vec .sgn _ _ => true | _ => false),
                famCount st (fun k => match k with | .arr _ _ => true | _ => false),
                famCount st (fun k => match k with | .q .signal _ _ => true | _ => false),
                famCount st (fun k => match k with | .q .port _ _ => true | _ => false),
                famCount st (fun k => match k with | .q .variable _ _ => true | _ => false),
                famCount st (fun k => match k with | .q .temporary _ _ => true | _ => false)]
    joinWith "," (res.map (fun r => match r with | some i => toString i | none => "reject")) ++ "|" ++
      joinWith "," (cnt.map toString) ++ "|" ++ joinWith ";" cls

def parseVT : String → Option VT
  | "bv" => some .bv | "uns" => some .uns | "sgn" => some .sgn | _ => none

def showVT : VT → String
  | .bv => "bv" | .uns => "uns" | .sgn => "sgn" | .bit => "bit"

def natOfChars (cs : List Char) : Option Nat :=
  if cs.isEmpty then none
  else cs.foldl (fun acc c => match acc with
    | none => none
    | some n => if c.isDigit then some (n * 10 + (c.toNat - '0'.toNat)) else none) (some 0)

def splitChars (sep : Char) : List Char → List (List Char)
  | [] => [[]]
  | c :: cs =>
    let r := splitChars sep cs
    if c = sep then [] :: r else match r with | [] => [[c]] | x :: xs => (c :: x) :: xs

def parseOp (t : String) : Option Op :=
  match t.toList with
  | ['u'] => some .unsigned
  | ['g'] => some .signed
  | ['b'] => some .bitvector
  | 'i' :: 't' :: rest => (natOfChars rest).map Op.iter
  | 'i' :: rest => (natOfChars rest).map Op.index
  | 's' :: rest =>
    match splitChars ':' rest with
    | [h, l] => match natOfChars h, natOfChars l with
      | some h, some l => some (.slice h l)
      | _, _ => none
    | _ => none
  | _ => none

/-- apply the operations, reporting the index of the first rejected one -/
def applyOpsIdx (v : View) : Nat → List Op → Except Nat View
  | _, [] => .ok v
  | i, op :: ops => match applyOp v op with | none => .error i | some v' => applyOpsIdx v' (i + 1) ops

def handleView (toks : List String) : String :=
  match toks with
  | w :: vt :: ops =>
    match w.toNat?, parseVT vt, ops.mapM parseOp with
    | some w, some vt, some ops =>
      if w = 0 then "bad-op" else
      match applyOpsIdx (rootView 0 .signal vt w) 0 ops with
      | .error i => s!"reject@{i}"
      | .ok v => s!"{showVT v.vt} {showIds v.cells} {showIds (resolve w v)}"
    | _, _, _ => "bad-op"
  | _ => "bad-op"

def parseBits (s : String) : Option (List Bool) :=
  s.toList.mapM (fun c => if c = '0' then some false else if c = '1' then some true else none)

def showBits (l : List Bool) : String := String.ofList (l.map (fun b => if b then '1' else '0'))

/-- one write `OP* = BITS` -/
def doWrite (w : Nat) (s : List Bool) (toks : List String) : Option (List Bool × String) :=
  match splitOn "=" toks with
  | [ops, [bits]] =>
    match ops.mapM parseOp, parseBits bits with
    | some ops, some bits =>
      match applyOps (rootView 0 .signal .bv w) ops with
      | none => some (s, "reject")
      | some v => if v.cells.length = bits.length then some (write s v.cells bits, "ok") else some (s, "reject")
    | _, _ => none
  | _ => none

def handleWrite (toks : List String) : String :=
  match toks with
  | w :: init :: rest =>
    match w.toNat?, parseBits init with
    | some w, some init =>
      if init.length ≠ w ∨ w = 0 then "bad-op" else
      let r := ((splitOn "/" rest).filter (· ≠ [])).foldl
        (fun (acc : Option (List Bool × List String)) ws =>
          match acc with
          | none => none
          | some (s, out) => match doWrite w s ws with
            | none => none
            | some (s', st) => some (s', out ++ [st])) (some (init, []))
      match r with
      | none => "bad-op"
      | some (s, out) => joinWith "," out ++ "|" ++ showBits s
    | _, _ => "bad-op"
  | _ => "bad-op"

def parseStep (toks : List String) : Option Step :=
  match toks with
  | ["v", p, op] => match p.toNat?, parseOp op with
    | some p, some op => some (.view p op)
    | _, _ => none
  | ["w", t, bits] => match t.toNat?, parseBits bits with
    | some t, some b => some (.wr t b)
    | _, _ => none
  | ["cs", t, s] => match t.toNat?, s.toNat? with
    | some t, some s => some (.copySeq t s)
    | _, _ => none
  | ["cn", t, s, m] => match t.toNat?, s.toNat? with
    | some t, some s => if m = "z" then some (.copySnap t s false) else if m = "s" then some (.copySnap t s true) else none
    | _, _ => none
  | ["x"] => some .rejected
  | _ => none

def showSess (σ : Sess) : String :=
  showBits σ.store ++ ":" ++ joinWith "," (σ.shown.map (fun o => match o with | some b => showBits b | none => "-"))

def handleSess (toks : List String) : String :=
  match toks with
  | vt :: init :: rest =>
    match parseVT vt, parseBits init, ((splitOn "/" rest).filter (· ≠ [])).mapM parseStep with
    | some vt, some init, some steps =>
      if init.isEmpty then "bad-op" else
      let (_, out) := steps.foldl (fun (acc : Sess × List String) st =>
        let (σ', ok) := acc.1.step st
        (σ', acc.2 ++ [(if ok then "ok" else "reject") ++ ":" ++ showSess σ'])) (Sess.init vt init, [])
      joinWith ";" out
    | _, _, _ => "bad-op"
  | _ => "bad-op"

def handle : List String → String
  | "hist" :: toks => handleHist toks
  | "view" :: toks => handleView toks
  | "wr" :: toks => handleWrite toks
  | "sess" :: toks => handleSess toks
  | _ => "bad-op"

end CohdlVerif.C13
