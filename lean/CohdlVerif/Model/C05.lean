/-
  C05 - type conversions on assignment: executable mirror of cohdl's accept/reject decision, the cast
  chosen by the VHDL back end, and the independent specification taken from the property sentence.

  Mirrors (M-mirror, tied to /repo by harness/c05.py):
    `assignFront`  = `_assign` of Bit / _Boolean / BitVector / Unsigned / Signed / Integer
                     (cohdl/_core/_bit.py, _boolean.py, _bit_vector.py, _unsigned.py, _signed.py, _integer.py), called as
                     trial assignment by the setter replacements of cohdl/_core/_type_qualifier.py
    `initFront`    = the `__init__` methods of the same classes (used by `_Redirect`, `_try_join`, declarations)
    `castModel`    = `VhdlScope.format_cast` (cohdl/_compiler/backend/vhdl/_vhdl_repr.py), `none` = AssertionError
    `tryJoin`      = `_try_join` (cohdl/_compiler/frontend/_value_branch.py)
    `assignOk`     = front-end check and back-end cast both succeed, per assignment form
  Specification (independent of the code):
    `allowed` / `mustReject` / `grey`  = the sentence of property C05, `convert` = the mathematical conversion.

  Values are canonical integers: bit/bool 0|1, bv/uns the natural number of the bit pattern, sgn the two's
  complement number, int the number.  numeric_std is modelled arithmetically on (kind, width, pattern).
  Import-free: compiled into the driver.
-/
namespace CohdlVerif.C05

inductive Ty where
  | bit | bool | bv (n : Nat) | uns (n : Nat) | sgn (n : Nat) | int
  deriving Repr, DecidableEq

/-- right-hand sides: a run-time object (signal / port / variable / temporary) of a type, or a Python literal -/
inductive Src where
  | rt (t : Ty)
  | lit (k : Int)            -- Python int literal
  | blit (b : Bool)          -- Python True / False  (an `int` for isinstance)
  | null | full
  | str (bits : List Bool)   -- "0101": most significant bit first, as written
  deriving Repr, DecidableEq

inductive Kind where | bv | uns | sgn
  deriving Repr, DecidableEq

/-- assignment forms.  `assign` = `<<=` `.next` `^=` `.push` `@=` `.value` (all run the same trial `_assign`);
    `sub k` = slice / element target of a root vector of kind k (the target type is bv n / bit);
    `view k` = target is the `.unsigned/.signed/.bitvector` view of a root vector of kind k;
    `init` = `Signal[T](v)` / `Variable[T](v)` inside a synthesizable context;
    `portIn` / `portOut` = connection of an input / output port of type T in an entity instantiation. -/
inductive Form where
  | assign | sub (root : Kind) | view (root : Kind) | init | portIn | portOut
  deriving Repr, DecidableEq

def Ty.isVec : Ty → Bool
  | .bv _ | .uns _ | .sgn _ => true
  | _ => false

def Ty.width : Ty → Nat
  | .bv n | .uns n | .sgn n => n
  | _ => 1

def mkVec : Kind → Nat → Ty
  | .bv, n => .bv n | .uns, n => .uns n | .sgn, n => .sgn n

/-! ## ranges -/

abbrev unsMax (n : Nat) : Int := 2 ^ n - 1
abbrev sgnMin (n : Nat) : Int := -(2 ^ (n - 1))
abbrev sgnMax (n : Nat) : Int := 2 ^ (n - 1) - 1

/-- the canonical values of a type -/
def inRange : Ty → Int → Bool
  | .bit, x | .bool, x => x == 0 || x == 1
  | .bv n, x | .uns n, x => 0 ≤ x && x ≤ unsMax n
  | .sgn n, x => sgnMin n ≤ x && x ≤ sgnMax n
  | .int, _ => true

def strVal : List Bool → Nat
  | bs => bs.foldl (fun acc b => 2 * acc + (if b then 1 else 0)) 0

/-- two's complement reading of an n-bit pattern -/
def twos (n : Nat) (p : Int) : Int := if p < 2 ^ (n - 1) then p else p - 2 ^ n

/-! ## front end: `_assign` (trial assignment on placeholder values) -/

/-- mirror of the `_assign` methods.  A run-time Integer has placeholder value 0 at compile time, so the
    range assertions `0 <= other <= max` pass for it (quirk kept). -/
def assignFront : Ty → Src → Bool
  -- Bit._assign = BitState.construct
  | .bit, .rt .bit | .bit, .rt .bool | .bit, .rt .int => true
  | .bit, .rt _ => false
  | .bit, .lit k => k == 0 || k == 1
  | .bit, .blit _ | .bit, .null | .bit, .full => true
  | .bit, .str bs => bs.length == 1
  -- _Boolean._assign: str in ("0","1"); int in (0,1); else bool(other)
  | .bool, .str bs => bs.length == 1
  | .bool, .lit k => k == 0 || k == 1
  | .bool, _ => true
  -- BitVector._assign
  | .bv _, .null | .bv _, .full => true
  | .bv n, .str bs => bs.length == n
  | .bv n, .rt (.bv m) | .bv n, .rt (.uns m) | .bv n, .rt (.sgn m) => n == m
  | .bv _, _ => false
  -- Unsigned._assign
  | .uns _, .rt .int => true
  | .uns n, .lit k => 0 ≤ k && k ≤ unsMax n
  | .uns n, .blit b => (if b then 1 else 0) ≤ unsMax n
  | .uns n, .rt (.uns m) => m ≤ n
  | .uns _, .rt (.sgn _) => false
  | .uns n, .rt (.bv m) => n == m
  | .uns n, .str bs => bs.length == n
  | .uns _, .null | .uns _, .full => true
  | .uns _, _ => false
  -- Signed._assign
  | .sgn _, .rt .int => true
  | .sgn n, .lit k => sgnMin n ≤ k && k ≤ sgnMax n
  | .sgn n, .blit b => (if b then 1 else 0) ≤ sgnMax n
  | .sgn n, .rt (.sgn m) => m ≤ n
  | .sgn n, .rt (.uns m) => m < n
  | .sgn n, .rt (.bv m) => n == m
  | .sgn n, .str bs => bs.length == n
  | .sgn _, .null | .sgn _, .full => true
  | .sgn _, _ => false
  -- Integer._assign
  | .int, .rt .int | .int, .rt (.uns _) | .int, .rt (.sgn _) => true
  | .int, .lit _ | .int, .blit _ => true
  | .int, _ => false

/-- mirror of the `__init__` methods (`T(value)`): used by `_Redirect`, `_try_join` and declarations.
    Differences to `_assign`: `_Boolean(x) = bool(x)` accepts everything; `Integer(Null)` is 0. -/
def initFront : Ty → Src → Bool
  | .bool, _ => true
  | .int, .null => true
  | .int, .rt (.uns _) | .int, .rt (.sgn _) => false     -- Integer.__init__ asserts isinstance(val, (int, Integer))
  | t, s => assignFront t s

/-! ## back end: the emitted VHDL cast -/

inductive VKind where | slv | uns | sgn
  deriving Repr, DecidableEq

/-- VHDL values: `vec k w p` is a vector of kind k, width w and bit pattern p (a natural number < 2^w) -/
inductive VVal where
  | sl (b : Bool) | bool (b : Bool) | int (i : Int) | vec (k : VKind) (w : Nat) (p : Nat) | err
  deriving Repr, DecidableEq

/-- the expressions `format_cast` can wrap around the source expression `x` -/
inductive VExpr where
  | x
  | resize (e : VExpr) (w : Nat)
  | toUnsigned (e : VExpr) (w : Nat)
  | toSigned (e : VExpr) (w : Nat)
  | asUns (e : VExpr) | asSgn (e : VExpr) | asSlv (e : VExpr)     -- unsigned(.) signed(.) std_logic_vector(.)
  | boolToSl (e : VExpr)                                           -- cohdl_bool_to_std_logic(.)
  | eqOne (e : VExpr)                                              -- . = '1'
  | neZero (e : VExpr)                                             -- (. /= 0)  |  (. /= "00..0")
  | toInteger (e : VExpr)
  deriving Repr, DecidableEq

def vkind : Kind → VKind
  | .bv => .slv | .uns => .uns | .sgn => .sgn

/-- numeric_std.resize: unsigned keeps the low bits / pads zeros; signed keeps the sign bit and the w-1 low
    bits / pads with the sign bit -/
def vresize (k : VKind) (w p w' : Nat) : VVal :=
  match k with
  | .slv => .err
  | .uns => .vec .uns w' (p % 2 ^ w')
  | .sgn =>
    if w ≤ w' then
      .vec .sgn w' (if p < 2 ^ (w - 1) then p else p + 2 ^ w' - 2 ^ w)
    else
      .vec .sgn w' ((if p < 2 ^ (w - 1) then 0 else 2 ^ (w' - 1)) + p % 2 ^ (w' - 1))

def evalV : VExpr → VVal → VVal
  | .x, v => v
  | .resize e w', v => match evalV e v with
      | .vec k w p => vresize k w p w'
      | _ => .err
  | .toUnsigned e w, v => match evalV e v with
      | .int i => if 0 ≤ i then .vec .uns w (i.toNat % 2 ^ w) else .err     -- natural range
      | _ => .err
  | .toSigned e w, v => match evalV e v with
      | .int i => .vec .sgn w (i % 2 ^ w).toNat                              -- truncates (with a warning)
      | _ => .err
  | .asUns e, v => match evalV e v with
      | .vec _ w p => .vec .uns w p
      | _ => .err
  | .asSgn e, v => match evalV e v with
      | .vec _ w p => .vec .sgn w p
      | _ => .err
  | .asSlv e, v => match evalV e v with
      | .vec _ w p => .vec .slv w p
      | _ => .err
  | .boolToSl e, v => match evalV e v with
      | .bool b => .sl b
      | _ => .err
  | .eqOne e, v => match evalV e v with
      | .sl b => .bool b
      | _ => .err
  | .neZero e, v => match evalV e v with
      | .vec _ _ p => .bool (p != 0)
      | .int i => .bool (i != 0)
      | _ => .err
  | .toInteger e, v => match evalV e v with
      | .vec .uns _ p => .int p
      | .vec .sgn w p => .int (twos w p)
      | _ => .err

/-- mirror of `format_cast(target, value, value_str)` for a run-time source of type `s`:
    `t` = `target_type` (type of the assigned object, a view or slice type where applicable),
    `vt` = `vhdl_target_type` (type of the declared VHDL object behind it).  `none` = AssertionError. -/
def castModel (vt t s : Ty) : Option VExpr :=
  match t with
  | .bit => match s with
      | .bit => some .x
      | .bool => some (.boolToSl .x)
      | _ => none
  | .bool => match s with
      | .bool => some .x
      | .bit => some (.eqOne .x)
      | .uns _ | .sgn _ | .bv _ | .int => some (.neZero .x)
  | .int => match s with
      | .int => some .x
      | .uns _ | .sgn _ => some (.toInteger .x)
      | _ => none
  | .bv tw | .uns tw | .sgn tw =>
    match s with
    | .int =>
      match t with
      | .uns _ => match vt with
          | .uns _ => some (.toUnsigned .x tw)
          | .sgn _ => some (.asSgn (.asSlv (.toUnsigned .x tw)))
          | _ => some (.asSlv (.toUnsigned .x tw))
      | .sgn _ => match vt with
          | .sgn _ => some (.toSigned .x tw)
          | .uns _ => some (.asUns (.asSlv (.toSigned .x tw)))
          | _ => some (.asSlv (.toSigned .x tw))
      | _ => none
    | .bit | .bool => none
    | .uns sw =>
      match vt with
      | .uns _ => if tw == sw then some .x else if sw < tw then some (.resize .x tw) else none
      | .sgn _ => match t with
          | .uns _ => if tw == sw then some (.asSgn (.asSlv .x)) else if sw < tw then some (.asSgn (.asSlv (.resize .x tw))) else none
          | .sgn _ => if sw ≤ tw then some (.asSgn (.asSlv (.resize .x tw))) else none
          | _ => if tw == sw then some (.asSgn (.asSlv .x)) else none
      | _ => match t with
          | .uns _ => if tw == sw then some (.asSlv .x) else if sw < tw then some (.asSlv (.resize .x tw)) else none
          | .sgn _ => if sw < tw then some (.asSlv (.resize .x tw)) else none
          | _ => if tw == sw then some (.asSlv .x) else none
    | .sgn sw =>
      match vt with
      | .uns _ => match t with
          | .sgn _ => if tw == sw then some (.asUns (.asSlv .x)) else if sw < tw then some (.asUns (.asSlv (.resize .x tw))) else none
          | _ => if tw == sw then some (.asUns (.asSlv .x)) else none
      | .sgn _ => if tw == sw then some .x else if sw < tw then some (.resize .x tw) else none
      | _ => match t with
          | .sgn _ => if tw == sw then some (.asSlv .x) else if sw < tw then some (.asSlv (.resize .x tw)) else none
          | .uns _ => none
          | _ => if tw == sw then some (.asSlv .x) else none
    | .bv sw =>
      match vt with
      | .uns _ => if tw == sw then some (.asUns .x) else none
      | .sgn _ => if tw == sw then some (.asSgn .x) else none
      | _ => if tw == sw then some .x else none

/-- the VHDL object type behind a target of type `t` assigned through form `f` -/
def vhdlTarget (f : Form) (t : Ty) : Ty :=
  match f, t with
  | .sub k, .bv n => mkVec k n
  | .view k, .bv n | .view k, .uns n | .view k, .sgn n => mkVec k n
  | _, t => t

/-! ## acceptance per form -/

/-- constants of non-primitive sources are converted by the front end to a constant of the target type and
    printed by `format_literal(vhdl_target_type(value))`: the root type must be constructible from it -/
def literalBackOk (vt t : Ty) : Bool :=
  match vt, t with
  | .uns _, .sgn _ | .sgn _, .uns _ => false
  | _, _ => true

def backOk (f : Form) (t : Ty) : Src → Bool
  | .rt s => (castModel (vhdlTarget f t) t s).isSome
  | _ => literalBackOk (vhdlTarget f t) t

/-- the accept / reject decision of the compiler (after the proposed fixes C05-declaration-trial-init and
    C05-port-connection-type, see notes/C05.md):
    * every assignment form runs the trial `_assign`, then the back end must find a cast;
    * declarations with an initial value run the trial construction `T(value)` (for run-time values: vector
      targets only - that is the proposed fix; scalars are left to the back end);
    * a port can only be connected to an object of exactly the port's type (the port map has no cast). -/
def assignOk (f : Form) (t : Ty) (s : Src) : Bool :=
  match f with
  | .assign | .sub _ | .view _ => assignFront t s && backOk f t s
  | .init => match s with
      | .rt _ => (if t.isVec then initFront t s else true) && backOk f t s
      | _ => initFront t s && backOk f t s
  | .portIn | .portOut => match s with
      | .rt st => st == t && assignFront t s
      | _ => false

/-- the decision of the UNPATCHED tree for the two defective forms (kept for the correspondence report):
    declarations do not run any front-end check for run-time sources; port connections run `port <<= actual`
    whatever the direction (for outputs the data flows the other way). -/
def assignOkUnpatched (f : Form) (t : Ty) (s : Src) : Bool :=
  match f, s with
  | .init, .rt _ => backOk f t s
  | .portIn, .rt _ => assignFront t s
  | .portOut, .rt st => assignFront st (.rt t)
  | .portIn, _ | .portOut, _ => false
  | _, _ => assignOk f t s

/-! ## `_try_join` -/

/-- decayed type of a merge option as `_try_join` sees it (`none`: not a primitive, not a bool: int / str literal) -/
def joinStart : Src → Option Ty
  | .rt t => some t
  | .blit _ => some .bool
  | _ => none

/-- one step of the first loop of `_try_join`: `none` = "incompatible branches, return early".
    `isinstance(result_type, Signed)` is applied to a CLASS there and is always False, so vectors join only at
    equal width and keep the first type (quirk kept). -/
def joinStep (r : Option Ty) (o : Src) : Option (Option Ty) :=
  match r with
  | none => some (joinStart o)
  | some .bit => match o with
      | .rt .bit | .rt .bool | .blit _ => some r
      | _ => none
  | some .bool => match o with
      | .rt .bit => some (some .bit)
      | .rt .bool | .blit _ => some r
      | _ => none
  | some rt => match o with
      | .rt ot => if rt.isVec && ot.isVec then (if rt.width == ot.width then some r else none) else some r
      | _ => some r

def tryJoin (opts : List Src) : Option Ty :=
  if opts.any (fun o => o == .null || o == .full) then none else
  match opts.foldl (fun acc o => acc.bind (fun r => joinStep r o)) (some none) with
  | some (some r) => if opts.all (initFront r) then some r else none
  | _ => none

/-- acceptance of `target <<= merge(options)` (if-expression, function return, select_with):
    joined: every option is redirected into a temporary of the join type (checked by `T(option)`), the temporary is
    assigned; not joined: every option is redirected into the target itself. -/
def mergeJoin (t : Ty) (opts : List Src) : Bool :=
  match tryJoin opts with
  | some r => opts.all (fun o => initFront r o && backOk .assign r o) && assignOk .assign t (.rt r)
  | none => opts.all (fun o => initFront t o && backOk .assign t o)

def Src.isLit : Src → Bool
  | .rt _ => false
  | _ => true

/-- `_MergedBranch.__new__`: when every branch yields the very same Python object (equal literals are one constant)
    there is nothing to merge -/
def sameLiteral : List Src → Option Src
  | a :: rest => if a.isLit && rest.all (· == a) then some a else none
  | [] => none

def mergeOk (t : Ty) (opts : List Src) : Bool :=
  match sameLiteral opts with
  | some a => assignOk .assign t a          -- the plain assignment
  | none => mergeJoin t opts

/-- `a if c else (b if c2 else d)`: the inner if-expression is merged first; when it is joined the outer merge sees a
    temporary of the join type, otherwise a `_MergedBranch` object that can never be joined with `a`, and all three
    options are redirected into the target. -/
def nestedOk (t : Ty) (a b d : Src) : Bool :=
  match sameLiteral [b, d] with
  | some l => mergeOk t [a, l]
  | none =>
    match tryJoin [b, d] with
    | some r => [b, d].all (fun o => initFront r o && backOk .assign r o) && mergeOk t [a, .rt r]
    | none => [a, b, d].all (fun o => initFront t o && backOk .assign t o)

/-! ## specification: the sentence of the property -/

def litOf : Src → Option Int
  | .lit k => some k
  | .blit b => some (if b then 1 else 0)
  | _ => none

/-- conversions the property lists as value preserving -/
def allowed : Ty → Src → Bool
  -- Unsigned to an equal or wider Unsigned zero-extends
  | .uns n, .rt (.uns m) => m ≤ n
  -- Signed to an equal or wider Signed sign-extends
  | .sgn n, .rt (.sgn m) => m ≤ n
  -- Unsigned to a strictly wider Signed keeps the number
  | .sgn n, .rt (.uns m) => m < n
  -- equal-width BitVector to or from Signed/Unsigned (and BitVector) copies the bits
  | .bv n, .rt (.bv m) | .bv n, .rt (.uns m) | .bv n, .rt (.sgn m) => n == m
  | .uns n, .rt (.bv m) | .sgn n, .rt (.bv m) => n == m
  -- Bit/bool conversions map true to '1'
  | .bit, .rt .bit | .bit, .rt .bool | .bool, .rt .bit | .bool, .rt .bool => true
  | .bit, .blit _ | .bool, .blit _ => true
  -- Null/Full fill with zeros/ones
  | .bit, .null | .bit, .full | .bv _, .null | .bv _, .full => true
  | .uns _, .null | .uns _, .full | .sgn _, .null | .sgn _, .full => true
  -- integer literals must be representable in the target
  | .bit, .lit k | .bool, .lit k => k == 0 || k == 1
  | .uns n, .lit k => inRange (.uns n) k
  | .sgn n, .lit k => inRange (.sgn n) k
  | .uns n, .blit b => inRange (.uns n) (if b then 1 else 0)
  | .sgn n, .blit b => inRange (.sgn n) (if b then 1 else 0)
  | .int, .lit _ | .int, .blit _ => true
  -- bit-string literals are vector literals: equal width copies the bits
  | .bv n, .str bs | .uns n, .str bs | .sgn n, .str bs => bs.length == n
  | .bit, .str bs => bs.length == 1
  -- numbers into the unbounded integer keep the number
  | .int, .rt .int | .int, .rt (.uns _) | .int, .rt (.sgn _) => true
  | _, _ => false

/-- pairs the property names as compile-time errors -/
def mustReject : Ty → Src → Bool
  -- narrowing
  | .uns n, .rt (.uns m) => n < m
  | .sgn n, .rt (.sgn m) => n < m
  -- Signed<->Unsigned of equal width without a view; wider sources are narrowing; a Signed never fits an Unsigned
  | .sgn n, .rt (.uns m) => n ≤ m
  | .uns _, .rt (.sgn _) => true
  -- any width-mismatched BitVector assignment
  | .bv n, .rt (.bv m) | .bv n, .rt (.uns m) | .bv n, .rt (.sgn m) => n != m
  | .uns n, .rt (.bv m) | .sgn n, .rt (.bv m) => n != m
  | .bv n, .str bs | .uns n, .str bs | .sgn n, .str bs => bs.length != n
  -- Bit<->vector
  | .bit, .rt (.bv _) | .bit, .rt (.uns _) | .bit, .rt (.sgn _) => true
  | .bv _, .rt .bit | .uns _, .rt .bit | .sgn _, .rt .bit => true
  -- integer literals that are not representable
  | .bit, .lit k => !(k == 0 || k == 1)
  | .uns n, .lit k => !inRange (.uns n) k
  | .sgn n, .lit k => !inRange (.sgn n) k
  | .uns n, .blit b => !inRange (.uns n) (if b then 1 else 0)
  | .sgn n, .blit b => !inRange (.sgn n) (if b then 1 else 0)
  | _, _ => false

/-- pairs about which the sentence says nothing (documented in notes/C05.md): Python truthiness into bool,
    run-time Integer sources, vectors <- bool, Integer <- non-numbers, literals into BitVector, odd strings -/
def grey (t : Ty) (s : Src) : Bool := !allowed t s && !mustReject t s

/-- the mathematical conversion on canonical values (source type `s`, value `x`), for `allowed` pairs and the
    truthiness conversions: numbers keep the number, BitVector involvement copies the bit pattern -/
def convert (t s : Ty) (x : Int) : Int :=
  match t, s with
  | .bool, .bv _ | .bool, .uns _ | .bool, .sgn _ | .bool, .int => if x = 0 then 0 else 1   -- truthiness (grey)
  | .bv n, .sgn _ => x % 2 ^ n           -- bit pattern of the two's complement number
  | .sgn n, .bv _ => twos n x            -- the pattern read as two's complement
  | _, _ => x

/-- value of a literal source in target type t -/
def convertLit (t : Ty) : Src → Option Int
  | .lit k => some (match t with | .bool => (if k = 0 then 0 else 1) | _ => k)
  | .blit b => some (if b then 1 else 0)
  | .null => some 0
  | .full => some (match t with
      | .bit | .bool => 1
      | .bv n | .uns n => 2 ^ n - 1
      | .sgn _ => -1
      | .int => 0)
  | .str bs => match t with
      | .sgn n => some (twos n (strVal bs))
      | .bool | .int => none                -- the sentence defines no value for a bit string in a bool / Integer
      | _ => some (strVal bs)
  | .rt _ => none

/-! ## encoding of canonical values as VHDL values, decoding through the target's type -/

def encode : Ty → Int → VVal
  | .bit, x => .sl (x != 0)
  | .bool, x => .bool (x != 0)
  | .int, x => .int x
  | .bv n, x => .vec .slv n x.toNat
  | .uns n, x => .vec .uns n x.toNat
  | .sgn n, x => .vec .sgn n (x % 2 ^ n).toNat

/-- canonical value of a VHDL value read through (view / slice / declared) type t -/
def decodeAs : Ty → VVal → Option Int
  | .bit, .sl b => some (if b then 1 else 0)
  | .bool, .bool b => some (if b then 1 else 0)
  | .int, .int i => some i
  | .bv n, .vec _ w p | .uns n, .vec _ w p => if w = n then some p else none
  | .sgn n, .vec _ w p => if w = n then some (twos n p) else none
  | _, _ => none

/-- VHDL kind a value must have to be assignable to an object declared with type vt -/
def vhdlWellTyped : Ty → VVal → Bool
  | .bit, .sl _ | .bool, .bool _ | .int, .int _ => true
  | .bv n, .vec .slv w _ | .uns n, .vec .uns w _ | .sgn n, .vec .sgn w _ => w == n
  | _, _ => false

/-! ## value model of assignments and merges (what the emitted code computes) -/

/-- canonical value an object of type t receives from source s whose run-time value is x (`none`: rejected / no cast).
    Run-time sources go through the printed cast; literals become the constant `T(literal)` built by the front end. -/
def assignValue (t : Ty) (s : Src) (x : Int) : Option Int :=
  match s with
  | .rt st => (castModel t t st).bind (fun e => decodeAs t (evalV e (encode st x)))
  | l => convertLit t l

/-- value the target receives when alternative `o` of a merge is taken with run-time value x: joined merges write a
    temporary of the join type first (`temp <= cast(o); target <= cast(temp)`), unjoined ones write the target. -/
def mergeValue (t : Ty) (opts : List Src) (o : Src) (x : Int) : Option Int :=
  match sameLiteral opts with
  | some a => assignValue t a x
  | none =>
    match tryJoin opts with
    | some r => (assignValue r o x).bind (fun y => assignValue t (.rt r) y)
    | none => assignValue t o x

/-! ## line protocol
    `ok FORM T SRC`            -> 1 | 0                (assignOk, fixed behaviour)
    `ok0 FORM T SRC`           -> 1 | 0                (assignOkUnpatched)
    `front T SRC` `initf T SRC` -> 1 | 0               (assignFront / initFront: the Python-level `_assign` / `T(v)`)
    `spec T SRC`               -> allowed | reject | grey
    `merge T SRC SRC+`         -> 1 | 0                (flat merge of two or more options)
    `nested T SRC SRC SRC`     -> 1 | 0                (`a if c else (b if c2 else d)`)
    `join SRC SRC+`            -> type token | none
    `mergeval T i x SRC SRC+`  -> integer | none      (mergeValue: alternative i taken with value x)
    `conv T S x`               -> integer              (convert, run-time source of type S)
    `convlit T SRC`            -> integer | none
    `cast FORM T S x`          -> integer | err | none (value of the cast chosen by castModel, read through T)
    FORM = assign | sub_K | view_K | init | port_in | port_out ; T,S = bit bool int bvN unsN sgnN ;
    SRC = rt:S | lit:K | blit:0|1 | null | full | str:BITS
-/

def parseKind : String → Option Kind
  | "bv" => some .bv | "uns" => some .uns | "sgn" => some .sgn | _ => none

def parseTy (s : String) : Option Ty :=
  if s == "bit" then some .bit else if s == "bool" then some .bool else if s == "int" then some .int
  else
    let pre := s.take 3 |>.toString
    let pre2 := s.take 2 |>.toString
    if pre == "uns" then (s.drop 3).toString.toNat?.map .uns
    else if pre == "sgn" then (s.drop 3).toString.toNat?.map .sgn
    else if pre2 == "bv" then (s.drop 2).toString.toNat?.map .bv
    else none

def parseBits (s : String) : Option (List Bool) :=
  s.toList.mapM (fun c => if c == '0' then some false else if c == '1' then some true else none)

def parseSrc (s : String) : Option Src :=
  if s == "null" then some .null else if s == "full" then some .full else
  match s.splitOn ":" with
  | ["rt", t] => (parseTy t).map .rt
  | ["lit", k] => k.toInt?.map .lit
  | ["blit", "0"] => some (.blit false)
  | ["blit", "1"] => some (.blit true)
  | ["str", b] => (parseBits b).map .str
  | _ => none

def parseForm (s : String) : Option Form :=
  match s.splitOn "_" with
  | ["assign"] => some .assign
  | ["init"] => some .init
  | ["port", "in"] => some .portIn
  | ["port", "out"] => some .portOut
  | ["sub", k] => (parseKind k).map .sub
  | ["view", k] => (parseKind k).map .view
  | _ => none

def showTy : Ty → String
  | .bit => "bit" | .bool => "bool" | .int => "int"
  | .bv n => s!"bv{n}" | .uns n => s!"uns{n}" | .sgn n => s!"sgn{n}"

def b01 (b : Bool) : String := if b then "1" else "0"

def handle : List String → String
  | ["ok", f, t, s] => match parseForm f, parseTy t, parseSrc s with
      | some f, some t, some s => b01 (assignOk f t s)
      | _, _, _ => "bad-op"
  | ["ok0", f, t, s] => match parseForm f, parseTy t, parseSrc s with
      | some f, some t, some s => b01 (assignOkUnpatched f t s)
      | _, _, _ => "bad-op"
  | ["front", t, s] => match parseTy t, parseSrc s with
      | some t, some s => b01 (assignFront t s)
      | _, _ => "bad-op"
  | ["initf", t, s] => match parseTy t, parseSrc s with
      | some t, some s => b01 (initFront t s)
      | _, _ => "bad-op"
  | ["spec", t, s] => match parseTy t, parseSrc s with
      | some t, some s => if allowed t s then "allowed" else if mustReject t s then "reject" else "grey"
      | _, _ => "bad-op"
  | "merge" :: t :: srcs => match parseTy t, srcs.mapM parseSrc with
      | some t, some (a :: b :: rest) => b01 (mergeOk t (a :: b :: rest))
      | _, _ => "bad-op"
  | ["nested", t, a, b, d] => match parseTy t, parseSrc a, parseSrc b, parseSrc d with
      | some t, some a, some b, some d => b01 (nestedOk t a b d)
      | _, _, _, _ => "bad-op"
  | "join" :: srcs => match srcs.mapM parseSrc with
      | some (a :: b :: rest) => (match tryJoin (a :: b :: rest) with | some r => showTy r | none => "none")
      | _ => "bad-op"
  | "mergeval" :: t :: ci :: x :: srcs => match parseTy t, ci.toNat?, x.toInt?, srcs.mapM parseSrc with
      | some t, some ci, some x, some opts => match opts[ci]? with
          | some o => (match mergeValue t opts o x with | some v => toString v | none => "none")
          | none => "bad-op"
      | _, _, _, _ => "bad-op"
  | ["conv", t, s, x] => match parseTy t, parseTy s, x.toInt? with
      | some t, some s, some x => toString (convert t s x)
      | _, _, _ => "bad-op"
  | ["convlit", t, s] => match parseTy t, parseSrc s with
      | some t, some s => match convertLit t s with | some v => toString v | none => "none"
      | _, _ => "bad-op"
  | ["cast", f, t, s, x] => match parseForm f, parseTy t, parseTy s, x.toInt? with
      | some f, some t, some s, some x =>
        match castModel (vhdlTarget f t) t s with
        | none => "none"
        | some e => match decodeAs t (evalV e (encode s x)) with
            | some v => if vhdlWellTyped (vhdlTarget f t) (evalV e (encode s x)) then toString v else "err"
            | none => "err"
      | _, _, _, _ => "bad-op"
  | _ => "bad-op"

end CohdlVerif.C05
