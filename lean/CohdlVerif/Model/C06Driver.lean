import CohdlVerif.Model.C06

/-
  Line protocol of the C06 model driver.
  name  = code points in decimal joined by `.`   (`e` = the empty name)
  list  = names joined by `,`                    (`-` = the empty list)
  requests:
    pick <base> <used-list>                      -> name          (`VhdlScope.complete_setup` collision search)
    san <empty> <pre> <name>                     -> name          (sanitising with the compiler's two spellings)
    goodcfg <empty> <pre>                        -> 1 | 0
    valid <name>                                 -> 1 | 0         (VHDL basic identifier)
    lower <name>                                 -> name
    raw <override|-> <hint|-> <fallback|->       -> name | reject
    assign <empty> <pre> <reserved> <additional> <module> <entity> <archReserved> <arch> <proc>*
                                                 -> <module> <entity> <arch> <proc>*   (assigned names)
-/
namespace CohdlVerif.C06

def parseName (s : String) : Option Name :=
  if s == "e" then some []
  else (s.splitOn ".").mapM (fun t => t.toNat?.map Char.ofNat)

def parseList (s : String) : Option (List Name) :=
  if s == "-" then some [] else (s.splitOn ",").mapM parseName

def showName (n : Name) : String :=
  if n.isEmpty then "e" else ".".intercalate (n.map (fun c => toString c.toNat))

def showList (l : List Name) : String :=
  if l.isEmpty then "-" else ",".intercalate (l.map showName)

def parseOpt (s : String) : Option (Option Name) :=
  if s == "-" then some none else (parseName s).map some

def handle : List String → String
  | ["pick", b, u] =>
      match parseName b, parseList u with
      | some b, some u => showName (pick u b)
      | _, _ => "bad-op"
  | ["san", e, pre, n] =>
      match parseName e, parseName pre, parseName n with
      | some e, some pre, some n => showName (sanitizeWith ⟨e, pre⟩ n)
      | _, _, _ => "bad-op"
  | ["goodcfg", e, pre] =>
      match parseName e, parseName pre with
      | some e, some pre => if goodCfg ⟨e, pre⟩ then "1" else "0"
      | _, _ => "bad-op"
  | ["valid", n] => match parseName n with | some n => (if basicId n then "1" else "0") | none => "bad-op"
  | ["lower", n] => match parseName n with | some n => showName (lower n) | none => "bad-op"
  | ["raw", o, h, f] =>
      match parseOpt o, parseOpt h, parseOpt f with
      | some o, some h, some f =>
          match chooseRaw ⟨o, h, f⟩ with
          | some n => showName n
          | none => "reject"
      | _, _, _ => "bad-op"
  | "assign" :: ce :: cp :: r :: ad :: m :: e :: ar :: a :: ps =>
      match parseName ce, parseName cp, parseList r, parseList ad, parseList m, parseList e, parseList ar, parseList a,
          ps.mapM parseList with
      | some ce, some cp, some r, some ad, some m, some e, some ar, some a, some ps =>
          let res := assignDesign ⟨⟨ce, cp⟩, r, ad, m, e, ar, a, ps⟩
          " ".intercalate ([showList res.moduleNames, showList res.entityNames, showList res.archNames]
            ++ res.procNames.map showList)
      | _, _, _, _, _, _, _, _, _ => "bad-op"
  | _ => "bad-op"

end CohdlVerif.C06
