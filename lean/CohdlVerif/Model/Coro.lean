/-
  C01 - coroutine -> state machine: output language (Code/Tree), reference semantics of coroutine bodies
  (Stmt/run/refStep), symbolic unfolding (unf), tree matching and the certificate checker `closed`.
  Import-free; compiled into the driver.  Theorems about these definitions are in Props/C01.lean.
-/
namespace CohdlVerif.C01

/-- VHDL-like sequential code in cons style. -/
inductive Code where
  | nil
  | act (a : Nat) (k : Code)
  | trans (s : Nat) (k : Code)
  | ite (c : Nat) (t e : Code) (k : Code)
  deriving Repr, DecidableEq

inductive Tree where
  | leaf (next : Option Nat)
  | act (a : Nat) (k : Tree)
  | ite (c : Nat) (t e : Tree)
  deriving Repr, DecidableEq

variable {σ : Type} (act : Nat → σ → σ) (cond : Nat → σ → Bool)

def exec : Code → σ → Option Nat → σ × Option Nat
  | .nil, s, p => (s, p)
  | .act a k, s, p => exec k (act a s) p
  | .trans t k, s, _ => exec k s (some t)
  | .ite c t e k, s, p =>
      let r := if cond c s then exec t s p else exec e s p
      exec k r.1 r.2

def runTree : Tree → σ → σ × Option Nat
  | .leaf n, s => (s, n)
  | .act a k, s => runTree k (act a s)
  | .ite c t e, s => if cond c s then runTree t s else runTree e s

def norm : Code → Option Nat → (Option Nat → Tree) → Tree
  | .nil, p, k => k p
  | .act a c, p, k => .act a (norm c p k)
  | .trans t c, _, k => norm c (some t) k
  | .ite c t e r, p, k =>
      .ite c (norm t p (fun p' => norm r p' k)) (norm e p (fun p' => norm r p' k))

/-- source coroutine bodies (post-inlining), cons style -/
inductive Stmt where
  | skip
  | act (a : Nat) (k : Stmt)
  | await (c : Option Nat) (k : Stmt)        -- none = `await true`
  | awaitF
  | ite (c : Nat) (t e : Stmt) (k : Stmt)
  | while_ (c : Option Nat) (body : Stmt) (k : Stmt)   -- none = `while True`
  | brk | cont | ret
  | call (body : Stmt) (k : Stmt)
  deriving Repr, DecidableEq

inductive Frame where
  | seq (k : Stmt)
  | loop (c : Option Nat) (body : Stmt) (k : Stmt)
  | callF (k : Stmt)
  deriving Repr, DecidableEq

/-- where a coroutine is parked between clocks -/
inductive Susp where
  | start                                        -- (re)start of the coroutine
  | atAwait (c : Option Nat) (k : Stmt) (st : List Frame)
  | atHead (c : Option Nat) (body : Stmt) (k : Stmt) (st : List Frame)
  | stopped
  deriving Repr, DecidableEq


def evalC (c : Option Nat) (s : σ) : Bool := match c with | none => true | some c => cond c s

/-- reference interpreter: run from statement `p` with stack `st` until the next suspension.
    `fresh` = nothing has been executed yet since (re)start. -/
def run : Nat → Stmt → List Frame → Bool → σ → Option (Susp × σ)
  | 0, _, _, _, _ => none
  | f+1, .skip, [], _, s => some (.start, s)
  | f+1, .skip, .seq k :: st, fr, s => run f k st fr s
  | f+1, .skip, .loop c b k :: st, _, s => some (.atHead c b k st, s)     -- back edge costs a clock
  | f+1, .skip, .callF k :: st, fr, s => run f k st fr s
  | f+1, .act a k, st, _, s => run f k st false (act a s)
  | f+1, .await c k, st, fr, s =>
      -- a fresh `await true` costs nothing and leaves the process fresh (the first state is still empty)
      if fr then (if evalC cond c s then run f k st c.isNone s else some (.atAwait c k st, s))
      else some (.atAwait c k st, s)
  | _+1, .awaitF, _, _, s => some (.stopped, s)
  | f+1, .ite c t e k, st, _, s =>
      if cond c s then run f t (.seq k :: st) false s else run f e (.seq k :: st) false s
  | f+1, .while_ c b k, st, fr, s =>
      if fr then (if evalC cond c s then run f b (.loop c b k :: st) false s else run f k st false s)
      else some (.atHead c b k st, s)
  | f+1, .brk, .loop _ _ k :: st, _, s => run f k st false s
  | f+1, .brk, _ :: st, fr, s => run f .brk st fr s
  | _+1, .brk, [], _, _ => none
  | f+1, .cont, .loop c b k :: st, _, s =>
      if evalC cond c s then run f b (.loop c b k :: st) false s else run f k st false s
  | f+1, .cont, _ :: st, fr, s => run f .cont st fr s
  | _+1, .cont, [], _, _ => none
  | f+1, .ret, .callF k :: st, fr, s => run f k st fr s      -- returning executes nothing: freshness is kept
  | f+1, .ret, _ :: st, fr, s => run f .ret st fr s
  | _+1, .ret, [], _, _ => none
  | f+1, .call b k, st, fr, s => run f b (.callF k :: st) fr s

/-- one clock of the reference semantics -/
def refStep (f : Nat) (prog : Stmt) : Susp → σ → Option (Susp × σ)
  | .start, s => run act cond f prog [] true s
  | .atAwait c k st, s => if evalC cond c s then run act cond f k st false s else some (.atAwait c k st, s)
  | .atHead c b k st, s =>
      if evalC cond c s then run act cond f b (.loop c b k :: st) false s else run act cond f k st false s
  | .stopped, s => some (.stopped, s)

/-- symbolic trees whose leaves are suspensions -/
inductive STree where
  | leaf (r : Susp)
  | act (a : Nat) (k : STree)
  | ite (c : Nat) (t e : STree)
  deriving Repr, DecidableEq

def runS : STree → σ → Susp × σ
  | .leaf r, s => (r, s)
  | .act a k, s => runS k (act a s)
  | .ite c t e, s => if cond c s then runS t s else runS e s

def iteC (c : Option Nat) (t e : STree) : STree := match c with | none => t | some c => .ite c t e

/-- the unfolding = symbolic execution of `run` -/
def unf : Nat → Stmt → List Frame → Bool → Option STree
  | 0, _, _, _ => none
  | _+1, .skip, [], _ => some (.leaf .start)
  | f+1, .skip, .seq k :: st, fr => unf f k st fr
  | _+1, .skip, .loop c b k :: st, _ => some (.leaf (.atHead c b k st))
  | f+1, .skip, .callF k :: st, fr => unf f k st fr
  | f+1, .act a k, st, _ => (unf f k st false).map (.act a)
  | f+1, .await c k, st, fr =>
      if fr then (unf f k st c.isNone).map (fun t => iteC c t (.leaf (.atAwait c k st)))
      else some (.leaf (.atAwait c k st))
  | _+1, .awaitF, _, _ => some (.leaf .stopped)
  | f+1, .ite c t e k, st, _ => do
      let a ← unf f t (.seq k :: st) false
      let b ← unf f e (.seq k :: st) false
      pure (.ite c a b)
  | f+1, .while_ c b k, st, fr =>
      if fr then do
        let x ← unf f b (.loop c b k :: st) false
        match c with
        | none => pure x
        | some c' => do let y ← unf f k st false; pure (.ite c' x y)
      else some (.leaf (.atHead c b k st))
  | f+1, .brk, .loop _ _ k :: st, _ => unf f k st false
  | f+1, .brk, _ :: st, fr => unf f .brk st fr
  | _+1, .brk, [], _ => none
  | f+1, .cont, .loop c b k :: st, _ => do
        let x ← unf f b (.loop c b k :: st) false
        match c with
        | none => pure x
        | some c' => do let y ← unf f k st false; pure (.ite c' x y)
  | f+1, .cont, _ :: st, fr => unf f .cont st fr
  | _+1, .cont, [], _ => none
  | f+1, .ret, .callF k :: st, fr => unf f k st fr
  | f+1, .ret, _ :: st, fr => unf f .ret st fr
  | _+1, .ret, [], _ => none
  | f+1, .call b k, st, fr => unf f b (.callF k :: st) fr


/-- unfolding of one clock from a suspension -/
def unfSusp (f : Nat) (prog : Stmt) : Susp → Option STree
  | .start => unf f prog [] true
  | .atAwait c k st => (unf f k st false).map (fun t => iteC c t (.leaf (.atAwait c k st)))
  | .atHead c b k st => do
      let x ← unf f b (.loop c b k :: st) false
      match c with
      | none => pure x
      | some c' => do let y ← unf f k st false; pure (.ite c' x y)
  | .stopped => some (.leaf .stopped)

/-- the emitted state machine: one code block per state; no executed transition = stay -/
structure SM where
  codes : List Code

def smStep (sm : SM) (i : Nat) (s : σ) : Nat × σ :=
  let r := exec act cond (sm.codes.getD i .nil) s none
  (r.2.getD i, r.1)

def matchT : STree → Tree → Nat → Option (List (Susp × Nat))
  | .leaf r, .leaf n, i => some [(r, n.getD i)]
  | .act a k, .act b k', i => if a = b then matchT k k' i else none
  | .ite c t e, .ite c' t' e', i =>
      if c = c' then do
        let x ← matchT t t' i
        let y ← matchT e e' i
        pure (x ++ y)
      else none
  | _, _, _ => none

/-- certificate check: `R` is closed under one clock -/
def closedAt (f : Nat) (prog : Stmt) (sm : SM) (R : List (Susp × Nat)) (p : Susp × Nat) : Bool :=
  match unfSusp f prog p.1 with
  | none => false
  | some st =>
    match matchT st (norm (sm.codes.getD p.2 .nil) none .leaf) p.2 with
    | none => false
    | some ps => ps.all (fun q => R.contains q)

def closed (f : Nat) (prog : Stmt) (sm : SM) (R : List (Susp × Nat)) : Bool :=
  R.contains (.start, 0) && R.all (closedAt f prog sm R)

/-- traces -/
def refTrace (f : Nat) (prog : Stmt) (inp : Nat → σ → σ) : Nat → Option (Susp × σ) → Option (Susp × σ)
  | 0, x => x
  | n+1, x => match refTrace f prog inp n x with
      | none => none
      | some (r, s) => refStep act cond f prog r (inp n s)

def smTrace (sm : SM) (inp : Nat → σ → σ) : Nat → Nat × σ → Nat × σ
  | 0, x => x
  | n+1, x => let y := smTrace sm inp n x; smStep act cond sm y.1 (inp n y.2)

end CohdlVerif.C01
