/-
  C20 - executable model of an AXI4-Lite register map built with `cohdl.std.axi.axi4_light`
  (`Axi4Light.connect_addr_map`, `await_read_request` / `send_read_resp` / `await_write_request` /
  `send_write_response` in cohdl/std/axi/axi4_light/base.py) over `cohdl.std.reg` (`_contains_addr_`,
  `_flatten_`, `Word` / `MemWord` / `Register` + field kinds / notifications / `AddrRange` in
  cohdl/std/reg/reg.py) and `apply_mask` / `stretch` (cohdl/std/_core_utility.py).

  * address decode: `containsAddr` mirrors `_contains_addr_` incl. the power-of-two fast path,
    `Entry.expand` / `flatten` mirror the global-offset computation of nested register files and arrays,
    `selectIdx` mirrors the `for reg in regs: if reg._contains_addr_(..): ...; break` dispatch.
  * storage: one `RegSt` per flattened register; values are 32-bit naturals, bit i of the natural = bit i
    of the register word.
  * the two slave processes `proc_read` / `proc_write` as explicit state machines (states = the awaits of
    the coroutines, derived from the coroutine source; the derivation is validated clock by clock against
    the compiled design by harness/c20.py).
  * `Cfg.fixed = true` is the behaviour of `Register._basic_write_` AFTER fixes/C20-register-write-mask.patch
    (byte strobes respected); `fixed = false` is the behaviour of the unpatched code (strobes ignored for
    field registers) - kept to state the defect as a theorem.

  Import-free: compiled into the driver.
-/
namespace CohdlVerif.C20

def M32 : Nat := 0xFFFFFFFF

/-- `std.is_pow_two`: `inp.bit_count() == 1` -/
def isPow2 (n : Nat) : Bool := n != 0 && 2 ^ Nat.log2 n == n

/-- mirror of `RegisterObject._contains_addr_` (`addr.msb(rest=k)` drops the k low bits) -/
def containsAddr (offset count addr : Nat) : Bool :=
  if isPow2 count && offset % count == 0 then
    addr >>> Nat.log2 count == offset / count
  else
    decide (offset ≤ addr) && decide (addr < offset + count)

/-- the specification of address containment -/
def inRange (offset count addr : Nat) : Prop := offset ≤ addr ∧ addr < offset + count

/-- `std.stretch(v, f)` of a `w`-bit vector: every bit repeated `f` times -/
def stretch : (w f v : Nat) → Nat
  | 0, _, _ => 0
  | w + 1, f, v => stretch w f v ||| (if v.testBit w then (2 ^ f - 1) <<< (f * w) else 0)

/-- `std.apply_mask(old, new, mask)` on 32-bit words: `(old & ~mask) | (new & mask)` -/
def applyMask (old new mask : Nat) : Nat := (old &&& (mask ^^^ M32)) ||| (new &&& mask)

/-! ## layout -/

inductive Kind where
  | word       -- reg32.Word / UWord / SWord: driven by hardware, software writes are ignored
  | memWord    -- reg32.MemWord / MemUWord / MemSWord: software storage with byte strobes
  | register   -- reg32.Register with fields
  | range      -- reg32.AddrRange subclass of the harness (relative read / write hooks)
  | output     -- reg32.Output: write-only, drives a (narrow) hardware signal at bits `memMask` of the word
  | input      -- reg32.Input: read-only view of a (narrow) hardware signal at bits `hwMask` of the word
  | memory     -- reg32.Memory (inline, MaskMode IMMEDIATE / SPLIT_WORDS): `count / 4` words with byte strobes
  deriving Repr, DecidableEq

/-- one flattened register (global byte offset) -/
structure Reg where
  kind : Kind
  offset : Nat            -- `_global_offset_`
  count : Nat             -- `_unit_count_()` (bytes)
  readable : Bool
  writable : Bool
  dflt : Nat              -- reset value of the software-written bits
  memMask : Nat           -- bits of MemField / MemUField / MemSField
  hwMask : Nat            -- bits of Field / UField / SField (driven by hardware)
  flagMask : Nat          -- bits of FlagField
  pushR : Bool            -- has a PushOnNotify.Read
  pushW : Bool
  flagR : Bool            -- has a FlagOnNotify.Read
  flagW : Bool
  tag : Nat               -- range: constant added to the relative address on reads
  deriving Repr, DecidableEq

/-- an entry of a (nested) layout as the harness writes it: the offsets of the enclosing register files
    (outermost first), the entry's own parent-relative offset, and for `reg32.Array[T, a:e:s]` the number
    of elements `n = len(range(a, e, s))` and the step.  A plain member has `n = 1`. -/
structure Entry where
  chain : List Nat
  off : Nat
  n : Nat
  stp : Nat
  reg : Reg               -- `reg.offset` is ignored (recomputed)
  deriving Repr

/-- `_global_offset_ = parent._global_offset_ + _parent_offset_`, applied along the chain; array element j
    sits at `array._global_offset_ + j * step` -/
def Entry.expand (e : Entry) : List Reg :=
  (List.range e.n).map fun j => { e.reg with offset := e.chain.sum + e.off + j * e.stp }

def flatten (es : List Entry) : List Reg := es.flatMap Entry.expand

/-- mirror of the dispatch loop in `connect_addr_map`: the first register of the filtered list that
    contains the address -/
def selectIdx (p : Reg → Bool) (regs : List Reg) (addr : Nat) : Option Nat :=
  regs.findIdx? fun r => p r && containsAddr r.offset r.count addr

/-! ## register storage -/

structure RegSt where
  mem : Nat := 0          -- MemWord.raw / bits of the mem fields / last masked data of a range
  tx : Nat := 0           -- FlagField sync flags (one bit per flag, at the field's bit position)
  rx : Nat := 0
  aux : Nat := 0          -- range: last relative write address
  pR : Bool := false      -- PushOnNotify bits (high for exactly one clock)
  pW : Bool := false
  fRtx : Bool := false    -- FlagOnNotify.Read sync flag
  fRrx : Bool := false
  fWtx : Bool := false
  fWrx : Bool := false
  words : List Nat := []  -- content of a Memory
  deriving Repr, DecidableEq

/-- hardware-side inputs of one register in one clock -/
structure Hw where
  hw : Nat := 0           -- value driven onto Word.raw / the hardware fields
  clr : Nat := 0          -- FlagFields to clear in this clock
  nclrR : Bool := false   -- clear the FlagOnNotify.Read
  nclrW : Bool := false
  deriving Repr, DecidableEq

def Reg.init (r : Reg) : RegSt :=
  { mem := r.dflt, words := if r.kind = .memory then List.replicate (r.count / 4) 0 else [] }

/-- the current content of the register word (`Word.raw`, `Register._to_bits_()`) -/
def regValue (r : Reg) (s : RegSt) (h : Hw) : Nat :=
  match r.kind with
  | .word => h.hw % 2 ^ 32
  | .memWord => s.mem
  | .range => s.mem
  | .output => s.mem
  | .input => h.hw &&& r.hwMask
  | .memory => 0
  | .register => (s.mem &&& r.memMask) ||| (h.hw &&& r.hwMask) ||| ((s.tx ^^^ s.rx) &&& r.flagMask)

/-- address relative to the range start (`addr - self._global_offset_` on `Unsigned[aw]`) -/
def relAddr (aw : Nat) (r : Reg) (addr : Nat) : Nat := (addr + 2 ^ aw - r.offset % 2 ^ aw) % 2 ^ aw

/-- result of `_basic_read_` -/
def readResult (aw : Nat) (r : Reg) (s : RegSt) (h : Hw) (addr : Nat) : Nat :=
  match r.kind with
  | .range => (r.tag + relAddr aw r addr) % 2 ^ 32
  | .memory => s.words.getD (relAddr aw r addr / 4) 0
  | _ => regValue r s h

/-- one clock of one register.  `rd` / `wr`: a read / write access that selects this register completes in
    this clock (the address / data / strobe are those of the completing write). -/
def regStep (fixed : Bool) (aw : Nat) (r : Reg) (s : RegSt) (h : Hw) (rd wr : Bool) (addr data strb : Nat) : RegSt :=
  let m := stretch 4 8 strb
  let isReg := r.kind == .register
  -- hardware side (separate process, reads the values before the clock)
  let c := h.clr &&& r.flagMask
  let s1 : RegSt :=
    { s with
      rx := (s.rx &&& (c ^^^ M32)) ||| (s.tx &&& c)
      fRrx := if h.nclrR && r.flagR then s.fRtx else s.fRrx
      fWrx := if h.nclrW && r.flagW then s.fWtx else s.fWrx
      pR := rd && isReg && r.pushR
      pW := wr && isReg && r.pushW
      fRtx := if rd && isReg && r.flagR then !s.fRrx else s.fRtx
      fWtx := if wr && isReg && r.flagW then !s.fWrx else s.fWtx }
  if !wr then s1 else
  match r.kind with
  | .word => s1
  | .memWord => { s1 with mem := applyMask s.mem data m }
  | .range => { s1 with mem := applyMask s.mem data m, aux := relAddr aw r addr }
  | .input => s1
  | .output => { s1 with mem := applyMask s.mem data m &&& r.memMask }
  | .memory =>
      let w := relAddr aw r addr / 4
      { s1 with words := s.words.set w (applyMask (s.words.getD w 0) data m) }
  | .register =>
      let merged := if fixed then applyMask (regValue r s h) data m else data % 2 ^ 32
      let st := merged &&& r.flagMask
      { s1 with mem := merged &&& r.memMask
                tx := (s.tx &&& (st ^^^ M32)) ||| ((s.rx ^^^ M32) &&& st) }

/-! ## the slave -/

structure Cfg where
  aw : Nat
  regs : List Reg
  fixed : Bool := true
  deriving Repr

/-- handshake registers of `proc_read`.  `rs`: 0 = first clock after reset, 1 = waiting for the request,
    2 = response pending. -/
structure RdCore where
  rs : Nat := 0
  arready : Bool := false
  rvalid : Bool := false
  rdata : Nat := 0
  deriving Repr, DecidableEq

/-- handshake registers of `proc_write` (`ws` as `rs`) -/
structure WrCore where
  ws : Nat := 0
  awready : Bool := false
  wready : Bool := false
  bvalid : Bool := false
  aL : Bool := false       -- `addr_latched`
  dL : Bool := false       -- `data_latched`
  addr : Nat := 0          -- `addr_buffer`
  data : Nat := 0
  strb : Nat := 0
  deriving Repr, DecidableEq

structure Core where
  rd : RdCore := {}
  wr : WrCore := {}
  deriving Repr, DecidableEq

structure State where
  core : Core := {}
  bank : List RegSt
  deriving Repr, DecidableEq

/-- master-side and hardware-side inputs of one clock -/
structure In where
  rst : Bool := false
  awvalid : Bool := false
  awaddr : Nat := 0
  wvalid : Bool := false
  wdata : Nat := 0
  wstrb : Nat := 0
  bready : Bool := false
  arvalid : Bool := false
  araddr : Nat := 0
  rready : Bool := false
  hw : List Hw := []
  deriving Repr

def init (cfg : Cfg) : State := { bank := cfg.regs.map Reg.init }

def dfltReg : Reg := ⟨.word, 0, 0, false, false, 0, 0, 0, 0, false, false, false, false, 0⟩

/-- address / data / strobe the write process works with in this clock -/
def wrAddr (c : WrCore) (i : In) : Nat := if c.aL then c.addr else i.awaddr
def wrData (c : WrCore) (i : In) : Nat := if c.dL then c.data else i.wdata
def wrStrb (c : WrCore) (i : In) : Nat := if c.dL then c.strb else i.wstrb

/-- a read request is accepted in this clock -/
def rdDone (c : Core) (i : In) : Bool := c.rd.rs == 1 && i.arvalid
/-- the second of write address / write data arrives in this clock -/
def wrDone (c : Core) (i : In) : Bool := c.wr.ws == 1 && (c.wr.aL || i.awvalid) && (c.wr.dL || i.wvalid)

def rdSel (cfg : Cfg) (c : Core) (i : In) : Option Nat :=
  if rdDone c i then selectIdx (·.readable) cfg.regs i.araddr else none
def wrSel (cfg : Cfg) (c : Core) (i : In) : Option Nat :=
  if wrDone c i then selectIdx (·.writable) cfg.regs (wrAddr c.wr i) else none

/-- data returned for the read accepted in this clock (`Null` when no readable register matches) -/
def rdValue (cfg : Cfg) (st : State) (i : In) : Nat :=
  match rdSel cfg st.core i with
  | none => 0
  | some j => readResult cfg.aw (cfg.regs.getD j dfltReg) (st.bank.getD j {}) (i.hw.getD j {}) i.araddr

/-- `proc_read`: `await_read_request` / dispatch / `send_read_resp` -/
def rdStep (c : RdCore) (i : In) (rdata : Nat) : RdCore :=
  if c.rs == 0 then { c with rs := 1, arready := true }
  else if c.rs == 1 then
    (if i.arvalid then { c with rs := 2, arready := false, rvalid := true, rdata := rdata } else c)
  else
    (if i.rready then { c with rs := 1, arready := true, rvalid := false } else c)

/-- `proc_write`: `await_write_request` / dispatch / `send_write_response` -/
def wrStep (c : WrCore) (i : In) : WrCore :=
  if c.ws == 0 then { c with ws := 1, aL := false, dL := false, awready := true, wready := true }
  else if c.ws == 1 then
    let aL' := c.aL || i.awvalid
    let dL' := c.dL || i.wvalid
    let c2 : WrCore := { c with addr := wrAddr c i, data := wrData c i, strb := wrStrb c i,
                                aL := aL', dL := dL', awready := !aL', wready := !dL' }
    if aL' && dL' then { c2 with ws := 2, bvalid := true } else c2
  else
    if i.bready then { c with ws := 1, bvalid := false, aL := false, dL := false, awready := true, wready := true }
    else c

def coreStep (c : Core) (i : In) (rdata : Nat) : Core := { rd := rdStep c.rd i rdata, wr := wrStep c.wr i }

def bankStep (cfg : Cfg) (st : State) (i : In) : List RegSt :=
  let rd := rdSel cfg st.core i
  let wr := wrSel cfg st.core i
  st.bank.mapIdx fun j s =>
    regStep cfg.fixed cfg.aw (cfg.regs.getD j dfltReg) s (i.hw.getD j {}) (rd == some j) (wr == some j)
      (wrAddr st.core.wr i) (wrData st.core.wr i) (wrStrb st.core.wr i)

/-- one rising clock edge -/
def step (cfg : Cfg) (st : State) (i : In) : State :=
  if i.rst then init cfg
  else { core := coreStep st.core i (rdValue cfg st i), bank := bankStep cfg st i }

def run (cfg : Cfg) : State → List In → State := List.foldl (step cfg)

/-! ## line protocol

  `sim FIXED AW NENT <entry>* NCLK <clock>*`  -> per clock `awready wready bvalid arready rvalid rdata {cur n aux}*`
  `flat NENT <entry>*`                        -> global offsets of the flattened registers
  `decode AW NENT <entry>*`                   -> for every address `r<idx|-> w<idx|->`
  entry  = `kind nchain c.. off n step count readable writable dflt memMask hwMask flagMask pushR pushW flagR flagW tag`
  clock  = `rst awvalid awaddr wvalid wdata wstrb bready arvalid araddr rready {hw clr nclr}*`   (nclr: bit0 = read flag, bit1 = write flag)
-/

abbrev P := StateT (List Nat) Option

def next : P Nat := do
  let s ← get
  match s with
  | [] => failure
  | x :: r => set r; return x

def nextB : P Bool := do return (← next) != 0

def nextN (n : Nat) : P (List Nat) := do
  let mut out := #[]
  for _ in [0:n] do out := out.push (← next)
  return out.toList

def kindOf : Nat → Kind
  | 0 => .word | 1 => .memWord | 2 => .register | 3 => .range | 4 => .output | 5 => .input | _ => .memory

def pEntry : P Entry := do
  let k ← next
  let nc ← next
  let chain ← nextN nc
  let off ← next
  let n ← next
  let stp ← next
  let count ← next
  let rdb ← nextB
  let wrb ← nextB
  let dflt ← next
  let mm ← next
  let hm ← next
  let fm ← next
  let pR ← nextB
  let pW ← nextB
  let fR ← nextB
  let fW ← nextB
  let tag ← next
  return { chain, off, n, stp, reg := ⟨kindOf k, 0, count, rdb, wrb, dflt, mm, hm, fm, pR, pW, fR, fW, tag⟩ }

def pEntries : P (List Entry) := do
  let n ← next
  let mut out := #[]
  for _ in [0:n] do out := out.push (← pEntry)
  return out.toList

def pClock (nregs : Nat) : P In := do
  let rst ← nextB
  let awvalid ← nextB
  let awaddr ← next
  let wvalid ← nextB
  let wdata ← next
  let wstrb ← next
  let bready ← nextB
  let arvalid ← nextB
  let araddr ← next
  let rready ← nextB
  let mut hw := #[]
  for _ in [0:nregs] do
    let h ← next
    let c ← next
    let n ← next
    hw := hw.push ({ hw := h, clr := c, nclrR := n % 2 == 1, nclrW := n / 2 % 2 == 1 } : Hw)
  return { rst, awvalid, awaddr, wvalid, wdata, wstrb, bready, arvalid, araddr, rready, hw := hw.toList }

def b01 (b : Bool) : Nat := if b then 1 else 0

def showState (cfg : Cfg) (st : State) (i : In) : String :=
  let c := st.core
  let head := s!"{b01 c.wr.awready} {b01 c.wr.wready} {b01 c.wr.bvalid} {b01 c.rd.arready} {b01 c.rd.rvalid} {c.rd.rdata}"
  let regs := (List.range cfg.regs.length).map fun j =>
    let r := cfg.regs.getD j dfltReg
    let s := st.bank.getD j {}
    let h := i.hw.getD j {}
    let n := b01 s.pR + 2 * b01 s.pW + 4 * b01 (s.fRtx != s.fRrx) + 8 * b01 (s.fWtx != s.fWrx)
    s!" {regValue r s h} {n} {s.aux}"
  head ++ String.join regs

def runSim : P String := do
  let fixed ← nextB
  let aw ← next
  let es ← pEntries
  let cfg : Cfg := { aw, regs := flatten es, fixed }
  let nclk ← next
  let mut st := init cfg
  let mut out : Array String := #[]
  for _ in [0:nclk] do
    let i ← pClock cfg.regs.length
    st := step cfg st i
    out := out.push (showState cfg st i)
  return ";".intercalate out.toList

def showSel : Option Nat → String
  | none => "-"
  | some j => toString j

def runDecode : P String := do
  let aw ← next
  let es ← pEntries
  let regs := flatten es
  let out := (List.range (2 ^ aw)).map fun a =>
    s!"r{showSel (selectIdx (·.readable) regs a)} w{showSel (selectIdx (·.writable) regs a)}"
  return " ".intercalate out

def runFlat : P String := do
  let es ← pEntries
  return " ".intercalate ((flatten es).map fun r => toString r.offset)

def handle (args : List String) : String :=
  match args with
  | op :: rest =>
    match rest.mapM String.toNat? with
    | none => "bad-op"
    | some nums =>
      let fin (r : Option (String × List Nat)) : String :=
        match r with
        | some (s, []) => s
        | _ => "bad-op"
      if op == "sim" then fin (runSim.run nums)
      else if op == "decode" then (if nums.headD 0 > 16 then "bad-op" else fin (runDecode.run nums))
      else if op == "flat" then fin (runFlat.run nums)
      else "bad-op"
  | _ => "bad-op"

end CohdlVerif.C20
