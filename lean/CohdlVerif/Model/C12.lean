/-
  C12 - "instantiating an entity is equivalent to inlining it".

  Model of hierarchical designs and of what the compiler does with them:

  * `Tmpl` / `Insts`  the design as the Python objects give it: an entity class (template) = name, declared
    ports (name, direction, type, in declaration order), local signals, leaf logic (concurrent assignments and
    clocked registers over a small expression language on slices of signals) and instances, each instance
    = the instantiated template + the actuals given for its formals (`formal=actual` keyword arguments:
    whole signals or constant slices of signals; typed views do not change the addressed bits).
  * `emitHier`  MIRROR of the back end:  `Library.from_top_entity` (cohdl/_compiler/backend/vhdl/_vhdl_repr.py:
    post-order walk, an entity is added after its sub-entities and only if it is not there yet),
    `Entity._port_declarations` (the declared ports in declaration order), `EntityInst._port_map`
    (`formal => actual`, one line per declared port in declaration order, the actual looked up BY NAME),
    `Entity.__init__` in cohdl/_core/_context.py (the default of a signal that is connected AS A WHOLE OBJECT to an
    output port is removed; slices / views keep it).
  * `elabEntity` / `elabTbl`  VHDL elaboration of the emitted library "by renaming": design units are analysed
    in library order, an instance binds to an ALREADY ANALYSED entity of that name, the formals of the
    instance are aliases of the storage of their actuals, local signals get a fresh hierarchical name.
  * `flattenT`  the SPEC: substitute the actuals for the formals and place the sub-entity's logic inline.
  * `simCore`  synchronous semantics of a list of resolved processes (settle / clock edge / settle).

  Import-free (compiled into the driver).
-/
namespace CohdlVerif.C12

inductive Dir where
  | inp | out
  deriving DecidableEq, Repr

inductive Kind where
  | bit | slv | uns | sgn
  deriving DecidableEq, Repr

structure Ty where
  kind : Kind
  width : Nat
  deriving DecidableEq, Repr

structure Port where
  name : String
  dir : Dir
  ty : Ty
  deriving DecidableEq, Repr

/-- a local signal; `elems > 1`: an array signal (`Signal[Array[T, elems]]`) with elements of type `ty`, stored
    flat: element `i` occupies the bits `[i * ty.width, (i+1) * ty.width)`, so that a `Ref` (and hence an actual of an
    instance) can select an element of an array-typed signal, a slice or a bit of an element -/
structure Local where
  name : String
  ty : Ty
  dflt : Option Nat
  elems : Nat
  deriving DecidableEq, Repr

/-- bits `[lo, lo+width)` of the signal `name` (for an array signal: of its flat storage, see `Local.elems`) -/
structure Ref where
  name : String
  lo : Nat
  width : Nat
  deriving DecidableEq, Repr

inductive Op where
  | and | or | xor | add | sub
  deriving DecidableEq, Repr

inductive Expr where
  | ref (r : Ref)
  | const (w n : Nat)
  | not (w : Nat) (a : Expr)
  | bin (op : Op) (w : Nat) (a b : Expr)
  deriving DecidableEq, Repr

/-- leaf logic: a concurrent assignment or a register clocked by the (single) clock -/
inductive Leaf where
  | comb (t : Ref) (e : Expr)
  | reg (t : Ref) (e : Expr)
  deriving DecidableEq, Repr

/-- the object connected to a formal; `plain` = the connected object is the signal object itself
    (no slice, no typed view) -/
structure Actual where
  ref : Ref
  plain : Bool
  deriving DecidableEq, Repr

mutual
inductive Tmpl where
  | mk (name : String) (ports : List Port) (locals : List Local) (logic : List Leaf) (insts : Insts)
inductive Insts where
  | nil
  | cons (t : Tmpl) (acts : List (String × Actual)) (rest : Insts)
end

def Tmpl.name : Tmpl → String | .mk n _ _ _ _ => n
def Tmpl.ports : Tmpl → List Port | .mk _ p _ _ _ => p
def Tmpl.locals : Tmpl → List Local | .mk _ _ l _ _ => l
def Tmpl.logic : Tmpl → List Leaf | .mk _ _ _ l _ => l
def Tmpl.insts : Tmpl → Insts | .mk _ _ _ _ i => i

/-! ## emitted library -/

structure EInst where
  idx : Nat                       -- position among the instances of the parent (the label `comp_<E><k>`)
  entity : String
  pmap : List (String × Ref)      -- `formal => actual`, in the order printed
  deriving DecidableEq, Repr

structure Entity where
  name : String
  ports : List Port
  locals : List Local
  logic : List Leaf
  insts : List EInst
  deriving DecidableEq, Repr

abbrev Library := List Entity

/-- mirror of `EntityInst._port_map`: `for port_name in self._entity.ports(): port_name => self._ports[port_name]`.
    (the real code raises when an actual is missing; `Entity.__init__` guarantees that it is not) -/
def pmapOf (ports : List Port) (acts : List (String × Actual)) : List (String × Ref) :=
  ports.filterMap (fun p => (acts.lookup p.name).map (fun a => (p.name, a.ref)))

def isOut (ports : List Port) (f : String) : Bool :=
  ports.any (fun p => p.name == f && p.dir == Dir.out)

/-- names of the signals connected as whole objects to an output port of an instance
    (`port_def._default = None` in `Entity.__init__`) -/
def drivenPlain : Insts → List String
  | .nil => []
  | .cons t acts rest =>
      (acts.filterMap (fun fa => if fa.2.plain && isOut t.ports fa.1 then some fa.2.ref.name else none))
        ++ drivenPlain rest

def dropDefault (driven : List String) (l : Local) : Local :=
  if driven.contains l.name then { l with dflt := none } else l

def emitInsts (k : Nat) : Insts → List EInst
  | .nil => []
  | .cons t acts rest => ⟨k, t.name, pmapOf t.ports acts⟩ :: emitInsts (k + 1) rest

def emitEntity : Tmpl → Entity
  | .mk n ports locals logic insts =>
      ⟨n, ports, locals.map (dropDefault (drivenPlain insts)), logic, emitInsts 0 insts⟩

def hasName (acc : List Entity) (n : String) : Bool := acc.any (fun e => e.name == n)

/- mirror of `Library.from_top_entity.collect_subenties`; the accumulator is kept most-recent-first -/
mutual
def collectT (racc : List Entity) : Tmpl → List Entity
  | .mk n ports locals logic insts =>
      let r := collectIs racc insts
      if hasName r n then r else emitEntity (.mk n ports locals logic insts) :: r
def collectIs (racc : List Entity) : Insts → List Entity
  | .nil => racc
  | .cons t _ rest => collectIs (collectT racc t) rest
end

/-- the emitted library, in the order of the emitted text -/
def emitHier (d : Tmpl) : Library := (collectT [] d).reverse

/-! ## elaboration of an emitted library (by renaming) and the flat specification -/

abbrev Binding := List (String × Ref)

/-- a reference inside an entity, resolved through the aliases of that entity's scope -/
def bindRef (b : Binding) (r : Ref) : Ref :=
  match b.lookup r.name with
  | some g => ⟨g.name, g.lo + r.lo, r.width⟩
  | none => r

def localBinding (pfx : String) (locals : List Local) : Binding :=
  locals.map (fun l => (l.name, ⟨pfx ++ l.name, 0, l.ty.width * l.elems⟩))

def instPrefix (pfx : String) (k : Nat) : String := pfx ++ "i" ++ toString k ++ "_"

/-- elaborated items: a storage, or a process together with the aliases of its scope -/
inductive FItem where
  | sig (l : Local)
  | proc (b : Binding) (l : Leaf)

/-- flat netlist items: a storage, or a process over global references -/
inductive Net where
  | sig (l : Local)
  | proc (l : Leaf)
  deriving DecidableEq, Repr

abbrev ElabFn := String → Binding → List FItem

def globalLocal (pfx : String) (l : Local) : Local := { l with name := pfx ++ l.name }

/-- elaboration of one instance statement inside a scope with aliases `b`: the instantiated entity must have
    been analysed already; its formals become aliases of the (resolved) actuals -/
def elabInst (tbl : String → Option ElabFn) (pfx : String) (b : Binding) (i : EInst) : List FItem :=
  match tbl i.entity with
  | some f => f (instPrefix pfx i.idx) (i.pmap.map (fun fa => (fa.1, bindRef b fa.2)))
  | none => []

/-- elaboration of one entity given the already analysed entities `tbl` -/
def elabEntity (tbl : String → Option ElabFn) (e : Entity) : ElabFn := fun pfx pb =>
  let b := pb ++ localBinding pfx e.locals
  e.locals.map (fun l => FItem.sig (globalLocal pfx l))
    ++ e.logic.map (fun l => FItem.proc b l)
    ++ e.insts.flatMap (elabInst tbl pfx b)

/-- analysis of the library, most recent design unit first: a name binds to the FIRST analysed entity -/
def elabTbl : List Entity → String → Option ElabFn
  | [] => fun _ => none
  | e :: older => fun n =>
      match elabTbl older n with
      | some f => some f
      | none => if n = e.name then some (elabEntity (elabTbl older) e) else none

def substExpr (b : Binding) : Expr → Expr
  | .ref r => .ref (bindRef b r)
  | .const w n => .const w n
  | .not w a => .not w (substExpr b a)
  | .bin op w x y => .bin op w (substExpr b x) (substExpr b y)

def substLeaf (b : Binding) : Leaf → Leaf
  | .comb t e => .comb (bindRef b t) (substExpr b e)
  | .reg t e => .reg (bindRef b t) (substExpr b e)

def substItem : FItem → Net
  | .sig l => .sig l
  | .proc b l => .proc (substLeaf b l)

/- SPEC: inline the template `t` at hierarchical prefix `pfx`, its formals replaced by `σ` -/
mutual
def flattenT (pfx : String) (σ : Binding) : Tmpl → List Net
  | .mk _ _ locals logic insts =>
      let b := σ ++ localBinding pfx locals
      locals.map (fun l => Net.sig (globalLocal pfx (dropDefault (drivenPlain insts) l)))
        ++ logic.map (fun l => Net.proc (substLeaf b l))
        ++ flattenIs pfx b 0 insts
def flattenIs (pfx : String) (b : Binding) (k : Nat) : Insts → List Net
  | .nil => []
  | .cons t acts rest =>
      flattenT (instPrefix pfx k) (acts.map (fun fa => (fa.1, bindRef b fa.2.ref))) t
        ++ flattenIs pfx b (k + 1) rest
end

def idBinding (ports : List Port) : Binding :=
  ports.map (fun p => (p.name, ⟨p.name, 0, p.ty.width⟩))

def flatten (d : Tmpl) : List Net := flattenT "" (idBinding d.ports) d

/-! ## synchronous semantics -/

abbrev Env := List (String × Nat)

def Env.get (env : Env) (n : String) : Nat := (env.lookup n).getD 0

def Env.set : Env → String → Nat → Env
  | [], n, v => [(n, v)]
  | (m, x) :: rest, n, v => if m == n then (m, v) :: rest else (m, x) :: Env.set rest n v

def readRef (env : Env) (r : Ref) : Nat := (env.get r.name / 2 ^ r.lo) % 2 ^ r.width

def writeRef (env : Env) (r : Ref) (v : Nat) : Env :=
  let old := env.get r.name
  let cur := (old / 2 ^ r.lo) % 2 ^ r.width
  env.set r.name (old - cur * 2 ^ r.lo + (v % 2 ^ r.width) * 2 ^ r.lo)

def evalOp (op : Op) (w x y : Nat) : Nat :=
  match op with
  | .and => (x &&& y) % 2 ^ w
  | .or => (x ||| y) % 2 ^ w
  | .xor => (x ^^^ y) % 2 ^ w
  | .add => (x + y) % 2 ^ w
  | .sub => (x % 2 ^ w + (2 ^ w - y % 2 ^ w)) % 2 ^ w

def eval (env : Env) : Expr → Nat
  | .ref r => readRef env r
  | .const w n => n % 2 ^ w
  | .not w a => (2 ^ w - 1 - eval env a % 2 ^ w)
  | .bin op w x y => evalOp op w (eval env x) (eval env y)

/-- a process after name resolution -/
structure RProc where
  target : Ref
  rhs : Env → Nat
  isReg : Bool

def resolveLeaf : Leaf → RProc
  | .comb t e => ⟨t, fun env => eval env e, false⟩
  | .reg t e => ⟨t, fun env => eval env e, true⟩

/-- semantic renaming: the process reads and writes through the aliases of its scope -/
def resolveBound (b : Binding) : Leaf → RProc
  | .comb t e => ⟨bindRef b t, fun env => eval env (substExpr b e), false⟩
  | .reg t e => ⟨bindRef b t, fun env => eval env (substExpr b e), true⟩

def procsOfNets (ns : List Net) : List RProc :=
  ns.filterMap (fun n => match n with | .proc l => some (resolveLeaf l) | .sig _ => none)

def sigsOfNets (ns : List Net) : List Local :=
  ns.filterMap (fun n => match n with | .sig l => some l | .proc _ => none)

def procsOfItems (is : List FItem) : List RProc :=
  is.filterMap (fun n => match n with | FItem.proc b l => some (resolveBound b l) | FItem.sig _ => none)

def sigsOfItems (is : List FItem) : List Local :=
  is.filterMap (fun n => match n with | FItem.sig l => some l | FItem.proc _ _ => none)

def applyComb (ps : List RProc) (env : Env) : Env :=
  ps.foldl (fun en p => if p.isReg then en else writeRef en p.target (p.rhs en)) env

/-- delta cycles until nothing changes (at most `k` rounds) -/
def settle (ps : List RProc) : Nat → Env → Env
  | 0, env => env
  | k + 1, env =>
      let e' := applyComb ps env
      if e' == env then env else settle ps k e'

/-- all registers sample the values before the edge -/
def clockEdge (ps : List RProc) (env : Env) : Env :=
  ps.foldl (fun en p => if p.isReg then writeRef en p.target (p.rhs env) else en) env

def setInputs (env : Env) (ins : List (String × Nat)) : Env :=
  ins.foldl (fun en kv => en.set kv.1 kv.2) env

def initEnv (ports : List Port) (sigs : List Local) : Env :=
  ports.map (fun p => (p.name, 0)) ++ sigs.map (fun l => (l.name, l.dflt.getD 0))

def outRefs (ports : List Port) : List Ref :=
  (ports.filter (fun p => p.dir == Dir.out)).map (fun p => ⟨p.name, 0, p.ty.width⟩)

/-- one clock: inputs change, logic settles, outputs are sampled, rising edge, logic settles, outputs are sampled again -/
def stepCore (ps : List RProc) (outs : List Ref) (env : Env) (ins : List (String × Nat)) : Env × List Nat :=
  let e1 := settle ps (ps.length + 1) (setInputs env ins)
  let e2 := settle ps (ps.length + 1) (clockEdge ps e1)
  (e2, outs.map (readRef e1) ++ outs.map (readRef e2))

def runCore (ps : List RProc) (outs : List Ref) : Env → List (List (String × Nat)) → List (List Nat)
  | _, [] => []
  | env, ins :: rest =>
      let r := stepCore ps outs env ins
      r.2 :: runCore ps outs r.1 rest

def simCore (ports : List Port) (sigs : List Local) (ps : List RProc)
    (inputs : List (List (String × Nat))) : List (List Nat) :=
  runCore ps (outRefs ports) (initEnv ports sigs) inputs

/-- semantics of a flat netlist whose interface is `ports` -/
def simFlatP (ports : List Port) (ns : List Net) (inputs : List (List (String × Nat))) : List (List Nat) :=
  simCore ports (sigsOfNets ns) (procsOfNets ns) inputs

/-- semantics of an emitted library: the LAST design unit is the top entity, the earlier ones are analysed
    first; instances are elaborated by renaming -/
def simHier (lib : Library) (inputs : List (List (String × Nat))) : List (List Nat) :=
  match lib.reverse with
  | [] => []
  | top :: older =>
      let items := elabEntity (elabTbl older) top "" (idBinding top.ports)
      simCore top.ports (sigsOfItems items) (procsOfItems items) inputs

/-- flat semantics of the inlined design `d` -/
def simFlat (d : Tmpl) (inputs : List (List (String × Nat))) : List (List Nat) :=
  simFlatP d.ports (flatten d) inputs

end CohdlVerif.C12
