/-
  C16 - executable models of the std timing utilities of cohdl/std/utility.py, each a synchronous step
  function mirroring the Python code that exists (one call of `step` = one active clock edge):

    * `std.wait_for` / `std.Waiter.wait_for`   (l.707-782)   `reach`, `Pend.step`, process `pstep`
    * `std.DelayLine` / `std.delayed`          (l.585-627)   `dlStep`
    * `std.continuous_counter`                 (l.934-969)   `ccNext`, `ccStep`
    * `std.ClockDivider`                       (l.1070-1155) `divStep`
    * `std.ToggleSignal`                       (l.972-1067)  `togStep`
    * `std.debounce`                           (l.630-658)   `debStep`
    * `std.Duration.count_periods`             (_context.py l.181-197) `countPeriods` (over rationals)

  Import-free (core Lean only): compiled into the driver `model_c16`.
-/
namespace CohdlVerif.C16

/-- Python `int.bit_length` -/
def bitLength (n : Nat) : Nat := if n = 0 then 0 else Nat.log2 n + 1

/-- width of `Unsigned.upto(m)` (cohdl/_core/_unsigned.py: max_value 0 is treated as 1) -/
def uptoWidth (m : Nat) : Nat := if m = 0 then 1 else bitLength m

/-! ## wait_for / Waiter.wait_for

  Coroutine timing rules used (they are the subject of C01, here they are what the emitted state
  machine of the wrapper does): the statements up to and including the prologue of `wait_for` run in
  the clock in which `wait_for` is *reached*; `await true` suspends for exactly one clock; entering a
  `while` loop suspends until the next clock, where the condition is evaluated on the *registered*
  counter; every back edge costs one clock; when the condition is false the statements after the loop
  run in that same clock.
-/

/-- the duration argument: a compile-time integer (also: a `Duration`, converted at compile time by
    `count_periods`) or a run-time `Unsigned[w]` read in the clock in which wait_for is reached -/
inductive Dur where
  | const (n : Nat)
  | rt (w : Nat)
  deriving Repr, DecidableEq

structure Wait where
  dur : Dur
  allowZero : Bool
  /-- `some m`: the call is `Waiter(m).wait_for`, `none`: the free function `std.wait_for` -/
  waiter : Option Nat := none
  deriving Repr, DecidableEq

/-- what the compiler accepts: the Python `assert`s on compile-time arguments (`cnt > 0` unless
    allow_zero, `cnt <= max_duration` for a Waiter).  Run-time arguments only produce VHDL asserts. -/
def Wait.wf (wt : Wait) : Bool :=
  match wt.dur with
  | .const n => (n > 0 || wt.allowZero) && (match wt.waiter with | some m => n ≤ m | none => true)
  | .rt _ => true

/-- a wait that has been reached and has not resumed yet -/
inductive Pend where
  /-- `await true` (the `_is_one(cnt)` path) -/
  | tick
  /-- `while counter: counter <<= counter - 1` with the registered counter value `c` -/
  | loop (c : Nat)
  deriving Repr, DecidableEq

inductive Reach where
  /-- `allow_zero` and zero: `return` before anything is awaited -/
  | now
  | pend (p : Pend)
  deriving Repr, DecidableEq

/-- the prologue of wait_for, executed in the clock in which it is reached; `v` = value of the
    run-time argument in that clock.  The counter is loaded with `cnt - 1`; for a run-time `cnt` this
    is `Unsigned[w]` arithmetic (wraps for cnt = 0 - which the VHDL `assert cnt > 0` flags). -/
def reach (wt : Wait) (v : Nat) : Reach :=
  match wt.dur with
  | .const n =>
      if wt.allowZero && n == 0 then .now
      else if n == 1 then .pend .tick
      else .pend (.loop (n - 1))
  | .rt w =>
      if wt.allowZero && v == 0 then .now
      else .pend (.loop ((v + 2 ^ w - 1) % 2 ^ w))

/-- one clock of a pending wait: `none` = the statement after wait_for runs in this clock -/
def Pend.step : Pend → Option Pend
  | .tick => none
  | .loop 0 => none
  | .loop (c + 1) => some (.loop c)

/-- `resumesAt p k`: a wait left pending as `p` by the clock in which it was reached lets the
    statement after it run in the k-th clock after that one - and in no earlier clock -/
def resumesAt : Pend → Nat → Bool
  | _, 0 => false
  | p, k + 1 => match p.step with
    | none => k == 0
    | some p' => resumesAt p' k

/-- the wrapper process used by the tie (one coroutine):
    ```
    await start;  stage <<= 1;  await wait_for(W0);  stage <<= 2;  await wait_for(W1); ... stage <<= 0
    ``` -/
structure PState where
  /-- index of the pending wait -/
  pc : Nat
  /-- `none`: polling `start` -/
  pend : Option Pend
  stage : Nat
  deriving Repr, DecidableEq

def PState.idle : PState := ⟨0, none, 0⟩

/-- run the code that follows wait number `i-1` (`ws` = the waits still ahead, the first has index i):
    `stage <<= i+1`, then the prologue of the next wait; a zero wait falls through in the same clock
    (the later `stage` assignment wins); after the last wait `stage <<= 0` and back to `await start` -/
def cont (v : Nat) : Nat → List Wait → PState
  | _, [] => ⟨0, none, 0⟩
  | i, wt :: rest =>
    match reach wt v with
    | .now => cont v (i + 1) rest
    | .pend p => ⟨i, some p, i + 1⟩

def pstep (prog : List Wait) (s : PState) (start : Bool) (v : Nat) : PState :=
  match s.pend with
  | none => if start then cont v 0 prog else s
  | some p =>
    match p.step with
    | some p' => { s with pend := some p' }
    | none => cont v (s.pc + 1) (prog.drop (s.pc + 1))

/-! ## DelayLine / delayed -/

/-- `none` = a stage without initial value that was never written ('U') -/
abbrev Cell := Option Nat

/-- stages 1..n (`DelayLine[1]` .. `DelayLine[n]`); stage 0 is the input itself -/
def dlInit (n : Nat) (init : Cell) : List Cell := List.replicate n init

/-- `for src, target in zip(steps, steps[1:]): target <<= src` - every stage takes the old value of
    its predecessor -/
def dlStep (s : List Cell) (x : Nat) : List Cell := (some x :: s).dropLast

/-- `DelayLine.last()` (for delay 0 the input itself) -/
def dlOut (s : List Cell) (x : Nat) : Cell :=
  match s.getLast? with
  | some c => c
  | none => some x

/-- a delay line evaluated under `if en:` shifts only in enabled clocks -/
def dlStepEn (s : List Cell) (en : Bool) (x : Nat) : List Cell := if en then dlStep s x else s

/-! ## continuous_counter -/

/-- `0 if counter == limit else counter + 1` (constant limit), `0 if counter >= limit else counter + 1`
    (run-time limit); the counter is `Unsigned.upto(max_int(limit))` of width `w` -/
def ccNext (rt : Bool) (w c limit : Nat) : Nat :=
  if (if rt then c ≥ limit else c = limit) then 0 else (c + 1) % 2 ^ w

def ccInit (startAtLimit : Bool) (limit : Nat) : Nat := if startAtLimit then limit else 0

/-- one clock with synchronous reset (`reset_context` + `on_reset` restore the initial value) -/
def ccStep (rt : Bool) (w : Nat) (startAtLimit : Bool) (c : Nat) (reset : Bool) (limit : Nat) : Nat :=
  if reset then ccInit startAtLimit limit else ccNext rt w c limit

/-! ## ClockDivider / ToggleSignal -/

structure Pulse where
  cnt : Nat
  st : Bool
  rising : Bool
  falling : Bool
  deriving Repr, DecidableEq

/-- the common tail of both `change_handler`s: `rising = not state and next_state` etc. read the
    registered state -/
def pulseUpdate (s : Pulse) (next : Nat) (nextState : Bool) : Pulse :=
  ⟨next, nextState, !s.st && nextState, s.st && !nextState⟩

structure DivCfg where
  /-- run-time duration of type `Unsigned[w]` -/
  rt : Bool
  /-- width of the counter -/
  w : Nat
  default : Bool
  tickAtStart : Bool
  deriving Repr, DecidableEq

/-- `counter_end = duration - 1` (run-time: `Unsigned[w]` arithmetic) -/
def divEnd (cfg : DivCfg) (d : Nat) : Nat :=
  if cfg.rt then (d + 2 ^ cfg.w - 1) % 2 ^ cfg.w else d - 1

def divInit (cfg : DivCfg) (d : Nat) : Pulse :=
  ⟨ccInit cfg.tickAtStart (divEnd cfg d), cfg.default, false, false⟩

def divStep (cfg : DivCfg) (s : Pulse) (reset : Bool) (d : Nat) : Pulse :=
  if reset then divInit cfg d
  else
    let next := ccNext cfg.rt cfg.w s.cnt (divEnd cfg d)
    pulseUpdate s next (if next = 0 then !cfg.default else cfg.default)

structure TogCfg where
  rt : Bool
  /-- width of the counter (`Unsigned.upto(max first + max second - 1)`) -/
  wc : Nat
  default : Bool
  first : Bool
  deriving Repr, DecidableEq

/-- `counter_end = first + second - 1` (run-time: both operands cast to the counter type first) -/
def togEnd (cfg : TogCfg) (f g : Nat) : Nat :=
  if cfg.rt then ((f + g) % 2 ^ cfg.wc + 2 ^ cfg.wc - 1) % 2 ^ cfg.wc else f + g - 1

def togInit (cfg : TogCfg) : Pulse := ⟨0, cfg.default, false, false⟩

def togStep (cfg : TogCfg) (s : Pulse) (reset : Bool) (f g : Nat) : Pulse :=
  if reset then togInit cfg
  else
    let next := ccNext cfg.rt cfg.wc s.cnt (togEnd cfg f g)
    let lt := decide (next < f)
    pulseUpdate s next (if cfg.first then lt else !lt)

/-- `enable()` / `disable()` called from another clocked process: the reset signal is a register
    (initial value `require_enable`) that takes `not en` one clock later -/
def enReg {σ α : Type} (step : σ → Bool → α → σ) (s : σ × Bool) (en : Bool) (a : α) : σ × Bool :=
  (step s.1 s.2 a, !en)

/-! ## debounce -/

structure Deb where
  cnt : Nat
  res : Bool
  deriving Repr, DecidableEq

def debInit (period : Nat) (initial : Bool) : Deb := ⟨period / 2, initial⟩

/-- the counter is `Unsigned.upto(period)`; `counter + 1` is only evaluated when `counter != period`
    and `counter - 1` only when `counter != 0`, so with `cnt ≤ period` (an invariant, see
    `C16.debounce_counter_in_range`) nothing wraps -/
def debStep (period : Nat) (s : Deb) (inp : Bool) : Deb :=
  if inp then
    if s.cnt = period then { s with res := true } else { s with cnt := s.cnt + 1 }
  else
    if s.cnt = 0 then { s with res := false } else { s with cnt := s.cnt - 1 }

/-! ## Duration.count_periods over the rationals

  `real_result = self / subperiod` is given as the fraction `a / b` (a, b > 0); Python's `round` is
  round-half-to-even; the acceptance test is `abs((rounded - real) / real) <= allowed_delta` with
  `allowed_delta = dn / dd`.  Floating point rounding of the real code is NOT modelled. -/

def roundHalfEven (a b : Nat) : Nat :=
  let q := a / b
  let r := a % b
  if 2 * r < b then q else if b < 2 * r then q + 1 else if q % 2 = 0 then q else q + 1

def absDiff (x y : Nat) : Nat := if x ≥ y then x - y else y - x

def countPeriods (a b dn dd : Nat) : Option Nat :=
  if a = 0 ∨ b = 0 then none
  else
    let k := roundHalfEven a b
    if absDiff (k * b) a * dd ≤ dn * a then some k else none

/-! ## line protocol (`|` separates configuration from the per-clock inputs)

    wait SPEC* | START:V*            SPEC = c<n> | z<n> | r<w> | y<w>  (z,y: allow_zero) [@<waiter max>]
                                     -> stage after every clock, or `reject`
    delay CELL* | EN:X*              CELL = - | <n>      -> the stages after every clock
    cc RT W SAL | RESET:LIMIT*       -> counter after every clock
    div RT W DEFAULT TAS REG REQ | R:D*        R = reset (REG=0) or enable (REG=1, registered)
    tog RT WC DEFAULT FIRST REG REQ | R:F:G*   -> state + 2*rising + 4*falling after every clock
    deb PERIOD INITIAL | BIT*        -> `res/cnt` after every clock
    cp A B DN DD                     -> tick count or `reject`
-/

def splitBar (toks : List String) : List String × List String :=
  (toks.takeWhile (· ≠ "|"), (toks.dropWhile (· ≠ "|")).drop 1)

def nats (s : String) : Option (List Nat) := (s.splitOn ":").mapM String.toNat?

def parseBool (s : String) : Option Bool :=
  if s == "1" then some true else if s == "0" then some false else none

def parseWait (s : String) : Option Wait :=
  match s.splitOn "@" with
  | [a] => go a none
  | [a, m] => match m.toNat? with
    | some mm => go a (some mm)
    | none => none
  | _ => none
where
  go (a : String) (waiter : Option Nat) : Option Wait :=
    match a.toList with
    | 'c' :: r => (String.ofList r).toNat?.map fun n => ⟨.const n, false, waiter⟩
    | 'z' :: r => (String.ofList r).toNat?.map fun n => ⟨.const n, true, waiter⟩
    | 'r' :: r => (String.ofList r).toNat?.map fun w => ⟨.rt w, false, waiter⟩
    | 'y' :: r => (String.ofList r).toNat?.map fun w => ⟨.rt w, true, waiter⟩
    | _ => none

def parseCell (s : String) : Option Cell :=
  if s == "-" then some none else s.toNat?.map some

def showCell : Cell → String
  | none => "-"
  | some v => toString v

def b01 (b : Bool) : String := if b then "1" else "0"

def join (xs : Array String) : String := ",".intercalate xs.toList

def runWait (prog : List Wait) (ins : List (List Nat)) : Option String := Id.run do
  let mut s := PState.idle
  let mut out : Array String := #[]
  for i in ins do
    match i with
    | [st, v] =>
      s := pstep prog s (st != 0) v
      out := out.push (toString s.stage)
    | _ => return none
  return some (join out)

def runDelay (cells : List Cell) (ins : List (List Nat)) : Option String := Id.run do
  let mut s := cells
  let mut out : Array String := #[]
  for i in ins do
    match i with
    | [en, x] =>
      s := dlStepEn s (en != 0) x
      out := out.push (".".intercalate (s.map showCell))
    | _ => return none
  return some (join out)

def runCc (rt : Bool) (w : Nat) (sal : Bool) (ins : List (List Nat)) : Option String := Id.run do
  let mut c : Option Nat := none
  let mut out : Array String := #[]
  for i in ins do
    match i with
    | [r, l] =>
      -- the initial value uses the (constant) limit: it is taken from the first input
      let c0 := c.getD (ccInit sal l)
      let c1 := ccStep rt w sal c0 (r != 0) l
      c := some c1
      out := out.push (toString c1)
    | _ => return none
  return some (join out)

def showPulse (p : Pulse) : String :=
  toString ((if p.st then 1 else 0) + (if p.rising then 2 else 0) + (if p.falling then 4 else 0))

def runDiv (cfg : DivCfg) (reg req : Bool) (ins : List (List Nat)) : Option String := Id.run do
  let mut s : Option (Pulse × Bool) := none
  let mut out : Array String := #[]
  for i in ins do
    match i with
    | r :: d :: _ =>
      let s0 := s.getD (divInit cfg d, req)
      let s1 := if reg then enReg (divStep cfg) s0 (r != 0) d else (divStep cfg s0.1 (r != 0) d, req)
      s := some s1
      out := out.push (showPulse s1.1)
    | _ => return none
  return some (join out)

def runTog (cfg : TogCfg) (reg req : Bool) (ins : List (List Nat)) : Option String := Id.run do
  let mut s : Pulse × Bool := (togInit cfg, req)
  let mut out : Array String := #[]
  for i in ins do
    match i with
    | [r, f, g] =>
      s := if reg then enReg (fun p rs (fg : Nat × Nat) => togStep cfg p rs fg.1 fg.2) s (r != 0) (f, g)
           else (togStep cfg s.1 (r != 0) f g, req)
      out := out.push (showPulse s.1)
    | _ => return none
  return some (join out)

def runDeb (period : Nat) (initial : Bool) (ins : List (List Nat)) : Option String := Id.run do
  let mut s := debInit period initial
  let mut out : Array String := #[]
  for i in ins do
    match i with
    | [b] =>
      s := debStep period s (b != 0)
      out := out.push s!"{b01 s.res}/{s.cnt}"
    | _ => return none
  return some (join out)

def handle (args : List String) : String :=
  match args with
  | "cp" :: rest =>
    match rest.mapM String.toNat? with
    | some [a, b, dn, dd] =>
      match countPeriods a b dn dd with
      | some k => toString k
      | none => "reject"
    | _ => "bad-op"
  | op :: rest =>
    let (cfg, ins) := splitBar rest
    match ins.mapM nats with
    | none => "bad-op"
    | some ins =>
      let r : Option String :=
        match op with
        | "wait" =>
          match cfg.mapM parseWait with
          | some prog =>
            if prog.isEmpty then none
            else if prog.all Wait.wf then runWait prog ins else some "reject"
          | none => none
        | "delay" =>
          match cfg.mapM parseCell with
          | some cells => runDelay cells ins
          | none => none
        | "cc" =>
          match cfg with
          | [rt, w, sal] =>
            match parseBool rt, w.toNat?, parseBool sal with
            | some rt, some w, some sal => runCc rt w sal ins
            | _, _, _ => none
          | _ => none
        | "div" =>
          match cfg with
          | [rt, w, d, tas, reg, req] =>
            match parseBool rt, w.toNat?, parseBool d, parseBool tas, parseBool reg, parseBool req with
            | some rt, some w, some d, some tas, some reg, some req => runDiv ⟨rt, w, d, tas⟩ reg req ins
            | _, _, _, _, _, _ => none
          | _ => none
        | "tog" =>
          match cfg with
          | [rt, w, d, fs, reg, req] =>
            match parseBool rt, w.toNat?, parseBool d, parseBool fs, parseBool reg, parseBool req with
            | some rt, some w, some d, some fs, some reg, some req => runTog ⟨rt, w, d, fs⟩ reg req ins
            | _, _, _, _, _, _ => none
          | _ => none
        | "deb" =>
          match cfg with
          | [p, i] =>
            match p.toNat?, parseBool i with
            | some p, some i => runDeb p i ins
            | _, _ => none
          | _ => none
        | _ => none
      r.getD "bad-op"
  | _ => "bad-op"

end CohdlVerif.C16
