import CohdlVerif.Model.Sexp
import CohdlVerif.Model.C12

/-
  C12 driver side.  Requests (one line):

    flat  <design> | <clock> ; <clock> ; ...     simFlat (flatten d)       (the SPEC: logic placed inline)
    hier  <design> | <clock> ; ...               simHier (emitHier d)      (elaboration of the emitted library)
    emit  <design>                               canonical rendering of `emitHier d`

  <design> = (t NAME (ports (p NAME in|out KIND W) ..) (locals (l NAME KIND W DFLT|- ELEMS) ..)   ELEMS > 1: array signal, stored flat
                (logic (comb <ref> <expr>) (reg <ref> <expr>) ..) (insts (i <design> (a FORMAL <ref> 0|1) ..) ..))
  <ref>    = (r NAME LO W)
  <expr>   = <ref> | (c W N) | (not W e) | (and|or|xor|add|sub W a b)
  <clock>  = name=value,name=value,..   (`-` for "no input")
  answers: per clock `o,o,..|o,o,..` (outputs after settling before / after the rising edge), clocks joined by `;`
           emit: entities in library order joined by ` ; `:
             NAME[port:dir:kind:w,..]{local:dflt,..}<idx:ENTITY(formal=>name:lo:w,..) ..>
-/
namespace CohdlVerif.C12

open CohdlVerif

def kindOf : String → Option Kind
  | "bit" => some .bit | "slv" => some .slv | "uns" => some .uns | "sgn" => some .sgn | _ => none

def refOf : Sexp → Option Ref
  | .list [.atom "r", .atom n, lo, w] => do pure ⟨n, ← lo.asNat?, ← w.asNat?⟩
  | _ => none

def opOf : String → Option Op
  | "and" => some .and | "or" => some .or | "xor" => some .xor | "add" => some .add | "sub" => some .sub
  | _ => none

partial def exprOf : Sexp → Option Expr
  | .list [.atom "r", .atom n, lo, w] => do pure (.ref ⟨n, ← lo.asNat?, ← w.asNat?⟩)
  | .list [.atom "c", w, n] => do pure (.const (← w.asNat?) (← n.asNat?))
  | .list [.atom "not", w, a] => do pure (.not (← w.asNat?) (← exprOf a))
  | .list [.atom o, w, a, b] => do pure (.bin (← opOf o) (← w.asNat?) (← exprOf a) (← exprOf b))
  | _ => none

def portOf : Sexp → Option Port
  | .list [.atom "p", .atom n, .atom d, .atom k, w] => do
      let d ← (if d == "in" then some Dir.inp else if d == "out" then some Dir.out else none)
      pure ⟨n, d, ⟨← kindOf k, ← w.asNat?⟩⟩
  | _ => none

def localOf : Sexp → Option Local
  | .list [.atom "l", .atom n, .atom k, w, d, c] => do
      let dv ← (match d with
        | .atom "-" => some none
        | x => (x.asNat?).map some)
      pure ⟨n, ⟨← kindOf k, ← w.asNat?⟩, dv, ← c.asNat?⟩
  | _ => none

def leafOf : Sexp → Option Leaf
  | .list [.atom "comb", r, e] => do pure (.comb (← refOf r) (← exprOf e))
  | .list [.atom "reg", r, e] => do pure (.reg (← refOf r) (← exprOf e))
  | _ => none

def actOf : Sexp → Option (String × Actual)
  | .list [.atom "a", .atom f, r, .atom pl] => do
      let pl ← (if pl == "1" then some true else if pl == "0" then some false else none)
      pure (f, ⟨← refOf r, pl⟩)
  | _ => none

mutual
partial def tmplOf : Sexp → Option Tmpl
  | .list [.atom "t", .atom n, .list (.atom "ports" :: ps), .list (.atom "locals" :: ls),
           .list (.atom "logic" :: lg), .list (.atom "insts" :: is)] => do
      pure (.mk n (← ps.mapM portOf) (← ls.mapM localOf) (← lg.mapM leafOf) (← instsOf is))
  | _ => none
partial def instsOf : List Sexp → Option Insts
  | [] => some .nil
  | .list (.atom "i" :: t :: acts) :: rest => do
      pure (.cons (← tmplOf t) (← acts.mapM actOf) (← instsOf rest))
  | _ => none
end

def clockOf (s : String) : Option (List (String × Nat)) :=
  if s == "-" then some [] else
  (s.splitOn ",").mapM (fun kv =>
    match kv.splitOn "=" with
    | [k, v] => v.toNat?.map (fun n => (k, n))
    | _ => none)

def splitOn1 (toks : List String) (sep : String) : List (List String) :=
  let r := toks.foldl (fun (acc : List (List String) × List String) t =>
    if t == sep then (acc.2.reverse :: acc.1, []) else (acc.1, t :: acc.2)) ([], [])
  (r.2.reverse :: r.1).reverse

def showOuts (rows : List (List Nat)) : String :=
  ";".intercalate (rows.map (fun row =>
    let n := row.length / 2
    ",".intercalate ((row.take n).map toString) ++ "|" ++ ",".intercalate ((row.drop n).map toString)))

def showKind : Kind → String
  | .bit => "bit" | .slv => "slv" | .uns => "uns" | .sgn => "sgn"

def showEntity (e : Entity) : String :=
  e.name ++ "["
    ++ ",".intercalate (e.ports.map (fun p =>
        p.name ++ ":" ++ (if p.dir == Dir.inp then "in" else "out") ++ ":" ++ showKind p.ty.kind ++ ":" ++ toString p.ty.width))
    ++ "]{"
    ++ ",".intercalate (e.locals.map (fun l => l.name ++ ":" ++ (match l.dflt with | none => "-" | some v => toString v)))
    ++ "}<"
    ++ " ".intercalate (e.insts.map (fun i =>
        toString i.idx ++ ":" ++ i.entity ++ "("
          ++ ",".intercalate (i.pmap.map (fun fa => fa.1 ++ "=>" ++ fa.2.name ++ ":" ++ toString fa.2.lo ++ ":" ++ toString fa.2.width))
          ++ ")"))
    ++ ">"

def handle (toks : List String) : String :=
  match toks with
  | op :: rest =>
      match splitOn1 rest "|" with
      | [dt] =>
          if op == "emit" then
            match (Sexp.parse (" ".intercalate dt)).bind tmplOf with
            | some d => " ; ".intercalate ((emitHier d).map showEntity)
            | none => "bad-design"
          else "bad-op"
      | [dt, ct] =>
          match (Sexp.parse (" ".intercalate dt)).bind tmplOf with
          | none => "bad-design"
          | some d =>
              match ((splitOn1 ct ";").map (fun c => "".intercalate c)).mapM clockOf with
              | none => "bad-input"
              | some inputs =>
                  if op == "flat" then showOuts (simFlatP d.ports (flatten d) inputs)
                  else if op == "hier" then showOuts (simHier (emitHier d) inputs)
                  else "bad-op"
      | _ => "bad-op"
  | [] => "bad-op"

end CohdlVerif.C12
