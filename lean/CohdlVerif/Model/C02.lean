/-
  C02 - operators and expressions compute their documented value at run time.

  * `Ty`, `Expr`        : the expression language of the property (run-time operands are ports, operands
                          that are Python ints are `intc`, typed constants are `lit`)
  * `typeOf`            : result type / width rules of the property statement (and of cohdl's operator
                          methods in cohdl/_core/_unsigned.py, _signed.py, _bit_vector.py, _bit.py)
  * `evalSpec`          : the documented value, purely mathematical (`Int` arithmetic, wrap modulo the
                          result width, two's complement only through `wrapS`)
  * `VExpr`, `lower`    : mirror of what the VHDL back end prints for the expression
                          (cohdl/_compiler/backend/vhdl/_vhdl_repr.py  BinOp/UnaryOp/Compare/Boolean/All/Any/
                          SelectWith.write, format_cast, format_vhdl_cast, _format_ref); temporaries are inlined
  * `evalV`             : IEEE 1076 numeric_std / std_logic_1164 on defined ('0'/'1') values, vectors as
                          (kind, length, bit pattern); ill-typed VHDL evaluates to `err`
  Import-free: compiled into the model driver.
-/
namespace CohdlVerif.C02

inductive Ty where
  | bit | bool | bv (w : Nat) | uns (w : Nat) | sgn (w : Nat) | int
  deriving DecidableEq, Repr, Inhabited

inductive AOp where | add | sub | mul | div | mod | rem
  deriving DecidableEq, Repr
inductive LOp where | and | or | xor
  deriving DecidableEq, Repr
inductive COp where | eq | ne | lt | gt | le | ge
  deriving DecidableEq, Repr

/-- values of the specification: truth values and mathematical integers (for `bv` the number whose
    binary representation, most significant bit first, is the vector) -/
inductive Val where
  | b (x : Bool)
  | n (x : Int)
  deriving DecidableEq, Repr, Inhabited

inductive Expr where
  | port (i : Nat) (t : Ty)
  | lit (t : Ty) (v : Int)                 -- typed constant `Unsigned[w](v)`, `Bit(v)` ...
  | intc (k : Int)                         -- Python int operand
  | arith (op : AOp) (a b : Expr)          -- + - * op.truncdiv % op.rem
  | bitop (op : LOp) (a b : Expr)          -- & | ^
  | inv (a : Expr)                         -- ~
  | neg (a : Expr)
  | abs (a : Expr)
  | cmp (op : COp) (a b : Expr)
  | shl (a n : Expr)
  | shr (a n : Expr)
  | concat (a b : Expr)                    -- a @ b
  | index (a : Expr) (i : Nat)             -- a[i]
  | slice (a : Expr) (hi lo : Nat)         -- a[hi:lo]
  | indexRt (a n : Expr)                   -- a[n], n Unsigned
  | asSgn (a : Expr) | asUns (a : Expr) | asBv (a : Expr)
  | resize (a : Expr) (w : Nat)
  | truth (a : Expr)                       -- bool(a)
  | lnot (a : Expr)
  | land (a b : Expr)                      -- a and b   (also: chained comparison, all([..]))
  | lor (a b : Expr)                       -- a or b    (also any([..]))
  | ite (c a b : Expr)                     -- a if c else b
  | sel (arg : Expr) (key : Int) (e rest : Expr)  -- select_with(arg, {key: e, ...rest}) ; rest = next entry or default
  | conv (a : Expr) (t : Ty)               -- implicit conversion of a result (or if-expression / select_with arm)
                                           --   that drives a target of type t (`target <<= a`)
  deriving Repr, Inhabited

inductive Err where
  | width | kind | intRange | index | sub
  deriving DecidableEq, Repr

abbrev Env := List Int

/-! ## arithmetic helpers -/

def wrapU (w : Nat) (x : Int) : Int := x % (2 ^ w : Int)
/-- wrap into the two's complement range of `w` bits -/
def wrapS (w : Nat) (x : Int) : Int := (x + 2 ^ (w - 1)) % (2 ^ w : Int) - 2 ^ (w - 1)

def Ty.width : Ty → Nat
  | .bv w | .uns w | .sgn w => w
  | .bit => 1
  | _ => 0

def Ty.isVec : Ty → Bool
  | .bv _ | .uns _ | .sgn _ => true
  | _ => false

def Ty.isNum : Ty → Bool
  | .uns _ | .sgn _ => true
  | _ => false

/-- wrap a mathematical result into the value range of the type -/
def wrap : Ty → Int → Int
  | .uns w, x => wrapU w x
  | .bv w, x => wrapU w x
  | .sgn w, x => wrapS w x
  | _, x => x

/-- the bit pattern (as a natural number) of a value of the type -/
def pat : Ty → Int → Int
  | .sgn w, x => wrapU w x
  | .bv w, x => wrapU w x
  | .uns w, x => wrapU w x
  | _, x => x

/-- does the Python int fit the vector type (documented domain of mixed int operands) -/
def fits : Ty → Int → Bool
  | .uns w, k => 0 ≤ k && k < 2 ^ w
  | .bv w, k => 0 ≤ k && k < 2 ^ w
  | .sgn w, k => -(2 ^ (w - 1)) ≤ k && k < 2 ^ (w - 1)
  | .bit, k => k == 0 || k == 1
  | _, _ => false

def aop : AOp → Int → Int → Int
  | .add, x, y => x + y
  | .sub, x, y => x - y
  | .mul, x, y => x * y
  | .div, x, y => Int.tdiv x y      -- truncates toward zero
  | .rem, x, y => Int.tmod x y      -- sign of the dividend
  | .mod, x, y => Int.fmod x y      -- sign of the divisor

def lopN : LOp → Nat → Nat → Nat
  | .and, x, y => x &&& y
  | .or, x, y => x ||| y
  | .xor, x, y => x ^^^ y

def lopB : LOp → Bool → Bool → Bool
  | .and, x, y => x && y
  | .or, x, y => x || y
  | .xor, x, y => x != y

def copI : COp → Int → Int → Bool
  | .eq, x, y => x == y
  | .ne, x, y => x != y
  | .lt, x, y => x < y
  | .gt, x, y => y < x
  | .le, x, y => x ≤ y
  | .ge, x, y => y ≤ x

def COp.swap : COp → COp
  | .eq => .eq | .ne => .ne | .lt => .gt | .gt => .lt | .le => .ge | .ge => .le

def COp.isEq : COp → Bool
  | .eq | .ne => true
  | _ => false

/-! ## typing: the width rules of the property statement -/

def intVal : Expr → Option Int
  | .intc k => some k
  | _ => none

/-- result type of an arithmetic operator on two vector operands -/
def arithVV (op : AOp) (wa wb : Nat) : Nat :=
  match op with
  | .add | .sub => max wa wb
  | .mul => wa + wb
  | .div => wa
  | .mod | .rem => wb

/-- ... with one Python int operand: the int takes the vector operand's width -/
def arithVI (op : AOp) (w : Nat) : Nat :=
  match op with
  | .mul => w + w
  | _ => w

def mkNum (signed : Bool) (w : Nat) : Ty := if signed then .sgn w else .uns w

def arithTy (op : AOp) (ta tb : Ty) (ia ib : Option Int) : Except Err Ty :=
  match ta, tb with
  | .uns wa, .uns wb => .ok (.uns (arithVV op wa wb))
  | .sgn wa, .sgn wb => .ok (.sgn (arithVV op wa wb))
  | .uns w, .int => match ib with
      | some k => if fits (.uns w) k then .ok (.uns (arithVI op w)) else .error .intRange
      | none => .error .kind
  | .sgn w, .int => match ib with
      | some k => if fits (.sgn w) k then .ok (.sgn (arithVI op w)) else .error .intRange
      | none => .error .kind
  | .int, .uns w => match ia with
      | some k => if fits (.uns w) k then .ok (.uns (arithVI op w)) else .error .intRange
      | none => .error .kind
  | .int, .sgn w => match ia with
      | some k => if fits (.sgn w) k then .ok (.sgn (arithVI op w)) else .error .intRange
      | none => .error .kind
  | _, _ => .error .kind

def bitopTy (ta tb : Ty) : Except Err Ty :=
  match ta, tb with
  | .bit, .bit => .ok .bit
  | .bv wa, .bv wb => if wa = wb then .ok (.bv wa) else .error .width
  | .uns wa, .uns wb => if wa = wb then .ok (.uns wa) else .error .width
  | .sgn wa, .sgn wb => if wa = wb then .ok (.sgn wa) else .error .width
  | _, _ => .error .kind

def cmpTy (op : COp) (ta tb : Ty) (ia ib : Option Int) : Except Err Ty :=
  match ta, tb with
  | .uns _, .uns _ => .ok .bool
  | .sgn _, .sgn _ => .ok .bool
  | .uns _, .int => match ib with
      | some k => if 0 ≤ k then .ok .bool else .error .intRange
      | none => .error .kind
  | .int, .uns _ => match ia with
      | some k => if 0 ≤ k then .ok .bool else .error .intRange
      | none => .error .kind
  | .sgn _, .int => match ib with | some _ => .ok .bool | none => .error .kind
  | .int, .sgn _ => match ia with | some _ => .ok .bool | none => .error .kind
  | .bv wa, .bv wb => if op.isEq then (if wa = wb then .ok .bool else .error .width) else .error .kind
  | .bit, .bit => if op.isEq then .ok .bool else .error .kind
  | .bool, .bool => if op.isEq then .ok .bool else .error .kind
  | _, _ => .error .kind

def shiftTy (ta tn : Ty) (inn : Option Int) : Except Err Ty :=
  match ta, tn with
  | .uns w, .uns _ => .ok (.uns w)
  | .sgn w, .uns _ => .ok (.sgn w)
  | .uns w, .int => match inn with
      | some k => if 0 ≤ k then .ok (.uns w) else .error .intRange
      | none => .error .kind
  | .sgn w, .int => match inn with
      | some k => if 0 ≤ k then .ok (.sgn w) else .error .intRange
      | none => .error .kind
  | _, _ => .error .kind

def catW : Ty → Option Nat
  | .bit => some 1
  | .bv w | .uns w | .sgn w => some w
  | _ => none

def truthy : Ty → Bool
  | .bit | .bool | .bv _ | .uns _ | .sgn _ => true
  | .int => false

/-- implicit conversion on assignment: value preserving widening within one signedness, Unsigned into a strictly
    wider Signed, Unsigned / Signed into a BitVector of the same width and back (bit pattern) -/
def convTy (src tgt : Ty) : Except Err Ty :=
  match src, tgt with
  | .uns wa, .uns w => if wa ≤ w then .ok (.uns w) else .error .width
  | .sgn wa, .sgn w => if wa ≤ w then .ok (.sgn w) else .error .width
  | .uns wa, .sgn w => if wa < w then .ok (.sgn w) else .error .width
  | .uns wa, .bv w => if wa = w then .ok (.bv w) else .error .width
  | .sgn wa, .bv w => if wa = w then .ok (.bv w) else .error .width
  | .bv wa, .bv w => if wa = w then .ok (.bv w) else .error .width
  | .bv wa, .uns w => if wa = w then .ok (.uns w) else .error .width
  | .bv wa, .sgn w => if wa = w then .ok (.sgn w) else .error .width
  | .bit, .bit => .ok .bit
  | _, _ => .error .kind

def typeOf : Expr → Except Err Ty
  | .port _ t => match t with
      | .bit => .ok .bit
      | .bv w => if 1 ≤ w then .ok (.bv w) else .error .width
      | .uns w => if 1 ≤ w then .ok (.uns w) else .error .width
      | .sgn w => if 1 ≤ w then .ok (.sgn w) else .error .width
      | _ => .error .kind
  | .lit t v => match t with
      | .bit => if fits .bit v then .ok .bit else .error .intRange
      | .bv w => if 1 ≤ w then (if fits (.bv w) v then .ok (.bv w) else .error .intRange) else .error .width
      | .uns w => if 1 ≤ w then (if fits (.uns w) v then .ok (.uns w) else .error .intRange) else .error .width
      | .sgn w => if 1 ≤ w then (if fits (.sgn w) v then .ok (.sgn w) else .error .intRange) else .error .width
      | _ => .error .kind
  | .intc _ => .ok .int
  | .arith op a b => match typeOf a, typeOf b with
      | .ok ta, .ok tb => arithTy op ta tb (intVal a) (intVal b)
      | _, _ => .error .sub
  | .bitop _ a b => match typeOf a, typeOf b with
      | .ok ta, .ok tb => bitopTy ta tb
      | _, _ => .error .sub
  | .inv a => match typeOf a with
      | .ok .bit => .ok .bit
      | .ok (.bv w) => .ok (.bv w)
      | .ok (.uns w) => .ok (.uns w)
      | .ok (.sgn w) => .ok (.sgn w)
      | .ok _ => .error .kind
      | _ => .error .sub
  | .neg a => match typeOf a with
      | .ok (.sgn w) => .ok (.sgn w)
      | .ok (.uns w) => .ok (.uns w)
      | .ok _ => .error .kind
      | _ => .error .sub
  | .abs a => match typeOf a with
      | .ok (.sgn w) => .ok (.sgn w)
      | .ok _ => .error .kind
      | _ => .error .sub
  | .cmp op a b => match typeOf a, typeOf b with
      | .ok ta, .ok tb => cmpTy op ta tb (intVal a) (intVal b)
      | _, _ => .error .sub
  | .shl a n => match typeOf a, typeOf n with
      | .ok ta, .ok tn => shiftTy ta tn (intVal n)
      | _, _ => .error .sub
  | .shr a n => match typeOf a, typeOf n with
      | .ok ta, .ok tn => shiftTy ta tn (intVal n)
      | _, _ => .error .sub
  | .concat a b => match typeOf a, typeOf b with
      | .ok ta, .ok tb => match catW ta, catW tb with
          | some wa, some wb => .ok (.bv (wa + wb))
          | _, _ => .error .kind
      | _, _ => .error .sub
  | .index a i => match typeOf a with
      | .ok ta => if ta.isVec then (if i < ta.width then .ok .bit else .error .index) else .error .kind
      | _ => .error .sub
  | .slice a hi lo => match typeOf a with
      | .ok ta => if ta.isVec then (if lo ≤ hi ∧ hi < ta.width then .ok (.bv (hi - lo + 1)) else .error .index)
                  else .error .kind
      | _ => .error .sub
  | .indexRt a n => match typeOf a, typeOf n with
      | .ok ta, .ok (.uns k) => if ta.isVec then (if 2 ^ k ≤ ta.width then .ok .bit else .error .index) else .error .kind
      | .ok _, .ok _ => .error .kind
      | _, _ => .error .sub
  | .asSgn a => match typeOf a with
      | .ok ta => if ta.isVec then .ok (.sgn ta.width) else .error .kind
      | _ => .error .sub
  | .asUns a => match typeOf a with
      | .ok ta => if ta.isVec then .ok (.uns ta.width) else .error .kind
      | _ => .error .sub
  | .asBv a => match typeOf a with
      | .ok ta => if ta.isVec then .ok (.bv ta.width) else .error .kind
      | _ => .error .sub
  | .resize a w => match typeOf a with
      | .ok (.uns wa) => if wa ≤ w then .ok (.uns w) else .error .width
      | .ok (.sgn wa) => if wa ≤ w then .ok (.sgn w) else .error .width
      | .ok _ => .error .kind
      | _ => .error .sub
  | .truth a => match typeOf a with
      | .ok ta => if truthy ta then .ok .bool else .error .kind
      | _ => .error .sub
  | .lnot a => match typeOf a with
      | .ok ta => if truthy ta then .ok .bool else .error .kind
      | _ => .error .sub
  | .land a b => match typeOf a, typeOf b with
      | .ok ta, .ok tb => if truthy ta && truthy tb then .ok .bool else .error .kind
      | _, _ => .error .sub
  | .lor a b => match typeOf a, typeOf b with
      | .ok ta, .ok tb => if truthy ta && truthy tb then .ok .bool else .error .kind
      | _, _ => .error .sub
  | .ite c a b => match typeOf c, typeOf a, typeOf b with
      | .ok tc, .ok ta, .ok tb =>
          if truthy tc then (if ta = tb ∧ ta ≠ .int then .ok ta else .error .kind) else .error .kind
      | _, _, _ => .error .sub
  | .sel arg key e rest => match typeOf arg, typeOf e, typeOf rest with
      | .ok targ, .ok te, .ok tr =>
          if (targ.isVec || targ == .bit) then
            (if fits targ key then (if te = tr ∧ te ≠ .int then .ok te else .error .kind) else .error .intRange)
          else .error .kind
      | _, _, _ => .error .sub
  | .conv a t => match typeOf a with
      | .ok ta => convTy ta t
      | _ => .error .sub

/-! ## the documented value -/

def readPort (t : Ty) (x : Int) : Val :=
  match t with
  | .bit | .bool => .b (x != 0)
  | t => .n (wrap t x)

def Val.num : Val → Int
  | .n x => x
  | .b x => if x then 1 else 0

def Val.tru : Val → Bool
  | .b x => x
  | .n x => x != 0

def tyOr (e : Except Err Ty) : Ty := match e with | .ok t => t | _ => .int

def evalSpec (e : Expr) (env : Env) : Val :=
  match e with
  | .port i t => readPort t (env.getD i 0)
  | .lit t v => match t with
      | .bit | .bool => .b (v != 0)
      | _ => .n v
  | .intc k => .n k
  | .arith op a b =>
      .n (wrap (tyOr (typeOf (.arith op a b))) (aop op (evalSpec a env).num (evalSpec b env).num))
  | .bitop op a b =>
      match tyOr (typeOf a) with
      | .bit => .b (lopB op (evalSpec a env).tru (evalSpec b env).tru)
      | ta => .n (wrap ta (lopN op (pat ta (evalSpec a env).num).toNat (pat ta (evalSpec b env).num).toNat))
  | .inv a =>
      match tyOr (typeOf a) with
      | .bit => .b (!(evalSpec a env).tru)
      | .sgn _ => .n (-(evalSpec a env).num - 1)
      | ta => .n (2 ^ ta.width - 1 - (evalSpec a env).num)
  | .neg a => .n (wrap (tyOr (typeOf a)) (-(evalSpec a env).num))
  | .abs a => .n (wrap (tyOr (typeOf a)) (Int.natAbs (evalSpec a env).num))
  | .cmp op a b => .b (copI op (evalSpec a env).num (evalSpec b env).num)
  | .shl a n => .n (wrap (tyOr (typeOf a)) ((evalSpec a env).num * 2 ^ (evalSpec n env).num.toNat))
  | .shr a n => .n ((evalSpec a env).num / 2 ^ (evalSpec n env).num.toNat)   -- floor: logical / arithmetic
  | .concat a b =>
      let ta := tyOr (typeOf a); let tb := tyOr (typeOf b)
      .n (pat ta (evalSpec a env).num * 2 ^ tb.width + pat tb (evalSpec b env).num)
  | .index a i => .b ((pat (tyOr (typeOf a)) (evalSpec a env).num / 2 ^ i) % 2 == 1)
  | .slice a hi lo => .n ((pat (tyOr (typeOf a)) (evalSpec a env).num / 2 ^ lo) % 2 ^ (hi - lo + 1))
  | .indexRt a n =>
      .b ((pat (tyOr (typeOf a)) (evalSpec a env).num / 2 ^ (evalSpec n env).num.toNat) % 2 == 1)
  | .asSgn a => let ta := tyOr (typeOf a); .n (wrapS ta.width (pat ta (evalSpec a env).num))
  | .asUns a => .n (pat (tyOr (typeOf a)) (evalSpec a env).num)
  | .asBv a => .n (pat (tyOr (typeOf a)) (evalSpec a env).num)
  | .resize a _ => .n (evalSpec a env).num          -- zero / sign extension preserves the value
  | .truth a => .b (evalSpec a env).tru
  | .lnot a => .b (!(evalSpec a env).tru)
  | .land a b => .b ((evalSpec a env).tru && (evalSpec b env).tru)
  | .lor a b => .b ((evalSpec a env).tru || (evalSpec b env).tru)
  | .ite c a b => if (evalSpec c env).tru then evalSpec a env else evalSpec b env
  | .sel arg key e rest =>
      if (evalSpec arg env).num == key then evalSpec e env else evalSpec rest env
  | .conv a t =>
      -- the numeric value is preserved (zero extension of Unsigned, sign extension of Signed); to / from a
      -- BitVector the bit pattern is preserved
      match tyOr (typeOf a), t with
      | .bit, _ => evalSpec a env
      | .uns _, .bv _ => .n (evalSpec a env).num
      | ta, .bv _ => .n (pat ta (evalSpec a env).num)
      | .bv w, .sgn _ => .n (wrapS w (evalSpec a env).num)
      | _, _ => .n (evalSpec a env).num

/-- the documented domain: no division by zero anywhere in the expression (hardware evaluates every
    sub-expression, also those of branches not taken) -/
def defined (e : Expr) (env : Env) : Bool :=
  match e with
  | .port _ _ | .lit _ _ | .intc _ => true
  | .arith op a b =>
      defined a env && defined b env &&
        (match op with
         | .div | .mod | .rem => (evalSpec b env).num != 0
         | _ => true)
  | .bitop _ a b | .cmp _ a b | .shl a b | .shr a b | .concat a b | .indexRt a b | .land a b | .lor a b =>
      defined a env && defined b env
  | .inv a | .neg a | .abs a | .index a _ | .slice a _ _ | .asSgn a | .asUns a | .asBv a | .resize a _
  | .truth a | .lnot a | .conv a _ => defined a env
  | .ite c a b => defined c env && defined a env && defined b env
  | .sel arg _ e rest => defined arg env && defined e env && defined rest env

/-! ## the emitted VHDL -/

inductive VK where | slv | uns | sgn
  deriving DecidableEq, Repr

inductive VVal where
  | sl (b : Bool)
  | bool (b : Bool)
  | int (i : Int)
  | vec (k : VK) (w : Nat) (p : Nat)     -- p < 2^w : bit pattern, leftmost bit most significant
  | err
  deriving DecidableEq, Repr, Inhabited

inductive VBin where | add | sub | mul | div | mod | rem | and | or | xor | cat
  deriving DecidableEq, Repr

inductive VExpr where
  | port (i : Nat) (t : Ty)
  | int (k : Int)
  | vlit (k : VK) (w : Nat) (p : Nat)          -- unsigned'("0101") signed'(..) "0101"
  | slit (b : Bool)                            -- '0' '1'
  | bin (op : VBin) (a b : VExpr)              -- (a) op (b)
  | rel (op : COp) (a b : VExpr)               -- (a op b)
  | vnot (a : VExpr)                           -- not (a)
  | vneg (a : VExpr)                           -- -(a)
  | vabs (a : VExpr)                           -- abs(a)
  | conv (k : VK) (a : VExpr)                  -- unsigned(a) signed(a) std_logic_vector(a)
  | toInteger (a : VExpr)
  | resize (a : VExpr) (w : Nat)
  | shiftL (a n : VExpr)
  | shiftR (a n : VExpr)
  | index (a i : VExpr)                        -- a(i)
  | slice (a : VExpr) (hi lo : Nat)            -- a(hi downto lo)
  | ite (c a b : VExpr)                        -- with c select t <= a when true, b when others
  | sel (arg key e rest : VExpr)               -- with arg select t <= e when key, rest...
  deriving Repr, Inhabited

def VBin.ofA : AOp → VBin
  | .add => .add | .sub => .sub | .mul => .mul | .div => .div | .mod => .mod | .rem => .rem
def VBin.ofL : LOp → VBin
  | .and => .and | .or => .or | .xor => .xor

def vkOf : Ty → VK
  | .uns _ => .uns
  | .sgn _ => .sgn
  | _ => .slv

/-- cast of a truthy operand to `boolean` (format_cast with target bool) -/
def toBool (t : Ty) (x : VExpr) : VExpr :=
  match t with
  | .bool => x
  | .bit => .rel .eq x (.slit true)
  | .uns _ => .rel .ne x (.int 0)
  | .sgn _ => .rel .ne x (.int 0)
  | .bv w => .rel .ne x (.vlit .slv w 0)
  | .int => .rel .ne x (.int 0)

def enc (w : Nat) (x : Int) : Nat := (x % (2 ^ w : Int)).toNat

def litV (t : Ty) (v : Int) : VExpr :=
  match t with
  | .bit | .bool => .slit (v != 0)
  | .int => .int v
  | t => .vlit (vkOf t) t.width (enc t.width v)

def lower (e : Expr) : VExpr :=
  match e with
  | .port i t => .port i t
  | .lit t v => litV t v
  | .intc k => .int k
  | .arith op a b => .bin (.ofA op) (lower a) (lower b)
  | .bitop op a b => .bin (.ofL op) (lower a) (lower b)
  | .inv a => .vnot (lower a)
  | .neg a =>
      -- numeric_std has no unary minus for UNSIGNED: the (fixed, fixes/C02-neg-unsigned.patch) back end prints
      -- `(0) - (a)`; the pinned tree printed `-(a)`, which is not legal VHDL
      match tyOr (typeOf a) with
      | .uns _ => .bin .sub (.int 0) (lower a)
      | _ => .vneg (lower a)
  | .abs a => .vabs (lower a)
  | .cmp op a b =>
      -- Python reflects `3 < a` into `a > 3`
      match tyOr (typeOf a), tyOr (typeOf b) with
      | .int, .int => .rel op (lower a) (lower b)
      | .int, _ => .rel op.swap (lower b) (lower a)
      | _, _ => .rel op (lower a) (lower b)
  | .shl a n => .shiftL (lower a) (match tyOr (typeOf n) with | .int => lower n | _ => .toInteger (lower n))
  | .shr a n => .shiftR (lower a) (match tyOr (typeOf n) with | .int => lower n | _ => .toInteger (lower n))
  | .concat a b =>
      let ca := match tyOr (typeOf a) with | .uns _ | .sgn _ => .conv .slv (lower a) | _ => lower a
      let cb := match tyOr (typeOf b) with | .uns _ | .sgn _ => .conv .slv (lower b) | _ => lower b
      .bin .cat ca cb
  | .index a i => .index (lower a) (.int i)
  | .slice a hi lo =>
      match tyOr (typeOf a) with
      | .uns _ => .conv .slv (.conv .uns (.slice (lower a) hi lo))
      | .sgn _ => .conv .slv (.conv .sgn (.slice (lower a) hi lo))
      | _ => .conv .slv (.slice (lower a) hi lo)
  | .indexRt a n => .index (lower a) (.toInteger (lower n))
  | .asSgn a => match tyOr (typeOf a) with
      | .sgn _ => lower a
      | .uns _ => .conv .sgn (.conv .slv (lower a))
      | _ => .conv .sgn (lower a)
  | .asUns a => match tyOr (typeOf a) with
      | .uns _ => lower a
      | .sgn _ => .conv .uns (.conv .slv (lower a))
      | _ => .conv .uns (lower a)
  | .asBv a => match tyOr (typeOf a) with
      | .bv _ => lower a
      | _ => .conv .slv (lower a)
  | .resize a w => if (tyOr (typeOf a)).width = w then lower a else .resize (lower a) w
  | .truth a => toBool (tyOr (typeOf a)) (lower a)
  | .lnot a => .vnot (toBool (tyOr (typeOf a)) (lower a))
  | .land a b => .bin .and (toBool (tyOr (typeOf a)) (lower a)) (toBool (tyOr (typeOf b)) (lower b))
  | .lor a b => .bin .or (toBool (tyOr (typeOf a)) (lower a)) (toBool (tyOr (typeOf b)) (lower b))
  | .ite c a b => .ite (toBool (tyOr (typeOf c)) (lower c)) (lower a) (lower b)
  | .sel arg key e rest => .sel (lower arg) (litV (tyOr (typeOf arg)) key) (lower e) (lower rest)
  | .conv a t =>
      -- VhdlScope.format_cast: the value string wrapped in the casts needed to drive the target
      match tyOr (typeOf a), t with
      | .uns wa, .uns w => if wa = w then lower a else .resize (lower a) w
      | .sgn wa, .sgn w => if wa = w then lower a else .resize (lower a) w
      | .uns _, .sgn w => .conv .sgn (.conv .slv (.resize (lower a) w))   -- resize on the UNSIGNED value: zero extension
      | .uns _, .bv _ => .conv .slv (lower a)
      | .sgn _, .bv _ => .conv .slv (lower a)
      | .bv _, .uns _ => .conv .uns (lower a)
      | .bv _, .sgn _ => .conv .sgn (lower a)
      | _, _ => lower a

/-! ## numeric_std / std_logic_1164 on defined values -/

/-- two's complement reading of a `w`-bit pattern -/
def sInt (w p : Nat) : Int := if p < 2 ^ (w - 1) then (p : Int) else (p : Int) - 2 ^ w

/-- TO_INTEGER -/
def dec (k : VK) (w p : Nat) : Int :=
  match k with
  | .sgn => sInt w p
  | _ => (p : Int)

/-- RESIZE: unsigned zero-extends / truncates on the left; signed replicates the sign bit when growing
    and keeps the sign bit plus the `w'-1` rightmost bits when shrinking -/
def vresize (k : VK) (w p w' : Nat) : Nat :=
  match k with
  | .sgn =>
      if w ≤ w' then (if p < 2 ^ (w - 1) then p else p + (2 ^ w' - 2 ^ w))
      else (p / 2 ^ (w - 1)) * 2 ^ (w' - 1) + p % 2 ^ (w' - 1)
  | _ => p % 2 ^ w'

/-- numeric_std division family: computed on magnitudes, sign fixed afterwards (package body of
    "/", "rem", "mod" for SIGNED; for UNSIGNED the magnitudes are the operands) -/
def nsDiv (x y : Int) : Int :=
  let q : Int := (x.natAbs / y.natAbs : Nat)
  if (x < 0) != (y < 0) then -q else q

def nsRem (x y : Int) : Int :=
  let r : Int := (x.natAbs % y.natAbs : Nat)
  if x < 0 then -r else r

def nsMod (x y : Int) : Int :=
  let r : Int := (x.natAbs % y.natAbs : Nat)
  if x < 0 ∧ y < 0 then -r
  else if x < 0 ∧ r ≠ 0 then y - r
  else if y < 0 ∧ r ≠ 0 then y + r
  else r

def nsOp : VBin → Int → Int → Int
  | .add, x, y => x + y
  | .sub, x, y => x - y
  | .mul, x, y => x * y
  | .div, x, y => nsDiv x y
  | .rem, x, y => nsRem x y
  | .mod, x, y => nsMod x y
  | _, _, _ => 0

def VBin.isArith : VBin → Bool
  | .add | .sub | .mul | .div | .mod | .rem => true
  | _ => false

def VBin.isDiv : VBin → Bool
  | .div | .mod | .rem => true
  | _ => false

def VBin.isLogic : VBin → Bool
  | .and | .or | .xor => true
  | _ => false

def vvW (op : VBin) (wa wb : Nat) : Nat :=
  match op with
  | .add | .sub => max wa wb
  | .mul => wa + wb
  | .div => wa
  | _ => wb

/-- arithmetic on two vectors of the same numeric kind: operands of + and - are resized to the larger
    length first; * has the sum of the lengths, / the left length, rem / mod the right length -/
def arithVecVec (op : VBin) (k : VK) (wa pa wb pb : Nat) : VVal :=
  if op.isDiv && pb == 0 then .err else
  let W := vvW op wa wb
  match op with
  | .add | .sub =>
      .vec k W (enc W (nsOp op (dec k W (vresize k wa pa W)) (dec k W (vresize k wb pb W))))
  | _ => .vec k W (enc W (nsOp op (dec k wa pa) (dec k wb pb)))

/-- the integer operand of + - * is converted with TO_UNSIGNED / TO_SIGNED to the vector's length
    (TO_UNSIGNED takes a NATURAL); / rem mod are computed exactly and truncated to the vector's length -/
def arithVecInt (op : VBin) (k : VK) (w p : Nat) (i : Int) (intLeft : Bool) : VVal :=
  if k == .uns && i < 0 then .err else
  let x := dec k w p
  if op.isDiv then
    (if (if intLeft then x else i) == 0 then .err
     else .vec k w (enc w (if intLeft then nsOp op i x else nsOp op x i)))
  else
    let i' := dec k w (enc w i)
    let W := match op with | .mul => w + w | _ => w
    .vec k W (enc W (if intLeft then nsOp op i' x else nsOp op x i'))

def lopV : VBin → Nat → Nat → Nat
  | .and, x, y => x &&& y
  | .or, x, y => x ||| y
  | .xor, x, y => x ^^^ y
  | _, _, _ => 0

def lopVB : VBin → Bool → Bool → Bool
  | .and, x, y => x && y
  | .or, x, y => x || y
  | .xor, x, y => x != y
  | _, _, _ => false

def vbin (op : VBin) (a b : VVal) : VVal :=
  match op with
  | .cat =>
      match a, b with
      | .vec ka wa pa, .vec kb wb pb => if ka = kb then .vec ka (wa + wb) (pa * 2 ^ wb + pb) else .err
      | .sl x, .vec kb wb pb => .vec kb (1 + wb) ((if x then 1 else 0) * 2 ^ wb + pb)
      | .vec ka wa pa, .sl y => .vec ka (wa + 1) (pa * 2 + (if y then 1 else 0))
      | .sl x, .sl y => .vec .slv 2 ((if x then 1 else 0) * 2 + (if y then 1 else 0))
      | _, _ => .err
  | .and | .or | .xor =>
      match a, b with
      | .sl x, .sl y => .sl (lopVB op x y)
      | .bool x, .bool y => .bool (lopVB op x y)
      | .vec ka wa pa, .vec kb wb pb => if ka = kb ∧ wa = wb then .vec ka wa (lopV op pa pb) else .err
      | _, _ => .err
  | _ =>
      match a, b with
      | .vec ka wa pa, .vec kb wb pb => if ka = kb ∧ ka ≠ .slv then arithVecVec op ka wa pa wb pb else .err
      | .vec ka wa pa, .int i => if ka ≠ .slv then arithVecInt op ka wa pa i false else .err
      | .int i, .vec kb wb pb => if kb ≠ .slv then arithVecInt op kb wb pb i true else .err
      | .int i, .int j => if op.isDiv && j == 0 then .err else .int (nsOp op i j)
      | _, _ => .err

def vrel (op : COp) (a b : VVal) : VVal :=
  match a, b with
  | .vec ka wa pa, .vec kb wb pb =>
      if ka = kb then
        (match ka with
         | .slv => if op.isEq then (if wa = wb then .bool (copI op pa pb) else .err) else .err
         | k => .bool (copI op (dec k wa pa) (dec k wb pb)))
      else .err
  | .vec ka wa pa, .int i =>
      (match ka with
       | .slv => .err
       | .uns => if i < 0 then .err else .bool (copI op pa i)
       | .sgn => .bool (copI op (sInt wa pa) i))
  | .int i, .vec kb wb pb =>
      (match kb with
       | .slv => .err
       | .uns => if i < 0 then .err else .bool (copI op i pb)
       | .sgn => .bool (copI op i (sInt wb pb)))
  | .int i, .int j => .bool (copI op i j)
  | .sl x, .sl y => if op.isEq then .bool (copI op (if x then 1 else 0) (if y then 1 else 0)) else .err
  | .bool x, .bool y => if op.isEq then .bool (copI op (if x then 1 else 0) (if y then 1 else 0)) else .err
  | _, _ => .err

def vnot : VVal → VVal
  | .sl x => .sl (!x)
  | .bool x => .bool (!x)
  | .vec k w p => .vec k w (2 ^ w - 1 - p)
  | _ => .err

/-- unary minus and abs exist for SIGNED (and integer) only -/
def vneg : VVal → VVal
  | .vec .sgn w p => .vec .sgn w (enc w (-(sInt w p)))
  | .int i => .int (-i)
  | _ => .err

def vabs : VVal → VVal
  | .vec .sgn w p => .vec .sgn w (enc w (Int.natAbs (sInt w p)))
  | .int i => .int (Int.natAbs i)
  | _ => .err

def vconv (k : VK) : VVal → VVal
  | .vec _ w p => .vec k w p
  | _ => .err

def vtoInteger : VVal → VVal
  | .vec .uns _ p => .int p
  | .vec .sgn w p => .int (sInt w p)
  | _ => .err

def vresizeV (a : VVal) (w' : Nat) : VVal :=
  match a with
  | .vec .uns w p => .vec .uns w' (vresize .uns w p w')
  | .vec .sgn w p => .vec .sgn w' (vresize .sgn w p w')
  | _ => .err

/-- SHIFT_LEFT fills with '0'; SHIFT_RIGHT fills with '0' (UNSIGNED) or the sign bit (SIGNED) -/
def vshiftL (a n : VVal) : VVal :=
  match a, n with
  | .vec k w p, .int i => if k = .slv ∨ i < 0 then .err else .vec k w ((p * 2 ^ i.toNat) % 2 ^ w)
  | _, _ => .err

def vshiftR (a n : VVal) : VVal :=
  match a, n with
  | .vec .uns w p, .int i => if i < 0 then .err else .vec .uns w (p / 2 ^ i.toNat)
  | .vec .sgn w p, .int i =>
      if i < 0 then .err else
      let s := i.toNat
      if p < 2 ^ (w - 1) then .vec .sgn w (p / 2 ^ s)
      else .vec .sgn w (p / 2 ^ s + (2 ^ w - 2 ^ (w - min s w)))
  | _, _ => .err

def vindex (a i : VVal) : VVal :=
  match a, i with
  | .vec _ w p, .int j => if 0 ≤ j ∧ j < w then .sl ((p / 2 ^ j.toNat) % 2 == 1) else .err
  | _, _ => .err

def vslice (a : VVal) (hi lo : Nat) : VVal :=
  match a with
  | .vec k w p => if lo ≤ hi ∧ hi < w then .vec k (hi - lo + 1) ((p / 2 ^ lo) % 2 ^ (hi - lo + 1)) else .err
  | _ => .err

def VVal.sameType : VVal → VVal → Bool
  | .sl _, .sl _ => true
  | .bool _, .bool _ => true
  | .int _, .int _ => true
  | .vec k w _, .vec k' w' _ => k == k' && w == w'
  | _, _ => false

/-- value of a port as a VHDL object of the port's type -/
def inj (t : Ty) (v : Val) : VVal :=
  match t, v with
  | .bit, .b x => .sl x
  | .bool, .b x => .bool x
  | .bv w, .n x => .vec .slv w (enc w x)
  | .uns w, .n x => .vec .uns w (enc w x)
  | .sgn w, .n x => .vec .sgn w (enc w x)
  | .int, .n x => .int x
  | _, _ => .err

def evalV (e : VExpr) (env : Env) : VVal :=
  match e with
  | .port i t => inj t (readPort t (env.getD i 0))
  | .int k => .int k
  | .vlit k w p => .vec k w p
  | .slit b => .sl b
  | .bin op a b => vbin op (evalV a env) (evalV b env)
  | .rel op a b => vrel op (evalV a env) (evalV b env)
  | .vnot a => vnot (evalV a env)
  | .vneg a => vneg (evalV a env)
  | .vabs a => vabs (evalV a env)
  | .conv k a => vconv k (evalV a env)
  | .toInteger a => vtoInteger (evalV a env)
  | .resize a w => vresizeV (evalV a env) w
  | .shiftL a n => vshiftL (evalV a env) (evalV n env)
  | .shiftR a n => vshiftR (evalV a env) (evalV n env)
  | .index a i => vindex (evalV a env) (evalV i env)
  | .slice a hi lo => vslice (evalV a env) hi lo
  | .ite c a b =>
      match evalV c env, evalV a env, evalV b env with
      | .bool x, va, vb => if va.sameType vb then (if x then va else vb) else .err
      | _, _, _ => .err
  | .sel arg key e rest =>
      match evalV arg env, evalV key env, evalV e env, evalV rest env with
      | va, vk, ve, vr =>
          if va.sameType vk && ve.sameType vr && va != .err && ve != .err then (if va == vk then ve else vr) else .err

end CohdlVerif.C02
