/-
  C13 part A - executable model of the lazily created, cached parametrised classes of cohdl:
    cohdl/_core/_bit_vector.py   `_BitVector.__getitem__`   (BitVector / Unsigned / Signed `_SubTypes`)
    cohdl/_core/_array.py        `_MetaArray.__getitem__`   (Array `_SubTypes`)
    cohdl/_core/_type_qualifier.py `_TypeQualifier.__getitem__` (Signal / Port / Variable / Temporary `_SubTypes`)

  A class is identified by its position in the class table (`St`), exactly like a Python class object is
  identified by its address.  A cache lookup (`find`) searches the table for the parameter tuple
  (`Key`); a miss creates the bases first (recursively, left to right, like the evaluation of the
  `bases` tuple in the Python code), then appends the new class with the ids of the bases it got.
  `issub` is reachability along the stored base ids, `mroTable` is Python's C3 linearisation
  (`type.__new__` raises TypeError when it fails: modelled as `none`).

  Parameter tuples that contain a class object (`Array[T, n]`, `Q[T]`) are represented by the structural
  key of `T`; this is the same thing as the identity of `T` as long as `T` itself is canonical, which is
  what `C13.canonical` establishes level by level (vectors have integer keys; arrays / qualified types are
  keyed by already canonical element / wrapped types).

  Import-free: compiled into the driver.
-/
namespace CohdlVerif.C13

/-- the classes that exist after `import cohdl` (never created lazily) -/
inductive Root where
  | object | primType | bit | boolean | integer | bitvector | unsigned | signed | array
  | tqBase | tq | signal | port | variable | temporary
  deriving DecidableEq, Repr

inductive VKind where | bv | uns | sgn
  deriving DecidableEq, Repr
inductive Order where | downto | upto
  deriving DecidableEq, Repr
inductive QKind where | signal | port | variable | temporary
  deriving DecidableEq, Repr
inductive Dir where | input | output | inout
  deriving DecidableEq, Repr

/-- parameter tuple of a class = what the `_SubTypes` dictionaries are keyed by (plus the family).
    `anon` is the unnamed intermediate class `type(cls.__name__, (cls[Unsigned], cls[BitVector[w]]), {})`
    that `_TypeQualifier.__getitem__` builds as the parent of `Q[Unsigned[w]]` / `Q[Signed[w]]`. -/
inductive Key where
  | root (r : Root)
  | vec (k : VKind) (o : Order) (w : Nat)
  | arr (e : Key) (n : Nat)
  | q (qk : QKind) (d : Option Dir) (t : Key)
  | anon (qk : QKind) (d : Option Dir) (k : VKind) (o : Order) (w : Nat)
  deriving DecidableEq, Repr

def kroot : VKind → Root
  | .bv => .bitvector | .uns => .unsigned | .sgn => .signed

def qroot : QKind → Root
  | .signal => .signal | .port => .port | .variable => .variable | .temporary => .temporary

/-- `__bases__` of the import-time classes -/
def rootBases : Root → List Key
  | .object => []
  | .primType => [.root .object]
  | .bit => [.root .primType]
  | .boolean => [.root .primType]
  | .integer => [.root .primType]
  | .bitvector => [.root .primType]
  | .unsigned => [.root .bitvector]
  | .signed => [.root .bitvector]
  | .array => [.root .primType]
  | .tqBase => [.root .object]
  | .tq => [.root .tqBase]
  | .signal => [.root .tq]
  | .port => [.root .signal]
  | .variable => [.root .tq]
  | .temporary => [.root .tq]

/-- `parent_cls` of `_TypeQualifier.__getitem__` (the if-tree l.166-224) -/
def qParent (qk : QKind) (d : Option Dir) : Key → Key
  | .vec k o w => match k with
      | .bv => .q qk d (.root .bitvector)            -- has `_width`, neither Unsigned nor Signed
      | .uns => .anon qk d .uns o w
      | .sgn => .anon qk d .sgn o w
  | .root r => match r with
      | .bitvector => .root (qroot qk)               -- `WrappedType is BitVector`: parent_cls = cls
      | .unsigned => .q qk d (.root .bitvector)
      | .signed => .q qk d (.root .bitvector)
      | _ => .root (qroot qk)                        -- not a BitVector: parent_cls = cls
  | _ => .root (qroot qk)

/-- the bases tuple each lazily created class is given -/
def baseKeys : Key → List Key
  | .root r => rootBases r
  | .vec k _ w => match k with
      | .bv => [.root .bitvector]                                    -- `(cls,)`
      | .uns => [.root .unsigned, .vec .bv .downto w]                -- `(cls, BitVector[width])`
      | .sgn => [.root .signed, .vec .bv .downto w]
  | .arr _ _ => [.root .array]
  | .anon qk d k _ w => [.q qk d (.root (kroot k)), .q qk d (.vec .bv .downto w)]
  | .q qk d t => match qk with
      | .port => [qParent .port d t, .q .signal none t]              -- `(parent_cls, Signal[WrappedType])`
      | qk => [qParent qk d t]

/-- nesting depth of the base graph below a key (bounds the recursion of `ensure`) -/
def rank : Key → Nat
  | .root r => match r with
      | .object => 0
      | .primType => 1 | .tqBase => 1
      | .bit => 2 | .boolean => 2 | .integer => 2 | .bitvector => 2 | .array => 2 | .tq => 2
      | .unsigned => 3 | .signed => 3 | .signal => 3 | .variable => 3 | .temporary => 3
      | .port => 4
  | .vec k _ _ => match k with | .bv => 3 | _ => 4
  | .arr _ _ => 3
  | .anon qk _ _ _ _ => match qk with | .port => 7 | _ => 6
  | .q qk _ t =>
      (match qk with | .port => 1 | _ => 0) +
      (match t with
        | .vec k _ _ => (match k with | .bv => 5 | _ => 7)
        | .root r => (match r with | .unsigned => 5 | .signed => 5 | _ => 4)
        | _ => 4)

/-- a class object: its parameter tuple (`_width/_order`, `_elemtype_/_count_`, `_Wrapped/_direction`)
    and the ids of its `__bases__` -/
structure Cls where
  key : Key
  bases : List Nat
  deriving Repr, DecidableEq

/-- class table; the id of a class is its position -/
abbrev St := List Cls

/-- dictionary lookup `type_spec in cls._SubTypes` -/
def find : St → Key → Option Nat
  | [], _ => none
  | c :: cs, k => if c.key = k then some 0 else (find cs k).map (· + 1)

def ensureAll (ens : St → Key → Option (St × Nat)) : St → List Key → Option (St × List Nat)
  | st, [] => some (st, [])
  | st, b :: bs =>
    match ens st b with
    | none => none
    | some (st1, i) =>
      match ensureAll ens st1 bs with
      | none => none
      | some (st2, is) => some (st2, i :: is)

/-- `__getitem__`: return the cached class or create it (bases first, in tuple order).
    `none` only when the recursion bound is exhausted (`C13.creation_never_fails`: never). -/
def ensure : Nat → St → Key → Option (St × Nat)
  | 0, _, _ => none
  | f + 1, st, k =>
    match find st k with
    | some i => some (st, i)
    | none =>
      match ensureAll (ensure f) st (baseKeys k) with
      | none => none
      | some (st', ids) => some (st' ++ [⟨k, ids⟩], st'.length)

def fuel : Nat := 10

/-- table after `import cohdl` -/
def allRoots : List Root :=
  [.object, .primType, .bit, .boolean, .integer, .bitvector, .unsigned, .signed, .array,
   .tqBase, .tq, .signal, .port, .variable, .temporary]

def initSt : St :=
  allRoots.foldl (fun st r => match ensure fuel st (.root r) with | some (st', _) => st' | none => st) []

/-- `is_primitive_type(elemtype)` -/
def isPrim : Key → Bool
  | .root r => match r with
      | .primType | .bit | .boolean | .integer | .bitvector | .unsigned | .signed | .array => true
      | _ => false
  | .vec _ _ _ => true
  | .arr _ _ => true
  | _ => false

/-- ports need a direction, every other qualifier rejects one (the two asserts l.226-234) -/
def dirOk : QKind → Option Dir → Bool
  | .port, some _ => true
  | .port, none => false
  | _, none => true
  | _, some _ => false

def ens (st : St) (k : Key) : St × Option Nat :=
  match ensure fuel st k with
  | some (st', i) => (st', some i)
  | none => (st, none)

/-- evaluation of a user level type expression such as `Port[Array[Unsigned[3], 4], INPUT]`:
    arguments first, then the subscript.  `none` = the expression raises (AssertionError). -/
def evalReq : St → Key → St × Option Nat
  | st, .root r => (st, find st (.root r))
  | st, .vec k o w => if w = 0 then (st, none) else ens st (.vec k o w)
  | st, .arr e n =>
    match evalReq st e with
    | (st1, none) => (st1, none)
    | (st1, some _) => if isPrim e then ens st1 (.arr e n) else (st1, none)
  | st, .q qk d t =>
    match evalReq st t with
    | (st1, none) => (st1, none)
    | (st1, some _) => if dirOk qk d then ens st1 (.q qk d t) else (st1, none)
  | st, .anon .. => (st, none)

/-- a history of requests, in any order: final table and the result of every request -/
def runHist : St → List Key → St × List (Option Nat)
  | st, [] => (st, [])
  | st, k :: ks =>
    let r := evalReq st k
    let rest := runHist r.1 ks
    (rest.1, r.2 :: rest.2)

/-! ## issubclass -/

def basesOf (st : St) (a : Nat) : List Nat := match st[a]? with | some c => c.bases | none => []

/-- reachability along `__bases__` (depth bounded by `f`) -/
def reach : Nat → St → Nat → Nat → Bool
  | 0, _, a, b => a == b
  | f + 1, st, a, b => a == b || (basesOf st a).any (fun c => reach f st c b)

/-- `issubclass(a, b)` -/
def issub (st : St) (a b : Nat) : Bool := reach st.length st a b

/-- key level reflexive-transitive closure of `baseKeys` (specification side of `issub`) -/
def anc : Nat → Key → List Key
  | 0, k => [k]
  | f + 1, k => k :: (baseKeys k).flatMap (anc f)

/-- the documented lattice, closed form, for two qualified vector types
    `Q1[K1[o1, w1]]` and `Q2[K2[o2, w2]]` -/
def qvecLe (q1 : QKind) (d1 : Option Dir) (k1 : VKind) (o1 : Order) (w1 : Nat)
    (q2 : QKind) (d2 : Option Dir) (k2 : VKind) (o2 : Order) (w2 : Nat) : Prop :=
  ((q2 = q1 ∧ d2 = d1) ∨ (q1 = .port ∧ q2 = .signal ∧ d2 = none)) ∧ w2 = w1 ∧
  ((k2 = k1 ∧ o2 = o1) ∨ (k1 ≠ .bv ∧ k2 = .bv ∧ o2 = .downto))

/-! ## C3 linearisation (`type.__new__` -> `mro()`) -/

def inTail {α : Type} [DecidableEq α] (x : α) (l : List α) : Bool := match l with | [] => false | _ :: t => t.contains x

/-- first head that is in no tail -/
def pickHead {α : Type} [DecidableEq α] (ls : List (List α)) : List (List α) → Option α
  | [] => none
  | l :: rest =>
    match l with
    | [] => pickHead ls rest
    | h :: _ => if ls.any (inTail h) then pickHead ls rest else some h

/-- remove a chosen head from the front of a list -/
def dropHead {α : Type} [DecidableEq α] (h : α) : List α → List α
  | [] => []
  | x :: t => if x = h then t else x :: t

/-- C3 merge (generic in the element type: class ids in the table, parameter tuples in the specification) -/
def c3merge {α : Type} [DecidableEq α] : Nat → List (List α) → Option (List α)
  | 0, _ => none
  | f + 1, ls =>
    let ls := ls.filter (· ≠ [])
    if ls.isEmpty then some []
    else match pickHead ls ls with
      | none => none
      | some h =>
        match c3merge f (ls.map (dropHead h)) with
        | none => none
        | some r => some (h :: r)

/-- the MRO of an earlier class -/
def lookupMro (tbl : List (Option (List Nat))) (b : Nat) : Option (List Nat) :=
  match tbl[b]? with | some (some m) => some m | _ => none

/-- `mro()` of a new class `c`, given the MROs of the classes created before it:
    `C :: merge(mro(B1), .., mro(Bn), [B1..Bn])`; `none` when the merge gets stuck (TypeError in Python) -/
def mroEntry (tbl : List (Option (List Nat))) (c : Cls) : Option (List Nat) :=
  let ms := c.bases.map (lookupMro tbl)
  if ms.all Option.isSome then
    let lists := ms.filterMap id ++ [c.bases]
    match c3merge ((lists.map List.length).sum + 1) lists with
    | some m => some (tbl.length :: m)
    | none => none
  else none

/-- MRO of every class of the table, computed in creation order like CPython does -/
def mroTable (st : St) : List (Option (List Nat)) :=
  st.foldl (fun tbl c => tbl ++ [mroEntry tbl c]) []

end CohdlVerif.C13
