/-
  C03 - sequential and concurrent contexts obey hardware assignment semantics.

  SOURCE level (`Stmt`, `exec`, `Seq.activate`): the documented reading of one activation of a sequential
  context.  State = committed signal values, variable values, pending signal updates, temporaries.
    * reads of signals see `sig` (the OLD value) during the whole activation
    * `<<=` / `.next` and `^=` / `.push` write `pend` (last executed wins, per bit of a slice / array element)
    * `@=` / `.value` writes `var` immediately
    * commit merges `pend` into `sig`; a pushed signal that was not written takes its default
    * if / elif / else (`ite`), `match` (`mcase` chain), for-break / for-return chains (`ite` chains),
      helper function calls with `return` in nested branches (`call` / `ret`: first return wins),
      run-time array index captured at access time (`capture`), locally declared signals (`declSig`:
      reads are redirected to the initial value - `_SignalAlias`).
  TARGET level (`Proc`, `run`, `procStep`): the VHDL process reading of what the compiler emits - ordered
  signal assignments (last wins), variable / temporary assignments, if / else, case.
  `lowerK` mirrors the compiler's lowering (cohdl/_compiler/frontend/_generate_ir.py): `Return` = assignment
  to the result temporary + closing of the block, the statements following an `If` whose branches may
  return are appended to every block that is still open (code duplication), push = plain signal
  assignment after a prelude that assigns the defaults (`reset_pushed`).

  Objects hold bits: location = (object id, element index, bit index); scalars use element 0.
  Import-free (core Lean only).
-/
namespace CohdlVerif.C03

abbrev Loc := Nat × Nat × Nat

inductive Space where
  | sig | var
  deriving DecidableEq, Repr

/-- expressions; every value is a natural number, widths are explicit where they matter -/
inductive Expr where
  | const (n : Nat)
  | rd (sp : Space) (obj : Nat) (idx : Expr) (lo w : Nat)   -- bits lo..lo+w-1 of element idx of obj
  | tmp (k : Nat)                                            -- temporary / captured value / argument
  | slice (e : Expr) (lo w : Nat)
  | add (w : Nat) (a b : Expr)                               -- numeric_std "+" at width w
  | eq (a b : Expr)
  | not (a : Expr)
  | and (a b : Expr)
  | or (a b : Expr)
  | sel (c a b : Expr)                                       -- `a if c else b`
  | cat (a : Expr) (w : Nat) (b : Expr)                      -- `a @ b` with b of width w; `resize(zeros=w)` = cat a w 0
  deriving Repr

structure St where
  sig : Loc → Bool
  var : Loc → Bool
  pend : Loc → Option Bool
  tmp : Nat → Nat

def bitsToNat (f : Nat → Bool) : Nat → Nat
  | 0 => 0
  | w + 1 => bitsToNat f w + (if f w then 2 ^ w else 0)

def store (s : St) : Space → Loc → Bool
  | .sig => s.sig
  | .var => s.var

def b2n (b : Bool) : Nat := if b then 1 else 0

def eval : Expr → St → Nat
  | .const n, _ => n
  | .rd sp obj idx lo w, s => bitsToNat (fun b => store s sp (obj, eval idx s, lo + b)) w
  | .tmp k, s => s.tmp k
  | .slice e lo w, s => (eval e s / 2 ^ lo) % 2 ^ w
  | .add w a b, s => (eval a s + eval b s) % 2 ^ w
  | .eq a b, s => b2n (eval a s == eval b s)
  | .not a, s => b2n (eval a s == 0)
  | .and a b, s => b2n (eval a s != 0 && eval b s != 0)
  | .or a b, s => b2n (eval a s != 0 || eval b s != 0)
  | .sel c a b, s => if eval c s != 0 then eval a s else eval b s
  | .cat a w b, s => eval a s * 2 ^ w + eval b s % 2 ^ w

structure Target where
  obj : Nat
  idx : Expr
  lo : Nat
  w : Nat
  deriving Repr

inductive Mode where
  | next | push | value
  deriving DecidableEq, Repr

def inRange (l : Loc) (obj i lo w : Nat) : Bool :=
  l.1 == obj && l.2.1 == i && decide (lo ≤ l.2.2) && decide (l.2.2 < lo + w)

def writeBits {α : Type} (f : Loc → α) (obj i lo w : Nat) (g : Nat → α) : Loc → α :=
  fun l => if inRange l obj i lo w then g (l.2.2 - lo) else f l

def setTmp (f : Nat → Nat) (k v : Nat) : Nat → Nat := fun j => if j == k then v else f j

/-- one executed assignment; the element index is evaluated when the assignment executes -/
def doAssign (m : Mode) (t : Target) (v : Nat) (s : St) : St :=
  match m with
  | .value => { s with var := writeBits s.var t.obj (eval t.idx s) t.lo t.w (fun b => v.testBit b) }
  | _ => { s with pend := writeBits s.pend t.obj (eval t.idx s) t.lo t.w (fun b => some (v.testBit b)) }

inductive Stmt where
  | skip
  | seq (a b : Stmt)
  | assign (m : Mode) (t : Target) (e : Expr)
  | ite (c : Expr) (t e : Stmt)                       -- if / elif / else; link of a for-break chain
  | mcase (subj : Expr) (pat : Nat) (b rest : Stmt)   -- `case pat:` of a match; rest = later cases / default
  | ret (res : Nat) (e : Expr)                        -- return e  (res = result temporary of the call)
  | call (body : Stmt)                                -- inlined helper function
  | capture (k : Nat) (e : Expr)                      -- temporary k := e  (index / argument / local name)
  | declSig (obj k w : Nat) (init : Expr)             -- locally declared signal: alias temporary + assignment
  deriving Repr

/-- execution in program order; the flag says that a `return` was executed (rest of the function skipped) -/
def exec : Stmt → St → St × Bool
  | .skip, s => (s, false)
  | .seq a b, s =>
    let r := exec a s
    if r.2 then r else exec b r.1
  | .assign m t e, s => (doAssign m t (eval e s) s, false)
  | .ite c t e, s => if eval c s != 0 then exec t s else exec e s
  | .mcase subj pat b rest, s => if eval subj s == pat then exec b s else exec rest s
  | .ret res e, s => ({ s with tmp := setTmp s.tmp res (eval e s) }, true)
  | .call body, s => ((exec body s).1, false)
  | .capture k e, s => ({ s with tmp := setTmp s.tmp k (eval e s) }, false)
  | .declSig obj k w init, s =>
    let v := eval init s
    ({ s with tmp := setTmp s.tmp k v,
              pend := writeBits s.pend obj 0 0 w (fun b => some (v.testBit b)) }, false)

def setInputs (i : Loc → Option Bool) (s : St) : St :=
  { s with sig := fun l => (i l).getD (s.sig l) }

def clearPend (s : St) : St := { s with pend := fun _ => none }

/-- commit: pending value, else the default of a pushed signal, else hold -/
def commit (dflt : Loc → Option Bool) (s : St) : St :=
  { s with sig := fun l => match s.pend l with
                          | some v => v
                          | none => (dflt l).getD (s.sig l),
           pend := fun _ => none }

/-- if / elif / else chain, for-break chain: `brs` in program order, `d` = else part -/
def chain (brs : List (Expr × Stmt)) (d : Stmt) : Stmt :=
  brs.foldr (fun b acc => .ite b.1 b.2 acc) d

/-- `match subj:` with cases in program order, `d` = `case _:` body (or skip) -/
def matchChain (subj : Expr) (cases : List (Nat × Stmt)) (d : Stmt) : Stmt :=
  cases.foldr (fun c acc => .mcase subj c.1 c.2 acc) d

namespace Seq
/-- one activation of a sequential context: inputs are sampled, the body runs, pending updates are committed.
    `dflt` gives the default of every bit of a pushed signal (none for all other locations). -/
def activate (dflt : Loc → Option Bool) (body : Stmt) (s : St) (i : Loc → Option Bool) : St :=
  commit dflt (exec body (clearPend (setInputs i s))).1
end Seq

/-! ## concurrent contexts / `cohdl.always`: targets are a function of the CURRENT operand values

  A concurrent context (and every assignment / expression hoisted with `cohdl.always`) is a SET of continuous assignments
  `target <= expression`.  `drive` = one evaluation of one assignment (a VHDL delta for that statement); `settleOrder` =
  evaluation in a given order; `settle` = evaluation in a topological order of the dependency graph (the delta-cycle
  fixpoint of an acyclic system), guarded by `wellOrdered` (acyclic + one driver per object), `none` otherwise. -/

structure CA where
  obj : Nat
  elem : Nat
  lo : Nat
  w : Nat
  e : Expr

def CA.covers (c : CA) (l : Loc) : Bool := inRange l c.obj c.elem c.lo c.w

def drive (c : CA) (s : St) : St :=
  { s with sig := writeBits s.sig c.obj c.elem c.lo c.w (fun b => (eval c.e s).testBit b) }

def settleOrder (cs : List CA) (s : St) : St := cs.foldl (fun s c => drive c s) s

def readsSig : Expr → Nat → Bool
  | .const _, _ => false
  | .rd sp obj idx _ _, o => (sp == .sig && obj == o) || readsSig idx o
  | .tmp _, _ => false
  | .slice e _ _, o => readsSig e o
  | .add _ a b, o => readsSig a o || readsSig b o
  | .eq a b, o => readsSig a o || readsSig b o
  | .not a, o => readsSig a o
  | .and a b, o => readsSig a o || readsSig b o
  | .or a b, o => readsSig a o || readsSig b o
  | .sel c a b, o => readsSig c o || readsSig a o || readsSig b o
  | .cat a _ b, o => readsSig a o || readsSig b o

def targets (cs : List CA) : List Nat := cs.map (·.obj)

def readsAny (e : Expr) (os : List Nat) : Bool := os.any (readsSig e)

def wellOrdered : List CA → Bool
  | [] => true
  | c :: rest => !(readsAny c.e (c.obj :: targets rest)) && !((targets rest).contains c.obj) && wellOrdered rest

/-- first assignment that reads none of the targets still to be computed, and the others -/
def pickReady (all : List Nat) : List CA → Option (CA × List CA)
  | [] => none
  | c :: cs => if !(readsAny c.e all) then some (c, cs) else (pickReady all cs).map (fun r => (r.1, c :: r.2))

/-- a topological order of the assignments (none: cyclic dependency / combinational loop) -/
def topoSort : Nat → List CA → Option (List CA)
  | _, [] => some []
  | 0, _ :: _ => none
  | n + 1, c :: cs =>
    match pickReady (targets (c :: cs)) (c :: cs) with
    | none => none
    | some r => (topoSort n r.2).map (r.1 :: ·)

/-- settle: evaluate the assignments in a topological order; the order found is re-checked (`wellOrdered`: acyclic, one
    driver per object), `none` = rejected (combinational loop or two drivers) -/
def settle (cs : List CA) (s : St) : Option St :=
  match topoSort cs.length cs with
  | some ord => if wellOrdered ord then some (settleOrder ord s) else none
  | none => none


/-! ## target level: the process the compiler emits -/

inductive Proc where
  | skip
  | seq (a b : Proc)
  | sigAssign (t : Target) (e : Expr)                 -- t <= e;
  | varAssign (t : Target) (e : Expr)                 -- t := e;   (declared variable)
  | tmpAssign (k : Nat) (e : Expr)                    -- temp_k := e;
  | ite (c : Expr) (t e : Proc)
  | case1 (subj : Expr) (pat : Nat) (b rest : Proc)   -- `case subj is when pat => b; <rest>` (choices distinct)
  deriving Repr

def run : Proc → St → St
  | .skip, s => s
  | .seq a b, s => run b (run a s)
  | .sigAssign t e, s => doAssign .next t (eval e s) s
  | .varAssign t e, s => doAssign .value t (eval e s) s
  | .tmpAssign k e, s => { s with tmp := setTmp s.tmp k (eval e s) }
  | .ite c t e, s => if eval c s != 0 then run t s else run e s
  | .case1 subj pat b rest, s => if eval subj s == pat then run b s else run rest s

/-- can a `return` escape from this statement (mirror of `out.Statement.returns()`) -/
def canRet : Stmt → Bool
  | .seq a b => canRet a || canRet b
  | .ite _ t e => canRet t || canRet e
  | .mcase _ _ b rest => canRet b || canRet rest
  | .ret _ _ => true
  | _ => false

/-- lowering in continuation form: `k` = code that follows in the blocks still open, `r` = code that follows
    the enclosing call (the compiler re-opens the returned blocks at the end of `Call`).
    An `If` / `CondSelect` without returns keeps one open block (the parent), otherwise the following
    statements are appended to every open block of the branches. -/
def lowerK : Stmt → Proc → Proc → Proc
  | .skip, k, _ => k
  | .seq a b, k, r => lowerK a (lowerK b k r) r
  | .assign .value t e, k, _ => .seq (.varAssign t e) k
  | .assign _ t e, k, _ => .seq (.sigAssign t e) k
  | .ite c t e, k, r =>
    if canRet t || canRet e then .ite c (lowerK t k r) (lowerK e k r)
    else .seq (.ite c (lowerK t .skip .skip) (lowerK e .skip .skip)) k
  | .mcase subj pat b rest, k, r =>
    if canRet b || canRet rest then .ite (.eq subj (.const pat)) (lowerK b k r) (lowerK rest k r)
    else .seq (.case1 subj pat (lowerK b .skip .skip) (lowerK rest .skip .skip)) k
  | .ret res e, _, r => .seq (.tmpAssign res e) r
  | .call body, k, _ => lowerK body k k
  | .capture j e, k, _ => .seq (.tmpAssign j e) k
  | .declSig obj j w init, k, _ =>
    .seq (.tmpAssign j init) (.seq (.sigAssign ⟨obj, .const 0, 0, w⟩ (.tmp j)) k)

def lowerSeq (body : Stmt) : Proc := lowerK body .skip .skip

/-- `reset_pushed`: the defaults of the pushed signals, assigned before the body -/
structure PushDecl where
  obj : Nat
  nelem : Nat
  w : Nat
  dflt : Nat

def preludePend : List PushDecl → (Loc → Option Bool) → Loc → Option Bool
  | [], f => f
  | d :: ds, f =>
    preludePend ds (fun l => if l.1 == d.obj && decide (l.2.1 < d.nelem) && decide (l.2.2 < d.w)
                             then some (d.dflt.testBit l.2.2) else f l)

/-- the defaults as a map (what the source level calls `dflt`) -/
def pushDflt (ps : List PushDecl) : Loc → Option Bool := preludePend ps (fun _ => none)

/-- one activation of the emitted process: sample inputs, defaults of pushed signals, body, signal update -/
def procStep (ps : List PushDecl) (body : Proc) (s : St) (i : Loc → Option Bool) : St :=
  let s0 := clearPend (setInputs i s)
  commit (fun _ => none) (run body { s0 with pend := preludePend ps s0.pend })

end CohdlVerif.C03
