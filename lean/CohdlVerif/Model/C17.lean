/-
  C17 - serialisation (`std.count_bits`, `std.to_bits`, `std.from_bits[T]`) of the cohdl type
  compositions, plus `std.BitField` field access.

  Two layers, both executable:
  * MIRROR (`countBits`, `toBits`, `fromBits`, `readPath`, `writePath`): follows the Python code
    - `_make_serializable` (cohdl/std/_record.py): `elem_start` accumulation -> `countFields`, `fromFields`
    - `Record._to_bits_` / `to_bits` of arrays / `Array._to_bits_`: `concat(*[to_bits(e) ...][::-1])`
      where `concat` puts its FIRST argument into the MOST significant bits -> `concatMsb (..).reverse`
    - `_FromBits.__call__` / `Array._from_bits_`: element `idx` is `bv[w*idx + w - 1 : w*idx]`
    - `Enum`, `SFixed`, `UFixed`: delegate to the underlying / raw vector, no membership check
    - `Serialized[T]`: a wrapper around the raw vector (`bits()`), `value()` = `from_bits[T]`
    - `BitField.__init__`: `vec.msb(rest=off).lsb(width)` per nesting level, then `source[hi:lo]`
  * SPEC (`specBits`, `specVal`, `fieldOffset`): the documented layout, written without offsets:
    the serialised form of a record / array is the concatenation of the serialised fields / elements,
    first field / element 0 in the least significant bits.

  Bit lists are LSB first (index i of the list = bit i of the BitVector).
  Import-free: compiled into the driver.
-/
import CohdlVerif.Model.Sexp

namespace CohdlVerif.C17

abbrev Bits := List Bool

/-! ## numbers <-> bits -/

/-- `w` bits of the natural number `n`, least significant first -/
def natBits : Nat → Nat → Bits
  | 0, _ => []
  | w + 1, n => (n % 2 == 1) :: natBits w (n / 2)

def bitsNat : Bits → Nat
  | [] => 0
  | b :: bs => (if b then 1 else 0) + 2 * bitsNat bs

/-- two's complement -/
def intBits (w : Nat) (i : Int) : Bits :=
  natBits w (if i < 0 then (i + 2 ^ w).toNat else i.toNat)

def bitsInt (b : Bits) : Int :=
  if 2 * bitsNat b < 2 ^ b.length then (bitsNat b : Int) else (bitsNat b : Int) - 2 ^ b.length

/-! ## types and values -/

inductive STy where
  | bit
  | bool
  | bv (n : Nat)
  | uns (n : Nat)
  | sgn (n : Nat)
  | arr (e : STy) (n : Nat)        -- cohdl.Array[e, n]
  | sarr (e : STy) (n : Nat)       -- std.Array[e, n] (elements stored serialised)
  | rcd (fs : List STy)            -- std.Record: all fields in declaration order, base class fields first
  | enum (u : STy)                 -- std.Enum[u] / std.FlagEnum[u]
  | sfix (w : Nat) (exp : Int)     -- std.SFixed[exp+w-1 : exp]
  | ufix (w : Nat) (exp : Int)
  | ser (t : STy)                  -- std.Serialized[t]
  deriving Repr, Inhabited

inductive SVal where
  | bit (b : Bool)
  | bool (b : Bool)
  | bv (bits : Bits)
  | uns (w : Nat) (v : Nat)
  | sgn (w : Nat) (v : Int)
  | arr (xs : List SVal)
  | sarr (xs : List SVal)
  | rcd (xs : List SVal)
  | enum (v : SVal)                -- the `raw` value, any pattern of the underlying type
  | sfix (w : Nat) (raw : Int)
  | ufix (w : Nat) (raw : Nat)
  | ser (raw : Bits)
  deriving Repr, Inhabited

/-! ## count_bits -/

mutual
/-- mirror of `std.count_bits` -/
def countBits : STy → Nat
  | .bit => 1
  | .bool => 1
  | .bv n => n
  | .uns n => n
  | .sgn n => n
  | .arr e n => n * countBits e
  | .sarr e n => n * countBits e
  | .rcd fs => countFields fs 0
  | .enum u => countBits u
  | .sfix w _ => w
  | .ufix w _ => w
  | .ser t => countBits t
/-- `_make_serializable`: `elem_start = elem_start + width` over the annotations -/
def countFields : List STy → Nat → Nat
  | [], off => off
  | t :: ts, off => countFields ts (off + countBits t)
end

/- the types the real code accepts: no zero-width vector, no empty array, no empty record
    (`concat()` of nothing / `assert elem_start != 0`), `Serialized` not nested, at top level only -/
mutual
def wfTy : STy → Bool
  | .bit => true
  | .bool => true
  | .bv n => n ≥ 1
  | .uns n => n ≥ 1
  | .sgn n => n ≥ 1
  | .arr e n => n ≥ 1 && wfTy e
  | .sarr e n => n ≥ 1 && wfTy e
  | .rcd fs => !fs.isEmpty && wfTys fs
  | .enum u => wfTy u
  | .sfix w _ => w ≥ 1
  | .ufix w _ => w ≥ 1
  | .ser _ => false
def wfTys : List STy → Bool
  | [] => true
  | t :: ts => wfTy t && wfTys ts
end

def wfTop : STy → Bool
  | .ser t => wfTy t
  | t => wfTy t

/-! ## well-typed values -/

mutual
def wt : STy → SVal → Bool
  | .bit, .bit _ => true
  | .bool, .bool _ => true
  | .bv n, .bv bs => bs.length == n
  | .uns n, .uns w v => w == n && decide (v < 2 ^ n)
  | .sgn n, .sgn w v => w == n && decide (-(2 ^ n : Int) ≤ 2 * v) && decide (2 * v < (2 ^ n : Int))
  | .arr e n, .arr xs => xs.length == n && wtAll e xs
  | .sarr e n, .sarr xs => xs.length == n && wtAll e xs
  | .rcd fs, .rcd xs => wtFields fs xs
  | .enum u, .enum v => wt u v
  | .sfix n _, .sfix w v => w == n && decide (-(2 ^ n : Int) ≤ 2 * v) && decide (2 * v < (2 ^ n : Int))
  | .ufix n _, .ufix w v => w == n && decide (v < 2 ^ n)
  | .ser t, .ser raw => raw.length == countBits t
  | _, _ => false
def wtAll : STy → List SVal → Bool
  | _, [] => true
  | e, x :: xs => wt e x && wtAll e xs
def wtFields : List STy → List SVal → Bool
  | [], [] => true
  | t :: ts, x :: xs => wt t x && wtFields ts xs
  | _, _ => false
end

/-! ## to_bits (mirror) -/

/-- `std.concat(a, b, c)`: the FIRST argument ends up in the MOST significant bits -/
def concatMsb (parts : List Bits) : Bits := parts.reverse.flatten

mutual
/-- mirror of `std.to_bits` -/
def toBits : SVal → Bits
  | .bit b => [b]
  | .bool b => [b]
  | .bv bs => bs
  | .uns w v => natBits w v
  | .sgn w v => intBits w v
  | .arr xs => concatMsb (toBitsL xs).reverse        -- `concat(*[to_bits(elem) for elem in inp][::-1])`
  | .sarr xs => concatMsb (toBitsL xs).reverse       -- `Array._to_bits_`
  | .rcd xs => concatMsb (toBitsL xs).reverse        -- `_get_reverse_elem_list`
  | .enum v => toBits v
  | .sfix w r => intBits w r
  | .ufix w r => natBits w r
  | .ser raw => raw
def toBitsL : List SVal → List Bits
  | [] => []
  | x :: xs => toBits x :: toBitsL xs
end

/-! ## from_bits (mirror) -/

/-- `bv[lo + w - 1 : lo]` -/
def slice (b : Bits) (lo w : Nat) : Bits := (b.drop lo).take w

mutual
/-- mirror of `std.from_bits[T]` (the width assertion is `fromBitsChecked`) -/
def fromBits : STy → Bits → SVal
  | .bit, b => .bit (b.getD 0 false)
  | .bool, b => .bool (b.getD 0 false)
  | .bv _, b => .bv b
  | .uns n, b => .uns n (bitsNat b)
  | .sgn n, b => .sgn n (bitsInt b)
  | .arr e n, b =>
      .arr ((List.range n).map fun idx => fromBits e (slice b (countBits e * idx) (countBits e)))
  | .sarr e n, b =>
      .sarr ((List.range n).map fun nr => fromBits e (slice b (countBits e * nr) (countBits e)))
  | .rcd fs, b => .rcd (fromFields fs 0 b)
  | .enum u, b => .enum (fromBits u b)
  | .sfix w _, b => .sfix w (bitsInt b)
  | .ufix w _, b => .ufix w (bitsNat b)
  | .ser _, b => .ser b
/-- `_make_serializable` + `Record._from_bits_`: field `name` is `bits[slice(elem_start + width - 1, elem_start)]` -/
def fromFields : List STy → Nat → Bits → List SVal
  | [], _, _ => []
  | t :: ts, off, b => fromBits t (slice b off (countBits t)) :: fromFields ts (off + countBits t) b
end

def fromBitsChecked (T : STy) (b : Bits) : Option SVal :=
  if b.length = countBits T then some (fromBits T b) else none

/-- `Serialized[T](x)` and `.value()` -/
def serOf (x : SVal) : SVal := .ser (toBits x)
def serValue (T : STy) : SVal → SVal
  | .ser raw => fromBits T raw
  | v => v

/-! ## the documented layout (specification, no offsets) -/

mutual
def specBits : SVal → Bits
  | .bit b => [b]
  | .bool b => [b]
  | .bv bs => bs
  | .uns w v => natBits w v
  | .sgn w v => intBits w v
  | .arr xs => specBitsL xs
  | .sarr xs => specBitsL xs
  | .rcd xs => specBitsL xs
  | .enum v => specBits v
  | .sfix w r => intBits w r
  | .ufix w r => natBits w r
  | .ser raw => raw
/-- element 0 / the first field first = in the least significant bits -/
def specBitsL : List SVal → Bits
  | [] => []
  | x :: xs => specBits x ++ specBitsL xs
end

mutual
def specWidth : STy → Nat
  | .bit => 1
  | .bool => 1
  | .bv n => n
  | .uns n => n
  | .sgn n => n
  | .arr e n => n * specWidth e
  | .sarr e n => n * specWidth e
  | .rcd fs => specWidths fs
  | .enum u => specWidth u
  | .sfix w _ => w
  | .ufix w _ => w
  | .ser t => specWidth t
def specWidths : List STy → Nat
  | [] => 0
  | t :: ts => specWidth t + specWidths ts
end

/-- split off `n` chunks of `w` bits, lowest first -/
def chunksMap {α : Type} (f : Bits → α) (w : Nat) : Nat → Bits → List α
  | 0, _ => []
  | n + 1, b => f (b.take w) :: chunksMap f w n (b.drop w)

mutual
def specVal : STy → Bits → SVal
  | .bit, b => .bit (b.getD 0 false)
  | .bool, b => .bool (b.getD 0 false)
  | .bv _, b => .bv b
  | .uns n, b => .uns n (bitsNat b)
  | .sgn n, b => .sgn n (bitsInt b)
  | .arr e n, b => .arr (chunksMap (specVal e) (specWidth e) n b)
  | .sarr e n, b => .sarr (chunksMap (specVal e) (specWidth e) n b)
  | .rcd fs, b => .rcd (specVals fs b)
  | .enum u, b => .enum (specVal u b)
  | .sfix w _, b => .sfix w (bitsInt b)
  | .ufix w _, b => .ufix w (bitsNat b)
  | .ser _, b => .ser b
def specVals : List STy → Bits → List SVal
  | [], _ => []
  | t :: ts, b => specVal t (b.take (specWidth t)) :: specVals ts (b.drop (specWidth t))
end

/-- offset of field `i` of a record = sum of the widths of the fields declared before it -/
def fieldOffset (fs : List STy) (i : Nat) : Nat := specWidths (fs.take i)

/-! ## BitField -/

/-- write `v` into `b[lo + v.length - 1 : lo]` -/
def writeSlice (b : Bits) (lo : Nat) (v : Bits) : Bits := b.take lo ++ v ++ b.drop (lo + v.length)

/-- a field access path: the (offset, width) of every enclosing sub-BitField, outermost first, then
    the declared range `[lo + w - 1 : lo]` of the field inside the innermost one.
    mirror of `BitField.__init__`: `subvec = vec.msb(rest=off).lsb(width)`; field: `source[hi:lo]` -/
def readPath : List (Nat × Nat) → Nat → Nat → Bits → Bits
  | [], lo, w, b => slice b lo w
  | (off, sw) :: rest, lo, w, b => readPath rest lo w (((b.drop off)).take sw)

/-- assignment to a field held by reference -/
def writePath : List (Nat × Nat) → Nat → Bits → Bits → Bits
  | [], lo, v, b => writeSlice b lo v
  | (off, sw) :: rest, lo, v, b => writeSlice b off (writePath rest lo v ((b.drop off).take sw))

/-- absolute position of the field in the outermost vector -/
def absLo (path : List (Nat × Nat)) (lo : Nat) : Nat := (path.map (·.1)).sum + lo

/-- the declaration is inside its enclosing vector at every level (`BitField.__init__` / slicing assert this) -/
def pathOk : List (Nat × Nat) → Nat → Nat → Nat → Bool
  | [], lo, w, W => lo + w ≤ W
  | (off, sw) :: rest, lo, w, W => off + sw ≤ W && pathOk rest lo w sw

/-! ## line protocol

  `count T` -> n
  `tobits T V` -> bit string (MSB first, as `str(BitVector)`) | `ill-typed`
  `frombits T BITS` -> canonical value | `err-width`
  `spec-tobits T V`, `spec-frombits T BITS`: the same through the specification functions
  `offsets T` -> for a record / array type: `lo:w` of every field / element
  `bfread W (off:w ...) lo w BITS` -> bit string | `err-range`
  `bfwrite W (off:w ...) lo VBITS BITS` -> bit string | `err-range`

  T ::= bit | bool | (bv n) | (uns n) | (sgn n) | (arr T n) | (sarr T n) | (rec T ...) | (enum T)
      | (sfix w exp) | (ufix w exp) | (ser T)
  V ::= (bit 0|1) | (bool 0|1) | (bv BITS) | (uns w n) | (sgn w i) | (arr V ...) | (sarr V ...) | (rec V ...)
      | (enum V) | (sfix w i) | (ufix w n) | (ser BITS)
-/

def bitsToStr (b : Bits) : String := String.ofList (b.reverse.map fun x => if x then '1' else '0')

def strToBits (s : String) : Option Bits :=
  if s == "e" then some [] else
  if s.toList.all (fun c => c == '0' || c == '1') && !s.isEmpty then some (s.toList.reverse.map (· == '1')) else none

def showBits (b : Bits) : String := if b.isEmpty then "e" else bitsToStr b

mutual
partial def parseTy : Sexp → Option STy
  | .atom "bit" => some .bit
  | .atom "bool" => some .bool
  | .list [.atom "bv", n] => n.asNat?.map .bv
  | .list [.atom "uns", n] => n.asNat?.map .uns
  | .list [.atom "sgn", n] => n.asNat?.map .sgn
  | .list [.atom "arr", e, n] => do some (.arr (← parseTy e) (← n.asNat?))
  | .list [.atom "sarr", e, n] => do some (.sarr (← parseTy e) (← n.asNat?))
  | .list (.atom "rec" :: fs) => do some (.rcd (← fs.mapM parseTy))
  | .list [.atom "enum", u] => do some (.enum (← parseTy u))
  | .list [.atom "sfix", w, e] => do some (.sfix (← w.asNat?) (← e.asInt?))
  | .list [.atom "ufix", w, e] => do some (.ufix (← w.asNat?) (← e.asInt?))
  | .list [.atom "ser", t] => do some (.ser (← parseTy t))
  | _ => none
end

def parseBit : Sexp → Option Bool
  | .atom "0" => some false
  | .atom "1" => some true
  | _ => none

partial def parseVal : Sexp → Option SVal
  | .list [.atom "bit", b] => (parseBit b).map .bit
  | .list [.atom "bool", b] => (parseBit b).map .bool
  | .list [.atom "bv", .atom s] => (strToBits s).map .bv
  | .list [.atom "uns", w, n] => do some (.uns (← w.asNat?) (← n.asNat?))
  | .list [.atom "sgn", w, n] => do some (.sgn (← w.asNat?) (← n.asInt?))
  | .list (.atom "arr" :: xs) => do some (.arr (← xs.mapM parseVal))
  | .list (.atom "sarr" :: xs) => do some (.sarr (← xs.mapM parseVal))
  | .list (.atom "rec" :: xs) => do some (.rcd (← xs.mapM parseVal))
  | .list [.atom "enum", v] => do some (.enum (← parseVal v))
  | .list [.atom "sfix", w, n] => do some (.sfix (← w.asNat?) (← n.asInt?))
  | .list [.atom "ufix", w, n] => do some (.ufix (← w.asNat?) (← n.asNat?))
  | .list [.atom "ser", .atom s] => (strToBits s).map .ser
  | _ => none

partial def showVal : SVal → String
  | .bit b => s!"(bit {if b then 1 else 0})"
  | .bool b => s!"(bool {if b then 1 else 0})"
  | .bv bs => s!"(bv {showBits bs})"
  | .uns w v => s!"(uns {w} {v})"
  | .sgn w v => s!"(sgn {w} {v})"
  | .arr xs => "(arr " ++ " ".intercalate (xs.map showVal) ++ ")"
  | .sarr xs => "(sarr " ++ " ".intercalate (xs.map showVal) ++ ")"
  | .rcd xs => "(rec " ++ " ".intercalate (xs.map showVal) ++ ")"
  | .enum v => s!"(enum {showVal v})"
  | .sfix w v => s!"(sfix {w} {v})"
  | .ufix w v => s!"(ufix {w} {v})"
  | .ser raw => s!"(ser {showBits raw})"

/-- `lo:w` of the direct components of a record / array type, from the mirror's accumulation -/
def offsetsOf : STy → Option (List (Nat × Nat))
  | .rcd fs => some (go fs 0)
  | .arr e n => some ((List.range n).map fun i => (countBits e * i, countBits e))
  | .sarr e n => some ((List.range n).map fun i => (countBits e * i, countBits e))
  | _ => none
where
  go : List STy → Nat → List (Nat × Nat)
    | [], _ => []
    | t :: ts, off => (off, countBits t) :: go ts (off + countBits t)

def parsePath : Sexp → Option (List (Nat × Nat))
  | .list xs => xs.mapM fun
      | .list [a, b] => do some (← a.asNat?, ← b.asNat?)
      | _ => none
  | _ => none

def handleSexp : Sexp → String
  | .list [.atom "count", t] =>
      match parseTy t with
      | some T => toString (countBits T)
      | none => "bad-op"
  | .list [.atom "tobits", t, v] =>
      match parseTy t, parseVal v with
      | some T, some x => if wt T x then showBits (toBits x) else "ill-typed"
      | _, _ => "bad-op"
  | .list [.atom "spec-tobits", t, v] =>
      match parseTy t, parseVal v with
      | some T, some x => if wt T x then showBits (specBits x) else "ill-typed"
      | _, _ => "bad-op"
  | .list [.atom "frombits", t, .atom s] =>
      match parseTy t, strToBits s with
      | some T, some b => match fromBitsChecked T b with
          | some x => showVal x
          | none => "err-width"
      | _, _ => "bad-op"
  | .list [.atom "spec-frombits", t, .atom s] =>
      match parseTy t, strToBits s with
      | some T, some b => if b.length = specWidth T then showVal (specVal T b) else "err-width"
      | _, _ => "bad-op"
  | .list [.atom "offsets", t] =>
      match (parseTy t).bind offsetsOf with
      | some os => " ".intercalate (os.map fun (lo, w) => s!"{lo}:{w}")
      | none => "bad-op"
  | .list [.atom "bfread", W, p, lo, w, .atom s] =>
      match W.asNat?, parsePath p, lo.asNat?, w.asNat?, strToBits s with
      | some W, some p, some lo, some w, some b =>
          if b.length = W && pathOk p lo w W then showBits (readPath p lo w b) else "err-range"
      | _, _, _, _, _ => "bad-op"
  | .list [.atom "bfwrite", W, p, lo, .atom vs, .atom s] =>
      match W.asNat?, parsePath p, lo.asNat?, strToBits vs, strToBits s with
      | some W, some p, some lo, some v, some b =>
          if b.length = W && pathOk p lo v.length W then showBits (writePath p lo v b) else "err-range"
      | _, _, _, _, _ => "bad-op"
  | _ => "bad-op"

def handle (toks : List String) : String :=
  match Sexp.parse (" ".intercalate toks) with
  | some s => handleSexp s
  | none => "bad-op"

end CohdlVerif.C17
