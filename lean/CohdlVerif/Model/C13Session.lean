import CohdlVerif.Model.C13Views
/-
  C13 part B - sessions: views are created at any time (from the root or from any live view) and writes go
  through the root or any live view, in any interleaving.  The storage is the root's cell list; a view only
  remembers its absolute cells, so after EVERY write every live view (created earlier or later) shows the
  root's cells: this is the aliasing statement the correspondence check compares with the real objects
  after each step.

  A write is given by the bits that reach the target (the harness derives them from the source kind the real
  assignment accepts: str, int, vector of each kind with zero / sign extension, Bit / bool, Null, Full) or
  by another live view as source:
    `copySeq`  - `self._value.apply_zip(lambda bit, o: bit._assign(o), other._value[.iter_extend(Bit(0))])`:
                 bit by bit, least significant first, reading the source while writing (BitVector / Unsigned
                 targets; overlapping source and target see earlier bits of the same assignment)
    `copySnap` - `self._assign(other.to_int())` (Signed targets): source read completely first, then zero
                 / sign extended.
  Import-free: compiled into the driver.
-/
namespace CohdlVerif.C13

inductive Step where
  | view (parent : Nat) (op : Op)
  | wr (target : Nat) (bits : List Bool)
  | copySeq (target src : Nat)
  | copySnap (target src : Nat) (signExt : Bool)
  | rejected                                  -- a write the real code refuses (no effect)
  deriving Repr

structure Sess where
  store : List Bool
  views : List (Option View)                  -- slot 0 = root; `none` = view construction was rejected
  deriving Repr

def Sess.init (vt : VT) (bits : List Bool) : Sess := ⟨bits, [some (rootView 0 .signal vt bits.length)]⟩

def Sess.get (σ : Sess) (i : Nat) : Option View := match σ.views[i]? with | some (some v) => some v | _ => none

/-- bit by bit copy, source read while writing; a shorter source is extended with '0' -/
def copySeqCells (s : List Bool) : List Nat → List Nat → List Bool
  | [], _ => s
  | t :: ts, [] => copySeqCells (s.set t false) ts []
  | t :: ts, c :: cs => copySeqCells (s.set t (s.getD c false)) ts cs

def extend (signExt : Bool) (n : Nat) (vals : List Bool) : List Bool :=
  vals ++ List.replicate (n - vals.length) (if signExt then vals.getLastD false else false)

def Sess.step (σ : Sess) : Step → Sess × Bool
  | .view p op =>
    match σ.get p with
    | none => ({ σ with views := σ.views ++ [none] }, false)
    | some v => match applyOp v op with
      | none => ({ σ with views := σ.views ++ [none] }, false)
      | some v' => ({ σ with views := σ.views ++ [some v'] }, true)
  | .wr t bits =>
    match σ.get t with
    | none => (σ, false)
    | some v => if v.cells.length = bits.length then ({ σ with store := write σ.store v.cells bits }, true) else (σ, false)
  | .copySeq t s =>
    match σ.get t, σ.get s with
    | some vt, some vs =>
      if vs.cells.length ≤ vt.cells.length then ({ σ with store := copySeqCells σ.store vt.cells vs.cells }, true)
      else (σ, false)
    | _, _ => (σ, false)
  | .copySnap t s sx =>
    match σ.get t, σ.get s with
    | some vt, some vs =>
      if vs.cells.length ≤ vt.cells.length then
        ({ σ with store := write σ.store vt.cells (extend sx vt.cells.length (vs.cells.map (σ.store.getD · false))) }, true)
      else (σ, false)
    | _, _ => (σ, false)
  | .rejected => (σ, false)

/-- what every live view shows: the root's cells at the view's positions -/
def Sess.shown (σ : Sess) : List (Option (List Bool)) :=
  σ.views.map (fun o => o.map (fun v => v.cells.map (σ.store.getD · false)))

end CohdlVerif.C13
