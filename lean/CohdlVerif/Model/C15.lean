/-
  C15 - executable model of `std.SyncFlag` and `std.Mailbox` (cohdl/std/utility.py l.1159-1368) used from a
  producer context and a consumer context that tick independently (asynchronous interleaving: every global
  step ticks the producer context, the consumer context, both or none).  Two clock domains with an
  arbitrary rate ratio are modelled; analog metastability is NOT (a register sampled by the other domain
  always yields its old or its new value, never garbage).

  Registers of a SyncFlag(tx_delay = d, rx_delay = e), as created by `SyncFlag.__init__` and the handlers
  that `set()` / `clear()` append to the end of the calling context (`at_end_of_context`):

      txc = [_set_tx, delayline_1 .. delayline_(d-1), _tx]     (d + 1 registers; ONE register when d = 0,
                                                                 because then `_set_tx is _tx`)
      rxc = [_set_rx, delayline_1 .. delayline_(e-1), _rx]     (e + 1 registers; one when e = 0)

  * `set()`   (producer ctx):  `_set_tx <<= ~_rx`          writes the head of txc
  * `clear()` (consumer ctx):  `_set_rx <<= _tx`           writes the head of rxc
  * `_impl_tx_delayline` (`_tx <<= delayed(_set_tx, d-1)`) is appended to the CONSUMER context by the first
    `clear()` (`_impl_tx_delay`): the tail of txc shifts when the consumer ticks
  * `_impl_rx_delayline` is appended to the PRODUCER context by the first `set()`: the tail of rxc shifts
    when the producer ticks
  * `is_set()` = `_cmp_tx() != _cmp_rx()`, the operands depend on the observing context:
      producer ctx: `_set_tx != _rx`      consumer ctx: `_tx != _set_rx`      elsewhere: `_tx != _rx`
  * `Mailbox.send(v)`: `if flag.is_clear(): _data <<= v` then `flag.set()` (mirrors the tree AFTER
    fixes/C15-mailbox-send-while-set.patch; before it the data register was written unconditionally, so a
    send while the flag was set replaced the payload of the pending event),
    `Mailbox.receive` / `data()` read `_data` while the consumer sees the flag set.
  * same-context use (`set` and `clear` traced in ONE context) is only legal with both delays 0
    (`accepts`; mirrors the tree AFTER fixes/C15-same-context-delay-assert.patch).

  Import-free: compiled into the driver.
-/
namespace CohdlVerif.C15

/-! ## register chains -/

def hd (c : List Bool) : Bool := c.headD false
def lst (c : List Bool) : Bool := c.getLastD false

/-- the head register is written (`_set_tx <<= ..` / `_set_rx <<= ..`) -/
def setHead (v : Bool) : List Bool → List Bool
  | [] => []
  | _ :: t => v :: t

/-- one tick of the owner of the delay line: every register but the head takes the old value of its
    predecessor (`DelayLine.delay_impl` plus the final `_tx <<= ..last()`) -/
def shiftTail : List Bool → List Bool
  | [] => []
  | h :: t => h :: (h :: t).dropLast

structure Flag where
  txc : List Bool
  rxc : List Bool
  deriving Repr, DecidableEq

def Flag.init (txd rxd : Nat) : Flag := ⟨List.replicate (txd + 1) false, List.replicate (rxd + 1) false⟩

def Flag.setTx (f : Flag) : Bool := hd f.txc
def Flag.tx (f : Flag) : Bool := lst f.txc
def Flag.setRx (f : Flag) : Bool := hd f.rxc
def Flag.rx (f : Flag) : Bool := lst f.rxc

/-- `is_set()` evaluated in the producer context -/
def Flag.pSet (f : Flag) : Bool := f.setTx != f.rx
/-- `is_set()` evaluated in the consumer context -/
def Flag.cSet (f : Flag) : Bool := f.tx != f.setRx
/-- `is_set()` evaluated outside both contexts (concurrent code, third context) -/
def Flag.oSet (f : Flag) : Bool := f.tx != f.rx

/-- one global step.  `tp`/`tc`: the producer / consumer context is activated; `doSet`: the producer
    activation executes `set()`; `doClear`: the consumer activation executes `clear()`.  All right-hand
    sides read the state before the step (signal semantics). -/
def Flag.step (f : Flag) (tp doSet tc doClear : Bool) : Flag :=
  let txc1 := if tc then shiftTail f.txc else f.txc
  let txc2 := if tp && doSet then setHead (!f.rx) txc1 else txc1
  let rxc1 := if tp then shiftTail f.rxc else f.rxc
  let rxc2 := if tc && doClear then setHead f.tx rxc1 else rxc1
  ⟨txc2, rxc2⟩

/-- which uses are accepted: `set` and `clear` in the same context require both delays to be 0 -/
def accepts (sameCtx : Bool) (txd rxd : Nat) : Bool := !sameCtx || (txd == 0 && rxd == 0)

/-! ## Mailbox on top, the two agents, and the specification logs -/

structure St where
  f : Flag
  data : Option Nat            -- `Mailbox._data` ('U' until the first send)
  rxData : Option Nat          -- register of the consumer: payload latched at the last receive
  sent : List Nat              -- SPEC: payloads of the accepted sends (issued while the producer saw clear)
  rcvd : List (Option Nat)     -- SPEC: payloads read at the receives
  deriving Repr, DecidableEq

structure In where
  tp : Bool                    -- producer context ticks
  send : Option Nat            -- producer attempts `send(v)` / `set()` in this activation
  tc : Bool                    -- consumer context ticks
  willing : Bool               -- consumer executes `if is_set(): take data; clear()`
  deriving Repr, DecidableEq

def St.init (txd rxd : Nat) : St := ⟨Flag.init txd rxd, none, none, [], []⟩

/-- the send that is really executed: `guard` = the producer code wraps the call in `if is_clear():` -/
def effSend (guard : Bool) (s : St) (i : In) : Option Nat :=
  if i.tp then
    match i.send with
    | some v => if guard && s.f.pSet then none else some v
    | none => none
  else none

/-- the consumer takes the event in this step -/
def takes (s : St) (i : In) : Bool := i.tc && i.willing && s.f.cSet

def step (guard : Bool) (s : St) (i : In) : St :=
  let snd := effSend guard s i
  let rcv := takes s i
  { f := s.f.step i.tp snd.isSome i.tc rcv
    data := match snd with
      | some v => if s.f.pSet then s.data else some v     -- `if flag.is_clear(): _data <<= v`
      | none => s.data
    rxData := if rcv then s.data else s.rxData
    sent := match snd with
      | some v => if s.f.pSet then s.sent else s.sent ++ [v]
      | none => s.sent
    rcvd := if rcv then s.rcvd ++ [s.data] else s.rcvd }

def run (guard : Bool) : St → List In → St := List.foldl (step guard)

/-! ## line protocol
  `run G TXD RXD tok*`       tok = P:C, P = - | i | s<v>, C = - | u | w
        -> per step `pSet cSet oSet #sent #rcvd rxData` joined by `;`
  `step G TXC RXC DATA RXDATA tok`  (explicit state: chains as bit strings, `-` = undefined)
        -> `TXC RXC DATA RXDATA | pSet cSet oSet accepted taken`
  `accepts SAME TXD RXD` -> 0 | 1
-/

def b01 (b : Bool) : String := if b then "1" else "0"
def showO : Option Nat → String
  | none => "-"
  | some v => toString v

def parseIn (s : String) : Option In :=
  match s.splitOn ":" with
  | [p, c] =>
    let pp : Option (Bool × Option Nat) :=
      match p.toList with
      | ['-'] => some (false, none)
      | ['i'] => some (true, none)
      | 's' :: r => (String.ofList r).toNat?.map (fun v => (true, some v))
      | _ => none
    let cc : Option (Bool × Bool) :=
      match c with
      | "-" => some (false, false)
      | "u" => some (true, false)
      | "w" => some (true, true)
      | _ => none
    match pp, cc with
    | some (tp, snd), some (tc, w) => some ⟨tp, snd, tc, w⟩
    | _, _ => none
  | _ => none

def parseBits (s : String) : Option (List Bool) :=
  s.toList.mapM (fun c => if c = '0' then some false else if c = '1' then some true else none)

def showBits (l : List Bool) : String := String.ofList (l.map (fun b => if b then '1' else '0'))

def parseO (s : String) : Option (Option Nat) :=
  if s = "-" then some none else s.toNat?.map some

def parseG (s : String) : Option Bool :=
  if s = "g" then some true else if s = "n" then some false else none

def obs (s : St) : String :=
  s!"{b01 s.f.pSet} {b01 s.f.cSet} {b01 s.f.oSet}"

def runLine (g : Bool) (txd rxd : Nat) (ins : List In) : String := Id.run do
  let mut s := St.init txd rxd
  let mut out : Array String := #[]
  for i in ins do
    s := step g s i
    out := out.push s!"{obs s} {s.sent.length} {s.rcvd.length} {showO s.rxData}"
  return ";".intercalate out.toList

def handle (args : List String) : String :=
  match args with
  | "run" :: g :: txd :: rxd :: toks =>
    match parseG g, txd.toNat?, rxd.toNat?, toks.mapM parseIn with
    | some g, some txd, some rxd, some ins => runLine g txd rxd ins
    | _, _, _, _ => "bad-op"
  | ["step", g, txc, rxc, data, rxData, tok] =>
    match parseG g, parseBits txc, parseBits rxc, parseO data, parseO rxData, parseIn tok with
    | some g, some txc, some rxc, some data, some rxData, some i =>
      if txc.isEmpty || rxc.isEmpty then "bad-op" else
      let s : St := ⟨⟨txc, rxc⟩, data, rxData, [], []⟩
      let s' := step g s i
      s!"{showBits s'.f.txc} {showBits s'.f.rxc} {showO s'.data} {showO s'.rxData} | {obs s'} {s'.sent.length} {s'.rcvd.length}"
    | _, _, _, _, _, _ => "bad-op"
  | ["accepts", same, txd, rxd] =>
    match same.toNat?, txd.toNat?, rxd.toNat? with
    | some sm, some txd, some rxd => if sm > 1 then "bad-op" else b01 (accepts (sm == 1) txd rxd)
    | _, _, _ => "bad-op"
  | _ => "bad-op"

end CohdlVerif.C15
