import CohdlVerif.Model.Fifo
import CohdlVerif.Model.C15
/-
  C14 extension - executable model of the DELAYED `std.Fifo[T,N](tx_delay=.., rx_delay=..)` (`_sync_contexts`),
  cohdl/std/utility.py class Fifo: the pushing context owns `_set_write_index` (and writes the memory), the
  popping context owns `_set_read_index`; the indices cross over through `_buf_write_index` / `_buf_read_index`
  in a ping-pong driven by a `SyncFlag` (model: `CohdlVerif.C15.Flag`):

    end of the pushing context (`_impl_sync_read_index`):   if flag.is_clear():  buf_wr <<= set_wr; rd <<= buf_rd; flag.set()
    end of the popping context (`_impl_sync_write_index`):  if flag.is_set():    buf_rd <<= set_rd; wr <<= buf_wr; flag.clear()

    full()  in the pushing context: next(set_wr) == rd        empty() in the popping context: wr == set_rd
    full()  in the popping context: next(wr) == set_rd        empty() in the pushing context: set_wr == rd
    outside: next(wr) == rd / wr == rd

  The two contexts tick independently (asynchronous interleaving, as in C15; no analog metastability: a
  multi-bit index sampled by the other context is its old or its new value).  Import-free apart from Model files.
-/
namespace CohdlVerif.C14

structure DFifo where
  flag : C15.Flag
  setWr : Nat
  bufWr : Nat
  wr : Nat
  setRd : Nat
  bufRd : Nat
  rd : Nat
  mem : List (Option Nat)
  dout : Option Nat
  deriving Repr, DecidableEq

structure DIn where
  tp : Bool                -- pushing context ticks
  push : Option Nat        -- it executes `if push: if not fifo.full(): fifo.push(v)`
  tc : Bool                -- popping context ticks
  pop : Bool               -- it executes `if pop: if not fifo.empty(): dout <<= fifo.pop()`
  deriving Repr, DecidableEq

def DFifo.init (N txd rxd : Nat) : DFifo :=
  ⟨C15.Flag.init txd rxd, 0, 0, 0, 0, 0, 0, List.replicate N none, none⟩

def DFifo.fullS (N : Nat) (s : DFifo) : Bool := fifoNext N s.setWr == s.rd
def DFifo.emptyS (s : DFifo) : Bool := s.setWr == s.rd
def DFifo.fullR (N : Nat) (s : DFifo) : Bool := fifoNext N s.wr == s.setRd
def DFifo.emptyR (s : DFifo) : Bool := s.wr == s.setRd
def DFifo.fullO (N : Nat) (s : DFifo) : Bool := fifoNext N s.wr == s.rd
def DFifo.emptyO (s : DFifo) : Bool := s.wr == s.rd
def DFifo.front (s : DFifo) : Option Nat := s.mem.getD s.setRd none

/-- the push that is executed: the wrapper guards it with the sender's view of `full()` -/
def DFifo.effPush (N : Nat) (s : DFifo) (i : DIn) : Option Nat :=
  if i.tp && !s.fullS N then i.push else none
/-- the pop that is executed: guarded with the receiver's view of `empty()` -/
def DFifo.effPop (s : DFifo) (i : DIn) : Bool := i.tc && i.pop && !s.emptyR

def DFifo.step (N : Nat) (s : DFifo) (i : DIn) : DFifo :=
  let psync := i.tp && !s.flag.pSet
  let csync := i.tc && s.flag.cSet
  let push := s.effPush N i
  let pop := s.effPop i
  { flag := s.flag.step i.tp psync i.tc csync
    setWr := match push with | some _ => fifoNext N s.setWr | none => s.setWr
    mem := match push with | some v => s.mem.set s.setWr (some v) | none => s.mem
    bufWr := if psync then s.setWr else s.bufWr
    rd := if psync then s.bufRd else s.rd
    setRd := if pop then fifoNext N s.setRd else s.setRd
    dout := if pop then s.mem.getD s.setRd none else s.dout
    bufRd := if csync then s.setRd else s.bufRd
    wr := if csync then s.bufWr else s.wr }

def DFifo.run (N : Nat) : DFifo → List DIn → DFifo := List.foldl (DFifo.step N)

/-! ## line protocol
  `dfifo N TXD RXD tok*`    tok = P:C, P = - | i | p<v>, C = - | u | o
       -> per step `fullS emptyS fullR emptyR fullO emptyO front dout pushed popped` joined by `;`
  `dstep N TXC RXC setWr bufWr wr setRd bufRd rd dout m0,m1,..  tok`
       -> `TXC RXC setWr bufWr wr setRd bufRd rd dout m0,m1,.. | fullS emptyS fullR emptyR fullO emptyO front pushed popped`
-/

def parseDIn (s : String) : Option DIn :=
  match s.splitOn ":" with
  | [p, c] =>
    let pp : Option (Bool × Option Nat) :=
      match p.toList with
      | ['-'] => some (false, none)
      | ['i'] => some (true, none)
      | 'p' :: r => (String.ofList r).toNat?.map (fun v => (true, some v))
      | _ => none
    let cc : Option (Bool × Bool) :=
      match c with
      | "-" => some (false, false)
      | "u" => some (true, false)
      | "o" => some (true, true)
      | _ => none
    match pp, cc with
    | some (tp, v), some (tc, o) => some ⟨tp, v, tc, o⟩
    | _, _ => none
  | _ => none

def DFifo.obs (N : Nat) (s : DFifo) : String :=
  s!"{b01 (s.fullS N)} {b01 s.emptyS} {b01 (s.fullR N)} {b01 s.emptyR} {b01 (s.fullO N)} {b01 s.emptyO} {showO s.front}"

def runDFifo (N txd rxd : Nat) (ins : List DIn) : String := Id.run do
  let mut s := DFifo.init N txd rxd
  let mut out : Array String := #[]
  for i in ins do
    let pu := (s.effPush N i).isSome
    let po := s.effPop i
    s := s.step N i
    out := out.push s!"{s.obs N} {showO s.dout} {b01 pu} {b01 po}"
  return ";".intercalate out.toList

def showMem (m : List (Option Nat)) : String := ",".intercalate (m.map showO)
def parseMem (s : String) : Option (List (Option Nat)) := (s.splitOn ",").mapM C15.parseO

def handleExt (args : List String) : String :=
  match args with
  | "dfifo" :: n :: txd :: rxd :: toks =>
    match n.toNat?, txd.toNat?, rxd.toNat?, toks.mapM parseDIn with
    | some N, some txd, some rxd, some ins => if N < 2 then "bad-op" else runDFifo N txd rxd ins
    | _, _, _, _ => "bad-op"
  | ["dstep", n, txc, rxc, a, b, c, d, e, f, dout, mem, tok] =>
    match n.toNat?, C15.parseBits txc, C15.parseBits rxc, [a, b, c, d, e, f].mapM String.toNat?,
          C15.parseO dout, parseMem mem, parseDIn tok with
    | some N, some txc, some rxc, some [a, b, c, d, e, f], some dout, some mem, some i =>
      if N < 2 || txc.isEmpty || rxc.isEmpty || mem.length ≠ N then "bad-op" else
      let s : DFifo := ⟨⟨txc, rxc⟩, a, b, c, d, e, f, mem, dout⟩
      let pu := (s.effPush N i).isSome
      let po := s.effPop i
      let s' := s.step N i
      s!"{C15.showBits s'.flag.txc} {C15.showBits s'.flag.rxc} {s'.setWr} {s'.bufWr} {s'.wr} {s'.setRd} {s'.bufRd} {s'.rd} {showO s'.dout} {showMem s'.mem} | {s'.obs N} {b01 pu} {b01 po}"
    | _, _, _, _, _, _, _ => "bad-op"
  | _ => handle args

end CohdlVerif.C14
