/-
  C04 - reset returns every sequential context to its power-up behaviour from any state.

  Model of the mechanism (mirrors of the Python code that exists):
    * `Obj`            - what `TypeQualifier.__init__` records per root object: `_default`, `_noreset`
                         (cohdl/_core/_type_qualifier.py l.357-363) plus the access flags the context's code has on it
                         (WRITE / PUSH, collected by `Sequential._pushed_resettable_signals`, _repr.py l.1584-1600);
    * `resettable`     - mirror of the `resettable` IdSet of `_pushed_resettable_signals`: roots written or pushed in
                         the context that have a default and are not `noreset` (the state signal of an embedded
                         coroutine is one more such object: default = first state, written by every transition);
    * `defaultWrites`  - what `cohdl.reset_context()` expands to, `pushedWrites` - what `cohdl.reset_pushed()` expands to;
    * `stepR`          - the three wrappers of `std._context._sequential_impl` (no reset / asynchronous / synchronous,
                         either polarity, `step_cond`, `on_reset`), one process activation per event.
  The body of the context and the `on_reset` actions are PARAMETERS (any function from the state before the
  activation and the inputs to the list of writes the activation performs), so every theorem holds for every body,
  including an embedded coroutine (`smBody`).

  Import-free: compiled into the driver.
-/
namespace CohdlVerif.C04

/-- value of an object; `none` = undefined (never assigned: 'U' in the emitted VHDL) -/
abbrev Val := Option Nat

/-- values of all objects (signals and variables) a context can see, by object index -/
abbrev State := Nat → Val

structure Obj where
  isVar : Bool             -- Variable (assigned immediately) or Signal/Port
  default : Option Nat     -- `_default`: `none` when constructed without a value (and for locally constructed objects)
  noreset : Bool           -- `_noreset`
  written : Bool           -- the context's code (body, on_reset actions) has WRITE access to the root or a part of it
  pushed : Bool            -- the context's code has PUSH access (`^=`)
  deriving Repr, DecidableEq

inductive RKind where | none | sync | async
  deriving Repr, DecidableEq

structure Cfg where
  kind : RKind
  activeLow : Bool
  deriving Repr, DecidableEq

/-- the writes one activation performs, in program order (last one wins) -/
abbrev Writes := List (Nat × Val)

def setObj (s : State) (r : Nat) (v : Val) : State := fun j => if j = r then v else s j

def applyWrites (s : State) : Writes → State
  | [] => s
  | w :: ws => applyWrites (setObj s w.1 w.2) ws

/-- a sequential context: its objects, reset configuration, ANY body and ANY registered on_reset actions -/
structure Ctx (ι : Type) where
  objs : List Obj
  cfg : Cfg
  body : State → ι → Writes
  onReset : State → ι → Writes

variable {ι : Type}

def Obj.resettable (o : Obj) : Bool := (o.written || o.pushed) && o.default.isSome && !o.noreset

def objAt (objs : List Obj) (r : Nat) : Option Obj := objs[r]?

def isResettable (objs : List Obj) (r : Nat) : Bool :=
  match objAt objs r with
  | some o => o.resettable
  | none => false

def isPushed (objs : List Obj) (r : Nat) : Bool :=
  match objAt objs r with
  | some o => o.pushed
  | none => false

/-- mirror of the `resettable` set of `Sequential._pushed_resettable_signals` -/
def resettableL (objs : List Obj) : List Nat := (List.range objs.length).filter (isResettable objs)

def resettable (p : Ctx ι) : List Nat := resettableL p.objs

/-- `r.default()` as a value (`none` = no default: the object powers up undefined) -/
def defaultL (objs : List Obj) (r : Nat) : Val := (objAt objs r).bind (·.default)

def defaultOf (p : Ctx ι) (r : Nat) : Val := defaultL p.objs r

/-- expansion of `cohdl.reset_context()` -/
def defaultWritesL (objs : List Obj) : Writes := (resettableL objs).map (fun r => (r, defaultL objs r))
def defaultWrites (p : Ctx ι) : Writes := defaultWritesL p.objs

/-- expansion of `cohdl.reset_pushed()` (pushed signals are asserted to have a default) -/
def pushedWritesL (objs : List Obj) : Writes :=
  ((List.range objs.length).filter (isPushed objs)).map (fun r => (r, defaultL objs r))
def pushedWrites (p : Ctx ι) : Writes := pushedWritesL p.objs

/-- power-up: every object holds its declared initial value (= default), undefined without one -/
def init (p : Ctx ι) : State := fun r => defaultOf p r

/-- one process activation: is it caused by the active clock edge, the level of the reset signal, the value
    of `step_cond()` (true when the context has none) and the remaining inputs -/
structure Ev (ι : Type) where
  edge : Bool
  rst : Bool
  en : Bool
  data : ι

/-- `Reset.__bool__`: `not signal` for active-low resets -/
def active (c : Cfg) (rst : Bool) : Bool := rst != c.activeLow

/-- is the reset branch of the wrapper taken by this activation? -/
def resetTaken (c : Cfg) (e : Ev ι) : Bool :=
  match c.kind with
  | .none => false
  | .sync => e.edge && active c e.rst
  | .async => active c e.rst

/-- `cohdl.reset_context(); for reset_fn in on_reset: reset_fn()` -/
def resetBranch (p : Ctx ι) (s : State) (d : ι) : State :=
  applyWrites s (defaultWrites p ++ p.onReset s d)

/-- `if step_cond(): cohdl.reset_pushed(); <body>` -/
def stepBranch (p : Ctx ι) (s : State) (e : Ev ι) : State :=
  if e.en then applyWrites s (pushedWrites p ++ p.body s e.data) else s

/-- mirror of the three wrappers of `_sequential_impl` -/
def stepR (p : Ctx ι) (s : State) (e : Ev ι) : State :=
  match p.cfg.kind with
  | .none => if e.edge then stepBranch p s e else s
  | .sync => if e.edge then (if active p.cfg e.rst then resetBranch p s e.data else stepBranch p s e) else s
  | .async => if active p.cfg e.rst then resetBranch p s e.data
              else if e.edge then stepBranch p s e else s

/-- states after each of a sequence of activations -/
def runR (p : Ctx ι) (s : State) : List (Ev ι) → List State
  | [] => []
  | e :: es => stepR p s e :: runR p (stepR p s e) es

/-- observation of the objects in `F` only -/
def restrict (F : Nat → Bool) (s : State) : State := fun r => if F r then s r else none

def traceF (F : Nat → Bool) (p : Ctx ι) (s : State) (es : List (Ev ι)) : List State :=
  (runR p s es).map (restrict F)

/-! ## embedded coroutine: the state register is one more object -/

/-- the object `Statemachine.__init__` creates (`Signal[state_type](first_state)`); written by every transition -/
def stateObj : Obj := { isVar := false, default := some 0, noreset := false, written := true, pushed := false }

/-- `Statemachine.as_case_when`: one block of code per state selected by the state register
    (`when others => null`); a transition is a write to the register -/
def smBody (reg : Nat) (codes : List (State → ι → Writes)) : State → ι → Writes :=
  fun s d => match s reg with
    | some k => (codes.getD k (fun _ _ => [])) s d
    | none => []

/-- context `p` with its body replaced by a coroutine with the given per-state code -/
def withSM (p : Ctx ι) (codes : List (State → ι → Writes)) : Ctx ι :=
  { p with objs := p.objs ++ [stateObj], body := smBody p.objs.length codes }

/-! ## concrete on_reset actions for the correspondence run

  the generated designs register on_reset actions that assign constants, inputs, other objects or `obj + 1`;
  they are executed after the default assignments, signals are read from the state before the activation,
  variables are read as already re-initialised / assigned (VHDL variable semantics) -/

inductive RExpr where
  | const (v : Nat)
  | inp (j : Nat)
  | obj (r : Nat)
  | inc (r : Nat) (m : Nat)
  deriving Repr, DecidableEq

structure RWrite where
  target : Nat
  rhs : RExpr
  deriving Repr, DecidableEq

def evalR (view : State) (d : List Nat) : RExpr → Val
  | .const v => some v
  | .inp j => d[j]?
  | .obj r => view r
  | .inc r m => (view r).bind (fun x => if x < m then some ((x + 1) % m) else none)   -- partially undefined operand (code ≥ 1000): all 'X'

def isVarL (objs : List Obj) (r : Nat) : Bool :=
  match objAt objs r with
  | some o => o.isVar
  | none => false

def evalOnReset (objs : List Obj) : List RWrite → State → List Nat → Writes
  | [], _, _ => []
  | w :: ws, view, d =>
      let v := evalR view d w.rhs
      let view' := if isVarL objs w.target then setObj view w.target v else view
      (w.target, v) :: evalOnReset objs ws view' d

def onResetOf (objs : List Obj) (ws : List RWrite) : State → List Nat → Writes := fun s d =>
  evalOnReset objs ws (applyWrites s ((defaultWritesL objs).filter (fun w => isVarL objs w.1))) d

/-- the concrete context of a generated design (its body is not interpreted by the model: C04 is about the
    activations in which the body must NOT run) -/
def mkCtx (objs : List Obj) (cfg : Cfg) (ws : List RWrite) : Ctx (List Nat) :=
  { objs := objs, cfg := cfg, body := fun _ _ => [], onReset := onResetOf objs ws }

/-- objects whose value after reset is the power-up value: resettable and not assigned by an on_reset action -/
def footprint (objs : List Obj) (ws : List RWrite) : List Nat :=
  (resettableL objs).filter (fun r => !(ws.any (fun w => w.target == r)))

/-! ## line protocol

  obj    = `s|v` `/` default|`-` `/` noreset `/` written `/` pushed          e.g. `s/3/0/1/0`
  write  = target `/` `c|i|o|p` `/` arg [`/` modulus]                         e.g. `4/p/2/4`
  `info N obj*N M write*M K read*K`          -> `R r.. F r.. closed 0|1`   (closed: every read object is in F)
  `step KIND LOW N obj*N M write*M val*N EDGE RST EN D data*D`
        KIND = none|sync|async, val = value or `-`
        -> `reset v*N` (reset branch executed) | `body` (the body runs) | `hold v*N` (nothing executes)
-/

def parseBit (s : String) : Option Bool :=
  if s == "1" then some true else if s == "0" then some false else none

def parseVal (s : String) : Option Val :=
  if s == "-" then some none else s.toNat?.map some

def parseObj (s : String) : Option Obj :=
  match s.splitOn "/" with
  | [k, d, n, w, p] => do
      let isVar ← if k == "v" then some true else if k == "s" then some false else none
      let d ← parseVal d
      let n ← parseBit n
      let w ← parseBit w
      let p ← parseBit p
      pure { isVar := isVar, default := d, noreset := n, written := w, pushed := p }
  | _ => none

def parseWrite (s : String) : Option RWrite :=
  match s.splitOn "/" with
  | [t, "c", a] => do pure ⟨← t.toNat?, .const (← a.toNat?)⟩
  | [t, "i", a] => do pure ⟨← t.toNat?, .inp (← a.toNat?)⟩
  | [t, "o", a] => do pure ⟨← t.toNat?, .obj (← a.toNat?)⟩
  | [t, "p", a, m] => do pure ⟨← t.toNat?, .inc (← a.toNat?) (← m.toNat?)⟩
  | _ => none

/-- take a counted list `N x*N` from the front of the token list -/
def takeCounted {α : Type} (f : String → Option α) : List String → Option (List α × List String)
  | [] => none
  | n :: rest => do
      let n ← n.toNat?
      if rest.length < n then none
      else do
        let xs ← (rest.take n).mapM f
        pure (xs, rest.drop n)

def parseKind (s : String) : Option RKind :=
  if s == "none" then some .none else if s == "sync" then some .sync else if s == "async" then some .async else none

def showVal : Val → String
  | none => "-"
  | some v => toString v

def showNats (l : List Nat) : String := " ".intercalate (l.map toString)

def stateOfList (l : List Val) : State := fun r => (l[r]?).getD none

def handleInfo (toks : List String) : Option String := do
  let (objs, r1) ← takeCounted parseObj toks
  let (ws, r2) ← takeCounted parseWrite r1
  let (reads, r3) ← takeCounted String.toNat? r2
  if r3 ≠ [] then none
  let R := resettableL objs
  let F := footprint objs ws
  let closed := reads.all (fun r => F.contains r)
  pure s!"R {showNats R} F {showNats F} closed {if closed then 1 else 0}"

def handleStep (toks : List String) : Option String := do
  match toks with
  | k :: low :: rest =>
    let kind ← parseKind k
    let low ← parseBit low
    let (objs, r1) ← takeCounted parseObj rest
    let (ws, r2) ← takeCounted parseWrite r1
    if r2.length < objs.length + 4 then none
    let vals ← (r2.take objs.length).mapM parseVal
    match r2.drop objs.length with
    | e :: r :: n :: dat =>
      let edge ← parseBit e
      let rst ← parseBit r
      let en ← parseBit n
      let (data, r3) ← takeCounted String.toNat? dat
      if r3 ≠ [] then none
      let p := mkCtx objs ⟨kind, low⟩ ws
      let ev : Ev (List Nat) := ⟨edge, rst, en, data⟩
      let s := stateOfList vals
      let s' := stepR p s ev
      let out := " ".intercalate ((List.range objs.length).map (fun r => showVal (s' r)))
      if resetTaken p.cfg ev then pure s!"reset {out}"
      else if edge && en then pure "body"
      else pure s!"hold {out}"
    | _ => none
  | _ => none

def handle (args : List String) : String :=
  match args with
  | "info" :: rest => (handleInfo rest).getD "bad-op"
  | "step" :: rest => (handleStep rest).getD "bad-op"
  | _ => "bad-op"

end CohdlVerif.C04
