import CohdlVerif.Lemmas.C01Frag1e

/-! C01 - fragment 1: `if` -/
namespace CohdlVerif.C01

theorem mem_mergeAcc_nil (acc : List Nat) (b tb eb : Nat) (ot oe : List Nat) (y : Nat) :
    y ∈ mergeAcc acc b tb eb ot oe ↔ y ∈ acc ∨ y ∈ mergeAcc [] b tb eb ot oe := by
  unfold mergeAcc
  split
  · simp [mem_insId]
  · split
    · simp [mem_insIds]
    · split
      · simp [mem_insIds, mem_insId, or_assoc]
      · split
        · simp [mem_insIds, mem_insId, or_assoc]
        · simp [mem_insIds]

theorem iteLoop_acc_sub (c : Nat) (ft fe : List Nat → CSt → List Nat × CSt) :
    ∀ (bs : List Nat) (s : CSt) (acc : List Nat) (y : Nat), y ∈ acc → y ∈ (iteLoop c ft fe bs s acc).1 := by
  intro bs
  induction bs with
  | nil => intro s acc y h; exact h
  | cons b bs ih =>
    intro s acc y h
    rw [iteLoop_cons]
    exact ih _ _ y ((mem_mergeAcc_nil _ _ _ _ _ _ _).mpr (Or.inl h))

/-- unless both branches are free of transitions, the blocks kept are the open blocks of the branches -/
theorem mergeAcc_other (b tb eb : Nat) (ot oe : List Nat)
    (h : ¬ (anyTrans tb ot = false ∧ anyTrans eb oe = false)) (y : Nat) :
    y ∈ mergeAcc [] b tb eb ot oe ↔ y ∈ ot ∨ y ∈ oe := by
  unfold mergeAcc
  split
  · rename_i hc
    simp only [Bool.and_eq_true, Bool.not_eq_true'] at hc
    exact absurd hc h
  · split
    · simp [mem_insIds]
    · split
      · rename_i hc
        have hn : NoTr tb ot := (anyTrans_false_iff _ _).mp (by simpa using hc)
        simp only [mem_insIds, mem_insId, List.not_mem_nil, false_or]
        constructor
        · rintro (h1 | h1)
          · subst h1; exact Or.inl hn.mem
          · exact Or.inr h1
        · rintro (h1 | h1)
          · exact Or.inl (hn.2 y h1)
          · exact Or.inr h1
      · split
        · rename_i hc
          have hn : NoTr eb oe := (anyTrans_false_iff _ _).mp (by simpa using hc)
          simp only [mem_insIds, mem_insId, List.not_mem_nil, false_or]
          constructor
          · rintro (h1 | h1)
            · subst h1; exact Or.inr hn.mem
            · exact Or.inl h1
          · rintro (h1 | h1)
            · exact Or.inr h1
            · exact Or.inl (hn.2 y h1)
        · simp [mem_insIds]

theorem mergeAcc_both (b tb eb : Nat) (ot oe : List Nat) (h1 : anyTrans tb ot = false) (h2 : anyTrans eb oe = false) :
    mergeAcc [] b tb eb ot oe = [b] := by
  simp [mergeAcc, h1, h2, insId]


/-- result of translating the body of an `If` in block `b` -/
def iR4 (t1 : Stmt) (c b : Nat) (s : CSt) : List Nat × CSt := compile t1 [s.next] (itePre c b s)
/-- result of translating the else branch -/
def iR5 (t1 e1 : Stmt) (c b : Nat) (s : CSt) : List Nat × CSt := compile e1 [s.next + 1] (iR4 t1 c b s).2

/-- structural facts about one iteration of the `If` loop -/
structure IterCtx (t1 e1 : Stmt) (c b : Nat) (s : CSt) : Prop where
  T1 : Step s [b] (itePre c b s) [s.next + 1, s.next, b]
  hA3 : (itePre c b s).atStart = false
  hi3 : Inv (itePre c b s) [s.next]
  hsi3 : SInv (itePre c b s)
  Tt : Step (itePre c b s) [s.next] (iR4 t1 c b s).2 (iR4 t1 c b s).1
  hA4 : (iR4 t1 c b s).2.atStart = false
  n4 : s.next + 2 ≤ (iR4 t1 c b s).2.next
  hi4 : Inv (iR4 t1 c b s).2 [s.next + 1]
  hsi4 : SInv (iR4 t1 c b s).2
  Te : Step (iR4 t1 c b s).2 [s.next + 1] (iR5 t1 e1 c b s).2 (iR5 t1 e1 c b s).1
  hA5 : (iR5 t1 e1 c b s).2.atStart = false
  n5 : (iR4 t1 c b s).2.next ≤ (iR5 t1 e1 c b s).2.next
  hsi5 : SInv (iR5 t1 e1 c b s).2
  ot_r : ∀ y ∈ (iR4 t1 c b s).1, (y = s.next ∨ s.next + 2 ≤ y) ∧ y < (iR4 t1 c b s).2.next
  oe_r : ∀ y ∈ (iR5 t1 e1 c b s).1, (y = s.next + 1 ∨ (iR4 t1 c b s).2.next ≤ y) ∧ y < (iR5 t1 e1 c b s).2.next

theorem iterCtx (t1 e1 : Stmt) (h1 : frag1 t1 = true) (h2 : frag1 e1 = true) (c b : Nat) (s : CSt) (hb : b < s.next)
    (h0 : 0 < s.next) (hs : s.atStart = true → b = 0) (hsi : SInv s) : IterCtx t1 e1 c b s := by
  have T1 := itePre_step c b s hb
  have hA3 := itePre_atStart c b s hb h0 hs
  have hl3 := T1.hlt ⟨by simpa using hb, h0⟩
  have hn3 : (itePre c b s).next = s.next + 2 := rfl
  have hi3 : Inv (itePre c b s) [s.next] := Inv.single (by omega) hl3.2 hA3 (itePre_child_front c b s)
  have hsi3 := hsi.step T1 h0
  have Tt := frag1_step t1 h1 _ _ hi3
  have hA4 := Tt.atStart_false hl3.2 hA3
  have hn4 := Tt.next_le
  have hfe : ((compile t1 [s.next] (itePre c b s)).2.heap (s.next + 1)).front = [] := by
    rw [Tt.frame (s.next + 1) (by omega) (by simp)]; exact itePre_child2_front c b s
  have hi4 : Inv (compile t1 [s.next] (itePre c b s)).2 [s.next + 1] :=
    Inv.single (by omega) (by omega) hA4 hfe
  have hsi4 := hsi3.step Tt hl3.2
  have Te := frag1_step e1 h2 _ _ hi4
  refine ⟨T1, hA3, hi3, hsi3, Tt, hA4, by simpa [iR4, hn3] using hn4, hi4, hsi4, Te, Te.atStart_false hi4.hlt.2 hA4,
    Te.next_le, hsi4.step Te hi4.hlt.2, ?_, ?_⟩
  · intro y hy
    have hr := (Tt.open_r y hy).1
    constructor
    · rcases hr with h | h
      · simp at h; exact Or.inl h
      · exact Or.inr (by omega)
    · rcases hr with h | h
      · simp at h; simp only [iR4]; omega
      · exact h.2
  · intro y hy
    have hr := (Te.open_r y hy).1
    constructor
    · rcases hr with h | h
      · simp at h; exact Or.inl h
      · exact Or.inr h.1
    · rcases hr with h | h
      · simp at h; have := Te.next_le; simp only [iR5, iR4] at *; omega
      · exact h.2

end CohdlVerif.C01
