import CohdlVerif.Model.Fifo

/-! helper lemmas for C14 (index arithmetic of the ring buffer) -/
namespace CohdlVerif.C14

theorem two_pow_log2_le {n : Nat} (h : n ≠ 0) : 2 ^ Nat.log2 n ≤ n := Nat.log2_self_le h

/-- `N ≤ 2^(width of Unsigned.upto(N-1))` : every index `< N` is representable -/
theorem le_pow_uptoWidth (N : Nat) (hN : 1 ≤ N) : N ≤ 2 ^ uptoWidth (N - 1) := by
  unfold uptoWidth bitLength
  by_cases h : N - 1 = 0
  · simp [h]; omega
  · simp [h]
    have := @Nat.lt_log2_self (N - 1)
    omega

/-- for a power of two, the index width is exact: `2^w = N` -/
theorem pow_uptoWidth_of_isPowTwo (N : Nat) (hN : 2 ≤ N) (hp : isPowTwo N = true) :
    2 ^ uptoWidth (N - 1) = N := by
  unfold isPowTwo at hp
  simp at hp
  obtain ⟨_, hp⟩ := hp
  have hge := le_pow_uptoWidth N (by omega)
  unfold uptoWidth bitLength at *
  have h1 : N - 1 ≠ 0 := by omega
  simp only [h1, if_false] at *
  -- log2 (N-1) < log2 N since N = 2^k
  have hlt : Nat.log2 (N - 1) < Nat.log2 N := by
    have : N - 1 < 2 ^ Nat.log2 N := by omega
    exact (Nat.log2_lt h1).mpr this
  have hle : 2 ^ (Nat.log2 (N - 1) + 1) ≤ 2 ^ Nat.log2 N := Nat.pow_le_pow_right (by omega) hlt
  omega

/-- on valid indices `fifoNext` is "+1 with wrap to 0 at N-1" -/
theorem fifoNext_eq (N i : Nat) (hN : 2 ≤ N) (hi : i < N) :
    fifoNext N i = if i + 1 < N then i + 1 else 0 := by
  unfold fifoNext
  have hge := le_pow_uptoWidth N (by omega)
  by_cases hp : isPowTwo N = true
  · have he := pow_uptoWidth_of_isPowTwo N hN hp
    simp only [hp, if_true]
    rw [he]
    by_cases h : i + 1 < N
    · simp [h, Nat.mod_eq_of_lt h]
    · have : i + 1 = N := by omega
      simp [this]
  · simp only [hp]
    by_cases h : i + 1 < N
    · have h2 : i ≠ N - 1 := by omega
      have h3 : i + 1 < 2 ^ uptoWidth (N - 1) := by omega
      simp [h, h2, Nat.mod_eq_of_lt h3]
    · have h2 : i = N - 1 := by omega
      simp [h2]; omega

theorem fifoNext_lt (N i : Nat) (hN : 2 ≤ N) (hi : i < N) : fifoNext N i < N := by
  rw [fifoNext_eq N i hN hi]; split <;> omega

end CohdlVerif.C14
