import CohdlVerif.Lemmas.C01G6

/-! C01 - general grammar: forward invariant of `While` up to the restored lists -/
namespace CohdlVerif.C01

theorem wS1_hb_front (O : List Nat) (s : CSt) (hi : Inv s O) : ((wS1 O s).heap (wHb O s)).front = [] := by
  have hne : wHb O s ≠ (wS0 O s).next := by
    have := (wS0_step O s hi.hlt hi.start).1.hlt hi.hlt
    have := this.1 (wHb O s) (by simp); omega
  have h1 : (wS1 O s).heap (wHb O s) = (wS0 O s).heap (wHb O s) := by simp [wS1, CSt.newBlock, hne]
  rw [h1]
  cases hst : s.atStart with
  | true =>
    have h0 := atStart_heap0 hst
    simp [wS0, wHb, hst, enterState_start O s hst, CSt.append, h0]
  | false =>
    have := (enter_nostart_facts hi hst)
    simp only [wS0, wHb, hst, Bool.false_eq_true, if_false, this.2.1, this.2.2.2.1]


theorem wS1_bodyG (O : List Nat) (s : CSt) :
    (wS1 O s).heap (wBody O s) = {} ∧ (wS1 O s).next = wBody O s + 1 ∧
      (wS1 O s).root (wBody O s) = (wS0 O s).root (wHb O s) := by
  simp [wS1, wBody, CSt.newBlock]

/-- after the body of a loop, with the lists of the enclosing loop restored: pending are the `continue` blocks, the
    `break` blocks and the head block -/
theorem while_fpost4 (b : Stmt) (c : Bool) (hb : CSpec (compile b) true c) (fb : FwdG (compile b) true)
    (O : List Nat) (s : CSt) (hi : Inv s O) :
    FPost s ((wS3 b O s).cont ++ ((wS3 b O s).brk ++ [wHb O s])) (wS4 b O s) ∧
    Step s O (wS4 b O s) ((wS3 b O s).cont ++ ((wS3 b O s).brk ++ [wHb O s])) ∧ (wS4 b O s).atStart = false := by
  obtain ⟨T1, hA1, er, eb', ec⟩ := wS1_step O s hi.hlt hi.start
  obtain ⟨eb1, eb2, _⟩ := wS1_bodyG O s
  have hl1 := T1.hlt hi.hlt
  have hi1 : Inv ({ wS1 O s with cont := [], brk := [] } : CSt) [wBody O s] :=
    Inv.single (s1 := { wS1 O s with cont := [], brk := [] }) (hl1.1 _ (by simp)) hl1.2 hA1 (by
      show ((wS1 O s).heap (wBody O s)).front = []
      rw [eb1])
  have B : Step ({ wS1 O s with cont := [], brk := [] } : CSt) [wBody O s] (wR b O s).2 (wR b O s).1 :=
    hb.step hi1 (fun _ => hA1)
  have FB : FPost ({ wS1 O s with cont := [], brk := [] } : CSt) (wR b O s).1 (wR b O s).2 := fb _ _ hi1 (fun _ => hA1)
  have hhb : wHb O s < (wS1 O s).next := hl1.1 _ (by simp)
  have hhne : wHb O s ≠ wBody O s := by
    have := (wS0_step O s hi.hlt hi.start).1.hlt hi.hlt
    have := this.1 (wHb O s) (by simp)
    simp only [wBody]; omega
  have FX := FPost.frame (X := [wHb O s]) B FB (by simp) (by
    intro x hx
    simp only [List.mem_singleton] at hx
    subst hx
    exact ⟨hhb, by simpa using hhne, wS1_hb_front O s hi⟩)
  -- the lists
  have e3 := CSt.addfrontAll_sameLists (wIdx O s) (wR b O s).1 (wR b O s).2
  have hbrk : dB ({ wS1 O s with cont := [], brk := [] } : CSt) (wR b O s).2 = (wS3 b O s).brk := by
    simp only [dB, List.length_nil, List.drop_zero]; exact e3.1.symm
  have hcont : dC ({ wS1 O s with cont := [], brk := [] } : CSt) (wR b O s).2 = (wS3 b O s).cont := by
    simp only [dC, List.length_nil, List.drop_zero]; exact e3.2.1.symm
  have hret : dR ({ wS1 O s with cont := [], brk := [] } : CSt) (wR b O s).2 = dR s (wS4 b O s) := by
    have e4 : (wS4 b O s).ret = (wR b O s).2.ret := e3.2.2
    simp only [dR]
    rw [e4, show ({ wS1 O s with cont := [], brk := [] } : CSt).ret = (wS1 O s).ret from rfl, er]
  have hb4 : dB s (wS4 b O s) = [] := by
    simp only [dB, show (wS4 b O s).brk = (wS1 O s).brk from rfl, eb', List.drop_length]
  have hc4 : dC s (wS4 b O s) = [] := by
    simp only [dC, show (wS4 b O s).cont = (wS1 O s).cont from rfl, ec, List.drop_length]
  obtain ⟨S, hC, hB, hA4⟩ := wS4_step b c hb O s hi.hlt hi.start
  refine ⟨⟨?_, ?_⟩, ?_, hA4⟩
  · rw [List.nodup_iff_count]
    intro a
    have c1 := (List.nodup_iff_count.mp FX.1) a
    simp only [Outs, hbrk, hcont, hret, List.count_append] at c1
    simp only [Outs, hb4, hc4, List.count_append, List.count_nil]
    omega
  · intro y hy
    have hy' : y ∈ Outs ({ wS1 O s with cont := [], brk := [] } : CSt) ((wR b O s).1 ++ [wHb O s]) (wR b O s).2 ∧
        y ∉ (wR b O s).1 := by
      have c1 := (List.nodup_iff_count.mp FX.1) y
      simp only [Outs, hbrk, hcont, hret, List.count_append] at c1
      rw [mem_Outs, hb4, hc4] at hy
      simp only [List.mem_append, List.not_mem_nil, false_or] at hy
      have hpos : 0 < List.count y (wS3 b O s).cont + List.count y (wS3 b O s).brk + List.count y [wHb O s] +
          List.count y (dR s (wS4 b O s)) := by
        rcases hy with (h | h | h) | h
        · have := List.count_pos_iff.mpr h; omega
        · have := List.count_pos_iff.mpr h; omega
        · have := List.count_pos_iff.mpr h; omega
        · have := List.count_pos_iff.mpr h; omega
      constructor
      · rw [mem_Outs, hbrk, hcont, hret]
        simp only [List.mem_append]
        rcases hy with (h | h | h) | h
        · exact Or.inr (Or.inr (Or.inl h))
        · exact Or.inr (Or.inl h)
        · exact Or.inl (Or.inr h)
        · exact Or.inr (Or.inr (Or.inr h))
      · intro hm
        have := List.count_pos_iff.mpr hm; omega
    show ((CSt.addfrontAll (wR b O s).2 (wR b O s).1 (wIdx O s)).heap y).front = []
    rw [addfrontAll_heap_notin _ y _ _ hy'.2]
    exact FX.2 y hy'.1
  · refine T1.trans hi.hlt.1 (S.weaken (by simp) ?_)
    intro o ho
    simp only [List.mem_append, List.mem_singleton] at ho
    rcases ho with h | h | h
    · exact InR.weakenO (by simp) (hC o h)
    · exact InR.weakenO (by simp) (hB o h)
    · exact InR.ofMem S hl1.1 (by simp [h])


/-- after the `continue` loop: pending are the head block and the blocks that leave the loop -/
theorem while_fpostCl (cc : Option Nat) (b : Stmt) (c : Bool) (hb : CSpec (compile b) true c)
    (fb : FwdG (compile b) true) (O : List Nat) (s : CSt) (hi : Inv s O) :
    FPost s (wHb O s :: wRb cc b O s) (wCl cc b O s).2 ∧ Step s O (wCl cc b O s).2 (wHb O s :: wRb cc b O s) ∧
    (wCl cc b O s).2.atStart = false := by
  obtain ⟨P4, S4, _⟩ := while_fpost4 b c hb fb O s hi
  obtain ⟨W, hA⟩ := wCl_step cc b c hb O s hi.hlt hi.start
  obtain ⟨P5, S5⟩ := contLoop_fpost cc (wBody O s) s O hi.hlt.1 hi.hlt.2 ((wS3 b O s).brk ++ [wHb O s])
    (wS3 b O s).cont (wS4 b O s) [] (by simpa using S4) (by simpa using P4)
  have hperm : (wHb O s :: wRb cc b O s).Perm ((wCl cc b O s).1 ++ ((wS3 b O s).brk ++ [wHb O s])) := by
    simp only [wRb]
    rw [← List.append_assoc]
    exact (List.perm_append_singleton _ _).symm
  refine ⟨P5.restrict (hperm.nodup_iff.mpr P5.nodup_open) (fun y hy => hperm.mem_iff.mp hy), W, hA⟩

theorem fwd_while (cc : Option Nat) (b k : Stmt) (l c : Bool) (hb : CSpec (compile b) true c)
    (hk : CSpec (compile k) l c) (fb : FwdG (compile b) true) (fk : FwdG (compile k) l) :
    FwdG (compile (.while_ cc b k)) l := by
  intro O s hi _
  obtain ⟨P, W, hA⟩ := while_fpostCl cc b c hb fb O s hi
  have hlw := W.hlt hi.hlt
  have hnR : (wRb cc b O s).Nodup := (List.nodup_cons.mp P.nodup_open).2
  have hhR : wHb O s ∉ wRb cc b O s := (List.nodup_cons.mp P.nodup_open).1
  cases cc with
  | none =>
    rw [compile_while_none]
    have hx := HeapExt.append (wCl none b O s).2 (wHb O s :: wRb none b O s) (wHb O s) (by simp) (.sub (wBody O s))
    have X := hx.step hlw.1
    have X' : Step (wCl none b O s).2 (wHb O s :: wRb none b O s) _ (wRb none b O s) :=
      X.weaken (fun _ h => h) (fun o ho => X.open_r o (by simp [ho]))
    have hAx := X.atStart_false hlw.2 hA
    have hfr : ∀ o ∈ wRb none b O s, (((wCl none b O s).2.append (wHb O s) (.sub (wBody O s))).heap o).front = [] := by
      intro o ho
      rw [append_front]
      exact P.2 o (mem_Outs.mpr (Or.inl (by simp [ho])))
    have hix : Inv ((wCl none b O s).2.append (wHb O s) (.sub (wBody O s))) (wRb none b O s) :=
      ⟨X'.hlt hlw, fun h => (by rw [hAx] at h; cases h), hnR, hfr⟩
    exact FPost.comp hi.hlt.1 (W.trans hi.hlt.1 X') (hk.step hix (fun _ => hAx))
      (FPost.comp hi.hlt.1 W X' P (FPost.of_same hx.sameLists hnR hfr)) (fk _ _ hix (fun _ => hAx))
  | some c' =>
    rw [compile_while_some]
    have N := Step.newBlock (wCl (some c') b O s).2 (wHb O s :: wRb (some c') b O s) hlw.1 (some (wHb O s)) (by simp)
    have hln := N.hlt hlw
    have hx := HeapExt.append ((wCl (some c') b O s).2.newBlock (some (wHb O s))).2
      ((wCl (some c') b O s).2.next :: wHb O s :: wRb (some c') b O s) (wHb O s) (by simp)
      (.ite c' (wBody O s) (wCl (some c') b O s).2.next)
    have X := hx.step hln.1
    have NX := N.trans hlw.1 X
    have NX' : Step (wCl (some c') b O s).2 (wHb O s :: wRb (some c') b O s) _
        ((wCl (some c') b O s).2.next :: wRb (some c') b O s) :=
      NX.weaken (fun _ h => h) (fun o ho => NX.open_r o (by simp at ho; rcases ho with h | h <;> simp [h]))
    have hAx := X.atStart_false hln.2 (N.atStart_false hlw.2 hA)
    have hnn : ((wCl (some c') b O s).2.next :: wRb (some c') b O s).Nodup := by
      refine List.nodup_cons.mpr ⟨fun h => ?_, hnR⟩
      have := hlw.1 _ (List.mem_cons_of_mem _ h); omega
    have hfr : ∀ o ∈ (wCl (some c') b O s).2.next :: wRb (some c') b O s,
        ((((wCl (some c') b O s).2.newBlock (some (wHb O s))).2.append (wHb O s)
          (.ite c' (wBody O s) (wCl (some c') b O s).2.next)).heap o).front = [] := by
      intro o ho
      rw [append_front]
      rcases List.mem_cons.mp ho with h | h
      · subst h; simp [CSt.newBlock]
      · have hne : o ≠ (wCl (some c') b O s).2.next := by have := hlw.1 o (List.mem_cons_of_mem _ h); omega
        simp only [CSt.newBlock, hne, if_false]
        exact P.2 o (mem_Outs.mpr (Or.inl (by simp [h])))
    have hix : Inv _ ((wCl (some c') b O s).2.next :: wRb (some c') b O s) :=
      ⟨NX'.hlt hlw, fun h => (by rw [hAx] at h; cases h), hnn, hfr⟩
    exact FPost.comp hi.hlt.1 (W.trans hi.hlt.1 NX') (hk.step hix (fun _ => hAx))
      (FPost.comp hi.hlt.1 W NX' P (FPost.of_same
        ((show SameLists (wCl (some c') b O s).2 ((wCl (some c') b O s).2.newBlock (some (wHb O s))).2 from ⟨rfl, rfl, rfl⟩).trans
          hx.sameLists) hnn hfr)) (fk _ _ hix (fun _ => hAx))

end CohdlVerif.C01
