import CohdlVerif.Lemmas.C01W12

/-! C01 - general grammar: the `bad` flag is never reset -/
namespace CohdlVerif.C01

theorem enterState_bad (O : List Nat) (s : CSt) : (enterState O s).2.2.bad = s.bad := by
  cases hst : s.atStart with
  | true => rw [enterState_start O s hst]
  | false => rw [enterState_nostart O s hst]; exact CSt.addfrontAll_bad _ _ _

theorem contLoop_badMono (c : Option Nat) (body : Nat) : ∀ (cbs : List Nat) (s : CSt) (acc : List Nat),
    (contLoop c body cbs s acc).2.bad = false → s.bad = false := by
  intro cbs
  induction cbs with
  | nil => intro s acc h; exact h
  | cons cb cbs ih =>
    intro s acc h
    by_cases hr : s.root cb = s.root body
    · rw [contLoop_cons_bad c body cb cbs s acc hr] at h
      have := ih _ _ h; simp at this
    · cases c with
      | none => rw [contLoop_cons_none body cb cbs s acc hr] at h; exact (ih _ _ h : (s.append cb (.sub body)).bad = false)
      | some c' =>
        rw [contLoop_cons_some c' body cb cbs s acc hr] at h
        exact (ih _ _ h : ((s.newBlock (some cb)).2.append cb (.ite c' body s.next)).bad = false)

theorem appendAll_bad (it : Item) : ∀ (bs : List Nat) (s : CSt), (s.appendAll bs it).bad = s.bad := by
  intro bs
  induction bs with
  | nil => intro s; rfl
  | cons b bs ih => intro s; simp only [CSt.appendAll, List.foldl_cons] at ih ⊢; rw [ih]; rfl

theorem wS1_bad (O : List Nat) (s : CSt) : (wS1 O s).bad = s.bad := by
  have h0 : (wS0 O s).bad = s.bad := by
    unfold wS0; split
    · exact enterState_bad O s
    · exact enterState_bad O s
  exact h0

theorem compile_badMono : ∀ (t : Stmt), BadMono (compile t) := by
  intro t
  induction t with
  | skip => intro O s h; exact h
  | act a k ih => intro O s h; have := ih _ _ h; rwa [appendAll_bad] at this
  | await cc k ih =>
    intro O s h
    cases cc with
    | none =>
      rw [compile_await_none] at h
      split at h
      · exact ih _ _ h
      · have := ih _ _ h; rwa [enterState_bad] at this
    | some c' =>
      rw [compile_await_some] at h
      split at h
      · exact ih _ _ h
      · have := ih _ _ h
        have e : (itePre c' (enterState O s).2.1 (enterState O s).2.2).bad = (enterState O s).2.2.bad := rfl
        rwa [e, enterState_bad] at this
  | awaitF =>
    intro O s h
    simp only [compile] at h
    split at h
    · exact h
    · rwa [enterState_bad] at h
  | ite c t e k iht ihe ihk =>
    intro O s h
    rw [compile_ite] at h
    split at h
    · exact iteLoop_badMono c _ _ iht ihe _ _ _ h
    · exact iteLoop_badMono c _ _ iht ihe _ _ _ (ihk _ _ h)
  | while_ cc b k ihb ihk =>
    intro O s h
    rw [compile_while] at h
    have h1 : (wSX cc b O s).bad = false := ihk _ _ h
    have h5 : (wCl cc b O s).2.bad = false := by cases cc <;> exact h1
    have h4 : (wS4 b O s).bad = false := contLoop_badMono _ _ _ _ _ h5
    have hR : (wR b O s).2.bad = false := by
      have : (wS4 b O s).bad = (wR b O s).2.bad := CSt.addfrontAll_bad _ _ _
      rw [← this]; exact h4
    have h1c : (wS1c O s).bad = false := ihb _ _ hR
    have : (wS1c O s).bad = (wS1 O s).bad := rfl
    rw [this, wS1_bad] at h1c
    exact h1c
  | brk => intro O s h; exact h
  | cont => intro O s h; exact h
  | ret => intro O s h; exact h
  | call b k ihb ihk =>
    intro O s h
    rw [compile_call] at h
    split at h
    · exact ihk _ _ h
    · have h1 := ihk _ _ h
      have h2 : (compile b O { s with ret := [] }).2.bad = false := h1
      exact (ihb _ _ h2 : ({ s with ret := [] } : CSt).bad = false)

end CohdlVerif.C01
