import CohdlVerif.Model.C09
import Mathlib.Tactic.Ring
import Mathlib.Tactic.Linarith

/-! C09 - helper lemmas: the ripple-carry loop is modular addition; two's-complement pattern arithmetic;
    `from_int` widths; truncating division. -/
namespace CohdlVerif.C09

theorem bitsToNat_rippleAdd (t : Nat) : ∀ (x y : Nat) (c : Bool),
    bitsToNat (rippleAdd (natToBits t x) (natToBits t y) c) = (x + y + c.toNat) % 2 ^ t := by
  induction t with
  | zero => intro x y c; simp [natToBits, rippleAdd, bitsToNat, Nat.mod_one]
  | succ t ih =>
    intro x y c
    simp only [natToBits, rippleAdd, bitsToNat]
    rw [ih]
    have hx : (x % 2 == 1).toNat = x % 2 := by
      rcases Nat.mod_two_eq_zero_or_one x with h | h <;> simp [h]
    have hy : (y % 2 == 1).toNat = y % 2 := by
      rcases Nat.mod_two_eq_zero_or_one y with h | h <;> simp [h]
    rw [hx, hy]
    have hc : c.toNat ≤ 1 := by cases c <;> simp
    have hpow : 2 ^ (t + 1) = 2 * 2 ^ t := by rw [Nat.pow_succ, Nat.mul_comm]
    rw [hpow, Nat.mod_mul]
    have hcarry : (decide (x % 2 + y % 2 + c.toNat > 1)).toNat = (x % 2 + y % 2 + c.toNat) / 2 := by
      by_cases h : x % 2 + y % 2 + c.toNat > 1
      · simp [h]; omega
      · simp [h]; omega
    rw [hcarry]
    have hs : (((x % 2 + y % 2 + c.toNat) % 2) == 1).toNat = (x + y + c.toNat) % 2 := by
      have : (x % 2 + y % 2 + c.toNat) % 2 = (x + y + c.toNat) % 2 := by omega
      rw [this]
      rcases Nat.mod_two_eq_zero_or_one (x + y + c.toNat) with h | h <;> simp [h]
    rw [hs]
    have hd : x / 2 + y / 2 + (x % 2 + y % 2 + c.toNat) / 2 = (x + y + c.toNat) / 2 := by omega
    rw [hd]

theorem ripple_eq (t a b : Nat) : ripple t a b = (a + b) % 2 ^ t := by
  unfold ripple; rw [bitsToNat_rippleAdd]; simp

theorem M_pos (w : Nat) : (0 : Int) < ((2 ^ w : Nat) : Int) := by
  have := Nat.two_pow_pos w; omega

theorem pat_cast (w : Nat) (i : Int) : ((pat w i : Nat) : Int) = i % ((2 ^ w : Nat) : Int) := by
  unfold pat
  exact Int.toNat_of_nonneg (Int.emod_nonneg _ (by have := M_pos w; omega))

theorem pat_lt (w : Nat) (i : Int) : pat w i < 2 ^ w := by
  have h := Int.emod_lt_of_pos i (M_pos w)
  have := pat_cast w i
  omega

theorem pat_natCast (w n : Nat) : pat w (n : Int) = n % 2 ^ w := by
  have := pat_cast w n
  have h2 : ((n % 2 ^ w : Nat) : Int) = (n : Int) % ((2 ^ w : Nat) : Int) := by push_cast; rfl
  omega

theorem pat_of_lt (w n : Nat) (h : n < 2 ^ w) : pat w (n : Int) = n := by
  rw [pat_natCast, Nat.mod_eq_of_lt h]

theorem pat_congr (w : Nat) (i j : Int) (h : i % ((2 ^ w : Nat) : Int) = j % ((2 ^ w : Nat) : Int)) : pat w i = pat w j := by
  unfold pat; rw [h]

theorem pat_absorb_r (w : Nat) (i j : Int) : pat w (i + (pat w j : Nat)) = pat w (i + j) := by
  apply pat_congr; rw [pat_cast, Int.add_emod_emod]

theorem pat_absorb_l (w : Nat) (i j : Int) : pat w ((pat w i : Nat) + j) = pat w (i + j) := by
  apply pat_congr; rw [pat_cast, Int.emod_add_emod]

theorem pat_add_M (w : Nat) (i : Int) : pat w (i + ((2 ^ w : Nat) : Int)) = pat w i := by
  apply pat_congr; exact Int.add_emod_right _ _

theorem ripple_pat (t a b : Nat) : ripple t a b = pat t ((a : Int) + b) := by
  rw [ripple_eq, ← pat_natCast]; push_cast; rfl


theorem toInt_bounds (w n : Nat) (hw : 1 ≤ w) (h : n < 2 ^ w) :
    -((2 ^ (w - 1) : Nat) : Int) ≤ toInt w n ∧ toInt w n < ((2 ^ (w - 1) : Nat) : Int) := by
  have hp : 2 ^ w = 2 * 2 ^ (w - 1) := by
    obtain ⟨k, rfl⟩ : ∃ k, w = k + 1 := ⟨w - 1, by omega⟩
    simp [Nat.pow_succ, Nat.mul_comm]
  unfold toInt
  rw [hp] at h ⊢
  generalize 2 ^ (w - 1) = P at *
  split <;> omega

theorem toInt_cast_mod (w n : Nat) (hw : 1 ≤ w) (h : n < 2 ^ w) :
    (toInt w n) % ((2 ^ w : Nat) : Int) = (n : Int) := by
  unfold toInt
  split
  · exact Int.emod_eq_of_lt (by omega) (by omega)
  · rw [Int.sub_emod_right]; exact Int.emod_eq_of_lt (by omega) (by omega)

theorem bitLength_le (n k : Nat) : bitLength n ≤ k ↔ n < 2 ^ k := by
  unfold bitLength
  split
  · subst_vars; simp [Nat.two_pow_pos]
  · rename_i h
    rw [show Nat.log2 n + 1 ≤ k ↔ Nat.log2 n < k by omega]
    exact Nat.log2_lt h


theorem truncDiv_eq (a b : Int) : truncDiv a b = a.tdiv b := by
  unfold truncDiv
  cases a with
  | ofNat m => cases b with
    | ofNat n =>
      have h1 : ¬ (Int.ofNat m < 0) := by simp
      have h2 : ¬ (Int.ofNat n < 0) := by simp
      simp only [h1, h2, Int.tdiv, Int.natAbs, decide_false, bne_self_eq_false]; simp
    | negSucc n =>
      have h1 : ¬ (Int.ofNat m < 0) := by simp
      have h2 : (Int.negSucc n < 0) := Int.negSucc_lt_zero n
      simp only [h1, h2, Int.tdiv, Int.natAbs, Int.natAbs_negSucc, decide_false, decide_true]; simp
  | negSucc m => cases b with
    | ofNat n =>
      have h1 : (Int.negSucc m < 0) := Int.negSucc_lt_zero m
      have h2 : ¬ (Int.ofNat n < 0) := by simp
      simp only [h1, h2, Int.tdiv, Int.natAbs, Int.natAbs_negSucc, decide_false, decide_true]; simp
    | negSucc n =>
      have h1 : (Int.negSucc m < 0) := Int.negSucc_lt_zero m
      have h2 : (Int.negSucc n < 0) := Int.negSucc_lt_zero n
      simp only [h1, h2, Int.tdiv, Int.natAbs_negSucc, decide_true, bne_self_eq_false]; simp

theorem truncRem_eq (a b : Int) : truncRem a b = a.tmod b := by
  unfold truncRem
  cases a with
  | ofNat m => cases b with
    | ofNat n =>
      have h1 : ¬ (Int.ofNat m < 0) := by simp
      simp only [h1, Int.tmod, Int.natAbs]; simp
    | negSucc n =>
      have h1 : ¬ (Int.ofNat m < 0) := by simp
      simp only [h1, Int.tmod, Int.natAbs, Int.natAbs_negSucc]; simp
  | negSucc m => cases b with
    | ofNat n =>
      have h1 : (Int.negSucc m < 0) := Int.negSucc_lt_zero m
      simp only [h1, Int.tmod, Int.natAbs, Int.natAbs_negSucc]; simp
    | negSucc n =>
      have h1 : (Int.negSucc m < 0) := Int.negSucc_lt_zero m
      simp only [h1, Int.tmod, Int.natAbs_negSucc]; simp


theorem isPow2_iff (n : Nat) : isPow2 n = true ↔ ∃ k, n = 2 ^ k := by
  unfold isPow2
  constructor
  · intro h
    simp only [Bool.and_eq_true, bne_iff_ne, ne_eq, beq_iff_eq] at h
    exact ⟨Nat.log2 n, h.2.symm⟩
  · rintro ⟨k, rfl⟩
    have : (2 ^ k) ≠ 0 := by have := Nat.two_pow_pos k; omega
    simp [this, Nat.log2_two_pow]

theorem sFromIntWidth_le (w : Nat) (r : Int) (hw : 1 ≤ w) :
    sFromIntWidth r ≤ w ↔ inRange .sgn w r = true := by
  obtain ⟨k, rfl⟩ : ∃ k, w = k + 1 := ⟨w - 1, by omega⟩
  simp only [inRange, Nat.add_sub_cancel, Bool.and_eq_true, decide_eq_true_eq]
  unfold sFromIntWidth
  by_cases hr : r ≥ 0
  · simp only [hr, decide_true, Bool.true_or, if_true]
    rw [show bitLength r.natAbs + 1 ≤ k + 1 ↔ bitLength r.natAbs ≤ k by omega, bitLength_le]
    constructor
    · intro h; constructor
      · have := Nat.two_pow_pos k; omega
      · omega
    · intro h; omega
  · have hneg : r < 0 := by omega
    simp only [hr, decide_false, Bool.false_or]
    by_cases hp : isPow2 r.natAbs = true
    · simp only [hp, Bool.not_true, Bool.false_eq_true, if_false]
      obtain ⟨j, hj⟩ := (isPow2_iff _).mp hp
      have hbl : bitLength r.natAbs = j + 1 := by
        unfold bitLength
        have : r.natAbs ≠ 0 := by omega
        simp [this, hj, Nat.log2_two_pow]
      rw [hbl]
      constructor
      · intro h
        have : 2 ^ j ≤ 2 ^ k := Nat.pow_le_pow_right (by decide) (by omega)
        constructor <;> omega
      · intro h
        have h1 : 2 ^ j ≤ 2 ^ k := by omega
        have : j ≤ k := (Nat.pow_le_pow_iff_right (by decide)).mp h1
        omega
    · have hp' : isPow2 r.natAbs = false := by simpa using hp
      simp only [hp', Bool.not_false, if_true]
      rw [show bitLength r.natAbs + 1 ≤ k + 1 ↔ bitLength r.natAbs ≤ k by omega, bitLength_le]
      constructor
      · intro h; constructor <;> omega
      · intro h
        have hne : r.natAbs ≠ 2 ^ k := by
          intro he; exact hp ((isPow2_iff _).mpr ⟨k, he⟩)
        omega

theorem uFromIntWidth_pat_le (w : Nat) (r : Int) (hw : 1 ≤ w) : uFromIntWidth (pat w r) ≤ w := by
  unfold uFromIntWidth
  rw [bitLength_le]
  have := pat_lt w r
  split
  · have : 2 ^ 1 ≤ 2 ^ w := Nat.pow_le_pow_right (by decide) hw
    omega
  · exact this


theorem mkU_ok (w : Nat) (i : Int) (h0 : 0 ≤ i) (h1 : i < ((2 ^ w : Nat) : Int)) :
    mkU w i = .ok (wrap .uns w i) := by
  unfold mkU wrap
  rw [if_pos ⟨h0, h1⟩]
  congr 2
  have hc := pat_cast w i
  rw [Int.emod_eq_of_lt h0 h1] at hc
  omega

theorem mkS_ok (w : Nat) (i : Int) (h : inRange .sgn w i = true) : mkS w i = .ok (wrap .sgn w i) := by
  unfold mkS wrap
  simp only [inRange, Bool.and_eq_true, decide_eq_true_eq] at h
  rw [if_pos h]

theorem max_pow_le_l (a b : Nat) : 2 ^ a ≤ 2 ^ (max a b) := Nat.pow_le_pow_right (by decide) (Nat.le_max_left a b)
theorem max_pow_le_r (a b : Nat) : 2 ^ b ≤ 2 ^ (max a b) := Nat.pow_le_pow_right (by decide) (Nat.le_max_right a b)

theorem pat_one (t : Nat) (ht : 1 ≤ t) : pat t 1 = 1 := by
  have : 2 ^ 1 ≤ 2 ^ t := Nat.pow_le_pow_right (by decide) ht
  exact pat_of_lt t 1 (by omega)

/-- `~x + 1` at width t is the two's complement -/
theorem uNeg_eq (t n : Nat) (ht : 1 ≤ t) (h : n < 2 ^ t) :
    uNeg t n = .ok (.vec .uns t (pat t (-(n : Int)))) := by
  unfold uNeg uAdd
  simp only
  rw [if_pos (uFromIntWidth_pat_le t 1 ht), ripple_pat, pat_absorb_r]
  congr 2
  apply pat_congr
  have hc : ((allOnes t - n : Nat) : Int) = ((2 ^ t : Nat) : Int) - 1 - n := by
    unfold allOnes; omega
  rw [hc, show ((2 ^ t : Nat) : Int) - 1 - (n : Int) + 1 = -(n : Int) + ((2 ^ t : Nat) : Int) by ring]
  exact Int.add_emod_right _ _

theorem uSub_uu (wa na wb nb : Nat) (hwa : 1 ≤ wa) (hb : nb < 2 ^ wb) :
    uSub wa na (.vec .uns wb nb) = .ok (.vec .uns (max wa wb) (pat (max wa wb) ((na : Int) - nb))) := by
  have hb' : nb < 2 ^ (max wa wb) := Nat.lt_of_lt_of_le hb (max_pow_le_r wa wb)
  unfold uSub
  simp only
  rw [uNeg_eq _ _ (by omega) hb']
  simp only [uAdd]
  rw [Nat.max_eq_right (Nat.le_max_left wa wb), ripple_pat, pat_absorb_r]
  rfl

theorem uAdd_int (w n : Nat) (r : Int) (hw : 1 ≤ w) :
    uAdd w n (.int r) = .ok (.vec .uns w (pat w ((n : Int) + r))) := by
  unfold uAdd
  simp only
  rw [if_pos (uFromIntWidth_pat_le w r hw), ripple_pat, pat_absorb_r]

theorem uAdd_integer (w n : Nat) (r : Int) (hw : 1 ≤ w) :
    uAdd w n (.integer r) = .ok (.vec .uns w (pat w ((n : Int) + r))) := by
  unfold uAdd
  simp only
  rw [if_pos (uFromIntWidth_pat_le w r hw), ripple_pat, pat_absorb_r]

theorem uSub_int (w n : Nat) (r : Int) (hw : 1 ≤ w) :
    uSub w n (.int r) = .ok (.vec .uns w (pat w ((n : Int) - r))) := by
  unfold uSub
  simp only
  rw [uAdd_int _ _ _ hw]
  congr 2
  apply pat_congr
  rw [pat_cast, Int.emod_def r]
  have : (n : Int) + -(r - ((2 ^ w : Nat) : Int) * (r / ((2 ^ w : Nat) : Int))) =
      (n : Int) - r + ((2 ^ w : Nat) : Int) * (r / ((2 ^ w : Nat) : Int)) := by ring
  rw [this, Int.add_mul_emod_self_left]


theorem mkU_nat (w m : Nat) (h : m < 2 ^ w) : mkU w (m : Int) = .ok (.vec .uns w m) := by
  unfold mkU
  rw [if_pos ⟨by omega, by exact_mod_cast h⟩]
  simp

theorem wrap_uns_nat (w m : Nat) (h : m < 2 ^ w) : wrap .uns w (m : Int) = .vec .uns w m := by
  unfold wrap; rw [pat_of_lt w m h]

theorem nat_tdiv (a b : Nat) : (a : Int).tdiv b = ((a / b : Nat) : Int) := by
  rw [Int.tdiv_eq_ediv_of_nonneg (by omega)]; rfl
theorem nat_fdiv (a b : Nat) : (a : Int).fdiv b = ((a / b : Nat) : Int) := by
  rw [Int.fdiv_eq_ediv_of_nonneg _ (by omega)]; rfl
theorem nat_tmod (a b : Nat) : (a : Int).tmod b = ((a % b : Nat) : Int) := by
  rw [Int.tmod_eq_emod_of_nonneg (by omega)]; rfl
theorem nat_fmod (a b : Nat) : (a : Int).fmod b = ((a % b : Nat) : Int) := by
  rw [Int.fmod_eq_emod_of_nonneg _ (by omega)]; rfl

theorem emod_eq_of_eq_add_mul (a b k M : Int) (h : a = b + M * k) : a % M = b % M := by
  subst h; exact Int.add_mul_emod_self_left _ _ _

theorem inRange_toInt (w n : Nat) (hw : 1 ≤ w) (h : n < 2 ^ w) : inRange .sgn w (toInt w n) = true := by
  have := toInt_bounds w n hw h
  simp only [inRange, Bool.and_eq_true, decide_eq_true_eq]; exact this

theorem pat_toInt (w n : Nat) (hw : 1 ≤ w) (h : n < 2 ^ w) : pat w (toInt w n) = n := by
  have h1 := pat_cast w (toInt w n)
  rw [toInt_cast_mod w n hw h] at h1
  omega

theorem pat_toInt_absorb (t p : Nat) (x : Int) (ht : 1 ≤ t) (h : p < 2 ^ t) :
    pat t (x + toInt t p) = pat t (x + p) := by
  apply pat_congr
  rw [Int.add_emod, toInt_cast_mod t p ht h, Int.emod_add_emod]

theorem toInt_pat (t : Nat) (i : Int) (ht : 1 ≤ t) (hr : inRange .sgn t i = true) : toInt t (pat t i) = i := by
  simp only [inRange, Bool.and_eq_true, decide_eq_true_eq] at hr
  have hp : 2 ^ t = 2 * 2 ^ (t - 1) := by
    obtain ⟨k, rfl⟩ : ∃ k, t = k + 1 := ⟨t - 1, by omega⟩
    simp [Nat.pow_succ, Nat.mul_comm]
  have hc := pat_cast t i
  unfold toInt
  rw [hp] at hc ⊢
  generalize 2 ^ (t - 1) = P at *
  by_cases h0 : 0 ≤ i
  · rw [Int.emod_eq_of_lt h0 (by omega)] at hc
    split <;> omega
  · have : i % ((2 * P : Nat) : Int) = i + ((2 * P : Nat) : Int) := by
      rw [← Int.add_emod_right]; exact Int.emod_eq_of_lt (by omega) (by omega)
    rw [this] at hc
    split <;> omega

theorem inRange_mono (w t : Nat) (i : Int) (h : w ≤ t) (hr : inRange .sgn w i = true) : inRange .sgn t i = true := by
  simp only [inRange, Bool.and_eq_true, decide_eq_true_eq] at hr ⊢
  have : 2 ^ (w - 1) ≤ 2 ^ (t - 1) := Nat.pow_le_pow_right (by decide) (by omega)
  omega

theorem sAdd_ss (w n w2 n2 : Nat) :
    sAdd w n (.vec .sgn w2 n2) = .ok (wrap .sgn (max w w2) (toInt w n + toInt w2 n2)) := by
  simp only [sAdd, ripple_pat, pat_absorb_r, pat_absorb_l, wrap]

theorem sAdd_int (w n : Nat) (r : Int) (hw : 1 ≤ w) (hr : inRange .sgn w r = true) :
    sAdd w n (.int r) = .ok (wrap .sgn w (toInt w n + r)) := by
  simp only [sAdd, (sFromIntWidth_le w r hw).mpr hr, if_true, ripple_pat, pat_absorb_r, pat_absorb_l, wrap]

theorem sNeg_eq (t n : Nat) (ht : 1 ≤ t) (h : n < 2 ^ t) :
    sNeg t n = .ok (wrap .sgn t (-(toInt t n))) := by
  unfold sNeg
  by_cases h1 : t = 1
  · subst h1
    simp only [if_true, wrap]
    have : n = 0 ∨ n = 1 := by omega
    rcases this with rfl | rfl <;> decide
  · simp only [h1, if_false]
    have h2 : 2 ≤ t := by omega
    have hr : inRange .sgn t 1 = true := by
      simp only [inRange, Bool.and_eq_true, decide_eq_true_eq]
      have : 2 ^ 1 ≤ 2 ^ (t - 1) := Nat.pow_le_pow_right (by decide) (by omega)
      omega
    have hlt : allOnes t - n < 2 ^ t := by unfold allOnes; omega
    rw [sAdd_int _ _ _ ht hr]
    simp only [wrap]
    congr 2
    rw [Int.add_comm, pat_toInt_absorb t _ 1 ht hlt]
    apply pat_congr
    have hc : ((allOnes t - n : Nat) : Int) = ((2 ^ t : Nat) : Int) - 1 - n := by
      unfold allOnes; omega
    rw [hc]
    unfold toInt
    split
    · exact emod_eq_of_eq_add_mul _ _ 1 _ (by omega)
    · exact emod_eq_of_eq_add_mul _ _ 0 _ (by omega)


theorem sSub_ss (w n w2 n2 : Nat) (hw : 1 ≤ w) (hw2 : 1 ≤ w2) (h2 : n2 < 2 ^ w2) :
    sSub w n (.vec .sgn w2 n2) = .ok (wrap .sgn (max w w2) (toInt w n - toInt w2 n2)) := by
  have ht : 1 ≤ max w w2 := by omega
  have hr2 := inRange_mono w2 (max w w2) _ (Nat.le_max_right w w2) (inRange_toInt w2 n2 hw2 h2)
  simp only [sSub]
  rw [sNeg_eq _ _ ht (pat_lt _ _), toInt_pat _ _ ht hr2]
  simp only [wrap, sAdd, Nat.max_eq_right (Nat.le_max_left w w2), ripple_pat, pat_absorb_l]
  rw [pat_absorb_r, pat_toInt_absorb _ _ _ ht (pat_lt _ _), pat_absorb_r, Int.sub_eq_add_neg]


theorem msb_bit (w n : Nat) (hw : 1 ≤ w) (hn : n < 2 ^ w) :
    (n / 2 ^ (w - 1) % 2 == 1) = decide (2 ^ (w - 1) ≤ n) := by
  have hp : 2 ^ w = 2 * 2 ^ (w - 1) := by
    obtain ⟨k, rfl⟩ : ∃ k, w = k + 1 := ⟨w - 1, by omega⟩
    simp [Nat.pow_succ, Nat.mul_comm]
  have hP := Nat.two_pow_pos (w - 1)
  rw [hp] at hn
  generalize 2 ^ (w - 1) = P at *
  by_cases h : P ≤ n
  · have : n / P = 1 := by
      apply Nat.div_eq_of_lt_le <;> omega
    simp [this, h]
  · have : n / P = 0 := Nat.div_eq_of_lt (by omega)
    simp [this, h]

end CohdlVerif.C09
