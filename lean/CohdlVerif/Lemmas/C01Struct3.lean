import CohdlVerif.Lemmas.C01Struct2

/-! C01 - `compile` satisfies `CSpec` (structural facts), case by case -/
namespace CohdlVerif.C01

theorem atStart_nil_false {s : CSt} {O : List Nat} (hJ : s.atStart = true → O = [0]) (hO : O.isEmpty = true) :
    s.atStart = false := by
  cases h : s.atStart with
  | false => rfl
  | true => have := hJ h; subst this; simp at hO

theorem enterState_lists (O : List Nat) (s : CSt) :
    (enterState O s).2.2.ret = s.ret ∧ (enterState O s).2.2.brk = s.brk ∧ (enterState O s).2.2.cont = s.cont := by
  cases hst : s.atStart with
  | true => rw [enterState_start O s hst]; exact ⟨rfl, rfl, rfl⟩
  | false =>
    rw [enterState_nostart O s hst]
    have h := HeapExt.addfrontAll O s.states.length O
      { (s.newBlock none).2 with states := s.states ++ [s.next] } (fun _ h => h) (fun _ => by simp)
    exact ⟨h.ret_eq, h.brk_eq, h.cont_eq⟩

theorem skip_spec (l c : Bool) : CSpec (compile .skip) l c := by
  intro O s _ hJ _
  simp only [compile]
  exact ⟨Step.refl s O, fun h => Or.inl ⟨hJ h, rfl⟩⟩

theorem act_spec (a : Nat) (k : Stmt) (l c : Bool) (hk : CSpec (compile k) l c) : CSpec (compile (.act a k)) l c := by
  intro O s hl hJ hL
  simp only [compile]
  have h1 := (HeapExt.appendAll O (.act a) O s (fun _ h => h)).step hl.1
  have hA : (s.appendAll O (.act a)).atStart = false := by
    cases hst : s.atStart with
    | true =>
      have := hJ hst; subst this
      exact atStart_false_of_items (appendAll_items_ne _ 0 [0] s (by simp))
    | false => exact h1.atStart_false hl.2 hst
  obtain ⟨h2, _⟩ := hk O (s.appendAll O (.act a)) (h1.hlt hl) (fun h => by rw [hA] at h; cases h) (fun _ => hA)
  exact ⟨h1.trans hl.1 h2, JPost.of_false (h2.atStart_false (h1.hlt hl).2 hA)⟩

theorem brk_spec (c : Bool) : CSpec (compile .brk) true c := by
  intro O s _ _ hL
  simp only [compile]
  exact ⟨Step.toLists s _ O ⟨rfl, rfl, rfl, rfl⟩ (Or.inr rfl) (Or.inl rfl) (Or.inl rfl), JPost.of_false (hL rfl)⟩

theorem cont_spec (c : Bool) : CSpec (compile .cont) true c := by
  intro O s _ _ hL
  simp only [compile]
  exact ⟨Step.toLists s _ O ⟨rfl, rfl, rfl, rfl⟩ (Or.inl rfl) (Or.inr rfl) (Or.inl rfl), JPost.of_false (hL rfl)⟩

theorem ret_spec (l : Bool) : CSpec (compile .ret) l true := by
  intro O s _ hJ _
  simp only [compile]
  refine ⟨Step.toLists s _ O ⟨rfl, rfl, rfl, rfl⟩ (Or.inl rfl) (Or.inl rfl) (Or.inr rfl), ?_⟩
  intro h
  have : s.atStart = true := h
  exact Or.inr (Or.inl ⟨rfl, rfl, by simp [hJ this]⟩)

theorem awaitF_spec (l : Bool) : CSpec (compile .awaitF) l false := by
  intro O s hl hJ _
  simp only [compile]
  split
  · rename_i hO
    exact ⟨(Step.refl s O).weaken (fun _ h => h) (by simp), JPost.of_false (atStart_nil_false hJ hO)⟩
  · have h1 := enterState_step O s hl (fun h => by simp [hJ h])
    exact ⟨h1.weaken (fun _ h => h) (by simp), fun _ => Or.inr (Or.inr ⟨rfl, rfl⟩)⟩


theorem compile_await_none (k : Stmt) (O : List Nat) (s : CSt) :
    compile (.await none k) O s =
      if O.isEmpty then compile k [] s else compile k [(enterState O s).2.1] (enterState O s).2.2 := rfl

theorem compile_await_some (c' : Nat) (k : Stmt) (O : List Nat) (s : CSt) :
    compile (.await (some c') k) O s =
      if O.isEmpty then compile k [] s
      else compile k [(enterState O s).2.2.next] (itePre c' (enterState O s).2.1 (enterState O s).2.2) := rfl

theorem await_spec (cc : Option Nat) (k : Stmt) (l c : Bool) (hk : CSpec (compile k) l c) :
    CSpec (compile (.await cc k)) l c := by
  intro O s hl hJ hL
  by_cases hO : O.isEmpty = true
  · have hA := atStart_nil_false hJ hO
    have hO' : O = [] := by simpa using hO
    have e : compile (.await cc k) O s = compile k [] s := by
      cases cc <;> simp [compile_await_none, compile_await_some, hO]
    rw [e]; subst hO'
    exact hk [] s hl (fun h => by rw [hA] at h; cases h) hL
  · have T0 := enterState_step O s hl (fun h => by simp [hJ h])
    have hl0 := T0.hlt hl
    have hr := (enterState_lists O s).1
    have hnb : (enterState O s).2.1 < (enterState O s).2.2.next := hl0.1 _ (by simp)
    -- J for the state after enterState with the single open block nb
    have hJ0 : (enterState O s).2.2.atStart = true → [(enterState O s).2.1] = [0] := by
      intro h
      cases hst : s.atStart with
      | true => rw [enterState_start O s hst]
      | false => rw [T0.atStart_false hl.2 hst] at h; cases h
    have hL0 : l = true → (enterState O s).2.2.atStart = false := fun h => T0.atStart_false hl.2 (hL h)
    cases cc with
    | none =>
      rw [compile_await_none]; simp only [hO]
      obtain ⟨h2, hj⟩ := hk [(enterState O s).2.1] (enterState O s).2.2
        ⟨fun o ho => hl0.1 o (by simp at ho; simp [ho]), hl0.2⟩ hJ0 hL0
      refine ⟨T0.trans hl.1 (h2.weaken (by simp) (fun o ho => InR.weakenO (by simp) (h2.open_r o ho))), ?_⟩
      intro h; have := hj h; rw [hr] at this; exact this
    | some c' =>
      rw [compile_await_some]; simp only [hO]
      have T1 := itePre_step c' (enterState O s).2.1 (enterState O s).2.2 hnb
      have hA1 := itePre_atStart c' (enterState O s).2.1 (enterState O s).2.2 hnb hl0.2
        (fun h => by have := hJ0 h; simpa using this)
      have hlb : ∀ o ∈ [(enterState O s).2.1], o < (enterState O s).2.2.next := by simpa using hnb
      have hl1 := T1.hlt ⟨hlb, hl0.2⟩
      obtain ⟨h2, _⟩ := hk [(enterState O s).2.2.next] (itePre c' (enterState O s).2.1 (enterState O s).2.2)
        ⟨fun o ho => hl1.1 o (by simp at ho; simp [ho]), hl1.2⟩ (fun h => by rw [hA1] at h; cases h) (fun _ => hA1)
      have T12 := T1.trans hlb (h2.weaken (by simp) (fun o ho => InR.weakenO (by simp) (h2.open_r o ho)))
      refine ⟨T0.trans hl.1 (T12.weaken (by simp) (fun o ho => InR.weakenO (by simp) (T12.open_r o ho))), ?_⟩
      exact JPost.of_false (h2.atStart_false hl1.2 hA1)


theorem compile_ite (cc : Nat) (t e k : Stmt) (O : List Nat) (s : CSt) :
    compile (.ite cc t e k) O s =
      if retAlways t && retAlways e then iteLoop cc (compile t) (compile e) O s []
      else compile k (iteLoop cc (compile t) (compile e) O s []).1 (iteLoop cc (compile t) (compile e) O s []).2 := by
  simp only [compile]

theorem ite_spec (cc : Nat) (t e k : Stmt) (l c : Bool) (ht : CSpec (compile t) l c) (he : CSpec (compile e) l c)
    (hk : CSpec (compile k) l c) : CSpec (compile (.ite cc t e k)) l c := by
  intro O s hl hJ hL
  obtain ⟨T, hmem, hA⟩ := iteLoop_step cc (compile t) (compile e) ht.br he.br O s [] hl hJ
  have hA' : (iteLoop cc (compile t) (compile e) O s []).2.atStart = false := by
    by_cases hO : O = []
    · subst hO
      simp only [iteLoop]
      exact atStart_nil_false hJ rfl
    · exact hA hO
  have TW : Step s O (iteLoop cc (compile t) (compile e) O s []).2 (iteLoop cc (compile t) (compile e) O s []).1 :=
    T.weaken (fun _ h => h) (fun o ho => (hmem o ho).resolve_left (by simp))
  rw [compile_ite]
  split
  · exact ⟨TW, JPost.of_false hA'⟩
  · obtain ⟨h2, _⟩ := hk _ _ (TW.hlt hl) (fun h => by rw [hA'] at h; cases h) (fun _ => hA')
    exact ⟨TW.trans hl.1 h2, JPost.of_false (h2.atStart_false (TW.hlt hl).2 hA')⟩

theorem compile_call (b k : Stmt) (O : List Nat) (s : CSt) :
    compile (.call b k) O s =
      if O.isEmpty then compile k [] s
      else compile k ((compile b O { s with ret := [] }).1 ++ (compile b O { s with ret := [] }).2.ret)
        { (compile b O { s with ret := [] }).2 with ret := s.ret } := rfl

theorem call_spec (b k : Stmt) (l c : Bool) (hb : CSpec (compile b) false true) (hk : CSpec (compile k) l c) :
    CSpec (compile (.call b k)) l c := by
  intro O s hl hJ hL
  rw [compile_call]
  by_cases hO : O.isEmpty = true
  · have hA := atStart_nil_false hJ hO
    have hO' : O = [] := by simpa using hO
    simp only [hO, if_true]; subst hO'
    exact hk [] s hl (fun h => by rw [hA] at h; cases h) hL
  · simp only [hO]
    obtain ⟨B, hj⟩ := hb O { s with ret := [] } hl hJ (fun h => by cases h)
    simp only [JPost] at hj
    generalize hs2 : (compile b O { s with ret := [] }).2 = s2 at B hj ⊢
    generalize hob : (compile b O { s with ret := [] }).1 = ob at B hj ⊢
    obtain ⟨dR, eR, rR⟩ := B.ret_r
    simp only [List.nil_append] at eR
    have B' : Step s O { s2 with ret := s.ret } ob :=
      Step.relist (a := { s with ret := [] }) (b := s2) ⟨rfl, rfl, rfl, rfl⟩ ⟨rfl, rfl, rfl, rfl⟩ B
        B.brk_r B.cont_r ⟨[], by simp, by simp⟩
    have BW : Step s O { s2 with ret := s.ret } (ob ++ s2.ret) := by
      refine B'.weaken (fun _ h => h) ?_
      intro o ho
      rcases List.mem_append.mp ho with h | h
      · exact B'.open_r o h
      · exact InR.same (a := { s with ret := [] }) (b := s2) ⟨rfl, rfl, rfl, rfl⟩ ⟨rfl, rfl, rfl, rfl⟩ (rR o (eR ▸ h))
    have hJ2 : ({ s2 with ret := s.ret } : CSt).atStart = true → ob ++ s2.ret = [0] := by
      intro h
      rcases hj h with ⟨h1, h2⟩ | ⟨h1, _, h2⟩ | ⟨_, h2⟩
      · simp [h1, h2]
      · simp [h1, h2]
      · cases h2
    have hL2 : l = true → ({ s2 with ret := s.ret } : CSt).atStart = false :=
      fun h => BW.atStart_false hl.2 (hL h)
    obtain ⟨K, hjk⟩ := hk (ob ++ s2.ret) { s2 with ret := s.ret } (BW.hlt hl) hJ2 hL2
    exact ⟨BW.trans hl.1 K, hjk⟩

end CohdlVerif.C01
