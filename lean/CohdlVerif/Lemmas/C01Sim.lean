import CohdlVerif.Lemmas.C01Heap
import CohdlVerif.Lemmas.C01Run
import CohdlVerif.Lemmas.C01Struct4

/-!
  C01 - simulation between the reference semantics (`run` / `refStep`) and the final block heap of the compiler
  mirror: definitions (step-indexed simulation `SimN`, simulation of a code tail `SimPt` / `TailSim`, the relation
  `Fut` between an intermediate compiler state and the final heap) and their basic properties.
-/
namespace CohdlVerif.C01

section
variable {σ : Type} (act : Nat → σ → σ) (cond : Nat → σ → Bool)
variable (prog : Stmt) (Hf : Nat → Blk) (E : Nat → σ → σ × Option Nat) (Rf : Nat → Nat) (Sf : List Nat)

/-- one clock of the final machine on the block heap: state `i` runs the root block `Sf[i]` -/
def mStep (i : Nat) (s : σ) : Nat × σ :=
  match Sf[i]? with
  | some r => ((E r s).2.getD i, (E r s).1)
  | none => (i, s)

/-- step-indexed simulation: suspension `r` of the reference and state `i` of the machine agree for `m` clocks -/
def SimN : Nat → Susp → Nat → Prop
  | 0, _, _ => True
  | m+1, r, i => ∀ s : σ, ∃ f r', refStep act cond f prog r s = some (r', (mStep E Sf i s).2) ∧
      SimN m r' (mStep E Sf i s).1

/-- from data state `s`, running statement `q` (stack `st`, freshness `fr`) to its next suspension agrees with the
    result `res` (data, pending transition) of a piece of code executed in state `i` -/
def SimPt (m i : Nat) (res : σ × Option Nat) (q : Stmt) (st : List Frame) (fr : Bool) (s : σ) : Prop :=
  m = 0 ∨ ∃ f r, run act cond f q st fr s = some (r, res.1) ∧ SimN act cond prog E Sf (m-1) r (res.2.getD i)

/-- state index in which block `x` is executed -/
def cur (x : Nat) : Nat := Sf.idxOf (Rf x)

/-- result of the tail `suf` of block `x` (its items after the current ones) including the front transition -/
def tailF (x : Nat) (suf : List Item) (s : σ) : σ × Option Nat :=
  ((execI act cond E suf s).1, por (execI act cond E suf s).2 (lastT (Hf x).front))

/-- whatever is appended to block `x` after its current items `pre` simulates `q` -/
def TailSim (m x : Nat) (pre : List Item) (q : Stmt) (st : List Frame) (fr : Bool) : Prop :=
  ∀ suf, (Hf x).items = pre ++ suf → ∀ s : σ,
    SimPt act cond prog E Sf m (cur Rf Sf x) (tailF act cond Hf E x suf s) q st fr s

theorem SimN_mono : ∀ (m : Nat) (r : Susp) (i : Nat),
    SimN act cond prog E Sf (m+1) r i → SimN act cond prog E Sf m r i := by
  intro m
  induction m with
  | zero => intro r i _; trivial
  | succ m ih =>
    intro r i h s
    obtain ⟨f, r', h1, h2⟩ := h s
    exact ⟨f, r', h1, ih _ _ h2⟩

theorem SimN_mono_le (m m' : Nat) (hle : m ≤ m') (r : Susp) (i : Nat)
    (h : SimN act cond prog E Sf m' r i) : SimN act cond prog E Sf m r i := by
  induction hle with
  | refl => exact h
  | step _ ih => exact ih (SimN_mono act cond prog E Sf _ _ _ h)

theorem SimPt_mono_le (m m' i : Nat) (hle : m ≤ m') (res : σ × Option Nat) (q : Stmt) (st : List Frame) (fr : Bool)
    (s : σ) (h : SimPt act cond prog E Sf m' i res q st fr s) : SimPt act cond prog E Sf m i res q st fr s := by
  rcases h with h | ⟨f, r, h1, h2⟩
  · left; omega
  · by_cases hm : m = 0
    · exact Or.inl hm
    · exact Or.inr ⟨f, r, h1, SimN_mono_le act cond prog E Sf _ _ (by omega) _ _ h2⟩

/-- the reference reaches from `(q, st, fr, s)` whatever it reaches from `(q', st', fr', s')` -/
def RunTo (q : Stmt) (st : List Frame) (fr : Bool) (s : σ) (q' : Stmt) (st' : List Frame) (fr' : Bool) (s' : σ) : Prop :=
  ∀ f y, run act cond f q' st' fr' s' = some y → ∃ f', run act cond f' q st fr s = some y

theorem SimPt_pull {m i : Nat} {res : σ × Option Nat} {q q' : Stmt} {st st' : List Frame} {fr fr' : Bool} {s s' : σ}
    (hr : RunTo act cond q st fr s q' st' fr' s')
    (h : SimPt act cond prog E Sf m i res q' st' fr' s') : SimPt act cond prog E Sf m i res q st fr s := by
  rcases h with h | ⟨f, r, h1, h2⟩
  · exact Or.inl h
  · obtain ⟨f', hf'⟩ := hr f _ h1
    exact Or.inr ⟨f', r, hf', h2⟩

theorem TailSim_mono_le (m m' x : Nat) (hle : m ≤ m') (pre : List Item) (q : Stmt) (st : List Frame) (fr : Bool)
    (h : TailSim act cond prog Hf E Rf Sf m' x pre q st fr) : TailSim act cond prog Hf E Rf Sf m x pre q st fr :=
  fun suf hs s => SimPt_mono_le act cond prog E Sf m m' _ hle _ _ _ _ _ (h suf hs s)


theorem RunTo.refl (q : Stmt) (st : List Frame) (fr : Bool) (s : σ) : RunTo act cond q st fr s q st fr s :=
  fun f y h => ⟨f, h⟩

theorem RunTo.trans {q q1 q2 : Stmt} {st st1 st2 : List Frame} {fr fr1 fr2 : Bool} {s s1 s2 : σ}
    (h1 : RunTo act cond q st fr s q1 st1 fr1 s1) (h2 : RunTo act cond q1 st1 fr1 s1 q2 st2 fr2 s2) :
    RunTo act cond q st fr s q2 st2 fr2 s2 :=
  fun f y h => by obtain ⟨f1, hf1⟩ := h2 f y h; exact h1 f1 y hf1

theorem RunTo.act_ (a : Nat) (k : Stmt) (st : List Frame) (fr : Bool) (s : σ) :
    RunTo act cond (.act a k) st fr s k st false (act a s) :=
  fun f y h => ⟨f+1, by simpa [run] using h⟩

theorem RunTo.skip_seq (k : Stmt) (st : List Frame) (fr : Bool) (s : σ) :
    RunTo act cond .skip (.seq k :: st) fr s k st fr s :=
  fun f y h => ⟨f+1, by simpa [run] using h⟩

theorem RunTo.ite_true (c : Nat) (t e k : Stmt) (st : List Frame) (fr : Bool) (s : σ) (hc : cond c s = true) :
    RunTo act cond (.ite c t e k) st fr s t (.seq k :: st) false s :=
  fun f y h => ⟨f+1, by simpa [run, hc] using h⟩

theorem RunTo.ite_false (c : Nat) (t e k : Stmt) (st : List Frame) (fr : Bool) (s : σ) (hc : cond c s = false) :
    RunTo act cond (.ite c t e k) st fr s e (.seq k :: st) false s :=
  fun f y h => ⟨f+1, by simpa [run, hc] using h⟩

theorem RunTo.await_fresh_none (k : Stmt) (st : List Frame) (s : σ) :
    RunTo act cond (.await none k) st true s k st true s :=
  fun f y h => ⟨f+1, by simpa [run, evalC] using h⟩

theorem RunTo.await_fresh_some (c : Nat) (k : Stmt) (st : List Frame) (s : σ) (hc : cond c s = true) :
    RunTo act cond (.await (some c) k) st true s k st false s :=
  fun f y h => ⟨f+1, by simpa [run, evalC, hc] using h⟩

end

/-- the final heap `Hf` (roots `Rf`, states `Sf`) is a possible future of the compiler state `s` in which only the
    blocks in `P` are still pending -/
structure Fut (Hf : Nat → Blk) (Rf : Nat → Nat) (Sf : List Nat) (s : CSt) (P : Nat → Prop) : Prop where
  items : ∀ x, x < s.next → (s.heap x).items <+: (Hf x).items
  closed : ∀ x, x < s.next → ¬ P x → Hf x = s.heap x
  root : ∀ x, x < s.next → Rf x = s.root x
  states : s.states <+: Sf

theorem Fut.back {Hf : Nat → Blk} {Rf : Nat → Nat} {Sf : List Nat} {s s' : CSt} {O O' : List Nat} {P P' : Nat → Prop}
    (h : Step s O s' O') (hO : ∀ o ∈ O, P o) (hP' : ∀ x, P' x → P x ∨ s.next ≤ x) (F : Fut Hf Rf Sf s' P') :
    Fut Hf Rf Sf s P where
  items := fun x hx => (h.items_mono x hx).trans (F.items x (by have := h.next_le; omega))
  closed := by
    intro x hx hP
    have hxO : x ∉ O := fun hm => hP (hO x hm)
    have hnP' : ¬ P' x := fun hp => by rcases hP' x hp with h1 | h1; exact hP h1; omega
    rw [F.closed x (by have := h.next_le; omega) hnP', h.frame x hx hxO]
  root := fun x hx => by rw [F.root x (by have := h.next_le; omega), h.root_stable x hx]
  states := h.states_mono.trans F.states

theorem Fut.weaken {Hf : Nat → Blk} {Rf : Nat → Nat} {Sf : List Nat} {s : CSt} {P P' : Nat → Prop}
    (hP : ∀ x, P x → P' x) (F : Fut Hf Rf Sf s P) : Fut Hf Rf Sf s P' :=
  ⟨F.items, fun x hx h => F.closed x hx (fun hp => h (hP x hp)), F.root, F.states⟩

end CohdlVerif.C01
