import CohdlVerif.Lemmas.C01Struct

/-! C01 - structural facts (`Step`) for the loops of the mirror and for `compile` itself -/
namespace CohdlVerif.C01

/-- the five-way merge of the `If` branch -/
def mergeAcc (acc : List Nat) (b tb eb : Nat) (ot oe : List Nat) : List Nat :=
  if !anyTrans tb ot && !anyTrans eb oe then insId acc b
  else if allTrans tb ot && allTrans eb oe then insIds acc (ot ++ oe)
  else if !anyTrans tb ot then insIds (insId acc tb) oe
  else if !anyTrans eb oe then insIds (insId acc eb) ot
  else insIds acc (ot ++ oe)

/-- state after creating the two branch blocks of an `If` in block `b` and appending the `If` -/
def itePre (c : Nat) (b : Nat) (s : CSt) : CSt :=
  ((s.newBlock (some b)).2.newBlock (some b)).2.append b (.ite c s.next (s.next + 1))

theorem iteLoop_cons (c : Nat) (ft fe : List Nat → CSt → List Nat × CSt) (b : Nat) (bs : List Nat) (s : CSt)
    (acc : List Nat) :
    iteLoop c ft fe (b :: bs) s acc =
      iteLoop c ft fe bs (fe [s.next + 1] (ft [s.next] (itePre c b s)).2).2
        (mergeAcc acc b s.next (s.next + 1) (ft [s.next] (itePre c b s)).1
          (fe [s.next + 1] (ft [s.next] (itePre c b s)).2).1) := rfl

theorem mem_mergeAcc {acc : List Nat} {b tb eb : Nat} {ot oe : List Nat} {o : Nat}
    (h : o ∈ mergeAcc acc b tb eb ot oe) : o ∈ acc ∨ o = b ∨ o = tb ∨ o = eb ∨ o ∈ ot ∨ o ∈ oe := by
  unfold mergeAcc at h
  split at h
  · rcases (mem_insId _ _ _).mp h with h | h <;> simp [h]
  · split at h
    · rcases (mem_insIds _ _ _).mp h with h | h
      · simp [h]
      · rcases List.mem_append.mp h with h | h <;> simp [h]
    · split at h
      · rcases (mem_insIds _ _ _).mp h with h | h
        · rcases (mem_insId _ _ _).mp h with h | h <;> simp [h]
        · simp [h]
      · split at h
        · rcases (mem_insIds _ _ _).mp h with h | h
          · rcases (mem_insId _ _ _).mp h with h | h <;> simp [h]
          · simp [h]
        · rcases (mem_insIds _ _ _).mp h with h | h
          · simp [h]
          · rcases List.mem_append.mp h with h | h <;> simp [h]

/-- an open block that is not touched stays in range -/
theorem InR.ofMem {s s' : CSt} {O1 O1' O : List Nat} (h : Step s O1 s' O1') (hlt : ∀ o ∈ O, o < s.next) {o : Nat}
    (ho : o ∈ O) : InR s O s' o :=
  ⟨Or.inl ho, Or.inl (by rw [h.root_stable o (hlt o ho)]; exact List.mem_map_of_mem ho)⟩


theorem itePre_step (c b : Nat) (s : CSt) (hb : b < s.next) :
    Step s [b] (itePre c b s) [s.next + 1, s.next, b] := by
  have h1 : Step s [b] (s.newBlock (some b)).2 [s.next, b] :=
    Step.newBlock s [b] (by simpa using hb) (some b) (by simp)
  have hl1 : ∀ o ∈ [s.next, b], o < (s.newBlock (some b)).2.next := by
    intro o ho; simp only [List.mem_cons, List.not_mem_nil, or_false] at ho
    rcases ho with h | h <;> simp [CSt.newBlock, h] <;> omega
  have h2 : Step (s.newBlock (some b)).2 [s.next, b] ((s.newBlock (some b)).2.newBlock (some b)).2 [s.next + 1, s.next, b] :=
    Step.newBlock _ _ hl1 (some b) (by simp)
  have hl2 : ∀ o ∈ [s.next + 1, s.next, b], o < ((s.newBlock (some b)).2.newBlock (some b)).2.next := by
    intro o ho; simp only [List.mem_cons, List.not_mem_nil, or_false] at ho
    rcases ho with h | h | h <;> simp [CSt.newBlock, h] <;> omega
  have h3 := (HeapExt.append ((s.newBlock (some b)).2.newBlock (some b)).2 [s.next + 1, s.next, b] b (by simp)
    (.ite c s.next (s.next + 1))).step hl2
  exact (h1.trans (by simpa using hb) h2).trans (by simpa using hb) h3

theorem itePre_items (c b : Nat) (s : CSt) (hb : b < s.next) :
    ((itePre c b s).heap b).items = (s.heap b).items ++ [.ite c s.next (s.next + 1)] := by
  have h1 : b ≠ s.next := by omega
  have h2 : b ≠ s.next + 1 := by omega
  simp [itePre, CSt.append, CSt.newBlock, h1, h2]

theorem itePre_atStart (c b : Nat) (s : CSt) (hb : b < s.next) (h0 : 0 < s.next) (hs : s.atStart = true → b = 0) :
    (itePre c b s).atStart = false := by
  cases hst : s.atStart with
  | true =>
    have := hs hst; subst this
    apply atStart_false_of_items
    rw [itePre_items c 0 s hb]; simp
  | false => exact (itePre_step c b s hb).atStart_false h0 hst


/-- what the loops need to know about the translation of a branch / body -/
def BrSpec (f : List Nat → CSt → List Nat × CSt) : Prop :=
  ∀ O s, Hlt s O → s.atStart = false → Step s O (f O s).2 (f O s).1

/-- one iteration of the `If` loop -/
theorem iteIter_step (c : Nat) (ft fe : List Nat → CSt → List Nat × CSt) (hft : BrSpec ft) (hfe : BrSpec fe)
    (b : Nat) (s : CSt) (hb : b < s.next) (h0 : 0 < s.next) (hs : s.atStart = true → b = 0) :
    Step s [b] (fe [s.next + 1] (ft [s.next] (itePre c b s)).2).2
      (s.next :: (s.next + 1) :: b :: ((ft [s.next] (itePre c b s)).1 ++ (fe [s.next + 1] (ft [s.next] (itePre c b s)).2).1))
    ∧ (fe [s.next + 1] (ft [s.next] (itePre c b s)).2).2.atStart = false := by
  have hlb : ∀ o ∈ [b], o < s.next := by simpa using hb
  have T1 := itePre_step c b s hb
  have hA1 := itePre_atStart c b s hb h0 hs
  have hl3 : Hlt (itePre c b s) [s.next + 1, s.next, b] := T1.hlt ⟨hlb, h0⟩
  have F := hft [s.next] (itePre c b s) ⟨fun o ho => hl3.1 o (by simp at ho; simp [ho]), hl3.2⟩ hA1
  have hA2 := F.atStart_false hl3.2 hA1
  have T2 : Step (itePre c b s) [s.next + 1, s.next, b] (ft [s.next] (itePre c b s)).2
      (s.next :: (s.next + 1) :: b :: (ft [s.next] (itePre c b s)).1) := by
    refine F.weaken (by simp) ?_
    intro o ho
    simp only [List.mem_cons] at ho
    rcases ho with h | h | h | h
    · exact InR.ofMem F hl3.1 (by simp [h])
    · exact InR.ofMem F hl3.1 (by simp [h])
    · exact InR.ofMem F hl3.1 (by simp [h])
    · exact InR.weakenO (by simp) (F.open_r o h)
  have T12 := T1.trans hlb T2
  have hl4 := T12.hlt ⟨hlb, h0⟩
  have G := hfe [s.next + 1] (ft [s.next] (itePre c b s)).2 ⟨fun o ho => hl4.1 o (by simp at ho; simp [ho]), hl4.2⟩ hA2
  have T3 : Step (ft [s.next] (itePre c b s)).2 (s.next :: (s.next + 1) :: b :: (ft [s.next] (itePre c b s)).1)
      (fe [s.next + 1] (ft [s.next] (itePre c b s)).2).2
      (s.next :: (s.next + 1) :: b :: ((ft [s.next] (itePre c b s)).1 ++ (fe [s.next + 1] (ft [s.next] (itePre c b s)).2).1)) := by
    refine G.weaken (by simp) ?_
    intro o ho
    simp only [List.mem_cons, List.mem_append] at ho
    rcases ho with h | h | h | h | h
    · exact InR.ofMem G hl4.1 (by simp [h])
    · exact InR.ofMem G hl4.1 (by simp [h])
    · exact InR.ofMem G hl4.1 (by simp [h])
    · exact InR.ofMem G hl4.1 (by simp [h])
    · exact InR.weakenO (by simp) (G.open_r o h)
  exact ⟨T12.trans hlb T3, G.atStart_false hl4.2 hA2⟩


theorem iteLoop_step (c : Nat) (ft fe : List Nat → CSt → List Nat × CSt) (hft : BrSpec ft) (hfe : BrSpec fe) :
    ∀ (bs : List Nat) (s : CSt) (acc : List Nat), Hlt s bs → (s.atStart = true → bs = [0]) →
      Step s bs (iteLoop c ft fe bs s acc).2 [] ∧
      (∀ o ∈ (iteLoop c ft fe bs s acc).1, o ∈ acc ∨ InR s bs (iteLoop c ft fe bs s acc).2 o) ∧
      (bs ≠ [] → (iteLoop c ft fe bs s acc).2.atStart = false) := by
  intro bs
  induction bs with
  | nil =>
    intro s acc _ _
    exact ⟨(Step.refl s []).weaken (by simp) (by simp), fun o ho => Or.inl ho, fun h => absurd rfl h⟩
  | cons b bs ih =>
    intro s acc hl hs
    rw [iteLoop_cons]
    have hb : b < s.next := hl.1 b (by simp)
    have hsb : s.atStart = true → b = 0 := fun h => by have := hs h; simp at this; exact this.1
    obtain ⟨T, hA⟩ := iteIter_step c ft fe hft hfe b s hb hl.2 hsb
    generalize hs5 : (fe [s.next + 1] (ft [s.next] (itePre c b s)).2).2 = s5 at T hA ⊢
    generalize hacc1 : mergeAcc acc b s.next (s.next + 1) (ft [s.next] (itePre c b s)).1
      (fe [s.next + 1] (ft [s.next] (itePre c b s)).2).1 = acc1
    generalize hL : (s.next :: (s.next + 1) :: b :: ((ft [s.next] (itePre c b s)).1 ++
      (fe [s.next + 1] (ft [s.next] (itePre c b s)).2).1)) = L at T
    -- widen the iteration to the whole list
    have TW : Step s (b :: bs) s5 (b :: bs) :=
      T.weaken (by simp) (fun o ho => InR.ofMem T hl.1 ho)
    have hl5 : Hlt s5 bs := ⟨fun o ho => (TW.hlt hl).1 o (by simp [ho]), (TW.hlt hl).2⟩
    obtain ⟨R, hmem, _⟩ := ih s5 acc1 hl5 (fun h => by rw [hA] at h; cases h)
    have RW : Step s5 (b :: bs) (iteLoop c ft fe bs s5 acc1).2 [] := R.weaken (fun x hx => by simp [hx]) (by simp)
    refine ⟨TW.trans hl.1 RW, ?_, fun _ => R.atStart_false hl5.2 hA⟩
    intro o ho
    rcases hmem o ho with h | h
    · have hm : o ∈ acc ∨ o ∈ L := by
        rw [← hacc1] at h
        rcases mem_mergeAcc h with h | h | h | h | h | h
        · exact Or.inl h
        all_goals (right; rw [← hL]; simp [h])
      rcases hm with h | h
      · exact Or.inl h
      · right
        have h1 : InR s (b :: bs) s5 o := InR.weakenO (by simp) (T.open_r o h)
        exact InR.mono R.next_le R.root_stable hl.1 TW.next_le h1
    · right
      exact InR.trans TW R.next_le (InR.weakenO (fun x hx => by simp [hx]) h)


theorem Step.setBad (s : CSt) (O : List Nat) : Step s O { s with bad := true } O :=
  Step.relist (a := s) (b := s) ⟨rfl, rfl, rfl, rfl⟩ ⟨rfl, rfl, rfl, rfl⟩ (Step.refl s O)
    ⟨[], by simp, by simp⟩ ⟨[], by simp, by simp⟩ ⟨[], by simp, by simp⟩

theorem contLoop_step (c : Option Nat) (body : Nat) :
    ∀ (cbs : List Nat) (s : CSt) (acc : List Nat), Hlt s cbs →
      Step s cbs (contLoop c body cbs s acc).2 [] ∧
      (∀ o ∈ (contLoop c body cbs s acc).1, o ∈ acc ∨ InR s cbs (contLoop c body cbs s acc).2 o) := by
  intro cbs
  induction cbs with
  | nil =>
    intro s acc _
    exact ⟨(Step.refl s []).weaken (by simp) (by simp), fun o ho => Or.inl ho⟩
  | cons cb cbs ih =>
    intro s acc hl
    have hcb : cb < s.next := hl.1 cb (by simp)
    -- generic continuation: one step `T` on `[cb]` producing `s1`, new accumulator elements in range
    have key : ∀ (s1 : CSt) (acc1 L : List Nat), Step s [cb] s1 L → (∀ o ∈ acc1, o ∈ acc ∨ o ∈ L) →
        Step s (cb :: cbs) (contLoop c body cbs s1 acc1).2 [] ∧
        (∀ o ∈ (contLoop c body cbs s1 acc1).1, o ∈ acc ∨ InR s (cb :: cbs) (contLoop c body cbs s1 acc1).2 o) := by
      intro s1 acc1 L T hacc
      have TW : Step s (cb :: cbs) s1 (cb :: cbs) := T.weaken (by simp) (fun o ho => InR.ofMem T hl.1 ho)
      have hl1 : Hlt s1 cbs := ⟨fun o ho => (TW.hlt hl).1 o (by simp [ho]), (TW.hlt hl).2⟩
      obtain ⟨R, hmem⟩ := ih s1 acc1 hl1
      have RW : Step s1 (cb :: cbs) (contLoop c body cbs s1 acc1).2 [] :=
        R.weaken (fun x hx => by simp [hx]) (by simp)
      refine ⟨TW.trans hl.1 RW, ?_⟩
      intro o ho
      rcases hmem o ho with h | h
      · rcases hacc o h with h | h
        · exact Or.inl h
        · right
          have h1 : InR s (cb :: cbs) s1 o := InR.weakenO (by simp) (T.open_r o h)
          exact InR.mono R.next_le R.root_stable hl.1 TW.next_le h1
      · right
        exact InR.trans TW R.next_le (InR.weakenO (fun x hx => by simp [hx]) h)
    simp only [contLoop]
    split
    · exact key _ acc [cb] (Step.setBad s [cb]) (fun o ho => Or.inl ho)
    · cases c with
      | none =>
        exact key _ acc [cb] ((HeapExt.append s [cb] cb (by simp) (.sub body)).step (by simpa using hcb))
          (fun o ho => Or.inl ho)
      | some c' =>
        have h1 : Step s [cb] (s.newBlock (some cb)).2 [s.next, cb] :=
          Step.newBlock s [cb] (by simpa using hcb) (some cb) (by simp)
        have hl1 : ∀ o ∈ [s.next, cb], o < (s.newBlock (some cb)).2.next := by
          intro o ho; simp only [List.mem_cons, List.not_mem_nil, or_false] at ho
          rcases ho with h | h <;> simp [CSt.newBlock, h] <;> omega
        have h2 := (HeapExt.append (s.newBlock (some cb)).2 [s.next, cb] cb (by simp) (.ite c' body s.next)).step hl1
        refine key _ (acc ++ [s.next]) [s.next, cb] (h1.trans (by simpa using hcb) h2) ?_
        intro o ho
        rcases List.mem_append.mp ho with h | h
        · exact Or.inl h
        · right; simp at h; simp [h]


theorem CSt.addfrontAll_states (t : Nat) : ∀ (bs : List Nat) (s : CSt), (s.addfrontAll bs t).states = s.states := by
  intro bs
  induction bs with
  | nil => intro s; rfl
  | cons b bs ih => intro s; simp only [CSt.addfrontAll, List.foldl_cons] at ih ⊢; rw [ih]; rfl

theorem enterState_start (O : List Nat) (s : CSt) (h : s.atStart = true) : enterState O s = (0, 0, s) := by
  simp [enterState, h]

theorem enterState_nostart (O : List Nat) (s : CSt) (h : s.atStart = false) :
    enterState O s = (s.states.length, s.next,
      CSt.addfrontAll { (s.newBlock none).2 with states := s.states ++ [s.next] } O s.states.length) := by
  simp [enterState, h, CSt.newBlock]

theorem enterState_step (O : List Nat) (s : CSt) (hl : Hlt s O) (hs : s.atStart = true → 0 ∈ O) :
    Step s O (enterState O s).2.2 ((enterState O s).2.1 :: O) := by
  cases hst : s.atStart with
  | true =>
    rw [enterState_start O s hst]
    exact (Step.refl s O).weaken (fun _ h => h) (fun o ho => InR.ofMem (Step.refl s O) hl.1
      (by rcases List.mem_cons.mp ho with h | h; exact h ▸ hs hst; exact h))
  | false =>
    rw [enterState_nostart O s hst]
    have h1 := Step.newBlock s O hl.1 none (by simp)
    have hl1 := h1.hlt hl
    have h2 := Step.addState (s.newBlock none).2 (s.next :: O) s.next (by simp [CSt.newBlock])
    have h3 := (HeapExt.addfrontAll (s.next :: O) s.states.length O
      { (s.newBlock none).2 with states := (s.newBlock none).2.states ++ [s.next] } (fun b hb => by simp [hb])
      (fun _ => by simp [CSt.newBlock])).step
      (by simpa using hl1.1)
    exact (h1.trans hl.1 h2).trans hl.1 h3


/-- at the start exactly block 0 is open; afterwards: still open, or returned, or the coroutine stopped -/
def JPost (s : CSt) (c : Bool) (r : List Nat × CSt) : Prop :=
  r.2.atStart = true →
    (r.1 = [0] ∧ r.2.ret = s.ret) ∨ (r.1 = [] ∧ c = true ∧ r.2.ret = s.ret ++ [0]) ∨ (r.1 = [] ∧ c = false)

def CSpec (f : List Nat → CSt → List Nat × CSt) (l c : Bool) : Prop :=
  ∀ O s, Hlt s O → (s.atStart = true → O = [0]) → (l = true → s.atStart = false) →
    Step s O (f O s).2 (f O s).1 ∧ JPost s c (f O s)

theorem CSpec.br {f : List Nat → CSt → List Nat × CSt} {l c : Bool} (h : CSpec f l c) : BrSpec f :=
  fun O s hl hs => (h O s hl (fun h' => by rw [hs] at h'; cases h') (fun _ => hs)).1

theorem JPost.of_false {s : CSt} {c : Bool} {r : List Nat × CSt} (h : r.2.atStart = false) : JPost s c r :=
  fun h' => by rw [h] at h'; cases h'

theorem appendAll_items_ne (it : Item) (b : Nat) : ∀ (bs : List Nat) (s : CSt), b ∈ bs →
    ((s.appendAll bs it).heap b).items ≠ [] := by
  intro bs
  induction bs with
  | nil => intro s h; simp at h
  | cons x xs ih =>
    intro s h
    simp only [CSt.appendAll, List.foldl_cons]
    have hx := HeapExt.appendAll (x :: xs) it xs (s.append x it) (fun b hb => by simp [hb])
    simp only [CSt.appendAll] at hx
    rcases List.mem_cons.mp h with h | h
    · subst h
      obtain ⟨t, ht⟩ := hx.items_mono b
      intro h'; rw [h'] at ht
      have := (List.append_eq_nil_iff.mp ht).1
      simp [CSt.append] at this
    · exact ih _ h

end CohdlVerif.C01
