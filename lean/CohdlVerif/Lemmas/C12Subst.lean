import CohdlVerif.Lemmas.C12Lemmas

/-!
  C12 - the substitution lemma: elaborating the emitted library by renaming gives, item by item, the design
  with the sub-entities' logic placed inline and the actuals substituted for the formals.
-/
namespace CohdlVerif.C12

/-! ## bindings are used only through `lookup` -/

def BEqv (b1 b2 : Binding) : Prop := ∀ n, b1.lookup n = b2.lookup n

theorem bindRef_ext {b1 b2 : Binding} (h : BEqv b1 b2) (r : Ref) : bindRef b1 r = bindRef b2 r := by
  simp only [bindRef, h r.name]

theorem substExpr_ext {b1 b2 : Binding} (h : BEqv b1 b2) : ∀ e : Expr, substExpr b1 e = substExpr b2 e
  | .ref r => by simp only [substExpr, bindRef_ext h]
  | .const w n => rfl
  | .not w a => by simp only [substExpr, substExpr_ext h a]
  | .bin op w x y => by simp only [substExpr, substExpr_ext h x, substExpr_ext h y]

theorem substLeaf_ext {b1 b2 : Binding} (h : BEqv b1 b2) (l : Leaf) : substLeaf b1 l = substLeaf b2 l := by
  cases l <;> simp only [substLeaf, bindRef_ext h, substExpr_ext h]

theorem BEqv_append {b1 b2 : Binding} (h : BEqv b1 b2) (c : Binding) : BEqv (b1 ++ c) (b2 ++ c) := by
  intro n; simp only [List.lookup_append, h n]

theorem lookup_map_snd {α β : Type} (g : α → β) : ∀ (l : List (String × α)) (n : String),
    (l.map (fun fa => (fa.1, g fa.2))).lookup n = (l.lookup n).map g
  | [], n => rfl
  | (k, v) :: rest, n => by
      simp only [List.map_cons, List.lookup_cons]
      cases h : n == k
      · exact lookup_map_snd g rest n
      · rfl

/-- `EntityInst._port_map` looks the actual of every declared port up by name: the association list it prints
    maps a declared port to exactly the object given for it, and nothing else -/
theorem lookup_pmapOf (ports : List Port) (acts : List (String × Actual)) (n : String) :
    (pmapOf ports acts).lookup n =
      if ports.any (fun p => p.name == n) then (acts.lookup n).map (·.ref) else none := by
  induction ports with
  | nil => simp [pmapOf]
  | cons p ps ih =>
      simp only [pmapOf, List.filterMap_cons, List.any_cons] at ih ⊢
      by_cases hp : p.name = n
      · subst hp
        cases ha : acts.lookup p.name with
        | none =>
            simp only [Option.map_none, beq_self_eq_true, Bool.true_or, if_true]
            rw [ih]; simp [ha]
        | some a => simp
      · have hp' : (p.name == n) = false := by simpa using hp
        have hn' : (n == p.name) = false := by simpa using (fun h => hp h.symm)
        cases ha : acts.lookup p.name with
        | none => simp only [Option.map_none, hp', Bool.false_or]; exact ih
        | some a => simp only [Option.map_some, List.lookup_cons, hn', hp', Bool.false_or]; exact ih

theorem lookup_isSome_mem {α : Type} : ∀ (l : List (String × α)) (n : String) (a : α), l.lookup n = some a → ∃ fa ∈ l, fa.1 = n
  | [], n, a, h => by simp at h
  | (k, v) :: rest, n, a, h => by
      simp only [List.lookup_cons] at h
      cases hk : n == k
      · rw [hk] at h
        obtain ⟨fa, hfa, hn⟩ := lookup_isSome_mem rest n a h
        exact ⟨fa, by simp [hfa], hn⟩
      · exact ⟨(k, v), by simp, by simpa using (beq_iff_eq.mp hk).symm⟩

/-- the binding built from the printed port map equals (as a lookup function) the binding built directly from
    the keyword arguments, provided every keyword names a declared port -/
theorem pmap_binding_eqv (ports : List Port) (acts : List (String × Actual)) (b : Binding)
    (h : ∀ fa ∈ acts, fa.1 ∈ ports.map (·.name)) :
    BEqv ((pmapOf ports acts).map (fun fa => (fa.1, bindRef b fa.2)))
         (acts.map (fun fa => (fa.1, bindRef b fa.2.ref))) := by
  intro n
  have e1 := lookup_map_snd (bindRef b) (pmapOf ports acts) n
  have e2 := lookup_map_snd (fun a : Actual => bindRef b a.ref) acts n
  rw [e1, e2, lookup_pmapOf]
  by_cases hany : ports.any (fun p => p.name == n) = true
  · simp [hany, Option.map_map, Function.comp_def]
  · simp only [hany]
    cases ha : acts.lookup n with
    | none => simp
    | some a =>
        exfalso
        obtain ⟨fa, hfa, hn⟩ := lookup_isSome_mem acts n a ha
        have := h fa hfa
        apply hany
        simp only [List.mem_map] at this
        obtain ⟨p, hp, hpn⟩ := this
        simp only [List.any_eq_true]
        exact ⟨p, hp, by simp [hpn, hn]⟩

/-! ## the flat specification depends on the binding only through `lookup` -/

mutual
theorem flattenT_ext : ∀ (t : Tmpl) (pfx : String) (b1 b2 : Binding), BEqv b1 b2 → flattenT pfx b1 t = flattenT pfx b2 t
  | .mk n p l lg is, pfx, b1, b2, h => by
      have hb := BEqv_append h (localBinding pfx l)
      simp only [flattenT]
      rw [flattenIs_ext is pfx _ _ 0 hb]
      congr 2
      apply List.map_congr_left
      intro x _
      rw [substLeaf_ext hb]
theorem flattenIs_ext : ∀ (is : Insts) (pfx : String) (b1 b2 : Binding) (k : Nat), BEqv b1 b2 →
    flattenIs pfx b1 k is = flattenIs pfx b2 k is
  | .nil, pfx, b1, b2, k, h => rfl
  | .cons t acts rest, pfx, b1, b2, k, h => by
      simp only [flattenIs]
      rw [flattenIs_ext rest pfx b1 b2 (k + 1) h]
      congr 1
      apply flattenT_ext
      intro n
      have e1 := lookup_map_snd (fun a : Actual => bindRef b1 a.ref) acts n
      have e2 := lookup_map_snd (fun a : Actual => bindRef b2 a.ref) acts n
      rw [e1, e2]
      congr 1
      funext a
      exact bindRef_ext h a.ref
end

/-! ## one entity: elaboration against a correct table = inlining -/

/-- `f` elaborates the template `s` correctly: after resolving the aliases it is `s` placed inline -/
def Correct (f : ElabFn) (s : Tmpl) : Prop :=
  ∀ pfx pb, (f pfx pb).map substItem = flattenT pfx pb s

theorem localBinding_dropDefault (pfx : String) (dr : List String) (locals : List Local) :
    localBinding pfx (locals.map (dropDefault dr)) = localBinding pfx locals := by
  simp only [localBinding, List.map_map]
  apply List.map_congr_left
  intro l _
  simp only [Function.comp, dropDefault]
  split <;> rfl

theorem elabInsts_correct (tbl : String → Option ElabFn) (pfx : String) (b : Binding) :
    ∀ (is : Insts) (k : Nat), WfIs is →
      (∀ ca ∈ instList is, ∃ f, tbl ca.1.name = some f ∧ Correct f ca.1) →
      ((emitInsts k is).flatMap (elabInst tbl pfx b)).map substItem = flattenIs pfx b k is
  | .nil, k, _, _ => by simp [emitInsts, flattenIs]
  | .cons t acts rest, k, hw, htbl => by
      simp only [WfIs] at hw
      obtain ⟨f, hf, hc⟩ := htbl (t, acts) (by simp [instList])
      have ih := elabInsts_correct tbl pfx b rest (k + 1) hw.2.2
        (fun ca hca => htbl ca (by simp [instList, hca]))
      simp only [emitInsts, List.flatMap_cons, List.map_append, flattenIs, elabInst, hf]
      rw [ih, hc]
      congr 1
      exact flattenT_ext t _ _ _ (pmap_binding_eqv t.ports acts b hw.1)

theorem elabEntity_correct (tbl : String → Option ElabFn) (t : Tmpl) (hw : WfT t)
    (htbl : ∀ ca ∈ instList t.insts, ∃ f, tbl ca.1.name = some f ∧ Correct f ca.1) :
    Correct (elabEntity tbl (emitEntity t)) t := by
  cases t with
  | mk n p l lg is =>
    intro pfx pb
    simp only [WfT] at hw
    simp only [Tmpl.insts] at htbl
    simp only [elabEntity, emitEntity, flattenT, List.map_append, List.map_map, localBinding_dropDefault]
    rw [elabInsts_correct tbl pfx (pb ++ localBinding pfx l) is 0 hw htbl]
    rfl

/-! ## the analysed library -/

theorem elabTbl_isSome : ∀ (r : List Entity) (n : String), (elabTbl r n).isSome = hasName r n
  | [], n => by simp [elabTbl, hasName]
  | e :: older, n => by
      have ih := elabTbl_isSome older n
      simp only [elabTbl, hasName_cons]
      cases h : elabTbl older n with
      | some f => rw [h] at ih; simp [← ih]
      | none =>
          rw [h] at ih
          simp only [Option.isSome_none] at ih
          by_cases hn : n = e.name
          · simp [hn]
          · have : (e.name == n) = false := by simpa using (fun h => hn h.symm)
            simp [hn, this, ← ih]

theorem elabTbl_keep (e : Entity) (older : List Entity) (n : String) (f : ElabFn)
    (h : elabTbl older n = some f) : elabTbl (e :: older) n = some f := by
  simp [elabTbl, h]

theorem elabTbl_new (e : Entity) (older : List Entity) (h : hasName older e.name = false) :
    elabTbl (e :: older) e.name = some (elabEntity (elabTbl older) e) := by
  have : elabTbl older e.name = none := by
    have := elabTbl_isSome older e.name
    rw [h] at this
    cases hx : elabTbl older e.name with
    | none => rfl
    | some f => rw [hx] at this; simp at this
  simp [elabTbl, this]

/-- every entity of the (reversed) library elaborates to the inlined form of the template it was emitted from -/
def TblOk (R : Tmpl) (r : List Entity) : Prop :=
  ∀ s ∈ subT R, hasName r s.name = true → ∃ f, elabTbl r s.name = some f ∧ Correct f s

mutual
theorem collectT_tblOk (R : Tmpl) (hc : Consistent R) : ∀ (t : Tmpl) (racc : List Entity),
    (∀ s ∈ subT t, s ∈ subT R) → WfT t → TblOk R racc → TblOk R (collectT racc t)
  | .mk n p l lg is, racc, hsub, hw, hok => by
      have hsubIs : ∀ s ∈ subIs is, s ∈ subT R := fun s hs => hsub s (by simp [subT, hs])
      have hw' : WfIs is := by simpa [WfT] using hw
      have h1 := collectIs_tblOk R hc is racc hsubIs hw' hok
      simp only [collectT]
      split
      · exact h1
      · rename_i hn
        have hn' : hasName (collectIs racc is) (emitEntity (Tmpl.mk n p l lg is)).name = false := by
          simpa [Tmpl.name] using hn
        intro s hs hhas
        by_cases hold : hasName (collectIs racc is) s.name = true
        · obtain ⟨f, hf, hcor⟩ := h1 s hs hold
          exact ⟨f, elabTbl_keep _ _ _ _ hf, hcor⟩
        · -- the new entity: `s` has the name of the walked template, hence is that template
          rw [hasName_cons] at hhas
          have hname : (Tmpl.mk n p l lg is).name = s.name := by
            simp only [emitEntity_name] at hhas
            simp only [hold, Bool.or_false, beq_iff_eq] at hhas
            exact hhas
          have hself : Tmpl.mk n p l lg is ∈ subT R := hsub _ (self_mem_subT _)
          have : s = Tmpl.mk n p l lg is := hc s hs _ hself hname.symm
          subst this
          refine ⟨elabEntity (elabTbl (collectIs racc is)) (emitEntity (Tmpl.mk n p l lg is)), ?_, ?_⟩
          · have := elabTbl_new (emitEntity (Tmpl.mk n p l lg is)) (collectIs racc is) hn'
            simpa using this
          · apply elabEntity_correct _ _ hw
            intro ca hca
            have hcs : ca.1 ∈ subIs is := instList_sub is ca hca ca.1 (self_mem_subT _)
            exact h1 ca.1 (hsubIs _ hcs) (collectIs_complete is racc ca.1 hcs)
theorem collectIs_tblOk (R : Tmpl) (hc : Consistent R) : ∀ (is : Insts) (racc : List Entity),
    (∀ s ∈ subIs is, s ∈ subT R) → WfIs is → TblOk R racc → TblOk R (collectIs racc is)
  | .nil, racc, _, _, hok => by simpa [collectIs] using hok
  | .cons t acts rest, racc, hsub, hw, hok => by
      simp only [WfIs] at hw
      simp only [collectIs]
      apply collectIs_tblOk R hc rest _ (fun s hs => hsub s (by simp [subIs, hs])) hw.2.2
      exact collectT_tblOk R hc t racc (fun s hs => hsub s (by simp [subIs, hs])) hw.2.1 hok
end

/-! ## semantics: resolved processes of the elaborated items = those of the substituted netlist -/

theorem resolve_subst (b : Binding) (l : Leaf) : resolveLeaf (substLeaf b l) = resolveBound b l := by
  cases l <;> rfl

theorem procs_subst : ∀ items : List FItem, procsOfNets (items.map substItem) = procsOfItems items
  | [] => rfl
  | .sig l :: rest => by
      have ih := procs_subst rest
      simp only [procsOfNets, procsOfItems, List.map_cons, substItem, List.filterMap_cons] at ih ⊢
      exact ih
  | .proc b l :: rest => by
      have ih := procs_subst rest
      simp only [procsOfNets, procsOfItems, List.map_cons, substItem, List.filterMap_cons, resolve_subst] at ih ⊢
      rw [ih]

theorem sigs_subst : ∀ items : List FItem, sigsOfNets (items.map substItem) = sigsOfItems items
  | [] => rfl
  | .sig l :: rest => by
      have ih := sigs_subst rest
      simp only [sigsOfNets, sigsOfItems, List.map_cons, substItem, List.filterMap_cons] at ih ⊢
      rw [ih]
  | .proc b l :: rest => by
      have ih := sigs_subst rest
      simp only [sigsOfNets, sigsOfItems, List.map_cons, substItem, List.filterMap_cons] at ih ⊢
      exact ih

end CohdlVerif.C12
