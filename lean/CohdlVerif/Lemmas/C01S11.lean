import CohdlVerif.Lemmas.C01S10

/-! C01 - general grammar: `if` -/
namespace CohdlVerif.C01

/-- a listed block is not open -/
theorem FPost.not_open {s s' : CSt} {O' : List Nat} (h : FPost s O' s') {y : Nat}
    (hy : y ∈ dB s s' ∨ y ∈ dC s s' ∨ y ∈ dR s s') : y ∉ O' := by
  intro hO
  have hc := (List.nodup_iff_count.mp h.1) y
  have h1 : 0 < List.count y O' := List.count_pos_iff.mpr hO
  simp only [Outs, List.count_append] at hc
  rcases hy with hy | hy | hy
  · have := List.count_pos_iff.mpr hy; omega
  · have := List.count_pos_iff.mpr hy; omega
  · have := List.count_pos_iff.mpr hy; omega

section
variable {σ : Type} (act : Nat → σ → σ) (cond : Nat → σ → Bool)
variable (prog : Stmt) (Hf : Nat → Blk) (E : Nat → σ → σ × Option Nat) (Rf : Nat → Nat) (Sf : List Nat)

theorem simG_ite (hE : ∀ b s, E b s = execB act cond E (Hf b) s) (cc : Nat) (t e k : Stmt) (l c : Bool)
    (hnr : (retAlways t && retAlways e) = false)
    (ht : CSpec (compile t) l c) (he : CSpec (compile e) l c) (hk : CSpec (compile k) l c)
    (ft : FwdG (compile t) l) (fe : FwdG (compile e) l)
    (bt : BadMono (compile t)) (be : BadMono (compile e)) (bk : BadMono (compile k))
    (iht : SimG act cond prog Hf E Rf Sf t l) (ihe : SimG act cond prog Hf E Rf Sf e l)
    (ihk : SimG act cond prog Hf E Rf Sf k l)
    (pt : PlainG act cond Hf E Rf Sf t) (pe : PlainG act cond Hf E Rf Sf e) (nt : NoTrLists t) (ne : NoTrLists e) :
    SimG act cond prog Hf E Rf Sf (.ite cc t e k) l := by
  intro st O s m R0 P' hi hsi hL hbad hF hP' hp o ho
  have hO : O ≠ [] := fun h => by subst h; simp at ho
  have hc : compile (.ite cc t e k) O s =
      compile k (iteLoop cc (compile t) (compile e) O s []).1 (iteLoop cc (compile t) (compile e) O s []).2 := by
    rw [compile_ite]; simp [hnr]
  rw [hc] at hF hP' hp hbad
  have hP0 : FPost s (O ++ []) s := FPost.of_same (SameLists.refl s) (by simpa using hi.nodup) (by simpa using hi.front)
  have hS0 : Step s O s (O ++ []) := by simpa using Step.refl s O
  obtain ⟨PL, SL⟩ := iteLoop_fpost cc t e l c ht he ft fe s O hi.hlt.1 hi.hlt.2 O s [] hS0 hP0 hi.start
  obtain ⟨_, hmem, hA⟩ := iteLoop_step cc (compile t) (compile e) ht.br he.br O s [] hi.hlt hi.start
  generalize hret : (iteLoop cc (compile t) (compile e) O s []).1 = ret at *
  generalize hse : (iteLoop cc (compile t) (compile e) O s []).2 = se at *
  have hAe : se.atStart = false := hA hO
  have hie : Inv se ret := ⟨SL.hlt hi.hlt, fun h => (by rw [hAe] at h; cases h), PL.nodup_open,
    fun o ho => PL.2 o (mem_Outs.mpr (Or.inl ho))⟩
  have hsie := hsi.step SL hi.hlt.2
  have Tk := hk.step hie (fun _ => hAe)
  have hAr := Tk.atStart_false hie.hlt.2 hAe
  obtain ⟨tB, tC, tR⟩ := dX_trans' SL Tk
  have hold : ∀ y, (y ∈ dB s se ∨ y ∈ dC s se ∨ y ∈ dR s se) → y < se.next ∧ y ∉ ret := fun y hy =>
    ⟨InR.lt hi.hlt.1 SL.next_le (SL.outs_r y (mem_Outs.mpr (Or.inr hy))), PL.not_open hy⟩
  have CKk := ihk st ret se m R0 P' hie hsie (fun _ => hAe) hbad hF
    (by
      intro y hy hlt hr
      have := hP' y hy hlt (by
        rcases hr with h | h
        · exact ((hmem y (hret ▸ h)).resolve_left (by simp)).1.imp id (fun h => h.1)
        · right; have := SL.next_le; omega)
      rw [mem_Outs, tB, tC, tR] at this
      simp only [List.mem_append] at this
      rw [mem_Outs]
      have hx : ∀ {P : Prop}, (y ∈ dB s se ∨ y ∈ dC s se ∨ y ∈ dR s se) → P := by
        intro P h
        have := hold y h
        rcases hr with h' | h'
        · exact absurd h' this.2
        · omega
      rcases this with h | (h | h) | (h | h) | (h | h)
      · exact Or.inl h
      · exact hx (Or.inl h)
      · exact Or.inr (Or.inl h)
      · exact hx (Or.inr (Or.inl h))
      · exact Or.inr (Or.inr (Or.inl h))
      · exact hx (Or.inr (Or.inr h))
      · exact Or.inr (Or.inr (Or.inr h)))
    ⟨hp.op, fun o' ho' => hp.br o' (by rw [tB]; simp [ho']), fun o' ho' => hp.co o' (by rw [tC]; simp [ho']),
      fun o' ho' => hp.re o' (by rw [tR]; simp [ho'])⟩
  rw [hAe] at CKk
  have FE : Fut Hf Rf Sf se (fun y => y ∈ ret ∨ P' y) :=
    Fut.back Tk (fun o ho => Or.inl ho) (fun y hy => Or.inl (Or.inr hy)) hF
  have hbadL : se.bad = false := bk _ _ hbad
  have := iteLoop_simG act cond prog Hf E Rf Sf hE cc t e k l c ht he bt be iht ihe pt pe nt ne st m R0
    (fun y => y ∈ ret ∨ P' y) O s [] hi.hlt hi.start hi.nodup hi.front hsi (by simp)
    (by rw [hse]; exact hbadL) (by rw [hse]; exact FE)
    (by
      rw [hse, hret]
      intro y hy hlt hr
      rcases hy with hy | hy
      · exact mem_Outs.mpr (Or.inl hy)
      · have h1 := hP' y hy (by have := Tk.next_le; omega) hr
        rw [mem_Outs, tB, tC, tR] at h1
        simp only [List.mem_append] at h1
        rw [mem_Outs]
        have hx : ∀ {P : Prop}, InR se ret (compile k ret se).2 y → (y ∈ ret → P) → P := by
          intro P h hr'
          rcases h.1 with h | h
          · exact hr' h
          · omega
        rcases h1 with h | (h | h) | (h | h) | (h | h)
        · exact hx (Tk.open_r y h) Or.inl
        · exact Or.inr (Or.inl h)
        · exact hx (Tk.dB_spec.2 y h) Or.inl
        · exact Or.inr (Or.inr (Or.inl h))
        · exact hx (Tk.dC_spec.2 y h) Or.inl
        · exact Or.inr (Or.inr (Or.inr h))
        · exact hx (Tk.dR_spec.2 y h) Or.inl)
    (by rw [hse, hret]; exact CKk)
    (by
      rw [hse]; intro o' ho'
      have h1 := hp.br o' (by rw [tB]; simp [ho'])
      have := hold o' (Or.inl ho')
      rwa [hAr, Tk.frame o' this.1 this.2] at h1)
    (by
      rw [hse]; intro o' ho'
      have h1 := hp.co o' (by rw [tC]; simp [ho'])
      have := hold o' (Or.inr (Or.inl ho'))
      rwa [hAr, Tk.frame o' this.1 this.2] at h1)
    (by
      rw [hse]; intro o' ho'
      have h1 := hp.re o' (by rw [tR]; simp [ho'])
      have := hold o' (Or.inr (Or.inr ho'))
      rwa [hAr, Tk.frame o' this.1 this.2] at h1)
  exact this o ho

end
end CohdlVerif.C01
