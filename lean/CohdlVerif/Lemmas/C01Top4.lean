import CohdlVerif.Lemmas.C01Top3

/-! C01 - the exported machine and the machine on the block heap have the same traces -/
namespace CohdlVerif.C01

section
variable {σ : Type} (act : Nat → σ → σ) (cond : Nat → σ → Bool)

theorem traces_multi (sm : SM) (E : Nat → σ → σ × Option Nat) (Sf : List Nat)
    (h : ∀ i s, smStep act cond sm i s = mStep E Sf i s) (inp : Nat → σ → σ) :
    ∀ n x, smTrace act cond sm inp n x = mTrace E Sf inp n x := by
  intro n
  induction n with
  | zero => intro x; rfl
  | succ n ih => intro x; simp only [smTrace, mTrace, ih, h]

theorem traces_single (sm : SM) (E : Nat → σ → σ × Option Nat) (Sf : List Nat)
    (h : ∀ s, smStep act cond sm 0 s = mStep E Sf 0 s ∧ (mStep E Sf 0 s).1 = 0) (inp : Nat → σ → σ) (s0 : σ) :
    ∀ n, smTrace act cond sm inp n (0, s0) = mTrace E Sf inp n (0, s0) ∧ (mTrace E Sf inp n (0, s0)).1 = 0 := by
  intro n
  induction n with
  | zero => exact ⟨rfl, rfl⟩
  | succ n ih =>
    obtain ⟨h1, h2⟩ := ih
    simp only [smTrace, mTrace, h1, h2]
    exact h _

/-- the step of the exported machine is the step on the block heap (transitions kept) -/
theorem smStep_eq_mStep (H : Nat → Blk) (N : Nat) (Sf : List Nat) (codes : List Code)
    (hm : Sf.mapM (fun b => flatB true H N b .nil) = some codes) (i : Nat) (s : σ) :
    smStep act cond ⟨codes⟩ i s = mStep (Eof act cond (flatB true H N)) Sf i s := by
  obtain ⟨hlen, hget⟩ := mapM_some _ _ _ hm
  simp only [smStep, mStep]
  by_cases hi : i < Sf.length
  · have h1 := hget i hi
    have hc : codes[i]? = some codes[i] := List.getElem?_eq_getElem (by omega)
    rw [hc] at h1
    rw [List.getElem?_eq_getElem hi]
    simp only [Eof, h1, List.getD_eq_getElem?_getD, hc, Option.getD_some]
  · have h1 : Sf[i]? = none := List.getElem?_eq_none (by omega)
    have h2 : codes[i]? = none := List.getElem?_eq_none (by omega)
    simp [h1, List.getD_eq_getElem?_getD, h2, exec]

end
end CohdlVerif.C01
