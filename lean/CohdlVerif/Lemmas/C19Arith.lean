import CohdlVerif.Lemmas.C19Lemmas

/-! C19 helper lemmas, part 2: unsigned arithmetic, subtraction, constructors, the extension branch of resize -/

namespace CohdlVerif.C19

theorem mul_exactU (l1 r1 v1 l2 r2 v2 : Int) (h1 : r1 ≤ l1) (h2 : r2 ≤ l2)
    (hv1 : inRangeU (l1 - r1 + 1) v1) (hv2 : inRangeU (l2 - r2 + 1) v2) :
    arithU .mul l1 r1 v1 l2 r2 v2 = .ok ⟨l1 + l2 + 1, r1 + r2, v1 * v2⟩ := by
  have hm : inRangeU ((l1 - r1 + 1) + (l2 - r2 + 1)) (v1 * v2) := by
    obtain ⟨a1, a2⟩ := hv1
    obtain ⟨b1, b2⟩ := hv2
    unfold inRangeU
    rw [p2_add _ _ (by omega) (by omega)]
    constructor
    · exact mul_nonneg a1 b1
    · nlinarith [p2_pos (l1 - r1 + 1), p2_pos (l2 - r2 + 1)]
  unfold arithU
  rw [mkU_ok _ v1 (by omega) hv1.1 hv1.2, mkU_ok _ v2 (by omega) hv2.1 hv2.2]
  simp only [bind, Except.bind, pure, Except.pure]
  rw [mkU_ok _ (v1 * v2) (by omega) hm.1 hm.2]
  simp only [resultRaw]
  rw [if_pos (by omega)]

theorem add_exactU (l1 r1 v1 l2 r2 v2 : Int) (h1 : r1 ≤ l1) (h2 : r2 ≤ l2)
    (hv1 : inRangeU (l1 - r1 + 1) v1) (hv2 : inRangeU (l2 - r2 + 1) v2) :
    arithU .add l1 r1 v1 l2 r2 v2 =
      .ok ⟨max l1 l2 + 1, min r1 r2, v1 * p2 (r1 - min r1 r2) + v2 * p2 (r2 - min r1 r2)⟩ := by
  have hx := inRangeU_mono _ (max l1 l2 + 1 - min r1 r2) _ (by omega) (by omega)
    (scaleU _ (r1 - min r1 r2) v1 (by omega) (by omega) hv1)
  have hy := inRangeU_mono _ (max l1 l2 + 1 - min r1 r2) _ (by omega) (by omega)
    (scaleU _ (r2 - min r1 r2) v2 (by omega) (by omega) hv2)
  have hp := p2_pred (max l1 l2 + 1 - min r1 r2 + 1) (by omega)
  have hs : inRangeU (max l1 l2 + 1 - min r1 r2 + 1)
      (v1 * p2 (r1 - min r1 r2) + v2 * p2 (r2 - min r1 r2)) := by
    unfold inRangeU at *
    have e : max l1 l2 + 1 - min r1 r2 + 1 - 1 = max l1 l2 + 1 - min r1 r2 := by omega
    rw [e] at hp
    omega
  unfold arithU
  rw [mkU_ok _ v1 (by omega) hv1.1 hv1.2, mkU_ok _ v2 (by omega) hv2.1 hv2.2]
  simp only [bind, Except.bind, pure, Except.pure]
  rw [uResize_ok _ v1 _ _ (by omega) (by omega) (by omega) hv1, uResize_ok _ v2 _ _ (by omega) (by omega) (by omega) hv2]
  simp only [if_true, uAdd, max_self, resultRaw]
  rw [Int.emod_eq_of_lt hs.1 hs.2]

/-- `P - 1 - y % P` is the bit pattern of `-y - 1` -/
theorem inv_emod (y P : Int) (hP : 0 < P) : P - 1 - y % P = (-y - 1) % P := by
  have h0 := Int.emod_nonneg y (ne_of_gt hP)
  have h1 := Int.emod_lt_of_pos y hP
  have e : -y - 1 = (P - 1 - y % P) + P * (-(y / P) - 1) := by
    have := Int.mul_ediv_add_emod y P
    linarith
  rw [e, Int.add_mul_emod_self_left]
  exact (Int.emod_eq_of_lt (by omega) (by omega)).symm

theorem sub_exactU (l1 r1 v1 l2 r2 v2 : Int) (h1 : r1 ≤ l1) (h2 : r2 ≤ l2)
    (hv1 : inRangeU (l1 - r1 + 1) v1) (hv2 : inRangeU (l2 - r2 + 1) v2) :
    arithU .sub l1 r1 v1 l2 r2 v2 =
      .ok ⟨max l1 l2 + 1, min r1 r2,
        (v1 * p2 (r1 - min r1 r2) - v2 * p2 (r2 - min r1 r2)) % p2 (max l1 l2 + 1 - min r1 r2 + 1)⟩ := by
  unfold arithU
  rw [mkU_ok _ v1 (by omega) hv1.1 hv1.2, mkU_ok _ v2 (by omega) hv2.1 hv2.2]
  simp only [bind, Except.bind, pure, Except.pure]
  rw [uResize_ok _ v1 _ _ (by omega) (by omega) (by omega) hv1, uResize_ok _ v2 _ _ (by omega) (by omega) (by omega) hv2]
  simp only [uAdd, uNeg, BV.inv, max_self, resultRaw, reduceCtorEq, ↓reduceIte]
  rw [Int.add_emod_emod]
  have e : v1 * p2 (r1 - min r1 r2) + (p2 (max l1 l2 + 1 - min r1 r2 + 1) - 1 - v2 * p2 (r2 - min r1 r2) + 1)
      = (v1 * p2 (r1 - min r1 r2) - v2 * p2 (r2 - min r1 r2)) + p2 (max l1 l2 + 1 - min r1 r2 + 1) := by ring
  rw [e, Int.add_emod_right]


theorem sInt_one : BV.sInt ⟨2, 1⟩ = 1 := by
  simp [BV.sInt, p2]

theorem sNeg_ok (tw Y : Int) (htw : 2 ≤ tw) (hY : inRangeS (tw - 1) Y) :
    sNeg ⟨tw, Y % p2 tw⟩ = .ok ⟨tw, (-Y) % p2 tw⟩ := by
  have hp := p2_pred (tw - 1) (by omega)
  have hr : inRangeS tw (-Y - 1) := by
    have := inRangeS_mono (tw - 1) tw Y (by omega) (by omega) hY
    unfold inRangeS at *; omega
  unfold sNeg
  simp only
  rw [if_neg (by omega), if_neg (by omega)]
  simp only [sAdd, BV.inv, max_eq_left htw, sInt_one]
  rw [inv_emod Y (p2 tw) (p2_pos tw), sInt_mk tw (-Y - 1) (by omega) hr.1 hr.2]
  have e : -Y - 1 + 1 = -Y := by ring
  rw [e, Int.emod_emod_of_dvd _ (dvd_refl _)]

theorem sub_exactS (l1 r1 v1 l2 r2 v2 : Int) (h1 : r1 ≤ l1) (h2 : r2 ≤ l2)
    (hv1 : inRangeS (l1 - r1 + 1) v1) (hv2 : inRangeS (l2 - r2 + 1) v2) :
    arithS .sub l1 r1 v1 l2 r2 v2 =
      .ok ⟨max l1 l2 + 1, min r1 r2, v1 * p2 (r1 - min r1 r2) - v2 * p2 (r2 - min r1 r2)⟩ := by
  have hx := inRangeS_mono _ (max l1 l2 + 1 - min r1 r2) _ (by omega) (by omega)
    (scaleS _ (r1 - min r1 r2) v1 (by omega) (by omega) hv1)
  have hy := inRangeS_mono _ (max l1 l2 + 1 - min r1 r2) _ (by omega) (by omega)
    (scaleS _ (r2 - min r1 r2) v2 (by omega) (by omega) hv2)
  have hp := p2_pred (max l1 l2 + 1 - min r1 r2 + 1 - 1) (by omega)
  have e : max l1 l2 + 1 - min r1 r2 + 1 - 1 - 1 = max l1 l2 + 1 - min r1 r2 - 1 := by omega
  have e2 : max l1 l2 + 1 - min r1 r2 + 1 - 1 = max l1 l2 + 1 - min r1 r2 := by omega
  rw [e] at hp
  have hny : inRangeS (max l1 l2 + 1 - min r1 r2 + 1) (-(v2 * p2 (r2 - min r1 r2))) := by
    unfold inRangeS at *; omega
  have hs : inRangeS (max l1 l2 + 1 - min r1 r2 + 1)
      (v1 * p2 (r1 - min r1 r2) + -(v2 * p2 (r2 - min r1 r2))) := by
    unfold inRangeS at *; omega
  have hx' := inRangeS_mono _ (max l1 l2 + 1 - min r1 r2 + 1) _ (by omega) (by omega) hx
  unfold arithS
  rw [mkS_ok _ v1 (by omega) hv1.1 hv1.2, mkS_ok _ v2 (by omega) hv2.1 hv2.2]
  simp only [bind, Except.bind, pure, Except.pure]
  rw [sResize_ok _ v1 _ _ (by omega) (by omega) (by omega) hv1, sResize_ok _ v2 _ _ (by omega) (by omega) (by omega) hv2]
  simp only [reduceCtorEq, ↓reduceIte]
  rw [sNeg_ok _ _ (by omega) (by rw [e2]; exact hy)]
  simp only [sAdd, max_self, resultRaw, ↓reduceIte]
  rw [sInt_mk _ _ (by omega) hx'.1 hx'.2, sInt_mk _ _ (by omega) hny.1 hny.2, sInt_mk _ _ (by omega) hs.1 hs.2]
  congr 2


theorem sFromS_ok (tw w X : Int) (hw : 1 ≤ w) (hwt : w ≤ tw) (h : inRangeS w X) :
    sFromS tw ⟨w, X % p2 w⟩ = .ok ⟨tw, X % p2 tw⟩ := by
  have hr := inRangeS_mono w tw X hw hwt h
  unfold sFromS
  simp only [sInt_mk w X hw h.1 h.2]
  rw [if_pos hwt]
  exact mkS_ok tw X (by omega) hr.1 hr.2

theorem uFromU_ok (tw w X : Int) (hw : 1 ≤ w) (hwt : w ≤ tw) (h : inRangeU w X) :
    uFromU tw ⟨w, X⟩ = .ok ⟨tw, X⟩ := by
  have hr := inRangeU_mono w tw X (by omega) hwt h
  unfold uFromU
  simp only
  rw [if_pos hwt]
  exact mkU_ok tw X (by omega) hr.1 hr.2

theorem ctorFixedS_covers (tl tr sl sr v : Int) (hs : sr ≤ sl) (hv : inRangeS (sl - sr + 1) v)
    (hl : sl ≤ tl) (hr : tr ≤ sr) : ctorFixedS tl tr sl sr v = .ok (v * p2 (sr - tr)) := by
  have hz := scaleS _ (sr - tr) v (by omega) (by omega) hv
  have hz' := inRangeS_mono _ (tl - tr + 1) _ (by omega) (by omega) hz
  unfold ctorFixedS
  rw [mkS_ok _ v (by omega) hv.1 hv.2]
  simp only [bind, Except.bind, pure, Except.pure]
  by_cases hc : tl = sl ∧ tr = sr
  · rw [if_pos hc, sFromS_ok _ _ v (by omega) (by omega) hv]
    obtain ⟨c1, c2⟩ := hc
    subst c1; subst c2
    simp only [sub_self, p2_zero, mul_one]
    rw [sInt_mk _ v (by omega) hv.1 hv.2]
  · rw [if_neg hc, if_neg (by omega), if_neg (by omega)]
    rw [sResize_ok _ v _ _ (by omega) (by omega) (by omega) hv]
    simp only
    rw [sFromS_ok _ _ _ (by omega) (le_refl _) hz']
    simp only
    rw [sInt_mk _ _ (by omega) hz'.1 hz'.2]

theorem ctorFixedS_rejects (tl tr sl sr v : Int) (h : ¬ (sl ≤ tl ∧ tr ≤ sr)) :
    ∃ e, ctorFixedS tl tr sl sr v = .error e := by
  unfold ctorFixedS
  cases hm : mkS (sl - sr + 1) v with
  | error e => exact ⟨e, rfl⟩
  | ok b =>
    simp only [bind, Except.bind, pure, Except.pure]
    rw [if_neg (by omega)]
    by_cases h1 : tl ≥ sl
    · rw [if_neg (by omega), if_pos (by omega)]; exact ⟨_, rfl⟩
    · rw [if_pos h1]; exact ⟨_, rfl⟩

theorem ctorFixedU_covers (tl tr sl sr v : Int) (hs : sr ≤ sl) (hv : inRangeU (sl - sr + 1) v)
    (hl : sl ≤ tl) (hr : tr ≤ sr) : ctorFixedU tl tr sl sr v = .ok (v * p2 (sr - tr)) := by
  have hz := scaleU _ (sr - tr) v (by omega) (by omega) hv
  have hz' := inRangeU_mono _ (tl - tr + 1) _ (by omega) (by omega) hz
  unfold ctorFixedU
  rw [mkU_ok _ v (by omega) hv.1 hv.2]
  simp only [bind, Except.bind, pure, Except.pure]
  by_cases hc : tl = sl ∧ tr = sr
  · rw [if_pos hc, uFromU_ok _ _ v (by omega) (by omega) hv]
    obtain ⟨c1, c2⟩ := hc
    subst c1; subst c2
    simp only [sub_self, p2_zero, mul_one]
  · rw [if_neg hc, if_neg (by omega), if_neg (by omega)]
    rw [uResize_ok _ v _ _ (by omega) (by omega) (by omega) hv]
    simp only
    rw [uFromU_ok _ _ _ (by omega) (le_refl _) hz']

theorem ctorSignedS_ok (l r sw v : Int) (hlr : r ≤ l) (hsw : 1 ≤ sw) (hv : inRangeS sw v)
    (hr : r ≤ 0) (hfit : sw - r ≤ l - r + 1) : ctorSignedS l r sw v = .ok (v * p2 (-r)) := by
  have hz := inRangeS_mono _ (l - r + 1) _ (by omega) (by omega) (scaleS sw (-r) v hsw (by omega) hv)
  unfold ctorSignedS
  rw [mkS_ok _ v hsw hv.1 hv.2]
  simp only [bind, Except.bind, pure, Except.pure]
  rw [if_neg (by omega), sResize_ok _ v _ _ hsw (by omega) (by omega) hv]
  simp only
  rw [sInt_mk _ _ (by omega) hz.1 hz.2]

/-- extension branch of `resize_fn` (`l ≤ l'`, `r ≥ r'`): no bit is dropped, both styles are the identity -/
theorem resizeS_extend (l r v l' r' : Int) (rs : Round) (os : Ovf) (hlr : r ≤ l)
    (hv : inRangeS (l - r + 1) v) (hl : l ≤ l') (hr : r' ≤ r) :
    resizeS l r v l' r' rs os = .ok (v * p2 (r - r')) := by
  have hz := inRangeS_mono _ (l' - r' + 1) _ (by omega) (by omega) (scaleS _ (r - r') v (by omega) (by omega) hv)
  have hmin : inRangeS (l' - r' + 1) (-(p2 (l' - r' + 1 - 1))) := by
    have := p2_pos (l' - r' + 1 - 1); unfold inRangeS; omega
  have hmax : inRangeS (l' - r' + 1) (p2 (l' - r' + 1 - 1) - 1) := by
    have := p2_pos (l' - r' + 1 - 1); unfold inRangeS; omega
  unfold resizeS
  rw [if_neg (by omega)]
  unfold resizeS1
  by_cases hc : l = l' ∧ r = r'
  · rw [if_pos hc, mkS_ok _ v (by omega) hv.1 hv.2]
    obtain ⟨c1, c2⟩ := hc
    subst c1; subst c2
    simp only [Except.map, sub_self, p2_zero, mul_one]
    rw [sInt_mk _ v (by omega) hv.1 hv.2]
  · rw [if_neg hc]
    unfold resizeSCore
    dsimp only
    rw [mkS_ok _ v (by omega) hv.1 hv.2, mkS_ok _ _ (by omega) hmin.1 hmin.2, mkS_ok _ _ (by omega) hmax.1 hmax.2]
    simp only [bind, Except.bind, pure, Except.pure]
    rw [if_neg (by omega), if_pos (by omega), sResize_ok _ v _ _ (by omega) (by omega) (by omega) hv]
    simp only [resultRaw, ↓reduceIte]
    rw [sInt_mk _ _ (by omega) hz.1 hz.2]

theorem clamp_id (lo hi q : Int) (h1 : lo ≤ q) (h2 : q ≤ hi) : clamp lo hi q = q := by
  unfold clamp; rw [if_neg (by omega), if_neg (by omega)]

theorem specS_extend (l r v l' r' : Int) (rs : Round) (os : Ovf) (hlr : r ≤ l)
    (hv : inRangeS (l - r + 1) v) (hl : l ≤ l') (hr : r' ≤ r) :
    specResizeS r v l' r' rs os = v * p2 (r - r') := by
  have hz := inRangeS_mono _ (l' - r' + 1) _ (by omega) (by omega) (scaleS _ (r - r') v (by omega) (by omega) hv)
  have hp := p2_pred (l' - r' + 1) (by omega)
  unfold inRangeS at hz
  unfold specResizeS quantize
  rw [if_pos (by omega)]
  cases os with
  | saturate =>
    simp only [overflowS]
    exact clamp_id _ _ _ (by unfold loS; omega) (by unfold hiS; omega)
  | wrap =>
    simp only [overflowS, loS]
    rw [Int.emod_eq_of_lt (by omega) (by omega)]
    omega

end CohdlVerif.C19
