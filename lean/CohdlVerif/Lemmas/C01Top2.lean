import CohdlVerif.Lemmas.C01Top

/-! C01 - the exported code: transitions dropped (single state), targets of transitions -/
namespace CohdlVerif.C01

/-- remove all transitions -/
def dropT : Code → Code
  | .nil => .nil
  | .act a k => .act a (dropT k)
  | .trans _ k => dropT k
  | .ite c t e k => .ite c (dropT t) (dropT e) (dropT k)

/-- all transition targets -/
def tgts : Code → List Nat
  | .nil => []
  | .act _ k => tgts k
  | .trans t k => t :: tgts k
  | .ite _ t e k => tgts t ++ tgts e ++ tgts k

theorem tgts_frontCode (fr : List Nat) (k : Code) : tgts (frontCode true fr k) = fr ++ tgts k := by
  induction fr with
  | nil => rfl
  | cons t r ih => simp [frontCode, tgts, ih]

theorem dropT_frontCode (fr : List Nat) (k : Code) : dropT (frontCode true fr k) = dropT k := by
  induction fr with
  | nil => rfl
  | cons t r ih => simp [frontCode, dropT, ih]

theorem frontCode_false (fr : List Nat) (k : Code) : frontCode false fr k = k := by
  induction fr with
  | nil => rfl
  | cons t r ih => simp [frontCode, ih]

/-- targets of exported code come from front lists -/
def TgtOk (H : Nat → Blk) (d : Nat → Code → Option Code) : Prop :=
  ∀ b k c, d b k = some c → ∀ t ∈ tgts c, t ∈ tgts k ∨ ∃ b', t ∈ (H b').front

theorem flatItems_tgts (H : Nat → Blk) (d : Nat → Code → Option Code) (hd : TgtOk H d) (items : List Item) :
    ∀ k c, flatItems d items k = some c → ∀ t ∈ tgts c, t ∈ tgts k ∨ ∃ b', t ∈ (H b').front := by
  induction items with
  | nil => intro k c h t ht; simp [flatItems] at h; subst h; exact Or.inl ht
  | cons x xs ih =>
    intro k c h t ht
    cases x with
    | act a =>
      simp only [flatItems, Option.map_eq_some_iff] at h
      obtain ⟨c', h', rfl⟩ := h
      exact ih _ _ h' t (by simpa [tgts] using ht)
    | nop => simp only [flatItems] at h; exact ih _ _ h t ht
    | ite cc tb eb =>
      simp only [flatItems] at h
      split at h
      · rename_i ct ce cr h1 h2 h3
        simp only [Option.some.injEq] at h; subst h
        simp only [tgts, List.mem_append] at ht
        rcases ht with (ht | ht) | ht
        · rcases hd _ _ _ h1 t ht with h | h
          · simp [tgts] at h
          · exact Or.inr h
        · rcases hd _ _ _ h2 t ht with h | h
          · simp [tgts] at h
          · exact Or.inr h
        · exact ih _ _ h3 t ht
      · simp at h
    | sub b =>
      simp only [flatItems, Option.bind_eq_some_iff] at h
      obtain ⟨cr, hr, hb⟩ := h
      rcases hd _ _ _ hb t ht with h | h
      · exact ih _ _ hr t h
      · exact Or.inr h

theorem flatB_tgts (H : Nat → Blk) : ∀ f, TgtOk H (flatB true H f) := by
  intro f
  induction f with
  | zero => intro b k c h; simp [flatB] at h
  | succ f ih =>
    intro b k c h t ht
    simp only [flatB, Option.map_eq_some_iff] at h
    obtain ⟨ci, hci, rfl⟩ := h
    rw [tgts_frontCode, List.mem_append] at ht
    rcases ht with ht | ht
    · exact Or.inr ⟨b, ht⟩
    · exact flatItems_tgts H _ ih _ _ _ hci t ht

theorem flatItems_dropT (d d' : Nat → Code → Option Code)
    (hd : ∀ b k c, d b k = some c → d' b (dropT k) = some (dropT c)) (items : List Item) :
    ∀ k c, flatItems d items k = some c → flatItems d' items (dropT k) = some (dropT c) := by
  induction items with
  | nil => intro k c h; simp [flatItems] at h ⊢; rw [h]
  | cons x xs ih =>
    intro k c h
    cases x with
    | act a =>
      simp only [flatItems, Option.map_eq_some_iff] at h ⊢
      obtain ⟨c', h', rfl⟩ := h
      exact ⟨dropT c', ih _ _ h', rfl⟩
    | nop => simp only [flatItems] at h ⊢; exact ih _ _ h
    | ite cc tb eb =>
      simp only [flatItems] at h ⊢
      split at h
      · rename_i ct ce cr h1 h2 h3
        simp only [Option.some.injEq] at h; subst h
        have a := hd _ _ _ h1
        have b := hd _ _ _ h2
        simp only [dropT] at a b
        rw [a, b, ih _ _ h3]; rfl
      · simp at h
    | sub b =>
      simp only [flatItems, Option.bind_eq_some_iff] at h ⊢
      obtain ⟨cr, hr, hb⟩ := h
      exact ⟨dropT cr, ih _ _ hr, hd _ _ _ hb⟩

theorem flatB_dropT (H H' : Nat → Blk) (hH : ∀ x, (H' x).items = (H x).items) : ∀ f b k c,
    flatB true H f b k = some c → flatB false H' f b (dropT k) = some (dropT c) := by
  intro f
  induction f with
  | zero => intro b k c h; simp [flatB] at h
  | succ f ih =>
    intro b k c h
    simp only [flatB, Option.map_eq_some_iff] at h ⊢
    obtain ⟨ci, hci, rfl⟩ := h
    refine ⟨dropT ci, ?_, ?_⟩
    · rw [hH]; exact flatItems_dropT _ _ ih _ _ _ hci
    · rw [frontCode_false, dropT_frontCode]

theorem flatItems_isSome_congr (d d' : Nat → Code → Option Code)
    (hd : ∀ b k k', (d b k).isSome → (d' b k').isSome) (items : List Item) :
    ∀ k k', (flatItems d items k).isSome → (flatItems d' items k').isSome := by
  induction items with
  | nil => intro k k' _; simp [flatItems]
  | cons x xs ih =>
    intro k k' hc
    cases x with
    | act a => simp only [flatItems, Option.isSome_map] at hc ⊢; exact ih _ _ hc
    | nop => simp only [flatItems] at hc ⊢; exact ih _ _ hc
    | ite cc t e =>
      simp only [flatItems] at hc ⊢
      split at hc
      · rename_i ct ce cr ht he hr
        obtain ⟨c1, h1⟩ := Option.isSome_iff_exists.mp (hd t .nil .nil (by simp [ht]))
        obtain ⟨c2, h2⟩ := Option.isSome_iff_exists.mp (hd e .nil .nil (by simp [he]))
        obtain ⟨c3, h3⟩ := Option.isSome_iff_exists.mp (ih k k' (by simp [hr]))
        simp [h1, h2, h3]
      · simp at hc
    | sub b =>
      simp only [flatItems] at hc ⊢
      obtain ⟨c, hc'⟩ := Option.isSome_iff_exists.mp hc
      simp only [Option.bind_eq_some_iff] at hc'
      obtain ⟨cr, hr, hb⟩ := hc'
      obtain ⟨c3, h3⟩ := Option.isSome_iff_exists.mp (ih k k' (by simp [hr]))
      obtain ⟨c4, h4⟩ := Option.isSome_iff_exists.mp (hd b cr c3 (by simp [hb]))
      simp [h3, h4]

theorem flatB_isSome_congr (k1 k2 : Bool) (H H' : Nat → Blk) (hH : ∀ x, (H' x).items = (H x).items) :
    ∀ f b k k', (flatB k1 H f b k).isSome → (flatB k2 H' f b k').isSome := by
  intro f
  induction f with
  | zero => intro b k k' h; simp [flatB] at h
  | succ f ih =>
    intro b k k' h
    simp only [flatB, Option.isSome_map] at h ⊢
    rw [hH]
    exact flatItems_isSome_congr _ _ ih _ _ _ h

section
variable {σ : Type} (act : Nat → σ → σ) (cond : Nat → σ → Bool)

theorem exec_dropT (c : Code) : ∀ (s : σ) (p p' : Option Nat),
    exec act cond (dropT c) s p = ((exec act cond c s p').1, p) := by
  induction c with
  | nil => intro s p p'; rfl
  | act a k ih => intro s p p'; simp only [dropT, exec]; exact ih _ _ _
  | trans t k ih => intro s p p'; simp only [dropT, exec]; exact ih _ _ _
  | ite c t e k iht ihe ihk =>
    intro s p p'
    simp only [dropT, exec]
    cases cond c s
    · simp only [Bool.false_eq_true, if_false]
      rw [ihe s p p', ihk _ p (exec act cond e s p').2]
    · simp only [if_true]
      rw [iht s p p', ihk _ p (exec act cond t s p').2]

theorem exec_tgts (c : Code) : ∀ (s : σ) (p : Option Nat) (t : Nat),
    (exec act cond c s p).2 = some t → p = some t ∨ t ∈ tgts c := by
  induction c with
  | nil => intro s p t h; exact Or.inl h
  | act a k ih => intro s p t h; simp only [exec] at h; simpa [tgts] using ih _ _ _ h
  | trans t' k ih =>
    intro s p t h
    simp only [exec] at h
    rcases ih _ _ _ h with h1 | h1
    · right; simp only [Option.some.injEq] at h1; simp [tgts, h1]
    · right; simp [tgts, h1]
  | ite c t' e k iht ihe ihk =>
    intro s p t h
    simp only [exec] at h
    rcases ihk _ _ _ h with h1 | h1
    · cases hc : cond c s
      · simp only [hc, Bool.false_eq_true, if_false] at h1
        rcases ihe _ _ _ h1 with h2 | h2
        · exact Or.inl h2
        · right; simp [tgts, h2]
      · simp only [hc, if_true] at h1
        rcases iht _ _ _ h1 with h2 | h2
        · exact Or.inl h2
        · right; simp [tgts, h2]
    · right; simp [tgts, h1]

end
end CohdlVerif.C01
