import CohdlVerif.Lemmas.C19Arith

/-! C19 helper lemmas, part 3: division/modulo by powers of two, non-raising bit vector operations, the rounding increment -/

namespace CohdlVerif.C19

/-! ### integer division / modulo by products -/

theorem emod_mul_split (x k m : Int) (hk : 0 < k) (hm : 0 < m) :
    x % (k * m) = k * (x / k % m) + x % k := by
  have h1 := Int.mul_ediv_add_emod x k
  have h2 := Int.mul_ediv_add_emod (x / k) m
  have r0 := Int.emod_nonneg x (ne_of_gt hk)
  have r1 := Int.emod_lt_of_pos x hk
  have q0 := Int.emod_nonneg (x / k) (ne_of_gt hm)
  have q1 := Int.emod_lt_of_pos (x / k) hm
  have e : x = (k * (x / k % m) + x % k) + (k * m) * (x / k / m) := by
    have : k * (x / k) = k * (m * (x / k / m) + x / k % m) := by rw [h2]
    nlinarith
  have lt : k * (x / k % m) + x % k < k * m := by nlinarith
  have ge : 0 ≤ k * (x / k % m) + x % k := by nlinarith
  conv => lhs; rw [e]
  rw [Int.add_mul_emod_self_left]
  exact Int.emod_eq_of_lt ge lt

theorem emod_mul_ediv (x k m : Int) (hk : 0 < k) (hm : 0 < m) : x % (k * m) / k = x / k % m := by
  rw [emod_mul_split x k m hk hm, Int.add_comm, Int.add_mul_ediv_left _ _ (ne_of_gt hk)]
  rw [Int.ediv_eq_zero_of_lt (Int.emod_nonneg x (ne_of_gt hk)) (Int.emod_lt_of_pos x hk)]
  simp

theorem p2_split (a c : Int) (hc : 0 ≤ c) (hca : c ≤ a) : p2 a = p2 c * p2 (a - c) := by
  have := p2_add c (a - c) hc (by omega)
  rwa [show c + (a - c) = a by omega] at this

theorem emod_emod_p2 (x a c : Int) (hc : 0 ≤ c) (hca : c ≤ a) : x % p2 a % p2 c = x % p2 c := by
  rw [p2_split a c hc hca]
  exact Int.emod_emod_of_dvd x (Dvd.intro _ rfl)

theorem emod_ediv_p2 (x a c : Int) (hc : 0 ≤ c) (hca : c ≤ a) : x % p2 a / p2 c = x / p2 c % p2 (a - c) := by
  rw [p2_split a c hc hca]
  exact emod_mul_ediv x _ _ (p2_pos c) (p2_pos _)

theorem emod_split_p2 (x a c : Int) (hc : 0 ≤ c) (hca : c ≤ a) :
    x % p2 a = p2 c * (x / p2 c % p2 (a - c)) + x % p2 c := by
  rw [p2_split a c hc hca]
  exact emod_mul_split x _ _ (p2_pos c) (p2_pos _)

theorem p2_one : p2 1 = 2 := by simp [p2]

/-! ### bit vector operations that do not raise -/

theorem lsbRest_eq (w u rest n : Int) (hn : n = w - rest) (h1 : 1 ≤ n) (h2 : n ≤ w) :
    BV.lsbRest ⟨w, u⟩ rest = .ok ⟨n, u % p2 n⟩ := by
  subst hn; unfold BV.lsbRest BV.right; simp only; rw [if_pos ⟨h1, h2⟩]

theorem msbRest_eq (w u rest n : Int) (hn : n = w - rest) (h1 : 1 ≤ n) (h2 : n ≤ w) :
    BV.msbRest ⟨w, u⟩ rest = .ok ⟨n, u / p2 rest⟩ := by
  subst hn; unfold BV.msbRest BV.left; simp only; rw [if_pos ⟨h1, h2⟩]
  rw [show w - (w - rest) = rest by omega]

theorem left_eq (w u n s : Int) (hs : s = w - n) (h1 : 1 ≤ n) (h2 : n ≤ w) :
    BV.left ⟨w, u⟩ n = .ok ⟨n, u / p2 s⟩ := by
  subst hs; unfold BV.left; simp only; rw [if_pos ⟨h1, h2⟩]

theorem bit_eq (w u i : Int) (h1 : 0 ≤ i) (h2 : i < w) :
    BV.bit ⟨w, u⟩ i = .ok (u / p2 i % 2 == 1) := by
  unfold BV.bit; simp only; rw [if_pos ⟨h1, h2⟩]

theorem slice0_eq (w u hi : Int) (h1 : 0 ≤ hi) (h2 : hi + 1 ≤ w) :
    BV.slice0 ⟨w, u⟩ hi = .ok ⟨hi + 1, u % p2 (hi + 1)⟩ := by
  unfold BV.slice0; simp only; rw [if_pos ⟨h1, h2⟩]

/-- the rounding increment: 1 iff the dropped part is more than half, or exactly half and the kept part is odd -/
def roundInc (u c : Int) : Int :=
  if u % p2 c > p2 (c - 1) ∨ (u % p2 c = p2 (c - 1) ∧ u / p2 c % 2 = 1) then 1 else 0

theorem roundEven_eq (v c : Int) : roundEven v c = v / p2 c + roundInc v c := by
  unfold roundEven roundInc
  simp only
  split <;> simp

theorem roundInc_01 (u c : Int) : roundInc u c = 0 ∨ roundInc u c = 1 := by
  unfold roundInc; split <;> simp

theorem doRound_eq (w u c : Int) (hc1 : 1 ≤ c) (hcw : c < w) :
    doRound ⟨w, u⟩ c = .ok (roundInc u c) := by
  have hsplit := emod_split_p2 u c (c - 1) (by omega) (by omega)
  rw [show c - (c - 1) = 1 by omega, p2_one] at hsplit
  have hb0 := Int.emod_two_eq (u / p2 (c - 1))
  have hb1 := Int.emod_two_eq (u / p2 c)
  have hl0 := Int.emod_nonneg u (ne_of_gt (p2_pos (c - 1)))
  have hl1 := Int.emod_lt_of_pos u (p2_pos (c - 1))
  have hH := p2_pos (c - 1)
  unfold doRound roundInc
  by_cases h1 : c = 1
  · subst h1
    simp only [↓reduceIte, bind, Except.bind, pure, Except.pure]
    rw [bit_eq _ _ _ (by omega) (by omega)]
    simp only [show (1:Int) - 1 = 0 by omega, p2_zero, Int.ediv_one] at *
    have hl : u % 1 = 0 := Int.emod_one u
    by_cases hb : u % 2 = 1
    · simp only [hb, beq_self_eq_true, ↓reduceIte]
      rw [bit_eq _ _ _ (by omega) (by omega)]
      simp only
      by_cases hq : u / p2 1 % 2 = 1
      · simp only [hq, beq_self_eq_true, ↓reduceIte]
        rw [if_pos]; right; exact ⟨by omega, trivial⟩
      · have : (u / p2 1 % 2 == 1) = false := by simp [hq]
        simp only [this, Bool.false_eq_true, ↓reduceIte]
        rw [if_neg]; simp; omega
    · have : (u % 2 == 1) = false := by simp [hb]
      simp only [this, Bool.false_eq_true, ↓reduceIte]
      rw [if_neg]; simp; omega
  · simp only [h1, ↓reduceIte, bind, Except.bind, pure, Except.pure]
    rw [bit_eq _ _ _ (by omega) (by omega)]
    simp only
    by_cases hb : u / p2 (c - 1) % 2 = 1
    · simp only [hb, beq_self_eq_true, ↓reduceIte]
      rw [bit_eq _ _ _ (by omega) (by omega)]
      simp only
      by_cases hq : u / p2 c % 2 = 1
      · simp only [hq, beq_self_eq_true, ↓reduceIte]
        rw [if_pos]
        by_cases hlow : u % p2 (c - 1) = 0
        · right; exact ⟨by rw [hsplit, hb, hlow]; ring, trivial⟩
        · left; rw [hsplit, hb]; omega
      · have hq' : (u / p2 c % 2 == 1) = false := by simp [hq]
        simp only [hq']
        rw [slice0_eq _ _ _ (by omega) (by omega)]
        simp only [BV.any, show c - 2 + 1 = c - 1 by omega, Bool.false_eq_true, ↓reduceIte]
        by_cases hlow : u % p2 (c - 1) = 0
        · simp only [hlow, bne_self_eq_false, Bool.false_eq_true, ↓reduceIte]
          rw [if_neg]
          intro h
          rcases h with h | h
          · rw [hsplit, hb, hlow] at h; omega
          · exact hq h.2
        · have : (u % p2 (c - 1) != 0) = true := by simp [hlow]
          simp only [this, ↓reduceIte]
          rw [if_pos]; left; rw [hsplit, hb]; omega
    · have hb' : (u / p2 (c - 1) % 2 == 1) = false := by simp [hb]
      simp only [hb', Bool.false_eq_true, ↓reduceIte]
      rw [if_neg]
      intro h
      have hz : u / p2 (c - 1) % 2 = 0 := by omega
      rw [hsplit, hz] at h
      rcases h with h | h <;> omega

end CohdlVerif.C19
