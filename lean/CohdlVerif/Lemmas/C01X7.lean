import CohdlVerif.Lemmas.C01X6

/-! C01 - correctness of the compiler mirror on fragment 2 (fragment 1 + break + continue) -/
namespace CohdlVerif.C01

section
variable {σ : Type} (act : Nat → σ → σ) (cond : Nat → σ → Bool)

/-- several states: the exported machine is the machine on the final block heap -/
theorem correct_frag2_multi (p : Stmt) (hp : frag2 p false = true) (hrej : rejected p = false) (codes : List Code)
    (hall : ∀ b, b < (compileSt p).2.next →
      (flatB true ((compileSt p).2.addfrontAll (compileSt p).1 0).heap (compileSt p).2.next b .nil).isSome)
    (hm : (compileSt p).2.states.mapM
      (fun b => flatB true ((compileSt p).2.addfrontAll (compileSt p).1 0).heap (compileSt p).2.next b .nil) = some codes)
    (inp : Nat → σ → σ) (s0 : σ) (n : Nat) :
    ∃ f, ∀ f', f ≤ f' → (refTrace act cond f' p inp n (some (.start, s0))).map (·.2) =
      some (smTrace act cond ⟨codes⟩ inp n (0, s0)).2 := by
  obtain ⟨_, H1, H2, H3, H4, _, _, h0⟩ := final_ctx2 p hp
  have hallOK : ∀ b, (flatB true ((compileSt p).2.addfrontAll (compileSt p).1 0).heap (compileSt p).2.next b .nil).isSome := by
    intro b
    by_cases hb : b < (compileSt p).2.next
    · exact hall b hb
    · rw [flatB_empty true _ _ b h0 (H4 b (by omega))]; rfl
  have hE := heap_fix act cond _ _ hallOK
  have hsim := start_sim2 act cond p hp hrej _ _ hE H1 H2 H3
  obtain ⟨f, r, h1, _⟩ := trace_of_simAll act cond p _ _ inp s0 hsim n
  refine ⟨f, fun f' hf' => ?_⟩
  rw [h1 f' hf', traces_multi act cond ⟨codes⟩ _ _ (smStep_eq_mStep act cond _ _ _ codes hm) inp n]
  rfl

/-- a single state: the exported code has its transitions removed -/
theorem correct_frag2_single (p : Stmt) (hp : frag2 p false = true) (hrej : rejected p = false) (hlen : (compileSt p).2.states.length = 1)
    (codes : List Code)
    (hall : ∀ b, b < (compileSt p).2.next → (flatB false (compileSt p).2.heap (compileSt p).2.next b .nil).isSome)
    (hm : (compileSt p).2.states.mapM (fun b => flatB false (compileSt p).2.heap (compileSt p).2.next b .nil) = some codes)
    (inp : Nat → σ → σ) (s0 : σ) (n : Nat) :
    ∃ f, ∀ f', f ≤ f' → (refTrace act cond f' p inp n (some (.start, s0))).map (·.2) =
      some (smTrace act cond ⟨codes⟩ inp n (0, s0)).2 := by
  obtain ⟨_, H1, H2, H3, H4, htok, hsi, h0⟩ := final_ctx2 p hp
  have hst : (compileSt p).2.states = [0] := by
    obtain ⟨tl, htl⟩ := hsi.states0
    rw [htl] at hlen ⊢
    cases tl with
    | nil => rfl
    | cons a as => simp at hlen
  have hallOK : ∀ b, (flatB true ((compileSt p).2.addfrontAll (compileSt p).1 0).heap (compileSt p).2.next b .nil).isSome := by
    intro b
    by_cases hb : b < (compileSt p).2.next
    · exact flatB_isSome_congr false true _ _ H1 _ b .nil .nil (hall b hb)
    · rw [flatB_empty true _ _ b h0 (H4 b (by omega))]; rfl
  have hE := heap_fix act cond _ _ hallOK
  have hsim := start_sim2 act cond p hp hrej _ _ hE H1 H2 H3
  obtain ⟨f, r, h1, _⟩ := trace_of_simAll act cond p _ _ inp s0 hsim n
  -- the code of state 0, with and without transitions
  obtain ⟨c0', hc0'⟩ := Option.isSome_iff_exists.mp (hallOK 0)
  have hc0 : flatB false (compileSt p).2.heap (compileSt p).2.next 0 .nil = some (dropT c0') :=
    flatB_dropT _ (compileSt p).2.heap (fun x => (H1 x).symm) _ 0 .nil c0' hc0'
  rw [hst] at hm
  simp only [List.mapM_cons, List.mapM_nil, hc0, Option.pure_def, Option.bind_eq_bind, Option.bind_some,
    Option.some.injEq] at hm
  subst hm
  have hstep : ∀ s, smStep act cond ⟨[dropT c0']⟩ 0 s =
      mStep (Eof act cond (flatB true ((compileSt p).2.addfrontAll (compileSt p).1 0).heap (compileSt p).2.next))
        (compileSt p).2.states 0 s ∧
      (mStep (Eof act cond (flatB true ((compileSt p).2.addfrontAll (compileSt p).1 0).heap (compileSt p).2.next))
        (compileSt p).2.states 0 s).1 = 0 := by
    intro s
    have hm0 : mStep (Eof act cond (flatB true ((compileSt p).2.addfrontAll (compileSt p).1 0).heap (compileSt p).2.next))
        (compileSt p).2.states 0 s = ((exec act cond c0' s none).2.getD 0, (exec act cond c0' s none).1) := by
      rw [mStep_some _ _ 0 0 (by rw [hst]; rfl)]
      simp only [Eof, hc0']
    have hp0 : (exec act cond c0' s none).2.getD 0 = 0 := by
      cases hq : (exec act cond c0' s none).2 with
      | none => rfl
      | some t =>
        rcases exec_tgts act cond c0' s none t hq with h | h
        · cases h
        · rcases flatB_tgts _ _ _ _ _ hc0' t h with h | ⟨b', h⟩
          · simp [tgts] at h
          · have := htok.2 b' t h
            rw [CSt.addfrontAll_states, hlen] at this
            simp only [Option.getD_some]; omega
    rw [hm0, hp0]
    refine ⟨?_, rfl⟩
    simp only [smStep, List.getD_cons_zero]
    rw [exec_dropT act cond c0' s none none]
    rfl
  refine ⟨f, fun f' hf' => ?_⟩
  rw [h1 f' hf', (traces_single act cond _ _ _ hstep inp s0 n).1]
  rfl

/-- fragment 2 (fragment 1 + break + continue): whenever the mirror
    produces a machine, its data trace equals the reference trace of the coroutine body (for every sufficiently
    large fuel of the reference interpreter) -/
theorem compile_correct_frag2 (p : Stmt) (hp : frag2 p false = true) (sm : SM) (h : compileSM p = some sm)
    (inp : Nat → σ → σ) (s0 : σ) (n : Nat) :
    ∃ f, ∀ f', f ≤ f' → (refTrace act cond f' p inp n (some (.start, s0))).map (·.2) =
      some (smTrace act cond sm inp n (0, s0)).2 := by
  have hboth : rejected p = false ∧ finish (compileSt p).1 (compileSt p).2 = some sm := by
    simp only [compileSM] at h
    split at h
    · cases h
    · rename_i hr
      exact ⟨by simpa using hr, h⟩
  obtain ⟨hrej, hfin⟩ := hboth
  obtain ⟨hall, codes, hm, rfl⟩ := finish_some _ _ _ hfin
  cases hk : ((compileSt p).2.states.length != 1) with
  | true =>
    simp only [hk, if_true, addfrontAll_next, CSt.addfrontAll_states] at hall hm
    exact correct_frag2_multi act cond p hp hrej codes hall hm inp s0 n
  | false =>
    simp only [hk, Bool.false_eq_true, if_false] at hall hm
    have hlen : (compileSt p).2.states.length = 1 := by simpa using hk
    exact correct_frag2_single act cond p hp hrej hlen codes hall hm inp s0 n

end
end CohdlVerif.C01
