import CohdlVerif.Model.C13Views
/-! C13 part B - helper lemmas: writes through index lists, the ref-spec invariant of derived views -/
namespace CohdlVerif.C13

theorem write_length {α : Type} : ∀ (cs : List Nat) (s vals : List α), (write s cs vals).length = s.length := by
  intro cs
  induction cs with
  | nil => intro s vals; simp [write]
  | cons c cs ih =>
    intro s vals
    cases vals with
    | nil => simp [write]
    | cons x xs => simp [write, ih]

theorem write_get_not_mem {α : Type} : ∀ (cs : List Nat) (s vals : List α) (i : Nat), i ∉ cs →
    (write s cs vals)[i]? = s[i]? := by
  intro cs
  induction cs with
  | nil => intro s vals i _; simp [write]
  | cons c cs ih =>
    intro s vals i hi
    cases vals with
    | nil => simp [write]
    | cons x xs =>
      simp only [List.mem_cons, not_or] at hi
      simp only [write]
      rw [ih _ _ _ hi.2, List.getElem?_set_ne (Ne.symm hi.1)]

theorem write_get_mem {α : Type} : ∀ (cs : List Nat) (s vals : List α), cs.Nodup → cs.length = vals.length →
    (∀ c ∈ cs, c < s.length) → ∀ j (hj : j < cs.length), (write s cs vals)[cs[j]]? = vals[j]? := by
  intro cs
  induction cs with
  | nil => intro s vals _ _ _ j hj; simp at hj
  | cons c cs ih =>
    intro s vals hnd hlen hlt j hj
    cases vals with
    | nil => simp at hlen
    | cons x xs =>
      simp only [List.nodup_cons] at hnd
      simp only [write]
      cases j with
      | zero =>
        simp only [List.getElem_cons_zero, List.getElem?_cons_zero]
        rw [write_get_not_mem _ _ _ _ hnd.1]
        exact List.getElem?_set_self (hlt c (by simp))
      | succ j =>
        simp only [List.getElem_cons_succ, List.getElem?_cons_succ]
        apply ih _ _ hnd.2 (by simpa using hlen)
        intro c' hc'
        simp only [List.length_set]
        exact hlt c' (by simp [hc'])

/-- the invariant of every view derived from a root of width `W`: its cells are exactly the contiguous range
    its (simplified) last ref-spec denotes, inside the root, and Bit views are exactly the `Offset` ones -/
def RefOK (W : Nat) (v : View) : Prop :=
  match v.ref.getLast? with
  | none => v.cells = List.range' 0 W ∧ v.vt ≠ .bit
  | some (.offset o b) => v.cells = [o + b.sum] ∧ o + b.sum < W ∧ v.vt = .bit
  | some (.slice s t b) => v.cells = List.range' (t + b.sum) (s + 1 - t) ∧ s + b.sum < W ∧ t ≤ s ∧ v.vt ≠ .bit

theorem rootView_ok (id : Nat) (q : Qual) (vt : VT) (W : Nat) (h : vt ≠ .bit) : RefOK W (rootView id q vt W) := by
  simp [RefOK, rootView, h]

theorem resolve_of_ok (W : Nat) (v : View) (h : RefOK W v) : resolve W v = v.cells := by
  unfold RefOK at h
  unfold resolve
  split at h
  · next heq => simp [heq, h.1]
  · next o b heq => simp [heq, Ref.simplify, h.1]
  · next s t b heq =>
    simp only [heq, Ref.simplify, List.sum_nil, Nat.add_zero, h.1]
    congr 1
    omega

theorem drop_take_range' (a n l m : Nat) (h : l + m ≤ n) :
    ((List.range' a n).drop l).take m = List.range' (a + l) m := by
  rw [List.drop_range']
  simp only [Nat.mul_one]
  exact List.take_range'_of_length_ge (by omega)

/-- vector views (no Bit) have a `Slice` or empty ref-spec, and their cells are a contiguous range -/
theorem vec_cells (W : Nat) (v : View) (h : RefOK W v) (hv : v.vt ≠ .bit) :
    ∃ a n base prev, v.cells = List.range' a n ∧ a + n ≤ W ∧ splitRef v.ref = (prev, base) ∧ a = base.sum := by
  unfold RefOK at h
  split at h
  · next heq => exact ⟨0, W, [], v.ref, h.1, by omega, by simp [splitRef, heq], by simp⟩
  · next o b heq => exact absurd h.2.2 hv
  · next s t b heq =>
    refine ⟨t + b.sum, s + 1 - t, b ++ [t], v.ref.dropLast, h.1, by omega, by simp [splitRef, heq], ?_⟩
    simp [List.sum_append]; omega

theorem applyOp_ok (W : Nat) (v v' : View) (op : Op) (h : RefOK W v) (ha : applyOp v op = some v') : RefOK W v' := by
  cases op with
  | slice hi lo =>
    simp only [applyOp] at ha
    split at ha
    · simp at ha
    · next hc =>
      simp only [not_or, Nat.not_lt, Nat.not_le] at hc
      obtain ⟨a, n, base, prev, hcells, hbound, hsplit, hsum⟩ := vec_cells W v h hc.1
      simp only [hsplit, Option.some.injEq] at ha
      subst ha
      have hlen : hi < n := by simpa [hcells] using hc.2.2
      simp only [RefOK, List.getLast?_concat]
      refine ⟨?_, by omega, hc.2.1, by simp⟩
      rw [hcells, drop_take_range' a n lo (hi + 1 - lo) (by omega), hsum, Nat.add_comm]
  | index i =>
    simp only [applyOp] at ha
    split at ha
    · simp at ha
    · next hc =>
      simp only [not_or, Nat.not_le] at hc
      obtain ⟨a, n, base, prev, hcells, hbound, hsplit, hsum⟩ := vec_cells W v h hc.1
      simp only [hsplit, Option.some.injEq] at ha
      subst ha
      have hlen : i < n := by simpa [hcells] using hc.2
      simp only [RefOK, List.getLast?_concat]
      refine ⟨?_, by omega, trivial⟩
      rw [hcells, drop_take_range' a n i 1 (by omega), hsum, Nat.add_comm]; rfl
  | iter i =>
    simp only [applyOp] at ha
    split at ha
    · simp at ha
    · next hc =>
      simp only [not_or, Nat.not_le] at hc
      obtain ⟨a, n, base, prev, hcells, hbound, hsplit, hsum⟩ := vec_cells W v h hc.1
      simp only [hsplit, Option.some.injEq] at ha
      subst ha
      have hlen : i < n := by simpa [hcells] using hc.2
      simp only [RefOK, List.getLast?_concat]
      refine ⟨?_, by omega, trivial⟩
      rw [hcells, drop_take_range' a n i 1 (by omega), hsum, Nat.add_comm]; rfl
  | unsigned =>
    simp only [applyOp] at ha
    split at ha
    · simp at ha
    · next hc =>
      simp only [Option.some.injEq] at ha; subst ha
      unfold RefOK at h ⊢
      split at h <;> simp_all
  | signed =>
    simp only [applyOp] at ha
    split at ha
    · simp at ha
    · next hc =>
      simp only [Option.some.injEq] at ha; subst ha
      unfold RefOK at h ⊢
      split at h <;> simp_all
  | bitvector =>
    simp only [applyOp] at ha
    split at ha
    · simp at ha
    · next hc =>
      simp only [Option.some.injEq] at ha; subst ha
      unfold RefOK at h ⊢
      split at h <;> simp_all

theorem applyOps_ok (W : Nat) : ∀ (ops : List Op) (v v' : View), RefOK W v → applyOps v ops = some v' → RefOK W v' := by
  intro ops
  induction ops with
  | nil => intro v v' h ha; simp [applyOps] at ha; subst ha; exact h
  | cons op ops ih =>
    intro v v' h ha
    simp only [applyOps] at ha
    split at ha
    · simp at ha
    · next v1 h1 => exact ih v1 v' (applyOp_ok W v v1 op h h1) ha

theorem applyOp_root_qual (v v' : View) (op : Op) (ha : applyOp v op = some v') : v'.root = v.root ∧ v'.qual = v.qual := by
  cases op <;> simp only [applyOp] at ha <;> split at ha <;> simp at ha <;> subst ha <;> simp

theorem applyOps_root_qual : ∀ (ops : List Op) (v v' : View), applyOps v ops = some v' → v'.root = v.root ∧ v'.qual = v.qual := by
  intro ops
  induction ops with
  | nil => intro v v' ha; simp [applyOps] at ha; subst ha; simp
  | cons op ops ih =>
    intro v v' ha
    simp only [applyOps] at ha
    split at ha
    · simp at ha
    · next v1 h1 =>
      have := ih v1 v' ha
      have := applyOp_root_qual v v1 op h1
      simp_all

theorem cells_of_ok (W : Nat) (v : View) (h : RefOK W v) : v.cells.Nodup ∧ ∀ c ∈ v.cells, c < W := by
  unfold RefOK at h
  split at h
  · rw [h.1]; exact ⟨List.nodup_range' 1, by intro c hc; simp [List.mem_range'_1] at hc; omega⟩
  · rw [h.1]; exact ⟨by simp, by intro c hc; simp at hc; omega⟩
  · rw [h.1]; exact ⟨List.nodup_range' 1, by intro c hc; simp [List.mem_range'_1] at hc; omega⟩

theorem applyOps_append (v : View) (ops1 ops2 : List Op) :
    applyOps v (ops1 ++ ops2) = (applyOps v ops1).bind (fun u => applyOps u ops2) := by
  induction ops1 generalizing v with
  | nil => simp [applyOps]
  | cons op ops ih =>
    simp only [List.cons_append, applyOps]
    split <;> simp [ih]

/-- a slice of a slice is the single slice with the offsets added (cells, kind, root, qualifier) -/
theorem slice_slice (u v : View) (h1 l1 h2 l2 : Nat)
   (hv : (match applyOp u (.slice h1 l1) with | none => none | some v' => applyOps v' [.slice h2 l2]) = some v) :
   ∃ v', applyOp u (.slice (h2 + l1) (l2 + l1)) = some v' ∧ v'.cells = v.cells ∧ v'.vt = v.vt ∧ v'.root = v.root ∧ v'.qual = v.qual := by
  simp only [applyOp] at hv
  split at hv
  · simp at hv
  · next v1 hv1 =>
    split at hv1
    · simp at hv1
    · next hc1 =>
      simp only [Option.some.injEq] at hv1
      subst hv1
      simp only [applyOps, applyOp] at hv
      split at hv
      · simp at hv
      · next v2 hv2 =>
        split at hv2
        · simp at hv2
        · next hc2 =>
          simp only [Option.some.injEq] at hv2 hv
          subst hv2; subst hv
          simp only [not_or, Nat.not_lt, Nat.not_le, List.length_take, List.length_drop] at hc1 hc2
          have h3 : ¬(h2 + l1 < l2 + l1) := by omega
          have h4 : ¬(u.cells.length ≤ h2 + l1) := by omega
          simp only [applyOp, hc1.1, h3, h4, false_or, if_false]
          refine ⟨_, rfl, ?_, rfl, rfl, rfl⟩
          simp only [List.drop_take, List.take_take, List.drop_drop]
          rw [Nat.add_comm l1 l2]
          congr 1
          omega

end CohdlVerif.C13
