import CohdlVerif.Lemmas.C01W6

/-! C01 - general grammar: `While`, the final heap seen from the end of the body -/
namespace CohdlVerif.C01

/-- open blocks after the loop are new blocks of the `continue` loop, the exit block, or `break` blocks -/
theorem wOk_not (cc : Option Nat) (b : Stmt) (O : List Nat) (s : CSt) (Pc : WPieces cc b O s) (hn5 : (wS4 b O s).next ≤ (wCl cc b O s).2.next)
    (y : Nat) (hy : y ∈ wOk cc b O s) (hlt : y < (wS4 b O s).next) : y ∈ (wS3 b O s).brk := by
  rcases wOk_cases cc b O s y hy with h | h | h
  · omega
  · have := (Pc.cl_new y h).1; omega
  · exact h

theorem fut_body (cc : Option Nat) (b k : Stmt) (O : List Nat) (s : CSt) (Hf : Nat → Blk) (Rf : Nat → Nat) (Sf : List Nat)
    (P' : Nat → Prop) (X : WCtx cc b O s) (Z : WEnd cc b k O s Hf P') (Pc : WPieces cc b O s) (hi : Inv s O)
    (hF : Fut Hf Rf Sf (compile k (wOk cc b O s) (wSX cc b O s)).2 P') :
    Fut Hf Rf Sf (wR b O s).2 (fun y => y ∈ Outs (wS1c O s) (wR b O s).1 (wR b O s).2 ∨ y < wBody O s) ∧
    (∀ y, y < (wS4 b O s).next → Rf y = (wS4 b O s).root y) ∧
    (∀ y, y < (wS4 b O s).next → y ≠ wHb O s → y ∉ (wS3 b O s).cont → (wSX cc b O s).heap y = (wS4 b O s).heap y) := by
  have hlw := X.W.hlt hi.hlt
  obtain ⟨XF, _, _, n1, _, fr1, _, _⟩ := wSX_facts cc b O s hlw X.A5
  have hn5 := Z.n5
  have hfr : ∀ y, y < (wS4 b O s).next → y ≠ wHb O s → y ∉ (wS3 b O s).cont →
      (wSX cc b O s).heap y = (wS4 b O s).heap y := by
    intro y hy hne hc
    rw [fr1 y hne (by omega), Pc.frame5 y hy hc]
  have hroot : ∀ y, y < (wS4 b O s).next → Rf y = (wS4 b O s).root y := by
    intro y hy
    rw [hF.root y (by have := Z.Tk.next_le; omega), Z.Tk.root_stable y (by omega), XF.root_stable y (by omega),
      X.CL.root_stable y hy]
  refine ⟨⟨?_, ?_, ?_, ?_⟩, hroot, hfr⟩
  · intro y hy
    have hy4 : y < (wS4 b O s).next := by rw [X.next4]; exact hy
    have e : ((wR b O s).2.heap y).items = ((wS4 b O s).heap y).items := by
      by_cases hm : y ∈ (wR b O s).1
      · rw [X.h3 y hm]
      · rw [X.h3' y hm]
    rw [e]
    exact ((X.CL.items_mono y hy4).trans (XF.items_mono y (by omega))).trans
      ((Z.Tk.items_mono y (by omega)).trans (hF.items y (by have := Z.Tk.next_le; omega)))
  · intro y hy hnp
    simp only [not_or, Nat.not_lt] at hnp
    have hy4 : y < (wS4 b O s).next := by rw [X.next4]; exact hy
    have hnob : y ∉ (wR b O s).1 := fun h => hnp.1 (mem_Outs.mpr (Or.inl h))
    have hnbr : y ∉ (wS3 b O s).brk := fun h => hnp.1 (mem_Outs.mpr (Or.inr (Or.inl (X.brk_eq ▸ h))))
    have hnco : y ∉ (wS3 b O s).cont := fun h => hnp.1 (mem_Outs.mpr (Or.inr (Or.inr (Or.inl (X.cont_eq ▸ h)))))
    have hnre : y ∉ dR s (wS4 b O s) := fun h => hnp.1 (mem_Outs.mpr (Or.inr (Or.inr (Or.inr (X.ret_eq ▸ h)))))
    have hne : y ≠ wHb O s := by have := X.hbl; omega
    rw [Z.closed y (by omega) (Or.inr (by have := X.sbl; omega))
      (fun h => hnbr (wOk_not cc b O s Pc hn5 y h hy4)) hnre, hfr y hy4 hne hnco, X.h3' y hnob]
  · intro y hy
    rw [hroot y (by rw [X.next4]; exact hy), X.root4]
  · have h1 : (wR b O s).2.states = (wS4 b O s).states := (CSt.addfrontAll_states _ _ _).symm
    rw [h1]
    exact ((X.CL.states_mono.trans XF.states_mono).trans Z.Tk.states_mono).trans hF.states

end CohdlVerif.C01
