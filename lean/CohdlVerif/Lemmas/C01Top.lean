import CohdlVerif.Lemmas.C01Frag1i

/-! C01 - from the step-indexed simulation to traces -/
namespace CohdlVerif.C01

section
variable {σ : Type} (act : Nat → σ → σ) (cond : Nat → σ → Bool)
variable (prog : Stmt) (E : Nat → σ → σ × Option Nat) (Sf : List Nat)

theorem refStep_mono_le (f f' : Nat) (hle : f ≤ f') (r : Susp) (s : σ) (x : Susp × σ)
    (h : refStep act cond f prog r s = some x) : refStep act cond f' prog r s = some x := by
  cases r with
  | start => exact run_mono_le act cond f f' hle _ _ _ _ _ h
  | atAwait c k st =>
    simp only [refStep] at h ⊢
    split
    · rename_i hc; rw [if_pos hc] at h; exact run_mono_le act cond f f' hle _ _ _ _ _ h
    · rename_i hc; rw [if_neg hc] at h; exact h
  | atHead c b k st =>
    simp only [refStep] at h ⊢
    split
    · rename_i hc; rw [if_pos hc] at h; exact run_mono_le act cond f f' hle _ _ _ _ _ h
    · rename_i hc; rw [if_neg hc] at h; exact run_mono_le act cond f f' hle _ _ _ _ _ h
  | stopped => exact h

/-- simulation for every number of clocks -/
def SimAll (r : Susp) (i : Nat) : Prop := ∀ m, SimN act cond prog E Sf m r i

theorem SimAll.step {r : Susp} {i : Nat} (h : SimAll act cond prog E Sf r i) (s : σ) :
    ∃ f r', refStep act cond f prog r s = some (r', (mStep E Sf i s).2) ∧ SimAll act cond prog E Sf r' (mStep E Sf i s).1 := by
  obtain ⟨f, r', h1, _⟩ := h 1 s
  refine ⟨f, r', h1, ?_⟩
  intro m
  obtain ⟨f2, r2, h2, h3⟩ := h (m+1) s
  have a := refStep_mono_le act cond prog f (max f f2) (Nat.le_max_left _ _) r s _ h1
  have b := refStep_mono_le act cond prog f2 (max f f2) (Nat.le_max_right _ _) r s _ h2
  rw [a] at b
  have : r' = r2 := by injection b with b; exact (Prod.mk.inj b).1
  rw [this]; exact h3

/-- trace of the machine on the block heap -/
def mTrace (inp : Nat → σ → σ) : Nat → Nat × σ → Nat × σ
  | 0, x => x
  | n+1, x => let y := mTrace inp n x; mStep E Sf y.1 (inp n y.2)

theorem trace_of_simAll (inp : Nat → σ → σ) (s0 : σ) (h : SimAll act cond prog E Sf .start 0) :
    ∀ n, ∃ f r, (∀ f', f ≤ f' → refTrace act cond f' prog inp n (some (.start, s0)) =
        some (r, (mTrace E Sf inp n (0, s0)).2)) ∧ SimAll act cond prog E Sf r (mTrace E Sf inp n (0, s0)).1 := by
  intro n
  induction n with
  | zero => exact ⟨0, .start, fun _ _ => rfl, h⟩
  | succ n ih =>
    obtain ⟨f, r, h1, h2⟩ := ih
    obtain ⟨f2, r', h3, h4⟩ := h2.step act cond prog E Sf (inp n (mTrace E Sf inp n (0, s0)).2)
    refine ⟨max f f2, r', ?_, h4⟩
    intro f' hf'
    simp only [refTrace, mTrace]
    rw [h1 f' (by omega)]
    exact refStep_mono_le act cond prog f2 f' (by omega) _ _ _ h3

end

section
variable {σ : Type} (act : Nat → σ → σ) (cond : Nat → σ → Bool)

theorem Inv.init : Inv CSt.init [0] := by
  refine ⟨⟨by simp [CSt.init], by simp [CSt.init]⟩, fun _ => rfl, by simp, ?_⟩
  intro o ho; simp [CSt.init]

/-- the start of a fragment-1 program and state 0 of its final heap simulate each other -/
theorem start_sim (p : Stmt) (hp : frag1 p = true) (Hf : Nat → Blk) (E : Nat → σ → σ × Option Nat)
    (hE : ∀ b s, E b s = execB act cond E (Hf b) s)
    (H1 : ∀ x, (Hf x).items = ((compileSt p).2.heap x).items)
    (H2 : ∀ x, x ∉ (compileSt p).1 → Hf x = (compileSt p).2.heap x)
    (H3 : ∀ o ∈ (compileSt p).1, lastT (Hf o).front = some 0) :
    SimAll act cond p E (compileSt p).2.states .start 0 := by
  have T := frag1_step p hp [0] CSt.init Inv.init
  have hsi' := SInv.init.step T (by simp [CSt.init])
  have hF : Fut Hf (compileSt p).2.root (compileSt p).2.states (compileSt p).2 (fun y => y ∈ (compileSt p).1) :=
    ⟨fun x _ => by rw [H1]; exact List.prefix_refl _, fun x _ hx => H2 x hx, fun _ _ => rfl, List.prefix_refl _⟩
  have h0 : 0 < (compileSt p).2.next := by
    have := T.next_le
    have e : CSt.init.next = 1 := rfl
    rw [e] at this
    exact this
  obtain ⟨hc0, hS0⟩ := cur_zero Hf (compileSt p).2.root (compileSt p).2.states hsi' h0 hF
  intro m
  induction m with
  | zero => trivial
  | succ m ih =>
    have hs := sim1 act cond p Hf E (compileSt p).2.root (compileSt p).2.states hE p hp [] [0] CSt.init (m+1)
      (fun y => y ∈ (compileSt p).1) Inv.init SInv.init hF (fun y hy _ _ => hy)
      (by
        intro o' ho' suf hsuf s0
        rw [H1] at hsuf
        have : suf = [] := by
          have e : (compile p [0] CSt.init) = compileSt p := rfl
          rw [e] at hsuf
          simpa using hsuf.symm
        subst this
        right
        refine ⟨1, .start, by simp [run, tailF, execI], ?_⟩
        simp only [tailF, execI, H3 o' ho', por, Option.getD_some]
        exact ih)
      0 (by simp)
    intro s0
    have h1 := hs (Hf 0).items (by simp [CSt.init]) s0
    rw [← E_tailF act cond Hf E hE 0, hc0] at h1
    rcases h1 with h1 | ⟨f, r, h1, h2⟩
    · omega
    · rw [mStep_some E _ 0 0 hS0]
      have e : CSt.init.atStart = true := rfl
      rw [e] at h1
      exact ⟨f, r, by simpa [refStep] using h1, h2⟩

end
end CohdlVerif.C01
