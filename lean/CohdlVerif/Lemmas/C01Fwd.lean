import CohdlVerif.Lemmas.C01Frag1

/-! C01 - forward invariant of the open blocks (no duplicates, no front transition yet) -/
namespace CohdlVerif.C01

theorem nodup_insId (acc : List Nat) (x : Nat) (h : acc.Nodup) : (insId acc x).Nodup := by
  unfold insId
  split
  · exact h
  · rename_i hx
    rw [List.nodup_append]
    refine ⟨h, by simp, ?_⟩
    intro a ha b hb
    simp at hb; subst hb
    intro e; subst e
    exact hx (by simpa using ha)

theorem nodup_insIds (xs : List Nat) : ∀ (acc : List Nat), acc.Nodup → (insIds acc xs).Nodup := by
  induction xs with
  | nil => intro acc h; exact h
  | cons x xs ih => intro acc h; exact ih _ (nodup_insId acc x h)

theorem nodup_mergeAcc (acc : List Nat) (b tb eb : Nat) (ot oe : List Nat) (h : acc.Nodup) :
    (mergeAcc acc b tb eb ot oe).Nodup := by
  unfold mergeAcc
  split
  · exact nodup_insId _ _ h
  · split
    · exact nodup_insIds _ _ h
    · split
      · exact nodup_insIds _ _ (nodup_insId _ _ h)
      · split
        · exact nodup_insIds _ _ (nodup_insId _ _ h)
        · exact nodup_insIds _ _ h

/-- refined membership: a branch block is only kept when it is among the open blocks of its branch -/
theorem mem_mergeAcc' {acc : List Nat} {b tb eb : Nat} {ot oe : List Nat} {o : Nat}
    (h : o ∈ mergeAcc acc b tb eb ot oe) : o ∈ acc ∨ o = b ∨ o ∈ ot ∨ o ∈ oe := by
  unfold mergeAcc at h
  split at h
  · rcases (mem_insId _ _ _).mp h with h | h <;> simp [h]
  · split at h
    · rcases (mem_insIds _ _ _).mp h with h | h
      · simp [h]
      · rcases List.mem_append.mp h with h | h <;> simp [h]
    · split at h
      · rename_i hc
        have hn : NoTr tb ot := (anyTrans_false_iff _ _).mp (by simpa using hc)
        rcases (mem_insIds _ _ _).mp h with h | h
        · rcases (mem_insId _ _ _).mp h with h | h
          · simp [h]
          · subst h; exact Or.inr (Or.inr (Or.inl hn.mem))
        · simp [h]
      · split at h
        · rename_i hc
          have hn : NoTr eb oe := (anyTrans_false_iff _ _).mp (by simpa using hc)
          rcases (mem_insIds _ _ _).mp h with h | h
          · rcases (mem_insId _ _ _).mp h with h | h
            · simp [h]
            · subst h; exact Or.inr (Or.inr (Or.inr hn.mem))
          · simp [h]
        · rcases (mem_insIds _ _ _).mp h with h | h
          · simp [h]
          · rcases List.mem_append.mp h with h | h <;> simp [h]

/-- forward specification of a translation function used when the first state is no longer empty -/
def FSpec (f : List Nat → CSt → List Nat × CSt) : Prop :=
  ∀ O s, Hlt s O → s.atStart = false → O.Nodup → (∀ o ∈ O, (s.heap o).front = []) →
    (f O s).1.Nodup ∧ ∀ o' ∈ (f O s).1, ((f O s).2.heap o').front = []


/-- one iteration of the `If` loop keeps the accumulator duplicate free and without front transitions -/
theorem iteIter_fwd (c : Nat) (ft fe : List Nat → CSt → List Nat × CSt) (hft : BrSpec ft) (hfe : BrSpec fe)
    (fft : FSpec ft) (ffe : FSpec fe) (b : Nat) (bs : List Nat) (s : CSt) (acc : List Nat)
    (hb : b < s.next) (h0 : 0 < s.next) (hs : s.atStart = true → b = 0) (hbs : ∀ b' ∈ bs, b' < s.next) (hbn : b ∉ bs)
    (hbf : (s.heap b).front = []) (hacc : acc.Nodup)
    (hai : ∀ o ∈ acc, o < s.next ∧ o ≠ b ∧ o ∉ bs ∧ (s.heap o).front = []) :
    let s5 := (fe [s.next + 1] (ft [s.next] (itePre c b s)).2).2
    let acc1 := mergeAcc acc b s.next (s.next + 1) (ft [s.next] (itePre c b s)).1
      (fe [s.next + 1] (ft [s.next] (itePre c b s)).2).1
    acc1.Nodup ∧ ∀ o ∈ acc1, o < s5.next ∧ o ∉ bs ∧ (s5.heap o).front = [] := by
  intro s5 acc1
  have hlb : ∀ o ∈ [b], o < s.next := by simpa using hb
  have T1 := itePre_step c b s hb
  have hA3 := itePre_atStart c b s hb h0 hs
  have hl3 := T1.hlt ⟨hlb, h0⟩
  have hn3 : (itePre c b s).next = s.next + 2 := rfl
  have hlt3 : Hlt (itePre c b s) [s.next] := ⟨fun o ho => by simp at ho; subst ho; omega, hl3.2⟩
  have F := hft [s.next] (itePre c b s) hlt3 hA3
  obtain ⟨_, Ff⟩ := fft [s.next] (itePre c b s) hlt3 hA3 (by simp)
    (fun o ho => by simp at ho; subst ho; exact itePre_child_front c b s)
  have hA4 := F.atStart_false hl3.2 hA3
  have hn4 := F.next_le
  have hlt4 : Hlt (ft [s.next] (itePre c b s)).2 [s.next + 1] := ⟨fun o ho => by simp at ho; subst ho; omega, by omega⟩
  have hfe4 : ((ft [s.next] (itePre c b s)).2.heap (s.next + 1)).front = [] := by
    rw [F.frame (s.next + 1) (by omega) (by simp)]; exact itePre_child2_front c b s
  have G := hfe [s.next + 1] _ hlt4 hA4
  obtain ⟨_, Gf⟩ := ffe [s.next + 1] _ hlt4 hA4 (by simp) (fun o ho => by simp at ho; subst ho; exact hfe4)
  have hn5 := G.next_le
  have e5 : s5.next = (fe [s.next + 1] (ft [s.next] (itePre c b s)).2).2.next := rfl
  refine ⟨nodup_mergeAcc _ _ _ _ _ _ hacc, ?_⟩
  intro o ho
  rcases mem_mergeAcc' ho with h | h | h | h
  · obtain ⟨h1, h2, h3, h4⟩ := hai o h
    refine ⟨by omega, h3, ?_⟩
    show ((fe [s.next + 1] (ft [s.next] (itePre c b s)).2).2.heap o).front = []
    rw [G.frame o (by omega) (by simp; omega), F.frame o (by omega) (by simp; omega),
      T1.frame o h1 (by simpa using h2)]
    exact h4
  · subst h
    refine ⟨by omega, hbn, ?_⟩
    show ((fe [s.next + 1] (ft [s.next] (itePre c o s)).2).2.heap o).front = []
    rw [G.frame o (by omega) (by simp; omega), F.frame o (by omega) (by simp; omega), itePre_front_parent c o s hb]
    exact hbf
  · have hr := (F.open_r o h).1
    have ho4 : o < (ft [s.next] (itePre c b s)).2.next := by
      rcases hr with h' | h'
      · simp at h'; omega
      · exact h'.2
    have hge : s.next ≤ o := by
      rcases hr with h' | h'
      · simp at h'; omega
      · omega
    have hne : o ≠ s.next + 1 := by
      rcases hr with h' | h'
      · simp at h'; omega
      · omega
    refine ⟨by omega, fun hm => by have := hbs o hm; omega, ?_⟩
    show ((fe [s.next + 1] (ft [s.next] (itePre c b s)).2).2.heap o).front = []
    rw [G.frame o ho4 (by simpa using hne)]
    exact Ff o h
  · have hr := (G.open_r o h).1
    refine ⟨?_, ?_, Gf o h⟩
    · rcases hr with h' | h'
      · simp at h'; omega
      · exact h'.2
    · intro hm
      have := hbs o hm
      rcases hr with h' | h'
      · simp at h'; omega
      · omega


theorem iteLoop_fwd (c : Nat) (ft fe : List Nat → CSt → List Nat × CSt) (hft : BrSpec ft) (hfe : BrSpec fe)
    (fft : FSpec ft) (ffe : FSpec fe) :
    ∀ (bs : List Nat) (s : CSt) (acc : List Nat), Hlt s bs → (s.atStart = true → bs = [0]) → bs.Nodup →
      (∀ b ∈ bs, (s.heap b).front = []) → acc.Nodup →
      (∀ o ∈ acc, o < s.next ∧ o ∉ bs ∧ (s.heap o).front = []) →
      (iteLoop c ft fe bs s acc).1.Nodup ∧
      ∀ o ∈ (iteLoop c ft fe bs s acc).1, ((iteLoop c ft fe bs s acc).2.heap o).front = [] := by
  intro bs
  induction bs with
  | nil => intro s acc _ _ _ _ ha hi; exact ⟨ha, fun o ho => (hi o ho).2.2⟩
  | cons b bs ih =>
    intro s acc hl hs hnd hf ha hi
    rw [iteLoop_cons]
    have hb : b < s.next := hl.1 b (by simp)
    have hsb : s.atStart = true → b = 0 := fun h => by have := hs h; simp at this; exact this.1
    have hbn : b ∉ bs := (List.nodup_cons.mp hnd).1
    obtain ⟨T, hA⟩ := iteIter_step c ft fe hft hfe b s hb hl.2 hsb
    obtain ⟨hn1, hi1⟩ := iteIter_fwd c ft fe hft hfe fft ffe b bs s acc hb hl.2 hsb
      (fun b' hb' => hl.1 b' (by simp [hb'])) hbn (hf b (by simp)) ha
      (fun o ho => by
        obtain ⟨h1, h2, h3⟩ := hi o ho
        simp only [List.mem_cons, not_or] at h2
        exact ⟨h1, h2.1, h2.2, h3⟩)
    have hbs5 : ∀ b' ∈ bs, b' < (fe [s.next + 1] (ft [s.next] (itePre c b s)).2).2.next := by
      intro b' hb'; have := hl.1 b' (by simp [hb']); have := T.next_le; omega
    refine ih _ _ ⟨hbs5, by have := T.next_le; have := hl.2; omega⟩ (fun h => by rw [hA] at h; cases h)
      (List.nodup_cons.mp hnd).2 ?_ hn1 hi1
    intro b' hb'
    rw [T.frame b' (hl.1 b' (by simp [hb'])) (by simp; intro e; subst e; exact hbn hb')]
    exact hf b' (by simp [hb'])


theorem appendAll_front (it : Item) (x : Nat) : ∀ (bs : List Nat) (s : CSt),
    ((s.appendAll bs it).heap x).front = (s.heap x).front := by
  intro bs
  induction bs with
  | nil => intro s; rfl
  | cons b bs ih =>
    intro s
    simp only [CSt.appendAll, List.foldl_cons] at ih ⊢
    rw [ih, append_front]

/-- what `fwd1` states -/
def FwdPost (t : Stmt) : Prop :=
  ∀ (O : List Nat) (s : CSt), Inv s O →
    (compile t O s).1.Nodup ∧ ∀ o' ∈ (compile t O s).1, ((compile t O s).2.heap o').front = []

theorem FwdPost.fspec {t : Stmt} (h : FwdPost t) : FSpec (compile t) :=
  fun O s hl hA hn hf => h O s ⟨hl, fun h' => (by rw [hA] at h'; cases h'), hn, hf⟩

theorem frag1_br (t : Stmt) (h : frag1 t = true) : BrSpec (compile t) :=
  (compile_spec t false false (frag1_wf t h false)).br

theorem Inv.appendAll {s : CSt} {O : List Nat} (hi : Inv s O) (it : Item) : Inv (s.appendAll O it) O := by
  have hx := HeapExt.appendAll O it O s (fun _ h => h)
  refine ⟨⟨fun o ho => by rw [hx.next_eq]; exact hi.hlt.1 o ho, by rw [hx.next_eq]; exact hi.hlt.2⟩, ?_, hi.nodup, ?_⟩
  · intro h
    cases hst : s.atStart with
    | true => exact hi.start hst
    | false => rw [(hx.step hi.hlt.1).atStart_false hi.hlt.2 hst] at h; cases h
  · intro o ho; rw [appendAll_front]; exact hi.front o ho

theorem Inv.nil_atStart {s : CSt} (hi : Inv s []) : s.atStart = false := by
  cases h : s.atStart with
  | false => rfl
  | true => have := hi.start h; simp at this

/-- the open block after `enterState` -/
theorem Inv.enter {s : CSt} {O : List Nat} (hi : Inv s O) (hO : O ≠ []) :
    Inv (enterState O s).2.2 [(enterState O s).2.1] := by
  have T0 := enterState_step O s hi.hlt (fun h => by simp [hi.start h])
  have hl0 := T0.hlt hi.hlt
  cases hst : s.atStart with
  | true =>
    rw [enterState_start O s hst]
    have := hi.start hst; subst this
    exact hi
  | false =>
    refine Inv.single (hl0.1 _ (by simp)) hl0.2 (T0.atStart_false hi.hlt.2 hst) ?_
    rw [enterState_nostart O s hst]
    have hx := HeapExt.addfrontAll O s.states.length O
      { (s.newBlock none).2 with states := s.states ++ [s.next] } (fun _ h => h) (fun _ => by simp)
    have hne : s.next ∉ O := fun h => by have := hi.hlt.1 _ h; omega
    show ((CSt.addfrontAll _ O s.states.length).heap s.next).front = []
    rw [hx.frame s.next hne]
    simp [CSt.newBlock]

theorem fwd1 : ∀ (t : Stmt), frag1 t = true → FwdPost t := by
  intro t
  induction t with
  | skip => intro _ O s hi; exact ⟨hi.nodup, hi.front⟩
  | act a k ih => intro h O s hi; exact ih (by simpa [frag1] using h) O _ (hi.appendAll _)
  | await cc k ih =>
    intro h O s hi
    have hk : frag1 k = true := by simpa [frag1] using h
    by_cases hO : O = []
    · subst hO
      have e : compile (.await cc k) [] s = compile k [] s := by
        cases cc <;> simp [compile_await_none, compile_await_some]
      rw [e]; exact ih hk [] s hi
    · have hO' : O.isEmpty = false := by simpa using hO
      have hi0 := hi.enter hO
      cases cc with
      | none =>
        rw [compile_await_none]; simp only [hO', Bool.false_eq_true, if_false]
        exact ih hk _ _ hi0
      | some c' =>
        rw [compile_await_some]; simp only [hO', Bool.false_eq_true, if_false]
        have hnb := hi0.hlt.1 _ (List.mem_singleton.mpr rfl)
        have T1 := itePre_step c' _ _ hnb
        have hl1 := T1.hlt ⟨by simpa using hnb, hi0.hlt.2⟩
        exact ih hk _ _ (Inv.single (hl1.1 _ (by simp)) hl1.2
          (itePre_atStart c' _ _ hnb hi0.hlt.2 (fun h' => by simpa using hi0.start h')) (itePre_child_front c' _ _))
  | awaitF => intro _ O s _; simp only [compile]; split <;> simp
  | ite c t e k iht ihe ihk =>
    intro h O s hi
    simp only [frag1, Bool.and_eq_true] at h
    rw [compile_ite]; simp only [frag1_retAlways t h.1.1, Bool.false_and, Bool.false_eq_true, if_false]
    obtain ⟨T, hmem, hA⟩ := iteLoop_step c (compile t) (compile e) (frag1_br t h.1.1) (frag1_br e h.1.2) O s [] hi.hlt hi.start
    obtain ⟨hn, hf⟩ := iteLoop_fwd c (compile t) (compile e) (frag1_br t h.1.1) (frag1_br e h.1.2)
      (iht h.1.1).fspec (ihe h.1.2).fspec O s [] hi.hlt hi.start hi.nodup hi.front (by simp) (by simp)
    have TW : Step s O (iteLoop c (compile t) (compile e) O s []).2 (iteLoop c (compile t) (compile e) O s []).1 :=
      T.weaken (fun _ h => h) (fun o ho => (hmem o ho).resolve_left (by simp))
    refine ihk h.2 _ _ ⟨TW.hlt hi.hlt, ?_, hn, hf⟩
    intro h'
    by_cases hO : O = []
    · subst hO
      simp only [iteLoop] at h'
      rw [hi.nil_atStart] at h'; cases h'
    · rw [hA hO] at h'; cases h'
  | while_ cc b k _ ihk =>
    intro h O s hi
    simp only [frag1, Bool.and_eq_true] at h
    obtain ⟨W, hA⟩ := wS4_frag_step cc b h.1 O s hi.hlt hi.start
    have hlw := W.hlt hi.hlt
    cases cc with
    | none =>
      rw [compile_while_frag_none b k h.1]
      have X := (HeapExt.append (wS4 b O s) [wHb O s] (wHb O s) (by simp) (.sub (wBody O s))).step hlw.1
      refine ihk h.2 [] _ ⟨⟨by simp, (X.hlt hlw).2⟩, fun h' => ?_, by simp, by simp⟩
      rw [X.atStart_false hlw.2 hA] at h'; cases h'
    | some c' =>
      rw [compile_while_frag_some c' b k h.1]
      have N := Step.newBlock (wS4 b O s) [wHb O s] hlw.1 (some (wHb O s)) (by simp)
      have hln := N.hlt hlw
      have X := (HeapExt.append ((wS4 b O s).newBlock (some (wHb O s))).2 [(wS4 b O s).next, wHb O s] (wHb O s)
        (by simp) (.ite c' (wBody O s) (wS4 b O s).next)).step hln.1
      have hlx := X.hlt hln
      refine ihk h.2 _ _ (Inv.single (hlx.1 _ (by simp)) hlx.2 (X.atStart_false hln.2 (N.atStart_false hlw.2 hA)) ?_)
      have hne : (wS4 b O s).next ≠ wHb O s := by have := hlw.1 (wHb O s) (by simp); omega
      simp [CSt.append, CSt.newBlock, hne]
  | brk => intro h; simp [frag1] at h
  | cont => intro h; simp [frag1] at h
  | ret => intro h; simp [frag1] at h
  | call b k _ _ => intro h; simp [frag1] at h

end CohdlVerif.C01
