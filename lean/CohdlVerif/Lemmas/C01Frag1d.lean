import CohdlVerif.Lemmas.C01Frag1c

/-! C01 - fragment 1: states, `await false`, `await` -/
namespace CohdlVerif.C01

theorem prefix_getElem? {α : Type} {l L : List α} (h : l <+: L) (i : Nat) (hi : i < l.length) : L[i]? = l[i]? := by
  obtain ⟨t, rfl⟩ := h
  rw [List.getElem?_append_left hi]

theorem idxOf_append_new (l t : List Nat) (x : Nat) (hx : x ∉ l) : (l ++ x :: t).idxOf x = l.length := by
  rw [List.idxOf_append, if_neg hx, List.idxOf_cons_self]; omega

/-- the new state of a non-fresh `await` / `while` -/
theorem enter_nostart_facts {s : CSt} {O : List Nat} (hi : Inv s O) (hst : s.atStart = false) :
    (enterState O s).1 = s.states.length ∧ (enterState O s).2.1 = s.next ∧
    (enterState O s).2.2.next = s.next + 1 ∧ (enterState O s).2.2.heap s.next = {} ∧
    (enterState O s).2.2.root s.next = s.next ∧ (enterState O s).2.2.states = s.states ++ [s.next] ∧
    (∀ o ∈ O, (enterState O s).2.2.heap o = { s.heap o with front := [s.states.length] }) ∧
    (enterState O s).2.2.atStart = false := by
  have T0 := enterState_step O s hi.hlt (fun h => by rw [hst] at h; cases h)
  have hA := T0.atStart_false hi.hlt.2 hst
  rw [enterState_nostart O s hst] at hA ⊢
  have hx := HeapExt.addfrontAll O s.states.length O
    { (s.newBlock none).2 with states := s.states ++ [s.next] } (fun _ h => h) (fun _ => by simp)
  have hne : s.next ∉ O := fun h => by have := hi.hlt.1 _ h; omega
  refine ⟨rfl, rfl, ?_, ?_, ?_, ?_, ?_, hA⟩
  · rw [hx.next_eq]; rfl
  · show (CSt.addfrontAll _ O s.states.length).heap s.next = {}
    rw [hx.frame s.next hne]; simp [CSt.newBlock]
  · show (CSt.addfrontAll _ O s.states.length).root s.next = s.next
    rw [hx.root_eq]; simp [CSt.newBlock]
  · rw [hx.states_eq]
  · intro o ho
    have hno : o ≠ s.next := fun e => hne (e ▸ ho)
    show (CSt.addfrontAll _ O s.states.length).heap o = _
    rw [addfrontAll_heap_nodup _ o O _ hi.nodup ho]
    simp [CSt.newBlock, hno, hi.front o ho]

section
variable {σ : Type} (act : Nat → σ → σ) (cond : Nat → σ → Bool)
variable (prog : Stmt) (Hf : Nat → Blk) (E : Nat → σ → σ × Option Nat) (Rf : Nat → Nat) (Sf : List Nat)

theorem mStep_some (i r : Nat) (h : Sf[i]? = some r) (s0 : σ) :
    mStep E Sf i s0 = ((E r s0).2.getD i, (E r s0).1) := by
  simp [mStep, h]

theorem E_empty (hE : ∀ b s, E b s = execB act cond E (Hf b) s) (r : Nat) (h : Hf r = {}) (s0 : σ) :
    E r s0 = (s0, none) := by
  rw [hE, h]; rfl

/-- a state whose code is empty simulates the stopped coroutine -/
theorem SimN_stopped (i : Nat) (h : ∀ s0 : σ, mStep E Sf i s0 = (i, s0)) :
    ∀ m, SimN act cond prog E Sf m .stopped i := by
  intro m
  induction m with
  | zero => trivial
  | succ m ih =>
    intro s0
    refine ⟨1, .stopped, ?_, ?_⟩
    · rw [h]; rfl
    · rw [h]; exact ih

theorem atStart_heap0 {s : CSt} (h : s.atStart = true) : s.heap 0 = {} := by
  simp only [CSt.atStart, Bool.and_eq_true, List.isEmpty_iff] at h
  cases hb : s.heap 0 with
  | mk f i => rw [hb] at h; simp at h; simp [h.1, h.2]

/-- the state index of block 0 is 0 -/
theorem cur_zero {s : CSt} {P : Nat → Prop} (hsi : SInv s) (h0 : 0 < s.next) (hF : Fut Hf Rf Sf s P) :
    cur Rf Sf 0 = 0 ∧ Sf[0]? = some 0 := by
  obtain ⟨tl, htl⟩ := hsi.states0
  obtain ⟨t, ht⟩ := hF.states
  rw [htl] at ht
  constructor
  · rw [cur, hF.root 0 h0, hsi.root0, ← ht]; simp
  · rw [← ht]; simp

theorem sim_awaitF (hE : ∀ b s, E b s = execB act cond E (Hf b) s) : SimIH act cond prog Hf E Rf Sf .awaitF := by
  intro st O s m P' hi hsi hF hP' _ o ho
  have hO : O.isEmpty = false := by cases O <;> simp at ho ⊢
  have hc : compile .awaitF O s = ([], (enterState O s).2.2) := by simp [compile, hO]
  rw [hc] at hF hP'
  simp only at hF hP'
  have T0 := enterState_step O s hi.hlt (fun h => by simp [hi.start h])
  have hol : o < s.next := hi.hlt.1 o ho
  have hnP : ∀ y, y < (enterState O s).2.2.next → (y ∈ O ∨ s.next ≤ y) → ¬ P' y :=
    fun y hy hr hp => by simpa using hP' y hp hy hr
  intro suf hsuf s0
  by_cases hm : m = 0
  · exact Or.inl hm
  right
  refine ⟨1, .stopped, ?_⟩
  cases hst : s.atStart with
  | true =>
    have ho0 : o = 0 := by simpa [hi.start hst] using ho
    subst ho0
    rw [enterState_start O s hst] at hF hnP
    have hH0 : Hf 0 = {} := by rw [hF.closed 0 hol (hnP 0 hol (Or.inl ho)), atStart_heap0 hst]
    rw [hH0, atStart_heap0 hst] at hsuf
    have : suf = [] := by simpa using hsuf.symm
    subst this
    obtain ⟨hc0, hS0⟩ := cur_zero Hf Rf Sf hsi hol hF
    refine ⟨by simp [run, tailF, execI], ?_⟩
    simp only [tailF, execI, hH0, lastT, por, hc0, Option.getD_none]
    apply SimN_stopped
    intro s1
    rw [mStep_some E Sf 0 0 hS0, E_empty act cond Hf E hE 0 hH0]
    rfl
  | false =>
    obtain ⟨_, _, e3, e4, _, e6, e7, _⟩ := enter_nostart_facts hi hst
    have hHo : Hf o = { s.heap o with front := [s.states.length] } := by
      rw [hF.closed o (by omega) (hnP o (by omega) (Or.inl ho)), e7 o ho]
    rw [hHo] at hsuf
    have : suf = [] := by simpa using hsuf.symm
    subst this
    have hHn : Hf s.next = {} := by rw [hF.closed s.next (by omega) (hnP s.next (by omega) (Or.inr (Nat.le_refl _))), e4]
    have hS : Sf[s.states.length]? = some s.next := by
      rw [prefix_getElem? hF.states _ (by rw [e6]; simp), e6]; simp
    refine ⟨by simp [run, tailF, execI], ?_⟩
    simp only [tailF, execI, hHo, lastT, por, Option.getD_some]
    apply SimN_stopped
    intro s1
    rw [mStep_some E Sf _ _ hS, E_empty act cond Hf E hE _ hHn]
    rfl

end
end CohdlVerif.C01
