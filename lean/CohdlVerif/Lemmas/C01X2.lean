import CohdlVerif.Lemmas.C01X1

/-! C01 - general grammar: statements translated without transition (plain-statement lemma) -/
namespace CohdlVerif.C01

/-- the single iteration of the `If` loop on one open block -/
theorem compile_ite_singleG (c : Nat) (t1 e1 k : Stmt) (hr : (retAlways t1 && retAlways e1) = false) (x : Nat) (s : CSt) :
    compile (.ite c t1 e1 k) [x] s =
      compile k (mergeAcc [] x s.next (s.next + 1) (iR4 t1 c x s).1 (iR5 t1 e1 c x s).1) (iR5 t1 e1 c x s).2 := by
  rw [compile_ite, iteLoop_consR]
  simp [hr, iteLoop]

/-- if an `if` on a single block leaves just that block open, both branches were free of transitions -/
theorem ite_notr (c : Nat) (t1 e1 k : Stmt) (l cf : Bool) (ht : CSpec (compile t1) l cf) (he : CSpec (compile e1) l cf)
    (hk : CSpec (compile k) l cf) (hr : (retAlways t1 && retAlways e1) = false) (x : Nat) (s : CSt) (hi : Inv s [x])
    (hsi : SInv s) (hn : NoTr x (compile (.ite c t1 e1 k) [x] s).1) :
    IterCtx t1 e1 c x s ∧ anyTrans s.next (iR4 t1 c x s).1 = false ∧ anyTrans (s.next + 1) (iR5 t1 e1 c x s).1 = false ∧
    compile (.ite c t1 e1 k) [x] s = compile k [x] (iR5 t1 e1 c x s).2 ∧
    Step (iR5 t1 e1 c x s).2 [x] (compile k [x] (iR5 t1 e1 c x s).2).2 (compile k [x] (iR5 t1 e1 c x s).2).1 ∧
    Inv (iR5 t1 e1 c x s).2 [x] := by
  have hx : x < s.next := hi.hlt.1 x (by simp)
  have X := iterCtxG t1 e1 l cf ht he c x s hx hi.hlt.2 (fun h => by simpa using hi.start h) hsi
  rw [compile_ite_singleG c t1 e1 k hr] at hn
  have n4 := X.n4
  have n5 := X.n5
  have hxot : x ∉ (iR4 t1 c x s).1 := fun h => by have := X.ot_r x h; omega
  have hxoe : x ∉ (iR5 t1 e1 c x s).1 := fun h => by have := X.oe_r x h; omega
  have hlacc : Hlt (iR5 t1 e1 c x s).2 (mergeAcc [] x s.next (s.next + 1) (iR4 t1 c x s).1 (iR5 t1 e1 c x s).1) := by
    refine ⟨fun o ho => (mergeAcc_nil_range X hx ho).2, by omega⟩
  have Tk := (hk _ _ hlacc (fun h => by rw [X.hA5] at h; cases h) (fun _ => X.hA5)).1
  have hxacc : x ∈ mergeAcc [] x s.next (s.next + 1) (iR4 t1 c x s).1 (iR5 t1 e1 c x s).1 := by
    rcases NoTr.range Tk hn with h | h
    · exact h
    · omega
  obtain ⟨hat, hae, hacc⟩ := mergeAcc_parent x s.next (s.next + 1) _ _ (by omega) (by omega) hxot hxoe hxacc
  rw [hacc] at Tk
  have hfx5 : ((iR5 t1 e1 c x s).2.heap x).front = [] := by
    rw [X.Te.frame x (by omega) (by simp; omega), X.Tt.frame x (by simp [itePre_next]; omega) (by simp; omega),
      itePre_front_parent c x s hx]
    exact hi.front x (by simp)
  exact ⟨X, hat, hae, by rw [compile_ite_singleG c t1 e1 k hr, hacc], Tk,
    Inv.single (by omega) (by omega) X.hA5 hfx5⟩

theorem plain_awaitG (cc : Option Nat) (k : Stmt) (hkS : ∀ O s, Inv s O → s.atStart = false → Step s O (compile k O s).2 (compile k O s).1) (x : Nat) (s : CSt) (hi : Inv s [x])
    (hn : NoTr x (compile (.await cc k) [x] s).1) :
    cc = none ∧ s.atStart = true ∧ x = 0 ∧ compile (.await cc k) [x] s = compile k [0] s := by
  have hx : x < s.next := hi.hlt.1 x (by simp)
  have T0 := enterState_step [x] s hi.hlt (fun h => by simp [hi.start h])
  have hl0 := T0.hlt hi.hlt
  cases hst : s.atStart with
  | true =>
    have hx0 : x = 0 := by simpa using hi.start hst
    subst hx0
    cases cc with
    | none =>
      refine ⟨rfl, rfl, rfl, ?_⟩
      rw [compile_await_none]; simp [enterState_start [0] s hst]
    | some c' =>
      exfalso
      rw [compile_await_some] at hn
      simp only [List.isEmpty_cons, Bool.false_eq_true, if_false, enterState_start [0] s hst] at hn
      have T1 := itePre_step c' 0 s hx
      have hl1 := T1.hlt ⟨by simpa using hx, hx⟩
      have hi1 : Inv (itePre c' 0 s) [s.next] :=
        Inv.single (hl1.1 _ (by simp)) hl1.2 (itePre_atStart c' 0 s hx hx (fun _ => rfl)) (itePre_child_front c' 0 s)
      rcases NoTr.range (hkS _ _ hi1 (by first | exact itePre_atStart c' 0 s hx hx (fun _ => rfl) | exact T1.atStart_false hl0.2 hA0)) hn with h | h
      · simp at h; omega
      · have := T1.next_le; omega
  | false =>
    exfalso
    have e : (enterState [x] s).2.1 = s.next := by rw [enterState_nostart [x] s hst]
    have hA0 := T0.atStart_false hi.hlt.2 hst
    have hnb : (enterState [x] s).2.1 < (enterState [x] s).2.2.next := hl0.1 _ (by simp)
    cases cc with
    | none =>
      rw [compile_await_none] at hn
      simp only [List.isEmpty_cons, Bool.false_eq_true, if_false] at hn
      have hf : ((enterState [x] s).2.2.heap (enterState [x] s).2.1).front = [] := by
        rw [enterState_nostart [x] s hst]
        have hne : s.next ≠ x := by omega
        simp [CSt.addfrontAll, CSt.addfront, CSt.newBlock, hne]
      rcases NoTr.range (hkS _ _ (Inv.single hnb hl0.2 hA0 hf) hA0) hn with h | h
      · simp [e] at h; omega
      · have := T0.next_le; omega
    | some c' =>
      rw [compile_await_some] at hn
      simp only [List.isEmpty_cons, Bool.false_eq_true, if_false] at hn
      have T1 := itePre_step c' _ _ hnb
      have hl1 := T1.hlt ⟨by simpa using hnb, hl0.2⟩
      have hi1 := Inv.single (hl1.1 _ (by simp)) hl1.2 (T1.atStart_false hl0.2 hA0)
        (itePre_child_front c' (enterState [x] s).2.1 (enterState [x] s).2.2)
      rcases NoTr.range (hkS _ _ hi1 (by first | exact itePre_atStart c' 0 s hx hx (fun _ => rfl) | exact T1.atStart_false hl0.2 hA0)) hn with h | h
      · simp at h; have := T0.next_le; omega
      · have := T0.next_le; have := T1.next_le; omega


end CohdlVerif.C01
