import CohdlVerif.Lemmas.C01Frag1d

/-! C01 - fragment 1: `await` -/
namespace CohdlVerif.C01

theorem itePre_child_root (c b : Nat) (s : CSt) (hb : b < s.next) : (itePre c b s).root s.next = s.root b := by
  have h : b ≠ s.next := by omega
  simp [itePre, CSt.append, CSt.newBlock]

theorem itePre_child_heap (c b : Nat) (s : CSt) (hb : b < s.next) : (itePre c b s).heap s.next = {} := by
  have h : s.next ≠ b := by omega
  simp [itePre, CSt.append, CSt.newBlock, h]

theorem itePre_child2_heap (c b : Nat) (s : CSt) (hb : b < s.next) : (itePre c b s).heap (s.next + 1) = {} := by
  have h : s.next + 1 ≠ b := by omega
  simp [itePre, CSt.append, CSt.newBlock, h]

theorem itePre_parent_heap (c b : Nat) (s : CSt) (hb : b < s.next) :
    (itePre c b s).heap b = { s.heap b with items := (s.heap b).items ++ [.ite c s.next (s.next + 1)] } := by
  have h1 : b ≠ s.next := by omega
  have h2 : b ≠ s.next + 1 := by omega
  simp [itePre, CSt.append, CSt.newBlock, h1, h2]

section
variable {σ : Type} (act : Nat → σ → σ) (cond : Nat → σ → Bool)
variable (prog : Stmt) (Hf : Nat → Blk) (E : Nat → σ → σ × Option Nat) (Rf : Nat → Nat) (Sf : List Nat)

theorem E_tailF (hE : ∀ b s, E b s = execB act cond E (Hf b) s) (b : Nat) (s0 : σ) :
    E b s0 = tailF act cond Hf E b (Hf b).items s0 := by
  rw [hE]; rfl

/-- a block whose code is a single `If` -/
theorem E_single_ite (hE : ∀ b s, E b s = execB act cond E (Hf b) s) (b c t e : Nat)
    (h : Hf b = { front := [], items := [.ite c t e] }) (s0 : σ) :
    E b s0 = if cond c s0 then E t s0 else E e s0 := by
  rw [hE b, h]
  simp only [execB, execI, lastT, por_none_right, por_none_left]

theorem run_await_susp (cc : Option Nat) (k : Stmt) (st : List Frame) (s0 : σ) :
    run act cond 1 (.await cc k) st false s0 = some (.atAwait cc k st, s0) := by
  simp [run]

theorem run_await_fresh_false (c : Nat) (k : Stmt) (st : List Frame) (s0 : σ) (hc : cond c s0 = false) :
    run act cond 1 (.await (some c) k) st true s0 = some (.atAwait (some c) k st, s0) := by
  simp [run, evalC, hc]

/-- the state created for `await cc; k` simulates the suspension at that await -/
theorem await_state_sim (cc : Option Nat) (k : Stmt) (st : List Frame) (idx nb ib : Nat) (hS : Sf[idx]? = some nb)
    (hEn : ∀ s0, E nb s0 = if evalC cond cc s0 then E ib s0 else (s0, none))
    (hib : ∀ s0, E ib s0 = tailF act cond Hf E ib (Hf ib).items s0) (hcur : cur Rf Sf ib = idx) :
    ∀ m, (∀ j, j ≤ m → TailSim act cond prog Hf E Rf Sf j ib [] k st false) →
      SimN act cond prog E Sf m (.atAwait cc k st) idx := by
  intro m
  induction m with
  | zero => intro _; trivial
  | succ m ih =>
    intro hk s0
    rw [mStep_some E Sf idx nb hS, hEn]
    cases hc : evalC cond cc s0 with
    | true =>
      simp only [if_true]
      have h1 := hk (m+1) (Nat.le_refl _) (Hf ib).items (by simp) s0
      rcases h1 with h1 | ⟨f, r, h1, h2⟩
      · omega
      · refine ⟨f, r, ?_, ?_⟩
        · simp only [refStep, hc, if_true]; rw [hib]; exact h1
        · rw [hib]; rw [hcur] at h2; exact h2
    | false =>
      simp only [Bool.false_eq_true, if_false]
      refine ⟨1, .atAwait cc k st, by simp [refStep, hc], ?_⟩
      simp only [Option.getD_none]
      exact ih (fun j hj => hk j (by omega))

/-- premises at a lower level -/
theorem prem_mono {m j : Nat} (hj : j ≤ m) {O' : List Nat} {s' : CSt} {st : List Frame}
    (h : ∀ o' ∈ O', TailSim act cond prog Hf E Rf Sf m o' (s'.heap o').items .skip st s'.atStart) :
    ∀ o' ∈ O', TailSim act cond prog Hf E Rf Sf j o' (s'.heap o').items .skip st s'.atStart :=
  fun o' ho' => TailSim_mono_le act cond prog Hf E Rf Sf j m o' hj _ _ _ _ (h o' ho')

theorem sim_await_ns_none (hE : ∀ b s, E b s = execB act cond E (Hf b) s) (k : Stmt) (hk : frag1 k = true)
    (ih : SimIH act cond prog Hf E Rf Sf k) (st : List Frame) (O : List Nat) (s : CSt) (m : Nat) (P' : Nat → Prop)
    (hi : Inv s O) (hsi : SInv s) (hst : s.atStart = false)
    (hF : Fut Hf Rf Sf (compile (.await none k) O s).2 P')
    (hP' : ∀ y, P' y → y < (compile (.await none k) O s).2.next → (y ∈ O ∨ s.next ≤ y) →
      y ∈ (compile (.await none k) O s).1)
    (hprem : ∀ o' ∈ (compile (.await none k) O s).1, TailSim act cond prog Hf E Rf Sf m o'
      ((compile (.await none k) O s).2.heap o').items .skip st (compile (.await none k) O s).2.atStart)
    (o : Nat) (ho : o ∈ O) : TailSim act cond prog Hf E Rf Sf m o (s.heap o).items (.await none k) st false := by
  have hO : O ≠ [] := fun h => by subst h; simp at ho
  have hO' : O.isEmpty = false := by simpa using hO
  have hc : compile (.await none k) O s = compile k [(enterState O s).2.1] (enterState O s).2.2 := by
    rw [compile_await_none]; simp [hO']
  rw [hc] at hF hP' hprem
  obtain ⟨e1, e2, e3, e4, e5, e6, e7, e8⟩ := enter_nostart_facts hi hst
  rw [e2] at hF hP' hprem
  have T0 := enterState_step O s hi.hlt (fun h => by rw [hst] at h; cases h)
  have hi0 : Inv (enterState O s).2.2 [s.next] := by have := hi.enter hO; rwa [e2] at this
  have hsi0 := hsi.step T0 hi.hlt.2
  have Tk := frag1_step k hk _ _ hi0
  have hn := Tk.next_le
  have hol : o < s.next := hi.hlt.1 o ho
  -- the block o is closed after the transition was inserted
  have hnPo : ¬ P' o := fun hp => by
    have := hP' o hp (by omega) (Or.inl ho)
    rcases (Tk.open_r o this).1 with h | h
    · simp at h; omega
    · omega
  have hHo : Hf o = { s.heap o with front := [s.states.length] } := by
    rw [hF.closed o (by omega) hnPo, Tk.frame o (by omega) (by simp; omega), e7 o ho]
  -- the new state
  have hS : Sf[s.states.length]? = some s.next := by
    rw [prefix_getElem? (Tk.states_mono.trans hF.states) _ (by rw [e6]; simp), e6]; simp
  have hcur : cur Rf Sf s.next = s.states.length := by
    obtain ⟨t, ht⟩ := Tk.states_mono.trans hF.states
    rw [cur, hF.root s.next (by omega), Tk.root_stable s.next (by omega), e5, ← ht, e6, List.append_assoc]
    exact idxOf_append_new _ _ _ (fun h => by have := hsi.states_lt _ h; omega)
  have hks : ∀ j, j ≤ m → TailSim act cond prog Hf E Rf Sf j s.next [] k st false := by
    intro j hj
    have := ih st [s.next] _ j P' hi0 hsi0 hF
      (fun y hy hlt hr => hP' y hy hlt (by
        rcases hr with h | h
        · simp at h; right; omega
        · right; omega))
      (prem_mono act cond prog Hf E Rf Sf hj hprem) s.next (by simp)
    rwa [e4, e8] at this
  intro suf hsuf s0
  rw [hHo] at hsuf
  have : suf = [] := by simpa using hsuf.symm
  subst this
  by_cases hm : m = 0
  · exact Or.inl hm
  right
  refine ⟨1, .atAwait none k st, ?_, ?_⟩
  · rw [run_await_susp]; simp [tailF, execI]
  · simp only [tailF, execI, hHo, lastT, por, Option.getD_some]
    exact await_state_sim act cond prog Hf E Rf Sf none k st _ s.next s.next hS (fun s1 => by simp [evalC])
      (E_tailF act cond Hf E hE s.next) hcur (m-1) (fun j hj => hks j (by omega))

theorem sim_await_ns_some (hE : ∀ b s, E b s = execB act cond E (Hf b) s) (c' : Nat) (k : Stmt) (hk : frag1 k = true)
    (ih : SimIH act cond prog Hf E Rf Sf k) (st : List Frame) (O : List Nat) (s : CSt) (m : Nat) (P' : Nat → Prop)
    (hi : Inv s O) (hsi : SInv s) (hst : s.atStart = false)
    (hF : Fut Hf Rf Sf (compile (.await (some c') k) O s).2 P')
    (hP' : ∀ y, P' y → y < (compile (.await (some c') k) O s).2.next → (y ∈ O ∨ s.next ≤ y) →
      y ∈ (compile (.await (some c') k) O s).1)
    (hprem : ∀ o' ∈ (compile (.await (some c') k) O s).1, TailSim act cond prog Hf E Rf Sf m o'
      ((compile (.await (some c') k) O s).2.heap o').items .skip st (compile (.await (some c') k) O s).2.atStart)
    (o : Nat) (ho : o ∈ O) :
    TailSim act cond prog Hf E Rf Sf m o (s.heap o).items (.await (some c') k) st false := by
  have hO : O ≠ [] := fun h => by subst h; simp at ho
  have hO' : O.isEmpty = false := by simpa using hO
  have hc : compile (.await (some c') k) O s =
      compile k [(enterState O s).2.2.next] (itePre c' (enterState O s).2.1 (enterState O s).2.2) := by
    rw [compile_await_some]; simp [hO']
  rw [hc] at hF hP' hprem
  obtain ⟨e1, e2, e3, e4, e5, e6, e7, e8⟩ := enter_nostart_facts hi hst
  rw [e2, e3] at hF hP' hprem
  have T0 := enterState_step O s hi.hlt (fun h => by rw [hst] at h; cases h)
  have hsi0 := hsi.step T0 hi.hlt.2
  have hnb : s.next < (enterState O s).2.2.next := by omega
  have T1 := itePre_step c' s.next (enterState O s).2.2 hnb
  rw [e3] at T1
  have hl0 := T0.hlt hi.hlt
  have hl1 := T1.hlt ⟨by simpa using hnb, hl0.2⟩
  have hA1 := T1.atStart_false hl0.2 e8
  have hn1 : (itePre c' s.next (enterState O s).2.2).next = s.next + 3 := by rw [itePre_next, e3]
  have hi1 : Inv (itePre c' s.next (enterState O s).2.2) [s.next + 1] :=
    Inv.single (by omega) hl1.2 hA1 (by have := itePre_child_front c' s.next (enterState O s).2.2; rwa [e3] at this)
  have hsi1 := hsi0.step T1 hl0.2
  have Tk := frag1_step k hk _ _ hi1
  have hn := Tk.next_le
  have hol : o < s.next := hi.hlt.1 o ho
  have hnP : ∀ y, y < s.next + 3 → (y ∈ O ∨ s.next ≤ y) → y ≠ s.next + 1 → ¬ P' y := fun y hy hr hne hp => by
    have := hP' y hp (by omega) hr
    rcases (Tk.open_r y this).1 with h | h
    · simp at h; omega
    · omega
  have hHo : Hf o = { s.heap o with front := [s.states.length] } := by
    rw [hF.closed o (by omega) (hnP o (by omega) (Or.inl ho) (by omega)), Tk.frame o (by omega) (by simp; omega),
      T1.frame o (by omega) (by simp; omega), e7 o ho]
  have hHn : Hf s.next = { front := [], items := [.ite c' (s.next + 1) (s.next + 2)] } := by
    rw [hF.closed s.next (by omega) (hnP s.next (by omega) (Or.inr (Nat.le_refl _)) (by omega)),
      Tk.frame s.next (by omega) (by simp), itePre_parent_heap c' s.next _ hnb, e4, e3]
    rfl
  have hHe : Hf (s.next + 2) = {} := by
    rw [hF.closed (s.next + 2) (by omega) (hnP (s.next + 2) (by omega) (Or.inr (by omega)) (by omega)),
      Tk.frame (s.next + 2) (by omega) (by simp)]
    have := itePre_child2_heap c' s.next (enterState O s).2.2 hnb
    rwa [e3] at this
  have hS : Sf[s.states.length]? = some s.next := by
    rw [prefix_getElem? ((T1.states_mono.trans Tk.states_mono).trans hF.states) _ (by rw [e6]; simp), e6]; simp
  have hcur : cur Rf Sf (s.next + 1) = s.states.length := by
    obtain ⟨t, ht⟩ := (T1.states_mono.trans Tk.states_mono).trans hF.states
    have hr : (itePre c' s.next (enterState O s).2.2).root (s.next + 1) = s.next := by
      have := itePre_child_root c' s.next (enterState O s).2.2 hnb
      rw [e3, e5] at this; exact this
    rw [cur, hF.root (s.next + 1) (by omega), Tk.root_stable (s.next + 1) (by omega), hr, ← ht, e6, List.append_assoc]
    exact idxOf_append_new _ _ _ (fun h => by have := hsi.states_lt _ h; omega)
  have hks : ∀ j, j ≤ m → TailSim act cond prog Hf E Rf Sf j (s.next + 1) [] k st false := by
    intro j hj
    have := ih st [s.next + 1] _ j P' hi1 hsi1 hF
      (fun y hy hlt hr => hP' y hy hlt (by
        rcases hr with h | h
        · simp at h; right; omega
        · right; omega))
      (prem_mono act cond prog Hf E Rf Sf hj hprem) (s.next + 1) (by simp)
    have hh := itePre_child_heap c' s.next (enterState O s).2.2 hnb
    rw [e3] at hh
    rwa [hh, hA1] at this
  intro suf hsuf s0
  rw [hHo] at hsuf
  have : suf = [] := by simpa using hsuf.symm
  subst this
  by_cases hm : m = 0
  · exact Or.inl hm
  right
  refine ⟨1, .atAwait (some c') k st, ?_, ?_⟩
  · rw [run_await_susp]; simp [tailF, execI]
  · simp only [tailF, execI, hHo, lastT, por, Option.getD_some]
    refine await_state_sim act cond prog Hf E Rf Sf (some c') k st _ s.next (s.next + 1) hS ?_
      (E_tailF act cond Hf E hE (s.next + 1)) hcur (m-1) (fun j hj => hks j (by omega))
    intro s1
    rw [E_single_ite act cond Hf E hE s.next c' (s.next + 1) (s.next + 2) hHn, E_empty act cond Hf E hE _ hHe]
    rfl

theorem sim_await_start_some (hE : ∀ b s, E b s = execB act cond E (Hf b) s) (c' : Nat) (k : Stmt)
    (hk : frag1 k = true) (ih : SimIH act cond prog Hf E Rf Sf k) (st : List Frame) (s : CSt) (m : Nat)
    (P' : Nat → Prop) (hi : Inv s [0]) (hsi : SInv s) (hst : s.atStart = true)
    (hF : Fut Hf Rf Sf (compile (.await (some c') k) [0] s).2 P')
    (hP' : ∀ y, P' y → y < (compile (.await (some c') k) [0] s).2.next → (y ∈ [0] ∨ s.next ≤ y) →
      y ∈ (compile (.await (some c') k) [0] s).1)
    (hprem : ∀ o' ∈ (compile (.await (some c') k) [0] s).1, TailSim act cond prog Hf E Rf Sf m o'
      ((compile (.await (some c') k) [0] s).2.heap o').items .skip st (compile (.await (some c') k) [0] s).2.atStart) :
    TailSim act cond prog Hf E Rf Sf m 0 (s.heap 0).items (.await (some c') k) st true := by
  have hc : compile (.await (some c') k) [0] s = compile k [s.next] (itePre c' 0 s) := by
    rw [compile_await_some]; simp [enterState_start [0] s hst]
  rw [hc] at hF hP' hprem
  have h0 : 0 < s.next := hi.hlt.2
  have T1 := itePre_step c' 0 s h0
  have hl1 := T1.hlt ⟨by simpa using h0, h0⟩
  have hA1 := itePre_atStart c' 0 s h0 h0 (fun _ => rfl)
  have hn1 : (itePre c' 0 s).next = s.next + 2 := rfl
  have hi1 : Inv (itePre c' 0 s) [s.next] := Inv.single (by omega) hl1.2 hA1 (itePre_child_front c' 0 s)
  have hsi1 := hsi.step T1 h0
  have Tk := frag1_step k hk _ _ hi1
  have hn := Tk.next_le
  have hnP : ∀ y, y < s.next + 2 → (y ∈ [0] ∨ s.next ≤ y) → y ≠ s.next → ¬ P' y := fun y hy hr hne hp => by
    have := hP' y hp (by omega) hr
    rcases (Tk.open_r y this).1 with h | h
    · simp at h; omega
    · omega
  have hH0 : Hf 0 = { front := [], items := [.ite c' s.next (s.next + 1)] } := by
    rw [hF.closed 0 (by omega) (hnP 0 (by omega) (Or.inl (by simp)) (by omega)), Tk.frame 0 (by omega) (by simp; omega),
      itePre_parent_heap c' 0 s h0, atStart_heap0 hst]
    rfl
  have hHe : Hf (s.next + 1) = {} := by
    rw [hF.closed (s.next + 1) (by omega) (hnP (s.next + 1) (by omega) (Or.inr (by omega)) (by omega)),
      Tk.frame (s.next + 1) (by omega) (by simp), itePre_child2_heap c' 0 s h0]
  obtain ⟨hc0, hS0⟩ := cur_zero Hf Rf Sf hsi h0 (Fut.back (P := fun _ => True) (T1.trans (by simpa using h0)
    (Tk.weaken (O := [s.next + 1, s.next, 0]) (by simp) (fun o ho => InR.weakenO (by simp) (Tk.open_r o ho))))
    (by simp) (fun _ _ => Or.inl trivial) hF)
  have hcur : cur Rf Sf s.next = 0 := by
    rw [← hc0, cur, cur, hF.root s.next (by omega), hF.root 0 (by omega), Tk.root_stable s.next (by omega),
      Tk.root_stable 0 (by omega), itePre_child_root c' 0 s h0, T1.root_stable 0 h0]
  have hks : ∀ j, j ≤ m → TailSim act cond prog Hf E Rf Sf j s.next [] k st false := by
    intro j hj
    have := ih st [s.next] _ j P' hi1 hsi1 hF
      (fun y hy hlt hr => hP' y hy hlt (by
        rcases hr with h | h
        · simp at h; right; omega
        · right; omega))
      (prem_mono act cond prog Hf E Rf Sf hj hprem) s.next (by simp)
    rwa [itePre_child_heap c' 0 s h0, hA1] at this
  have hEn : ∀ s1, E 0 s1 = if evalC cond (some c') s1 then E s.next s1 else (s1, none) := by
    intro s1
    rw [E_single_ite act cond Hf E hE 0 c' s.next (s.next + 1) hH0, E_empty act cond Hf E hE _ hHe]
    rfl
  intro suf hsuf s0
  rw [hH0, atStart_heap0 hst] at hsuf
  have : suf = [.ite c' s.next (s.next + 1)] := by simpa using hsuf.symm
  subst this
  have htl : tailF act cond Hf E 0 [.ite c' s.next (s.next + 1)] s0 = E 0 s0 := by
    rw [E_tailF act cond Hf E hE 0, hH0]
  rw [htl, hEn]
  cases hcc : cond c' s0 with
  | true =>
    simp only [evalC, hcc, if_true]
    have h1 := hks m (Nat.le_refl _) (Hf s.next).items (by simp) s0
    rw [← E_tailF act cond Hf E hE s.next, hcur] at h1
    rw [hc0]
    exact SimPt_pull act cond prog E Sf (RunTo.await_fresh_some act cond c' k st s0 hcc) h1
  | false =>
    simp only [evalC, hcc, Bool.false_eq_true, if_false]
    by_cases hm : m = 0
    · exact Or.inl hm
    right
    refine ⟨1, .atAwait (some c') k st, run_await_fresh_false act cond c' k st s0 hcc, ?_⟩
    simp only [Option.getD_none, hc0]
    exact await_state_sim act cond prog Hf E Rf Sf (some c') k st 0 0 s.next hS0 hEn
      (E_tailF act cond Hf E hE s.next) hcur (m-1) (fun j hj => hks j (by omega))

theorem sim_await (hE : ∀ b s, E b s = execB act cond E (Hf b) s) (cc : Option Nat) (k : Stmt)
    (hk : frag1 k = true) (ih : SimIH act cond prog Hf E Rf Sf k) :
    SimIH act cond prog Hf E Rf Sf (.await cc k) := by
  intro st O s m P' hi hsi hF hP' hprem o ho
  cases hst : s.atStart with
  | false =>
    cases cc with
    | none => exact sim_await_ns_none act cond prog Hf E Rf Sf hE k hk ih st O s m P' hi hsi hst hF hP' hprem o ho
    | some c' => exact sim_await_ns_some act cond prog Hf E Rf Sf hE c' k hk ih st O s m P' hi hsi hst hF hP' hprem o ho
  | true =>
    have hO := hi.start hst
    subst hO
    have ho0 : o = 0 := by simpa using ho
    subst ho0
    cases cc with
    | some c' => exact sim_await_start_some act cond prog Hf E Rf Sf hE c' k hk ih st s m P' hi hsi hst hF hP' hprem
    | none =>
      have hc : compile (.await none k) [0] s = compile k [0] s := by
        rw [compile_await_none]; simp [enterState_start [0] s hst]
      rw [hc] at hF hP' hprem
      have h1 := ih st [0] s m P' hi hsi hF hP' hprem 0 (by simp)
      rw [hst] at h1
      intro suf hsuf s0
      exact SimPt_pull act cond prog E Sf (RunTo.await_fresh_none act cond k st s0) (h1 suf hsuf s0)

end
end CohdlVerif.C01
