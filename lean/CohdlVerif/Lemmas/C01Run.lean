import CohdlVerif.Model.Coro

/-! C01 - the fuel of the reference interpreter `run` only has to be large enough -/
namespace CohdlVerif.C01

variable {σ : Type} (act : Nat → σ → σ) (cond : Nat → σ → Bool)

theorem run_mono : ∀ (f : Nat) (p : Stmt) (st : List Frame) (fr : Bool) (s : σ) (x : Susp × σ),
    run act cond f p st fr s = some x → run act cond (f+1) p st fr s = some x := by
  intro f
  induction f with
  | zero => intro p st fr s x h; simp [run] at h
  | succ f ih =>
    intro p st fr s x h
    cases p with
    | skip =>
      cases st with
      | nil => simpa [run] using h
      | cons fr0 st =>
        cases fr0 <;> simp only [run] at h ⊢ <;> first | exact h | exact ih _ _ _ _ _ h
    | act a k => simp only [run] at h ⊢; exact ih _ _ _ _ _ h
    | await c k =>
      simp only [run] at h ⊢
      split <;> rename_i h1 <;> simp only [h1, if_true, Bool.false_eq_true, if_false] at h
      · split <;> rename_i h2 <;> simp only [h2, if_true, Bool.false_eq_true, if_false] at h
        · exact ih _ _ _ _ _ h
        · exact h
      · exact h
    | awaitF => simpa [run] using h
    | ite c t e k =>
      simp only [run] at h ⊢
      split <;> rename_i h1 <;> simp only [h1, if_true, Bool.false_eq_true, if_false] at h <;> exact ih _ _ _ _ _ h
    | while_ c b k =>
      simp only [run] at h ⊢
      split <;> rename_i h1 <;> simp only [h1, if_true, Bool.false_eq_true, if_false] at h
      · split <;> rename_i h2 <;> simp only [h2, if_true, Bool.false_eq_true, if_false] at h <;> exact ih _ _ _ _ _ h
      · exact h
    | brk =>
      cases st with
      | nil => simp [run] at h
      | cons fr0 st => cases fr0 <;> simp only [run] at h ⊢ <;> exact ih _ _ _ _ _ h
    | cont =>
      cases st with
      | nil => simp [run] at h
      | cons fr0 st =>
        cases fr0 with
        | seq k => simp only [run] at h ⊢; exact ih _ _ _ _ _ h
        | callF k => simp only [run] at h ⊢; exact ih _ _ _ _ _ h
        | loop c b k =>
          simp only [run] at h ⊢
          split <;> rename_i h1 <;> simp only [h1, if_true, Bool.false_eq_true, if_false] at h <;> exact ih _ _ _ _ _ h
    | ret =>
      cases st with
      | nil => simp [run] at h
      | cons fr0 st => cases fr0 <;> simp only [run] at h ⊢ <;> exact ih _ _ _ _ _ h
    | call b k => simp only [run] at h ⊢; exact ih _ _ _ _ _ h

theorem run_mono_le (f f' : Nat) (hle : f ≤ f') (p : Stmt) (st : List Frame) (fr : Bool) (s : σ) (x : Susp × σ)
    (h : run act cond f p st fr s = some x) : run act cond f' p st fr s = some x := by
  induction hle with
  | refl => exact h
  | step _ ih => exact run_mono act cond _ _ _ _ _ _ ih

end CohdlVerif.C01
