import CohdlVerif.Lemmas.C01W9

/-! C01 - general grammar: `While`, the head state -/
namespace CohdlVerif.C01

/-- the block executed when the condition of the loop does not hold -/
def wEx (cc : Option Nat) (b : Stmt) (O : List Nat) (s : CSt) : Nat :=
  match cc with
  | none => wBody O s
  | some _ => (wCl cc b O s).2.next

section
variable {σ : Type} (act : Nat → σ → σ) (cond : Nat → σ → Bool)
variable (prog : Stmt) (Hf : Nat → Blk) (E : Nat → σ → σ × Option Nat) (Rf : Nat → Nat) (Sf : List Nat)

theorem E_head (hE : ∀ b s, E b s = execB act cond E (Hf b) s) (cc : Option Nat) (b : Stmt) (O : List Nat) (s : CSt)
    (pre : List Item) (hpre : pre = [] ∨ pre = [.nop])
    (h : Hf (wHb O s) = { front := [], items := pre ++ [wItem cc b O s] }) (s0 : σ) :
    E (wHb O s) s0 = if evalC cond cc s0 then E (wBody O s) s0 else E (wEx cc b O s) s0 := by
  rw [hE (wHb O s), h]
  cases cc with
  | none => rcases hpre with rfl | rfl <;> simp [execB, execI, lastT, wItem, evalC]
  | some c' =>
    rcases hpre with rfl | rfl <;> simp only [execB, execI, lastT, wItem, evalC, wEx, List.nil_append, List.singleton_append,
      por_none_right, por_none_left] <;> rfl

theorem head_state_sim2 (cc : Option Nat) (b k : Stmt) (st : List Frame) (idx hb body ex : Nat)
    (hS : Sf[idx]? = some hb)
    (hEh : ∀ s0, E hb s0 = if evalC cond cc s0 then E body s0 else E ex s0)
    (hEb : ∀ s0, E body s0 = tailF act cond Hf E body (Hf body).items s0)
    (hEx : ∀ s0, E ex s0 = tailF act cond Hf E ex (Hf ex).items s0)
    (hcb : cur Rf Sf body = idx) (m : Nat)
    (hB : ∀ j, j ≤ m → SimN act cond prog E Sf (j - 1) (.atHead cc b k st) idx →
      TailSim2 act cond prog Hf E Rf Sf j body [] b (.loop cc b k :: st) false)
    (hK : ∀ j, j ≤ m → (∃ s0, evalC cond cc s0 = false) → TailSim2 act cond prog Hf E Rf Sf j ex [] k st false) :
    ∀ j, j ≤ m → SimN act cond prog E Sf j (.atHead cc b k st) idx := by
  intro j
  induction j with
  | zero => intro _; trivial
  | succ j ih =>
    intro hj s0
    rw [mStep_some E Sf idx hb hS, hEh]
    cases hc : evalC cond cc s0 with
    | true =>
      simp only [if_true]
      have h1 := hB (j+1) hj (ih (by omega)) (Hf body).items (by simp) s0
      rcases h1 with h1 | ⟨f, r, h1, h2, _⟩
      · omega
      · refine ⟨f, r, ?_, ?_⟩
        · simp only [refStep, hc, if_true]; rw [hEb]; exact h1
        · rw [hEb]; rw [hcb] at h2; exact h2
    | false =>
      simp only [Bool.false_eq_true, if_false]
      have h1 := SimPt2_cur act cond prog E Sf (i' := idx) (hK (j+1) hj ⟨s0, hc⟩ (Hf ex).items (by simp) s0)
      rcases h1 with h1 | ⟨f, r, h1, h2, _⟩
      · omega
      · refine ⟨f, r, ?_, ?_⟩
        · simp only [refStep, hc, Bool.false_eq_true, if_false]; rw [hEx]; exact h1
        · rw [hEx]; exact h2

end
end CohdlVerif.C01
