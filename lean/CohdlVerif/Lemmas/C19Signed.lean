import CohdlVerif.Lemmas.C19Bits

/-! C19: two's complement wrap `wrapS`, sign bit and saturation flags of the SFixed branches -/

namespace CohdlVerif.C19

/-- two's complement wrap of `x` into `n` bits -/
def wrapS (n x : Int) : Int := (x + p2 (n - 1)) % p2 n - p2 (n - 1)

theorem wrapS_range (n x : Int) (hn : 1 ≤ n) : inRangeS n (wrapS n x) := by
  have hp := p2_pred n hn
  have h0 := Int.emod_nonneg (x + p2 (n - 1)) (ne_of_gt (p2_pos n))
  have h1 := Int.emod_lt_of_pos (x + p2 (n - 1)) (p2_pos n)
  unfold inRangeS wrapS; omega

theorem wrapS_emod (n x : Int) : wrapS n x % p2 n = x % p2 n := by
  unfold wrapS
  rw [Int.sub_eq_add_neg, Int.emod_add_emod]
  congr 1; omega

theorem sInt_pat (n x : Int) (hn : 1 ≤ n) : BV.sInt ⟨n, x % p2 n⟩ = wrapS n x := by
  have hr := wrapS_range n x hn
  rw [← wrapS_emod n x]
  exact sInt_mk n _ hn hr.1 hr.2

theorem wrapS_id (n x : Int) (hn : 1 ≤ n) (h : inRangeS n x) : wrapS n x = x := by
  rw [← sInt_pat n x hn]; exact sInt_mk n x hn h.1 h.2

theorem overflowS_wrap_eq (tw q : Int) : overflowS tw q .wrap = wrapS tw q := by
  unfold overflowS wrapS loS; simp only; rw [Int.sub_neg]; omega

theorem overflowS_id (tw q : Int) (os : Ovf) (htw : 1 ≤ tw) (h : inRangeS tw q) : overflowS tw q os = q := by
  cases os with
  | wrap => rw [overflowS_wrap_eq, wrapS_id tw q htw h]
  | saturate => exact clamp_id _ _ _ (by unfold loS; exact h.1) (by unfold hiS; have := h.2; omega)

theorem wrapS_scale (n z x : Int) (hn : 1 ≤ n) (hz : 0 ≤ z) : wrapS (n + z) (x * p2 z) = wrapS n x * p2 z := by
  unfold wrapS
  rw [show n + z - 1 = (n - 1) + z by omega, p2_add (n - 1) z (by omega) hz, p2_add n z (by omega) hz]
  rw [show x * p2 z + p2 (n - 1) * p2 z = p2 z * (x + p2 (n - 1)) by ring, Int.mul_comm (p2 n) (p2 z),
    Int.mul_emod_mul_of_pos _ _ (p2_pos z)]
  ring

theorem sFromS_pat (tw x : Int) (htw : 1 ≤ tw) :
    sFromS tw ⟨tw, x % p2 tw⟩ = .ok ⟨tw, wrapS tw x % p2 tw⟩ := by
  rw [← wrapS_emod tw x]
  exact sFromS_ok tw tw _ htw (le_refl _) (wrapS_range tw x htw)

theorem sInt_wrapS_pat (tw x : Int) (htw : 1 ≤ tw) : BV.sInt ⟨tw, wrapS tw x % p2 tw⟩ = wrapS tw x :=
  sInt_mk _ _ htw (wrapS_range tw x htw).1 (wrapS_range tw x htw).2

theorem sResize_pat (n y tw z : Int) (hn : 1 ≤ n) (hz : 0 ≤ z) (hnz : n + z ≤ tw) :
    sResize ⟨n, y % p2 n⟩ tw z = .ok ⟨tw, (wrapS n y * p2 z) % p2 tw⟩ := by
  rw [← wrapS_emod n y]
  exact sResize_ok n _ tw z hn hz hnz (wrapS_range n y hn)

theorem ediv_bounds (a H lo hi : Int) (hH : 0 < H) (h1 : lo * H ≤ a) (h2 : a < hi * H) :
    lo ≤ a / H ∧ a / H < hi :=
  ⟨(Int.le_ediv_iff_mul_le hH).mpr h1, (Int.ediv_lt_iff_lt_mul hH).mpr h2⟩

theorem ediv_rangeS (v w c : Int) (hc : 0 ≤ c) (hcw : c < w) (h : inRangeS w v) : inRangeS (w - c) (v / p2 c) := by
  have hk := p2_pos c
  have hP := p2_split (w - 1) c hc (by omega)
  rw [show w - 1 - c = w - c - 1 by omega] at hP
  obtain ⟨h1, h2⟩ := h
  have := ediv_bounds v (p2 c) (-(p2 (w - c - 1))) (p2 (w - c - 1)) hk (by rw [hP] at h1; linarith) (by rw [hP] at h2; linarith)
  exact this

theorem msbBit_eq (w v : Int) (hw : 1 ≤ w) (hv : inRangeS w v) :
    BV.msbBit ⟨w, v % p2 w⟩ = decide (v < 0) := by
  have hH := p2_pos (w - 1)
  obtain ⟨h1, h2⟩ := hv
  unfold BV.msbBit
  simp only
  rw [emod_ediv_p2 v w (w - 1) (by omega) (by omega), show w - (w - 1) = 1 by omega, p2_one]
  by_cases hneg : v < 0
  · have := ediv_bounds v (p2 (w - 1)) (-1) 0 hH (by linarith) (by linarith)
    have hq : v / p2 (w - 1) = -1 := by omega
    simp [hq, hneg]
  · have := ediv_bounds v (p2 (w - 1)) 0 1 hH (by linarith) (by linarith)
    have hq : v / p2 (w - 1) = 0 := by omega
    simp [hq, hneg]

/-- the overflow bits of the SATURATE branches (bits `w-2 .. w-1-o` of the source), compared with the sign -/
theorem sat_flags (w v o : Int) (hv : inRangeS w v) (ho1 : 1 ≤ o) (ho2 : o ≤ w - 1) :
    ((!decide (v < 0) && (v % p2 (w - 1) / p2 (w - 1 - o) != 0)) = decide (p2 (w - o - 1) ≤ v)) ∧
    ((decide (v < 0) && (p2 o - 1 - v % p2 (w - 1) / p2 (w - 1 - o) != 0)) = decide (v < -(p2 (w - o - 1)))) := by
  have hK := p2_pos (w - o - 1)
  have hO := p2_pos o
  have hP := p2_split (w - 1) (w - 1 - o) (by omega) (by omega)
  rw [show w - 1 - (w - 1 - o) = o by omega, show w - 1 - o = w - o - 1 by omega] at hP
  obtain ⟨h1, h2⟩ := hv
  rw [emod_ediv_p2 v (w - 1) (w - 1 - o) (by omega) (by omega), show w - 1 - (w - 1 - o) = o by omega,
    show w - 1 - o = w - o - 1 by omega]
  have hb := ediv_bounds v (p2 (w - o - 1)) (-(p2 o)) (p2 o) hK (by rw [hP] at h1; linarith) (by rw [hP] at h2; linarith)
  have hc := emod_cases (v / p2 (w - o - 1)) (p2 o) hO hb.1 hb.2
  by_cases hneg : v < 0
  · have hq := ediv_bounds v (p2 (w - o - 1)) (-(p2 o)) 0 hK (by rw [hP] at h1; linarith) (by linarith)
    rw [hc, if_neg (by omega)]
    have hnle : ¬ p2 (w - o - 1) ≤ v := by omega
    by_cases hu : v < -(p2 (w - o - 1))
    · have := ediv_bounds v (p2 (w - o - 1)) (-(p2 o)) (-1) hK (by rw [hP] at h1; linarith) (by linarith)
      simp [hneg, hnle, hu]; omega
    · have := ediv_bounds v (p2 (w - o - 1)) (-1) 0 hK (by linarith) (by linarith)
      have hq1 : v / p2 (w - o - 1) = -1 := by omega
      simp [hneg, hnle, hu, hq1]; omega
  · have hq := ediv_bounds v (p2 (w - o - 1)) 0 (p2 o) hK (by linarith) (by rw [hP] at h2; linarith)
    rw [hc, if_pos (by omega)]
    have hnu : ¬ v < -(p2 (w - o - 1)) := by omega
    by_cases hge : p2 (w - o - 1) ≤ v
    · have := ediv_bounds v (p2 (w - o - 1)) 1 (p2 o) hK (by linarith) (by rw [hP] at h2; linarith)
      simp [hneg, hnu, hge]; omega
    · have := ediv_bounds v (p2 (w - o - 1)) 0 1 hK (by linarith) (by linarith)
      have hq0 : v / p2 (w - o - 1) = 0 := by omega
      simp [hneg, hnu, hge, hq0]

end CohdlVerif.C19
