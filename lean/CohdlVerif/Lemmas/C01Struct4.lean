import CohdlVerif.Lemmas.C01Struct3

/-! C01 - structural facts for the `While` branch and for `compile` as a whole -/
namespace CohdlVerif.C01

/-- index of the loop head state -/
def wIdx (O : List Nat) (s : CSt) : Nat := (enterState O s).1
/-- root block of the loop head state -/
def wHb (O : List Nat) (s : CSt) : Nat := (enterState O s).2.1
/-- state after entering the head state (with the `Nop` marker at the start) -/
def wS0 (O : List Nat) (s : CSt) : CSt :=
  if s.atStart then (enterState O s).2.2.append (wHb O s) .nop else (enterState O s).2.2
/-- the body block -/
def wBody (O : List Nat) (s : CSt) : Nat := (wS0 O s).next
def wS1 (O : List Nat) (s : CSt) : CSt := ((wS0 O s).newBlock (some (wHb O s))).2
/-- result of translating the body with fresh break / continue lists -/
def wR (b : Stmt) (O : List Nat) (s : CSt) : List Nat × CSt :=
  compile b [wBody O s] { wS1 O s with cont := [], brk := [] }
/-- back edges inserted -/
def wS3 (b : Stmt) (O : List Nat) (s : CSt) : CSt := (wR b O s).2.addfrontAll (wR b O s).1 (wIdx O s)
/-- lists of the enclosing loop restored -/
def wS4 (b : Stmt) (O : List Nat) (s : CSt) : CSt := { wS3 b O s with cont := (wS1 O s).cont, brk := (wS1 O s).brk }
def wCl (c : Option Nat) (b : Stmt) (O : List Nat) (s : CSt) : List Nat × CSt :=
  contLoop c (wBody O s) (wS3 b O s).cont (wS4 b O s) []
def wRb (c : Option Nat) (b : Stmt) (O : List Nat) (s : CSt) : List Nat := (wCl c b O s).1 ++ (wS3 b O s).brk

theorem compile_while_none (b k : Stmt) (O : List Nat) (s : CSt) :
    compile (.while_ none b k) O s =
      compile k (wRb none b O s) ((wCl none b O s).2.append (wHb O s) (.sub (wBody O s))) := by
  simp only [compile, wRb, wCl, wS4, wS3, wR, wS1, wBody, wS0, wHb, wIdx]
  split <;> rfl

theorem compile_while_some (c' : Nat) (b k : Stmt) (O : List Nat) (s : CSt) :
    compile (.while_ (some c') b k) O s =
      compile k ((wCl (some c') b O s).2.next :: wRb (some c') b O s)
        (((wCl (some c') b O s).2.newBlock (some (wHb O s))).2.append (wHb O s)
          (.ite c' (wBody O s) (wCl (some c') b O s).2.next)) := by
  simp only [compile, wRb, wCl, wS4, wS3, wR, wS1, wBody, wS0, wHb, wIdx]
  split <;> rfl


theorem wS0_step (O : List Nat) (s : CSt) (hl : Hlt s O) (hJ : s.atStart = true → O = [0]) :
    Step s O (wS0 O s) (wHb O s :: O) ∧ (wS0 O s).atStart = false ∧
    (wS0 O s).ret = s.ret ∧ (wS0 O s).brk = s.brk ∧ (wS0 O s).cont = s.cont := by
  have T0 := enterState_step O s hl (fun h => by simp [hJ h])
  have hl0 := T0.hlt hl
  obtain ⟨e1, e2, e3⟩ := enterState_lists O s
  unfold wS0 wHb
  cases hst : s.atStart with
  | true =>
    simp only [if_true]
    have hx := HeapExt.append (enterState O s).2.2 ((enterState O s).2.1 :: O) (enterState O s).2.1 (by simp) .nop
    refine ⟨T0.trans hl.1 (hx.step hl0.1), ?_, by rw [hx.ret_eq, e1], by rw [hx.brk_eq, e2], by rw [hx.cont_eq, e3]⟩
    apply atStart_false_of_items
    rw [enterState_start O s hst]
    simp [CSt.append]
  | false =>
    simp only [Bool.false_eq_true, if_false]
    exact ⟨T0, T0.atStart_false hl.2 hst, e1, e2, e3⟩

theorem wS1_step (O : List Nat) (s : CSt) (hl : Hlt s O) (hJ : s.atStart = true → O = [0]) :
    Step s O (wS1 O s) (wBody O s :: wHb O s :: O) ∧ (wS1 O s).atStart = false ∧
    (wS1 O s).ret = s.ret ∧ (wS1 O s).brk = s.brk ∧ (wS1 O s).cont = s.cont := by
  obtain ⟨T, hA, e1, e2, e3⟩ := wS0_step O s hl hJ
  have hl0 := T.hlt hl
  have N := Step.newBlock (wS0 O s) (wHb O s :: O) hl0.1 (some (wHb O s)) (by simp)
  refine ⟨T.trans hl.1 N, N.atStart_false hl0.2 hA, ?_, ?_, ?_⟩
  · rw [← e1]; rfl
  · rw [← e2]; rfl
  · rw [← e3]; rfl


theorem wS4_step (b : Stmt) (c : Bool) (hb : CSpec (compile b) true c) (O : List Nat) (s : CSt) (hl : Hlt s O)
    (hJ : s.atStart = true → O = [0]) :
    Step (wS1 O s) [wBody O s] (wS4 b O s) (wR b O s).1 ∧
    (∀ o ∈ (wS3 b O s).cont, InR (wS1 O s) [wBody O s] (wS4 b O s) o) ∧
    (∀ o ∈ (wS3 b O s).brk, InR (wS1 O s) [wBody O s] (wS4 b O s) o) ∧
    (wS4 b O s).atStart = false := by
  obtain ⟨T1, hA1, _, _, _⟩ := wS1_step O s hl hJ
  have hl1 := T1.hlt hl
  have hlb : Hlt { wS1 O s with cont := [], brk := [] } [wBody O s] :=
    ⟨fun o ho => hl1.1 o (by simp at ho; simp [ho]), hl1.2⟩
  obtain ⟨B, _⟩ := hb [wBody O s] { wS1 O s with cont := [], brk := [] } hlb
    (fun h => by rw [show ({ wS1 O s with cont := [], brk := [] } : CSt).atStart = (wS1 O s).atStart from rfl, hA1] at h; cases h)
    (fun _ => hA1)
  have hlr := B.hlt hlb
  have htg : 0 < (wR b O s).2.states.length → wIdx O s < (wR b O s).2.states.length := by
    intro h0
    cases hst : s.atStart with
    | true => simpa [wIdx, enterState_start O s hst] using h0
    | false =>
      have e1 : (wS1 O s).states = s.states ++ [s.next] := by
        simp [wS1, wS0, hst, enterState_nostart O s hst, CSt.newBlock, CSt.addfrontAll_states]
      have hle : ({ wS1 O s with cont := [], brk := [] } : CSt).states.length ≤ (wR b O s).2.states.length :=
        B.states_mono.length_le
      simp only [wIdx, enterState_nostart O s hst]
      rw [show ({ wS1 O s with cont := [], brk := [] } : CSt).states = (wS1 O s).states from rfl, e1] at hle
      simp at hle; omega
  have hF := HeapExt.addfrontAll (wR b O s).1 (wIdx O s) (wR b O s).1 (wR b O s).2 (fun _ h => h) htg
  have F := hF.step hlr.1
  have BF : Step { wS1 O s with cont := [], brk := [] } [wBody O s] (wS3 b O s) (wR b O s).1 := B.trans hlb.1 F
  obtain ⟨dB, eB, rB⟩ := BF.brk_r
  obtain ⟨dC, eC, rC⟩ := BF.cont_r
  simp only [List.nil_append] at eB eC
  have S : Step (wS1 O s) [wBody O s] (wS4 b O s) (wR b O s).1 :=
    Step.relist (a := { wS1 O s with cont := [], brk := [] }) (b := wS3 b O s) ⟨rfl, rfl, rfl, rfl⟩ ⟨rfl, rfl, rfl, rfl⟩ BF
      ⟨[], by simp [wS4], by simp⟩ ⟨[], by simp [wS4], by simp⟩ BF.ret_r
  refine ⟨S, ?_, ?_, S.atStart_false hl1.2 hA1⟩
  · intro o ho
    exact InR.same (a := { wS1 O s with cont := [], brk := [] }) (b := wS3 b O s) ⟨rfl, rfl, rfl, rfl⟩ ⟨rfl, rfl, rfl, rfl⟩
      (rC o (eC ▸ ho))
  · intro o ho
    exact InR.same (a := { wS1 O s with cont := [], brk := [] }) (b := wS3 b O s) ⟨rfl, rfl, rfl, rfl⟩ ⟨rfl, rfl, rfl, rfl⟩
      (rB o (eB ▸ ho))


theorem wCl_step (cc : Option Nat) (b : Stmt) (c : Bool) (hb : CSpec (compile b) true c) (O : List Nat) (s : CSt)
    (hl : Hlt s O) (hJ : s.atStart = true → O = [0]) :
    Step s O (wCl cc b O s).2 (wHb O s :: wRb cc b O s) ∧ (wCl cc b O s).2.atStart = false := by
  obtain ⟨T1, _, _, _, _⟩ := wS1_step O s hl hJ
  have hl1 := T1.hlt hl
  obtain ⟨S, hC, hB, hA4⟩ := wS4_step b c hb O s hl hJ
  have SW : Step (wS1 O s) (wBody O s :: wHb O s :: O) (wS4 b O s) (wHb O s :: ((wS3 b O s).cont ++ (wS3 b O s).brk)) := by
    refine S.weaken (by simp) ?_
    intro o ho
    rcases List.mem_cons.mp ho with h | h
    · exact InR.ofMem S hl1.1 (by simp [h])
    · rcases List.mem_append.mp h with h | h
      · exact InR.weakenO (by simp) (hC o h)
      · exact InR.weakenO (by simp) (hB o h)
  have hl4 := SW.hlt hl1
  obtain ⟨C, hmem⟩ := contLoop_step cc (wBody O s) (wS3 b O s).cont (wS4 b O s) []
    ⟨fun o ho => hl4.1 o (by simp [ho]), hl4.2⟩
  have CW : Step (wS4 b O s) (wHb O s :: ((wS3 b O s).cont ++ (wS3 b O s).brk)) (wCl cc b O s).2
      (wHb O s :: wRb cc b O s) := by
    refine C.weaken (fun x hx => by simp [hx]) ?_
    intro o ho
    rcases List.mem_cons.mp ho with h | h
    · exact InR.ofMem C hl4.1 (by simp [h])
    · rcases List.mem_append.mp h with h | h
      · exact InR.weakenO (fun x hx => by simp [hx]) ((hmem o h).resolve_left (by simp))
      · exact InR.ofMem C hl4.1 (by simp [h])
  exact ⟨(T1.trans hl.1 SW).trans hl.1 CW, CW.atStart_false hl4.2 hA4⟩

theorem while_spec (cc : Option Nat) (b k : Stmt) (l c : Bool) (hb : CSpec (compile b) true c)
    (hk : CSpec (compile k) l c) : CSpec (compile (.while_ cc b k)) l c := by
  intro O s hl hJ hL
  obtain ⟨W, hA⟩ := wCl_step cc b c hb O s hl hJ
  have hlw := W.hlt hl
  cases cc with
  | none =>
    rw [compile_while_none]
    have X := (HeapExt.append (wCl none b O s).2 (wHb O s :: wRb none b O s) (wHb O s) (by simp)
      (.sub (wBody O s))).step hlw.1
    have hAx := X.atStart_false hlw.2 hA
    have hlx := X.hlt hlw
    obtain ⟨K, _⟩ := hk (wRb none b O s) _ ⟨fun o ho => hlx.1 o (by simp [ho]), hlx.2⟩
      (fun h => by rw [hAx] at h; cases h) (fun _ => hAx)
    have KW := K.weaken (O := wHb O s :: wRb none b O s) (fun x hx => by simp [hx])
      (fun o ho => InR.weakenO (fun x hx => by simp [hx]) (K.open_r o ho))
    exact ⟨(W.trans hl.1 X).trans hl.1 KW, JPost.of_false (K.atStart_false hlx.2 hAx)⟩
  | some c' =>
    rw [compile_while_some]
    have N := Step.newBlock (wCl (some c') b O s).2 (wHb O s :: wRb (some c') b O s) hlw.1 (some (wHb O s)) (by simp)
    have hln := N.hlt hlw
    have X := (HeapExt.append ((wCl (some c') b O s).2.newBlock (some (wHb O s))).2
      ((wCl (some c') b O s).2.next :: wHb O s :: wRb (some c') b O s) (wHb O s) (by simp)
      (.ite c' (wBody O s) (wCl (some c') b O s).2.next)).step hln.1
    have hAx := X.atStart_false hln.2 (N.atStart_false hlw.2 hA)
    have hlx := X.hlt hln
    obtain ⟨K, _⟩ := hk ((wCl (some c') b O s).2.next :: wRb (some c') b O s) _
      ⟨fun o ho => hlx.1 o (by simp at ho; rcases ho with h | h <;> simp [h]), hlx.2⟩
      (fun h => by rw [hAx] at h; cases h) (fun _ => hAx)
    have KW := K.weaken (O := (wCl (some c') b O s).2.next :: wHb O s :: wRb (some c') b O s)
      (fun x hx => by simp at hx; rcases hx with h | h <;> simp [h])
      (fun o ho => InR.weakenO (fun x hx => by simp at hx; rcases hx with h | h <;> simp [h]) (K.open_r o ho))
    exact ⟨((W.trans hl.1 N).trans hl.1 X).trans hl.1 KW, JPost.of_false (K.atStart_false hlx.2 hAx)⟩


/-- structural summary of `compile` for every well-formed statement -/
theorem compile_spec : ∀ (p : Stmt) (l c : Bool), wf p l c = true → CSpec (compile p) l c := by
  intro p
  induction p with
  | skip => intro l c _; exact skip_spec l c
  | act a k ih => intro l c h; exact act_spec a k l c (ih l c (by simpa [wf] using h))
  | await cc k ih => intro l c h; exact await_spec cc k l c (ih l c (by simpa [wf] using h))
  | awaitF =>
    intro l c h
    have : c = false := by simpa [wf] using h
    subst this; exact awaitF_spec l
  | ite cc t e k iht ihe ihk =>
    intro l c h
    simp only [wf, Bool.and_eq_true] at h
    exact ite_spec cc t e k l c (iht l c h.1.1) (ihe l c h.1.2) (ihk l c h.2)
  | while_ cc b k ihb ihk =>
    intro l c h
    simp only [wf, Bool.and_eq_true] at h
    exact while_spec cc b k l c (ihb true c h.1) (ihk l c h.2)
  | brk => intro l c h; have : l = true := by simpa [wf] using h
           subst this; exact brk_spec c
  | cont => intro l c h; have : l = true := by simpa [wf] using h
            subst this; exact cont_spec c
  | ret => intro l c h; have : c = true := by simpa [wf] using h
           subst this; exact ret_spec l
  | call b k ihb ihk =>
    intro l c h
    simp only [wf, Bool.and_eq_true] at h
    exact call_spec b k l c (ihb false true h.1) (ihk l c h.2)

end CohdlVerif.C01
