import CohdlVerif.Lemmas.C01Y4

/-! C01 - whole grammar: forward invariant for every well-formed statement; a block that received a front
    transition is no longer pending -/
namespace CohdlVerif.C01

theorem fwdW : ∀ (t : Stmt) (l c : Bool), wf t l c = true → FwdG (compile t) l := by
  intro t
  induction t with
  | skip => intro l c _; exact fwd_skip l
  | act a k ih =>
    intro l c h
    have hk : wf k l c = true := by simpa [wf] using h
    exact fwd_act a k l c (compile_spec k l c hk) (ih l c hk)
  | await cc k ih =>
    intro l c h
    have hk : wf k l c = true := by simpa [wf] using h
    exact fwd_await cc k l c (compile_spec k l c hk) (ih l c hk)
  | awaitF => intro l c _; exact fwd_awaitF l
  | ite cc t e k iht ihe ihk =>
    intro l c h
    simp only [wf, Bool.and_eq_true] at h
    exact fwd_ite cc t e k l c (compile_spec t l c h.1.1) (compile_spec e l c h.1.2) (compile_spec k l c h.2)
      (iht l c h.1.1) (ihe l c h.1.2) (ihk l c h.2)
  | while_ cc b k ihb ihk =>
    intro l c h
    simp only [wf, Bool.and_eq_true] at h
    exact fwd_while cc b k l c (compile_spec b true c h.1) (compile_spec k l c h.2) (ihb true c h.1) (ihk l c h.2)
  | brk => intro l c h; have : l = true := by simpa [wf] using h
           subst this; exact fwd_brk
  | cont => intro l c h; have : l = true := by simpa [wf] using h
            subst this; exact fwd_cont
  | ret => intro l c _; exact fwd_ret l
  | call b k ihb ihk =>
    intro l c h
    simp only [wf, Bool.and_eq_true] at h
    exact fwd_call b k l c (compile_spec b false true h.1) (compile_spec k l c h.2) (ihb false true h.1) (ihk l c h.2)

/-- a block with a front transition is not among the pending outputs -/
theorem front_not_pending {s s' : CSt} {O' : List Nat} (h : FPost s O' s') {x : Nat} (hf : (s'.heap x).front ≠ []) :
    x ∉ Outs s O' s' := fun hm => hf (h.2 x hm)

theorem suffix_ne_nil {α : Type} {a b : List α} (h : a <:+ b) (ha : a ≠ []) : b ≠ [] := by
  obtain ⟨t, rfl⟩ := h
  intro e
  exact ha (List.append_eq_nil_iff.mp e).2

/-- after a non-fresh `await` the block it was reached from is no longer pending -/
theorem await_not_pending (cc : Option Nat) (k : Stmt) (l c : Bool) (hk : wf k l c = true) (x : Nat) (s : CSt)
    (hi : Inv s [x]) (hA : s.atStart = false) :
    x ∉ Outs s (compile (.await cc k) [x] s).1 (compile (.await cc k) [x] s).2 := by
  have hw : wf (.await cc k) l c = true := by simpa [wf] using hk
  have F := fwdW (.await cc k) l c hw [x] s hi (fun _ => hA)
  apply front_not_pending F
  obtain ⟨e1, e2, e3, e4, e5, e6, e7, e8⟩ := enter_nostart_facts hi hA
  have hx : x < s.next := hi.hlt.1 x (by simp)
  have hf0 : ((enterState [x] s).2.2.heap x).front ≠ [] := by rw [e7 x (by simp)]; simp
  have hks := compile_spec k l c hk
  cases cc with
  | none =>
    rw [compile_await_none]
    simp only [List.isEmpty_cons, Bool.false_eq_true, if_false]
    have hi0 := hi.enter (by simp)
    have Tk := hks.step hi0 (fun _ => e8)
    exact suffix_ne_nil (Tk.front_mono x (by omega)) hf0
  | some c' =>
    rw [compile_await_some]
    simp only [List.isEmpty_cons, Bool.false_eq_true, if_false]
    have hnb : (enterState [x] s).2.1 < (enterState [x] s).2.2.next := by omega
    have T1 := itePre_step c' _ _ hnb
    have hl0 : Hlt (enterState [x] s).2.2 [(enterState [x] s).2.1] := ⟨by simpa using hnb, by omega⟩
    have hl1 := T1.hlt hl0
    have hA1 := T1.atStart_false hl0.2 e8
    have hi1 := Inv.single (hl1.1 _ (by simp)) hl1.2 hA1 (itePre_child_front c' (enterState [x] s).2.1 (enterState [x] s).2.2)
    have Tk := hks.step hi1 (fun _ => hA1)
    exact suffix_ne_nil ((T1.front_mono x (by omega)).trans (Tk.front_mono x (by have := T1.next_le; omega))) hf0


/-- after a loop entered after the start the block it was reached from is no longer pending -/
theorem while_not_pending (cc : Option Nat) (b k : Stmt) (l c : Bool) (hb : wf b true c = true) (hk : wf k l c = true)
    (x : Nat) (s : CSt) (hi : Inv s [x]) (hsi : SInv s) (hA : s.atStart = false) :
    x ∉ Outs s (compile (.while_ cc b k) [x] s).1 (compile (.while_ cc b k) [x] s).2 := by
  have hw : wf (.while_ cc b k) l c = true := by simp [wf, hb, hk]
  have F := fwdW (.while_ cc b k) l c hw [x] s hi (fun _ => hA)
  apply front_not_pending F
  rw [compile_while]
  have hx : x < s.next := hi.hlt.1 x (by simp)
  obtain ⟨_, _, f3, f4, _, _, _, _, f8⟩ := wS1_ns [x] s hi hA
  have X := wctx cc b c (compile_spec b true c hb) (fwdW b true c hb) [x] s hi hsi
  have hlw := X.W.hlt hi.hlt
  obtain ⟨XF, _, AX, _, _, _, _, _⟩ := wSX_facts cc b [x] s hlw X.A5
  have hlx := XF.hlt hlw
  have Tk := ((compile_spec k l c hk) _ _ hlx (fun h => by rw [AX] at h; cases h) (fun _ => AX)).1
  have hf1 : ((wS1 [x] s).heap x).front ≠ [] := by rw [f8 x (by simp)]; simp
  have hx1 : x < (wS1c [x] s).next := by have : (wS1c [x] s).next = (wS1 [x] s).next := rfl; omega
  have hxb : x ∉ (wR b [x] s).1 := fun hm => by
    rcases (X.B.open_r x hm).1 with h | h
    · simp at h; omega
    · omega
  have h4 : ((wS4 b [x] s).heap x).front ≠ [] := by
    rw [X.h3' x hxb]
    exact suffix_ne_nil (X.B.front_mono x hx1) hf1
  have hx4 : x < (wS4 b [x] s).next := by rw [X.next4]; have := X.B.next_le; omega
  have hx5 : x < (wCl cc b [x] s).2.next := by have := X.CL.next_le; omega
  exact suffix_ne_nil (((X.CL.front_mono x hx4).trans (XF.front_mono x hx5)).trans
    (Tk.front_mono x (by have := XF.next_le; omega))) h4

end CohdlVerif.C01
