import CohdlVerif.Model.CoroCompile

/-!
  C01 - semantics of the block heap of the compiler mirror (Model/CoroCompile.lean) and its connection with
  the exported `Code` (`flatB`).  Used by Lemmas/C01Compile.lean.
-/
namespace CohdlVerif.C01

variable {σ : Type} (act : Nat → σ → σ) (cond : Nat → σ → Bool)

/-- "the later transition wins": `por later earlier` -/
def por (a b : Option Nat) : Option Nat := match a with | some x => some x | none => b

@[simp] theorem por_none_left (b : Option Nat) : por none b = b := rfl
@[simp] theorem por_some_left (x : Nat) (b : Option Nat) : por (some x) b = some x := rfl
@[simp] theorem por_none_right (a : Option Nat) : por a none = a := by cases a <;> rfl
theorem por_assoc (a b c : Option Nat) : por (por a b) c = por a (por b c) := by cases a <;> rfl

/-- the pending transition at entry is only a default -/
theorem exec_pend (c : Code) : ∀ (s : σ) (p : Option Nat),
    exec act cond c s p = ((exec act cond c s none).1, por (exec act cond c s none).2 p) := by
  induction c with
  | nil => intro s p; simp [exec]
  | act a k ih => intro s p; simp only [exec]; exact ih _ _
  | trans t k ih =>
    intro s p; simp only [exec]
    rw [ih s (some t)]
    cases h : (exec act cond k s none).2 <;> simp [por]
  | ite c t e k iht ihe ihk =>
    intro s p
    simp only [exec]
    cases cond c s
    · simp only [Bool.false_eq_true, if_false]
      rw [ihk (exec act cond e s p).1 (exec act cond e s p).2,
          ihk (exec act cond e s none).1 (exec act cond e s none).2, ihe s p]
      simp [por_assoc]
    · simp only [if_true]
      rw [ihk (exec act cond t s p).1 (exec act cond t s p).2,
          ihk (exec act cond t s none).1 (exec act cond t s none).2, iht s p]
      simp [por_assoc]

/-- semantics of block items, relative to the semantics `E` of the blocks they refer to (entry: nothing pending) -/
def execI (E : Nat → σ → σ × Option Nat) : List Item → σ → σ × Option Nat
  | [], s => (s, none)
  | .act a :: r, s => execI E r (act a s)
  | .ite c t e :: r, s =>
      let r1 := if cond c s then E t s else E e s
      let r2 := execI E r r1.1
      (r2.1, por r2.2 r1.2)
  | .sub b :: r, s =>
      let r1 := E b s
      let r2 := execI E r r1.1
      (r2.1, por r2.2 r1.2)
  | .nop :: r, s => execI E r s

/-- the effective front transition = the last one in content order -/
def lastT : List Nat → Option Nat
  | [] => none
  | [t] => some t
  | _ :: r => lastT r

/-- semantics of a block: items, else the front transition -/
def execB (E : Nat → σ → σ × Option Nat) (b : Blk) (s : σ) : σ × Option Nat :=
  let r := execI act cond E b.items s
  (r.1, por r.2 (lastT b.front))

theorem execI_append (E : Nat → σ → σ × Option Nat) (xs ys : List Item) : ∀ s : σ,
    execI act cond E (xs ++ ys) s =
      ((execI act cond E ys (execI act cond E xs s).1).1,
       por (execI act cond E ys (execI act cond E xs s).1).2 (execI act cond E xs s).2) := by
  induction xs with
  | nil => intro s; simp [execI]
  | cons x xs ih =>
    intro s
    cases x with
    | act a => simp only [List.cons_append, execI]; exact ih _
    | nop => simp only [List.cons_append, execI]; exact ih _
    | ite c t e => simp only [List.cons_append, execI]; rw [ih]; simp [por_assoc]
    | sub b => simp only [List.cons_append, execI]; rw [ih]; simp [por_assoc]


/-- block semantics induced by a (partial) export function -/
def Eof (deref : Nat → Code → Option Code) (b : Nat) (s : σ) : σ × Option Nat :=
  match deref b .nil with
  | some c => exec act cond c s none
  | none => (s, none)

/-- `deref b k` = code of `b`, then `k` -/
def DerefOk (deref : Nat → Code → Option Code) : Prop :=
  ∀ b k c, deref b k = some c → ∃ c0, deref b .nil = some c0 ∧
    ∀ (s : σ) (p : Option Nat), exec act cond c s p =
      exec act cond k (exec act cond c0 s none).1 (por (exec act cond c0 s none).2 p)

theorem flatItems_exec (deref : Nat → Code → Option Code) (hd : DerefOk act cond deref) (items : List Item) :
    ∀ (k c : Code), flatItems deref items k = some c → ∀ (s : σ) (p : Option Nat),
      exec act cond c s p =
        exec act cond k (execI act cond (Eof act cond deref) items s).1
          (por (execI act cond (Eof act cond deref) items s).2 p) := by
  induction items with
  | nil => intro k c h s p; simp [flatItems] at h; subst h; simp [execI]
  | cons x xs ih =>
    intro k c h s p
    cases x with
    | act a =>
      simp only [flatItems, Option.map_eq_some_iff] at h
      obtain ⟨c', h', rfl⟩ := h
      simp only [exec, execI]; exact ih _ _ h' _ _
    | nop => simp only [flatItems] at h; simp only [execI]; exact ih _ _ h _ _
    | ite cc t e =>
      simp only [flatItems] at h
      split at h
      · rename_i ct ce cr ht he hr
        simp only [Option.some.injEq] at h; subst h
        simp only [exec, execI, Eof, ht, he]
        rw [ih _ _ hr]
        cases cond cc s
        · simp only [Bool.false_eq_true, if_false]
          rw [exec_pend act cond ce s p]; simp [por_assoc]
        · simp only [if_true]
          rw [exec_pend act cond ct s p]; simp [por_assoc]
      · simp at h
    | sub b =>
      simp only [flatItems, Option.bind_eq_some_iff] at h
      obtain ⟨cr, hr, hb⟩ := h
      obtain ⟨c0, hc0, hex⟩ := hd _ _ _ hb
      rw [hex, ih _ _ hr]
      simp only [execI, Eof, hc0, por_assoc]

theorem lastT_cons (a : Nat) (r : List Nat) : ∃ x, lastT (a :: r) = some x := by
  induction r generalizing a with
  | nil => exact ⟨a, rfl⟩
  | cons b r ih => obtain ⟨x, hx⟩ := ih b; exact ⟨x, by simpa [lastT] using hx⟩

theorem frontCode_exec (fr : List Nat) : ∀ (k : Code) (s : σ) (p : Option Nat),
    exec act cond (frontCode true fr k) s p = exec act cond k s (por (lastT fr) p) := by
  induction fr with
  | nil => intro k s p; simp [frontCode, lastT]
  | cons t r ih =>
    intro k s p
    simp only [frontCode, if_true, exec]
    rw [ih]
    cases r with
    | nil => simp [lastT]
    | cons t' r' => obtain ⟨x, hx⟩ := lastT_cons t' r'; simp [lastT, hx]


theorem flatItems_mono (d d' : Nat → Code → Option Code) (h : ∀ b k c, d b k = some c → d' b k = some c)
    (items : List Item) : ∀ k c, flatItems d items k = some c → flatItems d' items k = some c := by
  induction items with
  | nil => intro k c hc; simpa [flatItems] using hc
  | cons x xs ih =>
    intro k c hc
    cases x with
    | act a =>
      simp only [flatItems, Option.map_eq_some_iff] at hc ⊢
      obtain ⟨c', h', rfl⟩ := hc
      exact ⟨c', ih _ _ h', rfl⟩
    | nop => simp only [flatItems] at hc ⊢; exact ih _ _ hc
    | ite cc t e =>
      simp only [flatItems] at hc ⊢
      split at hc
      · rename_i ct ce cr ht he hr
        rw [h _ _ _ ht, h _ _ _ he, ih _ _ hr]; exact hc
      · simp at hc
    | sub b =>
      simp only [flatItems, Option.bind_eq_some_iff] at hc ⊢
      obtain ⟨cr, hr, hb⟩ := hc
      exact ⟨cr, ih _ _ hr, h _ _ _ hb⟩

theorem flatB_mono (keepT : Bool) (H : Nat → Blk) : ∀ f b k c,
    flatB keepT H f b k = some c → flatB keepT H (f+1) b k = some c := by
  intro f
  induction f with
  | zero => intro b k c h; simp [flatB] at h
  | succ f ih =>
    intro b k c h
    simp only [flatB, Option.map_eq_some_iff] at h ⊢
    obtain ⟨ci, hci, rfl⟩ := h
    refine ⟨ci, flatItems_mono _ _ ?_ _ _ _ hci, rfl⟩
    intro b' k' c' h'
    have := ih b' k' c' h'
    simpa [flatB] using this

theorem flatB_mono_le (keepT : Bool) (H : Nat → Blk) (f f' : Nat) (hle : f ≤ f') (b : Nat) (k c : Code)
    (h : flatB keepT H f b k = some c) : flatB keepT H f' b k = some c := by
  induction hle with
  | refl => exact h
  | step _ ih => exact flatB_mono _ _ _ _ _ _ ih

/-- whether the export succeeds does not depend on the continuation -/
def KInd (d : Nat → Code → Option Code) : Prop := ∀ b k k', (d b k).isSome → (d b k').isSome

theorem flatItems_kind (d : Nat → Code → Option Code) (hd : KInd d)
    (items : List Item) : ∀ k k', (flatItems d items k).isSome → (flatItems d items k').isSome := by
  induction items with
  | nil => intro k k' _; simp [flatItems]
  | cons x xs ih =>
    intro k k' hc
    cases x with
    | act a =>
      simp only [flatItems, Option.isSome_map] at hc ⊢
      exact ih _ _ hc
    | nop => simp only [flatItems] at hc ⊢; exact ih _ _ hc
    | ite cc t e =>
      simp only [flatItems] at hc ⊢
      split at hc
      · rename_i ct ce cr ht he hr
        have h1 := ih k k' (by simp [hr])
        obtain ⟨c0, h0⟩ := Option.isSome_iff_exists.mp h1
        simp [ht, he, h0]
      · simp at hc
    | sub b =>
      simp only [flatItems] at hc ⊢
      obtain ⟨c, hc'⟩ := Option.isSome_iff_exists.mp hc
      simp only [Option.bind_eq_some_iff] at hc'
      obtain ⟨cr, hr, hb⟩ := hc'
      have h1 := ih k k' (by simp [hr])
      obtain ⟨c0, h0⟩ := Option.isSome_iff_exists.mp h1
      have h2 := hd b cr c0 (by simp [hb])
      obtain ⟨c1, h1'⟩ := Option.isSome_iff_exists.mp h2
      simp [h0, h1']

theorem flatB_kind (keepT : Bool) (H : Nat → Blk) : ∀ f, KInd (flatB keepT H f) := by
  intro f
  induction f with
  | zero => intro b k k' h; simp [flatB] at h
  | succ f ih =>
    intro b k k' h
    simp only [flatB, Option.isSome_map] at h ⊢
    exact flatItems_kind _ ih _ _ _ h


theorem flatB_derefOk (H : Nat → Blk) : ∀ f, DerefOk act cond (flatB true H f) := by
  intro f
  induction f with
  | zero => intro b k c h; simp [flatB] at h
  | succ f ih =>
    intro b k c h
    have hk := flatB_kind true H (f+1) b k .nil (by simp [h])
    obtain ⟨c0, hc0⟩ := Option.isSome_iff_exists.mp hk
    refine ⟨c0, hc0, ?_⟩
    simp only [flatB, Option.map_eq_some_iff] at h hc0
    obtain ⟨ci, hci, rfl⟩ := h
    obtain ⟨ci0, hci0, rfl⟩ := hc0
    intro s p
    rw [frontCode_exec, frontCode_exec, flatItems_exec act cond _ ih _ _ _ hci,
        flatItems_exec act cond _ ih _ _ _ hci0]
    simp [exec, por_assoc]

/-- if every block can be exported with fuel `N`, the induced block semantics is a fixed point of `execB` -/
theorem heap_fix (H : Nat → Blk) (N : Nat) (hall : ∀ b, (flatB true H N b .nil).isSome) (b : Nat) (s : σ) :
    Eof act cond (flatB true H N) b s = execB act cond (Eof act cond (flatB true H N)) (H b) s := by
  obtain ⟨c, hc⟩ := Option.isSome_iff_exists.mp (hall b)
  have h1 := flatB_mono true H N b .nil c hc
  simp only [flatB, Option.map_eq_some_iff] at h1
  obtain ⟨ci, hci, rfl⟩ := h1
  simp only [Eof, hc, execB]
  rw [frontCode_exec, flatItems_exec act cond _ (flatB_derefOk act cond H N) _ _ _ hci]
  simp [exec, Eof]

end CohdlVerif.C01
