import CohdlVerif.Model.C20

/-!
  C20 - helper lemmas: address containment, `stretch` / `apply_mask` bit lemmas, invariants of the two
  slave state machines.
-/
namespace CohdlVerif.C20

/-! ## address containment -/

theorem isPow2_pos {n : Nat} (h : isPow2 n = true) : 0 < n := by
  unfold isPow2 at h
  simp only [Bool.and_eq_true, bne_iff_ne, ne_eq, beq_iff_eq] at h
  omega

theorem isPow2_eq {n : Nat} (h : isPow2 n = true) : 2 ^ Nat.log2 n = n := by
  unfold isPow2 at h
  simp only [Bool.and_eq_true, bne_iff_ne, ne_eq, beq_iff_eq] at h
  exact h.2

/-- a quotient test on an aligned block is the range test -/
theorem div_eq_iff_range (count offset addr : Nat) (hc : 0 < count) (ha : offset % count = 0) :
    (addr / count = offset / count) ↔ (offset ≤ addr ∧ addr < offset + count) := by
  have hd : offset / count * count = offset := Nat.div_mul_cancel (Nat.dvd_of_mod_eq_zero ha)
  rw [Nat.div_eq_iff hc, hd]
  omega

/-- the mirror of `_contains_addr_` decides exactly `offset ≤ addr < offset + count` (both paths) -/
theorem containsAddr_iff (offset count addr : Nat) (hc : 0 < count) :
    containsAddr offset count addr = true ↔ inRange offset count addr := by
  unfold containsAddr inRange
  split
  · rename_i h
    simp only [Bool.and_eq_true, beq_iff_eq] at h
    have h2 := isPow2_eq h.1
    rw [Nat.shiftRight_eq_div_pow, h2, beq_iff_eq]
    exact div_eq_iff_range count offset addr hc h.2
  · simp

/-! ## stretch / apply_mask -/

theorem testBit_stretch (w f v i : Nat) (hf : 0 < f) :
    (stretch w f v).testBit i = (decide (i / f < w) && v.testBit (i / f)) := by
  induction w with
  | zero => simp [stretch]
  | succ w ih =>
    simp only [stretch, Nat.testBit_or, ih]
    by_cases hb : v.testBit w = true
    · simp only [hb, if_true, Nat.testBit_shiftLeft, Nat.testBit_two_pow_sub_one]
      by_cases hlt : i / f < w
      · have h0 : ¬ (f * w ≤ i) := by
          have := (Nat.div_lt_iff_lt_mul hf).mp hlt
          rw [Nat.mul_comm] at this
          omega
        simp [hlt, Nat.lt_succ_of_lt hlt, h0]
      · by_cases heq : i / f = w
        · have h1 : f * w ≤ i := by rw [← heq]; exact Nat.mul_div_le i f
          have h2 : i - f * w < f := by
            have := Nat.lt_mul_div_succ i hf
            rw [heq] at this
            have : i < f * w + f := by rw [Nat.mul_succ] at this; exact this
            omega
          simp [heq, hb, h1, h2]
        · have hgt : w < i / f := by omega
          have h3 : ¬ (i - f * w < f) := by
            intro hh
            have : i < f * (w + 1) := by rw [Nat.mul_succ]; omega
            have := (Nat.div_lt_iff_lt_mul hf).mpr (by rw [Nat.mul_comm]; exact this)
            omega
          have h4 : ¬ (i / f < w + 1) := by omega
          simp [hlt, h3, h4]
    · simp only [Bool.not_eq_true] at hb
      simp only [hb, Bool.false_eq_true, if_false, Nat.zero_testBit, Bool.or_false]
      by_cases hlt : i / f < w
      · simp [hlt, Nat.lt_succ_of_lt hlt]
      · by_cases heq : i / f = w
        · simp [heq, hb]
        · have h4 : ¬ (i / f < w + 1) := by omega
          simp [hlt, h4]

theorem testBit_M32 (i : Nat) : M32.testBit i = decide (i < 32) := by
  have : M32 = 2 ^ 32 - 1 := by decide
  rw [this, Nat.testBit_two_pow_sub_one]

/-- bit i of the byte-strobe mask `stretch(strb, 8)` of a 4-bit strobe -/
def strobed (strb i : Nat) : Bool := decide (i / 8 < 4) && strb.testBit (i / 8)

theorem testBit_applyMask (old new mask i : Nat) :
    (applyMask old new mask).testBit i =
      ((old.testBit i && (mask.testBit i ^^ decide (i < 32))) || (new.testBit i && mask.testBit i)) := by
  simp [applyMask, Nat.testBit_or, Nat.testBit_and, Nat.testBit_xor, testBit_M32]

/-- `apply_mask(old, new, stretch(strb, 8))`: strobed bits come from `new`, the others (below bit 32) from `old` -/
theorem testBit_applyMask_stretch (old new strb i : Nat) (hi : i < 32) :
    (applyMask old new (stretch 4 8 strb)).testBit i = (if strobed strb i then new.testBit i else old.testBit i) := by
  rw [testBit_applyMask, testBit_stretch 4 8 strb i (by omega)]
  unfold strobed
  cases h : (decide (i / 8 < 4) && strb.testBit (i / 8)) <;> simp [hi]

end CohdlVerif.C20

namespace CohdlVerif.C20

/-! ## handshake bookkeeping of the slave state machines -/

/-- handshakes seen on the five channels since the last reset -/
structure Cnt where
  aw : Nat := 0
  w : Nat := 0
  b : Nat := 0
  ar : Nat := 0
  r : Nat := 0
  deriving Repr, DecidableEq

def b2n (b : Bool) : Nat := if b then 1 else 0

/-- a handshake happens on a channel in a clock iff valid and ready are both high at the rising edge -/
def cntStep (c : Core) (i : In) (n : Cnt) : Cnt :=
  if i.rst then {} else
  { aw := n.aw + b2n (i.awvalid && c.wr.awready)
    w := n.w + b2n (i.wvalid && c.wr.wready)
    b := n.b + b2n (c.wr.bvalid && i.bready)
    ar := n.ar + b2n (i.arvalid && c.rd.arready)
    r := n.r + b2n (c.rd.rvalid && i.rready) }

/-- invariant of `proc_write` together with the handshake counters -/
def WInv (c : WrCore) (n : Cnt) : Prop :=
  (c.ws = 0 ∧ c.awready = false ∧ c.wready = false ∧ c.bvalid = false ∧ n.aw = n.b ∧ n.w = n.b) ∨
  (c.ws = 1 ∧ c.awready = !c.aL ∧ c.wready = !c.dL ∧ c.bvalid = false ∧
     n.aw = n.b + b2n c.aL ∧ n.w = n.b + b2n c.dL ∧ (c.aL && c.dL) = false) ∨
  (c.ws = 2 ∧ c.awready = false ∧ c.wready = false ∧ c.bvalid = true ∧ n.aw = n.b + 1 ∧ n.w = n.b + 1)

/-- invariant of `proc_read` together with the handshake counters -/
def RInv (c : RdCore) (n : Cnt) : Prop :=
  (c.rs = 0 ∧ c.arready = false ∧ c.rvalid = false ∧ n.ar = n.r) ∨
  (c.rs = 1 ∧ c.arready = true ∧ c.rvalid = false ∧ n.ar = n.r) ∨
  (c.rs = 2 ∧ c.arready = false ∧ c.rvalid = true ∧ n.ar = n.r + 1)

theorem WInv_init : WInv {} {} := by simp [WInv]
theorem RInv_init : RInv {} {} := by simp [RInv]

theorem WInv_step (c : Core) (i : In) (n : Cnt) (hr : i.rst = false) (h : WInv c.wr n) :
    WInv (wrStep c.wr i) (cntStep c i n) := by
  rcases h with ⟨hs, h1, h2, h3, h4, h5⟩ | ⟨hs, h1, h2, h3, h4, h5, h6⟩ | ⟨hs, h1, h2, h3, h4, h5⟩
  · refine Or.inr (Or.inl ?_)
    simp [wrStep, cntStep, hr, hs, h1, h2, h3, b2n, h4, h5]
  · cases haL : c.wr.aL <;> cases hdL : c.wr.dL <;> cases hav : i.awvalid <;> cases hwv : i.wvalid <;>
      simp [haL, hdL] at h6 <;>
      simp [haL, hdL, b2n] at h4 h5 <;>
      simp [WInv, wrStep, cntStep, hr, hs, h1, h2, h3, b2n, haL, hdL, hav, hwv, wrAddr, wrData, wrStrb] <;> omega
  · cases hb : i.bready <;>
      simp [WInv, wrStep, cntStep, hr, hs, h1, h2, h3, b2n, hb] <;> omega

theorem RInv_step (c : Core) (i : In) (n : Cnt) (rd : Nat) (hr : i.rst = false) (h : RInv c.rd n) :
    RInv (rdStep c.rd i rd) (cntStep c i n) := by
  rcases h with ⟨hs, h1, h2, h3⟩ | ⟨hs, h1, h2, h3⟩ | ⟨hs, h1, h2, h3⟩
  · refine Or.inr (Or.inl ?_)
    simp [rdStep, cntStep, hr, hs, h1, h2, h3, b2n]
  · cases hv : i.arvalid <;>
      simp [RInv, rdStep, cntStep, hr, hs, h1, h2, h3, b2n, hv]
  · cases hv : i.rready <;>
      simp [RInv, rdStep, cntStep, hr, hs, h1, h2, h3, b2n, hv] <;> omega

end CohdlVerif.C20

namespace CohdlVerif.C20

/-! ## register bank -/

/-- what one clock does to register j of the bank -/
theorem bank_step_get (cfg : Cfg) (st : State) (i : In) (hr : i.rst = false) (j : Nat) (s : RegSt)
    (hs : st.bank[j]? = some s) :
    (step cfg st i).bank[j]? = some
      (regStep cfg.fixed cfg.aw (cfg.regs.getD j dfltReg) s (i.hw.getD j {})
        (rdSel cfg st.core i == some j) (wrSel cfg st.core i == some j)
        (wrAddr st.core.wr i) (wrData st.core.wr i) (wrStrb st.core.wr i)) := by
  simp [step, hr, bankStep, List.getElem?_mapIdx, hs]

theorem regStep_not_selected (fixed : Bool) (aw : Nat) (r : Reg) (s : RegSt) (h : Hw) (rd : Bool) (addr data strb : Nat) :
    (regStep fixed aw r s h rd false addr data strb).mem = s.mem ∧
    (regStep fixed aw r s h rd false addr data strb).tx = s.tx ∧
    (regStep fixed aw r s h rd false addr data strb).aux = s.aux ∧
    (regStep fixed aw r s h rd false addr data strb).words = s.words := by
  simp [regStep]

end CohdlVerif.C20

namespace CohdlVerif.C20

/-- the field kinds of a register class occupy disjoint bits (what `Register.__init_subclass__` asserts) -/
def disjointMasks (r : Reg) : Prop :=
  ∀ b, (r.memMask.testBit b = true → r.hwMask.testBit b = false ∧ r.flagMask.testBit b = false) ∧
       (r.flagMask.testBit b = true → r.hwMask.testBit b = false)

theorem regStep_memWord (fixed : Bool) (aw : Nat) (r : Reg) (s : RegSt) (h : Hw) (rd : Bool) (addr data strb : Nat)
    (hk : r.kind = .memWord) (b : Nat) (hb : b < 32) :
    (regStep fixed aw r s h rd true addr data strb).mem.testBit b =
      (if strobed strb b then data.testBit b else s.mem.testBit b) := by
  simp only [regStep, hk, Bool.not_true, Bool.false_eq_true, if_false]
  exact testBit_applyMask_stretch _ _ _ b hb

theorem regStep_register_mem (aw : Nat) (r : Reg) (s : RegSt) (h : Hw) (rd : Bool) (addr data strb : Nat)
    (hk : r.kind = .register) (hdis : disjointMasks r) (b : Nat) (hb : b < 32) (hm : r.memMask.testBit b = true) :
    (regStep true aw r s h rd true addr data strb).mem.testBit b =
      (if strobed strb b then data.testBit b else s.mem.testBit b) := by
  have hd := (hdis b).1 hm
  simp only [regStep, hk, Bool.not_true, Bool.false_eq_true, if_false, if_true, Nat.testBit_and, hm, Bool.and_true]
  rw [testBit_applyMask_stretch _ _ _ b hb]
  split
  · rfl
  · simp [regValue, hk, Nat.testBit_or, Nat.testBit_and, hm, hd.1, hd.2]

theorem regStep_register_flag (aw : Nat) (r : Reg) (s : RegSt) (h : Hw) (rd : Bool) (addr data strb : Nat)
    (hk : r.kind = .register) (hdis : disjointMasks r) (b : Nat) (hb : b < 32) (hm : r.flagMask.testBit b = true)
    (hc : h.clr.testBit b = false) :
    ((regStep true aw r s h rd true addr data strb).tx ^^^ (regStep true aw r s h rd true addr data strb).rx).testBit b =
      ((s.tx ^^^ s.rx).testBit b || (strobed strb b && data.testBit b)) := by
  have hd := (hdis b).2 hm
  have hmm : r.memMask.testBit b = false := by
    cases hx : r.memMask.testBit b
    · rfl
    · have := ((hdis b).1 hx).2; simp [hm] at this
  simp only [regStep, hk, Bool.not_true, Bool.false_eq_true, if_false, if_true,
    Nat.testBit_and, Nat.testBit_or, Nat.testBit_xor, hm, Bool.and_true, hc, Bool.and_false,
    Bool.or_false, testBit_M32, hb, decide_true]
  rw [testBit_applyMask_stretch _ _ _ b hb]
  simp only [regValue, hk, Nat.testBit_or, Nat.testBit_and, Nat.testBit_xor, hm, hd, hmm, Bool.and_false, Bool.and_true,
    Bool.false_or, Bool.or_false]
  cases strobed strb b <;> cases data.testBit b <;> cases s.tx.testBit b <;> cases s.rx.testBit b <;> simp

theorem regStep_output (fixed : Bool) (aw : Nat) (r : Reg) (s : RegSt) (h : Hw) (rd : Bool) (addr data strb : Nat)
    (hk : r.kind = .output) (b : Nat) (hb : b < 32) (hm : r.memMask.testBit b = true) :
    (regStep fixed aw r s h rd true addr data strb).mem.testBit b =
      (if strobed strb b then data.testBit b else s.mem.testBit b) := by
  simp only [regStep, hk, Bool.not_true, Bool.false_eq_true, if_false, Nat.testBit_and, hm, Bool.and_true]
  exact testBit_applyMask_stretch _ _ _ b hb

theorem regStep_memory (fixed : Bool) (aw : Nat) (r : Reg) (s : RegSt) (h : Hw) (rd : Bool) (addr data strb : Nat)
    (hk : r.kind = .memory) (w : Nat) (b : Nat) (hb : b < 32) (hw : w < s.words.length) :
    ((regStep fixed aw r s h rd true addr data strb).words.getD w 0).testBit b =
      (if w = relAddr aw r addr / 4 then
         (if strobed strb b then data.testBit b else (s.words.getD w 0).testBit b)
       else (s.words.getD w 0).testBit b) := by
  simp only [regStep, hk, Bool.not_true, Bool.false_eq_true, if_false]
  by_cases he : w = relAddr aw r addr / 4
  · subst he
    simp only [if_true, List.getD_eq_getElem?_getD, List.getElem?_set_self hw, Option.getD_some]
    rw [testBit_applyMask_stretch _ _ _ b hb]
  · simp only [he, if_false, List.getD_eq_getElem?_getD]
    rw [List.getElem?_set_ne (Ne.symm he)]

theorem regStep_notify (fixed : Bool) (aw : Nat) (r : Reg) (s : RegSt) (h : Hw) (rd wr : Bool) (addr data strb : Nat)
    (hk : r.kind = .register) :
    let s' := regStep fixed aw r s h rd wr addr data strb
    (s'.pW = (wr && r.pushW)) ∧ (s'.pR = (rd && r.pushR)) ∧
    (wr = true → r.flagW = true → h.nclrW = false → s'.fWtx ≠ s'.fWrx) ∧
    (rd = true → r.flagR = true → h.nclrR = false → s'.fRtx ≠ s'.fRrx) ∧
    (wr = false → s'.fWtx = s.fWtx) ∧ (rd = false → s'.fRtx = s.fRtx) := by
  cases wr <;> cases rd <;> simp [regStep, hk] <;> (try (intros; simp_all))

end CohdlVerif.C20
