import CohdlVerif.Lemmas.C01Y9

/-! C01 - whole grammar: the simulation claim for every well-formed statement -/
namespace CohdlVerif.C01

section
variable {σ : Type} (act : Nat → σ → σ) (cond : Nat → σ → Bool)
variable (prog : Stmt) (Hf : Nat → Blk) (E : Nat → σ → σ × Option Nat) (Rf : Nat → Nat) (Sf : List Nat)

theorem simW (hE : ∀ b s, E b s = execB act cond E (Hf b) s) :
    ∀ (t : Stmt) (l c : Bool), wf t l c = true → SimG act cond prog Hf E Rf Sf t l := by
  intro t
  induction t with
  | skip => intro l c _; exact simG_skip act cond prog Hf E Rf Sf l
  | act a k ih =>
    intro l c h
    have hk : wf k l c = true := by simpa [wf] using h
    exact simG_act act cond prog Hf E Rf Sf a k l c (compile_spec k l c hk) (ih l c hk)
  | await cc k ih =>
    intro l c h
    have hk : wf k l c = true := by simpa [wf] using h
    exact simG_await act cond prog Hf E Rf Sf hE cc k l c (compile_spec k l c hk) (ih l c hk)
  | awaitF => intro l c _; exact simG_awaitF act cond prog Hf E Rf Sf hE l
  | ite cc t e k iht ihe ihk =>
    intro l c h
    simp only [wf, Bool.and_eq_true] at h
    cases hr : (retAlways t && retAlways e) with
    | false =>
      exact simG_ite act cond prog Hf E Rf Sf hE cc t e k l c hr
        (compile_spec t l c h.1.1) (compile_spec e l c h.1.2) (compile_spec k l c h.2) (fwdW t l c h.1.1) (fwdW e l c h.1.2)
        (compile_badMono t) (compile_badMono e) (compile_badMono k) (iht l c h.1.1) (ihe l c h.1.2) (ihk l c h.2)
        (plainG_of_wf act cond Hf E Rf Sf hE t l c h.1.1) (plainG_of_wf act cond Hf E Rf Sf hE e l c h.1.2)
        (notrLists_of_wf t l c h.1.1) (notrLists_of_wf e l c h.1.2)
    | true =>
      exact simG_iteR act cond prog Hf E Rf Sf hE cc t e k l c hr
        (compile_spec t l c h.1.1) (compile_spec e l c h.1.2)
        (compile_badMono t) (compile_badMono e) (iht l c h.1.1) (ihe l c h.1.2)
        (plainG_of_wf act cond Hf E Rf Sf hE t l c h.1.1) (plainG_of_wf act cond Hf E Rf Sf hE e l c h.1.2)
        (notrLists_of_wf t l c h.1.1) (notrLists_of_wf e l c h.1.2)
  | while_ cc b k ihb ihk =>
    intro l c h
    simp only [wf, Bool.and_eq_true] at h
    exact simG_while act cond prog Hf E Rf Sf hE cc b k l c (compile_spec b true c h.1) (compile_spec k l c h.2)
      (fwdW b true c h.1) (compile_badMono k) (ihb true c h.1) (ihk l c h.2)
  | brk => intro l c _; exact simG_brk act cond prog Hf E Rf Sf l
  | cont => intro l c _; exact simG_cont act cond prog Hf E Rf Sf l
  | ret => intro l c _; exact simG_ret act cond prog Hf E Rf Sf l
  | call b k ihb ihk =>
    intro l c h
    simp only [wf, Bool.and_eq_true] at h
    exact simG_call act cond prog Hf E Rf Sf b k l c (compile_spec b false true h.1) (compile_spec k l c h.2)
      (fwdW b false true h.1) (ihb false true h.1) (ihk l c h.2)

end
end CohdlVerif.C01
