import CohdlVerif.Lemmas.C01Y1

/-! C01 - whole grammar: awaited sub-coroutines, structural context and forward invariant -/
namespace CohdlVerif.C01

/-- state in which the body of a call is translated -/
def cIn (s : CSt) : CSt := { s with ret := [] }
/-- state in which the continuation of a call is translated -/
def cOut (b : Stmt) (O : List Nat) (s : CSt) : CSt := { (compile b O (cIn s)).2 with ret := s.ret }
/-- open blocks after the body: still open or returned -/
def cRes (b : Stmt) (O : List Nat) (s : CSt) : List Nat := (compile b O (cIn s)).1 ++ (compile b O (cIn s)).2.ret

theorem compile_callG (b k : Stmt) (O : List Nat) (s : CSt) (hO : O ≠ []) :
    compile (.call b k) O s = compile k (cRes b O s) (cOut b O s) := by
  rw [compile_call]
  have : O.isEmpty = false := by simpa using hO
  simp only [this]; rfl

/-- structural facts about a call -/
structure CCtx (b : Stmt) (O : List Nat) (s : CSt) : Prop where
  hiIn : Inv (cIn s) O
  B : Step (cIn s) O (compile b O (cIn s)).2 (compile b O (cIn s)).1
  FB : FPost (cIn s) (compile b O (cIn s)).1 (compile b O (cIn s)).2
  dRb : dR (cIn s) (compile b O (cIn s)).2 = (compile b O (cIn s)).2.ret
  BW : Step s O (cOut b O s) (cRes b O s)
  P1 : FPost s (cRes b O s) (cOut b O s)
  hi2 : Inv (cOut b O s) (cRes b O s)
  dBo : dB s (cOut b O s) = dB (cIn s) (compile b O (cIn s)).2
  dCo : dC s (cOut b O s) = dC (cIn s) (compile b O (cIn s)).2
  dRo : dR s (cOut b O s) = []
  AT : (cOut b O s).atStart = (compile b O (cIn s)).2.atStart

theorem cctx (b : Stmt) (hb : CSpec (compile b) false true) (fb : FwdG (compile b) false) (O : List Nat) (s : CSt)
    (hi : Inv s O) : CCtx b O s := by
  have hiIn : Inv (cIn s) O := ⟨hi.hlt, hi.start, hi.nodup, hi.front⟩
  obtain ⟨B, hj⟩ := hb O (cIn s) hiIn.hlt hiIn.start (fun h => by cases h)
  have FB : FPost (cIn s) (compile b O (cIn s)).1 (compile b O (cIn s)).2 := fb O (cIn s) hiIn (fun h => by cases h)
  have dRb : dR (cIn s) (compile b O (cIn s)).2 = (compile b O (cIn s)).2.ret := by simp [dR, cIn]
  obtain ⟨dRl, eR, rR⟩ := B.ret_r
  simp only [cIn, List.nil_append] at eR
  have B' : Step s O (cOut b O s) (compile b O (cIn s)).1 :=
    Step.relist (a := cIn s) (b := (compile b O (cIn s)).2) ⟨rfl, rfl, rfl, rfl⟩ ⟨rfl, rfl, rfl, rfl⟩ B
      B.brk_r B.cont_r ⟨[], by simp [cOut], by simp⟩
  have BW : Step s O (cOut b O s) (cRes b O s) := by
    refine B'.weaken (fun _ h => h) ?_
    intro o ho
    rcases List.mem_append.mp ho with h | h
    · exact B'.open_r o h
    · exact InR.same (a := cIn s) (b := (compile b O (cIn s)).2) ⟨rfl, rfl, rfl, rfl⟩ ⟨rfl, rfl, rfl, rfl⟩ (rR o (eR ▸ h))
  have dBo : dB s (cOut b O s) = dB (cIn s) (compile b O (cIn s)).2 := rfl
  have dCo : dC s (cOut b O s) = dC (cIn s) (compile b O (cIn s)).2 := rfl
  have dRo : dR s (cOut b O s) = [] := by simp [dR, cOut]
  have P1 : FPost s (cRes b O s) (cOut b O s) := by
    constructor
    · rw [List.nodup_iff_count]
      intro a
      have c1 := (List.nodup_iff_count.mp FB.1) a
      simp only [Outs, dRb, List.count_append] at c1
      simp only [Outs, cRes, dBo, dCo, dRo, List.count_append, List.count_nil]
      omega
    · intro y hy
      have : y ∈ Outs (cIn s) (compile b O (cIn s)).1 (compile b O (cIn s)).2 := by
        rw [mem_Outs, dBo, dCo, dRo] at hy
        simp only [cRes, List.mem_append, List.not_mem_nil, or_false] at hy
        rw [mem_Outs, dRb]
        rcases hy with (h | h) | h | h
        · exact Or.inl h
        · exact Or.inr (Or.inr (Or.inr h))
        · exact Or.inr (Or.inl h)
        · exact Or.inr (Or.inr (Or.inl h))
      exact FB.2 y this
  have AT : (cOut b O s).atStart = (compile b O (cIn s)).2.atStart := rfl
  have hi2 : Inv (cOut b O s) (cRes b O s) := by
    refine ⟨BW.hlt hi.hlt, ?_, P1.nodup_open, fun o ho => P1.2 o (mem_Outs.mpr (Or.inl ho))⟩
    intro h
    rw [AT] at h
    simp only [JPost] at hj
    rcases hj h with ⟨h1, h2⟩ | ⟨h1, _, h2⟩ | ⟨_, h2⟩
    · show (compile b O (cIn s)).1 ++ (compile b O (cIn s)).2.ret = [0]
      rw [h1, h2]; rfl
    · show (compile b O (cIn s)).1 ++ (compile b O (cIn s)).2.ret = [0]
      rw [h1, h2]; rfl
    · cases h2
  exact ⟨hiIn, B, FB, dRb, BW, P1, hi2, dBo, dCo, dRo, AT⟩

theorem fwd_call (b k : Stmt) (l c : Bool) (hb : CSpec (compile b) false true) (hk : CSpec (compile k) l c)
    (fb : FwdG (compile b) false) (fk : FwdG (compile k) l) : FwdG (compile (.call b k)) l := by
  intro O s hi hL
  by_cases hO : O = []
  · subst hO
    have e : compile (.call b k) [] s = compile k [] s := by rw [compile_call]; simp
    rw [e]; exact fk [] s hi hL
  · rw [compile_callG b k O s hO]
    have C := cctx b hb fb O s hi
    have hL2 : l = true → (cOut b O s).atStart = false := fun h => C.BW.atStart_false hi.hlt.2 (hL h)
    exact FPost.comp hi.hlt.1 C.BW (hk.step C.hi2 hL2) C.P1 (fk _ _ C.hi2 hL2)

end CohdlVerif.C01
