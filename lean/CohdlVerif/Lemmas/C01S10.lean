import CohdlVerif.Lemmas.C01S9

/-! C01 - general grammar: the `If` loop -/
namespace CohdlVerif.C01

/-- the `bad` flag is never reset -/
def BadMono (f : List Nat → CSt → List Nat × CSt) : Prop := ∀ O s, (f O s).2.bad = false → s.bad = false

theorem iteLoop_badMono (c : Nat) (ft fe : List Nat → CSt → List Nat × CSt) (ht : BadMono ft) (he : BadMono fe) :
    ∀ (bs : List Nat) (s : CSt) (acc : List Nat), (iteLoop c ft fe bs s acc).2.bad = false → s.bad = false := by
  intro bs
  induction bs with
  | nil => intro s acc h; exact h
  | cons b bs ih =>
    intro s acc h
    rw [iteLoop_cons] at h
    have h5 := ih _ _ h
    have h4 := he _ _ h5
    have h3 := ht _ _ h4
    exact h3

/-- a branch without transition does not touch the lists -/
def NoTrLists (t : Stmt) : Prop :=
  ∀ x s, Inv s [x] → SInv s → s.atStart = false → NoTr x (compile t [x] s).1 → SameLists s (compile t [x] s).2


section
variable {σ : Type} (act : Nat → σ → σ) (cond : Nat → σ → Bool)
variable (prog : Stmt) (Hf : Nat → Blk) (E : Nat → σ → σ × Option Nat) (Rf : Nat → Nat) (Sf : List Nat)

theorem iteLoop_simG (hE : ∀ b s, E b s = execB act cond E (Hf b) s) (c : Nat) (t1 e1 k : Stmt) (l cf : Bool)
    (ht : CSpec (compile t1) l cf) (he : CSpec (compile e1) l cf)
    (bt : BadMono (compile t1)) (be : BadMono (compile e1))
    (iht : SimG act cond prog Hf E Rf Sf t1 l) (ihe : SimG act cond prog Hf E Rf Sf e1 l)
    (pt : PlainG act cond Hf E Rf Sf t1) (pe : PlainG act cond Hf E Rf Sf e1)
    (nt : NoTrLists t1) (ne : NoTrLists e1)
    (st : List Frame) (m : Nat) (R0 : List Nat) (Pend : Nat → Prop) :
    ∀ (bs : List Nat) (s : CSt) (acc : List Nat), Hlt s bs → (s.atStart = true → bs = [0]) → bs.Nodup →
      (∀ b ∈ bs, (s.heap b).front = []) → SInv s → (∀ o ∈ acc, o < s.next ∧ o ∉ bs) →
      (iteLoop c (compile t1) (compile e1) bs s acc).2.bad = false →
      Fut Hf Rf Sf (iteLoop c (compile t1) (compile e1) bs s acc).2 Pend →
      (∀ y, Pend y → y < (iteLoop c (compile t1) (compile e1) bs s acc).2.next → (y ∈ bs ∨ s.next ≤ y) →
        y ∈ Outs s (iteLoop c (compile t1) (compile e1) bs s acc).1 (iteLoop c (compile t1) (compile e1) bs s acc).2) →
      (∀ o ∈ (iteLoop c (compile t1) (compile e1) bs s acc).1, TailSim2 act cond prog Hf E Rf Sf (lvl Rf R0 m o) o
        ((iteLoop c (compile t1) (compile e1) bs s acc).2.heap o).items k st false) →
      (∀ o ∈ dB s (iteLoop c (compile t1) (compile e1) bs s acc).2, TailSim2 act cond prog Hf E Rf Sf (lvl Rf R0 m o) o
        ((iteLoop c (compile t1) (compile e1) bs s acc).2.heap o).items .brk st false) →
      (∀ o ∈ dC s (iteLoop c (compile t1) (compile e1) bs s acc).2, TailSim2 act cond prog Hf E Rf Sf (lvl Rf R0 m o) o
        ((iteLoop c (compile t1) (compile e1) bs s acc).2.heap o).items .cont st false) →
      (∀ o ∈ dR s (iteLoop c (compile t1) (compile e1) bs s acc).2, TailSim2 act cond prog Hf E Rf Sf (lvl Rf R0 m o) o
        ((iteLoop c (compile t1) (compile e1) bs s acc).2.heap o).items .ret st false) →
      ∀ b ∈ bs, TailSim2 act cond prog Hf E Rf Sf (lvl Rf R0 m b) b (s.heap b).items (.ite c t1 e1 k) st s.atStart := by
  intro bs
  induction bs with
  | nil => intro s acc _ _ _ _ _ _ _ _ _ _ _ _ _ b hb; simp at hb
  | cons b bs ih =>
    intro s acc hl hs hnd hf hsi hacc hbad hF hPend CK LB LC LR b' hb'
    rw [iteLoop_consR] at hbad hF hPend CK LB LC LR
    have hb : b < s.next := hl.1 b (by simp)
    have hsb : s.atStart = true → b = 0 := fun h => by have := hs h; simp at this; exact this.1
    have hbn : b ∉ bs := (List.nodup_cons.mp hnd).1
    have X := iterCtxG t1 e1 l cf ht he c b s hb hl.2 hsb hsi
    obtain ⟨T0, hA⟩ := iteIter_step c (compile t1) (compile e1) ht.br he.br b s hb hl.2 hsb
    have T : Step s [b] (iR5 t1 e1 c b s).2 (s.next :: (s.next + 1) :: b :: ((iR4 t1 c b s).1 ++ (iR5 t1 e1 c b s).1)) := T0
    have hn5 : s.next ≤ (iR5 t1 e1 c b s).2.next := by have := X.n4; have := X.n5; omega
    have hl5 : Hlt (iR5 t1 e1 c b s).2 bs :=
      ⟨fun o ho => by have := hl.1 o (by simp [ho]); omega, by have := hl.2; omega⟩
    obtain ⟨R, hmem, _⟩ := iteLoop_step c (compile t1) (compile e1) ht.br he.br bs
      (iR5 t1 e1 c b s).2 (mergeAcc acc b s.next (s.next + 1) (iR4 t1 c b s).1 (iR5 t1 e1 c b s).1) hl5
      (fun h => by rw [X.hA5] at h; cases h)
    have hrn := R.next_le
    obtain ⟨tB, tC, tR⟩ := dX_trans' T R
    have hbad5 : (iR5 t1 e1 c b s).2.bad = false := iteLoop_badMono c _ _ bt be _ _ _ hbad
    have hbad4 : (iR4 t1 c b s).2.bad = false := be _ _ hbad5
    -- blocks listed by this iteration are not touched by the rest of the loop
    have hlist : ∀ y, InR s [b] (iR5 t1 e1 c b s).2 y → y < (iR5 t1 e1 c b s).2.next ∧ y ∉ bs := by
      intro y hy
      refine ⟨InR.lt (by simpa using hb) T.next_le hy, fun hm => ?_⟩
      rcases hy.1 with h | h
      · simp at h; subst h; exact hbn hm
      · have := hl.1 y (by simp [hm]); omega
    rcases List.mem_cons.mp hb' with e | hb'bs
    · subst e
      have F5 : Fut Hf Rf Sf (iR5 t1 e1 c b' s).2 (fun y => y ∈ bs ∨ Pend y) :=
        Fut.back R (fun o ho => Or.inl ho) (fun y hy => Or.inl (Or.inr hy)) hF
      have hP5 : ∀ y, (y ∈ bs ∨ Pend y) → y < (iR5 t1 e1 c b' s).2.next → (y = b' ∨ s.next ≤ y) →
          y ∈ Outs s (mergeAcc [] b' s.next (s.next + 1) (iR4 t1 c b' s).1 (iR5 t1 e1 c b' s).1) (iR5 t1 e1 c b' s).2 := by
        intro y hy hlt hr
        have hybs : y ∉ bs := fun hm => by
          rcases hr with h | h
          · subst h; exact hbn hm
          · have := hl.1 y (by simp [hm]); omega
        have hold : ∀ {z}, InR (iR5 t1 e1 c b' s).2 bs (iteLoop c (compile t1) (compile e1) bs (iR5 t1 e1 c b' s).2
            (mergeAcc acc b' s.next (s.next + 1) (iR4 t1 c b' s).1 (iR5 t1 e1 c b' s).1)).2 z → z = y → False := by
          intro z hz e; subst e
          rcases hz.1 with h | h
          · exact hybs h
          · omega
        rcases hy with hy | hy
        · exact absurd hy hybs
        · have hret := hPend y hy (by omega) (hr.imp (fun h => by simp [h]) id)
          rw [mem_Outs, tB, tC, tR] at hret
          simp only [List.mem_append] at hret
          rw [mem_Outs]
          rcases hret with h | (h | h) | (h | h) | (h | h)
          · rcases hmem y h with h | h
            · rcases (mem_mergeAcc_nil _ _ _ _ _ _ _).mp h with h | h
              · have := hacc y h
                rcases hr with h' | h'
                · subst h'; simp at this
                · omega
              · exact Or.inl h
            · exact (hold h rfl).elim
          · exact Or.inr (Or.inl h)
          · exact (hold (R.dB_spec.2 y h) rfl).elim
          · exact Or.inr (Or.inr (Or.inl h))
          · exact (hold (R.dC_spec.2 y h) rfl).elim
          · exact Or.inr (Or.inr (Or.inr h))
          · exact (hold (R.dR_spec.2 y h) rfl).elim
      have CK5 : ∀ o ∈ mergeAcc [] b' s.next (s.next + 1) (iR4 t1 c b' s).1 (iR5 t1 e1 c b' s).1,
          TailSim2 act cond prog Hf E Rf Sf (lvl Rf R0 m o) o ((iR5 t1 e1 c b' s).2.heap o).items k st false := by
        intro o ho
        have hr := mergeAcc_nil_range X hb ho
        have hobs : o ∉ bs := fun hm => by
          rcases hr.1 with h | h
          · subst h; exact hbn hm
          · have := hl.1 o (by simp [hm]); omega
        have := CK o (iteLoop_acc_sub _ _ _ _ _ _ o ((mem_mergeAcc_nil _ _ _ _ _ _ _).mpr (Or.inr ho)))
        rwa [R.frame o hr.2 hobs] at this
      have LB5 : ∀ o ∈ dB s (iR5 t1 e1 c b' s).2, TailSim2 act cond prog Hf E Rf Sf (lvl Rf R0 m o) o
          ((iR5 t1 e1 c b' s).2.heap o).items .brk st false := by
        intro o ho
        have hr := hlist o (T.dB_spec.2 o ho)
        have := LB o (by rw [tB]; simp [ho])
        rwa [R.frame o hr.1 hr.2] at this
      have LC5 : ∀ o ∈ dC s (iR5 t1 e1 c b' s).2, TailSim2 act cond prog Hf E Rf Sf (lvl Rf R0 m o) o
          ((iR5 t1 e1 c b' s).2.heap o).items .cont st false := by
        intro o ho
        have hr := hlist o (T.dC_spec.2 o ho)
        have := LC o (by rw [tC]; simp [ho])
        rwa [R.frame o hr.1 hr.2] at this
      have LR5 : ∀ o ∈ dR s (iR5 t1 e1 c b' s).2, TailSim2 act cond prog Hf E Rf Sf (lvl Rf R0 m o) o
          ((iR5 t1 e1 c b' s).2.heap o).items .ret st false := by
        intro o ho
        have hr := hlist o (T.dR_spec.2 o ho)
        have := LR o (by rw [tR]; simp [ho])
        rwa [R.frame o hr.1 hr.2] at this
      by_cases hpl : anyTrans s.next (iR4 t1 c b' s).1 = false ∧ anyTrans (s.next + 1) (iR5 t1 e1 c b' s).1 = false
      · have hAeq := mergeAcc_both b' s.next (s.next + 1) _ _ hpl.1 hpl.2
        have hsl := ((itePre_sameLists c b' s).trans (nt s.next _ X.hi3 X.hsi3 X.hA3 ((anyTrans_false_iff _ _).mp hpl.1))).trans
          (ne (s.next + 1) _ X.hi4 X.hsi4 X.hA4 ((anyTrans_false_iff _ _).mp hpl.2))
        rw [hAeq] at hP5 CK5
        rw [show Outs s [b'] (iR5 t1 e1 c b' s).2 = [b'] from Outs_same hsl [b']] at hP5
        exact iteIter_simG_plain act cond prog Hf E Rf Sf hE c t1 e1 k pt pe st _ b' s hb X _ F5
          (fun y hy hlt hr => by simpa using hP5 y hy hlt hr) (CK5 b' (by simp)) hpl.1 hpl.2
      · exact iteIter_simG_other act cond prog Hf E Rf Sf hE c t1 e1 k l iht ihe st m R0 b' s hb (hf b' (by simp)) X
          hbad4 hbad5 _ F5 hP5 CK5 LB5 LC5 LR5 hpl
    · have hne : b' ≠ b := fun e => hbn (e ▸ hb'bs)
      have hb'l : b' < s.next := hl.1 b' (by simp [hb'bs])
      have hAs : s.atStart = false := by
        cases h : s.atStart with
        | false => rfl
        | true => have := hs h; simp at this; rw [this.2] at hb'bs; simp at hb'bs
      have := ih (iR5 t1 e1 c b s).2 _ hl5 (fun h => by rw [X.hA5] at h; cases h) (List.nodup_cons.mp hnd).2
        (by
          intro b2 hb2
          rw [T.frame b2 (hl.1 b2 (by simp [hb2])) (by simp; intro e; subst e; exact hbn hb2)]
          exact hf b2 (by simp [hb2]))
        X.hsi5
        (by
          intro o ho
          rcases (mem_mergeAcc_nil _ _ _ _ _ _ _).mp ho with h | h
          · have := hacc o h
            simp only [List.mem_cons, not_or] at this
            exact ⟨by omega, this.2.2⟩
          · have hr := mergeAcc_nil_range X hb h
            refine ⟨hr.2, fun hm => ?_⟩
            rcases hr.1 with h' | h'
            · subst h'; exact hbn hm
            · have := hl.1 o (by simp [hm]); omega)
        hbad hF
        (fun y hy hlt hr => by
          have := hPend y hy hlt (hr.imp (fun h => by simp [h]) (fun h => by omega))
          rw [mem_Outs, tB, tC, tR] at this
          simp only [List.mem_append] at this
          have hyl : y ∉ bs → s.next ≤ y := fun h => by
            rcases hr with h' | h'
            · exact absurd h' h
            · omega
          have hnot : ∀ {z}, InR s [b] (iR5 t1 e1 c b s).2 z → z = y → False := by
            intro z hz e; subst e
            have h1 := hlist z hz
            rcases hr with h' | h'
            · exact h1.2 h'
            · omega
          rw [mem_Outs]
          rcases this with h | (h | h) | (h | h) | (h | h)
          · exact Or.inl h
          · exact (hnot (T.dB_spec.2 y h) rfl).elim
          · exact Or.inr (Or.inl h)
          · exact (hnot (T.dC_spec.2 y h) rfl).elim
          · exact Or.inr (Or.inr (Or.inl h))
          · exact (hnot (T.dR_spec.2 y h) rfl).elim
          · exact Or.inr (Or.inr (Or.inr h)))
        CK (fun o ho => LB o (by rw [tB]; simp [ho])) (fun o ho => LC o (by rw [tC]; simp [ho]))
        (fun o ho => LR o (by rw [tR]; simp [ho])) b' hb'bs
      have hfr : (iR5 t1 e1 c b s).2.heap b' = s.heap b' := T.frame b' hb'l (by simpa using hne)
      rwa [hfr, X.hA5, ← hAs] at this

end
end CohdlVerif.C01
