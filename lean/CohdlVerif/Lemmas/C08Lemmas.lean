import CohdlVerif.Model.C08

/-! helper lemmas for C08: the compiler's analysis `detect` (mirror, fixed code) implies the certificate `safe` -/
namespace CohdlVerif.C08

theorem mem_inter {a b : List Nat} {t : Nat} : t ∈ inter a b ↔ t ∈ a ∧ t ∈ b := by
  simp [inter, List.mem_filter]

theorem safe_mono (c : TCode) : ∀ (D D' : List Nat), safe c D = some D' → ∀ t ∈ D, t ∈ D' := by
  induction c with
  | nil => intro D D' h t ht; simp [safe] at h; subst h; exact ht
  | write x k ih => intro D D' h t ht; simp only [safe] at h; exact ih _ _ h t (List.mem_cons_of_mem _ ht)
  | read x k ih =>
    intro D D' h t ht; simp only [safe] at h
    split at h
    · exact ih _ _ h t ht
    · simp at h
  | alt a b k iha ihb ihk =>
    intro D D' h t ht; simp only [safe] at h
    split at h
    · rename_i Da Db ha hb
      exact ihk _ _ h t (mem_inter.mpr ⟨iha _ _ ha t ht, ihb _ _ hb t ht⟩)
    · simp at h

/-- what one run of `detect` over a block does to the two global sets, relative to the block's local set -/
structure Frame (st : DSt) (l : List Nat) (st' : DSt) : Prop where
  wr_mono : ∀ t, t ∈ st.written → t ∈ st'.written
  wr_new : ∀ t, t ∈ st'.written → t ∈ st.written ∨ t ∈ l ∨ t ∈ st'.invalid
  inv_old : ∀ t, t ∈ st.written → t ∉ st'.invalid → t ∉ st.invalid ∨ t ∈ l

theorem detect_safe (c : TCode) : ∀ (st : DSt) (l : List Nat) (st' : DSt) (D : List Nat),
    detect c st = some (l, st') →
    (∀ t, t ∈ st.written → t ∉ st.invalid → t ∈ D) →
    ∃ D', safe c D = some D' ∧ (∀ t, t ∈ st'.written → t ∉ st'.invalid → t ∈ D') ∧
      (∀ t ∈ l, t ∈ D') ∧ Frame st l st' := by
  induction c with
  | nil =>
    intro st l st' D h hD
    simp [detect] at h
    obtain ⟨rfl, rfl⟩ := h
    exact ⟨D, by simp [safe], hD, by simp, ⟨fun _ h => h, fun _ h => Or.inl h, fun _ _ h => Or.inl h⟩⟩
  | write x k ih =>
    intro st l st' D h hD
    simp only [detect] at h
    split at h
    · simp at h
    · rename_i lk stk hk
      simp at h
      obtain ⟨rfl, rfl⟩ := h
      have hD1 : ∀ t, t ∈ (x :: st.written) → t ∉ st.invalid.filter (· ≠ x) → t ∈ x :: D := by
        intro t ht hni
        simp only [List.mem_cons] at ht ⊢
        by_cases hx : t = x
        · exact Or.inl hx
        · rcases ht with rfl | ht
          · exact absurd rfl hx
          · right; apply hD t ht; intro hin; apply hni; simp [List.mem_filter, hin, hx]
      obtain ⟨D', hs, hD', hl, hF⟩ := ih _ _ _ (x :: D) hk hD1
      refine ⟨D', by simpa [safe] using hs, hD', ?_, ?_⟩
      · intro t ht
        simp only [List.mem_cons] at ht
        rcases ht with rfl | ht
        · exact safe_mono k _ _ hs _ (List.mem_cons_self)
        · exact hl t ht
      · refine ⟨fun t ht => hF.wr_mono t (List.mem_cons_of_mem _ ht), ?_, ?_⟩
        · intro t ht
          rcases hF.wr_new t ht with h1 | h1 | h1
          · simp only [List.mem_cons] at h1
            rcases h1 with rfl | h1
            · exact Or.inr (Or.inl List.mem_cons_self)
            · exact Or.inl h1
          · exact Or.inr (Or.inl (List.mem_cons_of_mem _ h1))
          · exact Or.inr (Or.inr h1)
        · intro t ht hni
          by_cases hx : t = x
          · exact Or.inr (by simp [hx])
          · rcases hF.inv_old t (List.mem_cons_of_mem _ ht) hni with h1 | h1
            · left; intro hin; apply h1; simp [List.mem_filter, hin, hx]
            · exact Or.inr (List.mem_cons_of_mem _ h1)
  | read x k ih =>
    intro st l st' D h hD
    simp only [detect] at h
    split at h
    · simp at h
    · rename_i hni
      split at h
      · rename_i hw
        obtain ⟨D', hs, hD', hl, hF⟩ := ih _ _ _ D h hD
        exact ⟨D', by simp [safe, hD x hw hni, hs], hD', hl, hF⟩
      · simp at h
  | alt a b k iha ihb ihk =>
    intro st l st' D h hD
    simp only [detect] at h
    split at h
    · simp at h
    · rename_i la st1 ha
      split at h
      · simp at h
      · rename_i lb st2 hb
        split at h
        · simp at h
        · rename_i lk st3 hk
          simp at h
          obtain ⟨rfl, rfl⟩ := h
          obtain ⟨Da, hsa, hDa, hla, hFa⟩ := iha _ _ _ D ha hD
          -- the else branch is analysed from st1 with la marked invalid; its definitely-defined set is still ⊆ D
          have hD1 : ∀ t, t ∈ st1.written → t ∉ la ++ st1.invalid → t ∈ D := by
            intro t ht hni
            simp only [List.mem_append, not_or] at hni
            rcases hFa.wr_new t ht with h1 | h1 | h1
            · rcases hFa.inv_old t h1 hni.2 with h2 | h2
              · exact hD t h1 h2
              · exact absurd h2 hni.1
            · exact absurd h1 hni.1
            · exact absurd h1 hni.2
          obtain ⟨Db, hsb, hDb, hlb, hFb⟩ := ihb ⟨la ++ st1.invalid, st1.written⟩ _ _ D hb hD1
          have hD2 : ∀ t, t ∈ st2.written → t ∉ (lb ++ st2.invalid).filter (· ∉ inter la lb) → t ∈ inter Da Db := by
            intro t ht hni
            by_cases hal : t ∈ inter la lb
            · have := mem_inter.mp hal
              exact mem_inter.mpr ⟨hla t this.1, hlb t this.2⟩
            · have hni2 : t ∉ lb ++ st2.invalid := by
                intro hin; apply hni; simp [List.mem_filter, hal]; simpa using hin
              simp only [List.mem_append, not_or] at hni2
              have hD_t : t ∈ D := by
                rcases hFb.wr_new t ht with h1 | h1 | h1
                · rcases hFb.inv_old t h1 hni2.2 with h2 | h2
                  · exact hD1 t h1 h2
                  · exact absurd h2 hni2.1
                · exact absurd h1 hni2.1
                · exact absurd h1 hni2.2
              exact mem_inter.mpr ⟨safe_mono a _ _ hsa t hD_t, safe_mono b _ _ hsb t hD_t⟩
          obtain ⟨D', hsk, hD', hlk, hFk⟩ := ihk ⟨(lb ++ st2.invalid).filter (· ∉ inter la lb), st2.written⟩ _ _ (inter Da Db) hk hD2
          refine ⟨D', by simp [safe, hsa, hsb, hsk], hD', ?_, ?_⟩
          · intro t ht
            simp only [List.mem_append] at ht
            rcases ht with ht | ht
            · have := mem_inter.mp ht
              exact safe_mono k _ _ hsk t (mem_inter.mpr ⟨hla t this.1, hlb t this.2⟩)
            · exact hlk t ht
          · refine ⟨fun t ht => hFk.wr_mono t (hFb.wr_mono t (hFa.wr_mono t ht)), ?_, ?_⟩
            · intro t ht
              by_cases hinv : t ∈ st3.invalid
              · exact Or.inr (Or.inr hinv)
              · rcases hFk.wr_new t ht with h1 | h1 | h1
                · -- t ∈ st2.written
                  rcases hFk.inv_old t h1 hinv with h2 | h2
                  · -- t not invalid before k: either always-defined or untouched by both branches
                    by_cases hal : t ∈ inter la lb
                    · exact Or.inr (Or.inl (List.mem_append_left _ hal))
                    · have hni2 : t ∉ lb ++ st2.invalid := by
                        intro hin; apply h2; simp [List.mem_filter, hal]; simpa using hin
                      simp only [List.mem_append, not_or] at hni2
                      rcases hFb.wr_new t h1 with h3 | h3 | h3
                      · rcases hFb.inv_old t h3 hni2.2 with h4 | h4
                        · simp only [List.mem_append, not_or] at h4
                          rcases hFa.wr_new t h3 with h5 | h5 | h5
                          · exact Or.inl h5
                          · exact absurd h5 h4.1
                          · exact absurd h5 h4.2
                        · exact absurd h4 hni2.1
                      · exact absurd h3 hni2.1
                      · exact absurd h3 hni2.2
                  · exact Or.inr (Or.inl (List.mem_append_right _ h2))
                · exact Or.inr (Or.inl (List.mem_append_right _ h1))
                · exact absurd h1 hinv
            · intro t ht hni
              have h1 := hFb.wr_mono t (hFa.wr_mono t ht)
              rcases hFk.inv_old t h1 hni with h2 | h2
              · by_cases hal : t ∈ inter la lb
                · exact Or.inr (List.mem_append_left _ hal)
                · have hni2 : t ∉ lb ++ st2.invalid := by
                    intro hin; apply h2; simp [List.mem_filter, hal]; simpa using hin
                  simp only [List.mem_append, not_or] at hni2
                  rcases hFb.inv_old t (hFa.wr_mono t ht) hni2.2 with h4 | h4
                  · simp only [List.mem_append, not_or] at h4
                    rcases hFa.inv_old t ht h4.2 with h5 | h5
                    · exact Or.inl h5
                    · exact absurd h5 h4.1
                  · exact absurd h4 hni2.1
              · exact Or.inr (List.mem_append_right _ h2)

end CohdlVerif.C08
