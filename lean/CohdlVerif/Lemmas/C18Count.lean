import CohdlVerif.Lemmas.C18Fold
/-!
  C18 helper lemmas, part 2: batching of bit vectors, population counts and `count` through the
  widening adders and the final truncation.
-/
namespace CohdlVerif.C18

/-! ### bit_length -/

theorem lt_two_pow_bitLen (n : Nat) : n < 2 ^ bitLen n := by
  unfold bitLen
  split
  · subst_vars; simp
  · exact Nat.lt_log2_self

theorem bitLen_le_of_lt {n k : Nat} (h : n < 2 ^ k) : bitLen n ≤ k := by
  unfold bitLen
  split
  · omega
  · rename_i hn
    have := (Nat.log2_lt hn).mpr h
    omega

theorem uptoW_pos (n : Nat) (hn : n ≠ 0) : uptoW n = bitLen n := by simp [uptoW, hn]

/-! ### values of bit lists -/

theorem toNat_lt (b : Bits) : toNat b < 2 ^ b.length := by
  induction b with
  | nil => simp [toNat]
  | cons x r ih =>
    simp only [toNat, List.length_cons, Nat.pow_succ]
    split <;> omega

theorem bitCountF_toNat (c : Bits) : ∀ fuel, c.length ≤ fuel → bitCountF fuel (toNat c) = c.count true := by
  induction c with
  | nil =>
    intro fuel _
    induction fuel with
    | zero => rfl
    | succ f ih => simp [bitCountF, toNat] at *; exact ih
  | cons x r ih =>
    intro fuel hf
    cases fuel with
    | zero => simp at hf
    | succ f =>
      simp only [List.length_cons] at hf
      have := ih f (by omega)
      cases x
      · have h1 : toNat (false :: r) = 2 * toNat r := by simp [toNat]
        have h2 : (2 * toNat r) % 2 = 0 := by omega
        have h3 : (2 * toNat r) / 2 = toNat r := by omega
        rw [h1]; simp [bitCountF, List.count_cons, h2, h3, this]
      · have h1 : toNat (true :: r) = 1 + 2 * toNat r := by simp [toNat]
        have h2 : (1 + 2 * toNat r) % 2 = 1 := by omega
        have h3 : (1 + 2 * toNat r) / 2 = toNat r := by omega
        rw [h1]; simp [bitCountF, List.count_cons, h2, h3, this]; omega

/-! ### sums -/

def sumBy (g : α → Nat) : List α → Nat
  | [] => 0
  | a :: r => g a + sumBy g r

theorem sumBy_append (g : α → Nat) (l₁ l₂ : List α) : sumBy g (l₁ ++ l₂) = sumBy g l₁ + sumBy g l₂ := by
  induction l₁ with
  | nil => simp [sumBy]
  | cons a r ih => simp [sumBy, ih]; omega

theorem sumBy_map (g : β → Nat) (h : α → β) (l : List α) : sumBy g (l.map h) = sumBy (fun a => g (h a)) l := by
  induction l with
  | nil => rfl
  | cons a r ih => simp [sumBy, ih]

theorem sumBy_le (g h : α → Nat) (l : List α) (hle : ∀ a ∈ l, g a ≤ h a) : sumBy g l ≤ sumBy h l := by
  induction l with
  | nil => simp [sumBy]
  | cons a r ih =>
    have := ih (fun x hx => hle x (by simp [hx]))
    have := hle a (by simp)
    simp [sumBy]; omega

theorem count_flatten_sumBy (cs : List Bits) : cs.flatten.count true = sumBy (fun c => c.count true) cs := by
  induction cs with
  | nil => rfl
  | cons c r ih => simp [sumBy, List.count_append, ih]

theorem length_flatten_sumBy (cs : List (List α)) : cs.flatten.length = sumBy List.length cs := by
  induction cs with
  | nil => rfl
  | cons c r ih => simp [sumBy, ih]

/-! ### widening adders -/

def cap (a : U) : Nat := 2 ^ a.w - 1

theorem two_pow_pos' (k : Nat) : 0 < 2 ^ k := Nat.pos_of_ne_zero (by simp)

theorem safeAdd_tree {l : List U} {r : U} (h : FoldTree safeAdd l r) :
    (∀ a ∈ l, a.v ≤ cap a) → r.v = sumBy U.v l ∧ sumBy cap l ≤ cap r ∧ r.v ≤ cap r := by
  induction h with
  | leaf a => intro hinv; have := hinv a (by simp); simp [sumBy]; exact this
  | @node l₁ l₂ r₁ r₂ _ _ ih₁ ih₂ =>
    intro hinv
    obtain ⟨e₁, c₁, b₁⟩ := ih₁ (fun a ha => hinv a (by simp [ha]))
    obtain ⟨e₂, c₂, b₂⟩ := ih₂ (fun a ha => hinv a (by simp [ha]))
    have hp1 : 2 ^ r₁.w ≤ 2 ^ (max r₁.w r₂.w) := Nat.pow_le_pow_right (by omega) (by omega)
    have hp2 : 2 ^ r₂.w ≤ 2 ^ (max r₁.w r₂.w) := Nat.pow_le_pow_right (by omega) (by omega)
    have hp3 : 2 ^ (max r₁.w r₂.w + 1) = 2 * 2 ^ (max r₁.w r₂.w) := by rw [Nat.pow_succ]; omega
    have q1 := two_pow_pos' r₁.w
    have q2 := two_pow_pos' r₂.w
    simp only [cap] at *
    have hlt : r₁.v + r₂.v < 2 ^ (max r₁.w r₂.w + 1) := by omega
    simp only [safeAdd, sumBy_append, Nat.mod_eq_of_lt hlt]
    refine ⟨by omega, by omega, by omega⟩

/-- a batched widening sum followed by the truncation to `bit_length(N)` bits is exact whenever the true sum
    is at most N and the operand widths can hold N in total -/
theorem widen_fold_exact (us : List U) (hne : us ≠ []) (hinv : ∀ a ∈ us, a.v ≤ cap a) (N : Nat)
    (hN : sumBy U.v us ≤ N) (hcap : N ≤ sumBy cap us) :
    (batchedFold safeAdd 2 us).bind (truncTo (bitLen N)) = some ⟨bitLen N, sumBy U.v us⟩ := by
  obtain ⟨r, hr, ht⟩ := batchedFold_tree safeAdd 2 us (by omega) hne
  obtain ⟨e, c, _⟩ := safeAdd_tree ht hinv
  rw [hr]
  simp only [Option.bind_some, truncTo]
  have hw : bitLen N ≤ r.w := by
    apply bitLen_le_of_lt
    have := two_pow_pos' r.w
    simp only [cap] at c; omega
  have hv : r.v < 2 ^ bitLen N := by
    have := lt_two_pow_bitLen N; omega
  split
  · rw [e] at hv
    simp only [lsbU, show ¬ r.w < bitLen N by omega, if_false, e, Nat.mod_eq_of_lt hv]
  · rename_i heq
    have heq' : r.w = bitLen N := by simpa using heq
    cases r; simp_all

/-! ### `batched` = consecutive chunks -/

theorem slice_eq (bits : Bits) (off n : Nat) (hn : 1 ≤ n) (hoff : off < bits.length) :
    slice bits off (min (off + n - 1) (bits.length - 1)) = (bits.drop off).take n := by
  unfold slice
  rw [List.take_eq_take_iff]
  simp only [List.length_drop]
  omega

theorem batchedIdx_chunks (bits : Bits) (n : Nat) (hn : 1 ≤ n) :
    ∀ (fuel off : Nat), (bits.drop off).length ≤ fuel →
      (batchedIdx bits.length n fuel off).map (fun p => slice bits p.2 p.1) = batchArgsF n fuel (bits.drop off) := by
  intro fuel
  induction fuel with
  | zero => intro off _; simp [batchedIdx, batchArgsF]
  | succ fuel ih =>
    intro off hf
    simp only [batchedIdx]
    by_cases hlt : off < bits.length
    · simp only [hlt, if_true, List.map_cons]
      have hne : bits.drop off ≠ [] := by
        intro h; have := congrArg List.length h; simp at this; omega
      cases hd : bits.drop off with
      | nil => exact absurd hd hne
      | cons a r =>
        simp only [batchArgsF]
        rw [← hd, slice_eq bits off n hn hlt, List.drop_drop, ih (off + n)]
        simp only [List.length_drop] at *
        omega
    · simp only [hlt, if_false, List.map_nil]
      have : bits.drop off = [] := by simp; omega
      rw [this]; simp [batchArgsF]

theorem batched_eq_chunks (bits : Bits) (n : Nat) (allow : Bool) (hn : 1 ≤ n)
    (hok : allow = true ∨ bits.length % n = 0) : batched bits n allow = some (chunks n bits) := by
  unfold batched chunks batchArgs
  have h0 : n ≠ 0 := by omega
  have hg : ¬ (bits.length % n ≠ 0 ∧ ¬ allow = true) := by
    rcases hok with h | h <;> simp [h]
  simp only [h0, if_false, hg]
  have := batchedIdx_chunks bits n hn bits.length 0 (by simp)
  simpa using this

/-! ### population counts -/

theorem setCnt_val (c : Bits) : (setCnt c).v = c.count true := by
  simp only [setCnt, toNat_lt c, if_true]
  exact bitCountF_toNat c c.length (Nat.le_refl _)

theorem bitCount_le (c : Bits) : c.count true ≤ c.length := List.count_le_length

theorem clearCnt_val (c : Bits) : (clearCnt c).v = c.length - c.count true := by
  simp only [clearCnt, toNat_lt c, if_true]
  rw [bitCountF_toNat c c.length (Nat.le_refl _)]

theorem setCnt_w (c : Bits) : (setCnt c).w = uptoW c.length := by simp [setCnt, toNat_lt c]
theorem clearCnt_w (c : Bits) : (clearCnt c).w = uptoW c.length := by simp [clearCnt, toNat_lt c]

theorem len_le_cap_upto (n : Nat) : n ≤ 2 ^ uptoW n - 1 := by
  unfold uptoW
  split
  · subst_vars; omega
  · have := lt_two_pow_bitLen n; omega

theorem chunks_flatten (n : Nat) (hn : 1 ≤ n) (bits : Bits) : (chunks n bits).flatten = bits :=
  batchArgsF_flatten n hn bits.length bits (Nat.le_refl _)

theorem chunks_ne_nil (n : Nat) (bits : Bits) (hb : bits ≠ []) : chunks n bits ≠ [] :=
  batchArgsF_ne_nil n bits.length bits hb (List.length_pos_iff.mpr hb)

theorem countSetBits_eq (bs : Nat) (bits : Bits) (hbs : 1 ≤ bs) (hb : bits ≠ []) :
    countSetBits bs bits = some ⟨bitLen bits.length, popcount bits⟩ := by
  unfold countSetBits countBitsWith
  rw [batched_eq_chunks bits bs true hbs (Or.inl rfl)]
  simp only [Option.bind_eq_bind, Option.bind_some]
  have hfl := chunks_flatten bs hbs bits
  have key := widen_fold_exact ((chunks bs bits).map setCnt)
    (by simpa using chunks_ne_nil bs bits hb)
    (by
      intro a ha
      obtain ⟨c, _, rfl⟩ := List.mem_map.mp ha
      simp only [cap, setCnt_val, setCnt_w]
      have := len_le_cap_upto c.length
      have := bitCount_le c; omega)
    bits.length
    (by
      rw [sumBy_map]; simp only [setCnt_val]
      rw [← count_flatten_sumBy, hfl]; exact bitCount_le bits)
    (by
      rw [sumBy_map]
      have h1 : sumBy List.length (chunks bs bits) ≤ sumBy (fun c => cap (setCnt c)) (chunks bs bits) :=
        sumBy_le _ _ _ (fun c _ => by simp only [cap, setCnt_w]; exact len_le_cap_upto c.length)
      rw [← length_flatten_sumBy, hfl] at h1; exact h1)
  rw [sumBy_map] at key
  simp only [setCnt_val] at key
  rw [← count_flatten_sumBy, hfl] at key
  exact key

theorem sumBy_sub (cs : List Bits) :
    sumBy (fun c => c.length - c.count true) cs = sumBy List.length cs - sumBy (fun c => c.count true) cs := by
  induction cs with
  | nil => rfl
  | cons c r ih =>
    have h1 := bitCount_le c
    have h2 : sumBy (fun c => c.count true) r ≤ sumBy List.length r := sumBy_le _ _ _ (fun c _ => bitCount_le c)
    simp only [sumBy, ih]; omega

theorem countClearBits_eq (bs : Nat) (bits : Bits) (hbs : 1 ≤ bs) (hb : bits ≠ []) :
    countClearBits bs bits = some ⟨bitLen bits.length, bits.length - popcount bits⟩ := by
  unfold countClearBits countBitsWith
  rw [batched_eq_chunks bits bs true hbs (Or.inl rfl)]
  simp only [Option.bind_eq_bind, Option.bind_some]
  have hfl := chunks_flatten bs hbs bits
  have hsum : sumBy (fun c => (clearCnt c).v) (chunks bs bits) = bits.length - popcount bits := by
    simp only [clearCnt_val]
    rw [sumBy_sub, ← length_flatten_sumBy, ← count_flatten_sumBy, hfl]; rfl
  have key := widen_fold_exact ((chunks bs bits).map clearCnt)
    (by simpa using chunks_ne_nil bs bits hb)
    (by
      intro a ha
      obtain ⟨c, _, rfl⟩ := List.mem_map.mp ha
      simp only [cap, clearCnt_val, clearCnt_w]
      have := len_le_cap_upto c.length
      omega)
    bits.length
    (by rw [sumBy_map, hsum]; omega)
    (by
      rw [sumBy_map]
      have h1 : sumBy List.length (chunks bs bits) ≤ sumBy (fun c => cap (clearCnt c)) (chunks bs bits) :=
        sumBy_le _ _ _ (fun c _ => by simp only [cap, clearCnt_w]; exact len_le_cap_upto c.length)
      rw [← length_flatten_sumBy, hfl] at h1; exact h1)
  rw [sumBy_map, hsum] at key
  exact key

/-! ### `count` -/

theorem sumBy_count [DecidableEq α] (l : List α) (v : α) :
    sumBy (fun e => if e = v then 1 else 0) l = l.count v := by
  induction l with
  | nil => rfl
  | cons a r ih =>
    simp only [sumBy, List.count_cons, ih]
    by_cases h : a = v <;> simp [h] <;> omega

theorem sumBy_const_one (l : List α) : sumBy (fun _ => 1) l = l.length := by
  induction l with
  | nil => rfl
  | cons a r ih => simp [sumBy, ih]; omega

theorem countM_eq [DecidableEq α] (l : List α) (v : α) : countM l v = some (countSpec l v) := by
  cases l with
  | nil => simp [countM, countSpec]
  | cons a r =>
    simp only [countM, countSpec]
    have key := widen_fold_exact (((a :: r)).map fun e => (⟨1, if e = v then 1 else 0⟩ : U))
      (by simp)
      (by
        intro x hx
        obtain ⟨e, _, rfl⟩ := List.mem_map.mp hx
        simp only [cap]; split <;> omega)
      (a :: r).length
      (by rw [sumBy_map]; simp only []; rw [sumBy_count]; exact List.count_le_length)
      (by rw [sumBy_map]; simp only [cap]; rw [show (fun _ : α => 2 ^ 1 - 1) = fun _ => 1 from rfl, sumBy_const_one]; omega)
    rw [sumBy_map] at key
    simp only [] at key
    rw [sumBy_count] at key
    simpa using key

end CohdlVerif.C18
