import CohdlVerif.Model.C03

/-! C03 - helper lemmas about the source-level semantics `exec` and the lowering `lowerK` -/
namespace CohdlVerif.C03

/-! ### bits -/

theorem bitsToNat_testBit (v : Nat) : ∀ w, bitsToNat (fun b => v.testBit b) w = v % 2 ^ w := by
  intro w
  induction w with
  | zero => simp [bitsToNat, Nat.mod_one]
  | succ w ih =>
    simp only [bitsToNat]
    rw [ih, Nat.mod_pow_succ]
    have h : v / 2 ^ w % 2 = 0 ∨ v / 2 ^ w % 2 = 1 := by omega
    rcases h with h | h <;> simp [Nat.testBit_eq_decide_div_mod_eq, h]

theorem bitsToNat_congr (f g : Nat → Bool) : ∀ w, (∀ b, b < w → f b = g b) → bitsToNat f w = bitsToNat g w := by
  intro w
  induction w with
  | zero => intro _; rfl
  | succ w ih =>
    intro h
    simp only [bitsToNat]
    rw [ih (fun b hb => h b (by omega)), h w (by omega)]

/-! ### expressions depend on the stores and temporaries only (never on pending updates) -/

theorem eval_congr (e : Expr) : ∀ (s s' : St), s.sig = s'.sig → s.var = s'.var → s.tmp = s'.tmp →
    eval e s = eval e s' := by
  induction e with
  | const n => intros; rfl
  | rd sp obj idx lo w ih =>
    intro s s' h1 h2 h3
    simp only [eval]
    rw [ih s s' h1 h2 h3]
    cases sp <;> simp [store, h1, h2]
  | tmp k => intro s s' _ _ h3; simp [eval, h3]
  | slice e lo w ih => intro s s' h1 h2 h3; simp [eval, ih s s' h1 h2 h3]
  | add w a b iha ihb => intro s s' h1 h2 h3; simp [eval, iha s s' h1 h2 h3, ihb s s' h1 h2 h3]
  | eq a b iha ihb => intro s s' h1 h2 h3; simp [eval, iha s s' h1 h2 h3, ihb s s' h1 h2 h3]
  | not a iha => intro s s' h1 h2 h3; simp [eval, iha s s' h1 h2 h3]
  | and a b iha ihb => intro s s' h1 h2 h3; simp [eval, iha s s' h1 h2 h3, ihb s s' h1 h2 h3]
  | or a b iha ihb => intro s s' h1 h2 h3; simp [eval, iha s s' h1 h2 h3, ihb s s' h1 h2 h3]
  | sel c a b ihc iha ihb =>
    intro s s' h1 h2 h3; simp [eval, ihc s s' h1 h2 h3, iha s s' h1 h2 h3, ihb s s' h1 h2 h3]
  | cat a w b iha ihb => intro s s' h1 h2 h3; simp [eval, iha s s' h1 h2 h3, ihb s s' h1 h2 h3]

/-- expressions that read signals only (no variable, no temporary) -/
def sigOnly : Expr → Bool
  | .const _ => true
  | .rd sp _ idx _ _ => sp == .sig && sigOnly idx
  | .tmp _ => false
  | .slice e _ _ => sigOnly e
  | .add _ a b => sigOnly a && sigOnly b
  | .eq a b => sigOnly a && sigOnly b
  | .not a => sigOnly a
  | .and a b => sigOnly a && sigOnly b
  | .or a b => sigOnly a && sigOnly b
  | .sel c a b => sigOnly c && sigOnly a && sigOnly b
  | .cat a _ b => sigOnly a && sigOnly b

theorem eval_sigOnly (e : Expr) : ∀ (s s' : St), sigOnly e = true → s.sig = s'.sig → eval e s = eval e s' := by
  induction e with
  | const n => intros; rfl
  | rd sp obj idx lo w ih =>
    intro s s' h h1
    simp only [sigOnly, Bool.and_eq_true, beq_iff_eq] at h
    simp only [eval]
    rw [ih s s' h.2 h1, h.1]
    simp [store, h1]
  | tmp k => intro s s' h; simp [sigOnly] at h
  | slice e lo w ih => intro s s' h h1; simp only [sigOnly] at h; simp [eval, ih s s' h h1]
  | add w a b iha ihb =>
    intro s s' h h1; simp only [sigOnly, Bool.and_eq_true] at h; simp [eval, iha s s' h.1 h1, ihb s s' h.2 h1]
  | eq a b iha ihb =>
    intro s s' h h1; simp only [sigOnly, Bool.and_eq_true] at h; simp [eval, iha s s' h.1 h1, ihb s s' h.2 h1]
  | not a iha => intro s s' h h1; simp only [sigOnly] at h; simp [eval, iha s s' h h1]
  | and a b iha ihb =>
    intro s s' h h1; simp only [sigOnly, Bool.and_eq_true] at h; simp [eval, iha s s' h.1 h1, ihb s s' h.2 h1]
  | or a b iha ihb =>
    intro s s' h h1; simp only [sigOnly, Bool.and_eq_true] at h; simp [eval, iha s s' h.1 h1, ihb s s' h.2 h1]
  | sel c a b ihc iha ihb =>
    intro s s' h h1; simp only [sigOnly, Bool.and_eq_true] at h
    simp [eval, ihc s s' h.1.1 h1, iha s s' h.1.2 h1, ihb s s' h.2 h1]
  | cat a w b iha ihb =>
    intro s s' h h1; simp only [sigOnly, Bool.and_eq_true] at h; simp [eval, iha s s' h.1 h1, ihb s s' h.2 h1]

/-! ### frame properties of `exec` -/

theorem doAssign_sig (m : Mode) (t : Target) (v : Nat) (s : St) : (doAssign m t v s).sig = s.sig := by
  cases m <;> rfl

theorem doAssign_tmp (m : Mode) (t : Target) (v : Nat) (s : St) : (doAssign m t v s).tmp = s.tmp := by
  cases m <;> rfl

theorem exec_sig (p : Stmt) : ∀ s : St, (exec p s).1.sig = s.sig := by
  induction p with
  | skip => intro s; rfl
  | seq a b iha ihb =>
    intro s
    simp only [exec]
    split
    · exact iha s
    · rw [ihb, iha]
  | assign m t e => intro s; simp [exec, doAssign_sig]
  | ite c t e iht ihe => intro s; simp only [exec]; split <;> simp [iht, ihe]
  | mcase subj pat b rest ihb ihr => intro s; simp only [exec]; split <;> simp [ihb, ihr]
  | ret res e => intro s; rfl
  | call body ih => intro s; simp [exec, ih]
  | capture k e => intro s; rfl
  | declSig obj k w init => intro s; rfl

/-- syntactic: some signal assignment / push / local declaration in `p` targets object `o` -/
def writesObj : Stmt → Nat → Bool
  | .skip, _ => false
  | .seq a b, o => writesObj a o || writesObj b o
  | .assign m t _, o => m != .value && t.obj == o
  | .ite _ t e, o => writesObj t o || writesObj e o
  | .mcase _ _ b rest, o => writesObj b o || writesObj rest o
  | .ret _ _, _ => false
  | .call body, o => writesObj body o
  | .capture _ _, _ => false
  | .declSig obj _ _ _, o => obj == o

theorem writeBits_other {α : Type} (f : Loc → α) (obj i lo w : Nat) (g : Nat → α) (l : Loc) (h : l.1 ≠ obj) :
    writeBits f obj i lo w g l = f l := by
  simp [writeBits, inRange, h]

theorem exec_pend_frame (p : Stmt) (o : Nat) : ∀ s : St, writesObj p o = false →
    ∀ l : Loc, l.1 = o → (exec p s).1.pend l = s.pend l := by
  induction p with
  | skip => intro s _ l _; rfl
  | seq a b iha ihb =>
    intro s h l hl
    simp only [writesObj, Bool.or_eq_false_iff] at h
    simp only [exec]
    split
    · exact iha s h.1 l hl
    · rw [ihb _ h.2 l hl, iha s h.1 l hl]
  | assign m t e =>
    intro s h l hl
    cases m with
    | value => rfl
    | next =>
      simp [writesObj] at h
      simp only [exec, doAssign]
      exact writeBits_other _ _ _ _ _ _ _ (by omega)
    | push =>
      simp [writesObj] at h
      simp only [exec, doAssign]
      exact writeBits_other _ _ _ _ _ _ _ (by omega)
  | ite c t e iht ihe =>
    intro s h l hl
    simp only [writesObj, Bool.or_eq_false_iff] at h
    simp only [exec]; split
    · exact iht s h.1 l hl
    · exact ihe s h.2 l hl
  | mcase subj pat b rest ihb ihr =>
    intro s h l hl
    simp only [writesObj, Bool.or_eq_false_iff] at h
    simp only [exec]; split
    · exact ihb s h.1 l hl
    · exact ihr s h.2 l hl
  | ret res e => intro s _ l _; rfl
  | call body ih => intro s h l hl; simp only [writesObj] at h; simp only [exec]; exact ih s h l hl
  | capture k e => intro s _ l _; rfl
  | declSig obj k w init =>
    intro s h l hl
    simp [writesObj] at h
    simp only [exec]
    exact writeBits_other _ _ _ _ _ _ _ (by omega)

/-- syntactic: `p` assigns temporary `k` -/
def capturesTmp : Stmt → Nat → Bool
  | .skip, _ => false
  | .seq a b, k => capturesTmp a k || capturesTmp b k
  | .assign _ _ _, _ => false
  | .ite _ t e, k => capturesTmp t k || capturesTmp e k
  | .mcase _ _ b rest, k => capturesTmp b k || capturesTmp rest k
  | .ret res _, k => res == k
  | .call body, k => capturesTmp body k
  | .capture j _, k => j == k
  | .declSig _ j _ _, k => j == k

theorem exec_tmp_frame (p : Stmt) (k : Nat) : ∀ s : St, capturesTmp p k = false → (exec p s).1.tmp k = s.tmp k := by
  induction p with
  | skip => intro s _; rfl
  | seq a b iha ihb =>
    intro s h
    simp only [capturesTmp, Bool.or_eq_false_iff] at h
    simp only [exec]
    split
    · exact iha s h.1
    · rw [ihb _ h.2, iha s h.1]
  | assign m t e => intro s _; simp [exec, doAssign_tmp]
  | ite c t e iht ihe =>
    intro s h
    simp only [capturesTmp, Bool.or_eq_false_iff] at h
    simp only [exec]; split
    · exact iht s h.1
    · exact ihe s h.2
  | mcase subj pat b rest ihb ihr =>
    intro s h
    simp only [capturesTmp, Bool.or_eq_false_iff] at h
    simp only [exec]; split
    · exact ihb s h.1
    · exact ihr s h.2
  | ret res e => intro s h; simp [capturesTmp] at h; simp [exec, setTmp]; omega
  | call body ih => intro s h; simp only [capturesTmp] at h; simp only [exec]; exact ih s h
  | capture j e => intro s h; simp [capturesTmp] at h; simp [exec, setTmp]; omega
  | declSig obj j w init => intro s h; simp [capturesTmp] at h; simp [exec, setTmp]; omega

/-! ### lowering -/

theorem canRet_false (p : Stmt) : ∀ s : St, canRet p = false → (exec p s).2 = false := by
  induction p with
  | skip => intro s _; rfl
  | seq a b iha ihb =>
    intro s h
    simp only [canRet, Bool.or_eq_false_iff] at h
    simp only [exec]
    split
    · rename_i h'; rw [iha s h.1] at h'; cases h'
    · exact ihb _ h.2
  | assign m t e => intro s _; rfl
  | ite c t e iht ihe =>
    intro s h
    simp only [canRet, Bool.or_eq_false_iff] at h
    simp only [exec]; split
    · exact iht s h.1
    · exact ihe s h.2
  | mcase subj pat b rest ihb ihr =>
    intro s h
    simp only [canRet, Bool.or_eq_false_iff] at h
    simp only [exec]; split
    · exact ihb s h.1
    · exact ihr s h.2
  | ret res e => intro s h; simp [canRet] at h
  | call body ih => intro s _; rfl
  | capture j e => intro s _; rfl
  | declSig obj j w init => intro s _; rfl

theorem eval_eq_const (subj : Expr) (pat : Nat) (s : St) :
    (eval (.eq subj (.const pat)) s != 0) = (eval subj s == pat) := by
  simp only [eval, b2n]
  by_cases h : eval subj s = pat <;> simp [h]

/-- the continuation form of the lowering is correct: the lowered code runs `k` after a normal end of `p` and
    `r` after a `return` -/
theorem lowerK_correct (p : Stmt) : ∀ (k r : Proc) (s : St),
    run (lowerK p k r) s = if (exec p s).2 then run r (exec p s).1 else run k (exec p s).1 := by
  induction p with
  | skip => intro k r s; simp [lowerK, exec]
  | seq a b iha ihb =>
    intro k r s
    simp only [lowerK, exec]
    rw [iha]
    by_cases h : (exec a s).2 = true
    · simp [h]
    · simp only [h]
      rw [ihb]
      simp
  | assign m t e =>
    intro k r s
    cases m <;> simp [lowerK, exec, run, doAssign]
  | ite c t e iht ihe =>
    intro k r s
    simp only [lowerK]
    by_cases hr : (canRet t || canRet e) = true
    · simp only [hr, if_true, run, exec]
      split
      · exact iht k r s
      · exact ihe k r s
    · simp only [hr]
      simp only [Bool.not_eq_true, Bool.or_eq_false_iff] at hr
      simp only [Bool.false_eq_true, if_false, run, exec]
      split
      · rw [iht, canRet_false t s hr.1]; simp [run]
      · rw [ihe, canRet_false e s hr.2]; simp [run]
  | mcase subj pat b rest ihb ihr =>
    intro k r s
    simp only [lowerK]
    by_cases hr : (canRet b || canRet rest) = true
    · simp only [hr, if_true, run, exec, eval_eq_const]
      split
      · exact ihb k r s
      · exact ihr k r s
    · simp only [hr]
      simp only [Bool.not_eq_true, Bool.or_eq_false_iff] at hr
      simp only [Bool.false_eq_true, if_false, run, exec]
      split
      · rw [ihb, canRet_false b s hr.1]; simp [run]
      · rw [ihr, canRet_false rest s hr.2]; simp [run]
  | ret res e => intro k r s; simp [lowerK, exec, run]
  | call body ih => intro k r s; simp only [lowerK, exec]; rw [ih]; simp
  | capture j e => intro k r s; simp [lowerK, exec, run]
  | declSig obj j w init =>
    intro k r s
    simp [lowerK, exec, run, doAssign, eval, setTmp]

/-! ### pushed signals: defaults assigned first (target) = defaults at commit (source) -/

/-- overlay of pending updates on defaults -/
def ov (a b : Option Bool) : Option Bool :=
  match a with
  | some v => some v
  | none => b

def overlay (d : Loc → Option Bool) (s : St) : St := { s with pend := fun l => ov (s.pend l) (d l) }

theorem overlay_sig (d : Loc → Option Bool) (s : St) : (overlay d s).sig = s.sig := rfl
theorem overlay_var (d : Loc → Option Bool) (s : St) : (overlay d s).var = s.var := rfl
theorem overlay_tmp (d : Loc → Option Bool) (s : St) : (overlay d s).tmp = s.tmp := rfl

theorem eval_overlay (e : Expr) (d : Loc → Option Bool) (s : St) : eval e (overlay d s) = eval e s :=
  eval_congr e _ _ rfl rfl rfl

theorem writeBits_overlay (f d : Loc → Option Bool) (obj i lo w : Nat) (g : Nat → Bool) :
    writeBits (fun l => ov (f l) (d l)) obj i lo w (fun b => some (g b))
      = fun l => ov (writeBits f obj i lo w (fun b => some (g b)) l) (d l) := by
  funext l
  simp only [writeBits]
  split <;> simp [ov]

theorem exec_overlay (p : Stmt) (d : Loc → Option Bool) : ∀ s : St,
    exec p (overlay d s) = (overlay d (exec p s).1, (exec p s).2) := by
  induction p with
  | skip => intro s; rfl
  | seq a b iha ihb =>
    intro s
    simp only [exec]
    rw [iha]
    by_cases h : (exec a s).2 = true
    · simp [h]
    · simp only [h]; rw [ihb]; simp
  | assign m t e =>
    intro s
    simp only [exec, eval_overlay]
    cases m with
    | value => simp only [doAssign, eval_overlay]; rfl
    | next => simp only [doAssign, eval_overlay]; simp only [overlay]; rw [writeBits_overlay]
    | push => simp only [doAssign, eval_overlay]; simp only [overlay]; rw [writeBits_overlay]
  | ite c t e iht ihe =>
    intro s
    simp only [exec, eval_overlay]
    split
    · exact iht s
    · exact ihe s
  | mcase subj pat b rest ihb ihr =>
    intro s
    simp only [exec, eval_overlay]
    split
    · exact ihb s
    · exact ihr s
  | ret res e => intro s; simp only [exec, eval_overlay]; rfl
  | call body ih => intro s; simp only [exec]; rw [ih]
  | capture j e => intro s; simp only [exec, eval_overlay]; rfl
  | declSig obj j w init =>
    intro s
    simp only [exec, eval_overlay]
    simp only [overlay]
    rw [writeBits_overlay]

end CohdlVerif.C03
