import CohdlVerif.Lemmas.C01G7
import CohdlVerif.Lemmas.C01FragW3

/-! C01 - general grammar: simulation of a code tail with the "a transition is set" clause, levels, premises -/
namespace CohdlVerif.C01

section
variable {σ : Type} (act : Nat → σ → σ) (cond : Nat → σ → Bool)
variable (prog : Stmt) (Hf : Nat → Blk) (E : Nat → σ → σ × Option Nat) (Rf : Nat → Nat) (Sf : List Nat)

/-- as `SimPt`; in addition, unless the process is still fresh, the piece of code sets a transition -/
def SimPt2 (m i : Nat) (res : σ × Option Nat) (q : Stmt) (st : List Frame) (fr : Bool) (s : σ) : Prop :=
  m = 0 ∨ ∃ f r, run act cond f q st fr s = some (r, res.1) ∧ SimN act cond prog E Sf (m-1) r (res.2.getD i) ∧
    (fr = false → res.2.isSome = true)

def TailSim2 (m x : Nat) (pre : List Item) (q : Stmt) (st : List Frame) (fr : Bool) : Prop :=
  ∀ suf, (Hf x).items = pre ++ suf → ∀ s : σ,
    SimPt2 act cond prog E Sf m (cur Rf Sf x) (tailF act cond Hf E x suf s) q st fr s

theorem SimPt2_mono_le (m m' i : Nat) (hle : m ≤ m') (res : σ × Option Nat) (q : Stmt) (st : List Frame) (fr : Bool)
    (s : σ) (h : SimPt2 act cond prog E Sf m' i res q st fr s) : SimPt2 act cond prog E Sf m i res q st fr s := by
  rcases h with h | ⟨f, r, h1, h2, h3⟩
  · left; omega
  · by_cases hm : m = 0
    · exact Or.inl hm
    · exact Or.inr ⟨f, r, h1, SimN_mono_le act cond prog E Sf _ _ (by omega) _ _ h2, h3⟩

theorem TailSim2_mono_le (m m' x : Nat) (hle : m ≤ m') (pre : List Item) (q : Stmt) (st : List Frame) (fr : Bool)
    (h : TailSim2 act cond prog Hf E Rf Sf m' x pre q st fr) : TailSim2 act cond prog Hf E Rf Sf m x pre q st fr :=
  fun suf hs s => SimPt2_mono_le act cond prog E Sf m m' _ hle _ _ _ _ _ (h suf hs s)

theorem SimPt2_pull {m i : Nat} {res : σ × Option Nat} {q q' : Stmt} {st st' : List Frame} {fr fr' : Bool} {s s' : σ}
    (hr : RunTo act cond q st fr s q' st' fr' s') (hfr : fr = false → fr' = false)
    (h : SimPt2 act cond prog E Sf m i res q' st' fr' s') : SimPt2 act cond prog E Sf m i res q st fr s := by
  rcases h with h | ⟨f, r, h1, h2, h3⟩
  · exact Or.inl h
  · obtain ⟨f', hf'⟩ := hr f _ h1
    exact Or.inr ⟨f', r, hf', h2, fun h => h3 (hfr h)⟩

/-- level of a block: `m` in the states of the current segment, one less elsewhere -/
def lvl (R0 : List Nat) (m x : Nat) : Nat := if Rf x ∈ R0 then m else m - 1

theorem lvl_le (R0 : List Nat) (m x : Nat) : lvl Rf R0 m x ≤ m := by unfold lvl; split <;> omega
theorem lvl_ge (R0 : List Nat) (m x : Nat) : m - 1 ≤ lvl Rf R0 m x := by unfold lvl; split <;> omega

/-- re-basing the levels at one block -/
theorem lvl_rebase (R0 : List Nat) (m o o' : Nat) : lvl Rf [Rf o] (lvl Rf R0 m o) o' ≤ lvl Rf R0 m o' := by
  by_cases h : Rf o' = Rf o
  · simp [lvl, h]
  · have : Rf o' ∉ [Rf o] := by simpa using h
    simp only [lvl, this, if_false]
    have := lvl_le Rf R0 m o
    have := lvl_ge Rf R0 m o'
    simp only [lvl] at *
    omega

theorem lvl_self (m o : Nat) : lvl Rf [Rf o] m o = m := by simp [lvl]

/-- the premises of the simulation claim: every pending output simulates its continuation -/
structure Prems (m : Nat) (R0 : List Nat) (st : List Frame) (s : CSt) (r : List Nat × CSt) : Prop where
  op : ∀ o' ∈ r.1, TailSim2 act cond prog Hf E Rf Sf (lvl Rf R0 m o') o' (r.2.heap o').items .skip st r.2.atStart
  br : ∀ o' ∈ dB s r.2, TailSim2 act cond prog Hf E Rf Sf (lvl Rf R0 m o') o' (r.2.heap o').items .brk st r.2.atStart
  co : ∀ o' ∈ dC s r.2, TailSim2 act cond prog Hf E Rf Sf (lvl Rf R0 m o') o' (r.2.heap o').items .cont st r.2.atStart
  re : ∀ o' ∈ dR s r.2, TailSim2 act cond prog Hf E Rf Sf (lvl Rf R0 m o') o' (r.2.heap o').items .ret st r.2.atStart

theorem Prems.mono {m m' : Nat} {R0 R0' : List Nat} {st : List Frame} {s : CSt} {r : List Nat × CSt}
    (h : Prems act cond prog Hf E Rf Sf m R0 st s r) (hle : ∀ x, lvl Rf R0' m' x ≤ lvl Rf R0 m x) :
    Prems act cond prog Hf E Rf Sf m' R0' st s r :=
  ⟨fun o' ho' => TailSim2_mono_le act cond prog Hf E Rf Sf _ _ o' (hle o') _ _ _ _ (h.op o' ho'),
   fun o' ho' => TailSim2_mono_le act cond prog Hf E Rf Sf _ _ o' (hle o') _ _ _ _ (h.br o' ho'),
   fun o' ho' => TailSim2_mono_le act cond prog Hf E Rf Sf _ _ o' (hle o') _ _ _ _ (h.co o' ho'),
   fun o' ho' => TailSim2_mono_le act cond prog Hf E Rf Sf _ _ o' (hle o') _ _ _ _ (h.re o' ho')⟩

/-- the general simulation claim for one statement -/
def SimG (t : Stmt) (l : Bool) : Prop :=
  ∀ (st : List Frame) (O : List Nat) (s : CSt) (m : Nat) (R0 : List Nat) (P' : Nat → Prop),
    Inv s O → SInv s → (l = true → s.atStart = false) → (compile t O s).2.bad = false →
    Fut Hf Rf Sf (compile t O s).2 P' →
    (∀ y, P' y → y < (compile t O s).2.next → (y ∈ O ∨ s.next ≤ y) → y ∈ Outs s (compile t O s).1 (compile t O s).2) →
    Prems act cond prog Hf E Rf Sf m R0 st s (compile t O s) →
    ∀ o ∈ O, TailSim2 act cond prog Hf E Rf Sf (lvl Rf R0 m o) o (s.heap o).items t st s.atStart

end
end CohdlVerif.C01
