import CohdlVerif.Lemmas.C13Types
/-! C13 part A - helper lemmas about whole request histories starting from the import-time table -/
namespace CohdlVerif.C13

/-- requests the real code accepts (everything else raises AssertionError and leaves the caches untouched) -/
def legal : Key → Bool
  | .root _ => true
  | .vec _ _ w => w != 0
  | .arr e _ => legal e && isPrim e
  | .q qk d t => legal t && dirOk qk d
  | .anon .. => false

theorem inv_fold (rs : List Root) : ∀ st : St, Inv st →
    Inv (rs.foldl (fun st r => match ensure fuel st (.root r) with | some (st', _) => st' | none => st) st) := by
  induction rs with
  | nil => intro st h; exact h
  | cons r rs ih =>
    intro st h
    simp only [List.foldl_cons]
    apply ih
    obtain ⟨ext, i, he, hI, _, _⟩ := ensure_spec fuel st (.root r) h (rank_lt_fuel _) rfl
    simp [he, hI]

theorem inv_init : Inv initSt := inv_fold allRoots [] inv_nil

theorem init_length : initSt.length = 15 := by decide

theorem init_roots (r : Root) : (find initSt (.root r)).isSome = true := by cases r <;> decide

/-- the table after a history: invariant, at least the import-time classes, results point into it -/
theorem hist_final (h : List Key) :
    Inv (runHist initSt h).1 ∧ fuel ≤ (runHist initSt h).1.length ∧
    ∀ (n : Nat) (k : Key) (i : Nat), h[n]? = some k → (runHist initSt h).2[n]? = some (some i) →
      find (runHist initSt h).1 k = some i := by
  obtain ⟨ext, h1, hI, _, hf⟩ := runHist_spec h initSt inv_init
  rw [h1]
  refine ⟨hI, ?_, hf⟩
  simp [init_length, fuel]; omega

theorem self_mem_anc (f : Nat) (k : Key) : k ∈ anc f k := by cases f <;> simp [anc]

theorem base_mem_anc (k b : Key) (hb : b ∈ baseKeys k) : b ∈ anc (rank k) k := by
  have := rank_base_lt k b hb
  cases hr : rank k with
  | zero => omega
  | succ r =>
    simp only [anc, List.mem_cons, List.mem_flatMap]
    exact Or.inr ⟨b, hb, self_mem_anc r b⟩

theorem evalReq_legal : ∀ (k : Key) (st : St), Inv st → (∀ r, (find st (.root r)).isSome = true) → legal k = true →
    (evalReq st k).2.isSome = true := by
  intro k
  induction k with
  | root r => intro st _ hr _; simpa [evalReq] using hr r
  | vec k o w =>
    intro st hI _ hl
    obtain ⟨ext, i, h, _, _⟩ := ens_spec st (.vec k o w) hI rfl
    simp [legal] at hl
    simp [evalReq, hl, h]
  | anon a b c d e => intro st _ _ hl; simp [legal] at hl
  | arr e n ih =>
    intro st hI hr hl
    simp only [legal, Bool.and_eq_true] at hl
    have h1 := ih st hI hr hl.1
    obtain ⟨e1, he1, hI1, _⟩ := evalReq_spec e st hI
    simp only [evalReq]
    cases hq : evalReq st e with
    | mk st1 r =>
      rw [hq] at h1 he1; simp only at h1 he1; subst he1
      cases r with
      | none => simp at h1
      | some j =>
        obtain ⟨e2, i, h, _, _⟩ := ens_spec (st ++ e1) (.arr e n) hI1 rfl
        simp [hl.2, h]
  | q qk d t ih =>
    intro st hI hr hl
    simp only [legal, Bool.and_eq_true] at hl
    have h1 := ih st hI hr hl.1
    obtain ⟨e1, he1, hI1, _⟩ := evalReq_spec t st hI
    simp only [evalReq]
    cases hq : evalReq st t with
    | mk st1 r =>
      rw [hq] at h1 he1; simp only at h1 he1; subst he1
      cases r with
      | none => simp at h1
      | some j =>
        obtain ⟨e2, i, h, _, _⟩ := ens_spec (st ++ e1) (.q qk d t) hI1 rfl
        simp [hl.2, h]

theorem runHist_legal : ∀ (h : List Key) (st : St), Inv st → (∀ r, (find st (.root r)).isSome = true) →
    ∀ (n : Nat) (k : Key), h[n]? = some k → legal k = true → ∃ i, (runHist st h).2[n]? = some (some i) := by
  intro h
  induction h with
  | nil => intro st _ _ n k hk; simp at hk
  | cons k0 ks ih =>
    intro st hI hr n k hk hl
    obtain ⟨e1, he1, hI1, _⟩ := evalReq_spec k0 st hI
    cases n with
    | zero =>
      simp at hk; subst hk
      have := evalReq_legal k0 st hI hr hl
      simp only [runHist, List.getElem?_cons_zero]
      cases hq : (evalReq st k0).2 with
      | none => simp [hq] at this
      | some i => exact ⟨i, rfl⟩
    | succ n =>
      simp only [List.getElem?_cons_succ] at hk
      simp only [runHist, List.getElem?_cons_succ]
      apply ih _ (he1 ▸ hI1) _ n k hk hl
      intro r
      rw [he1]
      cases hf : find st (.root r) with
      | none => have := hr r; simp [hf] at this
      | some i => simp [find_append_some st e1 _ i hf]

end CohdlVerif.C13

