import CohdlVerif.Lemmas.C01W2

/-! C01 - general grammar: `While`, structural context -/
namespace CohdlVerif.C01

/-- the state in which the body of a loop is translated -/
def wS1c (O : List Nat) (s : CSt) : CSt := { wS1 O s with cont := [], brk := [] }

theorem wR_eq (b : Stmt) (O : List Nat) (s : CSt) : wR b O s = compile b [wBody O s] (wS1c O s) := rfl

/-- structural facts about the translation of a loop -/
structure WCtx (cc : Option Nat) (b : Stmt) (O : List Nat) (s : CSt) : Prop where
  T1 : Step s O (wS1 O s) (wBody O s :: wHb O s :: O)
  A1 : (wS1 O s).atStart = false
  L1 : SameLists s (wS1 O s)
  hi1 : Inv (wS1c O s) [wBody O s]
  hsi1 : SInv (wS1c O s)
  body0 : (wS1 O s).heap (wBody O s) = {}
  next1 : (wS1 O s).next = wBody O s + 1
  hbl : wHb O s < wBody O s
  sbl : s.next ≤ wBody O s
  hbf : ((wS1 O s).heap (wHb O s)).front = []
  B : Step (wS1c O s) [wBody O s] (wR b O s).2 (wR b O s).1
  FB : FPost (wS1c O s) (wR b O s).1 (wR b O s).2
  brk_eq : dB (wS1c O s) (wR b O s).2 = (wS3 b O s).brk
  cont_eq : dC (wS1c O s) (wR b O s).2 = (wS3 b O s).cont
  ret_eq : dR (wS1c O s) (wR b O s).2 = dR s (wS4 b O s)
  h3 : ∀ o' ∈ (wR b O s).1, (wS4 b O s).heap o' = { (wR b O s).2.heap o' with front := [wIdx O s] }
  h3' : ∀ y, y ∉ (wR b O s).1 → (wS4 b O s).heap y = (wR b O s).2.heap y
  next4 : (wS4 b O s).next = (wR b O s).2.next
  root4 : (wS4 b O s).root = (wR b O s).2.root
  PCl : FPost s (wHb O s :: wRb cc b O s) (wCl cc b O s).2
  W : Step s O (wCl cc b O s).2 (wHb O s :: wRb cc b O s)
  A5 : (wCl cc b O s).2.atStart = false
  CL : Step (wS4 b O s) (wS3 b O s).cont (wCl cc b O s).2 []
  L5 : SameLists (wS4 b O s) (wCl cc b O s).2
  L4 : (wS4 b O s).brk = s.brk ∧ (wS4 b O s).cont = s.cont

theorem contLoop_sameLists (c : Option Nat) (body : Nat) : ∀ (cbs : List Nat) (s : CSt) (acc : List Nat),
    SameLists s (contLoop c body cbs s acc).2 := by
  intro cbs
  induction cbs with
  | nil => intro s acc; exact SameLists.refl s
  | cons cb cbs ih =>
    intro s acc
    by_cases hr : s.root cb = s.root body
    · rw [contLoop_cons_bad c body cb cbs s acc hr]
      exact (show SameLists s { s with bad := true } from ⟨rfl, rfl, rfl⟩).trans (ih _ _)
    · cases c with
      | none =>
        rw [contLoop_cons_none body cb cbs s acc hr]
        exact (show SameLists s (s.append cb (.sub body)) from ⟨rfl, rfl, rfl⟩).trans (ih _ _)
      | some c' =>
        rw [contLoop_cons_some c' body cb cbs s acc hr]
        exact (show SameLists s ((s.newBlock (some cb)).2.append cb (.ite c' body s.next)) from ⟨rfl, rfl, rfl⟩).trans (ih _ _)

theorem wctx (cc : Option Nat) (b : Stmt) (c : Bool) (hb : CSpec (compile b) true c) (fb : FwdG (compile b) true)
    (O : List Nat) (s : CSt) (hi : Inv s O) (hsi : SInv s) : WCtx cc b O s := by
  obtain ⟨T1, hA1, er, eb', ec⟩ := wS1_step O s hi.hlt hi.start
  obtain ⟨eb1, eb2, _⟩ := wS1_bodyG O s
  have hl1 := T1.hlt hi.hlt
  have hi1 : Inv (wS1c O s) [wBody O s] :=
    Inv.single (s1 := wS1c O s) (hl1.1 _ (by simp)) hl1.2 hA1 (by
      show ((wS1 O s).heap (wBody O s)).front = []
      rw [eb1])
  have hsi1' := hsi.step T1 hi.hlt.2
  have hsi1 : SInv (wS1c O s) := ⟨hsi1'.states_lt, hsi1'.root0, hsi1'.states0⟩
  have B : Step (wS1c O s) [wBody O s] (wR b O s).2 (wR b O s).1 := hb.step hi1 (fun _ => hA1)
  have FB : FPost (wS1c O s) (wR b O s).1 (wR b O s).2 := fb _ _ hi1 (fun _ => hA1)
  have h0l := (wS0_step O s hi.hlt hi.start).1.hlt hi.hlt
  have hbl : wHb O s < wBody O s := by have := h0l.1 (wHb O s) (by simp); simpa [wBody] using this
  have sbl : s.next ≤ wBody O s := by
    have := (wS0_step O s hi.hlt hi.start).1.next_le; simpa [wBody] using this
  have e3 := CSt.addfrontAll_sameLists (wIdx O s) (wR b O s).1 (wR b O s).2
  have hnd : (wR b O s).1.Nodup := FB.nodup_open
  obtain ⟨P4, S4, _⟩ := while_fpost4 b c hb fb O s hi
  obtain ⟨PCl, W, A5⟩ := while_fpostCl cc b c hb fb O s hi
  have hl4 := S4.hlt hi.hlt
  refine ⟨T1, hA1, ⟨eb', ec, er⟩, hi1, hsi1, eb1, eb2, hbl, sbl, wS1_hb_front O s hi, B, FB, ?_, ?_, ?_, ?_, ?_, ?_, ?_,
    PCl, W, A5, ?_, contLoop_sameLists _ _ _ _ _, ⟨eb', ec⟩⟩
  · simp only [dB, wS1c, List.length_nil, List.drop_zero]; exact e3.1.symm
  · simp only [dC, wS1c, List.length_nil, List.drop_zero]; exact e3.2.1.symm
  · have e4 : (wS4 b O s).ret = (wR b O s).2.ret := e3.2.2
    simp only [dR]
    rw [e4, show (wS1c O s).ret = (wS1 O s).ret from rfl, er]
  · intro o' ho'
    show (CSt.addfrontAll _ _ _).heap o' = _
    rw [addfrontAll_heap_nodup _ o' _ _ hnd ho']
    rw [FB.2 o' (mem_Outs.mpr (Or.inl ho'))]
  · intro y hy
    show (CSt.addfrontAll _ _ _).heap y = _
    exact addfrontAll_heap_notin _ y _ _ hy
  · show (CSt.addfrontAll _ _ _).next = _
    exact addfrontAll_next' _ _ _
  · show (CSt.addfrontAll _ _ _).root = _
    have := (HeapExt.addfrontAll (wR b O s).1 (wIdx O s) (wR b O s).1 (wR b O s).2 (fun _ h => h) (fun _ => by
      cases hst : s.atStart with
      | true => simp [wIdx, enterState_start O s hst]; omega
      | false =>
        have e1 : (wS1 O s).states = s.states ++ [s.next] := by
          simp [wS1, wS0, hst, enterState_nostart O s hst, CSt.newBlock, CSt.addfrontAll_states]
        have hle : (wS1c O s).states.length ≤ (wR b O s).2.states.length := B.states_mono.length_le
        simp only [wIdx, enterState_nostart O s hst]
        rw [show (wS1c O s).states = (wS1 O s).states from rfl, e1] at hle
        simp at hle; omega)).root_eq
    exact this
  · exact (contLoop_step cc (wBody O s) (wS3 b O s).cont (wS4 b O s) []
      ⟨fun o ho => hl4.1 o (by simp [ho]), hl4.2⟩).1

end CohdlVerif.C01
