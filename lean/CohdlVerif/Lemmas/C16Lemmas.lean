import CohdlVerif.Model.C16Timing

/-! helper lemmas for C16 (counter arithmetic, delay line indexing, iteration) -/
namespace CohdlVerif.C16

/-! ### arithmetic -/

theorem succ_mod (a n : Nat) (hn : 0 < n) :
    (a + 1) % n = if a % n + 1 = n then 0 else a % n + 1 := by
  have hlt := Nat.mod_lt a hn
  have h : a + 1 = n * (a / n) + (a % n + 1) := by
    have := Nat.div_add_mod a n
    omega
  rw [h, Nat.mul_add_mod]
  split
  · next he => rw [he, Nat.mod_self]
  · next hne => exact Nat.mod_eq_of_lt (by omega)

/-- `v - 1` on `Unsigned[w]` for `1 ≤ v < 2^w` -/
theorem dec_wrap (v w : Nat) (h1 : 1 ≤ v) (h2 : v < 2 ^ w) : (v + 2 ^ w - 1) % 2 ^ w = v - 1 := by
  have : v + 2 ^ w - 1 = (v - 1) + 2 ^ w := by omega
  rw [this, Nat.add_mod_right]
  exact Nat.mod_eq_of_lt (by omega)

/-! ### wait_for -/

theorem resumesAt_tick (k : Nat) : resumesAt .tick k = true ↔ k = 1 := by
  cases k with
  | zero => simp [resumesAt]
  | succ k => simp [resumesAt, Pend.step]

theorem resumesAt_loop (c : Nat) : ∀ k, resumesAt (.loop c) k = true ↔ k = c + 1 := by
  induction c with
  | zero =>
    intro k
    cases k with
    | zero => simp [resumesAt]
    | succ k => simp [resumesAt, Pend.step]
  | succ c ih =>
    intro k
    cases k with
    | zero => simp [resumesAt]
    | succ k =>
      simp only [resumesAt, Pend.step]
      rw [ih k]
      omega

/-- run of the wrapper process over a list of per-clock inputs (start, run-time value) -/
def prun (prog : List Wait) : PState → List (Bool × Nat) → PState :=
  List.foldl (fun s i => pstep prog s i.1 i.2)

/-- while a wait is pending nothing but its counter changes, whatever the inputs are -/
theorem prun_pending (prog : List Wait) :
    ∀ (k : Nat) (p : Pend) (s : PState) (ins : List (Bool × Nat)),
      s.pend = some p → resumesAt p (k + 1) = true → ins.length = k →
      (prun prog s ins).pc = s.pc ∧ (prun prog s ins).stage = s.stage ∧
      ∃ p', (prun prog s ins).pend = some p' ∧ p'.step = none := by
  intro k
  induction k with
  | zero =>
    intro p s ins hp hr hl
    have : ins = [] := List.length_eq_zero_iff.mp hl
    subst this
    refine ⟨rfl, rfl, p, hp, ?_⟩
    simp only [resumesAt] at hr
    cases hps : p.step with
    | none => rfl
    | some p' => rw [hps] at hr; simp [resumesAt] at hr
  | succ k ih =>
    intro p s ins hp hr hl
    cases ins with
    | nil => simp at hl
    | cons i rest =>
      simp only [List.length_cons, Nat.add_right_cancel_iff] at hl
      simp only [resumesAt] at hr
      cases hps : p.step with
      | none => rw [hps] at hr; simp at hr
      | some p' =>
        rw [hps] at hr
        have hstep : pstep prog s i.1 i.2 = { s with pend := some p' } := by
          simp [pstep, hp, hps]
        have := ih p' { s with pend := some p' } rest rfl hr hl
        simpa [prun, hstep] using this

/-! ### delay line -/

theorem dlStep_length (s : List Cell) (x : Nat) : (dlStep s x).length = s.length := by
  simp [dlStep]

theorem dlStep_zero (s : List Cell) (x : Nat) (h : 0 < s.length) : (dlStep s x)[0]? = some (some x) := by
  cases s with
  | nil => simp at h
  | cons a t => simp [dlStep, List.dropLast_eq_take, List.getElem?_take]

theorem dlStep_succ (s : List Cell) (x : Nat) (i : Nat) (h : i + 1 < s.length) :
    (dlStep s x)[i + 1]? = s[i]? := by
  simp [dlStep, List.dropLast_eq_take, List.getElem?_take, h]

/-- the stages after `T` clocks fed from the input stream `inp` (clock number j consumes `inp j`) -/
def dlAt (n : Nat) (init : Cell) (inp : Nat → Nat) : Nat → List Cell
  | 0 => dlInit n init
  | T + 1 => dlStep (dlAt n init inp T) (inp T)

theorem dlAt_length (n : Nat) (init : Cell) (inp : Nat → Nat) (T : Nat) : (dlAt n init inp T).length = n := by
  induction T with
  | zero => simp [dlAt, dlInit]
  | succ T ih => simp [dlAt, dlStep_length, ih]

theorem dlAt_stage (n : Nat) (init : Cell) (inp : Nat → Nat) :
    ∀ (T i : Nat), i < n →
      (dlAt n init inp T)[i]? = some (if i < T then some (inp (T - 1 - i)) else init) := by
  intro T
  induction T with
  | zero => intro i hi; simp [dlAt, dlInit, hi]
  | succ T ih =>
    intro i hi
    have hl := dlAt_length n init inp T
    cases i with
    | zero =>
      simp only [dlAt]
      rw [dlStep_zero _ _ (by omega)]
      simp
    | succ j =>
      simp only [dlAt]
      rw [dlStep_succ _ _ j (by omega), ih j (by omega)]
      by_cases h : j < T
      · have h2 : j + 1 < T + 1 := by omega
        have h3 : T - (j + 1) = T - 1 - j := by omega
        simp [h, h2, h3]
      · have h2 : ¬ (j + 1 < T + 1) := by omega
        simp [h, h2]

theorem getLast?_eq_getElem? (s : List Cell) : s.getLast? = s[s.length - 1]? := by
  rw [List.getLast?_eq_getElem?]

/-- enable-gated run = ungated run over the enabled clocks only -/
theorem dlRunEn_filter (s : List Cell) (ins : List (Bool × Nat)) :
    ins.foldl (fun s i => dlStepEn s i.1 i.2) s =
      ((ins.filter (·.1)).map (·.2)).foldl dlStep s := by
  induction ins generalizing s with
  | nil => rfl
  | cons i rest ih =>
    obtain ⟨en, x⟩ := i
    cases en
    · have h0 : dlStepEn s false x = s := rfl
      simp only [List.foldl_cons, h0, ih]
      simp
    · have h1 : dlStepEn s true x = dlStep s x := rfl
      simp only [List.foldl_cons, h1, ih]
      simp

/-! ### continuous_counter -/

theorem ccNext_eq (rt : Bool) (w c E : Nat) (hc : c ≤ E) (hE : E < 2 ^ w) :
    ccNext rt w c E = if c = E then 0 else c + 1 := by
  unfold ccNext
  cases rt
  · simp only [Bool.false_eq_true, if_false]
    split
    · rfl
    · exact Nat.mod_eq_of_lt (by omega)
  · simp only [if_true]
    by_cases h : c = E
    · simp [h]
    · have : ¬ c ≥ E := by omega
      simp only [this, h, if_false]
      exact Nat.mod_eq_of_lt (by omega)

/-- `k` clocks without reset and with a constant limit -/
def ccIter (rt : Bool) (w E : Nat) (c : Nat) : Nat → Nat
  | 0 => c
  | k + 1 => ccNext rt w (ccIter rt w E c k) E

theorem ccIter_eq (rt : Bool) (w E c : Nat) (hc : c ≤ E) (hE : E < 2 ^ w) :
    ∀ k, ccIter rt w E c k = (c + k) % (E + 1) := by
  intro k
  induction k with
  | zero => simp [ccIter]; exact (Nat.mod_eq_of_lt (by omega)).symm
  | succ k ih =>
    have hlt : (c + k) % (E + 1) < E + 1 := Nat.mod_lt _ (by omega)
    simp only [ccIter, ih]
    rw [ccNext_eq rt w _ E (by omega) hE]
    have h : c + (k + 1) = (c + k) + 1 := by omega
    rw [h, succ_mod _ _ (by omega)]
    by_cases h2 : (c + k) % (E + 1) = E
    · simp [h2]
    · have : ¬ ((c + k) % (E + 1) + 1 = E + 1) := by omega
      simp [h2, this]

/-! ### pulses (ClockDivider / ToggleSignal) -/

/-- free-running divider: `k` clocks without reset from the state `s`, constant duration -/
def divIter (cfg : DivCfg) (d : Nat) (s : Pulse) : Nat → Pulse
  | 0 => s
  | k + 1 => divStep cfg (divIter cfg d s k) false d

def togIter (cfg : TogCfg) (f g : Nat) (s : Pulse) : Nat → Pulse
  | 0 => s
  | k + 1 => togStep cfg (togIter cfg f g s k) false f g

theorem divIter_cnt (cfg : DivCfg) (d : Nat) (s : Pulse) (hc : s.cnt ≤ divEnd cfg d)
    (hE : divEnd cfg d < 2 ^ cfg.w) :
    ∀ k, (divIter cfg d s k).cnt = (s.cnt + k) % (divEnd cfg d + 1) := by
  intro k
  induction k with
  | zero => simp [divIter]; exact (Nat.mod_eq_of_lt (by omega)).symm
  | succ k ih =>
    have hlt : (s.cnt + k) % (divEnd cfg d + 1) < divEnd cfg d + 1 := Nat.mod_lt _ (by omega)
    simp only [divIter, divStep, Bool.false_eq_true, if_false, pulseUpdate, ih]
    rw [ccNext_eq cfg.rt cfg.w _ _ (by omega) hE]
    have h : s.cnt + (k + 1) = (s.cnt + k) + 1 := by omega
    rw [h, succ_mod _ _ (by omega)]
    by_cases h2 : (s.cnt + k) % (divEnd cfg d + 1) = divEnd cfg d
    · simp [h2]
    · have : ¬ ((s.cnt + k) % (divEnd cfg d + 1) + 1 = divEnd cfg d + 1) := by omega
      simp [h2, this]

theorem togIter_cnt (cfg : TogCfg) (f g : Nat) (s : Pulse) (hc : s.cnt ≤ togEnd cfg f g)
    (hE : togEnd cfg f g < 2 ^ cfg.wc) :
    ∀ k, (togIter cfg f g s k).cnt = (s.cnt + k) % (togEnd cfg f g + 1) := by
  intro k
  induction k with
  | zero => simp [togIter]; exact (Nat.mod_eq_of_lt (by omega)).symm
  | succ k ih =>
    have hlt : (s.cnt + k) % (togEnd cfg f g + 1) < togEnd cfg f g + 1 := Nat.mod_lt _ (by omega)
    simp only [togIter, togStep, Bool.false_eq_true, if_false, pulseUpdate, ih]
    rw [ccNext_eq cfg.rt cfg.wc _ _ (by omega) hE]
    have h : s.cnt + (k + 1) = (s.cnt + k) + 1 := by omega
    rw [h, succ_mod _ _ (by omega)]
    by_cases h2 : (s.cnt + k) % (togEnd cfg f g + 1) = togEnd cfg f g
    · simp [h2]
    · have : ¬ ((s.cnt + k) % (togEnd cfg f g + 1) + 1 = togEnd cfg f g + 1) := by omega
      simp [h2, this]

/-- `x mod D = 0` is isolated for `D ≥ 2` -/
theorem mod_zero_isolated (x D : Nat) (hD : 2 ≤ D) (h : x % D = 0) : (x + 1) % D ≠ 0 := by
  rw [succ_mod _ _ (by omega), h]
  have : ¬ (0 + 1 = D) := by omega
  simp [this]

/-- phase of `tick_at_start`: `(D-1+k) mod D = 0 ↔ k mod D = 1` -/
theorem tas_phase (k D : Nat) (hD : 2 ≤ D) : (D - 1 + k) % D = 0 ↔ k % D = 1 := by
  have hk := Nat.div_add_mod k D
  have hlt := Nat.mod_lt k (show 0 < D by omega)
  have e : D - 1 + k = D * (k / D) + (D - 1 + k % D) := by omega
  rw [e, Nat.mul_add_mod]
  by_cases h1 : k % D = 1
  · have : D - 1 + k % D = D := by omega
    rw [this, Nat.mod_self]; simp [h1]
  · by_cases h0 : k % D = 0
    · have : D - 1 + k % D = D - 1 := by omega
      rw [this, Nat.mod_eq_of_lt (by omega)]
      constructor <;> intro h <;> omega
    · have e2 : D - 1 + k % D = D + (k % D - 1) := by omega
      rw [e2, Nat.add_mod_left, Nat.mod_eq_of_lt (by omega)]
      constructor <;> intro h <;> omega

/-- two consecutive clocks of a pulse generator: each clock either resets (`rising = falling = 0`) or
    applies `pulseUpdate` with some next counter value and next state -/
theorem two_step_pulses (s t1 t2 : Pulse)
    (h1 : (t1.rising = false ∧ t1.falling = false) ∨ ∃ n b, t1 = pulseUpdate s n b)
    (h2 : (t2.rising = false ∧ t2.falling = false) ∨ ∃ n b, t2 = pulseUpdate t1 n b) :
    (t1.rising = true → t2.rising = false) ∧ (t1.falling = true → t2.falling = false) ∧
    (t1.rising && t1.falling) = false := by
  rcases h1 with ⟨hr, hf⟩ | ⟨n, b, h1⟩ <;> rcases h2 with ⟨hr2, hf2⟩ | ⟨n', b', h2⟩
  · simp [hr, hf]
  · simp [hr, hf]
  · subst h1; simp [hr2, hf2, pulseUpdate]; cases s.st <;> cases b <;> simp
  · subst h2; subst h1; simp only [pulseUpdate]; cases s.st <;> cases b <;> cases b' <;> simp

theorem togStep_cases (tc : TogCfg) (s : Pulse) (r : Bool) (f g : Nat) :
    ((togStep tc s r f g).rising = false ∧ (togStep tc s r f g).falling = false) ∨
      ∃ n b, togStep tc s r f g = pulseUpdate s n b := by
  cases r
  · right; simp only [togStep, Bool.false_eq_true, if_false]; exact ⟨_, _, rfl⟩
  · left; simp [togStep, togInit]

theorem divStep_cases (dc : DivCfg) (s : Pulse) (r : Bool) (d : Nat) :
    ((divStep dc s r d).rising = false ∧ (divStep dc s r d).falling = false) ∨
      ∃ n b, divStep dc s r d = pulseUpdate s n b := by
  cases r
  · right; simp only [divStep, Bool.false_eq_true, if_false]; exact ⟨_, _, rfl⟩
  · left; simp [divStep, divInit]

/-! ### debounce -/

def debRun (period : Nat) : Deb → List Bool → Deb := List.foldl (debStep period)

theorem debStep_le (period : Nat) (s : Deb) (b : Bool) (h : s.cnt ≤ period) :
    (debStep period s b).cnt ≤ period := by
  unfold debStep
  cases b <;> simp <;> split <;> simp <;> omega

theorem debRun_le (period : Nat) (bits : List Bool) :
    ∀ s : Deb, s.cnt ≤ period → (debRun period s bits).cnt ≤ period := by
  induction bits with
  | nil => intro s h; exact h
  | cons b rest ih => intro s h; exact ih _ (debStep_le period s b h)

/-- the saturating counter, written independently of the result register -/
def sat (period : Nat) (c : Nat) (b : Bool) : Nat := if b then min (c + 1) period else c - 1

theorem debStep_cnt (period : Nat) (s : Deb) (b : Bool) (h : s.cnt ≤ period) :
    (debStep period s b).cnt = sat period s.cnt b := by
  unfold debStep sat
  cases b <;> simp <;> split <;> simp <;> omega

theorem debRun_cnt (period : Nat) (bits : List Bool) :
    ∀ s : Deb, s.cnt ≤ period → (debRun period s bits).cnt = bits.foldl (sat period) s.cnt := by
  induction bits with
  | nil => intro s _; rfl
  | cons b rest ih =>
    intro s h
    simp only [debRun, List.foldl_cons]
    have := ih (debStep period s b) (debStep_le period s b h)
    simp only [debRun] at this
    rw [this, debStep_cnt period s b h]

theorem debRun_ones (period : Nat) :
    ∀ (j : Nat) (s : Deb), s.cnt ≤ period →
      debRun period s (List.replicate j true) =
        ⟨min (s.cnt + j) period, s.res || decide (period - s.cnt < j)⟩ := by
  intro j
  induction j with
  | zero =>
    intro s h
    cases s with
    | mk c r =>
      have h' : c ≤ period := h
      have hm : min c period = c := Nat.min_eq_left h'
      simp [debRun, hm]
  | succ j ih =>
    intro s h
    simp only [List.replicate_succ, debRun, List.foldl_cons]
    have hs := ih (debStep period s true) (debStep_le period s true h)
    simp only [debRun] at hs
    rw [hs]
    unfold debStep
    by_cases he : s.cnt = period
    · simp [he]
    · simp only [if_true, he, if_false]
      have h1 : min (s.cnt + 1 + j) period = min (s.cnt + (j + 1)) period := by
        congr 1; omega
      have h2 : decide (period - (s.cnt + 1) < j) = decide (period - s.cnt < j + 1) := by
        apply decide_eq_decide.mpr; omega
      simp [h1, h2]

theorem debRun_zeros (period : Nat) :
    ∀ (j : Nat) (s : Deb),
      debRun period s (List.replicate j false) = ⟨s.cnt - j, s.res && decide (j ≤ s.cnt)⟩ := by
  intro j
  induction j with
  | zero => intro s; cases s; simp [debRun]
  | succ j ih =>
    intro s
    simp only [List.replicate_succ, debRun, List.foldl_cons]
    have hs := ih (debStep period s false)
    simp only [debRun] at hs
    rw [hs]
    unfold debStep
    by_cases he : s.cnt = 0
    · simp [he]
    · simp only [Bool.false_eq_true, if_false, he]
      have h1 : s.cnt - 1 - j = s.cnt - (j + 1) := by omega
      have h2 : decide (j ≤ s.cnt - 1) = decide (j + 1 ≤ s.cnt) := by
        apply decide_eq_decide.mpr; omega
      simp [h1, h2]

/-! ### count_periods -/

theorem roundHalfEven_mul (k b : Nat) (hb : 0 < b) : roundHalfEven (k * b) b = k := by
  unfold roundHalfEven
  simp [Nat.mul_mod_left, Nat.mul_div_cancel _ hb, hb]

theorem roundHalfEven_nearest (a b : Nat) (hb : 0 < b) :
    2 * absDiff (roundHalfEven a b * b) a ≤ b := by
  have hd := Nat.div_add_mod a b
  have hlt := Nat.mod_lt a hb
  have hc : a / b * b = b * (a / b) := Nat.mul_comm _ _
  have hs : (a / b + 1) * b = b * (a / b) + b := by rw [Nat.add_mul, hc]; simp
  unfold roundHalfEven absDiff
  simp only
  split
  · rw [hc]; split <;> omega
  · split
    · rw [hs]; split <;> omega
    · split
      · rw [hc]; split <;> omega
      · rw [hs]; split <;> omega

end CohdlVerif.C16
