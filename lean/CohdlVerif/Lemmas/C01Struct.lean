import CohdlVerif.Model.CoroCompile

/-! C01 - structural facts about one run of the compiler mirror: which blocks it may touch (`Step`). -/
namespace CohdlVerif.C01

/-- a block is "in range" of a step from `s` (open blocks `O`) to `s'`: it was open or it is new;
    its root is the root of an open block or new -/
def InR (s : CSt) (O : List Nat) (s' : CSt) (o : Nat) : Prop :=
  (o ∈ O ∨ (s.next ≤ o ∧ o < s'.next)) ∧ (s'.root o ∈ O.map s.root ∨ (s.next ≤ s'.root o ∧ s'.root o < s'.next))

/-- every front transition targets an existing state -/
def TOK (s : CSt) : Prop := 0 < s.states.length ∧ ∀ b t, t ∈ (s.heap b).front → t < s.states.length

/-- structural summary of a piece of compilation from `(s, O)` to `(s', O')` -/
structure Step (s : CSt) (O : List Nat) (s' : CSt) (O' : List Nat) : Prop where
  next_le : s.next ≤ s'.next
  frame : ∀ x, x < s.next → x ∉ O → s'.heap x = s.heap x
  items_mono : ∀ x, x < s.next → (s.heap x).items <+: (s'.heap x).items
  front_mono : ∀ x, x < s.next → (s.heap x).front <:+ (s'.heap x).front
  fresh : (∀ x, s.next ≤ x → s.heap x = {}) → ∀ x, s'.next ≤ x → s'.heap x = {}
  root_stable : ∀ x, x < s.next → s'.root x = s.root x
  states_mono : s.states <+: s'.states
  states_lt : (∀ r ∈ s.states, r < s.next) → ∀ r ∈ s'.states, r < s'.next
  open_r : ∀ o ∈ O', InR s O s' o
  brk_r : ∃ d, s'.brk = s.brk ++ d ∧ ∀ o ∈ d, InR s O s' o
  cont_r : ∃ d, s'.cont = s.cont ++ d ∧ ∀ o ∈ d, InR s O s' o
  ret_r : ∃ d, s'.ret = s.ret ++ d ∧ ∀ o ∈ d, InR s O s' o
  tgt : TOK s → TOK s'

theorem Step.refl (s : CSt) (O : List Nat) : Step s O s O where
  next_le := Nat.le_refl _
  frame := fun _ _ _ => rfl
  items_mono := fun _ _ => List.prefix_refl _
  front_mono := fun _ _ => List.suffix_refl _
  fresh := fun h => h
  root_stable := fun _ _ => rfl
  states_mono := List.prefix_refl _
  states_lt := fun h => h
  open_r := fun o ho => ⟨Or.inl ho, Or.inl (List.mem_map_of_mem ho)⟩
  brk_r := ⟨[], by simp, by simp⟩
  cont_r := ⟨[], by simp, by simp⟩
  ret_r := ⟨[], by simp, by simp⟩
  tgt := fun h => h

/-- blocks in range of the second step are in range of the composed step -/
theorem InR.trans {s s1 s' : CSt} {O O1 : List Nat} (h1 : Step s O s1 O1) (hn : s1.next ≤ s'.next) {o : Nat} (h : InR s1 O1 s' o) : InR s O s' o := by
  obtain ⟨ha, hb⟩ := h
  constructor
  · rcases ha with ha | ha
    · rcases (h1.open_r o ha).1 with h | h
      · exact Or.inl h
      · exact Or.inr ⟨h.1, by omega⟩
    · exact Or.inr ⟨by have := h1.next_le; omega, ha.2⟩
  · rcases hb with hb | hb
    · obtain ⟨y, hy, hyr⟩ := List.mem_map.mp hb
      rcases (h1.open_r y hy).2 with h | h
      · exact Or.inl (hyr ▸ h)
      · exact Or.inr (hyr ▸ ⟨h.1, by omega⟩)
    · exact Or.inr ⟨by have := h1.next_le; omega, hb.2⟩

/-- an earlier in-range block stays in range -/
theorem InR.mono {s s1 s' : CSt} {O : List Nat} (hn : s1.next ≤ s'.next)
    (hroot : ∀ x, x < s1.next → s'.root x = s1.root x) (hlt : ∀ o ∈ O, o < s.next) (hsn : s.next ≤ s1.next)
    {o : Nat} (h : InR s O s1 o) : InR s O s' o := by
  obtain ⟨ha, hb⟩ := h
  have ho : o < s1.next := by
    rcases ha with ha | ha
    · have := hlt o ha; omega
    · exact ha.2
  constructor
  · rcases ha with ha | ha
    · exact Or.inl ha
    · exact Or.inr ⟨ha.1, by omega⟩
  · rw [hroot o ho]
    rcases hb with hb | hb
    · exact Or.inl hb
    · exact Or.inr ⟨hb.1, by omega⟩


theorem Step.trans {s s1 s' : CSt} {O O1 O' : List Nat} (hlt : ∀ o ∈ O, o < s.next)
    (h1 : Step s O s1 O1) (h2 : Step s1 O1 s' O') : Step s O s' O' where
  next_le := Nat.le_trans h1.next_le h2.next_le
  frame := by
    intro x hx hxO
    rw [← h1.frame x hx hxO]
    apply h2.frame x (by have := h1.next_le; omega)
    intro hx1
    rcases (h1.open_r x hx1).1 with h | h
    · exact hxO h
    · omega
  items_mono := fun x hx => (h1.items_mono x hx).trans (h2.items_mono x (by have := h1.next_le; omega))
  front_mono := fun x hx => (h1.front_mono x hx).trans (h2.front_mono x (by have := h1.next_le; omega))
  fresh := fun h => h2.fresh (h1.fresh h)
  root_stable := by
    intro x hx
    rw [h2.root_stable x (by have := h1.next_le; omega), h1.root_stable x hx]
  states_mono := h1.states_mono.trans h2.states_mono
  states_lt := fun h => h2.states_lt (h1.states_lt h)
  open_r := fun o ho => InR.trans h1 h2.next_le (h2.open_r o ho)
  brk_r := by
    obtain ⟨d1, e1, r1⟩ := h1.brk_r
    obtain ⟨d2, e2, r2⟩ := h2.brk_r
    refine ⟨d1 ++ d2, by rw [e2, e1, List.append_assoc], ?_⟩
    intro o ho
    rcases List.mem_append.mp ho with h | h
    · exact InR.mono h2.next_le h2.root_stable hlt h1.next_le (r1 o h)
    · exact InR.trans h1 h2.next_le (r2 o h)
  cont_r := by
    obtain ⟨d1, e1, r1⟩ := h1.cont_r
    obtain ⟨d2, e2, r2⟩ := h2.cont_r
    refine ⟨d1 ++ d2, by rw [e2, e1, List.append_assoc], ?_⟩
    intro o ho
    rcases List.mem_append.mp ho with h | h
    · exact InR.mono h2.next_le h2.root_stable hlt h1.next_le (r1 o h)
    · exact InR.trans h1 h2.next_le (r2 o h)
  ret_r := by
    obtain ⟨d1, e1, r1⟩ := h1.ret_r
    obtain ⟨d2, e2, r2⟩ := h2.ret_r
    refine ⟨d1 ++ d2, by rw [e2, e1, List.append_assoc], ?_⟩
    intro o ho
    rcases List.mem_append.mp ho with h | h
    · exact InR.mono h2.next_le h2.root_stable hlt h1.next_le (r1 o h)
    · exact InR.trans h1 h2.next_le (r2 o h)
  tgt := fun h => h2.tgt (h1.tgt h)

/-- only the heap changes, only at blocks of `O`, only by appending items / inserting front transitions -/
structure HeapExt (s s' : CSt) (O : List Nat) : Prop where
  next_eq : s'.next = s.next
  root_eq : s'.root = s.root
  states_eq : s'.states = s.states
  brk_eq : s'.brk = s.brk
  cont_eq : s'.cont = s.cont
  ret_eq : s'.ret = s.ret
  bad_eq : s'.bad = s.bad
  frame : ∀ x, x ∉ O → s'.heap x = s.heap x
  items_mono : ∀ x, (s.heap x).items <+: (s'.heap x).items
  front_mono : ∀ x, (s.heap x).front <:+ (s'.heap x).front
  tgt : TOK s → TOK s'

theorem HeapExt.refl (s : CSt) (O : List Nat) : HeapExt s s O :=
  ⟨rfl, rfl, rfl, rfl, rfl, rfl, rfl, fun _ _ => rfl, fun _ => List.prefix_refl _, fun _ => List.suffix_refl _, fun h => h⟩

theorem HeapExt.trans {s s1 s2 : CSt} {O : List Nat} (h1 : HeapExt s s1 O) (h2 : HeapExt s1 s2 O) : HeapExt s s2 O :=
  ⟨h2.next_eq.trans h1.next_eq, h2.root_eq.trans h1.root_eq, h2.states_eq.trans h1.states_eq,
   h2.brk_eq.trans h1.brk_eq, h2.cont_eq.trans h1.cont_eq, h2.ret_eq.trans h1.ret_eq, h2.bad_eq.trans h1.bad_eq,
   fun x hx => (h2.frame x hx).trans (h1.frame x hx),
   fun x => (h1.items_mono x).trans (h2.items_mono x), fun x => (h1.front_mono x).trans (h2.front_mono x),
   fun h => h2.tgt (h1.tgt h)⟩

theorem HeapExt.append (s : CSt) (O : List Nat) (b : Nat) (hb : b ∈ O) (it : Item) : HeapExt s (s.append b it) O := by
  refine ⟨rfl, rfl, rfl, rfl, rfl, rfl, rfl, ?_, ?_, ?_, ?_⟩
  · intro x hx
    have : x ≠ b := fun h => hx (h ▸ hb)
    simp [CSt.append, this]
  · intro x
    by_cases h : x = b
    · subst h; simp [CSt.append]
    · simp [CSt.append, h]
  · intro x
    by_cases h : x = b
    · subst h; simp [CSt.append]
    · simp [CSt.append, h]
  · intro ⟨h0, h⟩
    refine ⟨h0, ?_⟩
    intro x t ht
    apply h x t
    by_cases hx : x = b
    · subst hx; simpa [CSt.append] using ht
    · simpa [CSt.append, hx] using ht

theorem HeapExt.addfront (s : CSt) (O : List Nat) (b : Nat) (hb : b ∈ O) (t : Nat)
    (htg : 0 < s.states.length → t < s.states.length) : HeapExt s (s.addfront b t) O := by
  refine ⟨rfl, rfl, rfl, rfl, rfl, rfl, rfl, ?_, ?_, ?_, ?_⟩
  · intro x hx
    have : x ≠ b := fun h => hx (h ▸ hb)
    simp [CSt.addfront, this]
  · intro x
    by_cases h : x = b
    · subst h; simp [CSt.addfront]
    · simp [CSt.addfront, h]
  · intro x
    by_cases h : x = b
    · subst h; simp [CSt.addfront]
    · simp [CSt.addfront, h]
  · intro ⟨h0, h⟩
    refine ⟨h0, ?_⟩
    intro x t' ht
    by_cases hx : x = b
    · subst hx
      simp only [CSt.addfront, if_true, List.mem_cons] at ht
      rcases ht with ht | ht
      · subst ht; exact htg h0
      · exact h x t' ht
    · exact h x t' (by simpa [CSt.addfront, hx] using ht)

theorem HeapExt.appendAll (O : List Nat) (it : Item) : ∀ (bs : List Nat) (s : CSt), (∀ b ∈ bs, b ∈ O) →
    HeapExt s (s.appendAll bs it) O := by
  intro bs
  induction bs with
  | nil => intro s _; exact HeapExt.refl s O
  | cons b bs ih =>
    intro s h
    simp only [CSt.appendAll, List.foldl_cons]
    exact (HeapExt.append s O b (h b (by simp)) it).trans (ih _ (fun x hx => h x (by simp [hx])))

theorem HeapExt.addfrontAll (O : List Nat) (t : Nat) : ∀ (bs : List Nat) (s : CSt), (∀ b ∈ bs, b ∈ O) →
    (0 < s.states.length → t < s.states.length) → HeapExt s (s.addfrontAll bs t) O := by
  intro bs
  induction bs with
  | nil => intro s _ _; exact HeapExt.refl s O
  | cons b bs ih =>
    intro s h htg
    simp only [CSt.addfrontAll, List.foldl_cons]
    exact (HeapExt.addfront s O b (h b (by simp)) t htg).trans (ih _ (fun x hx => h x (by simp [hx])) htg)

theorem HeapExt.step {s s' : CSt} {O : List Nat} (hlt : ∀ o ∈ O, o < s.next) (h : HeapExt s s' O) : Step s O s' O where
  next_le := by rw [h.next_eq]; exact Nat.le_refl _
  frame := fun x _ hx => h.frame x hx
  items_mono := fun x _ => h.items_mono x
  front_mono := fun x _ => h.front_mono x
  fresh := by
    intro hf x hx
    rw [h.next_eq] at hx
    rw [h.frame x (fun hO => by have := hlt x hO; omega)]
    exact hf x hx
  root_stable := fun x _ => by rw [h.root_eq]
  states_mono := by rw [h.states_eq]; exact List.prefix_refl _
  states_lt := by rw [h.states_eq, h.next_eq]; exact fun h => h
  open_r := fun o ho => ⟨Or.inl ho, Or.inl (by rw [h.root_eq]; exact List.mem_map_of_mem ho)⟩
  brk_r := ⟨[], by simp [h.brk_eq], by simp⟩
  cont_r := ⟨[], by simp [h.cont_eq], by simp⟩
  ret_r := ⟨[], by simp [h.ret_eq], by simp⟩
  tgt := h.tgt


/-- two states that differ only in the lists `brk`, `cont`, `ret` and the flag `bad` -/
def SameCore (a a' : CSt) : Prop := a'.heap = a.heap ∧ a'.next = a.next ∧ a'.root = a.root ∧ a'.states = a.states

theorem InR.same {a a' b b' : CSt} {O : List Nat} (ha : SameCore a a') (hb : SameCore b b') {o : Nat}
    (h : InR a O b o) : InR a' O b' o := by
  obtain ⟨_, han, har, _⟩ := ha
  obtain ⟨_, hbn, hbr, _⟩ := hb
  simpa [InR, han, har, hbn, hbr] using h

theorem Step.relist {a a' b b' : CSt} {O O' : List Nat} (ha : SameCore a a') (hb : SameCore b b') (h : Step a O b O')
    (hbrk : ∃ d, b'.brk = a'.brk ++ d ∧ ∀ o ∈ d, InR a O b o)
    (hcont : ∃ d, b'.cont = a'.cont ++ d ∧ ∀ o ∈ d, InR a O b o)
    (hret : ∃ d, b'.ret = a'.ret ++ d ∧ ∀ o ∈ d, InR a O b o) : Step a' O b' O' := by
  have ha' := ha
  have hb' := hb
  obtain ⟨hah, han, har, has⟩ := ha
  obtain ⟨hbh, hbn, hbr, hbs⟩ := hb
  refine ⟨?_, ?_, ?_, ?_, ?_, ?_, ?_, ?_, ?_, ?_, ?_, ?_, ?_⟩
  · rw [han, hbn]; exact h.next_le
  · rw [han, hah, hbh]; exact h.frame
  · rw [han, hah, hbh]; exact h.items_mono
  · rw [han, hah, hbh]; exact h.front_mono
  · rw [han, hah, hbh, hbn]; exact h.fresh
  · rw [han, har, hbr]; exact h.root_stable
  · rw [has, hbs]; exact h.states_mono
  · rw [has, hbs, han, hbn]; exact h.states_lt
  · exact fun o ho => InR.same ha' hb' (h.open_r o ho)
  · obtain ⟨d, e, r⟩ := hbrk; exact ⟨d, e, fun o ho => InR.same ha' hb' (r o ho)⟩
  · obtain ⟨d, e, r⟩ := hcont; exact ⟨d, e, fun o ho => InR.same ha' hb' (r o ho)⟩
  · obtain ⟨d, e, r⟩ := hret; exact ⟨d, e, fun o ho => InR.same ha' hb' (r o ho)⟩
  · simp only [TOK, hah, has, hbh, hbs]; exact h.tgt

/-- the open list before may be enlarged, the open list after replaced by any list of in-range blocks -/
theorem Step.weaken {s s' : CSt} {O1 O1' O O' : List Nat} (h : Step s O1 s' O1') (hO : ∀ o ∈ O1, o ∈ O)
    (hO' : ∀ o ∈ O', InR s O s' o) : Step s O s' O' := by
  have inr : ∀ o, InR s O1 s' o → InR s O s' o := by
    intro o ⟨ha, hb⟩
    refine ⟨ha.imp (hO o) id, hb.imp ?_ id⟩
    intro hm
    obtain ⟨y, hy, hyr⟩ := List.mem_map.mp hm
    exact List.mem_map.mpr ⟨y, hO y hy, hyr⟩
  refine ⟨h.next_le, fun x hx hxO => h.frame x hx (fun h1 => hxO (hO x h1)), h.items_mono, h.front_mono, h.fresh,
    h.root_stable, h.states_mono, h.states_lt, hO', ?_, ?_, ?_, h.tgt⟩
  · obtain ⟨d, e, r⟩ := h.brk_r; exact ⟨d, e, fun o ho => inr o (r o ho)⟩
  · obtain ⟨d, e, r⟩ := h.cont_r; exact ⟨d, e, fun o ho => inr o (r o ho)⟩
  · obtain ⟨d, e, r⟩ := h.ret_r; exact ⟨d, e, fun o ho => inr o (r o ho)⟩


theorem Step.newBlock (s : CSt) (O : List Nat) (hlt : ∀ o ∈ O, o < s.next) (parent : Option Nat)
    (hp : ∀ p, parent = some p → p ∈ O) : Step s O (s.newBlock parent).2 (s.next :: O) := by
  refine ⟨by simp [CSt.newBlock], ?_, ?_, ?_, ?_, ?_, by simp [CSt.newBlock], ?_, ?_,
    ⟨[], by simp [CSt.newBlock], by simp⟩, ⟨[], by simp [CSt.newBlock], by simp⟩, ⟨[], by simp [CSt.newBlock], by simp⟩, ?_⟩
  · intro x hx _
    have : x ≠ s.next := by omega
    simp [CSt.newBlock, this]
  · intro x hx
    have : x ≠ s.next := by omega
    simp [CSt.newBlock, this]
  · intro x hx
    have : x ≠ s.next := by omega
    simp [CSt.newBlock, this]
  · intro hf x hx
    simp only [CSt.newBlock] at hx ⊢
    have : x ≠ s.next := by omega
    simp only [this, if_false]
    exact hf x (by omega)
  · intro x hx
    have : x ≠ s.next := by omega
    simp [CSt.newBlock, this]
  · intro hs r hr
    simp only [CSt.newBlock] at hr ⊢
    have := hs r hr; omega
  · intro o ho
    rcases List.mem_cons.mp ho with h | h
    · subst h
      refine ⟨Or.inr ⟨Nat.le_refl _, by simp [CSt.newBlock]⟩, ?_⟩
      cases parent with
      | none => exact Or.inr (by simp [CSt.newBlock])
      | some p => exact Or.inl (by simpa [CSt.newBlock] using List.mem_map_of_mem (f := s.root) (hp p rfl))
    · have hne : o ≠ s.next := by have := hlt o h; omega
      exact ⟨Or.inl h, Or.inl (by simpa [CSt.newBlock, hne] using List.mem_map_of_mem (f := s.root) h)⟩
  · intro ⟨h0, h⟩
    refine ⟨h0, ?_⟩
    intro x t ht
    by_cases hx : x = s.next
    · subst hx; simp [CSt.newBlock] at ht
    · exact h x t (by simpa [CSt.newBlock, hx] using ht)

theorem Step.addState (s : CSt) (O : List Nat) (nb : Nat) (hnb : nb < s.next) :
    Step s O { s with states := s.states ++ [nb] } O := by
  refine ⟨Nat.le_refl _, fun _ _ _ => rfl, fun _ _ => List.prefix_refl _, fun _ _ => List.suffix_refl _, fun h => h,
    fun _ _ => rfl, List.prefix_append _ _, ?_, ?_, ⟨[], by simp, by simp⟩, ⟨[], by simp, by simp⟩, ⟨[], by simp, by simp⟩, ?_⟩
  · intro hs r hr
    rcases List.mem_append.mp hr with h | h
    · exact hs r h
    · simp at h; subst h; exact hnb
  · exact fun o ho => ⟨Or.inl ho, Or.inl (List.mem_map_of_mem ho)⟩
  · intro ⟨h0, h⟩
    refine ⟨by simp, ?_⟩
    intro x t ht
    have := h x t ht
    simp only [List.length_append, List.length_cons, List.length_nil]; omega

/-- `break` / `continue` / `return`: the open blocks move to one of the lists -/
theorem Step.toLists (s s' : CSt) (O : List Nat) (hc : SameCore s s')
    (hb : s'.brk = s.brk ∨ s'.brk = s.brk ++ O) (hcn : s'.cont = s.cont ∨ s'.cont = s.cont ++ O)
    (hr : s'.ret = s.ret ∨ s'.ret = s.ret ++ O) : Step s O s' [] := by
  have hin : ∀ o ∈ O, InR s O s o := fun o ho => ⟨Or.inl ho, Or.inl (List.mem_map_of_mem ho)⟩
  have base : Step s O s [] := (Step.refl s O).weaken (fun _ h => h) (by simp)
  refine Step.relist ⟨rfl, rfl, rfl, rfl⟩ hc base ?_ ?_ ?_
  · rcases hb with h | h
    · exact ⟨[], by simp [h], by simp⟩
    · exact ⟨O, h, hin⟩
  · rcases hcn with h | h
    · exact ⟨[], by simp [h], by simp⟩
    · exact ⟨O, h, hin⟩
  · rcases hr with h | h
    · exact ⟨[], by simp [h], by simp⟩
    · exact ⟨O, h, hin⟩


theorem InR.weakenO {s s' : CSt} {O1 O : List Nat} (hO : ∀ o ∈ O1, o ∈ O) {o : Nat} (h : InR s O1 s' o) :
    InR s O s' o := by
  obtain ⟨ha, hb⟩ := h
  refine ⟨ha.imp (hO o) id, hb.imp ?_ id⟩
  intro hm
  obtain ⟨y, hy, hyr⟩ := List.mem_map.mp hm
  exact List.mem_map.mpr ⟨y, hO y hy, hyr⟩

theorem InR.lt {s s' : CSt} {O : List Nat} (hlt : ∀ o ∈ O, o < s.next) (hn : s.next ≤ s'.next) {o : Nat}
    (h : InR s O s' o) : o < s'.next := by
  rcases h.1 with h | h
  · have := hlt o h; omega
  · exact h.2

theorem mem_insId (acc : List Nat) (x y : Nat) : y ∈ insId acc x ↔ y ∈ acc ∨ y = x := by
  unfold insId
  split
  · rename_i h
    constructor
    · exact Or.inl
    · rintro (h1 | h1)
      · exact h1
      · subst h1; simpa using h
  · simp

theorem mem_insIds (xs : List Nat) : ∀ (acc : List Nat) (y : Nat), y ∈ insIds acc xs ↔ y ∈ acc ∨ y ∈ xs := by
  induction xs with
  | nil => intro acc y; simp [insIds]
  | cons x xs ih =>
    intro acc y
    simp only [insIds, List.foldl_cons] at ih ⊢
    rw [ih, mem_insId]
    simp only [List.mem_cons, or_assoc]

/-- `Hlt`: all open blocks exist, block 0 exists -/
def Hlt (s : CSt) (O : List Nat) : Prop := (∀ o ∈ O, o < s.next) ∧ 0 < s.next

theorem Step.hlt {s s' : CSt} {O O' : List Nat} (h : Step s O s' O') (hl : Hlt s O) : Hlt s' O' :=
  ⟨fun o ho => InR.lt hl.1 h.next_le (h.open_r o ho), by have := h.next_le; have := hl.2; omega⟩

theorem atStart_false_of_items {s : CSt} (h : (s.heap 0).items ≠ []) : s.atStart = false := by
  simp only [CSt.atStart, Bool.and_eq_false_iff, List.isEmpty_eq_false_iff]
  exact Or.inr h

/-- once the first state is used it stays used -/
theorem Step.atStart_false {s s' : CSt} {O O' : List Nat} (h : Step s O s' O') (h0 : 0 < s.next)
    (hs : s.atStart = false) : s'.atStart = false := by
  simp only [CSt.atStart, Bool.and_eq_false_iff, List.isEmpty_eq_false_iff] at hs ⊢
  rcases hs with hs | hs
  · left
    obtain ⟨t, ht⟩ := h.front_mono 0 h0
    intro h'; rw [h'] at ht
    exact hs (by simpa using (List.append_eq_nil_iff.mp ht).2)
  · right
    obtain ⟨t, ht⟩ := h.items_mono 0 h0
    intro h'; rw [h'] at ht
    exact hs (by simpa using (List.append_eq_nil_iff.mp ht).1)

end CohdlVerif.C01
