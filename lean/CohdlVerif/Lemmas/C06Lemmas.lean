import CohdlVerif.Model.C06

/-! Helper lemmas for C06 (naming mechanism). -/
namespace CohdlVerif.C06

/-! ### digits -/

theorem digit_small : ∀ k, k < 10 →
    lowerChar (Char.ofNat (48 + k)) = Char.ofNat (48 + k) ∧ (Char.ofNat (48 + k)).toNat - 48 = k ∧
    isDigit (Char.ofNat (48 + k)) = true := by decide

theorem lowerChar_digitChar (d : Nat) : lowerChar (digitChar d) = digitChar d :=
  (digit_small (d % 10) (Nat.mod_lt _ (by decide))).1

theorem val_digitChar (d : Nat) : (digitChar d).toNat - 48 = d % 10 :=
  (digit_small (d % 10) (Nat.mod_lt _ (by decide))).2.1

theorem isDigit_digitChar (d : Nat) : isDigit (digitChar d) = true :=
  (digit_small (d % 10) (Nat.mod_lt _ (by decide))).2.2

theorem ofDigits_append (a : List Char) (c : Char) :
    ofDigits (a ++ [c]) = ofDigits a * 10 + (c.toNat - 48) := by
  simp [ofDigits, List.foldl_append]

theorem ofDigits_digitsF : ∀ f n, n ≤ f → ofDigits (digitsF f n) = n := by
  intro f
  induction f with
  | zero =>
      intro n h
      have : n = 0 := by omega
      subst this
      simp [digitsF, ofDigits, val_digitChar]
  | succ f ih =>
      intro n h
      unfold digitsF
      split
      · rename_i h10
        simp [ofDigits, val_digitChar]
        omega
      · rename_i h10
        rw [ofDigits_append, ih (n / 10) (by omega), val_digitChar]
        omega

theorem ofDigits_digits (n : Nat) : ofDigits (digits n) = n := ofDigits_digitsF n n (Nat.le_refl _)

theorem digits_inj {a b : Nat} (h : digits a = digits b) : a = b := by
  have := congrArg ofDigits h
  simpa [ofDigits_digits] using this

theorem lower_digitsF : ∀ f n, lower (digitsF f n) = digitsF f n := by
  intro f
  induction f with
  | zero => intro n; simp [digitsF, lower, lowerChar_digitChar]
  | succ f ih =>
      intro n
      unfold digitsF
      split
      · simp [lower, lowerChar_digitChar]
      · have := ih (n / 10)
        simp only [lower] at this ⊢
        simp [List.map_append, this, lowerChar_digitChar]

theorem lower_digits (n : Nat) : lower (digits n) = digits n := lower_digitsF n n

theorem lower_cand (base : Name) (n : Nat) : lower (cand base n) = lower base ++ digits n := by
  simp [cand, lower, List.map_append]
  exact lower_digits n

theorem cand_lower_inj {base : Name} {a b : Nat} (h : lower (cand base a) = lower (cand base b)) : a = b := by
  rw [lower_cand, lower_cand] at h
  exact digits_inj (List.append_cancel_left h)


/-! ### the collision search -/

theorem free_iff {used : List Name} {base : Name} {n : Nat} :
    free used base n = true ↔ lower (cand base n) ∉ used := by
  simp [free]

/-- the doubling loop ends on a free candidate: all candidates `2^k * cnt` are distinct, `S` collects the
    used ones among them, every failed test removes one element of `S` -/
theorem double_free_aux (used : List Name) (base : Name) :
    ∀ (f : Nat) (S : List Name) (cnt : Nat), 0 < cnt → S.length ≤ f →
      (∀ k, lower (cand base (2 ^ k * cnt)) ∈ used → lower (cand base (2 ^ k * cnt)) ∈ S) →
      free used base (double used base f cnt) = true := by
  intro f
  induction f with
  | zero =>
      intro S cnt hc hS hk
      have hnil : S = [] := List.eq_nil_of_length_eq_zero (by omega)
      subst hnil
      simp only [double]
      rw [free_iff]
      intro hin
      have := hk 0 (by simpa using hin)
      simp at this
  | succ f ih =>
      intro S cnt hc hS hk
      simp only [double]
      split
      · assumption
      · rename_i hfree
        have hin : lower (cand base cnt) ∈ used := by
          have h0 := hfree
          rw [free_iff] at h0
          exact Decidable.not_not.mp h0
        have hinS : lower (cand base cnt) ∈ S := by
          have := hk 0 (by simpa using hin)
          simpa using this
        let x := lower (cand base cnt)
        let S' := S.filter (fun y => y != x)
        have hlen : S'.length < S.length :=
          List.length_filter_lt_length_iff_exists.mpr ⟨x, hinS, by simp⟩
        apply ih S' (2 * cnt) (by omega) (by omega)
        intro k hku
        have h1 : 2 ^ k * (2 * cnt) = 2 ^ (k + 1) * cnt := by rw [Nat.pow_succ]; ac_rfl
        rw [h1] at hku ⊢
        have hS1 := hk (k + 1) hku
        refine List.mem_filter.mpr ⟨hS1, ?_⟩
        simp only [bne_iff_ne, ne_eq]
        intro heq
        have := cand_lower_inj heq
        have h2 : 2 ^ (k + 1) ≥ 2 := by
          rw [Nat.pow_succ]
          have : 2 ^ k ≥ 1 := Nat.one_le_two_pow
          omega
        have h3 : 2 ^ (k + 1) * cnt ≥ 2 * cnt := Nat.mul_le_mul_right cnt h2
        omega

theorem double_free (used : List Name) (base : Name) :
    free used base (double used base used.length 1) = true :=
  double_free_aux used base used.length used 1 (by decide) (Nat.le_refl _) (fun _ h => h)

/-- the bisection keeps "the current candidate is free" (freeness is NOT monotone in the suffix) -/
theorem bisect_free (used : List Name) (base : Name) :
    ∀ (f cnt step : Nat), free used base cnt = true → free used base (bisect used base f cnt step) = true := by
  intro f
  induction f with
  | zero => intro cnt step h; simpa [bisect] using h
  | succ f ih =>
      intro cnt step h
      simp only [bisect]
      split
      · exact h
      · apply ih
        split
        · assumption
        · exact h

theorem suffix_free (used : List Name) (base : Name) : free used base (suffix used base) = true := by
  unfold suffix
  exact bisect_free used base _ _ _ (double_free used base)

theorem pick_fresh (used : List Name) (base : Name) : lower (pick used base) ∉ used := by
  unfold pick
  split
  · exact free_iff.mp (suffix_free used base)
  · rename_i h
    simpa using h


/-! ### one scope -/

structure ScopeOk (used raws : List Name) (r : List Name × List Name) : Prop where
  mono : ∀ u ∈ used, u ∈ r.2
  inUsed : ∀ n ∈ r.1, lower n ∈ r.2
  fresh : ∀ n ∈ r.1, lower n ∉ used
  nodup : (r.1.map lower).Nodup
  len : r.1.length = raws.length
  only : ∀ x ∈ r.2, x ∈ used ∨ x ∈ r.1.map lower

theorem assignScope_ok (cfg : SanCfg) : ∀ (raws used : List Name), ScopeOk used raws (assignScope cfg used raws) := by
  intro raws
  induction raws with
  | nil =>
      intro used
      exact ⟨fun u h => h, by simp [assignScope], by simp [assignScope], by simp [assignScope],
        by simp [assignScope], fun x h => Or.inl h⟩
  | cons r rs ih =>
      intro used
      have hp := pick_fresh used (sanitizeWith cfg r)
      have h := ih (lower (pick used (sanitizeWith cfg r)) :: used)
      simp only [assignScope]
      refine ⟨?_, ?_, ?_, ?_, ?_, ?_⟩
      · intro u hu
        exact h.mono u (List.mem_cons_of_mem _ hu)
      · intro n hn
        rcases List.mem_cons.mp hn with rfl | hn
        · exact h.mono _ (List.mem_cons_self ..)
        · exact h.inUsed n hn
      · intro n hn
        rcases List.mem_cons.mp hn with rfl | hn
        · exact hp
        · intro hin
          exact h.fresh n hn (List.mem_cons_of_mem _ hin)
      · simp only [List.map_cons, List.nodup_cons]
        refine ⟨?_, h.nodup⟩
        intro hin
        rcases List.mem_map.mp hin with ⟨n, hn, heq⟩
        exact h.fresh n hn (by rw [heq]; exact List.mem_cons_self ..)
      · simp [h.len]
      · intro x hx
        rcases h.only x hx with hx | hx
        · rcases List.mem_cons.mp hx with rfl | hx
          · right; simp
          · left; exact hx
        · right
          simp only [List.map_cons]
          exact List.mem_cons_of_mem _ hx

/-! ### identifier grammar -/

theorem scan_append : ∀ (a : List Char) (p : Bool) (b : List Char),
    scan p a = true → scan false b = true → scan p (a ++ b) = true := by
  intro a
  induction a with
  | nil =>
      intro p b h hb
      cases p
      · simpa using hb
      · simp [scan] at h
  | cons c cs ih =>
      intro p b h hb
      simp only [List.cons_append, scan] at h ⊢
      split
      · rename_i hc
        simp only [hc, if_true] at h
        exact ih false b h hb
      · rename_i hc
        simp only [hc] at h
        split
        · rename_i hu
          simp only [hu, if_true] at h
          exact ih true b h hb
        · rename_i hu
          simp [hu] at h

theorem scan_alnum : ∀ (l : List Char), (∀ c ∈ l, isAlnum c = true) → scan false l = true := by
  intro l
  induction l with
  | nil => intro _; rfl
  | cons c cs ih =>
      intro h
      simp only [scan, h c (List.mem_cons_self ..), if_true]
      exact ih (fun d hd => h d (List.mem_cons_of_mem _ hd))

theorem digitsF_isDigit : ∀ f n, ∀ c ∈ digitsF f n, isDigit c = true := by
  intro f
  induction f with
  | zero => intro n c hc; simp [digitsF] at hc; subst hc; exact isDigit_digitChar n
  | succ f ih =>
      intro n c hc
      unfold digitsF at hc
      split at hc
      · simp at hc; subst hc; exact isDigit_digitChar n
      · rcases List.mem_append.mp hc with hc | hc
        · exact ih _ c hc
        · simp at hc; subst hc; exact isDigit_digitChar n

theorem scan_digits (n : Nat) : scan false (digits n) = true :=
  scan_alnum _ (fun c hc => by simp [isAlnum, digitsF_isDigit n n c hc])

theorem underscore_not_alnum : isAlnum '_' = false := by decide

theorem squeeze_started : ∀ (cs : List Char) (pend : Bool), scan false (squeeze pend true cs) = true := by
  intro cs
  induction cs with
  | nil => intro pend; rfl
  | cons c cs ih =>
      intro pend
      simp only [squeeze]
      split
      · rename_i hc
        cases pend
        · simp only [Bool.false_and, Bool.false_eq_true, if_false, scan, hc, if_true]
          exact ih false
        · simp only [Bool.and_self, if_true, scan, underscore_not_alnum, Bool.false_eq_true, if_false,
            beq_self_eq_true, Bool.not_false, hc]
          exact ih false
      · exact ih true

theorem squeeze_fresh : ∀ (cs : List Char) (pend : Bool),
    squeeze pend false cs = [] ∨
    ∃ c rest, squeeze pend false cs = c :: rest ∧ isAlnum c = true ∧ scan false rest = true := by
  intro cs
  induction cs with
  | nil => intro pend; left; rfl
  | cons c cs ih =>
      intro pend
      simp only [squeeze]
      split
      · rename_i hc
        right
        refine ⟨c, squeeze false true cs, ?_, hc, squeeze_started cs false⟩
        simp
      · exact ih true

theorem basicId_unnamed : basicId unnamed = true := by decide

theorem basicId_sanitizeWith (cfg : SanCfg) (hc : goodCfg cfg = true) (raw : Name) :
    basicId (sanitizeWith cfg raw) = true := by
  unfold sanitizeWith
  simp only [goodCfg, Bool.and_eq_true] at hc
  rcases squeeze_fresh raw false with h | ⟨c, rest, h, hc1, hr⟩
  · rw [h]; exact hc.1
  · rw [h]
    simp only [fixStartWith]
    split
    · rename_i hl
      simp [basicId, hl, hr]
    · cases hp : cfg.pre with
      | nil => simp [hp] at hc
      | cons p ps =>
          have h2 := hc.2
          rw [hp] at h2
          simp only [Bool.and_eq_true] at h2
          simp only [List.cons_append, basicId, Bool.and_eq_true]
          refine ⟨h2.1, scan_append ps false (c :: rest) h2.2 ?_⟩
          simp [scan, hc1, hr]

theorem goodCfg_default : goodCfg defaultCfg = true := by decide

theorem basicId_sanitize (raw : Name) : basicId (sanitize raw) = true :=
  basicId_sanitizeWith defaultCfg goodCfg_default raw

theorem basicId_pick (used : List Name) (base : Name) (h : basicId base = true) :
    basicId (pick used base) = true := by
  unfold pick
  split
  · cases base with
    | nil => simp [basicId] at h
    | cons c cs =>
        simp only [basicId, Bool.and_eq_true] at h
        simp only [cand, List.cons_append, basicId, Bool.and_eq_true]
        exact ⟨h.1, scan_append cs false _ h.2 (scan_digits _)⟩
  · exact h

theorem assignScope_basicId (cfg : SanCfg) (hc : goodCfg cfg = true) :
    ∀ (raws used : List Name), ∀ n ∈ (assignScope cfg used raws).1, basicId n = true := by
  intro raws
  induction raws with
  | nil => intro used n hn; simp [assignScope] at hn
  | cons r rs ih =>
      intro used n hn
      simp only [assignScope] at hn
      rcases List.mem_cons.mp hn with rfl | hn
      · exact basicId_pick _ _ (basicId_sanitizeWith cfg hc r)
      · exact ih _ n hn

end CohdlVerif.C06
