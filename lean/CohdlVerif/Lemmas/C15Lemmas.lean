import CohdlVerif.Model.C15

/-! helper lemmas for C15: register chains of the shape `a^p (¬a)^m` under `shiftTail` / `setHead` -/
namespace CohdlVerif.C15

open List

theorem dropLast_rep_append_rep (l : List Bool) (m : Nat) (b : Bool) :
    (l ++ replicate (m + 1) b).dropLast = l ++ replicate m b := by
  rw [replicate_succ', ← append_assoc, dropLast_concat]

theorem dropLast_cons_replicate (n : Nat) (a : Bool) : (a :: replicate n a).dropLast = replicate n a := by
  have : a :: replicate n a = replicate (n + 1) a := rfl
  rw [this, replicate_succ', dropLast_concat]

theorem shiftTail_replicate (n : Nat) (a : Bool) : shiftTail (replicate n a) = replicate n a := by
  cases n with
  | zero => rfl
  | succ n => simp only [replicate_succ, shiftTail, dropLast_cons_replicate]

/-- the toggle edge moves one register towards the end of the chain -/
theorem shiftTail_edge (p m : Nat) (a b : Bool) :
    shiftTail (replicate (p + 1) a ++ replicate (m + 1) b) = replicate (p + 2) a ++ replicate m b := by
  have h := dropLast_rep_append_rep (replicate (p + 1) a) m b
  simp only [replicate_succ, cons_append, shiftTail] at *
  rw [h]

theorem shiftTail_noedge (p : Nat) (a b : Bool) :
    shiftTail (replicate p a ++ replicate 0 b) = replicate p a ++ replicate 0 b := by
  simp [shiftTail_replicate]

theorem hd_rep_append (p : Nat) (a : Bool) (l : List Bool) : hd (replicate (p + 1) a ++ l) = a := by
  simp [hd, replicate_succ]

theorem hd_rep (p : Nat) (a : Bool) : hd (replicate (p + 1) a) = a := by
  simp [hd, replicate_succ]

theorem lst_rep_edge (p m : Nat) (a b : Bool) : lst (replicate p a ++ replicate (m + 1) b) = b := by
  simp [lst, replicate_succ', ← append_assoc]

theorem lst_rep (p : Nat) (a : Bool) : lst (replicate (p + 1) a) = a := by
  simp [lst, replicate_succ']

theorem setHead_rep_append (p : Nat) (a v : Bool) (l : List Bool) :
    setHead v (replicate (p + 1) a ++ l) = v :: (replicate p a ++ l) := by
  simp [setHead, replicate_succ]

theorem setHead_same (c : List Bool) (h : c ≠ []) : setHead (hd c) c = c := by
  cases c with
  | nil => exact absurd rfl h
  | cons x t => simp [setHead, hd]

theorem shiftTail_ne_nil (c : List Bool) (h : c ≠ []) : shiftTail c ≠ [] := by
  cases c with
  | nil => exact absurd rfl h
  | cons x t => simp [shiftTail]

theorem hd_shiftTail (c : List Bool) : hd (shiftTail c) = hd c := by
  cases c with
  | nil => rfl
  | cons x t => simp [shiftTail, hd]

end CohdlVerif.C15

namespace CohdlVerif.C15
open List

/-! ## the four shapes of a reachable state and what one step does to them
  K = tx_delay + 1 registers in txc, R = rx_delay + 1 in rxc; the shapes are written with successor
  patterns so that "at least one register equals the head" is syntactic. -/

/-- pending event, toggle edge still inside txc (consumer does not see it yet) -/
theorem step_travel (g : Bool) (a : Bool) (p m R : Nat) (dat rx : Option Nat) (sent : List Nat)
    (rcvd : List (Option Nat)) (i : In) :
    step g ⟨⟨replicate (p + 1) a ++ replicate (m + 1) (!a), replicate (R + 1) (!a)⟩, dat, rx, sent, rcvd⟩ i =
      ⟨⟨if i.tc then replicate (p + 2) a ++ replicate m (!a) else replicate (p + 1) a ++ replicate (m + 1) (!a),
        replicate (R + 1) (!a)⟩, dat, rx, sent, rcvd⟩ := by
  obtain ⟨tp, snd, tc, w⟩ := i
  have e1 := shiftTail_edge p m a (!a)
  have e2 := shiftTail_replicate (R + 1) (!a)
  have h1 := hd_rep_append p a (replicate (m + 1) (!a))
  have h2 := lst_rep_edge (p + 1) m a (!a)
  have h3 := lst_rep R (!a)
  have h4 := hd_rep_append R (!a) []
  have s1 := setHead_rep_append p a a (replicate (m + 1) (!a))
  have s2 := setHead_rep_append (p + 1) a a (replicate m (!a))
  simp only [append_nil] at h4
  cases tp <;> cases tc <;> cases w <;> cases g <;> cases snd <;>
    simp [step, Flag.step, effSend, takes, Flag.pSet, Flag.cSet, Flag.setTx, Flag.tx, Flag.setRx, Flag.rx,
      e1, e2, h1, h2, h3, h4, s1, s2] <;> simp [replicate_succ]


/-- pending event, toggle edge between `_tx` and `_set_rx`: the consumer sees the flag set -/
theorem step_junction (g : Bool) (a : Bool) (p R : Nat) (dat rx : Option Nat) (sent : List Nat)
    (rcvd : List (Option Nat)) (i : In) :
    step g ⟨⟨replicate (p + 1) a, replicate (R + 1) (!a)⟩, dat, rx, sent, rcvd⟩ i =
      if i.tc && i.willing then ⟨⟨replicate (p + 1) a, a :: replicate R (!a)⟩, dat, dat, sent, rcvd ++ [dat]⟩
      else ⟨⟨replicate (p + 1) a, replicate (R + 1) (!a)⟩, dat, rx, sent, rcvd⟩ := by
  obtain ⟨tp, snd, tc, w⟩ := i
  have e1 := shiftTail_replicate (p + 1) a
  have e2 := shiftTail_replicate (R + 1) (!a)
  have h1 := hd_rep_append p a []
  have h2 := lst_rep p a
  have h3 := lst_rep R (!a)
  have h4 := hd_rep_append R (!a) []
  have s1 := setHead_rep_append p a a []
  have s2 := setHead_rep_append R (!a) a []
  simp only [append_nil] at h1 h4 s1 s2
  cases tp <;> cases tc <;> cases w <;> cases g <;> cases snd <;>
    simp [step, Flag.step, effSend, takes, Flag.pSet, Flag.cSet, Flag.setTx, Flag.tx, Flag.setRx, Flag.rx,
      e1, e2, h1, h2, h3, h4, s1, s2] <;> simp [replicate_succ]

/-- no pending event, the acknowledge (toggle edge inside rxc) is still travelling to the producer -/
theorem step_ack (g : Bool) (a : Bool) (K q n : Nat) (dat rx : Option Nat) (sent : List Nat)
    (rcvd : List (Option Nat)) (i : In) :
    step g ⟨⟨replicate (K + 1) a, replicate (q + 1) a ++ replicate (n + 1) (!a)⟩, dat, rx, sent, rcvd⟩ i =
      ⟨⟨replicate (K + 1) a,
        if i.tp then replicate (q + 2) a ++ replicate n (!a) else replicate (q + 1) a ++ replicate (n + 1) (!a)⟩,
        dat, rx, sent, rcvd⟩ := by
  obtain ⟨tp, snd, tc, w⟩ := i
  have e1 := shiftTail_edge q n a (!a)
  have e2 := shiftTail_replicate (K + 1) a
  have h1 := hd_rep_append q a (replicate (n + 1) (!a))
  have h2 := lst_rep_edge (q + 1) n a (!a)
  have h3 := lst_rep K a
  have h4 := hd_rep_append K a []
  have s1 := setHead_rep_append K a a []
  simp only [append_nil] at h4 s1
  cases tp <;> cases tc <;> cases w <;> cases g <;> cases snd <;>
    simp [step, Flag.step, effSend, takes, Flag.pSet, Flag.cSet, Flag.setTx, Flag.tx, Flag.setRx, Flag.rx,
      e1, e2, h1, h2, h3, h4, s1] <;> simp [replicate_succ]

/-- quiescent: every register of both chains holds the same value, the producer sees the flag clear -/
theorem step_quiet (g : Bool) (a : Bool) (K R : Nat) (dat rx : Option Nat) (sent : List Nat)
    (rcvd : List (Option Nat)) (i : In) :
    step g ⟨⟨replicate (K + 1) a, replicate (R + 1) a⟩, dat, rx, sent, rcvd⟩ i =
      match (if i.tp then i.send else none) with
      | some v => ⟨⟨(!a) :: replicate K a, replicate (R + 1) a⟩, some v, rx, sent ++ [v], rcvd⟩
      | none => ⟨⟨replicate (K + 1) a, replicate (R + 1) a⟩, dat, rx, sent, rcvd⟩ := by
  obtain ⟨tp, snd, tc, w⟩ := i
  have e1 := shiftTail_replicate (R + 1) a
  have e2 := shiftTail_replicate (K + 1) a
  have h2 := lst_rep R a
  have h3 := lst_rep K a
  have h4 := hd_rep_append K a []
  have h5 := hd_rep_append R a []
  have s1 := setHead_rep_append K a (!a) []
  simp only [append_nil] at h4 h5 s1
  cases tp <;> cases tc <;> cases w <;> cases g <;> cases snd <;>
    simp [step, Flag.step, effSend, takes, Flag.pSet, Flag.cSet, Flag.setTx, Flag.tx, Flag.setRx, Flag.rx,
      e1, e2, h2, h3, h4, h5, s1]

end CohdlVerif.C15

namespace CohdlVerif.C15
open List

/-- the invariant: both delay lines together contain at most one toggle edge, its position decides who
    sees the flag set, and the specification logs differ exactly by the event that is under way.
    `K` = tx_delay, `R` = rx_delay (the chains have K+1 and R+1 registers). -/
inductive Reach (K R : Nat) : St → Prop
  | travel (a : Bool) (p m : Nat) (rx : Option Nat) (pre : List Nat) (d : Nat) (h : p + m + 1 = K) :
      Reach K R ⟨⟨replicate (p + 1) a ++ replicate (m + 1) (!a), replicate (R + 1) (!a)⟩,
        some d, rx, pre ++ [d], pre.map some⟩
  | junction (a : Bool) (rx : Option Nat) (pre : List Nat) (d : Nat) :
      Reach K R ⟨⟨replicate (K + 1) a, replicate (R + 1) (!a)⟩, some d, rx, pre ++ [d], pre.map some⟩
  | ack (a : Bool) (q n : Nat) (dat rx : Option Nat) (pre : List Nat) (h : q + n + 1 = R) :
      Reach K R ⟨⟨replicate (K + 1) a, replicate (q + 1) a ++ replicate (n + 1) (!a)⟩,
        dat, rx, pre, pre.map some⟩
  | quiet (a : Bool) (dat rx : Option Nat) (pre : List Nat) :
      Reach K R ⟨⟨replicate (K + 1) a, replicate (R + 1) a⟩, dat, rx, pre, pre.map some⟩

theorem reach_init (K R : Nat) : Reach K R (St.init K R) := Reach.quiet false none none []

theorem reach_step (K R : Nat) (g : Bool) (s : St) (i : In) (h : Reach K R s) : Reach K R (step g s i) := by
  cases h with
  | travel a p m rx pre d h =>
    rw [step_travel]
    by_cases htc : i.tc = true
    · simp only [htc, if_true]
      cases m with
      | zero =>
        have : p + 2 = K + 1 := by omega
        simpa [this] using Reach.junction (K := K) (R := R) a rx pre d
      | succ m => exact Reach.travel a (p + 1) m rx pre d (by omega)
    · simp only [htc]
      exact Reach.travel a p m rx pre d h
  | junction a rx pre d =>
    rw [step_junction]
    by_cases ht : (i.tc && i.willing) = true
    · simp only [ht, if_true]
      cases R with
      | zero => simpa using Reach.quiet (K := K) (R := 0) a (some d) (some d) (pre ++ [d])
      | succ R =>
        simpa [replicate_succ] using Reach.ack (K := K) (R := R + 1) a 0 R (some d) (some d) (pre ++ [d]) (by omega)
    · simp only [ht]
      exact Reach.junction a rx pre d
  | ack a q n dat rx pre h =>
    rw [step_ack]
    by_cases htp : i.tp = true
    · simp only [htp, if_true]
      cases n with
      | zero =>
        have : q + 2 = R + 1 := by omega
        simpa [this] using Reach.quiet (K := K) (R := R) a dat rx pre
      | succ n => exact Reach.ack a (q + 1) n dat rx pre (by omega)
    · simp only [htp]
      exact Reach.ack a q n dat rx pre h
  | quiet a dat rx pre =>
    rw [step_quiet]
    cases hs : (if i.tp = true then i.send else none) with
    | none => exact Reach.quiet a dat rx pre
    | some v =>
      cases K with
      | zero => simpa using Reach.junction (K := 0) (R := R) (!a) rx pre v
      | succ K =>
        simpa [replicate_succ] using Reach.travel (K := K + 1) (R := R) (!a) 0 K rx pre v (by omega)

theorem reach_run (K R : Nat) (g : Bool) (ins : List In) :
    ∀ s, Reach K R s → Reach K R (run g s ins) := by
  induction ins with
  | nil => intro s h; exact h
  | cons i ins ih => intro s h; exact ih _ (reach_step K R g s i h)

end CohdlVerif.C15

namespace CohdlVerif.C15
open List

/-! ## what can be read off a reachable state -/

theorem exactly_once_of_reach (K R : Nat) (s : St) (h : Reach K R s) :
    s.rcvd = (s.sent.take s.rcvd.length).map some ∧
    s.rcvd.length ≤ s.sent.length ∧ s.sent.length ≤ s.rcvd.length + 1 := by
  cases h <;> simp

theorem set_noop_of_reach (K R : Nat) (g : Bool) (s : St) (h : Reach K R s) (tp tc w : Bool) (v : Nat)
    (hp : s.f.pSet = true) : step g s ⟨tp, some v, tc, w⟩ = step g s ⟨tp, none, tc, w⟩ := by
  cases h with
  | travel a p m rx pre d h => rw [step_travel, step_travel]
  | junction a rx pre d => rw [step_junction, step_junction]
  | ack a q n dat rx pre h => rw [step_ack, step_ack]
  | quiet a dat rx pre =>
    have h1 := hd_rep K a
    have h2 := lst_rep R a
    simp [Flag.pSet, Flag.setTx, Flag.rx, h1, h2] at hp

theorem clear_of_reach (K R : Nat) (s : St) (h : Reach K R s) (hp : s.f.pSet = false) :
    s.rcvd = s.sent.map some := by
  cases h with
  | travel a p m rx pre d h =>
    have h1 := hd_rep_append p a (replicate (m + 1) (!a))
    have h2 := lst_rep R (!a)
    simp [Flag.pSet, Flag.setTx, Flag.rx, h1, h2] at hp
  | junction a rx pre d =>
    have h1 := hd_rep K a
    have h2 := lst_rep R (!a)
    simp [Flag.pSet, Flag.setTx, Flag.rx, h1, h2] at hp
  | ack a q n dat rx pre h =>
    have h1 := hd_rep K a
    have h2 := lst_rep_edge (q + 1) n a (!a)
    simp [Flag.pSet, Flag.setTx, Flag.rx, h1, h2] at hp
  | quiet a dat rx pre => rfl

/-- the consumer sees the flag set exactly in the `junction` shape -/
theorem junction_of_cSet (K R : Nat) (s : St) (h : Reach K R s) (hc : s.f.cSet = true) :
    ∃ a rx pre d, s = ⟨⟨replicate (K + 1) a, replicate (R + 1) (!a)⟩, some d, rx, pre ++ [d], pre.map some⟩ := by
  cases h with
  | travel a p m rx pre d h =>
    have h1 := hd_rep R (!a)
    have h2 := lst_rep_edge (p + 1) m a (!a)
    simp [Flag.cSet, Flag.setRx, Flag.tx, h1, h2] at hc
  | junction a rx pre d => exact ⟨a, rx, pre, d, rfl⟩
  | ack a q n dat rx pre h =>
    have h1 := hd_rep_append q a (replicate (n + 1) (!a))
    have h2 := lst_rep K a
    simp [Flag.cSet, Flag.setRx, Flag.tx, h1, h2] at hc
  | quiet a dat rx pre =>
    have h1 := hd_rep R a
    have h2 := lst_rep K a
    simp [Flag.cSet, Flag.setRx, Flag.tx, h1, h2] at hc

theorem filterMap_id_map_some (l : List Nat) : (l.map some).filterMap id = l := by
  induction l with
  | nil => rfl
  | cons x t ih => simp

theorem no_reobs_of_reach (K R : Nat) (s : St) (h : Reach K R s) (hc : s.f.cSet = true) :
    ∃ d, s.data = some d ∧ s.sent = (s.rcvd.filterMap id) ++ [d] := by
  obtain ⟨a, rx, pre, d, rfl⟩ := junction_of_cSet K R s h hc
  exact ⟨d, rfl, by simp⟩

theorem after_take_of_reach (K R : Nat) (g : Bool) (s : St) (h : Reach K R s) (i : In)
    (ht : takes s i = true) :
    (step g s i).f.cSet = false ∧ (step g s i).rcvd = (step g s i).sent.map some ∧
    (step g s i).rxData = s.data := by
  have hc : s.f.cSet = true := by
    simp only [takes, Bool.and_eq_true] at ht; exact ht.2
  have ht' : (i.tc && i.willing) = true := by
    simp only [takes, Bool.and_eq_true] at ht; simp [ht.1.1, ht.1.2]
  obtain ⟨a, rx, pre, d, rfl⟩ := junction_of_cSet K R s h hc
  have h2 := lst_rep K a
  rw [step_junction]
  simp [ht', Flag.cSet, Flag.setRx, Flag.tx, hd, h2]

end CohdlVerif.C15

namespace CohdlVerif.C15
open List

/-! ## liveness: a willing consumer that keeps ticking takes every accepted event -/

/-- number of consumer activations in a schedule -/
def ticksC (ins : List In) : Nat := (ins.filter (·.tc)).length
/-- the consumer is willing in each of its activations -/
def allWilling (ins : List In) : Prop := ∀ i ∈ ins, i.tc = true → i.willing = true

theorem rcvd_mono_step (g : Bool) (s : St) (i : In) : s.rcvd.length ≤ (step g s i).rcvd.length := by
  simp only [step]; split <;> simp

theorem rcvd_mono_run (g : Bool) (ins : List In) : ∀ s, s.rcvd.length ≤ (run g s ins).rcvd.length := by
  induction ins with
  | nil => intro s; exact Nat.le_refl _
  | cons i ins ih => intro s; exact Nat.le_trans (rcvd_mono_step g s i) (ih _)

theorem ticksC_cons (i : In) (ins : List In) :
    ticksC (i :: ins) = (if i.tc then 1 else 0) + ticksC ins := by
  unfold ticksC; cases h : i.tc <;> simp [List.filter, h]; omega

theorem allWilling_tail {i : In} {ins : List In} (h : allWilling (i :: ins)) : allWilling ins :=
  fun j hj => h j (List.mem_cons_of_mem _ hj)

theorem live_junction (g : Bool) (R : Nat) : ∀ (ins : List In) (a : Bool) (p : Nat) (dat rx : Option Nat)
    (sent : List Nat) (rcvd : List (Option Nat)), allWilling ins → 1 ≤ ticksC ins →
    rcvd.length + 1 ≤
      (run g ⟨⟨replicate (p + 1) a, replicate (R + 1) (!a)⟩, dat, rx, sent, rcvd⟩ ins).rcvd.length := by
  intro ins
  induction ins with
  | nil => intro a p dat rx sent rcvd _ h; simp [ticksC] at h
  | cons i ins ih =>
    intro a p dat rx sent rcvd hw ht
    simp only [run, List.foldl_cons]
    rw [step_junction]
    by_cases htc : i.tc = true
    · have hwi : i.willing = true := hw i List.mem_cons_self htc
      simp only [htc, hwi, Bool.and_self, if_true]
      have := rcvd_mono_run g ins ⟨⟨replicate (p + 1) a, a :: replicate R (!a)⟩, dat, dat, sent, rcvd ++ [dat]⟩
      simpa [run] using this
    · have htc' : i.tc = false := by simpa using htc
      rw [ticksC_cons] at ht
      simp only [htc', Bool.false_and, Bool.false_eq_true, if_false] at ht ⊢
      exact ih a p dat rx sent rcvd (allWilling_tail hw) (by omega)

theorem live_travel (g : Bool) (R : Nat) : ∀ (ins : List In) (a : Bool) (p m : Nat) (dat rx : Option Nat)
    (sent : List Nat) (rcvd : List (Option Nat)), allWilling ins → m + 2 ≤ ticksC ins →
    rcvd.length + 1 ≤
      (run g ⟨⟨replicate (p + 1) a ++ replicate (m + 1) (!a), replicate (R + 1) (!a)⟩, dat, rx, sent, rcvd⟩
        ins).rcvd.length := by
  intro ins
  induction ins with
  | nil => intro a p m dat rx sent rcvd _ h; simp [ticksC] at h
  | cons i ins ih =>
    intro a p m dat rx sent rcvd hw ht
    simp only [run, List.foldl_cons]
    rw [step_travel]
    rw [ticksC_cons] at ht
    by_cases htc : i.tc = true
    · simp only [htc, if_true] at ht ⊢
      cases m with
      | zero =>
        have := live_junction g R ins a (p + 1) dat rx sent rcvd (allWilling_tail hw) (by omega)
        simpa [run] using this
      | succ m => exact ih a (p + 1) m dat rx sent rcvd (allWilling_tail hw) (by omega)
    · have htc' : i.tc = false := by simpa using htc
      simp only [htc', Bool.false_eq_true, if_false] at ht ⊢
      exact ih a p m dat rx sent rcvd (allWilling_tail hw) (by omega)

theorem live_of_reach (K R : Nat) (g : Bool) (s : St) (h : Reach K R s) (ins : List In)
    (hw : allWilling ins) (ht : K + 1 ≤ ticksC ins) : s.sent.length ≤ (run g s ins).rcvd.length := by
  cases h with
  | travel a p m rx pre d h =>
    have := live_travel g R ins a p m (some d) rx (pre ++ [d]) (pre.map some) hw (by omega)
    simpa using this
  | junction a rx pre d =>
    have := live_junction g R ins a K (some d) rx (pre ++ [d]) (pre.map some) hw (by omega)
    simpa using this
  | ack a q n dat rx pre h =>
    have := rcvd_mono_run g ins ⟨⟨replicate (K + 1) a, replicate (q + 1) a ++ replicate (n + 1) (!a)⟩,
      dat, rx, pre, pre.map some⟩
    simpa using this
  | quiet a dat rx pre =>
    have := rcvd_mono_run g ins ⟨⟨replicate (K + 1) a, replicate (R + 1) a⟩, dat, rx, pre, pre.map some⟩
    simpa using this

end CohdlVerif.C15
