import CohdlVerif.Lemmas.C01X2

/-! C01 - fragment 2 = fragment 1 + `break` + `continue` -/
namespace CohdlVerif.C01

/-- fragment 2 of the grammar: no `return`, no awaited sub-coroutines; `l` = inside a loop -/
def frag2 : Stmt → Bool → Bool
  | .skip, _ => true
  | .act _ k, l => frag2 k l
  | .await _ k, l => frag2 k l
  | .awaitF, _ => true
  | .ite _ t e k, l => frag2 t l && frag2 e l && frag2 k l
  | .while_ _ b k, l => frag2 b true && frag2 k l
  | .brk, l => l
  | .cont, l => l
  | .ret, _ => false
  | .call _ _, _ => false

theorem frag2_wf : ∀ (t : Stmt) (l : Bool), frag2 t l = true → wf t l false = true := by
  intro t
  induction t with
  | skip => intro _ _; rfl
  | act a k ih => intro l h; simpa [wf] using ih l (by simpa [frag2] using h)
  | await c k ih => intro l h; simpa [wf] using ih l (by simpa [frag2] using h)
  | awaitF => intro _ _; rfl
  | ite c t e k iht ihe ihk =>
    intro l h
    simp only [frag2, Bool.and_eq_true] at h
    simp [wf, iht l h.1.1, ihe l h.1.2, ihk l h.2]
  | while_ c b k ihb ihk =>
    intro l h
    simp only [frag2, Bool.and_eq_true] at h
    simp [wf, ihb true h.1, ihk l h.2]
  | brk => intro l h; simpa [wf, frag2] using h
  | cont => intro l h; simpa [wf, frag2] using h
  | ret => intro l h; simp [frag2] at h
  | call b k _ _ => intro l h; simp [frag2] at h

theorem frag2_retAlways : ∀ (t : Stmt) (l : Bool), frag2 t l = true → retAlways t = false := by
  intro t
  induction t with
  | skip => intro _ _; rfl
  | act a k ih => intro l h; simpa [retAlways] using ih l (by simpa [frag2] using h)
  | await c k ih => intro l h; simpa [retAlways] using ih l (by simpa [frag2] using h)
  | awaitF => intro _ _; rfl
  | ite c t e k iht ihe ihk =>
    intro l h
    simp only [frag2, Bool.and_eq_true] at h
    simp [retAlways, iht l h.1.1, ihk l h.2]
  | while_ c b k _ ihk =>
    intro l h
    simp only [frag2, Bool.and_eq_true] at h
    simpa [retAlways] using ihk l h.2
  | brk => intro _ _; rfl
  | cont => intro _ _; rfl
  | ret => intro l h; simp [frag2] at h
  | call b k _ _ => intro l h; simp [frag2] at h

/-- every program of fragment 1 is a program of fragment 2 -/
theorem frag1_frag2 : ∀ (t : Stmt), frag1 t = true → ∀ l, frag2 t l = true := by
  intro t
  induction t with
  | skip => intro _ _; rfl
  | act a k ih => intro h l; simpa [frag2] using ih (by simpa [frag1] using h) l
  | await c k ih => intro h l; simpa [frag2] using ih (by simpa [frag1] using h) l
  | awaitF => intro _ _; rfl
  | ite c t e k iht ihe ihk =>
    intro h l
    simp only [frag1, Bool.and_eq_true] at h
    simp [frag2, iht h.1.1 l, ihe h.1.2 l, ihk h.2 l]
  | while_ c b k ihb ihk =>
    intro h l
    simp only [frag1, Bool.and_eq_true] at h
    simp [frag2, ihb h.1 true, ihk h.2 l]
  | brk => intro h; simp [frag1] at h
  | cont => intro h; simp [frag1] at h
  | ret => intro h; simp [frag1] at h
  | call b k _ _ => intro h; simp [frag1] at h

theorem frag2_spec (t : Stmt) (l : Bool) (h : frag2 t l = true) : CSpec (compile t) l false :=
  compile_spec t l false (frag2_wf t l h)

/-- forward invariant for fragment 2 -/
theorem fwd2 : ∀ (t : Stmt) (l : Bool), frag2 t l = true → FwdG (compile t) l := by
  intro t
  induction t with
  | skip => intro l _; exact fwd_skip l
  | act a k ih =>
    intro l h
    have hk : frag2 k l = true := by simpa [frag2] using h
    exact fwd_act a k l false (frag2_spec k l hk) (ih l hk)
  | await c k ih =>
    intro l h
    have hk : frag2 k l = true := by simpa [frag2] using h
    exact fwd_await c k l false (frag2_spec k l hk) (ih l hk)
  | awaitF => intro l _; exact fwd_awaitF l
  | ite c t e k iht ihe ihk =>
    intro l h
    simp only [frag2, Bool.and_eq_true] at h
    exact fwd_ite c t e k l false (frag2_spec t l h.1.1) (frag2_spec e l h.1.2) (frag2_spec k l h.2)
      (iht l h.1.1) (ihe l h.1.2) (ihk l h.2)
  | while_ c b k ihb ihk =>
    intro l h
    simp only [frag2, Bool.and_eq_true] at h
    exact fwd_while c b k l false (frag2_spec b true h.1) (frag2_spec k l h.2) (ihb true h.1) (ihk l h.2)
  | brk => intro l h; have : l = true := by simpa [frag2] using h
           subst this; exact fwd_brk
  | cont => intro l h; have : l = true := by simpa [frag2] using h
            subst this; exact fwd_cont
  | ret => intro l h; simp [frag2] at h
  | call b k _ _ => intro l h; simp [frag2] at h

end CohdlVerif.C01
