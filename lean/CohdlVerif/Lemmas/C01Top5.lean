import CohdlVerif.Lemmas.C01Top4

/-! C01 - correctness of the compiler mirror on fragment 1 -/
namespace CohdlVerif.C01

theorem finish_some (O : List Nat) (s : CSt) (sm : SM) (h : finish O s = some sm) :
    (∀ b, b < (if s.states.length != 1 then s.addfrontAll O 0 else s).next →
      (flatB (s.states.length != 1) (if s.states.length != 1 then s.addfrontAll O 0 else s).heap
        (if s.states.length != 1 then s.addfrontAll O 0 else s).next b .nil).isSome) ∧
    ∃ codes, (if s.states.length != 1 then s.addfrontAll O 0 else s).states.mapM
        (fun b => flatB (s.states.length != 1) (if s.states.length != 1 then s.addfrontAll O 0 else s).heap
          (if s.states.length != 1 then s.addfrontAll O 0 else s).next b .nil) = some codes ∧ sm = ⟨codes⟩ := by
  unfold finish at h
  cases hk : (s.states.length != 1) <;> simp only [hk, Bool.false_eq_true, if_false, if_true] at h ⊢
  all_goals
    split at h
    · rename_i hall
      simp only [Option.map_eq_some_iff] at h
      obtain ⟨codes, hc, rfl⟩ := h
      exact ⟨fun b hb => List.all_eq_true.mp hall b (List.mem_range.mpr hb), codes, hc, rfl⟩
    · cases h

theorem addfrontAll_next (t : Nat) : ∀ (bs : List Nat) (s : CSt), (s.addfrontAll bs t).next = s.next := by
  intro bs
  induction bs with
  | nil => intro s; rfl
  | cons b bs ih => intro s; simp only [CSt.addfrontAll, List.foldl_cons] at ih ⊢; rw [ih]; rfl

theorem flatB_empty (k : Bool) (H : Nat → Blk) (N b : Nat) (hN : 0 < N) (h : H b = {}) :
    flatB k H N b .nil = some .nil := by
  cases N with
  | zero => omega
  | succ n => simp [flatB, h, flatItems, frontCode]

end CohdlVerif.C01
