import CohdlVerif.Lemmas.C01S11

/-! C01 - general grammar: `While`, the last step (the loop head receives the body) -/
namespace CohdlVerif.C01

/-- the item appended to the head block -/
def wItem (cc : Option Nat) (b : Stmt) (O : List Nat) (s : CSt) : Item :=
  match cc with
  | none => .sub (wBody O s)
  | some c' => .ite c' (wBody O s) (wCl cc b O s).2.next

/-- state in which the continuation of the loop is translated -/
def wSX (cc : Option Nat) (b : Stmt) (O : List Nat) (s : CSt) : CSt :=
  match cc with
  | none => (wCl cc b O s).2.append (wHb O s) (wItem cc b O s)
  | some _ => ((wCl cc b O s).2.newBlock (some (wHb O s))).2.append (wHb O s) (wItem cc b O s)

/-- open blocks after the loop -/
def wOk (cc : Option Nat) (b : Stmt) (O : List Nat) (s : CSt) : List Nat :=
  match cc with
  | none => wRb cc b O s
  | some _ => (wCl cc b O s).2.next :: wRb cc b O s

theorem compile_while (cc : Option Nat) (b k : Stmt) (O : List Nat) (s : CSt) :
    compile (.while_ cc b k) O s = compile k (wOk cc b O s) (wSX cc b O s) := by
  cases cc with
  | none => rw [compile_while_none]; rfl
  | some c' => rw [compile_while_some]; rfl

/-- facts about the last step -/
theorem wSX_facts (cc : Option Nat) (b : Stmt) (O : List Nat) (s : CSt)
    (hlw : Hlt (wCl cc b O s).2 (wHb O s :: wRb cc b O s)) (hA : (wCl cc b O s).2.atStart = false) :
    Step (wCl cc b O s).2 (wHb O s :: wRb cc b O s) (wSX cc b O s) (wOk cc b O s) ∧
    SameLists (wCl cc b O s).2 (wSX cc b O s) ∧ (wSX cc b O s).atStart = false ∧
    (wCl cc b O s).2.next ≤ (wSX cc b O s).next ∧ (wSX cc b O s).next ≤ (wCl cc b O s).2.next + 1 ∧
    (∀ y, y ≠ wHb O s → y < (wCl cc b O s).2.next → (wSX cc b O s).heap y = (wCl cc b O s).2.heap y) ∧
    (wSX cc b O s).heap (wHb O s) = { (wCl cc b O s).2.heap (wHb O s) with
      items := ((wCl cc b O s).2.heap (wHb O s)).items ++ [wItem cc b O s] } ∧
    (∀ y ∈ wOk cc b O s, y ∈ wRb cc b O s ∨
      (y = (wCl cc b O s).2.next ∧ (wSX cc b O s).heap y = {} ∧ (wSX cc b O s).root y = (wCl cc b O s).2.root (wHb O s))) := by
  have hhb : wHb O s < (wCl cc b O s).2.next := hlw.1 _ (by simp)
  cases cc with
  | none =>
    have hx := HeapExt.append (wCl none b O s).2 (wHb O s :: wRb none b O s) (wHb O s) (by simp) (wItem none b O s)
    have X := hx.step hlw.1
    refine ⟨X.weaken (fun _ h => h) (fun o ho => X.open_r o (by simp [wOk] at ho; simp [ho])), hx.sameLists,
      X.atStart_false hlw.2 hA, Nat.le_refl _, by simp [wSX, CSt.append], ?_, ?_, fun y hy => Or.inl hy⟩
    · intro y hy _; simp [wSX, CSt.append, hy]
    · simp [wSX, CSt.append]
  | some c' =>
    have N := Step.newBlock (wCl (some c') b O s).2 (wHb O s :: wRb (some c') b O s) hlw.1 (some (wHb O s)) (by simp)
    have hln := N.hlt hlw
    have hx := HeapExt.append ((wCl (some c') b O s).2.newBlock (some (wHb O s))).2
      ((wCl (some c') b O s).2.next :: wHb O s :: wRb (some c') b O s) (wHb O s) (by simp) (wItem (some c') b O s)
    have X := hx.step hln.1
    have NX := N.trans hlw.1 X
    have hne : wHb O s ≠ (wCl (some c') b O s).2.next := by omega
    refine ⟨NX.weaken (fun _ h => h) (fun o ho => NX.open_r o (by simp [wOk] at ho; rcases ho with h | h <;> simp [h])),
      (show SameLists (wCl (some c') b O s).2 ((wCl (some c') b O s).2.newBlock (some (wHb O s))).2 from ⟨rfl, rfl, rfl⟩).trans
        hx.sameLists, X.atStart_false hln.2 (N.atStart_false hlw.2 hA), by simp [wSX, CSt.append, CSt.newBlock],
      by simp [wSX, CSt.append, CSt.newBlock], ?_, ?_, ?_⟩
    · intro y hy hlt
      have : y ≠ (wCl (some c') b O s).2.next := by omega
      simp [wSX, CSt.append, CSt.newBlock, hy, this]
    · simp [wSX, CSt.append, CSt.newBlock, hne]
    · intro y hy
      simp only [wOk, List.mem_cons] at hy
      rcases hy with h | h
      · right
        subst h
        refine ⟨rfl, ?_, ?_⟩
        · simp [wSX, CSt.append, CSt.newBlock, hne.symm]
        · simp [wSX, CSt.append, CSt.newBlock]
      · exact Or.inl h

end CohdlVerif.C01
