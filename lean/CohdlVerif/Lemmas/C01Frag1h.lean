import CohdlVerif.Lemmas.C01Frag1g

/-! C01 - fragment 1: one iteration of the `If` loop, both branches free of transitions; the loop; `sim1` -/
namespace CohdlVerif.C01

section
variable {σ : Type} (act : Nat → σ → σ) (cond : Nat → σ → Bool)
variable (prog : Stmt) (Hf : Nat → Blk) (E : Nat → σ → σ × Option Nat) (Rf : Nat → Nat) (Sf : List Nat)

theorem iteIter_sim_plain (hE : ∀ b s, E b s = execB act cond E (Hf b) s) (c : Nat) (t1 e1 k : Stmt)
    (h1 : frag1 t1 = true) (h2 : frag1 e1 = true)
    (st : List Frame) (m b : Nat) (s : CSt) (hb : b < s.next)
    (X : IterCtx t1 e1 c b s) (P5 : Nat → Prop) (hF5 : Fut Hf Rf Sf (iR5 t1 e1 c b s).2 P5)
    (hP5 : ∀ y, P5 y → y < (iR5 t1 e1 c b s).2.next → (y = b ∨ s.next ≤ y) → y = b)
    (CK : TailSim act cond prog Hf E Rf Sf m b ((iR5 t1 e1 c b s).2.heap b).items k st false)
    (hat : anyTrans s.next (iR4 t1 c b s).1 = false) (hae : anyTrans (s.next + 1) (iR5 t1 e1 c b s).1 = false) :
    TailSim act cond prog Hf E Rf Sf m b (s.heap b).items (.ite c t1 e1 k) st s.atStart := by
  obtain ⟨T1, hA3, hi3, hsi3, Tt, hA4, n4, hi4, hsi4, Te, hA5, n5, hsi5, ot_r, oe_r⟩ := X
  have F4 : Fut Hf Rf Sf (iR4 t1 c b s).2 (fun y => y = s.next + 1 ∨ P5 y) :=
    Fut.back Te (by simp) (fun y hy => Or.inl (Or.inr hy)) hF5
  have Pt := plain1 act cond Hf E Rf Sf hE t1 h1 s.next (itePre c b s) _ hi3 ((anyTrans_false_iff _ _).mp hat) F4
    (by
      intro y hy hlt hr
      have hlt' : y < (iR4 t1 c b s).2.next := hlt
      rcases hy with hy | hy
      · rcases hr with h | h
        · omega
        · simp [itePre_next] at h; omega
      · have := hP5 y hy (by omega) (Or.inr (by
          rcases hr with h | h
          · omega
          · simp [itePre_next] at h; omega))
        rcases hr with h | h
        · omega
        · simp [itePre_next] at h; omega)
  have Pe := plain1 act cond Hf E Rf Sf hE e1 h2 (s.next + 1) (iR4 t1 c b s).2 _ hi4 ((anyTrans_false_iff _ _).mp hae) hF5
    (by
      intro y hy hlt hr
      have hlt' : y < (iR5 t1 e1 c b s).2.next := hlt
      have := hP5 y hy hlt' (Or.inr (by
        rcases hr with h | h
        · omega
        · omega))
      rcases hr with h | h
      · omega
      · omega)
  have hct : Hf s.next = (iR4 t1 c b s).2.heap s.next := F4.closed _ (by omega) (by
    intro h; rcases h with h | h
    · omega
    · have := hP5 _ h (by omega) (Or.inr (Nat.le_refl _)); omega)
  have hce : Hf (s.next + 1) = (iR5 t1 e1 c b s).2.heap (s.next + 1) := hF5.closed _ (by omega) (by
    intro h
    have := hP5 _ h (by omega) (Or.inr (by omega)); omega)
  have hfe : ((iR4 t1 c b s).2.heap (s.next + 1)).front = [] := hi4.front _ (by simp)
  obtain ⟨efft, hEt, hRt⟩ := plain_closed act cond Hf E hE t1 s.next _ (iR4 t1 c b s).2 Pt (itePre_child_items c b s hb)
    (itePre_child_front c b s) hct
  obtain ⟨effe, hEe, hRe⟩ := plain_closed act cond Hf E hE e1 (s.next + 1) (iR4 t1 c b s).2 (iR5 t1 e1 c b s).2 Pe
    (by rw [Tt.frame (s.next + 1) (by simp [itePre_next]) (by simp)]; exact itePre_child2_items c b s hb) hfe hce
  have hix5 : ((iR5 t1 e1 c b s).2.heap b).items = (s.heap b).items ++ [.ite c s.next (s.next + 1)] := by
    rw [Te.frame b (by omega) (by simp; omega), Tt.frame b (by simp [itePre_next]; omega) (by simp; omega),
      itePre_items c b s hb]
  rw [hA3, hA4] at hRt
  rw [hA4, hA5] at hRe
  intro suf hsuf s0
  have hpre : ((s.heap b).items ++ [.ite c s.next (s.next + 1)]) <+: (Hf b).items := by
    rw [← hix5]; exact hF5.items b (by omega)
  obtain ⟨rest, rfl⟩ := tail_split hsuf hpre
  have h1' := CK rest (by rw [hsuf, hix5]; simp) (if cond c s0 then efft s0 else effe s0)
  have htl : tailF act cond Hf E b ([.ite c s.next (s.next + 1)] ++ rest) s0 =
      tailF act cond Hf E b rest (if cond c s0 then efft s0 else effe s0) := by
    simp only [tailF, List.singleton_append, execI]
    cases hc : cond c s0 <;> simp [hEt, hEe]
  rw [htl]
  refine SimPt_pull act cond prog E Sf ?_ h1'
  cases hc : cond c s0 with
  | false =>
    simp only [Bool.false_eq_true, if_false]
    exact (RunTo.ite_false act cond c t1 e1 k st _ s0 hc).trans act cond
      ((hRe (.seq k :: st) s0).trans act cond (RunTo.skip_seq act cond k st false _))
  | true =>
    simp only [if_true]
    exact (RunTo.ite_true act cond c t1 e1 k st _ s0 hc).trans act cond
      ((hRt (.seq k :: st) s0).trans act cond (RunTo.skip_seq act cond k st false _))

/-- members of the blocks kept by one iteration: where they live -/
theorem mergeAcc_nil_range {t1 e1 : Stmt} {c b : Nat} {s : CSt} (X : IterCtx t1 e1 c b s) (hb : b < s.next) {o : Nat}
    (ho : o ∈ mergeAcc [] b s.next (s.next + 1) (iR4 t1 c b s).1 (iR5 t1 e1 c b s).1) :
    (o = b ∨ s.next ≤ o) ∧ o < (iR5 t1 e1 c b s).2.next := by
  have n4 := X.n4
  have n5 := X.n5
  rcases mem_mergeAcc ho with h | h | h | h | h | h
  · simp at h
  · exact ⟨Or.inl h, by omega⟩
  · exact ⟨Or.inr (by omega), by omega⟩
  · exact ⟨Or.inr (by omega), by omega⟩
  · have := X.ot_r o h; exact ⟨Or.inr (by omega), by omega⟩
  · have := X.oe_r o h; exact ⟨Or.inr (by omega), by omega⟩

theorem iteLoop_cons' (c : Nat) (t1 e1 : Stmt) (b : Nat) (bs : List Nat) (s : CSt) (acc : List Nat) :
    iteLoop c (compile t1) (compile e1) (b :: bs) s acc =
      iteLoop c (compile t1) (compile e1) bs (iR5 t1 e1 c b s).2
        (mergeAcc acc b s.next (s.next + 1) (iR4 t1 c b s).1 (iR5 t1 e1 c b s).1) := rfl

theorem iteLoop_sim (hE : ∀ b s, E b s = execB act cond E (Hf b) s) (c : Nat) (t1 e1 k : Stmt)
    (h1 : frag1 t1 = true) (h2 : frag1 e1 = true)
    (iht : SimIH act cond prog Hf E Rf Sf t1) (ihe : SimIH act cond prog Hf E Rf Sf e1)
    (st : List Frame) (m : Nat) (Pend : Nat → Prop) :
    ∀ (bs : List Nat) (s : CSt) (acc : List Nat), Hlt s bs → (s.atStart = true → bs = [0]) → bs.Nodup →
      (∀ b ∈ bs, (s.heap b).front = []) → SInv s → (∀ o ∈ acc, o < s.next ∧ o ∉ bs) →
      Fut Hf Rf Sf (iteLoop c (compile t1) (compile e1) bs s acc).2 Pend →
      (∀ y, Pend y → y < (iteLoop c (compile t1) (compile e1) bs s acc).2.next → (y ∈ bs ∨ s.next ≤ y) →
        y ∈ (iteLoop c (compile t1) (compile e1) bs s acc).1) →
      (∀ o ∈ (iteLoop c (compile t1) (compile e1) bs s acc).1, TailSim act cond prog Hf E Rf Sf m o
        ((iteLoop c (compile t1) (compile e1) bs s acc).2.heap o).items k st false) →
      ∀ b ∈ bs, TailSim act cond prog Hf E Rf Sf m b (s.heap b).items (.ite c t1 e1 k) st s.atStart := by
  intro bs
  induction bs with
  | nil => intro s acc _ _ _ _ _ _ _ _ _ b hb; simp at hb
  | cons b bs ih =>
    intro s acc hl hs hnd hf hsi hacc hF hPend CK b' hb'
    rw [iteLoop_cons'] at hF hPend CK
    have hb : b < s.next := hl.1 b (by simp)
    have hsb : s.atStart = true → b = 0 := fun h => by have := hs h; simp at this; exact this.1
    have hbn : b ∉ bs := (List.nodup_cons.mp hnd).1
    have X := iterCtx t1 e1 h1 h2 c b s hb hl.2 hsb hsi
    obtain ⟨T0, hA⟩ := iteIter_step c (compile t1) (compile e1) (frag1_br t1 h1) (frag1_br e1 h2) b s hb hl.2 hsb
    have T : Step s [b] (iR5 t1 e1 c b s).2 (s.next :: (s.next + 1) :: b :: ((iR4 t1 c b s).1 ++ (iR5 t1 e1 c b s).1)) := T0
    have hn5 : s.next ≤ (iR5 t1 e1 c b s).2.next := by have := X.n4; have := X.n5; omega
    have hl5 : Hlt (iR5 t1 e1 c b s).2 bs :=
      ⟨fun o ho => by have := hl.1 o (by simp [ho]); omega, by have := hl.2; omega⟩
    obtain ⟨R, hmem, _⟩ := iteLoop_step c (compile t1) (compile e1) (frag1_br t1 h1) (frag1_br e1 h2) bs
      (iR5 t1 e1 c b s).2 (mergeAcc acc b s.next (s.next + 1) (iR4 t1 c b s).1 (iR5 t1 e1 c b s).1) hl5
      (fun h => by rw [X.hA5] at h; cases h)
    have hrn := R.next_le
    rcases List.mem_cons.mp hb' with e | hb'bs
    · subst e
      -- the iteration of this block
      have F5 : Fut Hf Rf Sf (iR5 t1 e1 c b' s).2 (fun y => y ∈ bs ∨ Pend y) :=
        Fut.back R (fun o ho => Or.inl ho) (fun y hy => Or.inl (Or.inr hy)) hF
      have hP5 : ∀ y, (y ∈ bs ∨ Pend y) → y < (iR5 t1 e1 c b' s).2.next → (y = b' ∨ s.next ≤ y) →
          y ∈ mergeAcc [] b' s.next (s.next + 1) (iR4 t1 c b' s).1 (iR5 t1 e1 c b' s).1 := by
        intro y hy hlt hr
        have hybs : y ∉ bs := fun hm => by
          rcases hr with h | h
          · subst h; exact hbn hm
          · have := hl.1 y (by simp [hm]); omega
        rcases hy with hy | hy
        · exact absurd hy hybs
        · have hret := hPend y hy (by omega) (hr.imp (fun h => by simp [h]) id)
          rcases hmem y hret with h | h
          · rcases (mem_mergeAcc_nil _ _ _ _ _ _ _).mp h with h | h
            · have := hacc y h
              rcases hr with h' | h'
              · subst h'; simp at this
              · omega
            · exact h
          · rcases h.1 with h | h
            · exact absurd h hybs
            · omega
      have CK5 : ∀ o ∈ mergeAcc [] b' s.next (s.next + 1) (iR4 t1 c b' s).1 (iR5 t1 e1 c b' s).1,
          TailSim act cond prog Hf E Rf Sf m o ((iR5 t1 e1 c b' s).2.heap o).items k st false := by
        intro o ho
        have hr := mergeAcc_nil_range X hb ho
        have hobs : o ∉ bs := fun hm => by
          rcases hr.1 with h | h
          · subst h; exact hbn hm
          · have := hl.1 o (by simp [hm]); omega
        have := CK o (iteLoop_acc_sub _ _ _ _ _ _ o ((mem_mergeAcc_nil _ _ _ _ _ _ _).mpr (Or.inr ho)))
        rwa [R.frame o hr.2 hobs] at this
      by_cases hpl : anyTrans s.next (iR4 t1 c b' s).1 = false ∧ anyTrans (s.next + 1) (iR5 t1 e1 c b' s).1 = false
      · have hAeq := mergeAcc_both b' s.next (s.next + 1) _ _ hpl.1 hpl.2
        rw [hAeq] at hP5 CK5
        exact iteIter_sim_plain act cond prog Hf E Rf Sf hE c t1 e1 k h1 h2 st m b' s hb X _ F5
          (fun y hy hlt hr => by simpa using hP5 y hy hlt hr) (CK5 b' (by simp)) hpl.1 hpl.2
      · exact iteIter_sim_other act cond prog Hf E Rf Sf hE c t1 e1 k iht ihe st m b' s hb (hf b' (by simp)) X _ F5
          hP5 CK5 hpl
    · -- a later block
      have hne : b' ≠ b := fun e => hbn (e ▸ hb'bs)
      have hb'l : b' < s.next := hl.1 b' (by simp [hb'bs])
      have hAs : s.atStart = false := by
        cases h : s.atStart with
        | false => rfl
        | true => have := hs h; simp at this; rw [this.2] at hb'bs; simp at hb'bs
      have := ih (iR5 t1 e1 c b s).2 _ hl5 (fun h => by rw [X.hA5] at h; cases h) (List.nodup_cons.mp hnd).2
        (by
          intro b2 hb2
          rw [T.frame b2 (hl.1 b2 (by simp [hb2])) (by simp; intro e; subst e; exact hbn hb2)]
          exact hf b2 (by simp [hb2]))
        X.hsi5
        (by
          intro o ho
          rcases (mem_mergeAcc_nil _ _ _ _ _ _ _).mp ho with h | h
          · have := hacc o h
            simp only [List.mem_cons, not_or] at this
            exact ⟨by omega, this.2.2⟩
          · have hr := mergeAcc_nil_range X hb h
            refine ⟨hr.2, fun hm => ?_⟩
            rcases hr.1 with h' | h'
            · subst h'; exact hbn hm
            · have := hl.1 o (by simp [hm]); omega)
        hF
        (fun y hy hlt hr => hPend y hy hlt (hr.imp (fun h => by simp [h]) (fun h => by omega)))
        CK b' hb'bs
      have hfr : (iR5 t1 e1 c b s).2.heap b' = s.heap b' := T.frame b' hb'l (by simpa using hne)
      change TailSim act cond prog Hf E Rf Sf m b' ((iR5 t1 e1 c b s).2.heap b').items _ st (iR5 t1 e1 c b s).2.atStart at this
      rwa [hfr, X.hA5, ← hAs] at this

end
end CohdlVerif.C01
