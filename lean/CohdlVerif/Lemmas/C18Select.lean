import CohdlVerif.Lemmas.C18Count
/-!
  C18 helper lemmas, part 3: concat / reverse_bits, choose_first and the counts built on it,
  minimum / maximum (first extremum wins), clamp, apply_mask, BitwiseCrc (iterated single step).
-/
namespace CohdlVerif.C18

/-! ### concat, reverse_bits -/

theorem cat_assoc (a b c : Bits) : cat (cat a b) c = cat a (cat b c) := by
  simp [cat, List.append_assoc]

theorem foldl_cat (rest : List Bits) : ∀ a : Bits, rest.foldl cat a = rest.reverse.flatten ++ a := by
  induction rest with
  | nil => intro a; simp
  | cons b rest ih => intro a; simp [ih, cat, List.flatten_append, List.append_assoc]

theorem foldl1_cat (parts : List Bits) (h : parts ≠ []) : foldl1 cat parts = some (concatSpec parts) := by
  cases parts with
  | nil => exact absurd rfl h
  | cons a rest => simp [foldl1, concatSpec, foldl_cat, List.flatten_append]

theorem concatM_eq (parts : List Bits) (h : parts ≠ []) : concatM parts = some (concatSpec parts) := by
  obtain ⟨r, hr, ht⟩ := batchedFold_tree cat 2 parts (by omega) h
  have := ht.eq_foldl1 cat_assoc
  rw [foldl1_cat parts h] at this
  unfold concatM; rw [hr]; exact this.symm

theorem flatten_singletons (l : List Bool) : (l.map fun b => [b]).flatten = l := by
  induction l with
  | nil => rfl
  | cons a r ih => simp [ih]

theorem reverseBits_eq (bits : Bits) (h : bits ≠ []) : reverseBits bits = some bits.reverse := by
  unfold reverseBits
  rw [concatM_eq _ (by simpa using h)]
  simp only [concatSpec, ← List.map_reverse, flatten_singletons]

/-! ### choose_first and count_elements_while / until -/

theorem firstImpl_eq (l : List (Bool × α)) (d : α) : firstImpl l d = chooseFirstSpec l d := by
  induction l with
  | nil => rfl
  | cons x r ih =>
    obtain ⟨c, v⟩ := x
    cases c <;> simp [firstImpl, chooseFirstSpec, List.find?_cons] at *
    exact ih

theorem takeWhile_congr' (p q : α → Bool) (l : List α) (h : ∀ e, p e = q e) : l.takeWhile p = l.takeWhile q := by
  have : p = q := funext h
  rw [this]

theorem firstImpl_enum [DecidableEq α] (p : α → Bool) (seq : List α) :
    ∀ k : Nat, firstImpl ((enumFrom k seq).map fun q => (p q.2, q.1)) (k + seq.length)
      = k + (seq.takeWhile fun e => !(p e)).length := by
  induction seq with
  | nil => intro k; simp [enumFrom, firstImpl]
  | cons a r ih =>
    intro k
    simp only [enumFrom, List.map_cons, firstImpl, List.takeWhile_cons]
    cases hp : p a
    · simp only [Bool.false_eq_true, if_false, Bool.not_false, if_true, List.length_cons]
      have := ih (k + 1)
      rw [show k + 1 + r.length = k + (r.length + 1) by omega] at this
      rw [this]; omega
    · simp

theorem countWhile_eq [DecidableEq α] (seq : List α) (val : α) :
    countWhile seq val = ⟨uptoW seq.length, countWhileSpec seq val⟩ := by
  unfold countWhile countWhileSpec
  have := firstImpl_enum (fun e => decide (e ≠ val)) seq 0
  simp only [Nat.zero_add] at this
  rw [this]
  congr 2
  apply takeWhile_congr'
  intro e; by_cases h : e = val <;> simp [h]

theorem countUntil_eq [DecidableEq α] (seq : List α) (val : α) :
    countUntil seq val = ⟨uptoW seq.length, countUntilSpec seq val⟩ := by
  unfold countUntil countUntilSpec
  have := firstImpl_enum (fun e => decide (e = val)) seq 0
  simp only [Nat.zero_add] at this
  rw [this]
  congr 2
  apply takeWhile_congr'
  intro e; by_cases h : e = val <;> simp [h]

theorem countWhileSpec_bool (b : Bool) (bits : Bits) : countWhileSpec bits b = trailingRun b bits := by
  unfold countWhileSpec trailingRun
  congr 1

/-! ### minimum / maximum: first extremum wins -/

/-- what the comparison has to satisfy (a strict weak order): `<` and `>` on Int do -/
structure StrictWeak (cmp : Int → Int → Bool) : Prop where
  irrefl : ∀ a, cmp a a = false
  trans : ∀ a b c, cmp a b = true → cmp b c = true → cmp a c = true
  negtrans : ∀ a b c, cmp a b = false → cmp b c = false → cmp a c = false

theorem ltI_sw : StrictWeak ltI :=
  ⟨by intro a; simp [ltI], by intro a b c; simp only [ltI, decide_eq_true_eq]; omega,
   by intro a b c; simp only [ltI, decide_eq_false_iff_not]; omega⟩

theorem gtI_sw : StrictWeak gtI :=
  ⟨by intro a; simp [gtI], by intro a b c; simp only [gtI, decide_eq_true_eq]; omega,
   by intro a b c; simp only [gtI, decide_eq_false_iff_not]; omega⟩

theorem pick_assoc {cmp : Int → Int → Bool} (sw : StrictWeak cmp) (a b c : Nat × Int) :
    pick cmp (pick cmp a b) c = pick cmp a (pick cmp b c) := by
  unfold pick
  cases hab : cmp a.2 b.2 <;> cases hbc : cmp b.2 c.2 <;> simp [hab, hbc]
  · simp [sw.negtrans _ _ _ hab hbc]
  · simp [sw.trans _ _ _ hab hbc]

/-- the fold over the reversed list, written as a recursion over the list itself -/
def lastWins (cmp : Int → Int → Bool) : List (Nat × Int) → Option (Nat × Int)
  | [] => none
  | x :: xs => match lastWins cmp xs with
    | none => some x
    | some r => some (pick cmp r x)

theorem foldl1_snoc (f : α → α → α) (l : List α) (x : α) :
    foldl1 f (l ++ [x]) = some (match foldl1 f l with | none => x | some r => f r x) := by
  cases l with
  | nil => rfl
  | cons a t => simp [foldl1, List.foldl_append]

theorem foldl1_reverse_lastWins (cmp : Int → Int → Bool) (l : List (Nat × Int)) :
    foldl1 (pick cmp) l.reverse = lastWins cmp l := by
  induction l with
  | nil => rfl
  | cons x xs ih =>
    rw [List.reverse_cons, foldl1_snoc, ih]
    simp only [lastWins]
    cases lastWins cmp xs <;> rfl

theorem lastWins_spec {cmp : Int → Int → Bool} (sw : StrictWeak cmp) (l : List (Nat × Int)) (hl : l ≠ []) :
    ∃ r pre post, lastWins cmp l = some r ∧ l = pre ++ r :: post ∧
      (∀ x ∈ pre, cmp r.2 x.2 = true) ∧ (∀ x ∈ l, cmp x.2 r.2 = false) := by
  induction l with
  | nil => exact absurd rfl hl
  | cons x xs ih =>
    cases xs with
    | nil =>
      refine ⟨x, [], [], rfl, rfl, by simp, ?_⟩
      intro y hy; simp at hy; subst hy; exact sw.irrefl _
    | cons y ys =>
      obtain ⟨r, pre, post, hr, hsplit, hpre, hall⟩ := ih (by simp)
      simp only [lastWins] at hr ⊢
      rw [hr]
      simp only [pick]
      cases hc : cmp r.2 x.2
      · -- x is at least as good as everything behind it: x wins (first extremum)
        refine ⟨x, [], y :: ys, by simp, rfl, by simp, ?_⟩
        intro z hz
        simp only [List.mem_cons] at hz
        rcases hz with rfl | hz
        · exact sw.irrefl _
        · have h1 := hall z (by simpa using hz)
          exact sw.negtrans _ _ _ h1 hc
      · refine ⟨r, x :: pre, post, by simp, by simp [hsplit], ?_, ?_⟩
        · intro z hz
          simp only [List.mem_cons] at hz
          rcases hz with rfl | hz
          · exact hc
          · exact hpre z hz
        · intro z hz
          simp only [List.mem_cons] at hz
          rcases hz with rfl | hz
          · cases hxr : cmp z.2 r.2
            · rfl
            · have := sw.trans _ _ _ hc hxr; rw [sw.irrefl] at this; cases this
          · exact hall z (by simpa using hz)

theorem enumFrom_map_snd (l : List Int) : ∀ m : Nat, (enumFrom m l).map (·.2) = l := by
  induction l with
  | nil => intro m; rfl
  | cons a t ih => intro m; simp [enumFrom, ih]

theorem enumFrom_split (keys : List Int) : ∀ (k : Nat) (pre post : List (Nat × Int)) (r : Nat × Int),
    enumFrom k keys = pre ++ r :: post →
      r.1 = k + pre.length ∧ keys = pre.map (·.2) ++ r.2 :: post.map (·.2) := by
  induction keys with
  | nil => intro k pre post r h; simp [enumFrom] at h
  | cons a t ih =>
    intro k pre post r h
    cases pre with
    | nil =>
      simp only [enumFrom, List.nil_append, List.cons.injEq] at h
      obtain ⟨h1, h2⟩ := h
      subst h1
      refine ⟨by simp, ?_⟩
      simp only [List.map_nil, List.nil_append, List.cons.injEq, true_and]
      rw [← h2, enumFrom_map_snd]
    | cons p pre' =>
      simp only [enumFrom, List.cons_append, List.cons.injEq] at h
      obtain ⟨h1, h2⟩ := h
      obtain ⟨e1, e2⟩ := ih (k + 1) pre' post r h2
      subst h1
      refine ⟨by simp [e1]; omega, by simp [← e2]⟩

theorem enumFrom_ne_nil (k : Nat) (keys : List Int) (h : keys ≠ []) : enumFrom k keys ≠ [] := by
  cases keys with
  | nil => exact absurd rfl h
  | cons a t => simp [enumFrom]

/-- `min_element` / `max_element`: index and value of the FIRST extremum -/
theorem extElement_spec {cmp : Int → Int → Bool} (sw : StrictWeak cmp) (keys : List Int) (h : keys ≠ []) :
    ∃ i v pre post, extElement cmp keys = some (i, v) ∧ keys = pre ++ v :: post ∧ i = pre.length ∧
      (∀ x ∈ pre, cmp v x = true) ∧ (∀ x ∈ keys, cmp x v = false) := by
  have hne := enumFrom_ne_nil 0 keys h
  obtain ⟨r, hr, ht⟩ := batchedFold_tree (pick cmp) 2 (enumFrom 0 keys).reverse (by omega) (by simpa using hne)
  have h1 := ht.eq_foldl1 (pick_assoc sw)
  rw [foldl1_reverse_lastWins] at h1
  obtain ⟨r', pre, post, hr', hsplit, hpre, hall⟩ := lastWins_spec sw (enumFrom 0 keys) hne
  rw [hr'] at h1
  have hrr : r' = r := by simpa using h1
  subst hrr
  obtain ⟨e1, e2⟩ := enumFrom_split keys 0 pre post r' hsplit
  refine ⟨r'.1, r'.2, pre.map (·.2), post.map (·.2), by unfold extElement; rw [hr], e2, by simp [e1], ?_, ?_⟩
  · intro x hx
    obtain ⟨p, hp, rfl⟩ := List.mem_map.mp hx
    exact hpre p hp
  · intro x hx
    rw [e2] at hx
    have : ∃ p ∈ enumFrom 0 keys, p.2 = x := by
      rw [hsplit]
      simp only [List.mem_append, List.mem_cons, List.mem_map] at hx ⊢
      rcases hx with ⟨p, hp, rfl⟩ | rfl | ⟨p, hp, rfl⟩
      · exact ⟨p, Or.inl hp, rfl⟩
      · exact ⟨r', Or.inr (Or.inl rfl), rfl⟩
      · exact ⟨p, Or.inr (Or.inr hp), rfl⟩
    obtain ⟨p, hp, rfl⟩ := this
    exact hall p hp

/-! ### clamp -/

theorem clampM_eq (v lo hi : Int) (h : lo ≤ hi) : clampM v lo hi = clampSpec v lo hi := by
  unfold clampM clampSpec
  split
  · omega
  · split <;> omega

/-! ### apply_mask -/

theorem maskZip_eq : ∀ (old new mask : Bits), old.length = new.length → old.length = mask.length →
    List.zipWith or (List.zipWith and old (mask.map not)) (List.zipWith and new mask) = applyMaskSpec old new mask := by
  intro old
  induction old with
  | nil => intro new mask _ _; cases new <;> cases mask <;> simp [applyMaskSpec]
  | cons o os ih =>
    intro new mask h1 h2
    cases new with
    | nil => simp at h1
    | cons n ns =>
      cases mask with
      | nil => simp at h2
      | cons m ms =>
        simp only [List.length_cons, Nat.add_right_cancel_iff] at h1 h2
        simp only [List.map_cons, List.zipWith_cons_cons, applyMaskSpec, ih ns ms h1 h2, List.cons.injEq, and_true]
        cases o <;> cases n <;> cases m <;> rfl

theorem applyMask_eq (old new mask : Bits) (h1 : old.length = new.length) (h2 : old.length = mask.length) :
    applyMask old new mask = some (applyMaskSpec old new mask) := by
  have h3 : new.length = mask.length := by omega
  rw [← maskZip_eq old new mask h1 h2]
  simp [applyMask, band, bor, bnot, h1, h3]

/-! ### BitwiseCrc -/

theorem calcSteps_eq_iter (poly : Bits) : ∀ (data : List Bool) (reg : Bits), data ≠ [] →
    calcSteps poly reg data = some (crcIter poly reg data) := by
  intro data
  induction data with
  | nil => intro reg h; exact absurd rfl h
  | cons d rest ih =>
    intro reg _
    cases rest with
    | nil => rfl
    | cons e rest' =>
      simp only [calcSteps]
      rw [ih (crcStep poly reg d) (by simp)]
      rfl

end CohdlVerif.C18
