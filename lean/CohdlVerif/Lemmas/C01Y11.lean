import CohdlVerif.Lemmas.C01Y10

/-! C01 - correctness of the compiler mirror for every well-formed program -/
namespace CohdlVerif.C01

theorem rejected_falseW (p : Stmt) (h : rejected p = false) :
    (compileSt p).2.bad = false ∧ (compileSt p).2.brk = [] ∧ (compileSt p).2.cont = [] ∧ (compileSt p).2.ret = [] := by
  simp only [rejected, Bool.or_eq_false_iff, Bool.not_eq_false', List.isEmpty_iff] at h
  exact ⟨h.1.1.1, h.1.1.2, h.1.2, h.2⟩

theorem final_ctxW (p : Stmt) (hp : wf p false false = true) :
    Step CSt.init [0] (compileSt p).2 (compileSt p).1 ∧
    (∀ x, (((compileSt p).2.addfrontAll (compileSt p).1 0).heap x).items = ((compileSt p).2.heap x).items) ∧
    (∀ x, x ∉ (compileSt p).1 → ((compileSt p).2.addfrontAll (compileSt p).1 0).heap x = (compileSt p).2.heap x) ∧
    (∀ o ∈ (compileSt p).1, lastT (((compileSt p).2.addfrontAll (compileSt p).1 0).heap o).front = some 0) ∧
    (∀ x, (compileSt p).2.next ≤ x → ((compileSt p).2.addfrontAll (compileSt p).1 0).heap x = {}) ∧
    TOK ((compileSt p).2.addfrontAll (compileSt p).1 0) ∧ SInv (compileSt p).2 ∧ 0 < (compileSt p).2.next := by
  have T : Step CSt.init [0] (compileSt p).2 (compileSt p).1 :=
    (compile_spec p false false hp).step Inv.init (fun h => by cases h)
  have hl := T.hlt Inv.init.hlt
  have F : FPost CSt.init (compileSt p).1 (compileSt p).2 := fwdW p false false hp [0] CSt.init Inv.init (fun h => by cases h)
  have hn := F.nodup_open
  have hf : ∀ o' ∈ (compileSt p).1, ((compileSt p).2.heap o').front = [] := fun o ho => F.2 o (mem_Outs.mpr (Or.inl ho))
  have hsi := SInv.init.step T (by simp [CSt.init])
  have hfresh := T.fresh (fun x _ => rfl)
  have htok := T.tgt TOK.init
  have hx := HeapExt.addfrontAll (compileSt p).1 0 (compileSt p).1 (compileSt p).2 (fun _ h => h) (fun h => h)
  refine ⟨T, fun x => addfrontAll_items 0 x _ _, fun x hx' => addfrontAll_heap_notin 0 x _ _ hx', ?_, ?_, hx.tgt htok, hsi, hl.2⟩
  · intro o ho
    rw [addfrontAll_heap_nodup 0 o _ _ hn ho]
    simp only [hf o ho]; rfl
  · intro x hx'
    rw [addfrontAll_heap_notin 0 x _ _ (fun hm => by have := hl.1 x hm; omega)]
    exact hfresh x hx'

section
variable {σ : Type} (act : Nat → σ → σ) (cond : Nat → σ → Bool)

/-- the start of a fragment-2 program and state 0 of its final heap simulate each other -/
theorem start_simW (p : Stmt) (hp : wf p false false = true) (hrej : rejected p = false) (Hf : Nat → Blk)
    (E : Nat → σ → σ × Option Nat) (hE : ∀ b s, E b s = execB act cond E (Hf b) s)
    (H1 : ∀ x, (Hf x).items = ((compileSt p).2.heap x).items)
    (H2 : ∀ x, x ∉ (compileSt p).1 → Hf x = (compileSt p).2.heap x)
    (H3 : ∀ o ∈ (compileSt p).1, lastT (Hf o).front = some 0) :
    SimAll act cond p E (compileSt p).2.states .start 0 := by
  obtain ⟨T, _, _, _, _, _, hsi', h0⟩ := final_ctxW p hp
  obtain ⟨hbad, hb, hc, hr⟩ := rejected_falseW p hrej
  have hF : Fut Hf (compileSt p).2.root (compileSt p).2.states (compileSt p).2 (fun y => y ∈ (compileSt p).1) :=
    ⟨fun x _ => by rw [H1]; exact List.prefix_refl _, fun x _ hx => H2 x hx, fun _ _ => rfl, List.prefix_refl _⟩
  obtain ⟨hc0, hS0⟩ := cur_zero Hf (compileSt p).2.root (compileSt p).2.states hsi' h0 hF
  have hdB : dB CSt.init (compileSt p).2 = [] := by simp [dB, hb]
  have hdC : dC CSt.init (compileSt p).2 = [] := by simp [dC, hc]
  have hdR : dR CSt.init (compileSt p).2 = [] := by simp [dR, hr]
  intro m
  induction m with
  | zero => trivial
  | succ m ih =>
    have hprem : Prems act cond p Hf E (compileSt p).2.root (compileSt p).2.states (m+1) [0] [] CSt.init
        (compile p [0] CSt.init) := by
      refine ⟨?_, ?_, ?_, ?_⟩
      · intro o' ho' suf hsuf s0
        have ho'' : o' ∈ (compileSt p).1 := ho'
        have hsuf' : (Hf o').items = ((compileSt p).2.heap o').items ++ suf := hsuf
        rw [H1] at hsuf'
        have : suf = [] := by simpa using hsuf'.symm
        subst this
        by_cases hz : lvl (compileSt p).2.root [0] (m+1) o' = 0
        · exact Or.inl hz
        right
        refine ⟨1, .start, by simp [run, tailF, execI], ?_, fun _ => by simp [tailF, execI, H3 o' ho'', por]⟩
        simp only [tailF, execI, H3 o' ho'', por, Option.getD_some]
        exact SimN_mono_le act cond p E _ _ _ (by have := lvl_le (compileSt p).2.root [0] (m+1) o'; omega) _ _ ih
      · intro o' ho'; rw [show dB CSt.init (compile p [0] CSt.init).2 = [] from hdB] at ho'; cases ho'
      · intro o' ho'; rw [show dC CSt.init (compile p [0] CSt.init).2 = [] from hdC] at ho'; cases ho'
      · intro o' ho'; rw [show dR CSt.init (compile p [0] CSt.init).2 = [] from hdR] at ho'; cases ho'
    have hs := simW act cond p Hf E (compileSt p).2.root (compileSt p).2.states hE p false false hp [] [0] CSt.init (m+1) [0]
      (fun y => y ∈ (compileSt p).1) Inv.init SInv.init (fun h => by cases h) hbad hF
      (fun y hy _ _ => mem_Outs.mpr (Or.inl hy)) hprem 0 (by simp)
    have hlv : lvl (compileSt p).2.root [0] (m+1) 0 = m + 1 := by simp [lvl, hsi'.root0]
    rw [hlv] at hs
    intro s0
    have h1 := hs (Hf 0).items (by simp [CSt.init]) s0
    rw [← E_tailF act cond Hf E hE 0, hc0] at h1
    rcases h1 with h1 | ⟨f, r, h1, h2, _⟩
    · omega
    · rw [mStep_some E _ 0 0 hS0]
      have e : CSt.init.atStart = true := rfl
      rw [e] at h1
      exact ⟨f, r, by simpa [refStep] using h1, h2⟩

end

section
variable {σ : Type} (act : Nat → σ → σ) (cond : Nat → σ → Bool)

/-- several states: the exported machine is the machine on the final block heap -/
theorem correct_wf_multi (p : Stmt) (hp : wf p false false = true) (hrej : rejected p = false) (codes : List Code)
    (hall : ∀ b, b < (compileSt p).2.next →
      (flatB true ((compileSt p).2.addfrontAll (compileSt p).1 0).heap (compileSt p).2.next b .nil).isSome)
    (hm : (compileSt p).2.states.mapM
      (fun b => flatB true ((compileSt p).2.addfrontAll (compileSt p).1 0).heap (compileSt p).2.next b .nil) = some codes)
    (inp : Nat → σ → σ) (s0 : σ) (n : Nat) :
    ∃ f, ∀ f', f ≤ f' → (refTrace act cond f' p inp n (some (.start, s0))).map (·.2) =
      some (smTrace act cond ⟨codes⟩ inp n (0, s0)).2 := by
  obtain ⟨_, H1, H2, H3, H4, _, _, h0⟩ := final_ctxW p hp
  have hallOK : ∀ b, (flatB true ((compileSt p).2.addfrontAll (compileSt p).1 0).heap (compileSt p).2.next b .nil).isSome := by
    intro b
    by_cases hb : b < (compileSt p).2.next
    · exact hall b hb
    · rw [flatB_empty true _ _ b h0 (H4 b (by omega))]; rfl
  have hE := heap_fix act cond _ _ hallOK
  have hsim := start_simW act cond p hp hrej _ _ hE H1 H2 H3
  obtain ⟨f, r, h1, _⟩ := trace_of_simAll act cond p _ _ inp s0 hsim n
  refine ⟨f, fun f' hf' => ?_⟩
  rw [h1 f' hf', traces_multi act cond ⟨codes⟩ _ _ (smStep_eq_mStep act cond _ _ _ codes hm) inp n]
  rfl

/-- a single state: the exported code has its transitions removed -/
theorem correct_wf_single (p : Stmt) (hp : wf p false false = true) (hrej : rejected p = false) (hlen : (compileSt p).2.states.length = 1)
    (codes : List Code)
    (hall : ∀ b, b < (compileSt p).2.next → (flatB false (compileSt p).2.heap (compileSt p).2.next b .nil).isSome)
    (hm : (compileSt p).2.states.mapM (fun b => flatB false (compileSt p).2.heap (compileSt p).2.next b .nil) = some codes)
    (inp : Nat → σ → σ) (s0 : σ) (n : Nat) :
    ∃ f, ∀ f', f ≤ f' → (refTrace act cond f' p inp n (some (.start, s0))).map (·.2) =
      some (smTrace act cond ⟨codes⟩ inp n (0, s0)).2 := by
  obtain ⟨_, H1, H2, H3, H4, htok, hsi, h0⟩ := final_ctxW p hp
  have hst : (compileSt p).2.states = [0] := by
    obtain ⟨tl, htl⟩ := hsi.states0
    rw [htl] at hlen ⊢
    cases tl with
    | nil => rfl
    | cons a as => simp at hlen
  have hallOK : ∀ b, (flatB true ((compileSt p).2.addfrontAll (compileSt p).1 0).heap (compileSt p).2.next b .nil).isSome := by
    intro b
    by_cases hb : b < (compileSt p).2.next
    · exact flatB_isSome_congr false true _ _ H1 _ b .nil .nil (hall b hb)
    · rw [flatB_empty true _ _ b h0 (H4 b (by omega))]; rfl
  have hE := heap_fix act cond _ _ hallOK
  have hsim := start_simW act cond p hp hrej _ _ hE H1 H2 H3
  obtain ⟨f, r, h1, _⟩ := trace_of_simAll act cond p _ _ inp s0 hsim n
  -- the code of state 0, with and without transitions
  obtain ⟨c0', hc0'⟩ := Option.isSome_iff_exists.mp (hallOK 0)
  have hc0 : flatB false (compileSt p).2.heap (compileSt p).2.next 0 .nil = some (dropT c0') :=
    flatB_dropT _ (compileSt p).2.heap (fun x => (H1 x).symm) _ 0 .nil c0' hc0'
  rw [hst] at hm
  simp only [List.mapM_cons, List.mapM_nil, hc0, Option.pure_def, Option.bind_eq_bind, Option.bind_some,
    Option.some.injEq] at hm
  subst hm
  have hstep : ∀ s, smStep act cond ⟨[dropT c0']⟩ 0 s =
      mStep (Eof act cond (flatB true ((compileSt p).2.addfrontAll (compileSt p).1 0).heap (compileSt p).2.next))
        (compileSt p).2.states 0 s ∧
      (mStep (Eof act cond (flatB true ((compileSt p).2.addfrontAll (compileSt p).1 0).heap (compileSt p).2.next))
        (compileSt p).2.states 0 s).1 = 0 := by
    intro s
    have hm0 : mStep (Eof act cond (flatB true ((compileSt p).2.addfrontAll (compileSt p).1 0).heap (compileSt p).2.next))
        (compileSt p).2.states 0 s = ((exec act cond c0' s none).2.getD 0, (exec act cond c0' s none).1) := by
      rw [mStep_some _ _ 0 0 (by rw [hst]; rfl)]
      simp only [Eof, hc0']
    have hp0 : (exec act cond c0' s none).2.getD 0 = 0 := by
      cases hq : (exec act cond c0' s none).2 with
      | none => rfl
      | some t =>
        rcases exec_tgts act cond c0' s none t hq with h | h
        · cases h
        · rcases flatB_tgts _ _ _ _ _ hc0' t h with h | ⟨b', h⟩
          · simp [tgts] at h
          · have := htok.2 b' t h
            rw [CSt.addfrontAll_states, hlen] at this
            simp only [Option.getD_some]; omega
    rw [hm0, hp0]
    refine ⟨?_, rfl⟩
    simp only [smStep, List.getD_cons_zero]
    rw [exec_dropT act cond c0' s none none]
    rfl
  refine ⟨f, fun f' hf' => ?_⟩
  rw [h1 f' hf', (traces_single act cond _ _ _ hstep inp s0 n).1]
  rfl

/-- every well-formed program (the whole grammar): whenever the mirror
    produces a machine, its data trace equals the reference trace of the coroutine body (for every sufficiently
    large fuel of the reference interpreter) -/
theorem compile_correct_wf (p : Stmt) (hp : wf p false false = true) (sm : SM) (h : compileSM p = some sm)
    (inp : Nat → σ → σ) (s0 : σ) (n : Nat) :
    ∃ f, ∀ f', f ≤ f' → (refTrace act cond f' p inp n (some (.start, s0))).map (·.2) =
      some (smTrace act cond sm inp n (0, s0)).2 := by
  have hboth : rejected p = false ∧ finish (compileSt p).1 (compileSt p).2 = some sm := by
    simp only [compileSM] at h
    split at h
    · cases h
    · rename_i hr
      exact ⟨by simpa using hr, h⟩
  obtain ⟨hrej, hfin⟩ := hboth
  obtain ⟨hall, codes, hm, rfl⟩ := finish_some _ _ _ hfin
  cases hk : ((compileSt p).2.states.length != 1) with
  | true =>
    simp only [hk, if_true, addfrontAll_next, CSt.addfrontAll_states] at hall hm
    exact correct_wf_multi act cond p hp hrej codes hall hm inp s0 n
  | false =>
    simp only [hk, Bool.false_eq_true, if_false] at hall hm
    have hlen : (compileSt p).2.states.length = 1 := by simpa using hk
    exact correct_wf_single act cond p hp hrej hlen codes hall hm inp s0 n

end
end CohdlVerif.C01
