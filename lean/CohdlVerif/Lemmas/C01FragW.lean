import CohdlVerif.Lemmas.C01Frag1h

/-! C01 - fragment 1: `while` (without break / continue), reference side and the loop head state -/
namespace CohdlVerif.C01

section
variable {σ : Type} (act : Nat → σ → σ) (cond : Nat → σ → Bool)
variable (prog : Stmt) (Hf : Nat → Blk) (E : Nat → σ → σ × Option Nat) (Rf : Nat → Nat) (Sf : List Nat)

theorem run_while_susp (c : Option Nat) (b k : Stmt) (st : List Frame) (s0 : σ) :
    run act cond 1 (.while_ c b k) st false s0 = some (.atHead c b k st, s0) := by
  simp [run]

theorem run_skip_loop (c : Option Nat) (b k : Stmt) (st : List Frame) (fr : Bool) (s0 : σ) :
    run act cond 1 .skip (.loop c b k :: st) fr s0 = some (.atHead c b k st, s0) := by
  simp [run]

theorem RunTo.while_fresh_true (c : Option Nat) (b k : Stmt) (st : List Frame) (s0 : σ)
    (hc : evalC cond c s0 = true) : RunTo act cond (.while_ c b k) st true s0 b (.loop c b k :: st) false s0 :=
  fun f y h => ⟨f+1, by simpa [run, hc] using h⟩

theorem RunTo.while_fresh_false (c : Option Nat) (b k : Stmt) (st : List Frame) (s0 : σ)
    (hc : evalC cond c s0 = false) : RunTo act cond (.while_ c b k) st true s0 k st false s0 :=
  fun f y h => ⟨f+1, by simpa [run, hc] using h⟩

/-- the head state of a loop simulates the suspension at the loop head; `body` / `ex` are the blocks executed when
    the condition holds / does not hold -/
theorem head_state_sim (cc : Option Nat) (b k : Stmt) (st : List Frame) (idx hb body ex : Nat)
    (hS : Sf[idx]? = some hb)
    (hEh : ∀ s0, E hb s0 = if evalC cond cc s0 then E body s0 else E ex s0)
    (hEb : ∀ s0, E body s0 = tailF act cond Hf E body (Hf body).items s0)
    (hEx : ∀ s0, E ex s0 = tailF act cond Hf E ex (Hf ex).items s0)
    (hcb : cur Rf Sf body = idx) (hcx : cur Rf Sf ex = idx) (m : Nat)
    (hB : ∀ j, j ≤ m → SimN act cond prog E Sf (j - 1) (.atHead cc b k st) idx →
      TailSim act cond prog Hf E Rf Sf j body [] b (.loop cc b k :: st) false)
    (hK : ∀ j, j ≤ m → (∃ s0, evalC cond cc s0 = false) → TailSim act cond prog Hf E Rf Sf j ex [] k st false) :
    ∀ j, j ≤ m → SimN act cond prog E Sf j (.atHead cc b k st) idx := by
  intro j
  induction j with
  | zero => intro _; trivial
  | succ j ih =>
    intro hj s0
    rw [mStep_some E Sf idx hb hS, hEh]
    cases hc : evalC cond cc s0 with
    | true =>
      simp only [if_true]
      have h1 := hB (j+1) hj (ih (by omega)) (Hf body).items (by simp) s0
      rcases h1 with h1 | ⟨f, r, h1, h2⟩
      · omega
      · refine ⟨f, r, ?_, ?_⟩
        · simp only [refStep, hc, if_true]; rw [hEb]; exact h1
        · rw [hEb]; rw [hcb] at h2; exact h2
    | false =>
      simp only [Bool.false_eq_true, if_false]
      have h1 := hK (j+1) hj ⟨s0, hc⟩ (Hf ex).items (by simp) s0
      rcases h1 with h1 | ⟨f, r, h1, h2⟩
      · omega
      · refine ⟨f, r, ?_, ?_⟩
        · simp only [refStep, hc, Bool.false_eq_true, if_false]; rw [hEx]; exact h1
        · rw [hEx]; rw [hcx] at h2; exact h2

theorem addfrontAll_next' (t : Nat) : ∀ (bs : List Nat) (s : CSt), (s.addfrontAll bs t).next = s.next := by
  intro bs
  induction bs with
  | nil => intro s; rfl
  | cons b bs ih => intro s; simp only [CSt.addfrontAll, List.foldl_cons] at ih ⊢; rw [ih]; rfl

theorem wS1_body (O : List Nat) (s : CSt) :
    (wS1 O s).heap (wBody O s) = {} ∧ (wS1 O s).next = wBody O s + 1 ∧ (wS1 O s).root (wBody O s) = (wS0 O s).root (wHb O s) := by
  simp [wS1, wBody, CSt.newBlock]

/-- the body of a loop of fragment 1 simulates one iteration, given the simulation of the loop head one level below -/
theorem while_body_sim (cc : Option Nat) (b k : Stmt) (hb : frag1 b = true)
    (ihb : SimIH act cond prog Hf E Rf Sf b) (st : List Frame) (O : List Nat) (s : CSt) (hi : Inv s O) (hsi : SInv s)
    (P4 : Nat → Prop) (hF4 : Fut Hf Rf Sf (wS4 b O s) P4)
    (hP4 : ∀ y, P4 y → y < (wS4 b O s).next → wBody O s ≤ y → False) (j : Nat)
    (hH : SimN act cond prog E Sf (j - 1) (.atHead cc b k st) (wIdx O s)) :
    TailSim act cond prog Hf E Rf Sf j (wBody O s) [] b (.loop cc b k :: st) false := by
  obtain ⟨T1, hA1, _, _, _⟩ := wS1_step O s hi.hlt hi.start
  obtain ⟨eb1, eb2, _⟩ := wS1_body O s
  have hl1 := T1.hlt hi.hlt
  have hsi1' := hsi.step T1 hi.hlt.2
  have hsi1 : SInv ({ wS1 O s with cont := [], brk := [] } : CSt) :=
    ⟨hsi1'.states_lt, hsi1'.root0, hsi1'.states0⟩
  have hi1 : Inv ({ wS1 O s with cont := [], brk := [] } : CSt) [wBody O s] :=
    Inv.single (s1 := { wS1 O s with cont := [], brk := [] }) (hl1.1 _ (by simp)) hl1.2 hA1 (by
      show ((wS1 O s).heap (wBody O s)).front = []
      rw [eb1])
  have B : Step ({ wS1 O s with cont := [], brk := [] } : CSt) [wBody O s] (wR b O s).2 (wR b O s).1 :=
    frag1_step b hb _ _ hi1
  have hfw : (wR b O s).1.Nodup ∧ ∀ o' ∈ (wR b O s).1, ((wR b O s).2.heap o').front = [] := fwd1 b hb _ _ hi1
  obtain ⟨hnd, hfr⟩ := hfw
  have hlr := B.hlt hi1.hlt
  have htg : 0 < (wR b O s).2.states.length → wIdx O s < (wR b O s).2.states.length := by
    intro h0
    cases hst : s.atStart with
    | true => simpa [wIdx, enterState_start O s hst] using h0
    | false =>
      have e1 : (wS1 O s).states = s.states ++ [s.next] := by
        simp [wS1, wS0, hst, enterState_nostart O s hst, CSt.newBlock, CSt.addfrontAll_states]
      have hle : ({ wS1 O s with cont := [], brk := [] } : CSt).states.length ≤ (wR b O s).2.states.length :=
        B.states_mono.length_le
      simp only [wIdx, enterState_nostart O s hst]
      rw [show ({ wS1 O s with cont := [], brk := [] } : CSt).states = (wS1 O s).states from rfl, e1] at hle
      simp at hle; omega
  have F := (HeapExt.addfrontAll (wR b O s).1 (wIdx O s) (wR b O s).1 (wR b O s).2 (fun _ h => h) htg).step hlr.1
  have hF3 : Fut Hf Rf Sf (wS3 b O s) P4 := ⟨hF4.items, hF4.closed, hF4.root, hF4.states⟩
  have FB : Fut Hf Rf Sf (wR b O s).2 (fun y => y ∈ (wR b O s).1 ∨ P4 y) :=
    Fut.back F (fun o ho => Or.inl ho) (fun y hy => Or.inl (Or.inr hy)) hF3
  have hn3 : (wS4 b O s).next = (wR b O s).2.next := by
    show (CSt.addfrontAll _ _ _).next = _
    exact addfrontAll_next' _ _ _
  have hbn : (wS1 O s).next ≤ (wR b O s).2.next := B.next_le
  have := ihb (.loop cc b k :: st) [wBody O s] _ j _ hi1 hsi1 FB
    (by
      intro y hy hlt hr
      rcases hy with hy | hy
      · exact hy
      · exfalso
        refine hP4 y hy (by rw [hn3]; exact hlt) ?_
        rcases hr with h | h
        · simp at h; omega
        · have : ({ wS1 O s with cont := [], brk := [] } : CSt).next = (wS1 O s).next := rfl
          omega)
    (by
      intro o' ho' suf hsuf s0
      have ho' : o' ∈ (wR b O s).1 := ho'
      have hsuf : (Hf o').items = ((wR b O s).2.heap o').items ++ suf := hsuf
      have ho'r := (B.open_r o' ho').1
      have ho'b : wBody O s ≤ o' := by
        rcases ho'r with h | h
        · simp at h; omega
        · have : ({ wS1 O s with cont := [], brk := [] } : CSt).next = (wS1 O s).next := rfl
          omega
      have hcl : Hf o' = (wS4 b O s).heap o' :=
        hF4.closed o' (by rw [hn3]; exact hlr.1 o' ho') (fun hp => hP4 o' hp (by rw [hn3]; exact hlr.1 o' ho') ho'b)
      have h3 : (wS4 b O s).heap o' = { (wR b O s).2.heap o' with front := [wIdx O s] } := by
        show (CSt.addfrontAll _ _ _).heap o' = _
        rw [addfrontAll_heap_nodup _ o' _ _ hnd ho', hfr o' ho']
      rw [hcl, h3] at hsuf
      have : suf = [] := by simpa using hsuf.symm
      subst this
      by_cases hj : j = 0
      · exact Or.inl hj
      right
      refine ⟨1, .atHead cc b k st, ?_, ?_⟩
      · rw [run_skip_loop]; simp [tailF, execI]
      · simp only [tailF, execI, hcl, h3, lastT, por, Option.getD_some]
        exact hH)
    (wBody O s) (by simp)
  have e0 : (({ wS1 O s with cont := [], brk := [] } : CSt).heap (wBody O s)).items = [] := by
    show ((wS1 O s).heap (wBody O s)).items = []
    rw [eb1]
  have eA : ({ wS1 O s with cont := [], brk := [] } : CSt).atStart = false := hA1
  rwa [e0, eA] at this

end
end CohdlVerif.C01
