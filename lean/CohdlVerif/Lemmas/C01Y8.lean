import CohdlVerif.Lemmas.C01Y7

/-! C01 - whole grammar: the `if` with two plain branches as one plain piece -/
namespace CohdlVerif.C01

section
variable {σ : Type} (act : Nat → σ → σ) (cond : Nat → σ → Bool)
variable (Hf : Nat → Blk) (E : Nat → σ → σ × Option Nat) (Rf : Nat → Nat) (Sf : List Nat)

theorem plain_ite_piece (hE : ∀ b s, E b s = execB act cond E (Hf b) s) (c : Nat) (t1 e1 k : Stmt)
    (iht : PlainX act cond Hf E Rf Sf t1) (ihe : PlainX act cond Hf E Rf Sf e1)
    (x : Nat) (s : CSt) (P' : Nat → Prop) (hi : Inv s [x]) (X : IterCtx t1 e1 c x s)
    (hat : anyTrans s.next (iR4 t1 c x s).1 = false) (hae : anyTrans (s.next + 1) (iR5 t1 e1 c x s).1 = false)
    (Tk : Step (iR5 t1 e1 c x s).2 [x] (compile k [x] (iR5 t1 e1 c x s).2).2 (compile k [x] (iR5 t1 e1 c x s).2).1)
    (hF : Fut Hf Rf Sf (compile k [x] (iR5 t1 e1 c x s).2).2 P')
    (hP' : ∀ y, P' y → y < (compile k [x] (iR5 t1 e1 c x s).2).2.next → (y = x ∨ s.next ≤ y) → y = x) :
    ∃ (eff1 : σ → σ), ((iR5 t1 e1 c x s).2.heap x).front = (s.heap x).front ∧
      ((iR5 t1 e1 c x s).2.heap x).items = (s.heap x).items ++ [.ite c s.next (s.next + 1)] ∧
      (∀ σ0, execI act cond E [.ite c s.next (s.next + 1)] σ0 = (eff1 σ0, none)) ∧
      (∀ st σ0, RunTo act cond (.ite c t1 e1 k) st s.atStart σ0 k st (iR5 t1 e1 c x s).2.atStart (eff1 σ0)) := by
  have hx : x < s.next := hi.hlt.1 x (by simp)
  have n4 := X.n4
  have n5 := X.n5
  have hn6 := Tk.next_le
  have Tt := X.Tt
  have Te := X.Te
  have F5 : Fut Hf Rf Sf (iR5 t1 e1 c x s).2 (fun y => y = x ∨ P' y) :=
    Fut.back Tk (by simp) (fun y hy => Or.inl (Or.inr hy)) hF
  have F4 : Fut Hf Rf Sf (iR4 t1 c x s).2 (fun y => y = s.next + 1 ∨ (y = x ∨ P' y)) :=
    Fut.back Te (by simp) (fun y hy => Or.inl (Or.inr hy)) F5
  have Pt := ((iht s.next (itePre c x s) _ X.hi3 X.hsi3 X.hA3 F4 (by
      intro y hy hlt hr'
      have hlt' : y < (iR4 t1 c x s).2.next := hlt
      have hy3 : s.next ≤ y := by
        rcases hr' with h | h
        · omega
        · simp [itePre_next] at h; omega
      rcases hy with hy | hy | hy
      · rcases hr' with h | h
        · omega
        · simp [itePre_next] at h; omega
      · omega
      · have := hP' y hy (by omega) (Or.inr hy3); omega)).1 ((anyTrans_false_iff _ _).mp hat).mem).toPlain
  have Pe := ((ihe (s.next + 1) (iR4 t1 c x s).2 _ X.hi4 X.hsi4 X.hA4 F5 (by
      intro y hy hlt hr'
      have hlt' : y < (iR5 t1 e1 c x s).2.next := hlt
      have hy3 : s.next ≤ y := by
        rcases hr' with h | h
        · omega
        · omega
      rcases hy with hy | hy
      · omega
      · have := hP' y hy (by omega) (Or.inr hy3); omega)).1 ((anyTrans_false_iff _ _).mp hae).mem).toPlain
  have hct : Hf s.next = (iR4 t1 c x s).2.heap s.next := F4.closed _ (by omega) (by
    intro h; rcases h with h | h | h
    · omega
    · omega
    · have := hP' _ h (by omega) (Or.inr (Nat.le_refl _)); omega)
  have hce : Hf (s.next + 1) = (iR5 t1 e1 c x s).2.heap (s.next + 1) := F5.closed _ (by omega) (by
    intro h; rcases h with h | h
    · omega
    · have := hP' _ h (by omega) (Or.inr (by omega)); omega)
  have hfe : ((iR4 t1 c x s).2.heap (s.next + 1)).front = [] := X.hi4.front _ (by simp)
  obtain ⟨efft, hEt, hRt⟩ := plain_closed act cond Hf E hE t1 s.next _ (iR4 t1 c x s).2 Pt (itePre_child_items c x s hx)
    (itePre_child_front c x s) hct
  obtain ⟨effe, hEe, hRe⟩ := plain_closed act cond Hf E hE e1 (s.next + 1) (iR4 t1 c x s).2 (iR5 t1 e1 c x s).2 Pe
    (by rw [Tt.frame (s.next + 1) (by simp [itePre_next]) (by simp)]; exact itePre_child2_items c x s hx) hfe hce
  refine ⟨fun σ0 => if cond c σ0 then efft σ0 else effe σ0, ?_, ?_, ?_, ?_⟩
  · rw [Te.frame x (by omega) (by simp; omega), Tt.frame x (by simp [itePre_next]; omega) (by simp; omega),
      itePre_front_parent c x s hx]
  · rw [Te.frame x (by omega) (by simp; omega), Tt.frame x (by simp [itePre_next]; omega) (by simp; omega),
      itePre_items c x s hx]
  · intro σ0
    simp only [execI]
    cases hc : cond c σ0 <;> simp [hEt, hEe]
  · intro st σ0
    rw [X.hA3] at hRt
    rw [X.hA4] at hRt hRe
    rw [X.hA5] at hRe ⊢
    cases hc : cond c σ0
    · simp only [hc, Bool.false_eq_true, if_false]
      exact (RunTo.ite_false act cond c t1 e1 k st _ σ0 hc).trans act cond
        ((hRe (.seq k :: st) σ0).trans act cond (RunTo.skip_seq act cond k st false _))
    · simp only [hc, if_true]
      exact (RunTo.ite_true act cond c t1 e1 k st _ σ0 hc).trans act cond
        ((hRt (.seq k :: st) σ0).trans act cond (RunTo.skip_seq act cond k st false _))

end
end CohdlVerif.C01
