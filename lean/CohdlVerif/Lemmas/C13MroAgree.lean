import CohdlVerif.Lemmas.C13Mro
import Mathlib.Tactic.Tauto
/-! C13 part A - the two ways of computing `issubclass` agree: membership in the C3 linearisation (what Python does)
    = reachability along `__bases__` (`issub`, the relation the lattice theorems are about) -/
namespace CohdlVerif.C13
set_option linter.unusedSimpArgs false

macro "ancsimp" : tactic => `(tactic|
  (intro x; simp [rank, anc, baseKeys, rootBases, qParent, mroK, qChain, chainA, kroot, qroot, tqTail, primTail, rootMro] <;> tauto))

set_option maxHeartbeats 4000000 in
theorem mroK_mem_q (qk : QKind) (d : Option Dir) (t : Key) :
    ∀ x, x ∈ mroK (.q qk d t) ↔ x ∈ anc (rank (.q qk d t)) (.q qk d t) := by
  cases qk <;>
    (cases t with
      | root r => cases r <;> ancsimp
      | vec k o w => cases k <;> ancsimp
      | arr e n => ancsimp
      | q a b c => ancsimp
      | anon a b c d e => ancsimp)

set_option maxHeartbeats 4000000 in
theorem mroK_mem (k : Key) (hg : goodKey k = true) : ∀ x, x ∈ mroK k ↔ x ∈ anc (rank k) k := by
  cases k with
  | root r => cases r <;> ancsimp
  | vec k o w => cases k <;> ancsimp
  | arr e n => ancsimp
  | anon qk d k o w => cases qk <;> cases k <;> first | (simp [goodKey] at hg; done) | ancsimp
  | q qk d t => exact mroK_mem_q qk d t
/-- membership in the C3 result = reachability along `__bases__` (what `issubclass` is, both ways of computing it) -/
theorem mro_mem_iff_issub (st : St) (hI : Inv st) (hlen : fuel ≤ st.length) (k1 k2 : Key) (i j : Nat) (m : List Nat)
    (h1 : find st k1 = some i) (h2 : find st k2 = some j) (hm : m.map some = (mroK k1).map (find st)) :
    j ∈ m ↔ issub st i j = true := by
  obtain ⟨c, hc, hck⟩ := find_key st k1 i h1
  have hg : goodKey k1 = true := hck ▸ hI.good c (List.mem_of_getElem? hc)
  rw [issub_iff st hI hlen k1 k2 i j h1 h2, ← mroK_mem k1 hg k2]
  constructor
  · intro hj
    have : some j ∈ (mroK k1).map (find st) := hm ▸ List.mem_map.mpr ⟨j, hj, rfl⟩
    obtain ⟨x, hx, hfx⟩ := List.mem_map.mp this
    rwa [find_inj st k2 x j h2 hfx]
  · intro hk
    have : find st k2 ∈ m.map some := hm ▸ List.mem_map.mpr ⟨k2, hk, rfl⟩
    rw [h2] at this
    obtain ⟨y, hy, he⟩ := List.mem_map.mp this
    simp at he; subst he; exact hy

end CohdlVerif.C13
