import CohdlVerif.Lemmas.C01S3

/-! C01 - general grammar: `await` reached after the start -/
namespace CohdlVerif.C01

section
variable {σ : Type} (act : Nat → σ → σ) (cond : Nat → σ → Bool)
variable (prog : Stmt) (Hf : Nat → Blk) (E : Nat → σ → σ × Option Nat) (Rf : Nat → Nat) (Sf : List Nat)

/-- levels below `lvl R0 m o - 1`, in a new segment, are below the given ones -/
theorem lvl_new_le (R0 R1 : List Nat) (m o j : Nat) (hj : j ≤ lvl Rf R0 m o - 1) (x : Nat) :
    lvl Rf R1 j x ≤ lvl Rf R0 m x := by
  have h1 := lvl_le Rf R1 j x
  have h2 := lvl_le Rf R0 m o
  have h3 := lvl_ge Rf R0 m x
  omega

theorem simG_await_ns_none (hE : ∀ b s, E b s = execB act cond E (Hf b) s) (k : Stmt) (l c : Bool)
    (hk : CSpec (compile k) l c) (ih : SimG act cond prog Hf E Rf Sf k l)
    (st : List Frame) (O : List Nat) (s : CSt) (m : Nat) (R0 : List Nat) (P' : Nat → Prop)
    (hi : Inv s O) (hsi : SInv s) (hst : s.atStart = false)
    (hbad : (compile (.await none k) O s).2.bad = false)
    (hF : Fut Hf Rf Sf (compile (.await none k) O s).2 P')
    (hP' : ∀ y, P' y → y < (compile (.await none k) O s).2.next → (y ∈ O ∨ s.next ≤ y) →
      y ∈ Outs s (compile (.await none k) O s).1 (compile (.await none k) O s).2)
    (hp : Prems act cond prog Hf E Rf Sf m R0 st s (compile (.await none k) O s))
    (o : Nat) (ho : o ∈ O) :
    TailSim2 act cond prog Hf E Rf Sf (lvl Rf R0 m o) o (s.heap o).items (.await none k) st false := by
  have hO : O ≠ [] := fun h => by subst h; simp at ho
  have hO' : O.isEmpty = false := by simpa using hO
  have hc : compile (.await none k) O s = compile k [(enterState O s).2.1] (enterState O s).2.2 := by
    rw [compile_await_none]; simp [hO']
  rw [hc] at hF hP' hp hbad
  obtain ⟨e1, e2, e3, e4, e5, e6, e7, e8⟩ := enter_nostart_facts hi hst
  rw [e2] at hF hP' hp hbad
  have hsl := enterState_sameLists O s
  have T0 := enterState_step O s hi.hlt (fun h => by rw [hst] at h; cases h)
  have hi0 : Inv (enterState O s).2.2 [s.next] := by have := hi.enter hO; rwa [e2] at this
  have hsi0 := hsi.step T0 hi.hlt.2
  have Tk := hk.step hi0 (fun _ => e8)
  have hn := Tk.next_le
  have hol : o < s.next := hi.hlt.1 o ho
  rw [← Outs_congr hsl] at hP'
  have hnP : ∀ y, y < s.next + 1 → y ≠ s.next → (y ∈ O ∨ s.next ≤ y) → ¬ P' y := fun y hy hne hr hp' => by
    have := hP' y hp' (by omega) hr
    rcases (Tk.outs_r y this).1 with h | h
    · simp at h; exact hne h
    · omega
  have hHo : Hf o = { s.heap o with front := [s.states.length] } := by
    rw [hF.closed o (by omega) (hnP o (by omega) (by omega) (Or.inl ho)), Tk.frame o (by omega) (by simp; omega), e7 o ho]
  have hS : Sf[s.states.length]? = some s.next := by
    rw [prefix_getElem? (Tk.states_mono.trans hF.states) _ (by rw [e6]; simp), e6]; simp
  have hcur : cur Rf Sf s.next = s.states.length := by
    obtain ⟨t, ht⟩ := Tk.states_mono.trans hF.states
    rw [cur, hF.root s.next (by omega), Tk.root_stable s.next (by omega), e5, ← ht, e6, List.append_assoc]
    exact idxOf_append_new _ _ _ (fun h => by have := hsi.states_lt _ h; omega)
  have hks : ∀ j, j ≤ lvl Rf R0 m o - 1 → TailSim2 act cond prog Hf E Rf Sf j s.next [] k st false := by
    intro j hj
    have := ih st [s.next] _ j [Rf s.next] P' hi0 hsi0 (fun _ => e8) hbad hF
      (fun y hy hlt hr => hP' y hy hlt (by
        rcases hr with h | h
        · simp at h; right; omega
        · right; omega))
      ((hp.congr act cond prog Hf E Rf Sf hsl).mono act cond prog Hf E Rf Sf (lvl_new_le Rf R0 _ m o j hj))
      s.next (by simp)
    rwa [e4, e8, lvl_self] at this
  intro suf hsuf s0
  rw [hHo] at hsuf
  have : suf = [] := by simpa using hsuf.symm
  subst this
  by_cases hm : lvl Rf R0 m o = 0
  · exact Or.inl hm
  right
  refine ⟨1, .atAwait none k st, ?_, ?_, fun _ => by simp [tailF, execI, hHo, lastT, por]⟩
  · rw [run_await_susp]; simp [tailF, execI]
  · simp only [tailF, execI, hHo, lastT, por, Option.getD_some]
    exact await_state_sim2 act cond prog Hf E Rf Sf none k st _ s.next s.next hS (fun s1 => by simp [evalC])
      (E_tailF act cond Hf E hE s.next) hcur _ (fun j hj => hks j hj)

theorem simG_await_ns_some (hE : ∀ b s, E b s = execB act cond E (Hf b) s) (c' : Nat) (k : Stmt) (l c : Bool)
    (hk : CSpec (compile k) l c) (ih : SimG act cond prog Hf E Rf Sf k l)
    (st : List Frame) (O : List Nat) (s : CSt) (m : Nat) (R0 : List Nat) (P' : Nat → Prop)
    (hi : Inv s O) (hsi : SInv s) (hst : s.atStart = false)
    (hbad : (compile (.await (some c') k) O s).2.bad = false)
    (hF : Fut Hf Rf Sf (compile (.await (some c') k) O s).2 P')
    (hP' : ∀ y, P' y → y < (compile (.await (some c') k) O s).2.next → (y ∈ O ∨ s.next ≤ y) →
      y ∈ Outs s (compile (.await (some c') k) O s).1 (compile (.await (some c') k) O s).2)
    (hp : Prems act cond prog Hf E Rf Sf m R0 st s (compile (.await (some c') k) O s))
    (o : Nat) (ho : o ∈ O) :
    TailSim2 act cond prog Hf E Rf Sf (lvl Rf R0 m o) o (s.heap o).items (.await (some c') k) st false := by
  have hO : O ≠ [] := fun h => by subst h; simp at ho
  have hO' : O.isEmpty = false := by simpa using hO
  have hc : compile (.await (some c') k) O s =
      compile k [(enterState O s).2.2.next] (itePre c' (enterState O s).2.1 (enterState O s).2.2) := by
    rw [compile_await_some]; simp [hO']
  rw [hc] at hF hP' hp hbad
  obtain ⟨e1, e2, e3, e4, e5, e6, e7, e8⟩ := enter_nostart_facts hi hst
  rw [e2, e3] at hF hP' hp hbad
  have hsl := (enterState_sameLists O s).trans (itePre_sameLists c' s.next (enterState O s).2.2)
  have T0 := enterState_step O s hi.hlt (fun h => by rw [hst] at h; cases h)
  have hsi0 := hsi.step T0 hi.hlt.2
  have hnb : s.next < (enterState O s).2.2.next := by omega
  have T1 := itePre_step c' s.next (enterState O s).2.2 hnb
  rw [e3] at T1
  have hl0 := T0.hlt hi.hlt
  have hl1 := T1.hlt ⟨by simpa using hnb, hl0.2⟩
  have hA1 := T1.atStart_false hl0.2 e8
  have hn1 : (itePre c' s.next (enterState O s).2.2).next = s.next + 3 := by rw [itePre_next, e3]
  have hi1 : Inv (itePre c' s.next (enterState O s).2.2) [s.next + 1] :=
    Inv.single (by omega) hl1.2 hA1 (by have := itePre_child_front c' s.next (enterState O s).2.2; rwa [e3] at this)
  have hsi1 := hsi0.step T1 hl0.2
  have Tk := hk.step hi1 (fun _ => hA1)
  have hn := Tk.next_le
  have hol : o < s.next := hi.hlt.1 o ho
  rw [← Outs_congr hsl] at hP'
  have hnP : ∀ y, y < s.next + 3 → (y ∈ O ∨ s.next ≤ y) → y ≠ s.next + 1 → ¬ P' y := fun y hy hr hne hp' => by
    have := hP' y hp' (by omega) hr
    rcases (Tk.outs_r y this).1 with h | h
    · simp at h; omega
    · omega
  have hHo : Hf o = { s.heap o with front := [s.states.length] } := by
    rw [hF.closed o (by omega) (hnP o (by omega) (Or.inl ho) (by omega)), Tk.frame o (by omega) (by simp; omega),
      T1.frame o (by omega) (by simp; omega), e7 o ho]
  have hHn : Hf s.next = { front := [], items := [.ite c' (s.next + 1) (s.next + 2)] } := by
    rw [hF.closed s.next (by omega) (hnP s.next (by omega) (Or.inr (Nat.le_refl _)) (by omega)),
      Tk.frame s.next (by omega) (by simp), itePre_parent_heap c' s.next _ hnb, e4, e3]
    rfl
  have hHe : Hf (s.next + 2) = {} := by
    rw [hF.closed (s.next + 2) (by omega) (hnP (s.next + 2) (by omega) (Or.inr (by omega)) (by omega)),
      Tk.frame (s.next + 2) (by omega) (by simp)]
    have := itePre_child2_heap c' s.next (enterState O s).2.2 hnb
    rwa [e3] at this
  have hS : Sf[s.states.length]? = some s.next := by
    rw [prefix_getElem? ((T1.states_mono.trans Tk.states_mono).trans hF.states) _ (by rw [e6]; simp), e6]; simp
  have hRf : Rf (s.next + 1) = s.next := by
    have hr : (itePre c' s.next (enterState O s).2.2).root (s.next + 1) = s.next := by
      have := itePre_child_root c' s.next (enterState O s).2.2 hnb
      rw [e3, e5] at this; exact this
    rw [hF.root (s.next + 1) (by omega), Tk.root_stable (s.next + 1) (by omega), hr]
  have hcur : cur Rf Sf (s.next + 1) = s.states.length := by
    obtain ⟨t, ht⟩ := (T1.states_mono.trans Tk.states_mono).trans hF.states
    rw [cur, hRf, ← ht, e6, List.append_assoc]
    exact idxOf_append_new _ _ _ (fun h => by have := hsi.states_lt _ h; omega)
  have hks : ∀ j, j ≤ lvl Rf R0 m o - 1 → TailSim2 act cond prog Hf E Rf Sf j (s.next + 1) [] k st false := by
    intro j hj
    have := ih st [s.next + 1] _ j [Rf (s.next + 1)] P' hi1 hsi1 (fun _ => hA1) hbad hF
      (fun y hy hlt hr => hP' y hy hlt (by
        rcases hr with h | h
        · simp at h; right; omega
        · right; omega))
      ((hp.congr act cond prog Hf E Rf Sf hsl).mono act cond prog Hf E Rf Sf (lvl_new_le Rf R0 _ m o j hj))
      (s.next + 1) (by simp)
    have hh := itePre_child_heap c' s.next (enterState O s).2.2 hnb
    rw [e3] at hh
    rwa [hh, hA1, lvl_self] at this
  intro suf hsuf s0
  rw [hHo] at hsuf
  have : suf = [] := by simpa using hsuf.symm
  subst this
  by_cases hm : lvl Rf R0 m o = 0
  · exact Or.inl hm
  right
  refine ⟨1, .atAwait (some c') k st, ?_, ?_, fun _ => by simp [tailF, execI, hHo, lastT, por]⟩
  · rw [run_await_susp]; simp [tailF, execI]
  · simp only [tailF, execI, hHo, lastT, por, Option.getD_some]
    refine await_state_sim2 act cond prog Hf E Rf Sf (some c') k st _ s.next (s.next + 1) hS ?_
      (E_tailF act cond Hf E hE (s.next + 1)) hcur _ (fun j hj => hks j hj)
    intro s1
    rw [E_single_ite act cond Hf E hE s.next c' (s.next + 1) (s.next + 2) hHn, E_empty act cond Hf E hE _ hHe]
    rfl

end
end CohdlVerif.C01
