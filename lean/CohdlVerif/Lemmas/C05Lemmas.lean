import CohdlVerif.Model.C05

/-!
  C05 - helper lemmas: powers of two, ranges, and one lemma per family of casts the back end can print
  (`CastGood`: the cast exists, is well typed for the declared VHDL object and decodes to `convert`).
-/
namespace CohdlVerif.C05

theorem two_pow_pos (n : Nat) : (0 : Int) < 2 ^ n := Int.pow_pos (by decide)

theorem two_pow_mono {m n : Nat} (h : m ≤ n) : (2 : Int) ^ m ≤ 2 ^ n := by
  have := Nat.pow_le_pow_right (show 0 < 2 by decide) h
  exact_mod_cast this

theorem two_pow_pred {n : Nat} (h : 0 < n) : (2 : Int) ^ n = 2 * 2 ^ (n - 1) := by
  cases n with
  | zero => omega
  | succ k => simp [Int.pow_succ]; omega

/-- natural numbers below 2^n, seen from Int -/
theorem toNat_lt_pow {x : Int} {n : Nat} (h0 : 0 ≤ x) (h : x < 2 ^ n) : x.toNat < 2 ^ n := by
  have : (x.toNat : Int) < ((2 ^ n : Nat) : Int) := by push_cast; omega
  exact_mod_cast this

theorem inRange_uns {n : Nat} {x : Int} : inRange (.uns n) x = true ↔ 0 ≤ x ∧ x ≤ 2 ^ n - 1 := by
  simp [inRange, unsMax]

theorem inRange_bv {n : Nat} {x : Int} : inRange (.bv n) x = true ↔ 0 ≤ x ∧ x ≤ 2 ^ n - 1 := by
  simp [inRange, unsMax]

theorem inRange_sgn {n : Nat} {x : Int} : inRange (.sgn n) x = true ↔ -(2 ^ (n - 1)) ≤ x ∧ x ≤ 2 ^ (n - 1) - 1 := by
  simp [inRange, sgnMin, sgnMax]

theorem inRange_bit {x : Int} : inRange .bit x = true ↔ x = 0 ∨ x = 1 := by simp [inRange]
theorem inRange_bool {x : Int} : inRange .bool x = true ↔ x = 0 ∨ x = 1 := by simp [inRange]

/-- vector widths are positive in cohdl (`assert size > 0`) -/
def Ty.wf : Ty → Bool
  | .bv n | .uns n | .sgn n => decide (0 < n)
  | _ => true

/-- what `cast_preserves` states for one (declared type, target type, source type, value) -/
def CastGood (vt t s : Ty) (x : Int) : Prop :=
  ∃ e, castModel vt t s = some e ∧ vhdlWellTyped vt (evalV e (encode s x)) = true ∧
    decodeAs t (evalV e (encode s x)) = some (convert t s x)

/-- bit pattern of a two's complement number: `(x mod 2^n)` as a natural number -/
theorem emod_toNat_lt (x : Int) (n : Nat) : (x % 2 ^ n).toNat < 2 ^ n := by
  have hp := two_pow_pos n
  have h1 := Int.emod_nonneg x (show (2 : Int) ^ n ≠ 0 by omega)
  have h2 := Int.emod_lt_of_pos x hp
  exact toNat_lt_pow h1 h2

theorem emod_pos_case {x : Int} {n : Nat} (h0 : 0 ≤ x) (h : x < 2 ^ n) : x % 2 ^ n = x :=
  Int.emod_eq_of_lt h0 h

theorem emod_neg_case {x : Int} {n : Nat} (h0 : x < 0) (h : -(2 ^ n) ≤ x) : x % 2 ^ n = x + 2 ^ n := by
  have hp := two_pow_pos n
  have : (x + 2 ^ n) % 2 ^ n = x + 2 ^ n := Int.emod_eq_of_lt (by omega) (by omega)
  rw [← this]; simp

/-- pattern of a signed value: split by sign -/
theorem sgn_pattern {x : Int} {n : Nat} (hn : 0 < n) (hx : inRange (.sgn n) x = true) :
    (0 ≤ x ∧ x % 2 ^ n = x ∧ x < 2 ^ (n - 1)) ∨ (x < 0 ∧ x % 2 ^ n = x + 2 ^ n ∧ 2 ^ (n - 1) ≤ x + 2 ^ n) := by
  rw [inRange_sgn] at hx
  have hp := two_pow_pred hn
  have hq := two_pow_pos (n - 1)
  by_cases h0 : 0 ≤ x
  · exact Or.inl ⟨h0, emod_pos_case h0 (by omega), by omega⟩
  · exact Or.inr ⟨by omega, emod_neg_case (by omega) (by omega), by omega⟩

/-! ### identity casts (source type = target type, nothing printed) -/

theorem cast_same_uns (n : Nat) (x : Int) (hx : inRange (.uns n) x = true) : CastGood (.uns n) (.uns n) (.uns n) x := by
  rw [inRange_uns] at hx
  refine ⟨.x, by simp [castModel], by simp [evalV, encode, vhdlWellTyped], ?_⟩
  simp [evalV, encode, decodeAs, convert]; omega

theorem cast_same_bv (n : Nat) (x : Int) (hx : inRange (.bv n) x = true) : CastGood (.bv n) (.bv n) (.bv n) x := by
  rw [inRange_bv] at hx
  refine ⟨.x, by simp [castModel], by simp [evalV, encode, vhdlWellTyped], ?_⟩
  simp [evalV, encode, decodeAs, convert]; omega

theorem twos_pattern' {x : Int} {n : Nat} (hn : 0 < n) (hx : inRange (.sgn n) x = true) :
    twos n (x % 2 ^ n) = x := by
  unfold twos
  rcases sgn_pattern hn hx with ⟨_, h2, h3⟩ | ⟨_, h2, h3⟩
  · rw [h2]; simp [h3]
  · rw [h2]; split <;> omega

theorem twos_pattern {x : Int} {n : Nat} (hn : 0 < n) (hx : inRange (.sgn n) x = true) :
    twos n ((x % 2 ^ n).toNat : Int) = x := by
  have h1 := Int.emod_nonneg x (show (2 : Int) ^ n ≠ 0 by have := two_pow_pos n; omega)
  rw [Int.toNat_of_nonneg h1]; exact twos_pattern' hn hx

theorem max_emod (x : Int) (n : Nat) : max (x % 2 ^ n) 0 = x % 2 ^ n := by
  have h1 := Int.emod_nonneg x (show (2 : Int) ^ n ≠ 0 by have := two_pow_pos n; omega)
  omega

theorem cast_same_sgn (n : Nat) (hn : 0 < n) (x : Int) (hx : inRange (.sgn n) x = true) :
    CastGood (.sgn n) (.sgn n) (.sgn n) x := by
  refine ⟨.x, by simp [castModel], by simp [evalV, encode, vhdlWellTyped], ?_⟩
  simp [evalV, encode, decodeAs, convert, max_emod, twos_pattern' hn hx]

/-! ### widening -/

theorem cast_uns_uns (n m : Nat) (x : Int) (h : m < n) (hx : inRange (.uns m) x = true) :
    CastGood (.uns n) (.uns n) (.uns m) x := by
  rw [inRange_uns] at hx
  have hp := two_pow_mono (Nat.le_of_lt h)
  have hlt := toNat_lt_pow hx.1 (show x < 2 ^ n by omega)
  refine ⟨.resize .x n, ?_, ?_, ?_⟩
  · have : ¬ n = m := by omega
    simp [castModel, this, h]
  · simp [evalV, encode, vresize, vhdlWellTyped]
  · simp [evalV, encode, vresize, decodeAs, convert, Nat.mod_eq_of_lt hlt]; omega

/-- sign extension: the pattern of x at width m, extended to width n, is the pattern of x at width n -/
theorem sign_extend_pattern {x : Int} {m n : Nat} (hm : 0 < m) (h : m ≤ n) (hx : inRange (.sgn m) x = true) :
    twos n ((if (x % 2 ^ m).toNat < 2 ^ (m - 1) then (x % 2 ^ m).toNat
              else (x % 2 ^ m).toNat + 2 ^ n - 2 ^ m : Nat) : Int) = x := by
  have hpm := two_pow_pos m
  have hpn := two_pow_pos n
  have hmn := two_pow_mono h
  have hm1 := two_pow_pred hm
  have hn1 := two_pow_pred (show 0 < n by omega)
  have hmn1 := two_pow_mono (show m - 1 ≤ n - 1 by omega)
  have h1 := Int.emod_nonneg x (show (2 : Int) ^ m ≠ 0 by omega)
  have hnat : ((x % 2 ^ m).toNat : Int) = x % 2 ^ m := Int.toNat_of_nonneg h1
  have hlt : ((x % 2 ^ m).toNat < 2 ^ (m - 1)) ↔ (x % 2 ^ m < 2 ^ (m - 1)) := by
    constructor
    · intro hh
      have : ((x % 2 ^ m).toNat : Int) < ((2 ^ (m - 1) : Nat) : Int) := by exact_mod_cast hh
      rw [hnat] at this; push_cast at this; exact this
    · intro hh; exact toNat_lt_pow h1 hh
  have hle : 2 ^ m ≤ 2 ^ n := Nat.pow_le_pow_right (by decide) h
  rcases sgn_pattern hm hx with ⟨h0, h2, h3⟩ | ⟨h0, h2, h3⟩
  · have c : (x % 2 ^ m).toNat < 2 ^ (m - 1) := hlt.mpr (by rw [h2]; exact h3)
    rw [if_pos c, hnat, h2]; unfold twos; rw [if_pos (by omega)]
  · have c : ¬ (x % 2 ^ m).toNat < 2 ^ (m - 1) := fun hh => by have := hlt.mp hh; omega
    rw [if_neg c]
    have hsub : (((x % 2 ^ m).toNat + 2 ^ n - 2 ^ m : Nat) : Int) = x % 2 ^ m + 2 ^ n - 2 ^ m := by
      have : 2 ^ m ≤ (x % 2 ^ m).toNat + 2 ^ n := by omega
      rw [Int.ofNat_sub this]; push_cast; rw [hnat]
    rw [hsub, h2]; unfold twos; rw [if_neg (by omega)]; omega

theorem cast_sgn_sgn (n m : Nat) (hm : 0 < m) (x : Int) (h : m < n) (hx : inRange (.sgn m) x = true) :
    CastGood (.sgn n) (.sgn n) (.sgn m) x := by
  refine ⟨.resize .x n, ?_, ?_, ?_⟩
  · have : ¬ n = m := by omega
    simp [castModel, this, h]
  · simp [evalV, encode, vresize, vhdlWellTyped, Nat.le_of_lt h]
  · simp only [evalV, encode, vresize, Nat.le_of_lt h, if_true, decodeAs, convert]
    rw [sign_extend_pattern hm (Nat.le_of_lt h) hx]

/-- Unsigned into a strictly wider Signed: `signed(std_logic_vector(resize(x, n)))` keeps the number -/
theorem cast_sgn_uns (n m : Nat) (x : Int) (h : m < n) (hx : inRange (.uns m) x = true) :
    CastGood (.sgn n) (.sgn n) (.uns m) x := by
  rw [inRange_uns] at hx
  have hp := two_pow_mono (show m ≤ n - 1 by omega)
  have hn1 := two_pow_pred (show 0 < n by omega)
  have hlt := toNat_lt_pow hx.1 (show x < 2 ^ n by omega)
  refine ⟨.asSgn (.asSlv (.resize .x n)), ?_, ?_, ?_⟩
  · simp [castModel, Nat.le_of_lt h]
  · simp [evalV, encode, vresize, vhdlWellTyped]
  · simp only [evalV, encode, vresize, decodeAs, convert, Nat.mod_eq_of_lt hlt, if_true]
    unfold twos
    rw [Int.toNat_of_nonneg hx.1, if_pos (by omega)]

/-! ### equal-width bit copies between BitVector and Signed/Unsigned -/

theorem cast_bv_uns (n : Nat) (x : Int) (hx : inRange (.uns n) x = true) : CastGood (.bv n) (.bv n) (.uns n) x := by
  rw [inRange_uns] at hx
  refine ⟨.asSlv .x, by simp [castModel], by simp [evalV, encode, vhdlWellTyped], ?_⟩
  simp [evalV, encode, decodeAs, convert]; omega

theorem cast_uns_bv (n : Nat) (x : Int) (hx : inRange (.bv n) x = true) : CastGood (.uns n) (.uns n) (.bv n) x := by
  rw [inRange_bv] at hx
  refine ⟨.asUns .x, by simp [castModel], by simp [evalV, encode, vhdlWellTyped], ?_⟩
  simp [evalV, encode, decodeAs, convert]; omega

theorem cast_bv_sgn (n : Nat) (x : Int) : CastGood (.bv n) (.bv n) (.sgn n) x := by
  have h1 := Int.emod_nonneg x (show (2 : Int) ^ n ≠ 0 by have := two_pow_pos n; omega)
  refine ⟨.asSlv .x, by simp [castModel], by simp [evalV, encode, vhdlWellTyped], ?_⟩
  simp [evalV, encode, decodeAs, convert, Int.toNat_of_nonneg h1]

theorem cast_sgn_bv (n : Nat) (x : Int) (hx : inRange (.bv n) x = true) : CastGood (.sgn n) (.sgn n) (.bv n) x := by
  rw [inRange_bv] at hx
  refine ⟨.asSgn .x, by simp [castModel], by simp [evalV, encode, vhdlWellTyped], ?_⟩
  simp [evalV, encode, decodeAs, convert, Int.toNat_of_nonneg hx.1]

/-! ### Bit / bool -/

theorem cast_bit_bit (x : Int) (hx : inRange .bit x = true) : CastGood .bit .bit .bit x := by
  rw [inRange_bit] at hx
  refine ⟨.x, by simp [castModel], by simp [evalV, encode, vhdlWellTyped], ?_⟩
  rcases hx with h | h <;> simp [h, evalV, encode, decodeAs, convert]

theorem cast_bit_bool (x : Int) (hx : inRange .bool x = true) : CastGood .bit .bit .bool x := by
  rw [inRange_bool] at hx
  refine ⟨.boolToSl .x, by simp [castModel], by simp [evalV, encode, vhdlWellTyped], ?_⟩
  rcases hx with h | h <;> simp [h, evalV, encode, decodeAs, convert]

theorem cast_bool_bit (x : Int) (hx : inRange .bit x = true) : CastGood .bool .bool .bit x := by
  rw [inRange_bit] at hx
  refine ⟨.eqOne .x, by simp [castModel], by simp [evalV, encode, vhdlWellTyped], ?_⟩
  rcases hx with h | h <;> simp [h, evalV, encode, decodeAs, convert]

theorem cast_bool_bool (x : Int) (hx : inRange .bool x = true) : CastGood .bool .bool .bool x := by
  rw [inRange_bool] at hx
  refine ⟨.x, by simp [castModel], by simp [evalV, encode, vhdlWellTyped], ?_⟩
  rcases hx with h | h <;> simp [h, evalV, encode, decodeAs, convert]

/-! ### numbers into the unbounded integer -/

theorem cast_int_uns (n : Nat) (x : Int) (hx : inRange (.uns n) x = true) : CastGood .int .int (.uns n) x := by
  rw [inRange_uns] at hx
  refine ⟨.toInteger .x, by simp [castModel], by simp [evalV, encode, vhdlWellTyped], ?_⟩
  simp [evalV, encode, decodeAs, convert]; omega

theorem cast_int_sgn (n : Nat) (hn : 0 < n) (x : Int) (hx : inRange (.sgn n) x = true) : CastGood .int .int (.sgn n) x := by
  refine ⟨.toInteger .x, by simp [castModel], by simp [evalV, encode, vhdlWellTyped], ?_⟩
  simp [evalV, encode, decodeAs, convert, max_emod, twos_pattern' hn hx]

/-! ### Python truthiness into bool (outside the property sentence; checked all the same) -/

theorem cast_bool_uns (n : Nat) (x : Int) (hx : inRange (.uns n) x = true) : CastGood .bool .bool (.uns n) x := by
  rw [inRange_uns] at hx
  refine ⟨.neZero .x, by simp [castModel], by simp [evalV, encode, vhdlWellTyped], ?_⟩
  by_cases h : x = 0
  · simp [h, evalV, encode, decodeAs, convert]
  · have : x.toNat ≠ 0 := by omega
    simp [h, this, evalV, encode, decodeAs, convert]

theorem cast_bool_bv (n : Nat) (x : Int) (hx : inRange (.bv n) x = true) : CastGood .bool .bool (.bv n) x := by
  rw [inRange_bv] at hx
  refine ⟨.neZero .x, by simp [castModel], by simp [evalV, encode, vhdlWellTyped], ?_⟩
  by_cases h : x = 0
  · simp [h, evalV, encode, decodeAs, convert]
  · have : x.toNat ≠ 0 := by omega
    simp [h, this, evalV, encode, decodeAs, convert]

theorem cast_bool_sgn (n : Nat) (hn : 0 < n) (x : Int) (hx : inRange (.sgn n) x = true) : CastGood .bool .bool (.sgn n) x := by
  have hp := two_pow_pos n
  have h1 := Int.emod_nonneg x (show (2 : Int) ^ n ≠ 0 by omega)
  refine ⟨.neZero .x, by simp [castModel], by simp [evalV, encode, vhdlWellTyped], ?_⟩
  by_cases h : x = 0
  · simp [h, evalV, encode, decodeAs, convert]
  · have : (x % 2 ^ n).toNat ≠ 0 := by
      rcases sgn_pattern hn hx with ⟨_, h2, _⟩ | ⟨_, h2, h3⟩
      · rw [h2]; omega
      · rw [h2]; have := two_pow_pos (n - 1); omega
    simp [h, this, evalV, encode, decodeAs, convert]

/-! ### the front end rejects everything the property names -/

theorem front_not_reject (t : Ty) (s : Src) (h : assignFront t s = true) : mustReject t s = false := by
  cases t <;> cases s <;> (try rename_i st; cases st) <;>
    simp_all [assignFront, mustReject, inRange, sgnMin, sgnMax, unsMax] <;>
    (try (rename_i n; have := two_pow_pos (n - 1); omega)) <;> (try omega)

theorem allowed_not_reject (t : Ty) (s : Src) (h : allowed t s = true) : mustReject t s = false := by
  cases t <;> cases s <;> (try rename_i st; cases st) <;>
    simp_all [allowed, mustReject, inRange, sgnMin, sgnMax, unsMax] <;> (try omega)

theorem init_not_reject (t : Ty) (s : Src) (h : initFront t s = true) : mustReject t s = false := by
  cases t <;> first
    | (simp [mustReject]; done)
    | (cases s <;> first
        | exact front_not_reject _ _ (by simpa [initFront] using h)
        | (simp [mustReject]; done))

/-- numeric types: the value is a number -/
def Ty.isNum : Ty → Bool
  | .uns _ | .sgn _ | .int => true
  | _ => false

/-! ### casts for targets with a ref-spec (slices, views): same core, other kind conversions -/

/-- strip the kind conversions `unsigned(.) signed(.) std_logic_vector(.)` at the top of a printed cast -/
def core : VExpr → VExpr
  | .asUns e | .asSgn e | .asSlv e => core e
  | e => e

/-- VHDL kind of the value of a cast whose core has kind kc -/
def wrapKind : VExpr → VKind → VKind
  | .asUns _, _ => .uns
  | .asSgn _, _ => .sgn
  | .asSlv _, _ => .slv
  | _, kc => kc

def srcKind : Ty → VKind
  | .uns _ => .uns | .sgn _ => .sgn | _ => .slv

theorem evalV_core_of_vec (e : VExpr) (v : VVal) (k : VKind) (w p : Nat) (h : evalV e v = .vec k w p) :
    ∃ kc, evalV (core e) v = .vec kc w p := by
  induction e generalizing k with
  | asUns e ih | asSgn e ih | asSlv e ih =>
    simp only [evalV] at h
    cases hv : evalV e v with
    | vec k' w' p' => rw [hv] at h; injection h with _ hw hp; subst hw; subst hp; exact ih k' hv
    | sl _ | bool _ | int _ | err => all_goals (rw [hv] at h; exact absurd h (by simp))
  | x | resize _ _ _ | toUnsigned _ _ _ | toSigned _ _ _ | boolToSl _ _ | eqOne _ _ | neZero _ _ | toInteger _ _ =>
    all_goals exact ⟨k, by simpa [core] using h⟩

theorem evalV_of_core (e : VExpr) (v : VVal) (kc : VKind) (w p : Nat) (h : evalV (core e) v = .vec kc w p) :
    evalV e v = .vec (wrapKind e kc) w p := by
  induction e with
  | asUns e ih | asSgn e ih | asSlv e ih =>
    all_goals (simp only [core] at h; simp only [evalV, ih h, wrapKind])
  | x | resize _ _ _ | toUnsigned _ _ _ | toSigned _ _ _ | boolToSl _ _ | eqOne _ _ | neZero _ _ | toInteger _ _ =>
    all_goals (simpa [core, wrapKind] using h)

theorem castModel_shape (k : Kind) (t s : Ty) (e e0 : VExpr) (ht : t.isVec = true) (hs : s.isVec = true)
    (hf : assignFront t (.rt s) = true) (h : castModel (mkVec k t.width) t s = some e) (h0 : castModel t t s = some e0) :
    core e = core e0 ∧ (core e0 = .x ∨ core e0 = .resize .x t.width) ∧ wrapKind e (srcKind s) = vkind k := by
  cases k <;> cases t <;> cases s <;> simp [Ty.isVec] at ht hs <;> simp [assignFront] at hf <;>
    simp only [castModel, mkVec, Ty.width] at h h0 <;>
    (try split at h) <;> (try split at h) <;> (try split at h0) <;> (try split at h0) <;>
    first
      | (simp at h; done)
      | (simp at h0; done)
      | (injection h with h; injection h0 with h0; subst h; subst h0
         try simp only [beq_iff_eq] at *
         first
          | (simp [core, wrapKind, srcKind, vkind, Ty.width]; done)
          | (exfalso; omega)
          | (simp [core, wrapKind, srcKind, vkind, Ty.width]; omega))

/-- the cast for a target whose VHDL object has the target's own type -/
theorem castGood_plain (t s : Ty) (x : Int) (hnr : mustReject t (.rt s) = false)
    (hback : (castModel t t s).isSome = true) (hs : s ≠ .int)
    (hwt : t.wf = true) (hws : s.wf = true) (hx : inRange s x = true) : CastGood t t s x := by
  cases t <;> cases s <;> simp_all [castModel, mustReject, Ty.wf]
  all_goals first
    | exact cast_bit_bit x hx
    | exact cast_bit_bool x hx
    | exact cast_bool_bit x hx
    | exact cast_bool_bool x hx
    | exact cast_bool_bv _ x hx
    | exact cast_bool_uns _ x hx
    | exact cast_bool_sgn _ hws x hx
    | exact cast_same_bv _ x hx
    | exact cast_bv_uns _ x hx
    | exact cast_bv_sgn _ x
    | exact cast_uns_bv _ x hx
    | exact cast_sgn_bv _ x hx
    | exact cast_sgn_uns _ _ x hnr hx
    | exact cast_int_uns _ x hx
    | exact cast_int_sgn _ hws x hx
    | (rename_i n m
       by_cases e : n = m
       · subst e; first | exact cast_same_uns _ x hx | exact cast_same_sgn _ hws x hx
       · first | exact cast_uns_uns n m x (by omega) hx | exact cast_sgn_sgn n m hws x (by omega) hx)

theorem front_plain_cast (t s : Ty) (ht : t.isVec = true) (hs : s.isVec = true)
    (hf : assignFront t (.rt s) = true) : (castModel t t s).isSome = true := by
  cases t <;> cases s <;> simp [Ty.isVec] at ht hs <;> simp [assignFront] at hf <;>
    simp only [castModel] <;> (try split) <;> (try split) <;> simp_all <;> omega

theorem decodeAs_vec (t : Ty) (ht : t.isVec = true) (v : VVal) (c : Int) (h : decodeAs t v = some c) :
    ∃ k p, v = .vec k t.width p := by
  cases t <;> simp [Ty.isVec] at ht <;> cases v <;> simp [decodeAs] at h <;>
    (rename_i n k w p; exact ⟨k, p, by simp [Ty.width, h.1]⟩)

theorem decodeAs_kind (t : Ty) (k k' : VKind) (w p : Nat) : decodeAs t (.vec k w p) = decodeAs t (.vec k' w p) := by
  cases t <;> simp [decodeAs]

theorem core_kind (s : Ty) (hs : s.isVec = true) (x : Int) (c : VExpr) (n : Nat) (hc : c = .x ∨ c = .resize .x n)
    (kc : VKind) (w p : Nat) (h : evalV c (encode s x) = .vec kc w p) : kc = srcKind s := by
  rcases hc with rfl | rfl <;> cases s <;> simp [Ty.isVec] at hs <;>
    simp [evalV, encode, vresize, srcKind] at h ⊢
  all_goals first
    | exact h.1.symm
    | (split at h <;> simp at h <;> exact h.1.symm)

theorem wellTyped_mkVec (k : Kind) (n p : Nat) : vhdlWellTyped (mkVec k n) (.vec (vkind k) n p) = true := by
  cases k <;> simp [mkVec, vkind, vhdlWellTyped]

/-! ### values of merges -/

theorem initFront_rt (r s : Ty) (h : initFront r (.rt s) = true) : assignFront r (.rt s) = true := by
  cases r <;> cases s <;> simp_all [initFront, assignFront]

theorem assignValue_rt (t s : Ty) (x : Int) (hf : assignFront t (.rt s) = true)
    (hb : (castModel t t s).isSome = true) (hs : s ≠ .int) (hwt : t.wf = true) (hws : s.wf = true)
    (hx : inRange s x = true) : assignValue t (.rt s) x = some (convert t s x) := by
  obtain ⟨e, he, _, hd⟩ := castGood_plain t s x (front_not_reject _ _ hf) hb hs hwt hws hx
  simp [assignValue, he, hd]

theorem twos_inRange (n : Nat) (hn : 0 < n) (x : Int) (h0 : 0 ≤ x) (h1 : x ≤ 2 ^ n - 1) :
    -(2 ^ (n - 1)) ≤ twos n x ∧ twos n x ≤ 2 ^ (n - 1) - 1 := by
  have := two_pow_pred hn
  unfold twos; split <;> omega

theorem convert_inRange (r s : Ty) (x : Int) (hf : assignFront r (.rt s) = true) (hs : s ≠ .int)
    (hwr : r.wf = true) (hws : s.wf = true) (hx : inRange s x = true) : inRange r (convert r s x) = true := by
  cases r <;> cases s <;> simp_all [assignFront, convert, Ty.wf]
  all_goals first
    | (simp [inRange]; done)
    | (simp only [inRange_bit, inRange_bool] at *; first | exact hx | (split <;> simp))
    | (rename_i n m
       simp only [inRange_uns, inRange_sgn, inRange_bv] at *
       have h2 := two_pow_pos n
       first
        | (have h1 := two_pow_mono (show m ≤ n by omega); omega)
        | (have h1 := two_pow_mono (show m - 1 ≤ n - 1 by omega); omega)
        | (have h1 := two_pow_mono (show m ≤ n - 1 by omega); have h3 := two_pow_pos (n - 1); omega))
    | (rename_i n
       simp only [inRange_uns, inRange_sgn, inRange_bv] at *
       have h2 := two_pow_pos n
       first
        | omega
        | (have := Int.emod_nonneg x (show (2 : Int) ^ n ≠ 0 by omega); have := Int.emod_lt_of_pos x h2; omega)
        | (exact twos_inRange n (by omega) x (by omega) (by omega)))

theorem twos_emod (n : Nat) (hn : 0 < n) (x : Int) (hx : inRange (.bv n) x = true) : twos n x % 2 ^ n = x := by
  rw [inRange_bv] at hx
  have hp := two_pow_pos n
  have h1 := two_pow_pred hn
  unfold twos
  split
  · exact emod_pos_case hx.1 (by omega)
  · rw [emod_neg_case (by omega) (by omega)]; omega

/-- going through a join type does not change what arrives: permitted steps compose to the direct conversion -/
theorem convert_comp (t r s : Ty) (x : Int) (hrs : assignFront r (.rt s) = true) (htr : assignFront t (.rt r) = true)
    (hal : allowed t (.rt s) = true) (hs : s ≠ .int) (hr : r ≠ .int) (hws : s.wf = true) (hwr : r.wf = true)
    (hx : inRange s x = true) : convert t r (convert r s x) = convert t s x := by
  cases t <;> cases r <;> cases s <;> simp_all [assignFront, allowed, convert, Ty.wf]
  · exact twos_emod _ hws x hx
  · exact twos_pattern' hws hx

/-- an int / bool literal that reaches the target through a join type r -/
theorem literal_comp (t r : Ty) (l : Src) (hl : (∃ k, l = .lit k) ∨ (∃ b, l = .blit b))
    (hrl : initFront r l = true) (htr : assignFront t (.rt r) = true) (hal : allowed t l = true)
    (hr : r ≠ .int) :
    ∃ y, convertLit r l = some y ∧ inRange r y = true ∧ some (convert t r y) = convertLit t l := by
  rcases hl with ⟨k, rfl⟩ | ⟨b, rfl⟩
  · cases t <;> cases r <;> simp_all [initFront, assignFront, allowed, convert, convertLit, inRange]
    all_goals first
      | omega
      | (rcases hal with h | h <;> simp [h]; done)
      | (rename_i n m; simp only [sgnMin, sgnMax] at *; have := two_pow_pos (n - 1); have := two_pow_pos (m - 1); omega)
      | (rename_i n; simp only [sgnMin, sgnMax] at *; have := two_pow_pos (n - 1); omega)
  · cases t <;> cases r <;> cases b <;> simp_all [initFront, assignFront, allowed, convert, convertLit, inRange]
    all_goals first
      | omega
      | (rcases hal with h | h <;> simp [h]; done)
      | (rename_i n m; simp only [sgnMin, sgnMax] at *; have := two_pow_pos (n - 1); have := two_pow_pos (m - 1); omega)
      | (rename_i n; simp only [sgnMin, sgnMax] at *; have := two_pow_pos (n - 1); omega)

theorem sameLiteral_mem (opts : List Src) (a : Src) (h : sameLiteral opts = some a) :
    a.isLit = true ∧ ∀ o ∈ opts, o = a := by
  cases opts with
  | nil => simp [sameLiteral] at h
  | cons b rest =>
    simp only [sameLiteral] at h
    split at h
    · rename_i hc
      injection h with h; subst h
      simp only [Bool.and_eq_true, List.all_eq_true, beq_iff_eq] at hc
      refine ⟨hc.1, ?_⟩
      intro o ho
      rcases List.mem_cons.mp ho with rfl | ho
      · rfl
      · exact hc.2 o ho
    · exact absurd h (by simp)

theorem tryJoin_no_nullfull (opts : List Src) (r : Ty) (h : tryJoin opts = some r) (o : Src) (ho : o ∈ opts) :
    o ≠ .null ∧ o ≠ .full := by
  unfold tryJoin at h
  split at h
  · exact absurd h (by simp)
  · rename_i hany
    simp only [List.any_eq_true, not_exists, not_and, Bool.or_eq_true, beq_iff_eq, not_or] at hany
    exact hany o ho

theorem backOk_assign_rt (t s : Ty) : backOk .assign t (.rt s) = (castModel t t s).isSome := by
  cases t <;> simp [backOk, vhdlTarget]

theorem assignValue_lit (t : Ty) (l : Src) (x : Int) (hl : l.isLit = true) : assignValue t l x = convertLit t l := by
  cases l <;> simp_all [assignValue, Src.isLit]

/-! ### the join type of `_try_join` is the type of an alternative (or bool) -/

theorem joinStep_cases (r : Option Ty) (o : Src) (r2 : Option Ty) (h : joinStep r o = some r2) :
    r2 = r ∨ (r = none ∧ r2 = joinStart o) ∨ (r2 = some .bit ∧ o = .rt .bit) := by
  unfold joinStep at h
  repeat' split at h
  all_goals first
    | (simp at h; done)
    | (injection h with h; subst h; simp)

theorem joinStep_inv (opts : List Src) (r : Option Ty) (o : Src) (ho : o ∈ opts)
    (hinv : ∀ r', r = some r' → (.rt r' ∈ opts ∨ r' = .bool)) (r2 : Option Ty) (h : joinStep r o = some r2) :
    ∀ r', r2 = some r' → (.rt r' ∈ opts ∨ r' = .bool) := by
  intro r' hr'
  rcases joinStep_cases r o r2 h with h1 | ⟨_, h1⟩ | ⟨h1, h2⟩
  · exact hinv r' (by rw [← h1, hr'])
  · rw [hr'] at h1
    cases o <;> simp [joinStart] at h1
    · subst h1; exact Or.inl ho
    · subst h1; exact Or.inr rfl
  · rw [hr'] at h1; injection h1 with h1; subst h1; subst h2; exact Or.inl ho

theorem foldl_join_inv (opts l : List Src) (hl : ∀ o ∈ l, o ∈ opts) (acc : Option (Option Ty))
    (hinv : ∀ r r', acc = some r → r = some r' → (.rt r' ∈ opts ∨ r' = .bool)) :
    ∀ r r', l.foldl (fun acc o => acc.bind (fun r => joinStep r o)) acc = some r → r = some r' →
      (.rt r' ∈ opts ∨ r' = .bool) := by
  induction l generalizing acc with
  | nil => simpa using hinv
  | cons o rest ih =>
    simp only [List.foldl_cons]
    apply ih (fun o' ho' => hl o' (List.mem_cons_of_mem _ ho'))
    intro r r' hacc hr
    cases acc with
    | none => simp at hacc
    | some a =>
      simp only [Option.bind_some] at hacc
      exact joinStep_inv opts a o (hl o (List.mem_cons_self ..)) (fun r'' h => hinv a r'' rfl h) r hacc r' hr

/-- the join type is the type of one of the run-time alternatives, or bool (from True / False) -/
theorem tryJoin_type (opts : List Src) (r : Ty) (h : tryJoin opts = some r) : .rt r ∈ opts ∨ r = .bool := by
  unfold tryJoin at h
  split at h
  · exact absurd h (by simp)
  · split at h
    · rename_i r' hf
      split at h
      · injection h with h; subst h
        exact foldl_join_inv opts opts (fun _ ho => ho) (some none) (by intro r r' h1 h2; simp at h1; subst h1; simp at h2) _ _ hf rfl
      · exact absurd h (by simp)
    · exact absurd h (by simp)

end CohdlVerif.C05
