import CohdlVerif.Model.C05

/-!
  C05 - helper lemmas: powers of two, ranges, and one lemma per family of casts the back end can print
  (`CastGood`: the cast exists, is well typed for the declared VHDL object and decodes to `convert`).
-/
namespace CohdlVerif.C05

theorem two_pow_pos (n : Nat) : (0 : Int) < 2 ^ n := Int.pow_pos (by decide)

theorem two_pow_mono {m n : Nat} (h : m ≤ n) : (2 : Int) ^ m ≤ 2 ^ n := by
  have := Nat.pow_le_pow_right (show 0 < 2 by decide) h
  exact_mod_cast this

theorem two_pow_pred {n : Nat} (h : 0 < n) : (2 : Int) ^ n = 2 * 2 ^ (n - 1) := by
  cases n with
  | zero => omega
  | succ k => simp [Int.pow_succ]; omega

/-- natural numbers below 2^n, seen from Int -/
theorem toNat_lt_pow {x : Int} {n : Nat} (h0 : 0 ≤ x) (h : x < 2 ^ n) : x.toNat < 2 ^ n := by
  have : (x.toNat : Int) < ((2 ^ n : Nat) : Int) := by push_cast; omega
  exact_mod_cast this

theorem inRange_uns {n : Nat} {x : Int} : inRange (.uns n) x = true ↔ 0 ≤ x ∧ x ≤ 2 ^ n - 1 := by
  simp [inRange, unsMax]

theorem inRange_bv {n : Nat} {x : Int} : inRange (.bv n) x = true ↔ 0 ≤ x ∧ x ≤ 2 ^ n - 1 := by
  simp [inRange, unsMax]

theorem inRange_sgn {n : Nat} {x : Int} : inRange (.sgn n) x = true ↔ -(2 ^ (n - 1)) ≤ x ∧ x ≤ 2 ^ (n - 1) - 1 := by
  simp [inRange, sgnMin, sgnMax]

theorem inRange_bit {x : Int} : inRange .bit x = true ↔ x = 0 ∨ x = 1 := by simp [inRange]
theorem inRange_bool {x : Int} : inRange .bool x = true ↔ x = 0 ∨ x = 1 := by simp [inRange]

/-- vector widths are positive in cohdl (`assert size > 0`) -/
def Ty.wf : Ty → Bool
  | .bv n | .uns n | .sgn n => decide (0 < n)
  | _ => true

/-- what `cast_preserves` states for one (declared type, target type, source type, value) -/
def CastGood (vt t s : Ty) (x : Int) : Prop :=
  ∃ e, castModel vt t s = some e ∧ vhdlWellTyped vt (evalV e (encode s x)) = true ∧
    decodeAs t (evalV e (encode s x)) = some (convert t s x)

/-- bit pattern of a two's complement number: `(x mod 2^n)` as a natural number -/
theorem emod_toNat_lt (x : Int) (n : Nat) : (x % 2 ^ n).toNat < 2 ^ n := by
  have hp := two_pow_pos n
  have h1 := Int.emod_nonneg x (show (2 : Int) ^ n ≠ 0 by omega)
  have h2 := Int.emod_lt_of_pos x hp
  exact toNat_lt_pow h1 h2

theorem emod_pos_case {x : Int} {n : Nat} (h0 : 0 ≤ x) (h : x < 2 ^ n) : x % 2 ^ n = x :=
  Int.emod_eq_of_lt h0 h

theorem emod_neg_case {x : Int} {n : Nat} (h0 : x < 0) (h : -(2 ^ n) ≤ x) : x % 2 ^ n = x + 2 ^ n := by
  have hp := two_pow_pos n
  have : (x + 2 ^ n) % 2 ^ n = x + 2 ^ n := Int.emod_eq_of_lt (by omega) (by omega)
  rw [← this]; simp

/-- pattern of a signed value: split by sign -/
theorem sgn_pattern {x : Int} {n : Nat} (hn : 0 < n) (hx : inRange (.sgn n) x = true) :
    (0 ≤ x ∧ x % 2 ^ n = x ∧ x < 2 ^ (n - 1)) ∨ (x < 0 ∧ x % 2 ^ n = x + 2 ^ n ∧ 2 ^ (n - 1) ≤ x + 2 ^ n) := by
  rw [inRange_sgn] at hx
  have hp := two_pow_pred hn
  have hq := two_pow_pos (n - 1)
  by_cases h0 : 0 ≤ x
  · exact Or.inl ⟨h0, emod_pos_case h0 (by omega), by omega⟩
  · exact Or.inr ⟨by omega, emod_neg_case (by omega) (by omega), by omega⟩

/-! ### identity casts (source type = target type, nothing printed) -/

theorem cast_same_uns (n : Nat) (x : Int) (hx : inRange (.uns n) x = true) : CastGood (.uns n) (.uns n) (.uns n) x := by
  rw [inRange_uns] at hx
  refine ⟨.x, by simp [castModel], by simp [evalV, encode, vhdlWellTyped], ?_⟩
  simp [evalV, encode, decodeAs, convert]; omega

theorem cast_same_bv (n : Nat) (x : Int) (hx : inRange (.bv n) x = true) : CastGood (.bv n) (.bv n) (.bv n) x := by
  rw [inRange_bv] at hx
  refine ⟨.x, by simp [castModel], by simp [evalV, encode, vhdlWellTyped], ?_⟩
  simp [evalV, encode, decodeAs, convert]; omega

theorem twos_pattern' {x : Int} {n : Nat} (hn : 0 < n) (hx : inRange (.sgn n) x = true) :
    twos n (x % 2 ^ n) = x := by
  unfold twos
  rcases sgn_pattern hn hx with ⟨_, h2, h3⟩ | ⟨_, h2, h3⟩
  · rw [h2]; simp [h3]
  · rw [h2]; split <;> omega

theorem twos_pattern {x : Int} {n : Nat} (hn : 0 < n) (hx : inRange (.sgn n) x = true) :
    twos n ((x % 2 ^ n).toNat : Int) = x := by
  have h1 := Int.emod_nonneg x (show (2 : Int) ^ n ≠ 0 by have := two_pow_pos n; omega)
  rw [Int.toNat_of_nonneg h1]; exact twos_pattern' hn hx

theorem max_emod (x : Int) (n : Nat) : max (x % 2 ^ n) 0 = x % 2 ^ n := by
  have h1 := Int.emod_nonneg x (show (2 : Int) ^ n ≠ 0 by have := two_pow_pos n; omega)
  omega

theorem cast_same_sgn (n : Nat) (hn : 0 < n) (x : Int) (hx : inRange (.sgn n) x = true) :
    CastGood (.sgn n) (.sgn n) (.sgn n) x := by
  refine ⟨.x, by simp [castModel], by simp [evalV, encode, vhdlWellTyped], ?_⟩
  simp [evalV, encode, decodeAs, convert, max_emod, twos_pattern' hn hx]

/-! ### widening -/

theorem cast_uns_uns (n m : Nat) (x : Int) (h : m < n) (hx : inRange (.uns m) x = true) :
    CastGood (.uns n) (.uns n) (.uns m) x := by
  rw [inRange_uns] at hx
  have hp := two_pow_mono (Nat.le_of_lt h)
  have hlt := toNat_lt_pow hx.1 (show x < 2 ^ n by omega)
  refine ⟨.resize .x n, ?_, ?_, ?_⟩
  · have : ¬ n = m := by omega
    simp [castModel, this, h]
  · simp [evalV, encode, vresize, vhdlWellTyped]
  · simp [evalV, encode, vresize, decodeAs, convert, Nat.mod_eq_of_lt hlt]; omega

/-- sign extension: the pattern of x at width m, extended to width n, is the pattern of x at width n -/
theorem sign_extend_pattern {x : Int} {m n : Nat} (hm : 0 < m) (h : m ≤ n) (hx : inRange (.sgn m) x = true) :
    twos n ((if (x % 2 ^ m).toNat < 2 ^ (m - 1) then (x % 2 ^ m).toNat
              else (x % 2 ^ m).toNat + 2 ^ n - 2 ^ m : Nat) : Int) = x := by
  have hpm := two_pow_pos m
  have hpn := two_pow_pos n
  have hmn := two_pow_mono h
  have hm1 := two_pow_pred hm
  have hn1 := two_pow_pred (show 0 < n by omega)
  have hmn1 := two_pow_mono (show m - 1 ≤ n - 1 by omega)
  have h1 := Int.emod_nonneg x (show (2 : Int) ^ m ≠ 0 by omega)
  have hnat : ((x % 2 ^ m).toNat : Int) = x % 2 ^ m := Int.toNat_of_nonneg h1
  have hlt : ((x % 2 ^ m).toNat < 2 ^ (m - 1)) ↔ (x % 2 ^ m < 2 ^ (m - 1)) := by
    constructor
    · intro hh
      have : ((x % 2 ^ m).toNat : Int) < ((2 ^ (m - 1) : Nat) : Int) := by exact_mod_cast hh
      rw [hnat] at this; push_cast at this; exact this
    · intro hh; exact toNat_lt_pow h1 hh
  have hle : 2 ^ m ≤ 2 ^ n := Nat.pow_le_pow_right (by decide) h
  rcases sgn_pattern hm hx with ⟨h0, h2, h3⟩ | ⟨h0, h2, h3⟩
  · have c : (x % 2 ^ m).toNat < 2 ^ (m - 1) := hlt.mpr (by rw [h2]; exact h3)
    rw [if_pos c, hnat, h2]; unfold twos; rw [if_pos (by omega)]
  · have c : ¬ (x % 2 ^ m).toNat < 2 ^ (m - 1) := fun hh => by have := hlt.mp hh; omega
    rw [if_neg c]
    have hsub : (((x % 2 ^ m).toNat + 2 ^ n - 2 ^ m : Nat) : Int) = x % 2 ^ m + 2 ^ n - 2 ^ m := by
      have : 2 ^ m ≤ (x % 2 ^ m).toNat + 2 ^ n := by omega
      rw [Int.ofNat_sub this]; push_cast; rw [hnat]
    rw [hsub, h2]; unfold twos; rw [if_neg (by omega)]; omega

theorem cast_sgn_sgn (n m : Nat) (hm : 0 < m) (x : Int) (h : m < n) (hx : inRange (.sgn m) x = true) :
    CastGood (.sgn n) (.sgn n) (.sgn m) x := by
  refine ⟨.resize .x n, ?_, ?_, ?_⟩
  · have : ¬ n = m := by omega
    simp [castModel, this, h]
  · simp [evalV, encode, vresize, vhdlWellTyped, Nat.le_of_lt h]
  · simp only [evalV, encode, vresize, Nat.le_of_lt h, if_true, decodeAs, convert]
    rw [sign_extend_pattern hm (Nat.le_of_lt h) hx]

/-- Unsigned into a strictly wider Signed: `signed(std_logic_vector(resize(x, n)))` keeps the number -/
theorem cast_sgn_uns (n m : Nat) (x : Int) (h : m < n) (hx : inRange (.uns m) x = true) :
    CastGood (.sgn n) (.sgn n) (.uns m) x := by
  rw [inRange_uns] at hx
  have hp := two_pow_mono (show m ≤ n - 1 by omega)
  have hn1 := two_pow_pred (show 0 < n by omega)
  have hlt := toNat_lt_pow hx.1 (show x < 2 ^ n by omega)
  refine ⟨.asSgn (.asSlv (.resize .x n)), ?_, ?_, ?_⟩
  · simp [castModel, Nat.le_of_lt h]
  · simp [evalV, encode, vresize, vhdlWellTyped]
  · simp only [evalV, encode, vresize, decodeAs, convert, Nat.mod_eq_of_lt hlt, if_true]
    unfold twos
    rw [Int.toNat_of_nonneg hx.1, if_pos (by omega)]

/-! ### equal-width bit copies between BitVector and Signed/Unsigned -/

theorem cast_bv_uns (n : Nat) (x : Int) (hx : inRange (.uns n) x = true) : CastGood (.bv n) (.bv n) (.uns n) x := by
  rw [inRange_uns] at hx
  refine ⟨.asSlv .x, by simp [castModel], by simp [evalV, encode, vhdlWellTyped], ?_⟩
  simp [evalV, encode, decodeAs, convert]; omega

theorem cast_uns_bv (n : Nat) (x : Int) (hx : inRange (.bv n) x = true) : CastGood (.uns n) (.uns n) (.bv n) x := by
  rw [inRange_bv] at hx
  refine ⟨.asUns .x, by simp [castModel], by simp [evalV, encode, vhdlWellTyped], ?_⟩
  simp [evalV, encode, decodeAs, convert]; omega

theorem cast_bv_sgn (n : Nat) (x : Int) : CastGood (.bv n) (.bv n) (.sgn n) x := by
  have h1 := Int.emod_nonneg x (show (2 : Int) ^ n ≠ 0 by have := two_pow_pos n; omega)
  refine ⟨.asSlv .x, by simp [castModel], by simp [evalV, encode, vhdlWellTyped], ?_⟩
  simp [evalV, encode, decodeAs, convert, Int.toNat_of_nonneg h1]

theorem cast_sgn_bv (n : Nat) (x : Int) (hx : inRange (.bv n) x = true) : CastGood (.sgn n) (.sgn n) (.bv n) x := by
  rw [inRange_bv] at hx
  refine ⟨.asSgn .x, by simp [castModel], by simp [evalV, encode, vhdlWellTyped], ?_⟩
  simp [evalV, encode, decodeAs, convert, Int.toNat_of_nonneg hx.1]

/-! ### Bit / bool -/

theorem cast_bit_bit (x : Int) (hx : inRange .bit x = true) : CastGood .bit .bit .bit x := by
  rw [inRange_bit] at hx
  refine ⟨.x, by simp [castModel], by simp [evalV, encode, vhdlWellTyped], ?_⟩
  rcases hx with h | h <;> simp [h, evalV, encode, decodeAs, convert]

theorem cast_bit_bool (x : Int) (hx : inRange .bool x = true) : CastGood .bit .bit .bool x := by
  rw [inRange_bool] at hx
  refine ⟨.boolToSl .x, by simp [castModel], by simp [evalV, encode, vhdlWellTyped], ?_⟩
  rcases hx with h | h <;> simp [h, evalV, encode, decodeAs, convert]

theorem cast_bool_bit (x : Int) (hx : inRange .bit x = true) : CastGood .bool .bool .bit x := by
  rw [inRange_bit] at hx
  refine ⟨.eqOne .x, by simp [castModel], by simp [evalV, encode, vhdlWellTyped], ?_⟩
  rcases hx with h | h <;> simp [h, evalV, encode, decodeAs, convert]

theorem cast_bool_bool (x : Int) (hx : inRange .bool x = true) : CastGood .bool .bool .bool x := by
  rw [inRange_bool] at hx
  refine ⟨.x, by simp [castModel], by simp [evalV, encode, vhdlWellTyped], ?_⟩
  rcases hx with h | h <;> simp [h, evalV, encode, decodeAs, convert]

/-! ### numbers into the unbounded integer -/

theorem cast_int_uns (n : Nat) (x : Int) (hx : inRange (.uns n) x = true) : CastGood .int .int (.uns n) x := by
  rw [inRange_uns] at hx
  refine ⟨.toInteger .x, by simp [castModel], by simp [evalV, encode, vhdlWellTyped], ?_⟩
  simp [evalV, encode, decodeAs, convert]; omega

theorem cast_int_sgn (n : Nat) (hn : 0 < n) (x : Int) (hx : inRange (.sgn n) x = true) : CastGood .int .int (.sgn n) x := by
  refine ⟨.toInteger .x, by simp [castModel], by simp [evalV, encode, vhdlWellTyped], ?_⟩
  simp [evalV, encode, decodeAs, convert, max_emod, twos_pattern' hn hx]

/-! ### Python truthiness into bool (outside the property sentence; checked all the same) -/

theorem cast_bool_uns (n : Nat) (x : Int) (hx : inRange (.uns n) x = true) : CastGood .bool .bool (.uns n) x := by
  rw [inRange_uns] at hx
  refine ⟨.neZero .x, by simp [castModel], by simp [evalV, encode, vhdlWellTyped], ?_⟩
  by_cases h : x = 0
  · simp [h, evalV, encode, decodeAs, convert]
  · have : x.toNat ≠ 0 := by omega
    simp [h, this, evalV, encode, decodeAs, convert]

theorem cast_bool_bv (n : Nat) (x : Int) (hx : inRange (.bv n) x = true) : CastGood .bool .bool (.bv n) x := by
  rw [inRange_bv] at hx
  refine ⟨.neZero .x, by simp [castModel], by simp [evalV, encode, vhdlWellTyped], ?_⟩
  by_cases h : x = 0
  · simp [h, evalV, encode, decodeAs, convert]
  · have : x.toNat ≠ 0 := by omega
    simp [h, this, evalV, encode, decodeAs, convert]

theorem cast_bool_sgn (n : Nat) (hn : 0 < n) (x : Int) (hx : inRange (.sgn n) x = true) : CastGood .bool .bool (.sgn n) x := by
  have hp := two_pow_pos n
  have h1 := Int.emod_nonneg x (show (2 : Int) ^ n ≠ 0 by omega)
  refine ⟨.neZero .x, by simp [castModel], by simp [evalV, encode, vhdlWellTyped], ?_⟩
  by_cases h : x = 0
  · simp [h, evalV, encode, decodeAs, convert]
  · have : (x % 2 ^ n).toNat ≠ 0 := by
      rcases sgn_pattern hn hx with ⟨_, h2, _⟩ | ⟨_, h2, h3⟩
      · rw [h2]; omega
      · rw [h2]; have := two_pow_pos (n - 1); omega
    simp [h, this, evalV, encode, decodeAs, convert]

/-! ### the front end rejects everything the property names -/

theorem front_not_reject (t : Ty) (s : Src) (h : assignFront t s = true) : mustReject t s = false := by
  cases t <;> cases s <;> (try rename_i st; cases st) <;>
    simp_all [assignFront, mustReject, inRange, sgnMin, sgnMax, unsMax] <;>
    (try (rename_i n; have := two_pow_pos (n - 1); omega)) <;> (try omega)

theorem allowed_not_reject (t : Ty) (s : Src) (h : allowed t s = true) : mustReject t s = false := by
  cases t <;> cases s <;> (try rename_i st; cases st) <;>
    simp_all [allowed, mustReject, inRange, sgnMin, sgnMax, unsMax] <;> (try omega)

theorem init_not_reject (t : Ty) (s : Src) (h : initFront t s = true) : mustReject t s = false := by
  cases t <;> first
    | (simp [mustReject]; done)
    | (cases s <;> first
        | exact front_not_reject _ _ (by simpa [initFront] using h)
        | (simp [mustReject]; done))

/-- numeric types: the value is a number -/
def Ty.isNum : Ty → Bool
  | .uns _ | .sgn _ | .int => true
  | _ => false

end CohdlVerif.C05
