import CohdlVerif.Model.C12

/-!
  C12 - helper definitions and lemmas: sub-templates of a design, well-formedness, the invariants of the
  library walk `collectT` (mirror of `Library.from_top_entity`) and the substitution lemma
  (elaboration of the emitted library by renaming = inlining with the actuals substituted for the formals).
-/
namespace CohdlVerif.C12

/-! ## sub-templates, well-formedness -/

mutual
/-- the template itself and all templates instantiated (transitively) below it -/
def subT : Tmpl → List Tmpl
  | .mk n p l lg is => .mk n p l lg is :: subIs is
def subIs : Insts → List Tmpl
  | .nil => []
  | .cons t _ rest => subT t ++ subIs rest
end

/-- the direct instances of a template: (instantiated template, actuals) -/
def instList : Insts → List (Tmpl × List (String × Actual))
  | .nil => []
  | .cons t acts rest => (t, acts) :: instList rest

mutual
def sizeT : Tmpl → Nat
  | .mk _ _ _ _ is => 1 + sizeIs is
def sizeIs : Insts → Nat
  | .nil => 0
  | .cons t _ rest => sizeT t + sizeIs rest
end

/-- an entity CLASS is one object: two templates of the design with the same name are the same template
    (the compiler identifies templates by object identity, `EntityInfo.instantiated_template`) -/
def Consistent (d : Tmpl) : Prop :=
  ∀ s1 ∈ subT d, ∀ s2 ∈ subT d, s1.name = s2.name → s1 = s2

mutual
/-- what `Entity.__init__` enforces for every instance: every keyword argument names a declared port
    (`raise AssertionError(f"invalid argument '{name}'")`) -/
def WfT : Tmpl → Prop
  | .mk _ _ _ _ is => WfIs is
def WfIs : Insts → Prop
  | .nil => True
  | .cons t acts rest => (∀ fa ∈ acts, fa.1 ∈ t.ports.map (·.name)) ∧ WfT t ∧ WfIs rest
end

theorem self_mem_subT (t : Tmpl) : t ∈ subT t := by
  cases t; simp [subT]

theorem subIs_subset_subT (t : Tmpl) : ∀ s ∈ subIs t.insts, s ∈ subT t := by
  cases t; intro s hs; simp [subT, Tmpl.insts] at *; exact Or.inr hs

mutual
theorem subT_trans : ∀ (t : Tmpl) (s : Tmpl), s ∈ subT t → ∀ u ∈ subT s, u ∈ subT t
  | .mk n p l lg is, s, hs, u, hu => by
      simp only [subT, List.mem_cons] at hs
      rcases hs with rfl | hs
      · exact hu
      · simp only [subT, List.mem_cons]; exact Or.inr (subIs_trans is s hs u hu)
theorem subIs_trans : ∀ (is : Insts) (s : Tmpl), s ∈ subIs is → ∀ u ∈ subT s, u ∈ subIs is
  | .nil, s, hs, u, hu => by simp [subIs] at hs
  | .cons t acts rest, s, hs, u, hu => by
      simp only [subIs, List.mem_append] at hs ⊢
      rcases hs with hs | hs
      · exact Or.inl (subT_trans t s hs u hu)
      · exact Or.inr (subIs_trans rest s hs u hu)
end

mutual
theorem sizeT_le : ∀ (t : Tmpl) (s : Tmpl), s ∈ subT t → sizeT s ≤ sizeT t
  | .mk n p l lg is, s, hs => by
      simp only [subT, List.mem_cons] at hs
      rcases hs with rfl | hs
      · exact Nat.le_refl _
      · have := sizeIs_le is s hs
        simp only [sizeT]; omega
theorem sizeIs_le : ∀ (is : Insts) (s : Tmpl), s ∈ subIs is → sizeT s ≤ sizeIs is
  | .nil, s, hs => by simp [subIs] at hs
  | .cons t acts rest, s, hs => by
      simp only [subIs, List.mem_append] at hs
      simp only [sizeIs]
      rcases hs with hs | hs
      · have := sizeT_le t s hs; omega
      · have := sizeIs_le rest s hs; omega
end

/-- a template never contains (transitively) a template with its own name: classes cannot instantiate themselves -/
theorem top_fresh (d : Tmpl) (hc : Consistent d) : ∀ s ∈ subIs d.insts, s.name ≠ d.name := by
  intro s hs hn
  have h1 : s ∈ subT d := subIs_subset_subT d s hs
  have h2 := hc s h1 d (self_mem_subT d) hn
  have h3 := sizeIs_le d.insts s hs
  subst h2
  cases s with
  | mk n p l lg is => simp [sizeT, Tmpl.insts] at h3; omega

theorem instList_sub : ∀ (is : Insts) (ca : Tmpl × List (String × Actual)), ca ∈ instList is → ∀ s ∈ subT ca.1, s ∈ subIs is
  | .nil, ca, h => by simp [instList] at h
  | .cons t acts rest, ca, h => by
      intro s hs
      simp only [instList, List.mem_cons] at h
      simp only [subIs, List.mem_append]
      rcases h with rfl | h
      · exact Or.inl hs
      · exact Or.inr (instList_sub rest ca h s hs)

theorem WfIs_instList : ∀ (is : Insts), WfIs is → ∀ ca ∈ instList is, (∀ fa ∈ ca.2, fa.1 ∈ ca.1.ports.map (·.name)) ∧ WfT ca.1
  | .nil, _, ca, h => by simp [instList] at h
  | .cons t acts rest, hw, ca, h => by
      simp only [WfIs] at hw
      simp only [instList, List.mem_cons] at h
      rcases h with rfl | h
      · exact ⟨hw.1, hw.2.1⟩
      · exact WfIs_instList rest hw.2.2 ca h

/-! ## emitted entities -/

@[simp] theorem emitEntity_name (t : Tmpl) : (emitEntity t).name = t.name := by cases t; rfl
@[simp] theorem emitEntity_ports (t : Tmpl) : (emitEntity t).ports = t.ports := by cases t; rfl
@[simp] theorem emitEntity_logic (t : Tmpl) : (emitEntity t).logic = t.logic := by cases t; rfl
theorem emitEntity_insts (t : Tmpl) : (emitEntity t).insts = emitInsts 0 t.insts := by cases t; rfl

theorem emitInsts_mem : ∀ (is : Insts) (k : Nat) (i : EInst), i ∈ emitInsts k is →
    ∃ ca ∈ instList is, i.entity = ca.1.name ∧ i.pmap = pmapOf ca.1.ports ca.2
  | .nil, k, i, h => by simp [emitInsts] at h
  | .cons t acts rest, k, i, h => by
      simp only [emitInsts, List.mem_cons] at h
      rcases h with rfl | h
      · exact ⟨(t, acts), by simp [instList], rfl, rfl⟩
      · obtain ⟨ca, hca, h1, h2⟩ := emitInsts_mem rest (k + 1) i h
        exact ⟨ca, by simp [instList, hca], h1, h2⟩

theorem hasName_cons (e : Entity) (r : List Entity) (n : String) :
    hasName (e :: r) n = (e.name == n || hasName r n) := by simp [hasName]

theorem hasName_iff (r : List Entity) (n : String) : hasName r n = true ↔ ∃ e ∈ r, e.name = n := by
  simp [hasName]

/-! ## the library walk -/

mutual
theorem collectT_suffix : ∀ (t : Tmpl) (racc : List Entity), ∃ new, collectT racc t = new ++ racc
  | .mk n p l lg is, racc => by
      obtain ⟨new, h⟩ := collectIs_suffix is racc
      simp only [collectT]
      split
      · exact ⟨new, h⟩
      · exact ⟨emitEntity (.mk n p l lg is) :: new, by simp [h]⟩
theorem collectIs_suffix : ∀ (is : Insts) (racc : List Entity), ∃ new, collectIs racc is = new ++ racc
  | .nil, racc => ⟨[], by simp [collectIs]⟩
  | .cons t acts rest, racc => by
      obtain ⟨n1, h1⟩ := collectT_suffix t racc
      obtain ⟨n2, h2⟩ := collectIs_suffix rest (collectT racc t)
      exact ⟨n2 ++ n1, by simp only [collectIs]; rw [h2, h1]; simp⟩
end

theorem collectT_mono (t : Tmpl) (racc : List Entity) (n : String) (h : hasName racc n = true) :
    hasName (collectT racc t) n = true := by
  obtain ⟨new, hn⟩ := collectT_suffix t racc
  rw [hn]; simp [hasName] at *; exact Or.inr h

theorem collectIs_mono (is : Insts) (racc : List Entity) (n : String) (h : hasName racc n = true) :
    hasName (collectIs racc is) n = true := by
  obtain ⟨new, hn⟩ := collectIs_suffix is racc
  rw [hn]; simp [hasName] at *; exact Or.inr h

mutual
/-- everything the walk adds is the emitted form of a template below the walked one -/
theorem collectT_mem : ∀ (t : Tmpl) (racc : List Entity) (e : Entity), e ∈ collectT racc t →
    e ∈ racc ∨ ∃ s ∈ subT t, e = emitEntity s
  | .mk n p l lg is, racc, e, h => by
      simp only [collectT] at h
      split at h
      · rcases collectIs_mem is racc e h with h | ⟨s, hs, he⟩
        · exact Or.inl h
        · exact Or.inr ⟨s, by simp [subT, hs], he⟩
      · simp only [List.mem_cons] at h
        rcases h with rfl | h
        · exact Or.inr ⟨_, self_mem_subT _, rfl⟩
        · rcases collectIs_mem is racc e h with h | ⟨s, hs, he⟩
          · exact Or.inl h
          · exact Or.inr ⟨s, by simp [subT, hs], he⟩
theorem collectIs_mem : ∀ (is : Insts) (racc : List Entity) (e : Entity), e ∈ collectIs racc is →
    e ∈ racc ∨ ∃ s ∈ subIs is, e = emitEntity s
  | .nil, racc, e, h => by simp [collectIs] at h; exact Or.inl h
  | .cons t acts rest, racc, e, h => by
      simp only [collectIs] at h
      rcases collectIs_mem rest _ e h with h | ⟨s, hs, he⟩
      · rcases collectT_mem t racc e h with h | ⟨s, hs, he⟩
        · exact Or.inl h
        · exact Or.inr ⟨s, by simp [subIs, hs], he⟩
      · exact Or.inr ⟨s, by simp [subIs, hs], he⟩
end

mutual
/-- every template below the walked one has an entity of its name in the library afterwards -/
theorem collectT_complete : ∀ (t : Tmpl) (racc : List Entity), ∀ s ∈ subT t, hasName (collectT racc t) s.name = true
  | .mk n p l lg is, racc, s, hs => by
      simp only [subT, List.mem_cons] at hs
      simp only [collectT]
      split
      · rcases hs with rfl | hs
        · assumption
        · exact collectIs_complete is racc s hs
      · rw [hasName_cons]
        rcases hs with rfl | hs
        · simp [Tmpl.name]
        · simp [collectIs_complete is racc s hs]
theorem collectIs_complete : ∀ (is : Insts) (racc : List Entity), ∀ s ∈ subIs is, hasName (collectIs racc is) s.name = true
  | .nil, racc, s, hs => by simp [subIs] at hs
  | .cons t acts rest, racc, s, hs => by
      simp only [subIs, List.mem_append] at hs
      simp only [collectIs]
      rcases hs with hs | hs
      · exact collectIs_mono rest _ _ (collectT_complete t racc s hs)
      · exact collectIs_complete rest _ s hs
end

/-- no two entities of the (reversed) library share a name -/
def NamesNodup (r : List Entity) : Prop := (r.map (·.name)).Nodup

mutual
theorem collectT_nodup : ∀ (t : Tmpl) (racc : List Entity), NamesNodup racc → NamesNodup (collectT racc t)
  | .mk n p l lg is, racc, h => by
      have h1 := collectIs_nodup is racc h
      simp only [collectT]
      split
      · exact h1
      · rename_i hn
        simp only [NamesNodup, List.map_cons, List.nodup_cons] at *
        refine ⟨?_, h1⟩
        intro hmem
        apply hn
        rw [hasName_iff]
        simp only [List.mem_map] at hmem
        obtain ⟨e, he, hen⟩ := hmem
        exact ⟨e, he, by simpa [emitEntity] using hen⟩
theorem collectIs_nodup : ∀ (is : Insts) (racc : List Entity), NamesNodup racc → NamesNodup (collectIs racc is)
  | .nil, racc, h => by simpa [collectIs] using h
  | .cons t acts rest, racc, h => by
      simp only [collectIs]
      exact collectIs_nodup rest _ (collectT_nodup t racc h)
end

theorem nodup_reverse_of_nodup {α : Type} {l : List α} (h : l.Nodup) : l.reverse.Nodup := by
  unfold List.Nodup at *
  rw [List.pairwise_reverse]
  exact h.imp (fun hab => Ne.symm hab)

/-- every entity of the (reversed) library instantiates only entities that come later in the reversed
    list, i.e. EARLIER in the emitted text -/
inductive Closed : List Entity → Prop
  | nil : Closed []
  | cons (e : Entity) (older : List Entity) :
      (∀ i ∈ e.insts, hasName older i.entity = true) → Closed older → Closed (e :: older)

mutual
theorem collectT_closed : ∀ (t : Tmpl) (racc : List Entity), Closed racc → Closed (collectT racc t)
  | .mk n p l lg is, racc, h => by
      have h1 := collectIs_closed is racc h
      simp only [collectT]
      split
      · exact h1
      · refine Closed.cons _ _ ?_ h1
        intro i hi
        rw [emitEntity_insts] at hi
        obtain ⟨ca, hca, hent, _⟩ := emitInsts_mem is 0 i hi
        rw [hent]
        exact collectIs_complete is racc ca.1 (instList_sub is ca hca ca.1 (self_mem_subT _))
theorem collectIs_closed : ∀ (is : Insts) (racc : List Entity), Closed racc → Closed (collectIs racc is)
  | .nil, racc, h => by simpa [collectIs] using h
  | .cons t acts rest, racc, h => by
      simp only [collectIs]
      exact collectIs_closed rest _ (collectT_closed t racc h)
end

theorem Closed_split : ∀ (xs : List Entity) (e : Entity) (ys : List Entity), Closed (xs ++ e :: ys) →
    ∀ i ∈ e.insts, hasName ys i.entity = true
  | [], e, ys, h => by cases h with | cons _ _ h1 _ => exact h1
  | x :: xs, e, ys, h => by
      cases h with
      | cons _ _ _ h2 => exact Closed_split xs e ys h2

end CohdlVerif.C12
