import CohdlVerif.Lemmas.C19ResizeS2

/-! C19: SFixed `_resize_overlapping` (part 3: ROUND/SATURATE, ROUND without left overflow) and `resize_fn`: all branches, assembled -/

namespace CohdlVerif.C19

theorem coreS_ovf_cut_round_sat (l r v l' r' : Int) (hv : inRangeS (l - r + 1) v)
    (hl : l' < l) (hr : r < r') (ht : r' ≤ l') :
    resizeSCore l r v l' r' .round .saturate = .ok (specResizeS r v l' r' .round .saturate) := by
  have hmin := hminS (l' - r' + 1)
  have hmax := hmaxS (l' - r' + 1)
  have hk := p2_pos (r' - r)
  have hT := p2_pos (l' - r' + 1 - 1)
  have hpp := p2_pred (l' - r' + 1) (by omega)
  have hP := p2_split (l' - r) (r' - r) (by omega) (by omega)
  rw [show l' - r - (r' - r) = l' - r' + 1 - 1 by omega] at hP
  have hd := roundInc_01 v (r' - r)
  obtain ⟨hsign, hover, hunder⟩ := sat_prelude l r v l' hv hl (by omega)
  unfold resizeSCore; dsimp only
  rw [mkS_ok _ v (by omega) hv.1 hv.2, mkS_ok _ _ (by omega) hmin.1 hmin.2, mkS_ok _ _ (by omega) hmax.1 hmax.2]
  simp only [bind, Except.bind, pure, Except.pure]
  rw [if_pos (by omega)]
  try dsimp only
  rw [lsbRest_eq _ _ 1 (l - r) (by omega) (by omega) (by omega)]
  try dsimp only
  rw [min_eq_left (show l - l' ≤ l - r + 1 - 1 by omega)]
  rw [left_eq _ _ _ (l' - r) (by omega) (by omega) (by omega)]
  try dsimp only
  rw [emod_emod_p2 v (l - r + 1) (l - r) (by omega) (by omega)]
  rw [if_neg (by omega)]
  try dsimp only
  rw [doRound_eq _ _ _ (by omega) (by omega), roundInc_emod v _ _ (by omega) (by omega)]
  try dsimp only
  rw [lsbRest_eq _ _ _ (l' - r + 1) (by omega) (by omega) (by omega)]
  try dsimp only
  rw [msbRest_eq _ _ _ (l' - r' + 1) (by omega) (by omega) (by omega)]
  try dsimp only
  rw [emod_emod_p2 v (l - r + 1) (l' - r + 1) (by omega) (by omega), emod_ediv_p2 v (l' - r + 1) (r' - r) (by omega) (by omega),
    show l' - r + 1 - (r' - r) = l' - r' + 1 by omega]
  rw [sInt_pat _ _ (by omega), sInt_mk _ _ (by omega) hmax.1 hmax.2]
  simp only [choose2, BV.any, BV.inv, uAdd, max_eq_left (show (1:Int) ≤ l' - r' + 1 by omega), hsign, hover, hunder,
    Int.emod_add_emod]
  unfold specResizeS quantize overflowS
  rw [if_neg (show ¬ r ≥ r' by omega)]
  try dsimp only
  rw [roundEven_eq]
  by_cases hu : v < -(p2 (l' - r))
  · rw [if_pos (by simp [hu])]
    rw [sFromS_ok _ _ _ (by omega) (le_refl _) hmin]
    simp only [resultRaw, ↓reduceIte]
    rw [sInt_mk _ _ (by omega) hmin.1 hmin.2]
    have hq : v / p2 (r' - r) < -(p2 (l' - r' + 1 - 1)) := by
      rw [Int.ediv_lt_iff_lt_mul hk]; rw [hP] at hu; linarith
    rw [clamp_le_lo _ _ _ (by unfold loS; omega) (by unfold loS hiS; omega)]
    rfl
  · rw [if_neg (by simp [hu])]
    by_cases hge : p2 (l' - r) ≤ v
    · rw [if_pos (by simp [hge])]
      rw [sFromS_ok _ _ _ (by omega) (le_refl _) hmax]
      simp only [resultRaw, ↓reduceIte]
      rw [sInt_mk _ _ (by omega) hmax.1 hmax.2]
      have hq : p2 (l' - r' + 1 - 1) ≤ v / p2 (r' - r) := by
        rw [Int.le_ediv_iff_mul_le hk]; rw [hP] at hge; linarith
      rw [clamp_ge_hi _ _ _ (by unfold hiS; omega) (by unfold loS hiS; omega)]
      rfl
    · have hvn : inRangeS (l' - r + 1) v := by
        unfold inRangeS; rw [show l' - r + 1 - 1 = l' - r by omega]; omega
      have hq := ediv_rangeS v (l' - r + 1) (r' - r) (by omega) (by omega) hvn
      rw [show l' - r + 1 - (r' - r) = l' - r' + 1 by omega] at hq
      have hq1 := hq.1
      have hq2 := hq.2
      rw [wrapS_id _ _ (by omega) hq]
      by_cases hfull : v / p2 (r' - r) = p2 (l' - r' + 1 - 1) - 1 ∧ roundInc v (r' - r) = 1
      · rw [if_pos (by simp [hge, hfull.1, hfull.2])]
        rw [sFromS_ok _ _ _ (by omega) (le_refl _) hmax]
        simp only [resultRaw, ↓reduceIte]
        rw [sInt_mk _ _ (by omega) hmax.1 hmax.2]
        rw [clamp_ge_hi _ _ _ (by unfold hiS; omega) (by unfold loS hiS; omega)]
        rfl
      · have e1 : p2 (l' - r') = p2 (l' - r' + 1 - 1) := by rw [show l' - r' + 1 - 1 = l' - r' by omega]
        rw [if_neg (by simp [hge]; omega)]
        have hs : inRangeS (l' - r' + 1) (v / p2 (r' - r) + roundInc v (r' - r)) := by
          unfold inRangeS; omega
        rw [sFromS_pat _ _ (by omega)]
        simp only [resultRaw, ↓reduceIte]
        rw [sInt_wrapS_pat _ _ (by omega), wrapS_id _ _ (by omega) hs]
        rw [clamp_id _ _ _ (by unfold loS; exact hs.1) (by unfold hiS; have := hs.2; omega)]

theorem coreS_cut_round (l r v l' r' : Int) (os : Ovf) (hv : inRangeS (l - r + 1) v)
    (hl : l ≤ l') (hr : r < r') (ht : r' ≤ l) :
    resizeSCore l r v l' r' .round os = .ok (specResizeS r v l' r' .round os) := by
  have hmin := hminS (l' - r' + 1)
  have hmax := hmaxS (l' - r' + 1)
  have hq := ediv_rangeS v (l - r + 1) (r' - r) (by omega) (by omega) hv
  rw [show l - r + 1 - (r' - r) = l - r' + 1 by omega] at hq
  have hq1 := hq.1
  have hq2 := hq.2
  have hd := roundInc_01 v (r' - r)
  have hle := p2_le (l - r' + 1 - 1) (l' - r' + 1 - 1) (by omega) (by omega)
  have hT := p2_pos (l - r' + 1 - 1)
  unfold resizeSCore; dsimp only
  rw [mkS_ok _ v (by omega) hv.1 hv.2, mkS_ok _ _ (by omega) hmin.1 hmin.2, mkS_ok _ _ (by omega) hmax.1 hmax.2]
  simp only [bind, Except.bind, pure, Except.pure]
  rw [if_neg (by omega), if_neg (by omega)]
  try dsimp only
  rw [doRound_eq _ _ _ (by omega) (by omega), roundInc_emod v _ _ (by omega) (by omega)]
  try dsimp only
  rw [msbRest_eq _ _ _ (l - r' + 1) (by omega) (by omega) (by omega)]
  try dsimp only
  rw [emod_ediv_p2 v (l - r + 1) (r' - r) (by omega) (by omega), show l - r + 1 - (r' - r) = l - r' + 1 by omega]
  rw [sResize_pat _ _ _ _ (by omega) (le_refl _) (by omega)]
  try dsimp only
  rw [sInt_pat _ _ (by omega), sInt_mk _ _ (by omega) hmax.1 hmax.2]
  rw [wrapS_id _ _ (by omega) hq, p2_zero, Int.mul_one]
  simp only [uAdd, max_eq_left (show (1:Int) ≤ l' - r' + 1 by omega), Int.emod_add_emod]
  unfold specResizeS quantize
  rw [if_neg (show ¬ r ≥ r' by omega)]
  try dsimp only
  rw [roundEven_eq]
  by_cases hc : os = .saturate ∧ l = l'
  · obtain ⟨hos, hll⟩ := hc
    subst hos; subst hll
    rw [if_pos ⟨rfl, rfl⟩]
    simp only [choose2]
    by_cases hfull : v / p2 (r' - r) = p2 (l - r' + 1 - 1) - 1 ∧ roundInc v (r' - r) = 1
    · rw [if_pos (by simp [hfull.1, hfull.2])]
      rw [sFromS_ok _ _ _ (by omega) (le_refl _) hmax]
      simp only [resultRaw, ↓reduceIte]
      rw [sInt_mk _ _ (by omega) hmax.1 hmax.2]
      unfold overflowS
      rw [clamp_ge_hi _ _ _ (by unfold hiS; omega) (by unfold loS hiS; omega)]
      rfl
    · have e1 : p2 (l - r') = p2 (l - r' + 1 - 1) := by rw [show l - r' + 1 - 1 = l - r' by omega]
      rw [if_neg (by simp; omega), if_neg (by simp)]
      have hs : inRangeS (l - r' + 1) (v / p2 (r' - r) + roundInc v (r' - r)) := by
        unfold inRangeS; omega
      rw [sFromS_pat _ _ (by omega)]
      simp only [resultRaw, ↓reduceIte]
      rw [sInt_wrapS_pat _ _ (by omega), wrapS_id _ _ (by omega) hs, overflowS_id _ _ _ (by omega) hs]
  · rw [if_neg hc]
    rw [sFromS_pat _ _ (by omega)]
    simp only [resultRaw, ↓reduceIte]
    rw [sInt_wrapS_pat _ _ (by omega)]
    cases os with
    | wrap => rw [overflowS_wrap_eq]
    | saturate =>
      have hne : l ≠ l' := fun h => hc ⟨rfl, h⟩
      have hle2 := p2_le (l - r' + 1) (l' - r' + 1 - 1) (by omega) (by omega)
      have hpp := p2_pred (l - r' + 1) (by omega)
      have hs : inRangeS (l' - r' + 1) (v / p2 (r' - r) + roundInc v (r' - r)) := by
        unfold inRangeS; omega
      rw [wrapS_id _ _ (by omega) hs, overflowS_id _ _ _ (by omega) hs]

/-- SFixed `_resize_overlapping` = spec, for all overlapping formats, styles and values -/
theorem resizeS1_spec (l r v l' r' : Int) (rs : Round) (os : Ovf) (hlr : r ≤ l) (hlr' : r' ≤ l')
    (hv : inRangeS (l - r + 1) v) (ho1 : r' ≤ l) (ho2 : r ≤ l') :
    resizeS1 l r v l' r' rs os = .ok (specResizeS r v l' r' rs os) := by
  unfold resizeS1
  by_cases hc : l = l' ∧ r = r'
  · rw [if_pos hc, mkS_ok _ v (by omega) hv.1 hv.2]
    obtain ⟨c1, c2⟩ := hc
    subst c1; subst c2
    rw [specS_extend l r v l r rs os hlr hv (le_refl _) (le_refl _)]
    simp only [Except.map, sub_self, p2_zero, Int.mul_one]
    rw [sInt_mk _ v (by omega) hv.1 hv.2]
  · rw [if_neg hc]
    by_cases hl : l ≤ l'
    · by_cases hr : r' ≤ r
      · rw [coreS_ext l r v l' r' rs os hlr hv hl hr, specS_extend l r v l' r' rs os hlr hv hl hr]
      · cases rs with
        | truncate => exact coreS_cut_trunc l r v l' r' os hv hl (by omega) ho1
        | round => exact coreS_cut_round l r v l' r' os hv hl (by omega) ho1
    · by_cases hr : r' ≤ r
      · cases os with
        | wrap => exact coreS_ovf_wrap l r v l' r' rs hv (by omega) hr ho2
        | saturate => exact coreS_ovf_sat l r v l' r' rs hv (by omega) hr ho2
      · cases rs with
        | truncate =>
          cases os with
          | wrap => exact coreS_ovf_cut_trunc_wrap l r v l' r' hv (by omega) (by omega) hlr'
          | saturate => exact coreS_ovf_cut_trunc_sat l r v l' r' hv (by omega) (by omega) hlr'
        | round =>
          cases os with
          | wrap => exact coreS_ovf_cut_round_wrap l r v l' r' hv (by omega) (by omega) hlr'
          | saturate => exact coreS_ovf_cut_round_sat l r v l' r' hv (by omega) (by omega) hlr'

/-- SFixed `resize_fn` = spec, for ALL formats (disjoint ones included), styles and values -/
theorem resizeS_spec (l r v l' r' : Int) (rs : Round) (os : Ovf) (hlr : r ≤ l) (hlr' : r' ≤ l')
    (hv : inRangeS (l - r + 1) v) :
    resizeS l r v l' r' rs os = .ok (specResizeS r v l' r' rs os) := by
  unfold resizeS
  by_cases hd : l < r' ∨ l' < r
  · rw [if_pos hd]
    dsimp only
    rcases hd with hd | hd
    · rw [max_eq_right (show l ≤ r' by omega), min_eq_left (show r ≤ l' by omega)]
      rw [ctorFixedS_covers r' r l r v hlr hv (by omega) (le_refl _)]
      simp only [bind, Except.bind, sub_self, p2_zero, Int.mul_one]
      exact resizeS1_spec r' r v l' r' rs os (by omega) hlr'
        (inRangeS_mono _ _ _ (by omega) (by omega) hv) (le_refl _) (by omega)
    · rw [max_eq_left (show r' ≤ l by omega), min_eq_right (show l' ≤ r by omega)]
      rw [ctorFixedS_covers l l' l r v hlr hv (le_refl _) (by omega)]
      simp only [bind, Except.bind]
      have hsc := scaleS (l - r + 1) (r - l') v (by omega) (by omega) hv
      rw [show l - r + 1 + (r - l') = l - l' + 1 by omega] at hsc
      rw [resizeS1_spec l l' (v * p2 (r - l')) l' r' rs os (by omega) hlr' hsc (by omega) (le_refl _)]
      congr 1
      unfold specResizeS quantize
      rw [if_pos (by omega), if_pos (by omega), Int.mul_assoc, ← p2_add _ _ (by omega) (by omega),
        show r - l' + (l' - r') = r - r' by omega]
  · rw [if_neg hd]
    exact resizeS1_spec l r v l' r' rs os hlr hlr' hv (by omega) (by omega)

end CohdlVerif.C19
