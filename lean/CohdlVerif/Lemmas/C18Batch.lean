import CohdlVerif.Lemmas.C18Crc
/-!
  C18 helper lemmas, part 7: select_batch = OR over the selected batches.
-/
namespace CohdlVerif.C18

theorem batchArgsF_fuel (bs : Nat) (hbs : 1 ≤ bs) : ∀ (f f' : Nat) (l : List α), l.length ≤ f → l.length ≤ f' →
    batchArgsF bs f l = batchArgsF bs f' l := by
  intro f
  induction f with
  | zero => intro f' l h _; have : l = [] := by simpa using h
            subst this; simp [batchArgsF_nil]
  | succ f ih =>
    intro f' l h h'
    cases l with
    | nil => simp [batchArgsF_nil]
    | cons a r =>
      cases f' with
      | zero => simp at h'
      | succ f' =>
        simp only [batchArgsF]
        rw [ih f' _ (by simp only [List.length_drop, List.length_cons] at *; omega)
                    (by simp only [List.length_drop, List.length_cons] at *; omega)]

theorem chunks_cons (bs : Nat) (hbs : 1 ≤ bs) (l : Bits) (hl : l ≠ []) :
    chunks bs l = l.take bs :: chunks bs (l.drop bs) := by
  unfold chunks batchArgs
  cases l with
  | nil => exact absurd rfl hl
  | cons a r =>
    simp only [List.length_cons, batchArgsF]
    rw [batchArgsF_fuel bs hbs r.length _ _ (by simp; omega) (Nat.le_refl _)]

theorem getD_take (l : Bits) (n i : Nat) (h : i < n) : (l.take n).getD i false = l.getD i false := by
  simp [List.getD_eq_getElem?_getD, List.getElem?_take, h]

theorem getD_drop (l : Bits) (n i : Nat) : (l.drop n).getD i false = l.getD (n + i) false := by
  simp [List.getD_eq_getElem?_getD, List.getElem?_drop]

theorem zipWith_and_getD (a b : Bits) (n : Nat) :
    (List.zipWith and a b).getD n false = (a.getD n false && b.getD n false) := by
  simp only [List.getD_eq_getElem?_getD, List.getElem?_zipWith]
  cases a[n]? <;> cases b[n]? <;> simp

theorem chunks_any (bs i : Nat) (hbs : 1 ≤ bs) (hi : i < bs) : ∀ (k : Nat) (l : Bits), l.length = k * bs →
    (chunks bs l).any (fun c => c.getD i false) = (List.range k).any (fun j => l.getD (j * bs + i) false) := by
  intro k
  induction k with
  | zero => intro l h; have : l = [] := by simpa using h
            subst this; simp [chunks, batchArgs, batchArgsF]
  | succ k ih =>
    intro l h
    have hne : l ≠ [] := by
      intro h0; subst h0; simp [Nat.succ_mul] at h; omega
    rw [chunks_cons bs hbs l hne, List.any_cons, List.range_succ_eq_map, List.any_cons, List.any_map,
      ih (l.drop bs) (by simp [h, Nat.succ_mul])]
    congr 1
    · rw [Nat.zero_mul, Nat.zero_add]; exact getD_take l bs i hi
    · refine List.any_congr rfl ?_
      intro j
      simp only [Function.comp, getD_drop, Nat.succ_eq_add_one, Nat.succ_mul]
      congr 1; omega

theorem stretch_getD (bs i : Nat) (hi : i < bs) : ∀ (sel : Bits) (j : Nat),
    (stretchSpec sel bs).getD (j * bs + i) false = sel.getD j false := by
  intro sel
  induction sel with
  | nil => intro j; simp [stretchSpec]
  | cons s rest ih =>
    intro j
    simp only [stretchSpec, List.flatMap_cons] at ih ⊢
    cases j with
    | zero =>
      simp only [Nat.zero_mul, Nat.zero_add, List.getD_eq_getElem?_getD]
      rw [List.getElem?_append_left (by simp; exact hi)]
      simp [hi]
    | succ j =>
      simp only [List.getD_eq_getElem?_getD] at ih ⊢
      rw [List.getElem?_append_right (by simp [Nat.succ_mul]; omega)]
      simp only [List.length_replicate, List.getD_cons_succ, List.getElem?_cons_succ]
      rw [show (j + 1) * bs + i - bs = j * bs + i by rw [Nat.succ_mul]; omega]
      exact ih j

theorem borT_tree (bs : Nat) {l : List Bits} {r : Bits} (h : FoldTree borT l r) :
    (∀ c ∈ l, c.length = bs) → r.length = bs ∧ ∀ i, i < bs → r.getD i false = l.any (fun c => c.getD i false) := by
  induction h with
  | leaf a => intro hl; exact ⟨hl a (by simp), fun i _ => by simp⟩
  | @node l₁ l₂ r₁ r₂ _ _ ih₁ ih₂ =>
    intro hl
    obtain ⟨n1, e1⟩ := ih₁ (fun c hc => hl c (by simp [hc]))
    obtain ⟨n2, e2⟩ := ih₂ (fun c hc => hl c (by simp [hc]))
    refine ⟨by simp [borT, n1, n2], ?_⟩
    intro i hi
    rw [List.any_append, ← e1 i hi, ← e2 i hi]
    simp only [borT, List.getD_eq_getElem?_getD, List.getElem?_zipWith]
    have h1 : i < r₁.length := by omega
    have h2 : i < r₂.length := by omega
    simp [List.getElem?_eq_getElem h1, List.getElem?_eq_getElem h2]

theorem chunks_len (bs : Nat) (hbs : 1 ≤ bs) : ∀ (k : Nat) (l : Bits), l.length = k * bs → ∀ c ∈ chunks bs l, c.length = bs := by
  intro k
  induction k with
  | zero => intro l h; have : l = [] := by simpa using h
            subst this; simp [chunks, batchArgs, batchArgsF]
  | succ k ih =>
    intro l h c hc
    have hne : l ≠ [] := by
      intro h0; subst h0; simp [Nat.succ_mul] at h; omega
    rw [chunks_cons bs hbs l hne] at hc
    simp only [List.mem_cons] at hc
    rcases hc with rfl | hc
    · simp [h, Nat.succ_mul]
    · exact ih (l.drop bs) (by simp [h, Nat.succ_mul]) c hc

/-- `select_batch`: bit i of the result = OR over the batches j whose selector bit is set of input bit j*bs+i -/
theorem selectBatch_eq (input sel : Bits) (bs : Nat) (hbs : 1 ≤ bs) (hs : sel ≠ []) (hlen : input.length = sel.length * bs) :
    selectBatch input sel bs = some (selectBatchSpec input sel bs) := by
  unfold selectBatch
  simp only [hlen, ne_eq, not_true_eq_false, if_false, Option.bind_eq_bind]
  rw [stretchM_eq sel bs hbs hs]
  have hstl : (stretchSpec sel bs).length = sel.length * bs := by
    simp only [stretchSpec]
    clear hlen hs
    induction sel with
    | nil => simp
    | cons s r ih => simp [List.flatMap_cons, ih, Nat.succ_mul]; omega
  simp only [Option.bind_some, band, hlen, hstl, if_true]
  have hml : (List.zipWith and input (stretchSpec sel bs)).length = sel.length * bs := by simp [hlen, hstl]
  rw [batched_eq_chunks _ bs false hbs (Or.inr (by rw [hml]; exact Nat.mul_mod_left _ _))]
  simp only [Option.bind_some]
  have hk : 0 < sel.length := List.length_pos_iff.mpr hs
  have hcne : chunks bs (List.zipWith and input (stretchSpec sel bs)) ≠ [] := by
    apply chunks_ne_nil
    intro h0; rw [h0] at hml; simp at hml
    have : 0 < sel.length * bs := Nat.mul_pos hk (by omega)
    omega
  obtain ⟨r, hr, ht⟩ := batchedFold_tree borT 2 _ (by omega) hcne
  rw [hr]
  obtain ⟨hrl, hre⟩ := borT_tree bs ht (chunks_len bs hbs sel.length _ hml)
  congr 1
  apply List.ext_getElem
  · simp [selectBatchSpec, hrl]
  · intro i h1 h2
    have hi : i < bs := by omega
    have := hre i hi
    rw [List.getD_eq_getElem?_getD, List.getElem?_eq_getElem h1] at this
    simp only [Option.getD_some] at this
    rw [this, chunks_any bs i hbs hi sel.length _ hml]
    simp only [selectBatchSpec, List.getElem_map, List.getElem_range]
    refine List.any_congr rfl ?_
    intro j
    rw [zipWith_and_getD, stretch_getD bs i hi sel j, Bool.and_comm]

end CohdlVerif.C18
