import CohdlVerif.Lemmas.C01W4

/-! C01 - general grammar: `While`, the blocks that leave the loop simulate the continuation -/
namespace CohdlVerif.C01

theorem CSt.addfrontAll_bad (t : Nat) : ∀ (bs : List Nat) (s : CSt), (s.addfrontAll bs t).bad = s.bad := by
  intro bs
  induction bs with
  | nil => intro s; rfl
  | cons b bs ih => intro s; simp only [CSt.addfrontAll, List.foldl_cons] at ih ⊢; rw [ih]; rfl

/-- nothing listed by the body is among its open blocks, and the three lists are disjoint and duplicate free -/
theorem FPost.lists {s s' : CSt} {O' : List Nat} (h : FPost s O' s') :
    (dB s s').Nodup ∧ (dC s s').Nodup ∧ (dR s s').Nodup ∧
    (∀ y ∈ dB s s', y ∉ O' ∧ y ∉ dC s s' ∧ y ∉ dR s s') ∧ (∀ y ∈ dC s s', y ∉ O' ∧ y ∉ dB s s' ∧ y ∉ dR s s') ∧
    (∀ y ∈ dR s s', y ∉ O' ∧ y ∉ dB s s' ∧ y ∉ dC s s') := by
  have hc := fun a => (List.nodup_iff_count.mp h.1) a
  simp only [Outs, List.count_append] at hc
  refine ⟨?_, ?_, ?_, ?_, ?_, ?_⟩
  · rw [List.nodup_iff_count]; intro a; have := hc a; omega
  · rw [List.nodup_iff_count]; intro a; have := hc a; omega
  · rw [List.nodup_iff_count]; intro a; have := hc a; omega
  all_goals
    intro y hy
    have h1 := List.count_pos_iff.mpr hy
    have := hc y
    refine ⟨fun hm => ?_, fun hm => ?_, fun hm => ?_⟩ <;> (have := List.count_pos_iff.mpr hm; omega)

section
variable {σ : Type} (act : Nat → σ → σ) (cond : Nat → σ → Bool)
variable (prog : Stmt) (Hf : Nat → Blk) (E : Nat → σ → σ × Option Nat) (Rf : Nat → Nat) (Sf : List Nat)

/-- where the blocks that are open after the loop come from -/
theorem wOk_cases (cc : Option Nat) (b : Stmt) (O : List Nat) (s : CSt) (y : Nat) (hy : y ∈ wOk cc b O s) :
    y = (wCl cc b O s).2.next ∨ y ∈ (wCl cc b O s).1 ∨ y ∈ (wS3 b O s).brk := by
  cases cc with
  | none => simp only [wOk, wRb, List.mem_append] at hy; exact Or.inr hy
  | some c' =>
    simp only [wOk, wRb, List.mem_cons, List.mem_append] at hy
    rcases hy with h | h | h
    · exact Or.inl h
    · exact Or.inr (Or.inl h)
    · exact Or.inr (Or.inr h)

/-- the continuation of the loop: every block that is open after the loop simulates `k` -/
theorem while_ck (cc : Option Nat) (b k : Stmt) (l : Bool) (ihk : SimG act cond prog Hf E Rf Sf k l)
    (st : List Frame) (O : List Nat) (s : CSt) (m : Nat) (R0 : List Nat) (P' : Nat → Prop)
    (X : WCtx cc b O s) (Z : WEnd cc b k O s Hf P') (hi : Inv s O) (hsi : SInv s)
    (hne : ∀ y ∈ wOk cc b O s, y ∉ dR s (wS4 b O s) ∧ s.next ≤ y)
    (hbad : (compile k (wOk cc b O s) (wSX cc b O s)).2.bad = false)
    (hF : Fut Hf Rf Sf (compile k (wOk cc b O s) (wSX cc b O s)).2 P')
    (hP' : ∀ y, P' y → y < (compile k (wOk cc b O s) (wSX cc b O s)).2.next → (y ∈ O ∨ s.next ≤ y) →
      y ∈ Outs s (compile k (wOk cc b O s) (wSX cc b O s)).1 (compile k (wOk cc b O s) (wSX cc b O s)).2)
    (hp : Prems act cond prog Hf E Rf Sf m R0 st s (compile k (wOk cc b O s) (wSX cc b O s))) :
    ∀ o ∈ wOk cc b O s, TailSim2 act cond prog Hf E Rf Sf (lvl Rf R0 m o) o ((wSX cc b O s).heap o).items k st false := by
  have hlw := X.W.hlt hi.hlt
  obtain ⟨XF, _, _, _, _, _, _, _⟩ := wSX_facts cc b O s hlw X.A5
  have hsiX := (hsi.step X.W hi.hlt.2).step XF hlw.2
  have := ihk st (wOk cc b O s) (wSX cc b O s) m R0 P' Z.hix hsiX (fun _ => Z.AX) hbad hF
    (by
      intro y hy hlt hr
      have hs4 : (wS4 b O s).next ≤ (wSX cc b O s).next := Nat.le_trans Z.n5 Z.nX
      have h1 := hP' y hy hlt (by
        rcases hr with h | h
        · exact Or.inr (hne y h).2
        · right
          have := X.W.next_le
          omega)
      rw [mem_Outs, Z.dBk, Z.dCk, Z.dRk] at h1
      simp only [List.mem_append] at h1
      rw [mem_Outs]
      rcases h1 with h | h | h | h | h
      · exact Or.inl h
      · exact Or.inr (Or.inl h)
      · exact Or.inr (Or.inr (Or.inl h))
      · exfalso
        rcases hr with h' | h'
        · exact (hne y h').1 h
        · have hl : y < (wS4 b O s).next := by
            rw [← X.ret_eq] at h
            rw [X.next4]
            exact InR.lt X.hi1.hlt.1 X.B.next_le (X.B.dR_spec.2 y h)
          omega
      · exact Or.inr (Or.inr (Or.inr h)))
    ⟨hp.op, by rw [← Z.dBk]; exact hp.br, by rw [← Z.dCk]; exact hp.co,
      fun o' ho' => hp.re o' (by rw [Z.dRk]; simp [ho'])⟩
  rwa [Z.AX] at this

end
end CohdlVerif.C01
