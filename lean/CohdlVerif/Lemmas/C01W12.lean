import CohdlVerif.Lemmas.C01W11

/-! C01 - general grammar: `While` as the first statement, `While` in general -/
namespace CohdlVerif.C01

theorem wS1_start (s : CSt) (hsi : SInv s) (h0 : 0 < s.next) (hst : s.atStart = true) :
    wIdx [0] s = 0 ∧ wHb [0] s = 0 ∧ wBody [0] s = s.next ∧ (wS1 [0] s).next = s.next + 1 ∧
    (wS1 [0] s).states = s.states ∧ (wS1 [0] s).heap 0 = { front := [], items := [.nop] } ∧
    (wS1 [0] s).root s.next = 0 ∧ (wS1 [0] s).root 0 = 0 := by
  have hw0 : wS0 [0] s = s.append 0 .nop := by simp [wS0, wHb, hst, enterState_start [0] s hst]
  have hbody : wBody [0] s = s.next := by rw [wBody, hw0]; rfl
  have hne : (0 : Nat) ≠ s.next := by omega
  refine ⟨by simp [wIdx, enterState_start [0] s hst], by simp [wHb, enterState_start [0] s hst], hbody, ?_, ?_, ?_, ?_, ?_⟩
  · simp [wS1, CSt.newBlock, hw0, CSt.append]
  · simp [wS1, CSt.newBlock, hw0, CSt.append]
  · simp [wS1, CSt.newBlock, hw0, CSt.append, hne, atStart_heap0 hst]
  · simp [wS1, CSt.newBlock, hw0, CSt.append, wHb, enterState_start [0] s hst, hsi.root0]
  · simp [wS1, CSt.newBlock, hw0, CSt.append, hne, hsi.root0]

section
variable {σ : Type} (act : Nat → σ → σ) (cond : Nat → σ → Bool)
variable (prog : Stmt) (Hf : Nat → Blk) (E : Nat → σ → σ × Option Nat) (Rf : Nat → Nat) (Sf : List Nat)

theorem lvl_congr (R0 : List Nat) (m x y : Nat) (h : Rf x = Rf y) : lvl Rf R0 m x = lvl Rf R0 m y := by
  simp [lvl, h]

theorem simG_while_start (hE : ∀ b s, E b s = execB act cond E (Hf b) s) (cc : Option Nat) (b k : Stmt) (l c : Bool)
    (hb : CSpec (compile b) true c) (hk : CSpec (compile k) l c) (fb : FwdG (compile b) true)
    (bk : BadMono (compile k))
    (ihb : SimG act cond prog Hf E Rf Sf b true) (ihk : SimG act cond prog Hf E Rf Sf k l)
    (st : List Frame) (s : CSt) (m : Nat) (R0 : List Nat) (P' : Nat → Prop)
    (hi : Inv s [0]) (hsi : SInv s) (hst : s.atStart = true)
    (hbad : (compile (.while_ cc b k) [0] s).2.bad = false)
    (hF : Fut Hf Rf Sf (compile (.while_ cc b k) [0] s).2 P')
    (hP' : ∀ y, P' y → y < (compile (.while_ cc b k) [0] s).2.next → (y ∈ [0] ∨ s.next ≤ y) →
      y ∈ Outs s (compile (.while_ cc b k) [0] s).1 (compile (.while_ cc b k) [0] s).2)
    (hp : Prems act cond prog Hf E Rf Sf m R0 st s (compile (.while_ cc b k) [0] s)) :
    TailSim2 act cond prog Hf E Rf Sf (lvl Rf R0 m 0) 0 (s.heap 0).items (.while_ cc b k) st true := by
  rw [compile_while] at hbad hF hP' hp
  have h0 : 0 < s.next := hi.hlt.2
  obtain ⟨f1, f2, f3, f4, f5, f6, f7, f8⟩ := wS1_start s hsi h0 hst
  obtain ⟨X, Hhb, _, hBody, CKk, hroot1, hS1, hex⟩ := while_sem act cond prog Hf E Rf Sf hE cc b k l c hb hk fb bk
    ihb ihk st [0] s m R0 P' hi hsi hbad hF hP' hp (Or.inl (by rw [f2]; simp))
  rw [f2] at Hhb
  rw [f6] at Hhb
  have hS0 : Sf[0]? = some 0 := by
    obtain ⟨tl, htl⟩ := hsi.states0
    rw [prefix_getElem? hS1 0 (by rw [f5, htl]; simp), f5, htl]; rfl
  have hR0 : Rf 0 = 0 := by rw [hroot1 0 (by omega), f8]
  have hRb : Rf (wBody [0] s) = Rf 0 := by rw [f3, hroot1 _ (by omega), f7, hR0]
  have hc0 : cur Rf Sf 0 = 0 := by
    obtain ⟨tl, htl⟩ := hsi.states0
    obtain ⟨t, ht⟩ := hS1
    rw [cur, hR0, ← ht, f5, htl]; simp
  have hcb : cur Rf Sf (wBody [0] s) = wIdx [0] s := by rw [cur, hRb, f1]; exact hc0
  have hEh := E_head act cond Hf E hE cc b [0] s [.nop] (Or.inr rfl) (by rw [f2]; exact Hhb)
  rw [f2] at hEh
  have hhead := head_state_sim2 act cond prog Hf E Rf Sf cc b k st (wIdx [0] s) 0 (wBody [0] s) (wEx cc b [0] s)
    (by rw [f1]; exact hS0) hEh (E_tailF act cond Hf E hE _) (E_tailF act cond Hf E hE _) hcb (lvl Rf R0 m 0 - 1)
    (fun j hj hH => hBody j (lvl_new_le Rf R0 _ m 0 j hj) hH)
    (by
      intro j hj ⟨s0, h0'⟩
      cases cc with
      | none => simp [evalC] at h0'
      | some c' =>
        obtain ⟨_, hx0⟩ := hex c' rfl
        have h1 := CKk (wCl (some c') b [0] s).2.next (by simp [wOk])
        rw [hx0] at h1
        refine TailSim2_mono_le act cond prog Hf E Rf Sf _ _ _ ?_ _ _ _ _ h1
        have := lvl_le Rf R0 m 0
        have := lvl_ge Rf R0 m (wCl (some c') b [0] s).2.next
        show j ≤ lvl Rf R0 m (wEx (some c') b [0] s)
        simp only [wEx]; omega)
  intro suf hsuf s0
  rw [Hhb, atStart_heap0 hst] at hsuf
  have : suf = [.nop] ++ [wItem cc b [0] s] := by simpa using hsuf.symm
  subst this
  have htl : tailF act cond Hf E 0 ([.nop] ++ [wItem cc b [0] s]) s0 = E 0 s0 := by
    rw [E_tailF act cond Hf E hE 0, Hhb]
  rw [htl, hEh, hc0]
  cases hcc : evalC cond cc s0 with
  | true =>
    simp only [if_true]
    have hH := hhead (lvl Rf R0 m 0 - 1) (Nat.le_refl _)
    have h1 := hBody (lvl Rf R0 m 0) (lvl_same_le Rf R0 m 0 (wBody [0] s) _ hRb (Nat.le_refl _)) hH
      (Hf (wBody [0] s)).items (by simp) s0
    rw [← E_tailF act cond Hf E hE _, hcb, f1] at h1
    exact SimPt2_pull act cond prog E Sf (RunTo.while_fresh_true act cond cc b k st s0 hcc) (fun h => by cases h) h1
  | false =>
    simp only [Bool.false_eq_true, if_false]
    cases cc with
    | none => simp [evalC] at hcc
    | some c' =>
      obtain ⟨hxr, hx0⟩ := hex c' rfl
      have h1 := CKk (wCl (some c') b [0] s).2.next (by simp [wOk])
      rw [hx0, lvl_congr Rf R0 m _ 0 (by rw [hxr, f2])] at h1
      have h2 := h1 (Hf (wCl (some c') b [0] s).2.next).items (by simp) s0
      rw [← E_tailF act cond Hf E hE _] at h2
      exact SimPt2_pull act cond prog E Sf (RunTo.while_fresh_false act cond (some c') b k st s0 hcc) (fun h => by cases h)
        (SimPt2_cur act cond prog E Sf h2)

theorem simG_while (hE : ∀ b s, E b s = execB act cond E (Hf b) s) (cc : Option Nat) (b k : Stmt) (l c : Bool)
    (hb : CSpec (compile b) true c) (hk : CSpec (compile k) l c) (fb : FwdG (compile b) true)
    (bk : BadMono (compile k))
    (ihb : SimG act cond prog Hf E Rf Sf b true) (ihk : SimG act cond prog Hf E Rf Sf k l) :
    SimG act cond prog Hf E Rf Sf (.while_ cc b k) l := by
  intro st O s m R0 P' hi hsi hL hbad hF hP' hp o ho
  cases hst : s.atStart with
  | false =>
    exact simG_while_ns act cond prog Hf E Rf Sf hE cc b k l c hb hk fb bk ihb ihk st O s m R0 P' hi hsi hst hbad hF hP' hp o ho
  | true =>
    have hO := hi.start hst
    subst hO
    have ho0 : o = 0 := by simpa using ho
    subst ho0
    exact simG_while_start act cond prog Hf E Rf Sf hE cc b k l c hb hk fb bk ihb ihk st s m R0 P' hi hsi hst hbad hF hP' hp

end
end CohdlVerif.C01
