import CohdlVerif.Lemmas.C19Bits

/-! C19: UFixed `_resize_overlapping`, branch by branch (part 1) -/

namespace CohdlVerif.C19

theorem emod_rangeU (x n : Int) : inRangeU n (x % p2 n) :=
  ⟨Int.emod_nonneg x (ne_of_gt (p2_pos n)), Int.emod_lt_of_pos x (p2_pos n)⟩

theorem overflowU_id (tw q : Int) (os : Ovf) (h : inRangeU tw q) : overflowU tw q os = q := by
  cases os with
  | wrap => exact Int.emod_eq_of_lt h.1 h.2
  | saturate => exact clamp_id _ _ _ h.1 (by unfold hiU; have := h.2; omega)

theorem hmaxU (tw : Int) : inRangeU tw (p2 tw - 1) := by
  have := p2_pos tw; unfold inRangeU; omega

/-- `v / m ≠ 0` for `0 ≤ v` means `m ≤ v` -/
theorem ediv_ne_zero_iff (v m : Int) (hv : 0 ≤ v) (hm : 0 < m) : (v / m != 0) = decide (m ≤ v) := by
  by_cases h : m ≤ v
  · have : 1 ≤ v / m := by
      have := (Int.le_ediv_iff_mul_le hm (a := 1) (b := v)).mpr (by omega); exact this
    simp [h]; omega
  · have : v / m = 0 := Int.ediv_eq_zero_of_lt hv (by omega)
    simp [h, this]

/-! ## UFixed core, branch by branch (formats overlap: `r' ≤ l`, `r ≤ l'`) -/

theorem coreU_ext (l r v l' r' : Int) (rs : Round) (os : Ovf) (hlr : r ≤ l)
    (hv : inRangeU (l - r + 1) v) (hl : l ≤ l') (hr : r' ≤ r) :
    resizeUCore l r v l' r' rs os = .ok (v * p2 (r - r')) := by
  have hmax := hmaxU (l' - r' + 1)
  unfold resizeUCore; dsimp only
  rw [mkU_ok _ v (by omega) hv.1 hv.2, mkU_ok _ _ (by omega) hmax.1 hmax.2]
  simp only [bind, Except.bind, pure, Except.pure]
  rw [if_neg (by omega), if_pos (by omega), uResize_ok _ v _ _ (by omega) (by omega) (by omega) hv]
  simp only [resultRaw, ↓reduceIte]

theorem specU_ext (l r v l' r' : Int) (rs : Round) (os : Ovf) (hlr : r ≤ l)
    (hv : inRangeU (l - r + 1) v) (hl : l ≤ l') (hr : r' ≤ r) :
    specResizeU r v l' r' rs os = v * p2 (r - r') := by
  have hz := inRangeU_mono _ (l' - r' + 1) _ (by omega) (by omega) (scaleU _ (r - r') v (by omega) (by omega) hv)
  unfold specResizeU quantize
  rw [if_pos (by omega)]
  exact overflowU_id _ _ os hz

theorem coreU_ovf_wrap (l r v l' r' : Int) (rs : Round) (hv : inRangeU (l - r + 1) v)
    (hl : l' < l) (hr : r' ≤ r) (hov : r ≤ l') :
    resizeUCore l r v l' r' rs .wrap = .ok (specResizeU r v l' r' rs .wrap) := by
  have hmax := hmaxU (l' - r' + 1)
  have ha := emod_rangeU v (l' - r + 1)
  unfold resizeUCore; dsimp only
  rw [mkU_ok _ v (by omega) hv.1 hv.2, mkU_ok _ _ (by omega) hmax.1 hmax.2]
  simp only [bind, Except.bind, pure, Except.pure]
  rw [if_pos (by omega), if_pos (by omega), if_neg (by omega)]
  rw [lsbRest_eq _ _ _ (l' - r + 1) (by omega) (by omega) (by omega)]
  try dsimp only
  rw [uResize_ok _ _ _ _ (by omega) (by omega) (by omega) ha]
  simp only [resultRaw]
  rw [if_pos (by omega)]
  unfold specResizeU quantize overflowU
  rw [if_pos (by omega)]
  try dsimp only
  rw [p2_split (l' - r' + 1) (r - r') (by omega) (by omega), show l' - r' + 1 - (r - r') = l' - r + 1 by omega,
    Int.mul_comm v, Int.mul_emod_mul_of_pos _ _ (p2_pos _), Int.mul_comm]

theorem coreU_ovf_sat (l r v l' r' : Int) (rs : Round) (hv : inRangeU (l - r + 1) v)
    (hl : l' < l) (hr : r' ≤ r) (hov : r ≤ l') :
    resizeUCore l r v l' r' rs .saturate = .ok (specResizeU r v l' r' rs .saturate) := by
  have hmax := hmaxU (l' - r' + 1)
  have ha := emod_rangeU v (l' - r + 1)
  have hsc := inRangeU_mono _ (l' - r' + 1) _ (by omega) (by omega) (scaleU _ (r - r') _ (by omega) (by omega) ha)
  have hk := p2_pos (r - r')
  have hm := p2_pos (l' - r + 1)
  have hP := p2_split (l' - r' + 1) (r - r') (by omega) (by omega)
  rw [show l' - r' + 1 - (r - r') = l' - r + 1 by omega] at hP
  unfold resizeUCore; dsimp only
  rw [mkU_ok _ v (by omega) hv.1 hv.2, mkU_ok _ _ (by omega) hmax.1 hmax.2]
  simp only [bind, Except.bind, pure, Except.pure]
  rw [if_pos (by omega)]
  try dsimp only
  rw [left_eq _ _ _ (l' - r + 1) (by omega) (by omega) (by omega)]
  try dsimp only
  rw [if_pos (by omega), if_neg (by omega)]
  try simp only [bind, Except.bind]
  rw [lsbRest_eq _ _ _ (l' - r + 1) (by omega) (by omega) (by omega)]
  try dsimp only
  rw [uResize_ok _ _ _ _ (by omega) (by omega) (by omega) ha]
  try dsimp only
  unfold specResizeU quantize overflowU
  rw [if_pos (by omega)]
  try dsimp only
  simp only [choose2, BV.any, ediv_ne_zero_iff v _ hv.1 hm, Bool.false_eq_true, ↓reduceIte]
  by_cases hge : p2 (l' - r + 1) ≤ v
  · simp only [hge, decide_true, ↓reduceIte]
    rw [uFromU_ok _ _ _ (by omega) (le_refl _) hmax]
    simp only [resultRaw, ↓reduceIte]
    unfold clamp hiU
    have : p2 (l' - r' + 1) ≤ v * p2 (r - r') := by rw [hP]; nlinarith
    have h0 : 0 ≤ v * p2 (r - r') := mul_nonneg hv.1 (le_of_lt hk)
    rw [if_neg (by omega), if_pos (by omega)]
  · simp only [hge, decide_false, Bool.false_eq_true, ↓reduceIte]
    have hvm : v % p2 (l' - r + 1) = v := Int.emod_eq_of_lt hv.1 (by omega)
    rw [hvm] at hsc ⊢
    rw [uFromU_ok _ _ _ (by omega) (le_refl _) hsc]
    simp only [resultRaw, ↓reduceIte]
    rw [clamp_id _ _ _ hsc.1 (by unfold hiU; have := hsc.2; omega)]


theorem ediv_rangeU (v w c : Int) (hc : 0 ≤ c) (hcw : c ≤ w) (h : inRangeU w v) : inRangeU (w - c) (v / p2 c) := by
  have hk := p2_pos c
  refine ⟨Int.ediv_nonneg h.1 (le_of_lt hk), ?_⟩
  rw [Int.ediv_lt_iff_lt_mul hk, Int.mul_comm, ← p2_split w c hc hcw]
  exact h.2

theorem coreU_ovf_cut_trunc_wrap (l r v l' r' : Int) (hv : inRangeU (l - r + 1) v)
    (hl : l' < l) (hr : r < r') (ht : r' ≤ l') :
    resizeUCore l r v l' r' .truncate .wrap = .ok (specResizeU r v l' r' .truncate .wrap) := by
  have hmax := hmaxU (l' - r' + 1)
  unfold resizeUCore; dsimp only
  rw [mkU_ok _ v (by omega) hv.1 hv.2, mkU_ok _ _ (by omega) hmax.1 hmax.2]
  simp only [bind, Except.bind, pure, Except.pure]
  rw [if_pos (by omega), if_neg (by omega)]
  rw [lsbRest_eq _ _ _ (l' - r + 1) (by omega) (by omega) (by omega)]
  try dsimp only
  rw [msbRest_eq _ _ _ (l' - r' + 1) (by omega) (by omega) (by omega)]
  try dsimp only
  rw [emod_ediv_p2 v _ _ (by omega) (by omega), show l' - r + 1 - (r' - r) = l' - r' + 1 by omega]
  rw [uFromU_ok _ _ _ (by omega) (le_refl _) (emod_rangeU _ _)]
  simp only [resultRaw, ↓reduceIte]
  unfold specResizeU quantize overflowU
  rw [if_neg (by omega)]

theorem coreU_ovf_cut_trunc_sat (l r v l' r' : Int) (hv : inRangeU (l - r + 1) v)
    (hl : l' < l) (hr : r < r') (ht : r' ≤ l') :
    resizeUCore l r v l' r' .truncate .saturate = .ok (specResizeU r v l' r' .truncate .saturate) := by
  have hmax := hmaxU (l' - r' + 1)
  have hk := p2_pos (r' - r)
  have hm := p2_pos (l' - r + 1)
  have hP := p2_split (l' - r + 1) (r' - r) (by omega) (by omega)
  rw [show l' - r + 1 - (r' - r) = l' - r' + 1 by omega] at hP
  unfold resizeUCore; dsimp only
  rw [mkU_ok _ v (by omega) hv.1 hv.2, mkU_ok _ _ (by omega) hmax.1 hmax.2]
  simp only [bind, Except.bind, pure, Except.pure]
  rw [if_pos (by omega)]
  try dsimp only
  rw [left_eq _ _ _ (l' - r + 1) (by omega) (by omega) (by omega)]
  try dsimp only
  rw [if_neg (by omega)]
  try dsimp only
  rw [lsbRest_eq _ _ _ (l' - r + 1) (by omega) (by omega) (by omega)]
  try dsimp only
  rw [msbRest_eq _ _ _ (l' - r' + 1) (by omega) (by omega) (by omega)]
  try dsimp only
  unfold specResizeU quantize overflowU
  rw [if_neg (by omega)]
  try dsimp only
  simp only [choose2, BV.any, ediv_ne_zero_iff v _ hv.1 hm, Bool.false_eq_true, ↓reduceIte]
  by_cases hge : p2 (l' - r + 1) ≤ v
  · simp only [hge, decide_true, ↓reduceIte]
    rw [uFromU_ok _ _ _ (by omega) (le_refl _) hmax]
    simp only [resultRaw, ↓reduceIte]
    unfold clamp hiU
    have : p2 (l' - r' + 1) ≤ v / p2 (r' - r) := by
      rw [Int.le_ediv_iff_mul_le hk, Int.mul_comm, ← hP]; exact hge
    have h0 : 0 ≤ v / p2 (r' - r) := Int.ediv_nonneg hv.1 (le_of_lt hk)
    rw [if_neg (by omega), if_pos (by omega)]
  · simp only [hge, decide_false, Bool.false_eq_true, ↓reduceIte]
    have hvm : v % p2 (l' - r + 1) = v := Int.emod_eq_of_lt hv.1 (by omega)
    have hq := ediv_rangeU v (l' - r + 1) (r' - r) (by omega) (by omega) ⟨hv.1, by omega⟩
    rw [show l' - r + 1 - (r' - r) = l' - r' + 1 by omega] at hq
    rw [hvm, uFromU_ok _ _ _ (by omega) (le_refl _) hq]
    simp only [resultRaw, ↓reduceIte]
    rw [clamp_id _ _ _ hq.1 (by unfold hiU; have := hq.2; omega)]

theorem coreU_cut_trunc (l r v l' r' : Int) (os : Ovf) (hv : inRangeU (l - r + 1) v)
    (hl : l ≤ l') (hr : r < r') (ht : r' ≤ l) :
    resizeUCore l r v l' r' .truncate os = .ok (specResizeU r v l' r' .truncate os) := by
  have hmax := hmaxU (l' - r' + 1)
  have hq := ediv_rangeU v (l - r + 1) (r' - r) (by omega) (by omega) hv
  rw [show l - r + 1 - (r' - r) = l - r' + 1 by omega] at hq
  have hq0 : inRangeU (l - r' + 1) (v / p2 (r' - r) * p2 0) := by rw [p2_zero, Int.mul_one]; exact hq
  have hq' := inRangeU_mono _ (l' - r' + 1) _ (by omega) (by omega) hq0
  unfold resizeUCore; dsimp only
  rw [mkU_ok _ v (by omega) hv.1 hv.2, mkU_ok _ _ (by omega) hmax.1 hmax.2]
  simp only [bind, Except.bind, pure, Except.pure]
  rw [if_neg (by omega), if_neg (by omega)]
  try dsimp only
  rw [msbRest_eq _ _ _ (l - r' + 1) (by omega) (by omega) (by omega)]
  try dsimp only
  rw [uResize_ok _ _ _ _ (by omega) (by omega) (by omega) hq]
  try dsimp only
  rw [uFromU_ok _ _ _ (by omega) (le_refl _) hq']
  simp only [resultRaw, ↓reduceIte]
  unfold specResizeU quantize
  rw [if_neg (by omega)]
  try dsimp only
  rw [p2_zero, Int.mul_one] at hq' ⊢
  rw [overflowU_id _ _ os hq']

theorem coreU_ovf_cut_round_wrap (l r v l' r' : Int) (hv : inRangeU (l - r + 1) v)
    (hl : l' < l) (hr : r < r') (ht : r' ≤ l') :
    resizeUCore l r v l' r' .round .wrap = .ok (specResizeU r v l' r' .round .wrap) := by
  have hmax := hmaxU (l' - r' + 1)
  unfold resizeUCore; dsimp only
  rw [mkU_ok _ v (by omega) hv.1 hv.2, mkU_ok _ _ (by omega) hmax.1 hmax.2]
  simp only [bind, Except.bind, pure, Except.pure]
  rw [if_pos (by omega), if_neg (by omega)]
  try dsimp only
  rw [doRound_eq _ _ _ (by omega) (by omega)]
  try dsimp only
  rw [lsbRest_eq _ _ _ (l' - r + 1) (by omega) (by omega) (by omega)]
  try dsimp only
  rw [msbRest_eq _ _ _ (l' - r' + 1) (by omega) (by omega) (by omega)]
  try dsimp only
  simp only [uAdd, max_eq_left (show (1:Int) ≤ l' - r' + 1 by omega)]
  rw [emod_ediv_p2 v _ _ (by omega) (by omega), show l' - r + 1 - (r' - r) = l' - r' + 1 by omega,
    Int.emod_add_emod]
  rw [uFromU_ok _ _ _ (by omega) (le_refl _) (emod_rangeU _ _)]
  simp only [resultRaw, ↓reduceIte]
  unfold specResizeU quantize overflowU
  rw [if_neg (by omega)]
  try dsimp only
  rw [roundEven_eq]

end CohdlVerif.C19
