import CohdlVerif.Lemmas.FifoLemmas

/-! C14 extension - helper lemmas: `std.Stack` (both modes) refines the abstract `Lifo` -/
namespace CohdlVerif.C14

/-- every count `0..N` is representable in the counter type `Unsigned.upto(N)` -/
theorem lt_pow_stackW (N : Nat) : N < 2 ^ stackW N := by
  unfold stackW uptoWidth bitLength
  by_cases h : N = 0
  · simp [h]
  · simp only [h, if_false]
    exact Nat.lt_log2_self

theorem stackNext_no (N i : Nat) (h : i < N) : stackNext .noOverflow N i = i + 1 := by
  have := lt_pow_stackW N
  simp only [stackNext]
  exact Nat.mod_eq_of_lt (by omega)

theorem wrap_pred (W i : Nat) (h1 : 1 ≤ i) (h2 : i < W) : (i + W - 1) % W = i - 1 := by
  have : i + W - 1 = (i - 1) + W := by omega
  rw [this, Nat.add_mod_right]
  exact Nat.mod_eq_of_lt (by omega)

theorem stackPrev_no (N i : Nat) (h1 : 1 ≤ i) (h : i ≤ N) : stackPrev .noOverflow N i = i - 1 := by
  have := lt_pow_stackW N
  simp only [stackPrev]
  exact wrap_pred _ i h1 (by omega)

theorem stackNext_drop (N i : Nat) (h : i < N) :
    stackNext .dropOld N i = if i + 1 < N then i + 1 else 0 := by
  have := lt_pow_stackW N
  simp only [stackNext]
  by_cases h2 : i + 1 < N
  · have : i ≠ N - 1 := by omega
    simp only [this, ne_eq, not_false_eq_true, if_true, h2]
    exact Nat.mod_eq_of_lt (by omega)
  · have : i = N - 1 := by omega
    simp [this]; omega

theorem stackPrev_drop (N i : Nat) (h : i < N) :
    stackPrev .dropOld N i = if i = 0 then N - 1 else i - 1 := by
  have := lt_pow_stackW N
  simp only [stackPrev]
  by_cases h2 : i = 0
  · simp [h2]
  · simp only [h2, if_false]
    exact wrap_pred _ i (by omega) (by omega)

/-! ## NO_OVERFLOW: `mem[0 .. idx-1]` is the stack, newest element at `idx-1` -/

structure SRelN (N : Nat) (s : Stack) (a : Lifo) : Prop where
  len : s.mem.length = N
  idx_eq : s.idx = a.st.length
  cap : a.st.length ≤ N
  elems : ∀ j, j < a.st.length → s.mem[s.idx - 1 - j]? = some a.st[j]?
  out_eq : s.dout = a.out

theorem srelN_init (N : Nat) : SRelN N (Stack.init N) ⟨[], none⟩ :=
  ⟨by simp [Stack.init], rfl, by simp, by intro j hj; simp at hj, rfl⟩

theorem srelN_step (N : Nat) (s : Stack) (a : Lifo) (op : SOp) (hR : SRelN N s a)
    (hl : a.legal .noOverflow N op = true) :
    SRelN N (s.step .noOverflow N op) (a.step .noOverflow N op) := by
  obtain ⟨hlen, hidx, hcap, hel, hout⟩ := hR
  cases op with
  | idle => exact ⟨hlen, hidx, hcap, hel, hout⟩
  | push v =>
    simp only [Lifo.legal, decide_eq_true_eq] at hl
    have hn := stackNext_no N s.idx (by omega)
    refine ⟨by simp [Stack.step, hlen], by simp only [Stack.step, Lifo.step, List.length_cons]; rw [hn, hidx], by simp [Lifo.step]; omega, ?_, hout⟩
    intro j hj
    simp only [Lifo.step, List.length_cons] at hj
    simp only [Stack.step, Lifo.step, hn, List.getElem?_set]
    cases j with
    | zero =>
      have : s.idx + 1 - 1 - 0 = s.idx := by omega
      simp [this, hlen]; omega
    | succ j =>
      have e : s.idx + 1 - 1 - (j + 1) = s.idx - 1 - j := by omega
      have hne : s.idx ≠ s.idx - 1 - j := by omega
      rw [e]
      simp [hne, hel j (by omega)]
  | pop =>
    simp only [Lifo.legal, decide_eq_true_eq] at hl
    have hpos : 0 < a.st.length := List.length_pos_iff.mpr hl
    have hp := stackPrev_no N s.idx (by omega) (by omega)
    refine ⟨hlen, by simp only [Stack.step, Lifo.step, List.length_tail]; rw [hp, hidx], by simp [Lifo.step]; omega, ?_, ?_⟩
    · intro j hj
      simp only [Lifo.step, List.length_tail] at hj
      simp only [Stack.step, Lifo.step, hp, List.getElem?_tail]
      have e : s.idx - 1 - 1 - j = s.idx - 1 - (j + 1) := by omega
      rw [e]; exact hel (j + 1) (by omega)
    · have h0 := hel 0 hpos
      simp only [Nat.sub_zero] at h0
      simp [Stack.step, Lifo.step, hp, List.getD_eq_getElem?_getD, h0, List.head?_eq_getElem?]
  | reset =>
    exact ⟨hlen, by simp [Stack.step, Lifo.step], by simp [Lifo.step], by intro j hj; simp [Lifo.step] at hj, hout⟩

theorem srelN_flags (N : Nat) (s : Stack) (a : Lifo) (hR : SRelN N s a) :
    s.count .noOverflow = a.st.length ∧ s.empty .noOverflow = (a.st.length == 0) ∧
    s.full .noOverflow N = (a.st.length == N) ∧ (a.st ≠ [] → s.front .noOverflow N = a.st.head?) ∧
    s.dout = a.out := by
  obtain ⟨hlen, hidx, hcap, hel, hout⟩ := hR
  refine ⟨hidx, by simp [Stack.empty, Stack.count, hidx], by simp [Stack.full, Stack.count, hidx], ?_, hout⟩
  intro hne
  have hpos : 0 < a.st.length := List.length_pos_iff.mpr hne
  have hp := stackPrev_no N s.idx (by omega) (by omega)
  have h0 := hel 0 hpos
  simp only [Nat.sub_zero] at h0
  simp [Stack.front, hp, List.getD_eq_getElem?_getD, h0, List.head?_eq_getElem?]

/-! ## DROP_OLD: ring buffer, `idx` = next write position, the `cnt` newest elements are valid -/

/-- position of the j-th newest element -/
def dpos (N idx j : Nat) : Nat := if j + 1 ≤ idx then idx - 1 - j else idx + N - 1 - j

structure SRelD (N : Nat) (s : Stack) (a : Lifo) : Prop where
  len : s.mem.length = N
  idx_lt : s.idx < N
  cnt_eq : s.cnt = a.st.length
  cap : a.st.length ≤ N
  elems : ∀ j, j < a.st.length → s.mem[dpos N s.idx j]? = some a.st[j]?
  out_eq : s.dout = a.out

theorem srelD_init (N : Nat) (hN : 1 ≤ N) : SRelD N (Stack.init N) ⟨[], none⟩ :=
  ⟨by simp [Stack.init], by simp [Stack.init]; omega, rfl, by simp, by intro j hj; simp at hj, rfl⟩

theorem srelD_step (N : Nat) (s : Stack) (a : Lifo) (op : SOp) (hR : SRelD N s a)
    (hl : a.legal .dropOld N op = true) :
    SRelD N (s.step .dropOld N op) (a.step .dropOld N op) := by
  obtain ⟨hlen, hidx, hcnt, hcap, hel, hout⟩ := hR
  have hw := lt_pow_stackW N
  cases op with
  | idle => exact ⟨hlen, hidx, hcnt, hcap, hel, hout⟩
  | push v =>
    have hn := stackNext_drop N s.idx hidx
    refine ⟨by simp [Stack.step, hlen], ?_, ?_, by simp [Lifo.step]; omega, ?_, hout⟩
    · simp only [Stack.step, hn]; split <;> omega
    · simp only [Stack.step, Lifo.step, List.length_take, List.length_cons]
      by_cases hf : s.cnt = N
      · simp only [hf, if_true]; omega
      · simp only [hf, if_false]
        rw [Nat.mod_eq_of_lt (by omega)]; omega
    · intro j hj
      simp only [Lifo.step, List.length_take, List.length_cons] at hj
      simp only [Stack.step, Lifo.step, hn, List.getElem?_set, List.getElem?_take]
      have hjN : j < N := by omega
      simp only [hjN, if_true]
      cases j with
      | zero =>
        have : dpos N (if s.idx + 1 < N then s.idx + 1 else 0) 0 = s.idx := by
          unfold dpos; split <;> split <;> omega
        simp [this, hlen, hidx]
      | succ j =>
        have e : dpos N (if s.idx + 1 < N then s.idx + 1 else 0) (j + 1) = dpos N s.idx j := by
          unfold dpos; split <;> split <;> split <;> omega
        have hne : s.idx ≠ dpos N s.idx j := by unfold dpos; split <;> omega
        rw [e]
        simp [hne, hel j (by omega)]
  | pop =>
    simp only [Lifo.legal, decide_eq_true_eq] at hl
    have hpos : 0 < a.st.length := List.length_pos_iff.mpr hl
    have hp := stackPrev_drop N s.idx hidx
    have h0 := hel 0 hpos
    have e0 : dpos N s.idx 0 = if s.idx = 0 then N - 1 else s.idx - 1 := by
      unfold dpos; split <;> split <;> omega
    refine ⟨hlen, ?_, ?_, by simp [Lifo.step]; omega, ?_, ?_⟩
    · simp only [Stack.step, hp]; split <;> omega
    · simp only [Stack.step, Lifo.step, List.length_tail]
      rw [wrap_pred _ s.cnt (by omega) (by omega)]; omega
    · intro j hj
      simp only [Lifo.step, List.length_tail] at hj
      simp only [Stack.step, Lifo.step, hp, List.getElem?_tail]
      have e : dpos N (if s.idx = 0 then N - 1 else s.idx - 1) j = dpos N s.idx (j + 1) := by
        unfold dpos; split <;> split <;> split <;> omega
      rw [e]; exact hel (j + 1) (by omega)
    · rw [e0] at h0
      simp [Stack.step, Lifo.step, hp, List.getD_eq_getElem?_getD, h0, List.head?_eq_getElem?]
  | reset =>
    exact ⟨hlen, by simp [Stack.step]; omega, by simp [Stack.step, Lifo.step], by simp [Lifo.step],
      by intro j hj; simp [Lifo.step] at hj, hout⟩

theorem srelD_flags (N : Nat) (s : Stack) (a : Lifo) (hR : SRelD N s a) :
    s.count .dropOld = a.st.length ∧ s.empty .dropOld = (a.st.length == 0) ∧
    s.full .dropOld N = (a.st.length == N) ∧ (a.st ≠ [] → s.front .dropOld N = a.st.head?) ∧
    s.dout = a.out := by
  obtain ⟨hlen, hidx, hcnt, hcap, hel, hout⟩ := hR
  refine ⟨hcnt, by simp [Stack.empty, Stack.count, hcnt], by simp [Stack.full, Stack.count, hcnt], ?_, hout⟩
  intro hne
  have hpos : 0 < a.st.length := List.length_pos_iff.mpr hne
  have hp := stackPrev_drop N s.idx hidx
  have h0 := hel 0 hpos
  have e0 : dpos N s.idx 0 = if s.idx = 0 then N - 1 else s.idx - 1 := by
    unfold dpos; split <;> split <;> omega
  rw [e0] at h0
  simp [Stack.front, hp, List.getD_eq_getElem?_getD, h0, List.head?_eq_getElem?]

/-! ## both modes -/

def SRel (m : Mode) (N : Nat) (s : Stack) (a : Lifo) : Prop :=
  match m with
  | .noOverflow => SRelN N s a
  | .dropOld => SRelD N s a

def runS (m : Mode) (N : Nat) : Stack → List SOp → Stack := List.foldl (Stack.step m N)
def runL (m : Mode) (N : Nat) : Lifo → List SOp → Lifo := List.foldl (Lifo.step m N)

/-- every prefix of the operation sequence respects the documented preconditions
    (NO_OVERFLOW: no push to a full stack; both modes: no pop from an empty stack) -/
def legalSeqS (m : Mode) (N : Nat) : Lifo → List SOp → Prop
  | _, [] => True
  | a, op :: ops => a.legal m N op = true ∧ legalSeqS m N (a.step m N op) ops

theorem srel_step (m : Mode) (N : Nat) (s : Stack) (a : Lifo) (op : SOp) (hR : SRel m N s a)
    (hl : a.legal m N op = true) : SRel m N (s.step m N op) (a.step m N op) := by
  cases m with
  | noOverflow => exact srelN_step N s a op hR hl
  | dropOld => exact srelD_step N s a op hR hl

end CohdlVerif.C14
