import CohdlVerif.Lemmas.C01G2

/-! C01 - general grammar: restricting and framing the forward invariant -/
namespace CohdlVerif.C01

theorem FPost.restrict {s s' : CSt} {O' O'' : List Nat} (h : FPost s O' s') (hn : O''.Nodup)
    (hsub : ∀ y ∈ O'', y ∈ O') : FPost s O'' s' := by
  constructor
  · rw [List.nodup_iff_count]
    intro a
    have c1 := (List.nodup_iff_count.mp h.1) a
    have c2 := (List.nodup_iff_count.mp hn) a
    simp only [Outs, List.count_append] at c1 ⊢
    by_cases ha : a ∈ O''
    · have := List.count_pos_iff.mpr (hsub a ha); omega
    · have := List.count_eq_zero.mpr ha; omega
  · intro y hy
    rcases mem_Outs.mp hy with h1 | h1
    · exact h.2 y (mem_Outs.mpr (Or.inl (hsub y h1)))
    · exact h.2 y (mem_Outs.mpr (Or.inr h1))

/-- a step on some of the open blocks leaves the other pending blocks `X` alone -/
theorem FPost.frame {s1 s' : CSt} {O1 O1' X : List Nat} (h : Step s1 O1 s' O1') (f : FPost s1 O1' s') (hX : X.Nodup)
    (hXl : ∀ x ∈ X, x < s1.next ∧ x ∉ O1 ∧ (s1.heap x).front = []) : FPost s1 (O1' ++ X) s' := by
  have hnew : ∀ a, a ∈ Outs s1 O1' s' → a ∈ O1 ∨ s1.next ≤ a := fun a ha =>
    (h.outs_r a ha).1.imp id (fun h => h.1)
  constructor
  · rw [List.nodup_iff_count]
    intro a
    have c1 := (List.nodup_iff_count.mp f.1) a
    have c2 := (List.nodup_iff_count.mp hX) a
    simp only [Outs, List.count_append] at c1 ⊢
    by_cases ha : a ∈ X
    · have ⟨hl, hn, _⟩ := hXl a ha
      have hz : a ∉ Outs s1 O1' s' := fun hm => by
        rcases hnew a hm with h | h
        · exact hn h
        · omega
      have hz' := List.count_eq_zero.mpr hz
      simp only [Outs, List.count_append] at hz'
      omega
    · have := List.count_eq_zero.mpr ha; omega
  · intro y hy
    rcases mem_Outs.mp hy with h1 | h1
    · rcases List.mem_append.mp h1 with h2 | h2
      · exact f.2 y (mem_Outs.mpr (Or.inl h2))
      · have ⟨hl, hn, hf⟩ := hXl y h2
        rw [h.frame y hl hn]; exact hf
    · exact f.2 y (mem_Outs.mpr (Or.inr h1))

/-- the framed step as a `Step` on the whole list -/
theorem Step.framed {s1 s' : CSt} {O1 O1' X : List Nat} (h : Step s1 O1 s' O1') (hX : ∀ x ∈ X, x < s1.next)
    (hO1 : ∀ o ∈ O1, o < s1.next) : Step s1 (O1 ++ X) s' (O1' ++ X) := by
  refine h.weaken (fun o ho => by simp [ho]) ?_
  intro o ho
  rcases List.mem_append.mp ho with h1 | h1
  · exact InR.weakenO (fun x hx => by simp [hx]) (h.open_r o h1)
  · exact InR.ofMem h (fun x hx => by
      rcases List.mem_append.mp hx with h2 | h2
      · exact hO1 x h2
      · exact hX x h2) (by simp [h1])

end CohdlVerif.C01
