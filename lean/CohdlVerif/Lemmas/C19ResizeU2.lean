import CohdlVerif.Lemmas.C19ResizeU

/-! C19: UFixed `_resize_overlapping` (part 2) and `resize_fn`: all branches, assembled -/

namespace CohdlVerif.C19

theorem coreU_ovf_cut_round_sat (l r v l' r' : Int) (hv : inRangeU (l - r + 1) v)
    (hl : l' < l) (hr : r < r') (ht : r' ≤ l') :
    resizeUCore l r v l' r' .round .saturate = .ok (specResizeU r v l' r' .round .saturate) := by
  have hmax := hmaxU (l' - r' + 1)
  have hk := p2_pos (r' - r)
  have hm := p2_pos (l' - r + 1)
  have hP := p2_split (l' - r + 1) (r' - r) (by omega) (by omega)
  rw [show l' - r + 1 - (r' - r) = l' - r' + 1 by omega] at hP
  have hd := roundInc_01 v (r' - r)
  have h0 : 0 ≤ v / p2 (r' - r) := Int.ediv_nonneg hv.1 (le_of_lt hk)
  have hT := p2_pos (l' - r' + 1)
  unfold resizeUCore; dsimp only
  rw [mkU_ok _ v (by omega) hv.1 hv.2, mkU_ok _ _ (by omega) hmax.1 hmax.2]
  simp only [bind, Except.bind, pure, Except.pure]
  rw [if_pos (by omega)]
  try dsimp only
  rw [left_eq _ _ _ (l' - r + 1) (by omega) (by omega) (by omega)]
  try dsimp only
  rw [if_neg (by omega)]
  try dsimp only
  rw [doRound_eq _ _ _ (by omega) (by omega)]
  try dsimp only
  rw [lsbRest_eq _ _ _ (l' - r + 1) (by omega) (by omega) (by omega)]
  try dsimp only
  rw [msbRest_eq _ _ _ (l' - r' + 1) (by omega) (by omega) (by omega)]
  try dsimp only
  unfold specResizeU quantize overflowU
  rw [if_neg (by omega)]
  try dsimp only
  rw [roundEven_eq]
  simp only [choose2, uAdd, max_eq_left (show (1:Int) ≤ l' - r' + 1 by omega)]
  by_cases hge : p2 (l' - r + 1) ≤ v
  · rw [if_pos (by simp [BV.any, BV.inv, ediv_ne_zero_iff v _ hv.1 hm, hge])]
    rw [uFromU_ok _ _ _ (by omega) (le_refl _) hmax]
    simp only [resultRaw, ↓reduceIte]
    unfold clamp hiU
    have : p2 (l' - r' + 1) ≤ v / p2 (r' - r) := by
      rw [Int.le_ediv_iff_mul_le hk, Int.mul_comm, ← hP]; exact hge
    rw [if_neg (by omega), if_pos (by omega)]
  · have hvm : v % p2 (l' - r + 1) = v := Int.emod_eq_of_lt hv.1 (by omega)
    have hq := ediv_rangeU v (l' - r + 1) (r' - r) (by omega) (by omega) ⟨hv.1, by omega⟩
    rw [show l' - r + 1 - (r' - r) = l' - r' + 1 by omega] at hq
    have hq1 := hq.1
    have hq2 := hq.2
    rw [hvm]
    by_cases hfull : v / p2 (r' - r) = p2 (l' - r' + 1) - 1
    · rw [if_pos (by simp [BV.any, BV.inv, hfull])]
      rw [uFromU_ok _ _ _ (by omega) (le_refl _) hmax]
      simp only [resultRaw, ↓reduceIte]
      unfold clamp hiU
      rcases hd with hd | hd
      · rw [hd, if_neg (by omega), if_neg (by omega)]; congr 1; omega
      · rw [hd, if_neg (by omega), if_pos (by omega)]
    · rw [if_neg (by simp [BV.any, BV.inv, ediv_ne_zero_iff v _ hv.1 hm, hge]; omega), if_neg (by simp)]
      have hs : inRangeU (l' - r' + 1) (v / p2 (r' - r) + roundInc v (r' - r)) := ⟨by omega, by omega⟩
      rw [Int.emod_eq_of_lt hs.1 hs.2, uFromU_ok _ _ _ (by omega) (le_refl _) hs]
      simp only [resultRaw, ↓reduceIte]
      rw [clamp_id _ _ _ hs.1 (by unfold hiU; have := hs.2; omega)]

theorem coreU_cut_round (l r v l' r' : Int) (os : Ovf) (hv : inRangeU (l - r + 1) v)
    (hl : l ≤ l') (hr : r < r') (ht : r' ≤ l) :
    resizeUCore l r v l' r' .round os = .ok (specResizeU r v l' r' .round os) := by
  have hmax := hmaxU (l' - r' + 1)
  have hq := ediv_rangeU v (l - r + 1) (r' - r) (by omega) (by omega) hv
  rw [show l - r + 1 - (r' - r) = l - r' + 1 by omega] at hq
  have hq1 := hq.1
  have hq2 := hq.2
  have hd := roundInc_01 v (r' - r)
  have hle := p2_le (l - r' + 1) (l' - r' + 1) (by omega) (by omega)
  unfold resizeUCore; dsimp only
  rw [mkU_ok _ v (by omega) hv.1 hv.2, mkU_ok _ _ (by omega) hmax.1 hmax.2]
  simp only [bind, Except.bind, pure, Except.pure]
  rw [if_neg (by omega), if_neg (by omega)]
  try dsimp only
  rw [doRound_eq _ _ _ (by omega) (by omega)]
  try dsimp only
  rw [msbRest_eq _ _ _ (l - r' + 1) (by omega) (by omega) (by omega)]
  try dsimp only
  rw [uResize_ok _ _ _ _ (by omega) (by omega) (by omega) hq]
  try dsimp only
  simp only [uAdd, max_eq_left (show (1:Int) ≤ l' - r' + 1 by omega), p2_zero, Int.mul_one]
  unfold specResizeU quantize
  rw [if_neg (show ¬ r ≥ r' by omega)]
  try dsimp only
  rw [roundEven_eq]
  by_cases hc : os = .saturate ∧ l = l'
  · obtain ⟨hos, hll⟩ := hc
    subst hos; subst hll
    rw [if_pos ⟨rfl, rfl⟩]
    simp only [choose2]
    by_cases hfull : v / p2 (r' - r) = p2 (l - r' + 1) - 1 ∧ roundInc v (r' - r) = 1
    · rw [if_pos (by simp [BV.any, BV.inv, hfull.1, hfull.2])]
      rw [uFromU_ok _ _ _ (by omega) (le_refl _) hmax]
      simp only [resultRaw, ↓reduceIte]
      unfold overflowU clamp hiU
      rw [hfull.1, hfull.2, if_neg (by omega), if_pos (by omega)]
    · rw [if_neg (by simp [BV.any, BV.inv]; omega), if_neg (by simp)]
      have hs : inRangeU (l - r' + 1) (v / p2 (r' - r) + roundInc v (r' - r)) := ⟨by omega, by omega⟩
      rw [Int.emod_eq_of_lt hs.1 hs.2, uFromU_ok _ _ _ (by omega) (le_refl _) hs]
      simp only [resultRaw, ↓reduceIte]
      rw [overflowU_id _ _ _ hs]
  · rw [if_neg hc]
    rw [uFromU_ok _ _ _ (by omega) (le_refl _) (emod_rangeU _ _)]
    simp only [resultRaw, ↓reduceIte]
    cases os with
    | wrap => rfl
    | saturate =>
      have hne : l ≠ l' := fun h => hc ⟨rfl, h⟩
      have hle2 := p2_le (l - r' + 1) (l' - r' + 1 - 1) (by omega) (by omega)
      have hpp := p2_pred (l' - r' + 1) (by omega)
      have hs : inRangeU (l' - r' + 1) (v / p2 (r' - r) + roundInc v (r' - r)) := ⟨by omega, by omega⟩
      rw [Int.emod_eq_of_lt hs.1 hs.2, overflowU_id _ _ _ hs]

/-- UFixed `_resize_overlapping` = spec, for all overlapping formats, styles and values -/
theorem resizeU1_spec (l r v l' r' : Int) (rs : Round) (os : Ovf) (hlr : r ≤ l) (hlr' : r' ≤ l')
    (hv : inRangeU (l - r + 1) v) (ho1 : r' ≤ l) (ho2 : r ≤ l') :
    resizeU1 l r v l' r' rs os = .ok (specResizeU r v l' r' rs os) := by
  unfold resizeU1
  by_cases hc : l = l' ∧ r = r'
  · rw [if_pos hc, mkU_ok _ v (by omega) hv.1 hv.2]
    obtain ⟨c1, c2⟩ := hc
    subst c1; subst c2
    rw [specU_ext l r v l r rs os hlr hv (le_refl _) (le_refl _)]
    simp [Except.map, p2_zero]
  · rw [if_neg hc]
    by_cases hl : l ≤ l'
    · by_cases hr : r' ≤ r
      · rw [coreU_ext l r v l' r' rs os hlr hv hl hr, specU_ext l r v l' r' rs os hlr hv hl hr]
      · cases rs with
        | truncate => exact coreU_cut_trunc l r v l' r' os hv hl (by omega) ho1
        | round => exact coreU_cut_round l r v l' r' os hv hl (by omega) ho1
    · by_cases hr : r' ≤ r
      · cases os with
        | wrap => exact coreU_ovf_wrap l r v l' r' rs hv (by omega) hr ho2
        | saturate => exact coreU_ovf_sat l r v l' r' rs hv (by omega) hr ho2
      · cases rs with
        | truncate =>
          cases os with
          | wrap => exact coreU_ovf_cut_trunc_wrap l r v l' r' hv (by omega) (by omega) hlr'
          | saturate => exact coreU_ovf_cut_trunc_sat l r v l' r' hv (by omega) (by omega) hlr'
        | round =>
          cases os with
          | wrap => exact coreU_ovf_cut_round_wrap l r v l' r' hv (by omega) (by omega) hlr'
          | saturate => exact coreU_ovf_cut_round_sat l r v l' r' hv (by omega) (by omega) hlr'

/-- UFixed `resize_fn` = spec, for ALL formats (disjoint ones included), styles and values -/
theorem resizeU_spec (l r v l' r' : Int) (rs : Round) (os : Ovf) (hlr : r ≤ l) (hlr' : r' ≤ l')
    (hv : inRangeU (l - r + 1) v) :
    resizeU l r v l' r' rs os = .ok (specResizeU r v l' r' rs os) := by
  unfold resizeU
  by_cases hd : l < r' ∨ l' < r
  · rw [if_pos hd]
    dsimp only
    rcases hd with hd | hd
    · rw [max_eq_right (show l ≤ r' by omega), min_eq_left (show r ≤ l' by omega)]
      rw [ctorFixedU_covers r' r l r v hlr hv (by omega) (le_refl _)]
      simp only [bind, Except.bind, sub_self, p2_zero, Int.mul_one]
      exact resizeU1_spec r' r v l' r' rs os (by omega) hlr'
        (inRangeU_mono _ _ _ (by omega) (by omega) hv) (le_refl _) (by omega)
    · rw [max_eq_left (show r' ≤ l by omega), min_eq_right (show l' ≤ r by omega)]
      rw [ctorFixedU_covers l l' l r v hlr hv (le_refl _) (by omega)]
      simp only [bind, Except.bind]
      have hsc := scaleU (l - r + 1) (r - l') v (by omega) (by omega) hv
      rw [show l - r + 1 + (r - l') = l - l' + 1 by omega] at hsc
      rw [resizeU1_spec l l' (v * p2 (r - l')) l' r' rs os (by omega) hlr' hsc (by omega) (le_refl _)]
      congr 1
      unfold specResizeU quantize
      rw [if_pos (by omega), if_pos (by omega), Int.mul_assoc, ← p2_add _ _ (by omega) (by omega),
        show r - l' + (l' - r') = r - r' by omega]
  · rw [if_neg hd]
    exact resizeU1_spec l r v l' r' rs os hlr hlr' hv (by omega) (by omega)

end CohdlVerif.C19
