import CohdlVerif.Model.C10

/-! C10 - helper lemmas: closed forms of the three loops of `bind_args` -/
namespace CohdlVerif.C10

theorem lookup_isSome_iff (n : Name) (kw : Kw) : (lookup n kw).isSome = kw.any (fun kv => kv.1 == n) := by
  induction kw with
  | nil => rfl
  | cons h t ih =>
    obtain ⟨k, v⟩ := h
    simp only [lookup, List.any_cons]
    by_cases hk : k = n
    · simp [hk]
    · simp [hk, ih]

theorem lookup_filter (n : Name) (kw : Kw) (P : Name → Bool) (h : P n = true) :
    lookup n (kw.filter fun kv => P kv.1) = lookup n kw := by
  induction kw with
  | nil => rfl
  | cons hd t ih =>
    obtain ⟨k, v⟩ := hd
    by_cases hk : k = n
    · subst hk; simp [List.filter, h, lookup]
    · by_cases hp : P k = true
      · simp [List.filter, hp, lookup, hk, ih]
      · simp [List.filter, hp, lookup, hk, ih]

theorem lookup_erase_ne (a b : Name) (kw : Kw) (h : a ≠ b) : lookup a (erase b kw) = lookup a kw := by
  unfold erase
  have := lookup_filter a kw (fun k => decide (k ≠ b)) (by simp [h])
  simpa using this

theorem fill_congr (f g : Name → Option Val) (ps : List Name) (vs : List Val)
    (h : ∀ p ∈ ps, f p = g p) : fill f ps vs = fill g ps vs := by
  induction ps generalizing vs with
  | nil => cases vs <;> rfl
  | cons p ps ih =>
    have ih' := fun vs => ih vs (fun q hq => h q (List.mem_cons_of_mem _ hq))
    cases vs with
    | nil => simp only [fill, h p (List.mem_cons_self), ih']
    | cons v vs => simp only [fill, ih']

/-- closed form of the positional-only loop -/
theorem posonlyLoop_eq (s : Sig) (kw : Kw) (ps : List Name) (pos : List Val) :
    posonlyLoop s kw ps pos =
      if (ps.any fun p => (lookup p kw).isSome) && s.kwarg.isNone then none
      else (fill (fun p => lookup p s.defaults) ps pos).map fun e => (e, pos.drop ps.length) := by
  induction ps generalizing pos with
  | nil => cases pos <;> simp [posonlyLoop, fill]
  | cons p ps ih =>
    cases pos with
    | nil =>
      simp only [posonlyLoop, ih, fill, List.any_cons]
      by_cases hA : (ps.any fun p => (lookup p kw).isSome) = true <;>
      by_cases hL : (lookup p kw).isSome = true <;>
      by_cases hK : s.kwarg.isNone = true <;>
      cases hD : lookup p s.defaults <;>
      cases hF : fill (fun p => lookup p s.defaults) ps [] <;> simp [hA, hL, hK]
    | cons a rest =>
      simp only [posonlyLoop, ih, fill, List.any_cons]
      by_cases hA : (ps.any fun p => (lookup p kw).isSome) = true <;>
      by_cases hL : (lookup p kw).isSome = true <;>
      by_cases hK : s.kwarg.isNone = true <;>
      cases hF : fill (fun p => lookup p s.defaults) ps rest <;> simp [hA, hL, hK]

@[simp] theorem firstOf_some (v : Val) (y : Option Val) : firstOf (some v) y = some v := rfl
@[simp] theorem firstOf_none (y : Option Val) : firstOf none y = y := rfl

theorem filter_true' (kw : Kw) : kw.filter (fun _ => true) = kw := by
  induction kw with
  | nil => rfl
  | cons h t ih => simp [List.filter, ih]

theorem lookup_none_iff (n : Name) (kw : Kw) : lookup n kw = none ↔ ∀ kv ∈ kw, kv.1 ≠ n := by
  induction kw with
  | nil => simp [lookup]
  | cons h t ih =>
    obtain ⟨k, v⟩ := h
    by_cases hk : k = n
    · simp [lookup, hk]
    · simp [lookup, hk, ih]

theorem erase_filter (a : Name) (as : List Name) (kw : Kw) :
    (erase a kw).filter (fun kv => !as.contains kv.1) = kw.filter (fun kv => !(a :: as).contains kv.1) := by
  unfold erase
  rw [List.filter_filter]
  apply List.filter_congr
  intro kv _
  by_cases h : kv.1 = a <;> simp [h]

theorem filter_cons_of_lookup_none (a : Name) (as : List Name) (kw : Kw) (h : lookup a kw = none) :
    kw.filter (fun kv => !(a :: as).contains kv.1) = kw.filter (fun kv => !as.contains kv.1) := by
  apply List.filter_congr
  intro kv hkv
  have := (lookup_none_iff a kw).mp h kv hkv
  simp [this]

/-- closed form of the positional-or-keyword loop -/
theorem argsLoop_eq (s : Sig) (as : List Name) (hnd : as.Nodup) (pos : List Val) (kw : Kw) :
    argsLoop s as pos kw =
      if (as.take pos.length).any fun a => (lookup a kw).isSome then none
      else (fill (fun a => firstOf (lookup a kw) (lookup a s.defaults)) as pos).map
        fun e => (e, pos.drop as.length, kw.filter fun kv => !(as.drop pos.length).contains kv.1) := by
  induction as generalizing pos kw with
  | nil => cases pos <;> simp [argsLoop, fill, filter_true']
  | cons a as ih =>
    have hnd' : as.Nodup := (List.nodup_cons.mp hnd).2
    have hna : a ∉ as := (List.nodup_cons.mp hnd).1
    cases pos with
    | cons v rest =>
      simp only [argsLoop, ih hnd', fill, List.length_cons, List.take_succ_cons, List.any_cons,
        List.drop_succ_cons]
      by_cases hA : ((as.take rest.length).any fun a => (lookup a kw).isSome) = true <;>
      by_cases hL : (lookup a kw).isSome = true <;>
      cases hF : fill (fun a => firstOf (lookup a kw) (lookup a s.defaults)) as rest <;> simp [hA, hL]
    | nil =>
      have hcongr : fill (fun b => firstOf (lookup b (erase a kw)) (lookup b s.defaults)) as [] =
          fill (fun b => firstOf (lookup b kw) (lookup b s.defaults)) as [] := by
        apply fill_congr
        intro q hq
        have : q ≠ a := fun h => hna (h ▸ hq)
        simp only [lookup_erase_ne q a kw this]
      cases hL : lookup a kw with
      | some v =>
        simp only [argsLoop, hL, ih hnd', fill, List.length_nil, List.take_zero, List.any_nil,
          Bool.false_eq_true, if_false, List.drop_zero, List.drop_nil, hcongr, erase_filter, firstOf_some, firstOf_none]
        cases fill (fun b => firstOf (lookup b kw) (lookup b s.defaults)) as [] <;> simp
      | none =>
        cases hD : lookup a s.defaults with
        | none => simp [argsLoop, hL, hD, fill, firstOf_some, firstOf_none]
        | some d =>
          simp only [argsLoop, hL, hD, ih hnd', fill, List.length_nil, List.take_zero, List.any_nil,
            Bool.false_eq_true, if_false, List.drop_zero, List.drop_nil, firstOf_some, firstOf_none,
            filter_cons_of_lookup_none a as kw hL]
          cases fill (fun b => firstOf (lookup b kw) (lookup b s.defaults)) as [] <;> simp

/-- closed form of the keyword-only loop -/
theorem kwonlyLoop_eq (s : Sig) (ks : List Name) (hnd : ks.Nodup) (kw : Kw) :
    kwonlyLoop s ks kw =
      (fill (fun k => firstOf (lookup k kw) (lookup k s.kwdefaults)) ks []).map
        fun e => (e, kw.filter fun kv => !ks.contains kv.1) := by
  induction ks generalizing kw with
  | nil => simp [kwonlyLoop, fill, filter_true']
  | cons a as ih =>
    have hnd' : as.Nodup := (List.nodup_cons.mp hnd).2
    have hna : a ∉ as := (List.nodup_cons.mp hnd).1
    have hcongr : fill (fun b => firstOf (lookup b (erase a kw)) (lookup b s.kwdefaults)) as [] =
        fill (fun b => firstOf (lookup b kw) (lookup b s.kwdefaults)) as [] := by
      apply fill_congr
      intro q hq
      have : q ≠ a := fun h => hna (h ▸ hq)
      simp only [lookup_erase_ne q a kw this]
    cases hL : lookup a kw with
    | some v =>
      simp only [kwonlyLoop, hL, ih hnd', fill, hcongr, erase_filter, firstOf_some, firstOf_none]
      cases fill (fun b => firstOf (lookup b kw) (lookup b s.kwdefaults)) as [] <;> simp
    | none =>
      cases hD : lookup a s.kwdefaults with
      | none => simp [kwonlyLoop, hL, hD, fill, firstOf_some, firstOf_none]
      | some d =>
        simp only [kwonlyLoop, hL, hD, ih hnd', fill, firstOf_some, firstOf_none, filter_cons_of_lookup_none a as kw hL]
        cases fill (fun b => firstOf (lookup b kw) (lookup b s.kwdefaults)) as [] <;> simp

/-- no conflict between positionally filled parameters and keywords: the keyword arguments that are left
    after the two loops are exactly the ones that name no addressable parameter -/
theorem leftover_eq (A K : List Name) (kw : Kw) (n : Nat)
    (h : ((A.take n).any fun a => (lookup a kw).isSome) = false) :
    (kw.filter fun kv => !(A.drop n).contains kv.1).filter (fun kv => !K.contains kv.1) =
      kw.filter fun kv => !(A ++ K).contains kv.1 := by
  rw [List.filter_filter]
  apply List.filter_congr
  intro kv hkv
  have hnot : kv.1 ∉ A.take n := by
    intro hm
    have h1 := List.any_eq_false.mp h kv.1 hm
    have h2 : lookup kv.1 kw = none := by simpa using h1
    exact (lookup_none_iff kv.1 kw).mp h2 kv hkv rfl
  have hsplit : kv.1 ∈ A ↔ kv.1 ∈ A.drop n := by
    constructor
    · intro hm
      rw [← List.take_append_drop n A] at hm
      rcases List.mem_append.mp hm with h1 | h1
      · exact absurd h1 hnot
      · exact h1
    · exact fun hm => List.mem_of_mem_drop hm
  by_cases hA : kv.1 ∈ A <;> by_cases hK : kv.1 ∈ K <;> simp [hA, hK, hsplit.mp, ← hsplit]
  all_goals simp_all

theorem extra_nonempty (P A K : List Name) (kw : Kw) (hnd : (P ++ A ++ K).Nodup)
    (h : (P.any fun p => (lookup p kw).isSome) = true) :
    (kw.filter fun kv => !(A ++ K).contains kv.1).isEmpty = false := by
  obtain ⟨p, hp, hl⟩ := List.any_eq_true.mp h
  rw [lookup_isSome_iff] at hl
  obtain ⟨kv, hkv, hk⟩ := List.any_eq_true.mp hl
  have hk : kv.1 = p := by simpa using hk
  have hnotin : p ∉ A ++ K := by
    rw [List.append_assoc] at hnd
    have := (List.nodup_append.mp hnd).2.2
    intro hm
    exact this p hp p hm rfl
  have : kv ∈ kw.filter fun kv => !(A ++ K).contains kv.1 := by
    apply List.mem_filter.mpr
    refine ⟨hkv, ?_⟩
    simp only [hk, List.contains_eq_mem, Bool.not_eq_true', decide_eq_false_iff_not]
    exact hnotin
  cases hf : (kw.filter fun kv => !(A ++ K).contains kv.1) with
  | nil => rw [hf] at this; simp at this
  | cons _ _ => rfl

theorem bind_equiv_aux (s : Sig) (c : Call) (h : s.wf) : bindModel s c = cpyBind s c := by
  have hnd : (s.posonly ++ s.args ++ s.kwonly).Nodup := h
  have hndA : s.args.Nodup := by
    have := (List.nodup_append.mp hnd).1
    exact (List.nodup_append.mp this).2.1
  have hndK : s.kwonly.Nodup := (List.nodup_append.mp hnd).2.1
  have hAK : ∀ k ∈ s.kwonly, k ∉ s.args := by
    intro k hk hm
    have := (List.nodup_append.mp hnd).2.2
    exact this k (List.mem_append_right _ hm) k hk rfl
  unfold bindModel cpyBind
  rw [posonlyLoop_eq]
  by_cases hcp : ((s.posonly.any fun p => (lookup p c.kw).isSome) && s.kwarg.isNone) = true
  · have hany : (s.posonly.any fun p => (lookup p c.kw).isSome) = true := by simp_all
    have hx := extra_nonempty s.posonly s.args s.kwonly c.kw hnd hany
    have hk : s.kwarg.isNone = true := by simp_all
    simp only [hany, if_true, hk, hx, Bool.not_false, Bool.and_self]
    split
    · rfl
    · split <;> rfl
  · simp only [hcp, Bool.false_eq_true, if_false, ↓reduceIte]
    cases hF1 : fill (fun p => lookup p s.defaults) s.posonly c.pos with
    | none => simp
    | some e1 =>
      simp only [Option.map_some]
      rw [argsLoop_eq s s.args hndA]
      simp only [List.length_drop]
      by_cases hca : ((s.args.take (c.pos.length - s.posonly.length)).any fun a => (lookup a c.kw).isSome) = true
      · simp [hca]
      · simp only [hca, Bool.false_eq_true, if_false, ↓reduceIte]
        have hca' : ((s.args.take (c.pos.length - s.posonly.length)).any fun a => (lookup a c.kw).isSome) = false := by
          simpa using hca
        cases hF2 : fill (fun a => firstOf (lookup a c.kw) (lookup a s.defaults)) s.args (c.pos.drop s.posonly.length) with
        | none => simp
        | some e2 =>
          simp only [Option.map_some]
          rw [kwonlyLoop_eq s s.kwonly hndK]
          have hF4 : fill (fun k => firstOf (lookup k (c.kw.filter fun kv => !(s.args.drop (c.pos.length - s.posonly.length)).contains kv.1)) (lookup k s.kwdefaults)) s.kwonly [] =
              fill (fun k => firstOf (lookup k c.kw) (lookup k s.kwdefaults)) s.kwonly [] := by
            apply fill_congr
            intro k hk
            have hnot : k ∉ s.args.drop (c.pos.length - s.posonly.length) :=
              fun hm => hAK k hk (List.mem_of_mem_drop hm)
            rw [lookup_filter k c.kw (fun n => !(s.args.drop (c.pos.length - s.posonly.length)).contains n) (by simpa using hnot)]
          rw [hF4, leftover_eq s.args s.kwonly c.kw _ hca']
          cases hF4v : fill (fun k => firstOf (lookup k c.kw) (lookup k s.kwdefaults)) s.kwonly [] with
          | none =>
            cases hv : s.vararg <;> simp
            split <;> simp
          | some e4 =>
            simp only [Option.map_some, List.drop_drop, List.length_append]
            cases hv : s.vararg with
            | none =>
              simp only [Option.isNone_none, Bool.true_and, List.isEmpty_iff, List.drop_eq_nil_iff, decide_eq_true_eq]
              by_cases hlen : c.pos.length ≤ s.posonly.length + s.args.length
              · have hlen' : ¬ (s.posonly.length + s.args.length < c.pos.length) := by omega
                simp only [hlen, hlen', if_true, if_false]
                cases hkw : s.kwarg with
                | none =>
                  simp only [Option.isNone_none, Bool.true_and]
                  cases hx : (c.kw.filter fun kv => !(s.args ++ s.kwonly).contains kv.1) <;> simp
                | some n => simp
              · have hlen' : (s.posonly.length + s.args.length < c.pos.length) := by omega
                simp only [hlen, hlen', if_true, if_false]
            | some vn =>
              simp only [Option.isNone_some, Bool.false_and, Bool.false_eq_true, if_false]
              cases hkw : s.kwarg with
              | none =>
                simp only [Option.isNone_none, Bool.true_and]
                cases hx : (c.kw.filter fun kv => !(s.args ++ s.kwonly).contains kv.1) <;> simp
              | some n => simp

/-! comparison chains -/

@[simp] theorem isCmp_cmp (i : Nat) : (Ev.cmp i).isCmp = true := rfl

@[simp] theorem isCmp_operand (i : Nat) : (Ev.operand i).isCmp = false := rfl

theorem cmpLoop_val (link : Nat → Bool) (i k : Nat) :
    (cmpLoop link i k).1 = (pyChainFrom link i k).1 ∧
    (cmpLoop link i k).1 = (List.range' i k).all link ∧
    (cmpLoop link i k).2 = (pyChainFrom link i k).2.filter Ev.isCmp := by
  induction k generalizing i with
  | zero => simp [cmpLoop, pyChainFrom]
  | succ k ih =>
    obtain ⟨h1, h2, h3⟩ := ih (i + 1)
    unfold cmpLoop pyChainFrom
    cases hl : link i
    · simp [List.range'_succ, hl, List.filter_cons]
    · simp [List.range'_succ, hl, List.filter_cons, ← h1, h2, h3]

theorem cmpLoop_no_operand (link : Nat → Bool) (i k j : Nat) : Ev.operand j ∉ (cmpLoop link i k).2 := by
  induction k generalizing i with
  | zero => simp [cmpLoop]
  | succ k ih =>
    unfold cmpLoop
    split
    · simp [ih (i + 1)]
    · simp

theorem operands_filter (n : Nat) :
    ((List.range (n + 1)).map Ev.operand).filter (fun e => !e.isCmp) = (List.range (n + 1)).map Ev.operand := by
  apply List.filter_eq_self.mpr
  intro e he
  obtain ⟨i, _, rfl⟩ := List.mem_map.mp he
  simp

theorem cmpLoop_filter (link : Nat → Bool) (n : Nat) : (cmpLoop link 0 n).2.filter (fun e => !e.isCmp) = [] := by
  apply List.filter_eq_nil_iff.mpr
  intro e he
  cases e with
  | operand j => exact absurd he (cmpLoop_no_operand link 0 n j)
  | cmp j => simp

theorem pyChainFrom_operands (link : Nat → Bool) (i k : Nat) (h : ∀ j, i ≤ j → j + 1 < i + k → link j = true) :
    (pyChainFrom link i k).2.filter (fun e => !e.isCmp) = (List.range' (i + 1) k).map Ev.operand := by
  induction k generalizing i with
  | zero => simp [pyChainFrom]
  | succ k ih =>
    unfold pyChainFrom
    by_cases hl : link i = true
    · have := ih (i + 1) (fun j h1 h2 => h j (by omega) (by omega))
      simp [hl, this, List.range'_succ, List.filter_cons]
    · cases k with
      | zero => simp [hl, List.filter_cons]
      | succ k => exact absurd (h i (Nat.le_refl _) (by omega)) hl

end CohdlVerif.C10
